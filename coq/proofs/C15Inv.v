(* C15Inv.v — invariances of Distributions(...).image(IM).cos() on the
   executable model (model/DistrGeom.v, model/DistrFit.v, R instance):
   top-bottom mirroring with odd orders (odd coefficients change sign),
   scaling of all weights, larger rmax (nearest method, even orders). *)
From Coq Require Import List Arith Lia Bool ZArith Reals Lra.
From Coq Require Import ZifyBool ZifyNat.
From PA Require Import base.Arr base.Px base.MatL model.DistrGeom gen.VmiInv model.DistrFit
  proofs.VmiInvProofs proofs.DistrGeomProofs proofs.DistrFitProofs proofs.C14R proofs.C15R.
Import ListNotations.
Open Scope R_scope.

(* ---- sums over pixel lists and over the quadrant ------------------------------------ *)
Notation sumR := (sum Rops).

(* additive measures of a pixel: w x^n (normal matrix) and q x^n (data) *)
Definition mu (n : nat) (t : pixelR) : R := let '(w, x, _) := t in w * cpowR x n.
Definition nu (n : nat) (t : pixelR) : R := let '(_, x, q) := t in q * cpowR x n.
Definition S (m : pixelR -> R) (l : list pixelR) : R := sumR (map m l).

Lemma momentR_S n l : momentR n l = S (mu n) l.
Proof. reflexivity. Qed.
Lemma dmomentR_S n l : dmomentR n l = S (nu n) l.
Proof. reflexivity. Qed.

Lemma S_app m l1 l2 : S m (l1 ++ l2) = S m l1 + S m l2.
Proof. unfold S. rewrite map_app. apply sumR_app. Qed.

Lemma sumR_rev l : sumR (rev l) = sumR l.
Proof.
  induction l as [|x l IH]; [reflexivity|]. cbn [rev]. rewrite sumR_app, sumR_cons, IH.
  rewrite sumR_cons, sumR_nil. lra.
Qed.

Lemma sum_map_flat_map {X Y : Type} (f : Y -> R) (G : X -> list Y) l :
  sumR (map f (flat_map G l)) = sumR (map (fun x => sumR (map f (G x))) l).
Proof.
  induction l as [|x l IH]; [reflexivity|]. cbn [flat_map map].
  rewrite map_app, sumR_app, sumR_cons, IH. reflexivity.
Qed.

Lemma sum_map_ext_scale {X : Type} (f f' : X -> R) k l :
  (forall x, In x l -> f' x = k * f x) -> sumR (map f' l) = k * sumR (map f l).
Proof.
  induction l as [|x l IH]; intros H; cbn [map]; [rewrite sumR_nil; lra|].
  rewrite !sumR_cons, IH by (intros; apply H; right; assumption).
  rewrite (H x) by (left; reflexivity). ring.
Qed.

Lemma seq_rev n : rev (seq 0 n) = map (fun a => (n - 1 - a)%nat) (seq 0 n).
Proof.
  apply nth_ext with (d := 0%nat) (d' := 0%nat).
  - rewrite rev_length, map_length. reflexivity.
  - intros i Hi. rewrite rev_length, seq_length in Hi.
    rewrite rev_nth by (rewrite seq_length; exact Hi). rewrite seq_length.
    rewrite (nth_map_gen _ (seq 0 n) i 0%nat 0%nat) by (rewrite seq_length; exact Hi).
    rewrite !seq_nth by lia. lia.
Qed.

Lemma sum_seq_rev n (G : nat -> R) :
  sumR (map G (seq 0 n)) = sumR (map (fun a => G (n - 1 - a)%nat) (seq 0 n)).
Proof. rewrite <- (sumR_rev (map G (seq 0 n))), <- map_rev, seq_rev, map_map. reflexivity. Qed.

(* the quadrant index list, row-major *)
Definition qidx (n m : nat) : list (nat * nat) :=
  flat_map (fun a => map (fun b => (a, b)) (seq 0 m)) (seq 0 n).
Lemma quad_idx_qidx g : quad_idx g = qidx (g_Qh g) (g_Qw g).
Proof. reflexivity. Qed.

Lemma in_qidx n m a b : In (a, b) (qidx n m) <-> (a < n /\ b < m)%nat.
Proof.
  unfold qidx. rewrite in_flat_map. split.
  - intros [a' [Ha Hb]]. apply in_map_iff in Hb. destruct Hb as [b' [E Hb]].
    injection E as -> ->. apply in_seq in Ha, Hb. lia.
  - intros [Ha Hb]. exists a. split; [apply in_seq; lia|]. apply in_map. apply in_seq. lia.
Qed.

Lemma qsum_rows n m (f : nat * nat -> R) :
  sumR (map f (qidx n m)) = sumR (map (fun a => sumR (map (fun b => f (a, b)) (seq 0 m))) (seq 0 n)).
Proof.
  unfold qidx. rewrite sum_map_flat_map. f_equal. apply map_ext. intros a. rewrite map_map. reflexivity.
Qed.

(* reversing the rows of the quadrant does not change a sum over it *)
Lemma qsum_rev n m (f : nat * nat -> R) :
  sumR (map f (qidx n m)) = sumR (map (fun ab => f ((n - 1 - fst ab)%nat, snd ab)) (qidx n m)).
Proof.
  rewrite !qsum_rows. rewrite sum_seq_rev. reflexivity.
Qed.

(* a family of at most one pixel per quadrant position *)
Definition fam (n m : nat) (c : nat -> nat -> bool) (p : nat -> nat -> pixelR) : list pixelR :=
  flat_map (fun ab => if c (fst ab) (snd ab) then [p (fst ab) (snd ab)] else []) (qidx n m).

Lemma S_fam ms n m c p :
  S ms (fam n m c p) = sumR (map (fun ab => if c (fst ab) (snd ab) then ms (p (fst ab) (snd ab)) else 0) (qidx n m)).
Proof.
  unfold S, fam. rewrite sum_map_flat_map. f_equal. apply map_ext. intros [a b]. cbn [fst snd].
  destruct (c a b); cbn [map]; [rewrite sumR_cons, sumR_nil; lra|apply sumR_nil].
Qed.

(* same positions, every measure multiplied by k *)
Lemma fam_scale ms n m c c' p p' k :
  (forall a b, (a < n)%nat -> (b < m)%nat -> c' a b = c a b /\ ms (p' a b) = k * ms (p a b)) ->
  S ms (fam n m c' p') = k * S ms (fam n m c p).
Proof.
  intros H. rewrite !S_fam. apply sum_map_ext_scale. intros [a b] Hab. apply in_qidx in Hab.
  cbn [fst snd]. destruct (H a b) as [Hc Hm]; try lia. rewrite Hc. destruct (c a b); [exact Hm|ring].
Qed.

(* rows reversed, every measure multiplied by k *)
Lemma fam_mirror ms n m c c' p p' k :
  (forall a b, (a < n)%nat -> (b < m)%nat ->
     c' a b = c (n - 1 - a)%nat b /\ ms (p' a b) = k * ms (p (n - 1 - a)%nat b)) ->
  S ms (fam n m c' p') = k * S ms (fam n m c p).
Proof.
  intros H. rewrite !S_fam. rewrite (qsum_rev n m (fun ab => if c (fst ab) (snd ab) then ms (p (fst ab) (snd ab)) else 0)).
  apply sum_map_ext_scale. intros [a b] Hab. apply in_qidx in Hab.
  cbn [fst snd]. destruct (H a b) as [Hc Hm]; try lia. rewrite Hc. destruct (c (n - 1 - a)%nat b); [exact Hm|ring].
Qed.

(* the pixel lists of DistrFit.v as families *)
Lemma pixels_nearest_fam g wq dq r :
  pixels Rops sqrtR Nearest g wq dq r
  = fam (g_Qh g) (g_Qw g) (fun a b => Nat.eqb (bin Nearest g a b) r)
        (fun a b => (wq a b, cos1 Rops sqrtR g a b, dq a b)).
Proof. unfold pixels, fam. rewrite quad_idx_qidx. apply flat_map_ext. intros [a b]. reflexivity. Qed.

Lemma pixels_linear_fam g wq dq r :
  pixels Rops sqrtR Linear g wq dq r
  = fam (g_Qh g) (g_Qw g) (fun a b => Nat.eqb (bin Linear g a b) r)
        (fun a b => (wl Rops sqrtR g a b * wq a b, cos1 Rops sqrtR g a b, wl Rops sqrtR g a b * dq a b))
    ++ fam (g_Qh g) (g_Qw g) (fun a b => Nat.eqb (Datatypes.S (bin Linear g a b)) r)
        (fun a b => (wu Rops sqrtR g a b * wq a b, cos1 Rops sqrtR g a b, wu Rops sqrtR g a b * dq a b)).
Proof.
  unfold pixels, fam. rewrite quad_idx_qidx.
  apply f_equal2; apply flat_map_ext; intros [a b]; reflexivity.
Qed.

(* ---- coefficients as a function of the moments ---------------------------------------- *)
Definition flip_odd (l : list R) : list R :=
  match l with
  | [c0; c1] => [c0; - c1]
  | [c0; c1; c2] => [c0; - c1; c2]
  | _ => l
  end.

Definition N123 (N : nat) : Prop := N = 1%nat \/ N = 2%nat \/ N = 3%nat.

(* moments and data moments multiplied by s^n, s = -1: odd coefficients change sign *)
Lemma coeffs_flip N px px' : N123 N ->
  (forall n, momentR n px' = (-1) ^ n * momentR n px) ->
  (forall n, dmomentR n px' = (-1) ^ n * dmomentR n px) ->
  hdet N px <> 0 ->
  coeffsR N px' = option_map flip_odd (coeffsR N px).
Proof.
  intros HN Hm Hd Hdet. destruct HN as [->|[->| ->]]; cbn [hdet] in Hdet.
  - unfold det1 in Hdet. unfold coeffsR, coeffs, convC. fold momentR. fold dmomentR.
    cbn [map seq matvec option_map]. rewrite !Hm, !Hd. cbn [pow]. rewrite !Rmult_1_l.
    cbn [Rops feqb f0 f1 fdiv]. rewrite (Reqb_false _ _ Hdet). reflexivity.
  - unfold det2m in Hdet. unfold coeffsR, coeffs, convC. fold momentR. fold dmomentR. fold inv2R.
    assert (Hdet' : det2 (momentR 0 px') (momentR 1 px') (momentR 2 px') <> 0).
    { rewrite !Hm. unfold det2 in *. cbn [pow]. intro E. apply Hdet. lra. }
    rewrite (inv2_value _ _ _ Hdet'), (inv2_value _ _ _ Hdet).
    cbn [map seq matvec option_map flip_odd Nat.add]. rewrite !dotR2. rewrite !Hm, !Hd. cbn [pow].
    unfold det2 in *.
    set (p0 := momentR 0 px) in *. set (p1 := momentR 1 px) in *. set (p2 := momentR 2 px) in *.
    do 2 f_equal; [field; lra|]. f_equal. field. lra.
  - unfold det3m in Hdet. unfold coeffsR, coeffs, convC. fold momentR. fold dmomentR. fold inv3R.
    assert (Hdet' : det3 (momentR 0 px') (momentR 1 px') (momentR 2 px') (momentR 3 px') (momentR 4 px') <> 0).
    { rewrite !Hm. unfold det3 in *. cbn [pow]. intro E. apply Hdet. lra. }
    rewrite (inv3_value _ _ _ _ _ Hdet'), (inv3_value _ _ _ _ _ Hdet). cbv zeta.
    cbn [map seq matvec option_map flip_odd Nat.add]. rewrite !dotR3. rewrite !Hm, !Hd. cbn [pow].
    unfold det3 in *.
    set (p0 := momentR 0 px) in *. set (p1 := momentR 1 px) in *. set (p2 := momentR 2 px) in *.
    set (p3 := momentR 3 px) in *. set (p4 := momentR 4 px) in *.
    do 2 f_equal; [field; lra|]. f_equal; [field; lra|]. f_equal. field. lra.
Qed.

(* moments and data moments multiplied by the same k <> 0: same coefficients *)
Lemma coeffs_scale N px px' k : N123 N -> k <> 0 ->
  (forall n, momentR n px' = k * momentR n px) ->
  (forall n, dmomentR n px' = k * dmomentR n px) ->
  hdet N px <> 0 ->
  coeffsR N px' = coeffsR N px.
Proof.
  intros HN Hk Hm Hd Hdet. destruct HN as [->|[->| ->]]; cbn [hdet] in Hdet.
  - unfold det1 in Hdet. unfold coeffsR, coeffs, convC. fold momentR. fold dmomentR.
    cbn [map seq matvec]. rewrite !Hm, !Hd.
    cbn [Rops feqb f0 f1 fdiv]. rewrite (Reqb_false _ _ Hdet).
    assert (Hk0 : k * momentR 0 px <> 0) by (apply Rmult_integral_contrapositive; split; assumption).
    rewrite (Reqb_false _ _ Hk0). unfold dot. cbn [combine map fold_left fst snd Rops f0 fadd fmul].
    do 2 f_equal. field. split; assumption.
  - unfold det2m in Hdet. unfold coeffsR, coeffs, convC. fold momentR. fold dmomentR. fold inv2R.
    assert (Hdet' : det2 (momentR 0 px') (momentR 1 px') (momentR 2 px') <> 0).
    { rewrite !Hm. unfold det2 in *. intro E. apply Hdet.
      assert (E' : k * k * (momentR 0 px * momentR 2 px - momentR 1 px * momentR 1 px) = 0) by lra.
      apply Rmult_integral in E'. destruct E' as [E'|E']; [|exact E'].
      apply Rmult_integral in E'. tauto. }
    rewrite (inv2_value _ _ _ Hdet'), (inv2_value _ _ _ Hdet).
    cbn [map seq matvec Nat.add]. rewrite !dotR2. rewrite !Hm, !Hd. unfold det2 in *.
    set (p0 := momentR 0 px) in *. set (p1 := momentR 1 px) in *. set (p2 := momentR 2 px) in *.
    assert (Hkk : k * p0 * (k * p2) - k * p1 * (k * p1) <> 0) by (rewrite !Hm in Hdet'; exact Hdet').
    do 2 f_equal; [field; split; assumption|]. f_equal. field. split; assumption.
  - unfold det3m in Hdet. unfold coeffsR, coeffs, convC. fold momentR. fold dmomentR. fold inv3R.
    assert (Hdet' : det3 (momentR 0 px') (momentR 1 px') (momentR 2 px') (momentR 3 px') (momentR 4 px') <> 0).
    { rewrite !Hm. unfold det3 in *. intro E. apply Hdet.
      set (p0 := momentR 0 px) in *. set (p1 := momentR 1 px) in *. set (p2 := momentR 2 px) in *.
      set (p3 := momentR 3 px) in *. set (p4 := momentR 4 px) in *.
      assert (E' : k * k * k * (p0 * (p2 * p4 - p3 * p3) + p1 * (p2 * p3 - p1 * p4) + p2 * (p1 * p3 - p2 * p2)) = 0)
        by (rewrite <- E; ring).
      apply Rmult_integral in E'. destruct E' as [E'|E']; [|exact E'].
      apply Rmult_integral in E'. destruct E' as [E'|E']; [|tauto]. apply Rmult_integral in E'. tauto. }
    rewrite (inv3_value _ _ _ _ _ Hdet'), (inv3_value _ _ _ _ _ Hdet). cbv zeta.
    cbn [map seq matvec Nat.add]. rewrite !dotR3. rewrite !Hm, !Hd. rewrite !Hm in Hdet'. unfold det3 in *.
    set (p0 := momentR 0 px) in *. set (p1 := momentR 1 px) in *. set (p2 := momentR 2 px) in *.
    set (p3 := momentR 3 px) in *. set (p4 := momentR 4 px) in *.
    do 2 f_equal; [field; split; assumption|]. f_equal; [field; split; assumption|]. f_equal. field. split; assumption.
Qed.

(* ---- folding is linear ------------------------------------------------------------------ *)
Notation foldR := (fold_image 0 Rplus).
Notation pxR := (px 0).

Lemma px_imul h w (Wt IM : list (list R)) i j : wf h w Wt -> wf h w IM -> (i < h)%nat -> (j < w)%nat ->
  pxR (imul Rops Wt IM) i j = pxR Wt i j * pxR IM i j.
Proof. intros. unfold imul. rewrite (px_imap2 0 (fmul Rops) (n:=h) (m:=w)); try assumption. reflexivity. Qed.

Lemma fold_scale h w row col rmax odd N (X X' : list (list R)) k a b :
  (row < h)%nat -> (col < w)%nat ->
  let g := quad_geom h w row col rmax odd N in
  (forall i j, (i < h)%nat -> (j < w)%nat -> pxR X' i j = k * pxR X i j) ->
  (a < g_Qh g)%nat -> (b < g_Qw g)%nat ->
  pxR (foldR g X') a b = k * pxR (foldR g X) a b.
Proof.
  intros Hr Hc g HX Ha Hb. rewrite Rmult_comm. unfold g in *. destruct odd.
  - apply (fold_factor_odd h w row col rmax N X' X (fun _ _ => k)); try assumption.
    intros i j Hi1 Hi2 Hj. rewrite qg_Qh, qg_y0 in Hi2. rewrite HX by lia. ring.
  - apply (fold_factor_even h w row col rmax N X' X (fun _ _ => k)); try assumption.
    intros i j Hi Hj. rewrite HX by assumption. ring.
Qed.

(* ---- scaling all weights ------------------------------------------------------------------ *)
Lemma pixels_measure_scale ms meth g wq dq wq' dq' k r :
  (forall w x q, ms (k * w, x, k * q) = k * ms (w, x, q)) ->
  (forall c w x q, ms (c * (k * w), x, c * (k * q)) = k * ms (c * w, x, c * q)) ->
  (forall a b, (a < g_Qh g)%nat -> (b < g_Qw g)%nat -> wq' a b = k * wq a b /\ dq' a b = k * dq a b) ->
  S ms (pixels Rops sqrtR meth g wq' dq' r) = k * S ms (pixels Rops sqrtR meth g wq dq r).
Proof.
  intros H1 H2 HQ. destruct meth.
  - rewrite !pixels_nearest_fam. apply fam_scale. intros a b Ha Hb. split; [reflexivity|].
    destruct (HQ a b Ha Hb) as [-> ->]. apply H1.
  - rewrite !pixels_linear_fam, !S_app, Rmult_plus_distr_l.
    apply f_equal2; apply fam_scale; intros a b Ha Hb; (split; [reflexivity|]);
      destruct (HQ a b Ha Hb) as [-> ->]; apply H2.
Qed.

Theorem weights_scale h w row col rmax odd N meth use_sin (Wt IM : list (list R)) k r :
  (row < h)%nat -> (col < w)%nat -> wf h w Wt -> wf h w IM -> k <> 0 -> N123 N -> (r <= rmax)%nat ->
  let g := quad_geom h w row col rmax odd N in
  hdet N (distr_pixels Rops sqrtR meth g use_sin (Some Wt) IM r) <> 0 ->
  nth r (distr_cos Rops sqrtR meth g use_sin (Some (imap (Rmult k) Wt)) IM) None
  = nth r (distr_cos Rops sqrtR meth g use_sin (Some Wt) IM) None.
Proof.
  intros Hr Hc HW HIM Hk HN Hrr g Hdet.
  assert (Grm : g_rmax g = rmax) by apply qg_rmax. assert (GN : g_N g = N) by apply qg_N.
  assert (Gh : g_h g = h) by apply qg_h. assert (Gw : g_w g = w) by apply qg_w.
  unfold distr_cos. cbv zeta. rewrite Grm, GN. rewrite !nth_map_seq_opt by lia.
  unfold distr_pixels in Hdet.
  set (wq := QW Rops sqrtR g use_sin (Some Wt)) in *.
  set (dq := QD Rops sqrtR g use_sin (Some Wt) IM) in *.
  set (wq' := QW Rops sqrtR g use_sin (Some (imap (Rmult k) Wt))).
  set (dq' := QD Rops sqrtR g use_sin (Some (imap (Rmult k) Wt)) IM).
  assert (HW' : wf h w (imap (Rmult k) Wt)) by (apply wf_imap; exact HW).
  assert (PW : forall i j, (i < h)%nat -> (j < w)%nat -> pxR (imap (Rmult k) Wt) i j = k * pxR Wt i j)
    by (intros; apply (px_imap 0 (n:=h) (m:=w)); assumption).
  assert (Ewq : forall a b, (a < g_Qh g)%nat -> (b < g_Qw g)%nat -> wq' a b = k * wq a b).
  { intros a b Ha Hb. unfold wq', wq, QW. cbv beta iota zeta. cbn [Rops f0 fadd fmul].
    pose proof (fold_scale h w row col rmax odd N Wt (imap (Rmult k) Wt) k a b Hr Hc) as E.
    cbv zeta in E. fold g in E. rewrite (E PW Ha Hb).
    destruct use_sin; ring. }
  assert (Edq : forall a b, (a < g_Qh g)%nat -> (b < g_Qw g)%nat -> dq' a b = k * dq a b).
  { intros a b Ha Hb. unfold dq', dq, QD. cbv beta iota zeta. cbn [Rops f0 fadd fmul].
    pose proof (fold_scale h w row col rmax odd N (imul Rops Wt IM) (imul Rops (imap (Rmult k) Wt) IM) k a b Hr Hc) as E.
    cbv zeta in E. fold g in E. rewrite E; try assumption.
    - destruct use_sin; ring.
    - intros i j Hi Hj. rewrite !(px_imul h w) by assumption. rewrite PW by assumption. ring. }
  assert (HQ : forall a b, (a < g_Qh g)%nat -> (b < g_Qw g)%nat -> wq' a b = k * wq a b /\ dq' a b = k * dq a b)
    by (intros; split; [apply Ewq|apply Edq]; assumption).
  apply (coeffs_scale N _ _ k HN Hk); [| |exact Hdet].
  - intros n. rewrite !momentR_S. apply pixels_measure_scale; [| |exact HQ]; intros; unfold mu; ring.
  - intros n. rewrite !dmomentR_S. apply pixels_measure_scale; [| |exact HQ]; intros; unfold nu; ring.
Qed.

(* ---- top-bottom mirroring, odd orders --------------------------------------------------- *)
(* X' is X mirrored top-bottom *)
Definition flipped_ud (h w : nat) (X X' : list (list R)) : Prop :=
  wf h w X /\ wf h w X' /\ forall i j, (i < h)%nat -> (j < w)%nat -> pxR X' i j = pxR X (h - 1 - i)%nat j.
Definition flipped_ud_opt (h w : nat) (W W' : option (list (list R))) : Prop :=
  match W, W' with
  | Some A, Some B => flipped_ud h w A B
  | None, None => True
  | _, _ => False
  end.

Lemma flipud_flipped h w (X : list (list R)) : wf h w X -> flipped_ud h w X (flipud X).
Proof.
  intros HX. split; [exact HX|]. split; [apply wf_flipud; exact HX|].
  intros i j Hi Hj. apply (px_flipud 0 (n:=h) (m:=w)); assumption.
Qed.

Lemma pixels_measure_mirror ms meth g g' wq dq wq' dq' k r :
  g_Qh g' = g_Qh g -> g_Qw g' = g_Qw g ->
  (forall w x q, ms (w, - x, q) = k * ms (w, x, q)) ->
  (forall c w x q, ms (c * w, - x, c * q) = k * ms (c * w, x, c * q)) ->
  (forall a b, (a < g_Qh g)%nat -> (b < g_Qw g)%nat ->
     let a' := (g_Qh g - 1 - a)%nat in
     bin meth g' a b = bin meth g a' b /\
     wl Rops sqrtR g' a b = wl Rops sqrtR g a' b /\ wu Rops sqrtR g' a b = wu Rops sqrtR g a' b /\
     cos1 Rops sqrtR g' a b = - cos1 Rops sqrtR g a' b /\
     wq' a b = wq a' b /\ dq' a b = dq a' b) ->
  S ms (pixels Rops sqrtR meth g' wq' dq' r) = k * S ms (pixels Rops sqrtR meth g wq dq r).
Proof.
  intros EQh EQw H1 H2 HQ. destruct meth.
  - rewrite !pixels_nearest_fam, EQh, EQw. apply fam_mirror. intros a b Ha Hb.
    destruct (HQ a b Ha Hb) as [Eb [El [Eu [Ec [Ew Ed]]]]]. rewrite ?Eb, ?Ec, ?Ew, ?Ed.
    split; [reflexivity|apply H1].
  - rewrite !pixels_linear_fam, EQh, EQw, !S_app, Rmult_plus_distr_l.
    apply f_equal2; apply fam_mirror; intros a b Ha Hb;
      destruct (HQ a b Ha Hb) as [Eb [El [Eu [Ec [Ew Ed]]]]]; rewrite ?Eb, ?El, ?Eu, ?Ec, ?Ew, ?Ed;
      (split; [reflexivity|apply H2]).
Qed.

Lemma mu_neg n w x q : mu n (w, - x, q) = (-1) ^ n * mu n (w, x, q).
Proof.
  unfold mu. rewrite !cpow_pow. replace (- x) with (-1 * x) by ring. rewrite Rpow_mult_distr. ring.
Qed.
Lemma nu_neg n w x q : nu n (w, - x, q) = (-1) ^ n * nu n (w, x, q).
Proof.
  unfold nu. rewrite !cpow_pow. replace (- x) with (-1 * x) by ring. rewrite Rpow_mult_distr. ring.
Qed.

Section MirrorTB.
  Variables (h w row col rmax N : nat).
  Hypothesis Hrow : (row < h)%nat.
  Hypothesis Hcol : (col < w)%nat.
  Let g := quad_geom h w row col rmax true N.
  Let g' := quad_geom h w (h - 1 - row) col rmax true N.

  Let y0 := min row rmax.
  Let y0' := min (h - 1 - row) rmax.

  Lemma mt_Qh : g_Qh g' = g_Qh g.
  Proof. unfold g, g'. rewrite !qg_Qh. replace (h - 1 - (h - 1 - row))%nat with row by lia. lia. Qed.
  Lemma mt_Qw : g_Qw g' = g_Qw g.
  Proof. unfold g, g'. rewrite !qg_Qw. reflexivity. Qed.
  Lemma mt_Qh_val : g_Qh g = (y0 + 1 + y0')%nat.
  Proof. unfold g. rewrite qg_Qh. reflexivity. Qed.

  Lemma mt_r2n a b : (a < g_Qh g)%nat -> r2n g' a b = r2n g (g_Qh g - 1 - a)%nat b.
  Proof.
    intros Ha. rewrite mt_Qh_val in *. unfold r2n, g, g'. rewrite !qg_y0. fold y0 y0'.
    f_equal. assert (E : dist a y0' = dist (y0 + 1 + y0' - 1 - a) y0).
    { unfold dist. destruct (Nat.leb_spec a y0'); destruct (Nat.leb_spec (y0 + 1 + y0' - 1 - a) y0); lia. }
    rewrite E. reflexivity.
  Qed.

  Lemma mt_bin meth a b : (a < g_Qh g)%nat -> bin meth g' a b = bin meth g (g_Qh g - 1 - a)%nat b.
  Proof.
    intros Ha. unfold bin. rewrite (mt_r2n a b Ha).
    replace (g_rmax g') with (g_rmax g) by (unfold g, g'; rewrite !qg_rmax; reflexivity). reflexivity.
  Qed.

  Lemma mt_wu a b : (a < g_Qh g)%nat -> wu Rops sqrtR g' a b = wu Rops sqrtR g (g_Qh g - 1 - a)%nat b.
  Proof. intros Ha. unfold wu. rewrite (mt_r2n a b Ha), (mt_bin Linear a b Ha). reflexivity. Qed.
  Lemma mt_wl a b : (a < g_Qh g)%nat -> wl Rops sqrtR g' a b = wl Rops sqrtR g (g_Qh g - 1 - a)%nat b.
  Proof. intros Ha. unfold wl. rewrite (mt_wu a b Ha). reflexivity. Qed.
  Lemma mt_qsin a b : (a < g_Qh g)%nat -> qsin Rops sqrtR g' a b = qsin Rops sqrtR g (g_Qh g - 1 - a)%nat b.
  Proof. intros Ha. unfold qsin. rewrite (mt_r2n a b Ha). reflexivity. Qed.

  Lemma mt_cos1 a b : (a < g_Qh g)%nat ->
    cos1 Rops sqrtR g' a b = - cos1 Rops sqrtR g (g_Qh g - 1 - a)%nat b.
  Proof.
    intros Ha. unfold cos1. rewrite (mt_r2n a b Ha).
    replace (g_odd g') with true by (unfold g'; rewrite qg_odd; reflexivity).
    replace (g_odd g) with true by (unfold g; rewrite qg_odd; reflexivity).
    destruct (Nat.eqb (r2n g (g_Qh g - 1 - a) b) 0); [cbn [Rops f0]; ring|].
    cbn [Rops fdiv]. unfold yA. rewrite mt_Qh_val in *. unfold g, g'. rewrite !qg_y0. fold y0 y0'.
    cbn [Rops fopp].
    destruct (Nat.leb_spec a y0'); destruct (Nat.leb_spec (y0 + 1 + y0' - 1 - a) y0).
    - replace (y0' - a)%nat with 0%nat by lia. replace (y0 - (y0 + 1 + y0' - 1 - a))%nat with 0%nat by lia.
      cbn [ofnat Rops f0]. unfold Rdiv. ring.
    - replace (y0 + 1 + y0' - 1 - a - y0)%nat with (y0' - a)%nat by lia. unfold Rdiv. ring.
    - replace (y0 - (y0 + 1 + y0' - 1 - a))%nat with (a - y0')%nat by lia. unfold Rdiv. ring.
    - lia.
  Qed.

  (* the folded quadrant of the mirrored image is the row-reversed folded quadrant *)
  Lemma fold_flip_odd (X X' : list (list R)) a b :
    (forall i j, (i < h)%nat -> (j < w)%nat -> pxR X' i j = pxR X (h - 1 - i)%nat j) ->
    (a < g_Qh g)%nat -> (b < g_Qw g)%nat ->
    pxR (foldR g' X') a b = pxR (foldR g X) (g_Qh g - 1 - a)%nat b.
  Proof.
    intros HX Ha Hb.
    assert (Hrow' : (h - 1 - row < h)%nat) by lia.
    pose proof (fold_spec_odd_R h w (h - 1 - row) col rmax N X' a b Hrow' Hcol) as E1.
    pose proof (fold_spec_odd_R h w row col rmax N X (g_Qh g - 1 - a)%nat b Hrow Hcol) as E2.
    cbv zeta in E1, E2. fold g in E2. fold g' in E1.
    rewrite E1 by (rewrite ?mt_Qh, ?mt_Qw; assumption). rewrite E2 by lia.
    unfold spec_odd, gpix. cbn [andb].
    replace (g_y0 g') with y0' by (unfold g'; rewrite qg_y0; reflexivity).
    replace (g_y0 g) with y0 by (unfold g; rewrite qg_y0; reflexivity).
    rewrite mt_Qh_val in *.
    assert (Ei : (h - 1 - (h - 1 - row - y0' + a) = row - y0 + (y0 + 1 + y0' - 1 - a))%nat) by lia.
    destruct ((1 <=? b)%nat && (b <=? col)%nat) eqn:G1; destruct (col + b <? w)%nat eqn:G2;
      rewrite ?HX by lia; rewrite ?Ei; reflexivity.
  Qed.

  Theorem mirror_tb_odd meth use_sin (W W' : option (list (list R))) (IM IM' : list (list R)) r :
    flipped_ud h w IM IM' -> flipped_ud_opt h w W W' -> N123 N -> (r <= rmax)%nat ->
    hdet N (distr_pixels Rops sqrtR meth g use_sin W IM r) <> 0 ->
    nth r (distr_cos Rops sqrtR meth g' use_sin W' IM') None
    = option_map flip_odd (nth r (distr_cos Rops sqrtR meth g use_sin W IM) None).
  Proof.
    intros [HIM [HIM' PIM]] HWW HN Hrr Hdet.
    assert (Grm : g_rmax g = rmax) by apply qg_rmax. assert (GN : g_N g = N) by apply qg_N.
    assert (Grm' : g_rmax g' = rmax) by apply qg_rmax. assert (GN' : g_N g' = N) by apply qg_N.
    unfold distr_cos. cbv zeta. rewrite Grm, GN, Grm', GN'. rewrite !nth_map_seq_opt by lia.
    unfold distr_pixels in Hdet.
    set (wq := QW Rops sqrtR g use_sin W) in *. set (dq := QD Rops sqrtR g use_sin W IM) in *.
    set (wq' := QW Rops sqrtR g' use_sin W'). set (dq' := QD Rops sqrtR g' use_sin W' IM').
    (* weights and data of the mirrored problem *)
    assert (Ewq : forall a b, (a < g_Qh g)%nat -> (b < g_Qw g)%nat -> wq' a b = wq (g_Qh g - 1 - a)%nat b).
    { intros a b Ha Hb. unfold wq', wq, QW. cbv beta zeta. cbn [Rops f0 fadd fmul].
      rewrite (mt_qsin a b Ha).
      assert (F : pxR (foldR g' match W' with Some Wt => Wt | None => ones Rops (g_h g') (g_w g') end) a b
                  = pxR (foldR g match W with Some Wt => Wt | None => ones Rops (g_h g) (g_w g) end)
                        (g_Qh g - 1 - a)%nat b).
      { apply fold_flip_odd; try assumption. intros i j Hi Hj.
        destruct W as [Wt|], W' as [Wt'|]; cbn in HWW; try contradiction.
        - destruct HWW as [_ [_ P]]. apply P; assumption.
        - unfold g, g'. rewrite !qg_h, !qg_w. rewrite !px_ones by lia. reflexivity. }
      rewrite F. reflexivity. }
    assert (Edq : forall a b, (a < g_Qh g)%nat -> (b < g_Qw g)%nat -> dq' a b = dq (g_Qh g - 1 - a)%nat b).
    { intros a b Ha Hb. unfold dq', dq, QD. cbv beta zeta. cbn [Rops f0 fadd fmul].
      rewrite (mt_qsin a b Ha).
      assert (F : pxR (foldR g' match W' with Some Wt => imul Rops Wt IM' | None => IM' end) a b
                  = pxR (foldR g match W with Some Wt => imul Rops Wt IM | None => IM end)
                        (g_Qh g - 1 - a)%nat b).
      { apply fold_flip_odd; try assumption. intros i j Hi Hj.
        destruct W as [Wt|], W' as [Wt'|]; cbn in HWW; try contradiction.
        - destruct HWW as [HWt [HWt' P]]. rewrite !(px_imul h w) by (try assumption; lia).
          rewrite P, PIM by assumption. reflexivity.
        - apply PIM; assumption. }
      rewrite F. reflexivity. }
    assert (HQ : forall a b, (a < g_Qh g)%nat -> (b < g_Qw g)%nat ->
               let a' := (g_Qh g - 1 - a)%nat in
               bin meth g' a b = bin meth g a' b /\
               wl Rops sqrtR g' a b = wl Rops sqrtR g a' b /\ wu Rops sqrtR g' a b = wu Rops sqrtR g a' b /\
               cos1 Rops sqrtR g' a b = - cos1 Rops sqrtR g a' b /\
               wq' a b = wq a' b /\ dq' a b = dq a' b).
    { intros a b Ha Hb. cbv zeta. repeat split;
        [apply mt_bin|apply mt_wl|apply mt_wu|apply mt_cos1|apply Ewq|apply Edq]; assumption. }
    apply (coeffs_flip N _ _ HN); [| |exact Hdet].
    - intros n. rewrite !momentR_S.
      apply (pixels_measure_mirror (mu n) meth g g' wq dq wq' dq' ((-1) ^ n) r mt_Qh mt_Qw);
        [intros; apply mu_neg|intros; apply mu_neg|exact HQ].
    - intros n. rewrite !dmomentR_S.
      apply (pixels_measure_mirror (nu n) meth g g' wq dq wq' dq' ((-1) ^ n) r mt_Qh mt_Qw);
        [intros; apply nu_neg|intros; apply nu_neg|exact HQ].
  Qed.
End MirrorTB.

(* ---- list-level equalities of pixel families --------------------------------------------- *)
Lemma flat_map_ext_in' {X Y : Type} (f g : X -> list Y) l :
  (forall x, In x l -> f x = g x) -> flat_map f l = flat_map g l.
Proof.
  induction l as [|x l IH]; intros H; [reflexivity|]. cbn [flat_map].
  rewrite (H x) by (left; reflexivity). rewrite IH by (intros; apply H; right; assumption). reflexivity.
Qed.

Lemma flat_map_nil_in {X Y : Type} (f : X -> list Y) l : (forall x, In x l -> f x = []) -> flat_map f l = [].
Proof.
  induction l as [|x l IH]; intros H; [reflexivity|]. cbn [flat_map].
  rewrite (H x) by (left; reflexivity). rewrite IH by (intros; apply H; right; assumption). reflexivity.
Qed.

Lemma flat_map_seq_restrict {T : Type} (F2 F1 : nat -> list T) n1 n2 : (n1 <= n2)%nat ->
  (forall a, (a < n1)%nat -> F2 a = F1 a) -> (forall a, (n1 <= a < n2)%nat -> F2 a = []) ->
  flat_map F2 (seq 0 n2) = flat_map F1 (seq 0 n1).
Proof.
  intros Hle Hin Hout. replace n2 with (n1 + (n2 - n1))%nat by lia. rewrite seq_app, flat_map_app.
  rewrite (flat_map_nil_in F2 (seq (0 + n1) (n2 - n1))) by (intros a Ha; apply in_seq in Ha; apply Hout; lia).
  rewrite app_nil_r. apply flat_map_ext_in'. intros a Ha. apply in_seq in Ha. apply Hin. lia.
Qed.

Definition famrow (m : nat) (c : nat -> nat -> bool) (p : nat -> nat -> pixelR) (a : nat) : list pixelR :=
  flat_map (fun b => if c a b then [p a b] else []) (seq 0 m).

Lemma flat_map_flat_map {X Y Z : Type} (f : Y -> list Z) (g : X -> list Y) l :
  flat_map f (flat_map g l) = flat_map (fun x => flat_map f (g x)) l.
Proof. induction l as [|x l IH]; [reflexivity|]. cbn [flat_map]. rewrite flat_map_app, IH. reflexivity. Qed.

Lemma fam_rows n m c p : fam n m c p = flat_map (famrow m c p) (seq 0 n).
Proof.
  unfold fam, qidx. rewrite flat_map_flat_map. apply flat_map_ext. intros a. unfold famrow.
  rewrite flat_map_concat_map, map_map, <- flat_map_concat_map. reflexivity.
Qed.

(* same family on a smaller rectangle when nothing is selected outside it *)
Lemma fam_restrict n1 m1 n2 m2 c1 c2 p1 p2 : (n1 <= n2)%nat -> (m1 <= m2)%nat ->
  (forall a b, (a < n1)%nat -> (b < m1)%nat -> c2 a b = c1 a b /\ (c1 a b = true -> p2 a b = p1 a b)) ->
  (forall a b, (a < n2)%nat -> (b < m2)%nat -> (n1 <= a \/ m1 <= b)%nat -> c2 a b = false) ->
  fam n2 m2 c2 p2 = fam n1 m1 c1 p1.
Proof.
  intros Hn Hm Hin Hout. rewrite !fam_rows. apply flat_map_seq_restrict; [exact Hn| |].
  - intros a Ha. unfold famrow. apply flat_map_seq_restrict; [exact Hm| |].
    + intros b Hb. destruct (Hin a b Ha Hb) as [Ec Ep]. rewrite Ec. destruct (c1 a b); [rewrite Ep; reflexivity|reflexivity].
    + intros b Hb. rewrite Hout by lia. reflexivity.
  - intros a Ha. unfold famrow. apply flat_map_nil_in. intros b Hb. apply in_seq in Hb.
    rewrite Hout by lia. reflexivity.
Qed.

Lemma round_sqrt_ge n m : (m * m <= n)%nat -> (m <= round_sqrt n)%nat.
Proof.
  intros H. unfold round_sqrt. pose proof (Nat.sqrt_le_mono _ _ H) as S1. rewrite Nat.sqrt_square in S1.
  destruct (Nat.sqrt n * Nat.sqrt n + Nat.sqrt n <? n)%nat; lia.
Qed.

(* ---- larger rmax: the common radii get the same coefficients ('nearest', even orders) ---- *)
Theorem rmax_prefix_nearest_even h w row col r1 r2 N use_sin (W : option (list (list R))) IM r :
  (row < h)%nat -> (col < w)%nat -> (r <= r1)%nat -> (r1 <= r2)%nat ->
  let g1 := quad_geom h w row col r1 false N in
  let g2 := quad_geom h w row col r2 false N in
  nth r (distr_cos Rops sqrtR Nearest g2 use_sin W IM) None
  = nth r (distr_cos Rops sqrtR Nearest g1 use_sin W IM) None.
Proof.
  intros Hr Hc Hr1 Hr2 g1 g2.
  unfold distr_cos. cbv zeta.
  replace (g_rmax g1) with r1 by (unfold g1; rewrite qg_rmax; reflexivity).
  replace (g_rmax g2) with r2 by (unfold g2; rewrite qg_rmax; reflexivity).
  replace (g_N g1) with N by (unfold g1; rewrite qg_N; reflexivity).
  replace (g_N g2) with N by (unfold g2; rewrite qg_N; reflexivity).
  rewrite !nth_map_seq_opt by lia. f_equal.
  rewrite !pixels_nearest_fam.
  assert (Q1h : g_Qh g1 = (min (max row (h - 1 - row)) r1 + 1)%nat) by (unfold g1; apply qg_Qh).
  assert (Q2h : g_Qh g2 = (min (max row (h - 1 - row)) r2 + 1)%nat) by (unfold g2; apply qg_Qh).
  assert (Q1w : g_Qw g1 = (min (max col (w - 1 - col)) r1 + 1)%nat) by (unfold g1; apply qg_Qw).
  assert (Q2w : g_Qw g2 = (min (max col (w - 1 - col)) r2 + 1)%nat) by (unfold g2; apply qg_Qw).
  assert (Lh : (g_Qh g1 <= g_Qh g2)%nat) by lia.
  assert (Lw : (g_Qw g1 <= g_Qw g2)%nat) by lia.
  assert (Oa : forall a, (g_Qh g1 <= a)%nat -> (a < g_Qh g2)%nat -> (r1 + 1 <= a)%nat) by (intros; lia).
  assert (Ob : forall b, (g_Qw g1 <= b)%nat -> (b < g_Qw g2)%nat -> (r1 + 1 <= b)%nat) by (intros; lia).
  clear Q1h Q2h Q1w Q2w.
  assert (Y1 : g_y0 g1 = 0%nat) by (unfold g1; apply qg_y0).
  assert (Y2 : g_y0 g2 = 0%nat) by (unfold g2; apply qg_y0).
  assert (O1 : g_odd g1 = false) by (unfold g1; apply qg_odd).
  assert (O2 : g_odd g2 = false) by (unfold g2; apply qg_odd).
  assert (M1 : g_rmax g1 = r1) by (unfold g1; apply qg_rmax).
  assert (M2 : g_rmax g2 = r2) by (unfold g2; apply qg_rmax).
  assert (ER : forall a b, r2n g2 a b = r2n g1 a b) by (intros; unfold r2n; rewrite Y1, Y2; reflexivity).
  assert (EC : forall a b, cos1 Rops sqrtR g2 a b = cos1 Rops sqrtR g1 a b)
    by (intros; unfold cos1; rewrite ER, O1, O2, Y1, Y2; reflexivity).
  assert (ES : forall a b, qsin Rops sqrtR g2 a b = qsin Rops sqrtR g1 a b)
    by (intros; unfold qsin; rewrite ER; reflexivity).
  assert (EF : forall X a b, (a < g_Qh g1)%nat -> (b < g_Qw g1)%nat -> pxR (foldR g2 X) a b = pxR (foldR g1 X) a b).
  { intros X a b Ha Hb.
    pose proof (fold_spec_even_R h w row col r2 N X a b Hr Hc) as E2.
    pose proof (fold_spec_even_R h w row col r1 N X a b Hr Hc) as E1.
    cbv zeta in E1, E2. fold g1 in E1. fold g2 in E2. rewrite E2, E1 by lia. reflexivity. }
  apply fam_restrict; [exact Lh|exact Lw| |].
  - intros a b Ha Hb. split.
    + unfold bin. rewrite ER, M1, M2. set (k := round_sqrt (r2n g1 a b)).
      destruct (Nat.le_gt_cases k r1) as [Hk|Hk].
      * destruct (Nat.ltb_spec r2 k); [lia|]. destruct (Nat.ltb_spec r1 k); [lia|]. reflexivity.
      * destruct (Nat.ltb_spec r1 k); [|lia].
        transitivity false; [|symmetry]; apply Nat.eqb_neq; [|lia].
        destruct (Nat.ltb_spec r2 k); lia.
    + intros _. unfold QW, QD. cbv zeta. cbn [Rops f0 fadd fmul].
      replace (g_h g2) with (g_h g1) by (unfold g1, g2; rewrite !qg_h; reflexivity).
      replace (g_w g2) with (g_w g1) by (unfold g1, g2; rewrite !qg_w; reflexivity).
      rewrite EC, ES, !EF by assumption. reflexivity.
  - intros a b Ha Hb Hout. apply Nat.eqb_neq. unfold bin. rewrite ER, M2.
    assert (G : (r1 + 1 <= round_sqrt (r2n g1 a b))%nat).
    { apply round_sqrt_ge. unfold r2n. rewrite Y1. unfold dist.
      replace (a <=? 0)%nat with (Nat.eqb a 0) by (destruct a; reflexivity).
      destruct Hout as [Ho|Ho].
      - assert (Ha1 : (r1 + 1 <= a)%nat) by (apply Oa; assumption). destruct (Nat.eqb_spec a 0); [lia|].
        pose proof (Nat.mul_le_mono _ _ _ _ Ha1 Ha1). replace (a - 0)%nat with a by lia. lia.
      - assert (Hb1 : (r1 + 1 <= b)%nat) by (apply Ob; assumption). pose proof (Nat.mul_le_mono _ _ _ _ Hb1 Hb1). lia. }
    destruct (Nat.ltb_spec r2 (round_sqrt (r2n g1 a b))); lia.
Qed.

(* ---- top-bottom mirroring, even orders: identical results --------------------------------- *)
Section MirrorTBEven.
  Variables (h w row col rmax N : nat).
  Hypothesis Hrow : (row < h)%nat.
  Hypothesis Hcol : (col < w)%nat.
  Let g := quad_geom h w row col rmax false N.
  Let g' := quad_geom h w (h - 1 - row) col rmax false N.

  Lemma me_Qh : g_Qh g' = g_Qh g.
  Proof. unfold g, g'. rewrite !qg_Qh. f_equal. lia. Qed.
  Lemma me_Qw : g_Qw g' = g_Qw g.
  Proof. unfold g, g'. rewrite !qg_Qw. reflexivity. Qed.

  Lemma rowterm_flip (X X' : list (list R)) a j :
    (forall i, (i < h)%nat -> pxR X' i j = pxR X (h - 1 - i)%nat j) ->
    rowterm h (h - 1 - row) X' a j = rowterm h row X a j.
  Proof.
    intros F. unfold rowterm.
    destruct (Nat.leb_spec 1 a) as [A1|A1]; cbn [andb].
    - destruct (Nat.leb_spec a (h - 1 - row)) as [P|P]; destruct (Nat.ltb_spec (h - 1 - row + a) h) as [Q|Q];
        destruct (Nat.leb_spec a row) as [P'|P']; destruct (Nat.ltb_spec (row + a) h) as [Q'|Q']; try lia;
        rewrite ?F by lia;
        try (replace (h - 1 - (h - 1 - row - a))%nat with (row + a)%nat by lia);
        try (replace (h - 1 - (h - 1 - row + a))%nat with (row - a)%nat by lia); ring.
    - assert (a = 0)%nat by lia. subst a.
      destruct (Nat.ltb_spec (h - 1 - row + 0) h) as [Q|Q]; destruct (Nat.ltb_spec (row + 0) h) as [Q'|Q']; try lia.
      rewrite F by lia. replace (h - 1 - (h - 1 - row + 0))%nat with (row + 0)%nat by lia. ring.
  Qed.

  Lemma fold_flip_even (X X' : list (list R)) a b :
    (forall i j, (i < h)%nat -> (j < w)%nat -> pxR X' i j = pxR X (h - 1 - i)%nat j) ->
    (a < g_Qh g)%nat -> (b < g_Qw g)%nat ->
    pxR (foldR g' X') a b = pxR (foldR g X) a b.
  Proof.
    intros HX Ha Hb. assert (Hrow' : (h - 1 - row < h)%nat) by lia.
    pose proof (fold_spec_even_R h w (h - 1 - row) col rmax N X' a b Hrow' Hcol) as E1.
    pose proof (fold_spec_even_R h w row col rmax N X a b Hrow Hcol) as E2.
    cbv zeta in E1, E2. fold g in E2. fold g' in E1.
    rewrite E1 by (rewrite ?me_Qh, ?me_Qw; assumption). rewrite E2 by assumption.
    rewrite !spec_even_by_cols.
    destruct ((1 <=? b)%nat && (b <=? col)%nat) eqn:G1; destruct (col + b <? w)%nat eqn:G2;
      rewrite ?(rowterm_flip X X') by (intros; apply HX; lia); reflexivity.
  Qed.

  Theorem mirror_tb_even meth use_sin (W W' : option (list (list R))) (IM IM' : list (list R)) :
    flipped_ud h w IM IM' -> flipped_ud_opt h w W W' ->
    distr_cos Rops sqrtR meth g' use_sin W' IM' = distr_cos Rops sqrtR meth g use_sin W IM.
  Proof.
    intros [HIM [HIM' PIM]] HWW.
    assert (Y : g_y0 g' = g_y0 g) by (unfold g, g'; rewrite !qg_y0; reflexivity).
    assert (Od : g_odd g' = g_odd g) by (unfold g, g'; rewrite !qg_odd; reflexivity).
    assert (M : g_rmax g' = g_rmax g) by (unfold g, g'; rewrite !qg_rmax; reflexivity).
    assert (GN : g_N g' = g_N g) by (unfold g, g'; rewrite !qg_N; reflexivity).
    assert (ER : forall a b, r2n g' a b = r2n g a b) by (intros; unfold r2n; rewrite Y; reflexivity).
    assert (EB : forall m a b, bin m g' a b = bin m g a b) by (intros; unfold bin; rewrite ER, M; reflexivity).
    assert (EC : forall a b, cos1 Rops sqrtR g' a b = cos1 Rops sqrtR g a b)
      by (intros; unfold cos1, yA; rewrite ER, Od, Y; reflexivity).
    assert (ES : forall a b, qsin Rops sqrtR g' a b = qsin Rops sqrtR g a b)
      by (intros; unfold qsin; rewrite ER; reflexivity).
    assert (EU : forall a b, wu Rops sqrtR g' a b = wu Rops sqrtR g a b)
      by (intros; unfold wu; rewrite ER, EB; reflexivity).
    assert (EL : forall a b, wl Rops sqrtR g' a b = wl Rops sqrtR g a b)
      by (intros; unfold wl; rewrite EU; reflexivity).
    unfold distr_cos. cbv zeta. rewrite M, GN.
    set (wq := QW Rops sqrtR g use_sin W). set (dq := QD Rops sqrtR g use_sin W IM).
    set (wq' := QW Rops sqrtR g' use_sin W'). set (dq' := QD Rops sqrtR g' use_sin W' IM').
    assert (Ewq : forall a b, (a < g_Qh g)%nat -> (b < g_Qw g)%nat -> wq' a b = wq a b).
    { intros a b Ha Hb. unfold wq', wq, QW. cbv beta zeta. cbn [Rops f0 fadd fmul]. rewrite ES.
      assert (F : pxR (foldR g' match W' with Some Wt => Wt | None => ones Rops (g_h g') (g_w g') end) a b
                  = pxR (foldR g match W with Some Wt => Wt | None => ones Rops (g_h g) (g_w g) end) a b).
      { apply fold_flip_even; try assumption. intros i j Hi Hj.
        destruct W as [Wt|], W' as [Wt'|]; cbn in HWW; try contradiction.
        - destruct HWW as [_ [_ P]]. apply P; assumption.
        - unfold g, g'. rewrite !qg_h, !qg_w. rewrite !px_ones by lia. reflexivity. }
      rewrite F. reflexivity. }
    assert (Edq : forall a b, (a < g_Qh g)%nat -> (b < g_Qw g)%nat -> dq' a b = dq a b).
    { intros a b Ha Hb. unfold dq', dq, QD. cbv beta zeta. cbn [Rops f0 fadd fmul]. rewrite ES.
      assert (F : pxR (foldR g' match W' with Some Wt => imul Rops Wt IM' | None => IM' end) a b
                  = pxR (foldR g match W with Some Wt => imul Rops Wt IM | None => IM end) a b).
      { apply fold_flip_even; try assumption. intros i j Hi Hj.
        destruct W as [Wt|], W' as [Wt'|]; cbn in HWW; try contradiction.
        - destruct HWW as [HWt [HWt' P]]. rewrite !(px_imul h w) by (try assumption; lia).
          rewrite P, PIM by assumption. reflexivity.
        - apply PIM; assumption. }
      rewrite F. reflexivity. }
    apply map_ext. intros r. f_equal. destruct meth.
    - rewrite !pixels_nearest_fam, me_Qh, me_Qw. apply fam_restrict; [lia|lia| |intros; lia].
      intros a b Ha Hb. rewrite EB, EC, Ewq, Edq by assumption. split; reflexivity.
    - rewrite !pixels_linear_fam, me_Qh, me_Qw.
      apply f_equal2; (apply fam_restrict; [lia|lia| |intros; lia]);
        intros a b Ha Hb; rewrite EB, EC, ?EL, ?EU, Ewq, Edq by assumption; split; reflexivity.
  Qed.
End MirrorTBEven.

(* ---- both parities together ----------------------------------------------------------------- *)
Theorem mirror_tb h w row col rmax N : (row < h)%nat -> (col < w)%nat ->
  forall meth use_sin (W W' : option (list (list R))) (IM IM' : list (list R)),
  flipped_ud h w IM IM' -> flipped_ud_opt h w W W' ->
  (* even orders only: every result is unchanged *)
  distr_cos Rops sqrtR meth (quad_geom h w (h - 1 - row) col rmax false N) use_sin W' IM'
  = distr_cos Rops sqrtR meth (quad_geom h w row col rmax false N) use_sin W IM
  /\
  (* odd orders present: at every radius with a non-singular normal matrix the
     odd-order coefficients change sign, the even ones are unchanged *)
  (forall r, N123 N -> (r <= rmax)%nat ->
     hdet N (distr_pixels Rops sqrtR meth (quad_geom h w row col rmax true N) use_sin W IM r) <> 0 ->
     nth r (distr_cos Rops sqrtR meth (quad_geom h w (h - 1 - row) col rmax true N) use_sin W' IM') None
     = option_map flip_odd (nth r (distr_cos Rops sqrtR meth (quad_geom h w row col rmax true N) use_sin W IM) None)).
Proof.
  intros Hr Hc meth use_sin W W' IM IM' HI HW. split.
  - apply mirror_tb_even; assumption.
  - intros r HN Hrr Hd. apply mirror_tb_odd; assumption.
Qed.

Lemma flipud_flipped_opt h w (W : option (list (list R))) :
  (forall Wt, W = Some Wt -> wf h w Wt) -> flipped_ud_opt h w W (option_map (@flipud R) W).
Proof. intros H. destruct W as [Wt|]; cbn; [apply flipud_flipped; apply H; reflexivity|exact I]. Qed.
