(* TriangularCrop.v — the leading block of the inverse of a block upper-triangular
   matrix is the inverse of the leading block.  Justifies treating the entries
   of dasch onion_peeling D = inv(W) (abel/dasch.py _bs_onion_peeling, W upper
   triangular) and of the rbasex inverse matrices (abel/rbasex.py _load_bs,
   P[n] triangular) as independent of the size they were generated for, i.e.
   cropping [:n, :n] commutes with inversion. *)
From mathcomp Require Import all_ssreflect all_algebra.
Set Implicit Arguments.
Unset Strict Implicit.
Import GRing.Theory.
Local Open Scope ring_scope.

Section TriangularCrop.
Variable F : fieldType.
Variables (n m : nat) (A : 'M[F]_n) (B : 'M[F]_(n, m)) (C : 'M[F]_m).

Let M := block_mx A B 0 C.

Lemma block_units : M \in unitmx -> (A \in unitmx) && (C \in unitmx).
Proof. by rewrite !unitmxE /M det_ublock unitrM. Qed.

Lemma leading_block_inverse : M \in unitmx -> ulsubmx (invmx M) = invmx A.
Proof.
move=> uM; case/andP: (block_units uM) => uA uC.
pose X := block_mx (invmx A) (- (invmx A *m B *m invmx C)) 0 (invmx C).
have HX : M *m X = 1%:M.
  rewrite /M /X mulmx_block !mul0mx !mulmx0 !addr0 add0r (mulmxV uA) (mulmxV uC).
  rewrite mulmxN !mulmxA (mulmxV uA) mul1mx addNr -scalar_mx_block //.
have -> : invmx M = X.
  by rewrite -[X]mul1mx -(mulVmx uM) -mulmxA HX mulmx1.
by rewrite /X block_mxKul.
Qed.
End TriangularCrop.

(* closed form of the statement, for props/C07.v (which does not load the
   mathcomp notations) *)
Definition leading_block_inverse_statement : Prop :=
  forall (F : fieldType) (n m : nat) (A : 'M[F]_n) (B : 'M[F]_(n, m)) (C : 'M[F]_m),
    block_mx A B 0 C \in unitmx -> ulsubmx (invmx (block_mx A B 0 C)) = invmx A.

Lemma leading_block_inverse_all : leading_block_inverse_statement.
Proof. move=> F n m A B C; exact: leading_block_inverse. Qed.
