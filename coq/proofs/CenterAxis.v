(* CenterAxis.v — what the three crop modes of set_center do along one axis
   (model/Center.v: ms_axis, vr_axis, md_axis), for an origin inside the
   axis: the output is the input translated so that index o lands on
   len'/2, where len' depends on the mode. *)
From Coq Require Import List Arith Lia Bool ZArith ZifyBool ZifyNat.
From PA Require Import base.Arr base.Px model.Center.
Import ListNotations.

Ltac Zify.zify_post_hook ::= Z.to_euclidean_division_equations.
Set Implicit Arguments.
Local Open Scope nat_scope.

(* index of the input that output index i shows: i - len'/2 + o *)
Definition tr_idx (n len' : nat) (o : Z) (i : nat) : option nat :=
  let k := (Z.of_nat i - Z.of_nat (len' / 2) + o)%Z in
  if (0 <=? k)%Z && (k <? Z.of_nat n)%Z then Some (Z.to_nat k) else None.

(* output length of the three modes for an axis of length n and origin o *)
Definition crop_len (cr : crop) (n : nat) (o : Z) : nat :=
  match cr with
  | MaintainSize => n
  | ValidRegion => Z.to_nat (2 * Z.min o (Z.of_nat n - 1 - o) + 1)
  | MaintainData => Z.to_nat (2 * Z.max o (Z.of_nat n - 1 - o) + 1)
  | OtherCrop => 0
  end.

Section AxisSpec.
  Variable X : Type.

  Definition axis_spec (z : X) (n len' : nat) (o : Z) (l l' : list X) : Prop :=
    length l' = len' /\
    forall i d, i < len' ->
      nth i l' d = match tr_idx n len' o i with Some k => nth k l d | None => z end.

  Lemma nth_repeat_lt (z d : X) k i : i < k -> nth i (repeat z k) d = z.
  Proof. revert i; induction k as [|k IH]; intros [|i] H; cbn [andb]; try lia; auto. apply IH; lia. Qed.

  Lemma nth_firstn_lt (l : list X) k i d : i < k -> nth i (firstn k l) d = nth i l d.
  Proof. apply nth_firstn'. Qed.

  Lemma norm_idx_in n k : (0 <= k <= Z.of_nat n)%Z -> norm_idx n k = Z.to_nat k.
  Proof. intros H. unfold norm_idx. destruct (Z.ltb_spec k 0); lia. Qed.

  Lemma pyslice_in (l : list X) s e : (0 <= s <= e)%Z -> (e <= Z.of_nat (length l))%Z ->
    pyslice s e l = firstn (Z.to_nat e - Z.to_nat s) (skipn (Z.to_nat s) l).
  Proof.
    intros H1 H2. unfold pyslice, slice_bounds.
    rewrite !norm_idx_in by lia. reflexivity.
  Qed.

  Lemma ms_bounds_nonneg n o : (0 <= o <= Z.of_nat (n / 2))%Z ->
    ms_bounds n o = ((0, n - (n / 2 - Z.to_nat o)), (n / 2 - Z.to_nat o, n - (n / 2 - Z.to_nat o))).
  Proof.
    intros H. unfold ms_bounds, slice_bounds. cbv zeta.
    rewrite !norm_idx_in by lia. f_equal; f_equal; lia.
  Qed.

  Lemma ms_bounds_neg n o : (Z.of_nat (n / 2) < o < Z.of_nat n)%Z ->
    ms_bounds n o = ((Z.to_nat o - n / 2, n - (Z.to_nat o - n / 2)), (0, n - (Z.to_nat o - n / 2))).
  Proof.
    intros H. unfold ms_bounds, slice_bounds. cbv zeta.
    rewrite !norm_idx_in by lia. f_equal; f_equal; lia.
  Qed.

  Lemma ms_ok_in n o : (0 <= o < Z.of_nat n)%Z -> ms_ok n o = true.
  Proof.
    intros H. unfold ms_ok.
    destruct (Z_le_gt_dec o (Z.of_nat (n / 2))).
    - rewrite ms_bounds_nonneg by lia. rewrite Nat.eqb_refl. reflexivity.
    - rewrite ms_bounds_neg by lia. rewrite Nat.eqb_refl. reflexivity.
  Qed.

  Lemma ms_axis_spec (z : X) (l : list X) o : (0 <= o < Z.of_nat (length l))%Z ->
    axis_spec z (length l) (length l) o l (ms_axis z o l).
  Proof.
    intros H. set (n := length l) in *. unfold ms_axis. fold n.
    destruct (Z_le_gt_dec o (Z.of_nat (n / 2))) as [Hle|Hgt].
    - rewrite ms_bounds_nonneg by lia. rewrite Nat.eqb_refl.
      remember (n / 2 - Z.to_nat o) as dl eqn:Edl.
      split.
      + rewrite !app_length, !repeat_length, firstn_length, skipn_length. fold n. lia.
      + intros i d Hi. unfold tr_idx. simpl skipn.
        rewrite nth_app'. rewrite repeat_length.
        destruct (Nat.ltb_spec i dl) as [Hlt|Hge].
        * rewrite nth_repeat_lt by lia.
          destruct (Z.leb_spec 0 (Z.of_nat i - Z.of_nat (n / 2) + o)); cbn [andb]; [lia|reflexivity].
        * rewrite nth_app'. rewrite firstn_length. fold n.
          destruct (Nat.ltb_spec (i - dl) (Nat.min (n - dl) n)) as [H1|H1]; [|lia].
          rewrite nth_firstn_lt by lia.
          destruct (Z.leb_spec 0 (Z.of_nat i - Z.of_nat (n / 2) + o)); cbn [andb]; [|lia].
          destruct (Z.ltb_spec (Z.of_nat i - Z.of_nat (n / 2) + o) (Z.of_nat n)); [|lia].
          f_equal. lia.
    - rewrite ms_bounds_neg by lia. rewrite Nat.eqb_refl.
      remember (Z.to_nat o - n / 2) as e eqn:Ee.
      split.
      + rewrite !app_length, !repeat_length, firstn_length, skipn_length. fold n. cbn [app length]. lia.
      + intros i d Hi. unfold tr_idx. simpl app.
        rewrite nth_app'. rewrite firstn_length, skipn_length. fold n.
        destruct (Nat.ltb_spec i (Nat.min (n - e) (n - e))) as [H1|H1].
        * rewrite nth_firstn_lt by lia. rewrite nth_skipn'.
          destruct (Z.leb_spec 0 (Z.of_nat i - Z.of_nat (n / 2) + o)); cbn [andb]; [|lia].
          destruct (Z.ltb_spec (Z.of_nat i - Z.of_nat (n / 2) + o) (Z.of_nat n)); [|lia].
          f_equal. lia.
        * rewrite nth_repeat_lt by lia.
          destruct (Z.leb_spec 0 (Z.of_nat i - Z.of_nat (n / 2) + o)); cbn [andb]; [|lia].
          destruct (Z.ltb_spec (Z.of_nat i - Z.of_nat (n / 2) + o) (Z.of_nat n)); [lia|reflexivity].
  Qed.

  Lemma vr_axis_spec (z : X) (l : list X) o : (0 <= o < Z.of_nat (length l))%Z ->
    axis_spec z (length l) (crop_len ValidRegion (length l) o) o l (vr_axis o l).
  Proof.
    intros H. set (n := length l) in *. unfold vr_axis, crop_len. fold n.
    remember (Z.min o (Z.of_nat n - 1 - o)) as dd eqn:Edd.
    rewrite pyslice_in by (fold n; lia).
    split.
    - rewrite firstn_length, skipn_length. fold n. lia.
    - intros i d Hi. unfold tr_idx.
      rewrite nth_firstn_lt by lia. rewrite nth_skipn'.
      destruct (Z.leb_spec 0 (Z.of_nat i - Z.of_nat (Z.to_nat (2 * dd + 1) / 2) + o)); cbn [andb]; [|lia].
      destruct (Z.ltb_spec (Z.of_nat i - Z.of_nat (Z.to_nat (2 * dd + 1) / 2) + o) (Z.of_nat n)); [|lia].
      f_equal. lia.
  Qed.

  Lemma md_axis_spec (z : X) (l : list X) o : (0 <= o < Z.of_nat (length l))%Z ->
    axis_spec z (length l) (crop_len MaintainData (length l) o) o l (md_axis z o l).
  Proof.
    intros H. set (n := length l) in *. unfold md_axis, crop_len. fold n.
    remember (Z.max o (Z.of_nat n - 1 - o)) as dd eqn:Edd.
    split.
    - rewrite !app_length, !repeat_length. fold n. lia.
    - intros i d Hi. unfold tr_idx.
      rewrite nth_app', repeat_length.
      destruct (Nat.ltb_spec i (Z.to_nat (dd - o))) as [H1|H1].
      + rewrite nth_repeat_lt by lia.
        destruct (Z.leb_spec 0 (Z.of_nat i - Z.of_nat (Z.to_nat (2 * dd + 1) / 2) + o)); cbn [andb]; [lia|reflexivity].
      + rewrite nth_app'. fold n.
        destruct (Z.leb_spec 0 (Z.of_nat i - Z.of_nat (Z.to_nat (2 * dd + 1) / 2) + o)); cbn [andb]; [|lia].
        destruct (Nat.ltb_spec (i - Z.to_nat (dd - o)) n) as [H2|H2];
          destruct (Z.ltb_spec (Z.of_nat i - Z.of_nat (Z.to_nat (2 * dd + 1) / 2) + o) (Z.of_nat n)); try lia.
        * f_equal. lia.
        * apply nth_repeat_lt. lia.
  Qed.
End AxisSpec.
