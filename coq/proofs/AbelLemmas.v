(* proofs/AbelLemmas.v — real-analysis lemmas for C09: antiderivatives of the
   line-of-sight integrands, integrals of piecewise functions (Chasles), the
   coordinate ylos. *)
From Coq Require Import Reals Lra Psatz.
From Coquelicot Require Import Coquelicot.
From PA Require Import model.Abel.
Open Scope R_scope.

(* ---- small facts ------------------------------------------------------- *)
Lemma pos_nonneg a : 0 <= a -> pos a = a.
Proof. intros H; unfold pos; rewrite Rabs_pos_eq by lra; lra. Qed.
Lemma pos_nonpos a : a <= 0 -> pos a = 0.
Proof. intros H; unfold pos; rewrite Rabs_left1 by lra; lra. Qed.

Lemma sqrt_sq_le a b : 0 <= a -> 0 <= b -> a * a <= b * b -> a <= b.
Proof. intros; nra. Qed.

Lemma hyp_pos x y : 0 < x -> 0 < sqrt (x * x + y * y).
Proof. intros; apply sqrt_lt_R0; nra. Qed.

Lemma hyp_sq x y : sqrt (x * x + y * y) * sqrt (x * x + y * y) = x * x + y * y.
Proof. apply sqrt_sqrt; nra. Qed.

Lemma hyp_lt x y M : 0 <= M -> x * x + y * y < M * M -> sqrt (x * x + y * y) < M.
Proof.
  intros HM H. pose proof (hyp_sq x y). pose proof (sqrt_pos (x * x + y * y)). nra.
Qed.
Lemma hyp_gt x y M : 0 <= M -> M * M < x * x + y * y -> M < sqrt (x * x + y * y).
Proof.
  intros HM H. pose proof (hyp_sq x y). pose proof (sqrt_pos (x * x + y * y)). nra.
Qed.

(* ---- ylos --------------------------------------------------------------- *)
Lemma ylos_nonneg x Rc : 0 <= ylos x Rc.
Proof. apply sqrt_pos. Qed.

Lemma ylos_below x Rc : Rc <= x -> ylos x Rc = 0.
Proof.
  intros H; unfold ylos; rewrite Rmax_right by lra.
  replace (x * x - x * x) with 0 by ring. apply sqrt_0.
Qed.

Lemma ylos_above x Rc : x <= Rc -> ylos x Rc = sqrt (Rc * Rc - x * x).
Proof. intros H; unfold ylos; rewrite Rmax_left by lra; reflexivity. Qed.

Lemma ylos_sq x Rc : 0 <= x -> ylos x Rc * ylos x Rc = Rmax Rc x * Rmax Rc x - x * x.
Proof.
  intros Hx; unfold ylos; apply sqrt_sqrt.
  pose proof (Rmax_r Rc x). nra.
Qed.

Lemma ylos_mono x R1 R2 : 0 <= x -> R1 <= R2 -> ylos x R1 <= ylos x R2.
Proof.
  intros Hx H. unfold ylos. apply sqrt_le_1_alt.
  pose proof (Rmax_r R1 x). assert (Rmax R1 x <= Rmax R2 x) by (apply Rle_max_compat_r; lra).
  nra.
Qed.

Lemma hyp_at_ylos x Rc : 0 <= x -> sqrt (x * x + ylos x Rc * ylos x Rc) = Rmax Rc x.
Proof.
  intros Hx. rewrite ylos_sq by lra.
  replace (x * x + (Rmax Rc x * Rmax Rc x - x * x)) with (Rmax Rc x * Rmax Rc x) by ring.
  apply sqrt_square. pose proof (Rmax_r Rc x); lra.
Qed.

Lemma hyp_lt_ylos x Rc y : 0 <= x -> 0 <= y -> y < ylos x Rc -> sqrt (x * x + y * y) < Rc.
Proof.
  intros Hx Hy H. pose proof (ylos_sq x Rc Hx).
  destruct (Rle_dec Rc x) as [L|L].
  - rewrite ylos_below in H by lra. lra.
  - rewrite Rmax_left in H0 by lra. apply hyp_lt; [lra|]. nra.
Qed.

Lemma hyp_gt_ylos x Rc y : 0 <= x -> 0 <= y -> ylos x Rc < y -> Rmax Rc x < sqrt (x * x + y * y).
Proof.
  intros Hx Hy H. pose proof (ylos_sq x Rc Hx). pose proof (ylos_nonneg x Rc).
  apply hyp_gt; [pose proof (Rmax_r Rc x); lra|]. nra.
Qed.

(* ---- antiderivatives ---------------------------------------------------- *)
(* G x y = int sqrt(x^2+y^2) dy ;  L x y = int dy / sqrt(x^2+y^2) *)
Definition Gh (x y : R) : R := (y * sqrt (x * x + y * y) + x * x * ln (y + sqrt (x * x + y * y))) / 2.
Definition Lh (x y : R) : R := ln (y + sqrt (x * x + y * y)).

Lemma y_plus_hyp_pos x y : 0 < x -> 0 < y + sqrt (x * x + y * y).
Proof.
  intros Hx. pose proof (hyp_sq x y). pose proof (hyp_pos x y Hx).
  destruct (Rle_dec 0 y); [lra|]. nra.
Qed.

Lemma Gh_derive x y : 0 < x -> is_derive (Gh x) y (sqrt (x * x + y * y)).
Proof.
  intros Hx. unfold Gh.
  pose proof (hyp_pos x y Hx) as Hs. pose proof (y_plus_hyp_pos x y Hx) as Hp.
  pose proof (hyp_sq x y) as Hq.
  assert (Hsq : 0 < x * x + y * y) by (rewrite <- Hq; apply Rmult_lt_0_compat; auto).
  auto_derive.
  - repeat split; auto.
  - set (s := sqrt (x * x + y * y)) in *.
    assert (Hx2 : x * x = s * s - y * y) by lra. rewrite Hx2.
    field; split; lra.
Qed.

Lemma Lh_derive x y : 0 < x -> is_derive (Lh x) y (/ sqrt (x * x + y * y)).
Proof.
  intros Hx. unfold Lh.
  pose proof (hyp_pos x y Hx) as Hs. pose proof (y_plus_hyp_pos x y Hx) as Hp.
  pose proof (hyp_sq x y) as Hq.
  assert (Hsq : 0 < x * x + y * y) by (rewrite <- Hq; apply Rmult_lt_0_compat; auto).
  auto_derive.
  - repeat split; auto.
  - set (s := sqrt (x * x + y * y)) in *.
    field; split; lra.
Qed.

Lemma hyp_continuous x y : continuous (fun y => sqrt (x * x + y * y)) y.
Proof.
  apply continuity_pt_filterlim.
  apply (continuity_pt_comp (fun y => x * x + y * y) sqrt).
  - reg.
  - apply continuity_pt_sqrt. nra.
Qed.

Lemma inv_hyp_continuous x y : 0 < x -> continuous (fun y => / sqrt (x * x + y * y)) y.
Proof.
  intros Hx. apply continuity_pt_filterlim.
  apply continuity_pt_inv.
  - apply continuity_pt_filterlim. apply hyp_continuous.
  - pose proof (hyp_pos x y Hx); lra.
Qed.

(* int_a^b sqrt(x^2+y^2) dy, x > 0 *)
Lemma RInt_hyp_pos x a b : 0 < x ->
  is_RInt (fun y => sqrt (x * x + y * y)) a b (Gh x b - Gh x a).
Proof.
  intros Hx.
  apply (is_RInt_derive (Gh x) (fun y => sqrt (x * x + y * y))).
  - intros y _. apply Gh_derive; auto.
  - intros y _. apply hyp_continuous.
Qed.

Lemma RInt_inv_hyp x a b : 0 < x ->
  is_RInt (fun y => / sqrt (x * x + y * y)) a b (Lh x b - Lh x a).
Proof.
  intros Hx.
  apply (is_RInt_derive (Lh x) (fun y => / sqrt (x * x + y * y))).
  - intros y _. apply Lh_derive; auto.
  - intros y _. apply inv_hyp_continuous; auto.
Qed.

Lemma hyp0 y : 0 <= y -> sqrt (0 * 0 + y * y) = y.
Proof. intros; replace (0 * 0 + y * y) with (y * y) by ring; apply sqrt_square; auto. Qed.

Lemma Gh0 y : 0 <= y -> Gh 0 y = y * y / 2.
Proof. intros; unfold Gh; rewrite hyp0 by auto; lra. Qed.

Lemma RInt_hyp x a b : 0 <= x -> 0 <= a -> a <= b ->
  is_RInt (fun y => sqrt (x * x + y * y)) a b (Gh x b - Gh x a).
Proof.
  intros Hx Ha Hab. destruct (Rle_lt_or_eq_dec 0 x Hx) as [H|H].
  - apply RInt_hyp_pos; auto.
  - subst x. rewrite !Gh0 by lra.
    apply (is_RInt_ext (fun y => y)).
    + intros y Hy. rewrite Rmin_left, Rmax_right in Hy by lra. rewrite hyp0; lra.
    + apply (is_RInt_derive (fun y => y * y / 2) (fun y => y)).
      * intros y _. auto_derive; auto. lra.
      * intros y _. apply continuous_id.
Qed.

Lemma is_RInt_const_ext (f : R -> R) a b c : a <= b ->
  (forall y, a < y < b -> f y = c) -> is_RInt f a b ((b - a) * c).
Proof.
  intros Hab H. apply (is_RInt_ext (fun _ => c)).
  - intros y Hy. rewrite Rmin_left, Rmax_right in Hy by lra. symmetry; auto.
  - apply (is_RInt_const a b c).
Qed.

(* a piece on which the integrand is alpha + beta * rho *)
Lemma is_RInt_lin_piece (f : R -> R) x a b al be : 0 <= x -> 0 <= a -> a <= b ->
  (forall y, a < y < b -> f y = al + be * sqrt (x * x + y * y)) ->
  is_RInt f a b ((b - a) * al + be * (Gh x b - Gh x a)).
Proof.
  intros Hx Ha Hab H.
  apply (is_RInt_ext (fun y => al + be * sqrt (x * x + y * y))).
  - intros y Hy. rewrite Rmin_left, Rmax_right in Hy by lra. symmetry; auto.
  - apply (is_RInt_plus (fun _ => al) (fun y => be * sqrt (x * x + y * y))).
    + apply (is_RInt_const a b al).
    + apply (is_RInt_scal (fun y => sqrt (x * x + y * y)) a b be). apply RInt_hyp; auto.
Qed.

(* a piece on which the integrand is (alpha + beta * rho) / rho, x > 0 *)
Lemma is_RInt_lin_over_piece (f : R -> R) x a b al be : 0 < x -> 0 <= a -> a <= b ->
  (forall y, a < y < b -> f y = (al + be * sqrt (x * x + y * y)) / sqrt (x * x + y * y)) ->
  is_RInt f a b (al * (Lh x b - Lh x a) + (b - a) * be).
Proof.
  intros Hx Ha Hab H.
  apply (is_RInt_ext (fun y => al * / sqrt (x * x + y * y) + be)).
  - intros y Hy. rewrite Rmin_left, Rmax_right in Hy by lra. rewrite H by auto.
    assert (E : forall s : R, 0 < s -> al * / s + be = (al + be * s) / s) by (intros; field; lra).
    apply E. apply hyp_pos; auto.
  - apply (is_RInt_plus (fun y => al * / sqrt (x * x + y * y)) (fun _ => be)).
    + apply (is_RInt_scal (fun y => / sqrt (x * x + y * y)) a b al). apply RInt_inv_hyp; auto.
    + apply (is_RInt_const a b be).
Qed.

Lemma abel_upper x Rm : 0 <= x -> 0 <= Rm -> sqrt (Rm * Rm - x * x) = ylos x Rm.
Proof.
  intros Hx HR. destruct (Rle_dec x Rm).
  - rewrite ylos_above; auto.
  - rewrite ylos_below by lra. apply sqrt_neg_0. nra.
Qed.

Lemma is_RInt_Chasles_R (f : R -> R) a b c l1 l2 :
  is_RInt f a b l1 -> is_RInt f b c l2 -> is_RInt f a c (l1 + l2).
Proof. exact (is_RInt_Chasles f a b c l1 l2). Qed.

(* ---- degree 0: rectangle ---------------------------------------------- *)
Lemma rect_is_RInt x c : 0 <= x -> 0 <= c ->
  is_RInt (fun y => rect c (sqrt (x * x + y * y))) 0 (ylos x (c + 1 / 2))
          (ylos x (c + 1 / 2) - ylos x (c - 1 / 2)).
Proof.
  intros Hx Hc.
  set (y1 := ylos x (c - 1 / 2)). set (y2 := ylos x (c + 1 / 2)).
  assert (H01 : 0 <= y1) by apply ylos_nonneg.
  assert (H12 : y1 <= y2) by (apply ylos_mono; lra).
  replace (y2 - y1) with ((y1 - 0) * 0 + (y2 - y1) * 1) by ring.
  apply (is_RInt_Chasles_R _ 0 y1 y2).
  - apply is_RInt_const_ext; [lra|]. intros y Hy.
    assert (sqrt (x * x + y * y) < c - 1 / 2) by (apply hyp_lt_ylos; unfold y1, y2 in *; lra).
    unfold rect. destruct (Rle_dec (c - 1 / 2) (sqrt (x * x + y * y))); [lra|reflexivity].
  - apply is_RInt_const_ext; [lra|]. intros y Hy.
    assert (sqrt (x * x + y * y) < c + 1 / 2) by (apply hyp_lt_ylos; unfold y1, y2 in *; lra).
    assert (Rmax (c - 1 / 2) x < sqrt (x * x + y * y)) by (apply hyp_gt_ylos; unfold y1, y2 in *; lra).
    pose proof (Rmax_l (c - 1 / 2) x).
    unfold rect. destruct (Rle_dec (c - 1 / 2) (sqrt (x * x + y * y))); [|lra].
    destruct (Rlt_dec (sqrt (x * x + y * y)) (c + 1 / 2)); [reflexivity|lra].
Qed.

Lemma Abel_rect x c : 0 <= x -> 0 <= c ->
  Abel (rect c) (c + 1 / 2) x = 2 * (ylos x (c + 1 / 2) - ylos x (c - 1 / 2)).
Proof.
  intros Hx Hc. unfold Abel. rewrite abel_upper by lra.
  f_equal. apply is_RInt_unique. apply rect_is_RInt; auto.
Qed.

(* ---- degree 1: triangle ----------------------------------------------- *)
(* the primitive the code calls P(R) (daun.py degree 1), extended to Rc <= x
   by its limit value (the x2logx corrections of the code) *)
Definition Pt (Rc x : R) : R :=
  if Rlt_dec x Rc then sqrt (Rc * Rc - x * x) * Rc - x * x * ln (sqrt (Rc * Rc - x * x) + Rc)
  else - (x * x * ln x).

Lemma Pt_Gh x Rc : 0 <= x -> 2 * Rc * ylos x Rc - 2 * Gh x (ylos x Rc) = Pt Rc x.
Proof.
  intros Hx. unfold Pt, Gh. rewrite hyp_at_ylos by auto.
  destruct (Rlt_dec x Rc) as [L|L].
  - rewrite ylos_above by lra. rewrite Rmax_left by lra. field.
  - rewrite ylos_below by lra. rewrite Rmax_right by lra. rewrite Rplus_0_l. field.
Qed.

Lemma tri_below c s : s <= c - 1 -> tri c s = 0.
Proof. intros; unfold tri; rewrite Rabs_left1 by lra; apply pos_nonpos; lra. Qed.
Lemma tri_rise c s : c - 1 <= s <= c -> tri c s = (1 - c) + 1 * s.
Proof. intros; unfold tri; rewrite Rabs_left1 by lra; rewrite pos_nonneg; lra. Qed.
Lemma tri_fall c s : c <= s <= c + 1 -> tri c s = (1 + c) + (-1) * s.
Proof. intros; unfold tri; rewrite Rabs_pos_eq by lra; rewrite pos_nonneg; lra. Qed.
Lemma tri_above c s : c + 1 <= s -> tri c s = 0.
Proof. intros; unfold tri; rewrite Rabs_pos_eq by lra; apply pos_nonpos; lra. Qed.

Definition tri_RInt_value (x c : R) : R :=
  ((ylos x (c - 1) - 0) * 0
   + ((ylos x c - ylos x (c - 1)) * (1 - c) + 1 * (Gh x (ylos x c) - Gh x (ylos x (c - 1)))))
  + ((ylos x (c + 1) - ylos x c) * (1 + c) + (-1) * (Gh x (ylos x (c + 1)) - Gh x (ylos x c))).

Lemma tri_is_RInt x c : 0 <= x -> 0 <= c ->
  is_RInt (fun y => tri c (sqrt (x * x + y * y))) 0 (ylos x (c + 1)) (tri_RInt_value x c).
Proof.
  intros Hx Hc. unfold tri_RInt_value.
  pose proof (ylos_nonneg x (c - 1)) as H0.
  pose proof (ylos_mono x (c - 1) c Hx ltac:(lra)) as H1.
  pose proof (ylos_mono x c (c + 1) Hx ltac:(lra)) as H2.
  apply (is_RInt_Chasles_R _ 0 (ylos x c) (ylos x (c + 1))).
  apply (is_RInt_Chasles_R _ 0 (ylos x (c - 1)) (ylos x c)).
  - apply is_RInt_const_ext; [lra|]. intros y Hy. apply tri_below.
    assert (sqrt (x * x + y * y) < c - 1) by (apply hyp_lt_ylos; lra). lra.
  - apply is_RInt_lin_piece; try lra. intros y Hy. apply tri_rise.
    assert (sqrt (x * x + y * y) < c) by (apply hyp_lt_ylos; lra).
    assert (Rmax (c - 1) x < sqrt (x * x + y * y)) by (apply hyp_gt_ylos; lra).
    pose proof (Rmax_l (c - 1) x). lra.
  - apply is_RInt_lin_piece; try lra. intros y Hy. apply tri_fall.
    assert (sqrt (x * x + y * y) < c + 1) by (apply hyp_lt_ylos; lra).
    assert (Rmax c x < sqrt (x * x + y * y)) by (apply hyp_gt_ylos; lra).
    pose proof (Rmax_l c x). lra.
Qed.

Lemma Abel_tri x c : 0 <= x -> 0 <= c ->
  Abel (tri c) (c + 1) x = Pt (c + 1) x - 2 * Pt c x + Pt (c - 1) x.
Proof.
  intros Hx Hc. unfold Abel. rewrite abel_upper by lra.
  rewrite <- !Pt_Gh by auto.
  rewrite (is_RInt_unique _ _ _ _ (tri_is_RInt x c Hx Hc)). unfold tri_RInt_value. ring.
Qed.

(* ---- a function that vanishes beyond R1 can be integrated up to any Rm >= R1 ---- *)
Lemma los_extend (f : R -> R) x R1 Rm V : 0 <= x -> R1 <= Rm ->
  (forall s, R1 <= s -> f s = 0) ->
  is_RInt (fun y => f (sqrt (x * x + y * y))) 0 (ylos x R1) V ->
  is_RInt (fun y => f (sqrt (x * x + y * y))) 0 (ylos x Rm) V.
Proof.
  intros Hx HR Hz HI.
  replace V with (V + (ylos x Rm - ylos x R1) * 0) by ring.
  apply (is_RInt_Chasles_R _ 0 (ylos x R1) (ylos x Rm)); [exact HI|].
  apply is_RInt_const_ext; [apply ylos_mono; auto|].
  intros y Hy. apply Hz.
  pose proof (ylos_nonneg x R1).
  assert (Rmax R1 x < sqrt (x * x + y * y)) by (apply hyp_gt_ylos; lra).
  pose proof (Rmax_l R1 x). lra.
Qed.
