(* proofs/C09Daun.v — the generated degree-0 and degree-1 entries of
   abel/daun.py (gen/FormulasBasis.v: daun_p0, daun_p1) are the Abel transforms
   of the rectangle / triangle basis functions, and the onion-peeling weight
   matrix of abel/dasch.py (onion_W) is the transposed degree-0 matrix. *)
From Coq Require Import Reals ZArith Bool Lra Lia Psatz.
From Coquelicot Require Import Coquelicot.
From PA Require Import model.Abel proofs.AbelLemmas gen.FormulasBasis.
Open Scope R_scope.

Lemma ylos_pow x Rc : x <= Rc -> ylos x Rc = sqrt (Rc ^ 2 - x ^ 2).
Proof. intros; rewrite ylos_above by auto. f_equal; ring. Qed.

Lemma Pt_above x Rc : x < Rc ->
  Pt Rc x = sqrt (Rc ^ 2 - x ^ 2) * Rc - x ^ 2 * ln (sqrt (Rc ^ 2 - x ^ 2) + Rc).
Proof.
  intros; unfold Pt. destruct (Rlt_dec x Rc); [|lra].
  replace (Rc ^ 2 - x ^ 2) with (Rc * Rc - x * x) by ring. ring.
Qed.
Lemma Pt_below x Rc : Rc <= x -> Pt Rc x = - (x ^ 2 * ln x).
Proof. intros; unfold Pt. destruct (Rlt_dec x Rc); [lra|]. ring. Qed.

Ltac z2r := repeat match goal with
  | H : (_ < _)%Z |- _ => apply Zlt_le_succ in H
  | H : (_ <= _)%Z |- _ => apply IZR_le in H
  end; rewrite ?succ_IZR, ?plus_IZR, ?minus_IZR in *.

Ltac zconds := repeat (match goal with
  | |- context [(?a <? ?b)%Z] => destruct (Z.ltb_spec a b); try lia
  | |- context [(?a <=? ?b)%Z] => destruct (Z.leb_spec a b); try lia
  | |- context [(?a =? ?b)%Z] => destruct (Z.eqb_spec a b); try lia
  end); cbn [andb negb].

(* robust against arithmetic refactoring of the source: every sqrt argument of the
   generated formula is matched up to ring equality *)
Lemma ylos_eq x Rc u : x <= Rc -> u = Rc * Rc - x * x -> ylos x Rc = sqrt u.
Proof. intros H E; rewrite ylos_above by auto; rewrite E; reflexivity. Qed.

Ltac ylos_to_sqrt :=
  repeat match goal with
  | |- context [ylos ?x ?Rc] =>
      first [ rewrite (ylos_below x Rc) by lra
            | match goal with |- context [sqrt ?u] => rewrite (ylos_eq x Rc u) by (try lra; try ring; try field) end ]
  end.

Lemma daun0_entry (i j : Z) : (0 <= i)%Z -> (0 <= j)%Z ->
  daun_p0 j i = Abel (rect (IZR j)) (IZR j + 1 / 2) (IZR i).
Proof.
  intros Hi Hj.
  assert (Hx : 0 <= IZR i) by (apply IZR_le; lia).
  assert (Hc : 0 <= IZR j) by (apply IZR_le; lia).
  rewrite Abel_rect by assumption.
  unfold daun_p0. zconds; z2r; ylos_to_sqrt; ring.
Qed.

Ltac pt_close j :=
  repeat (first [rewrite Pt_above by lra | rewrite Pt_below by lra]);
  first [ ring
        | (assert (E : IZR j = 0) by lra); rewrite E; ring
        | (assert (E : IZR j - 1 = 0) by lra); rewrite E; ring ].

Lemma daun1_entry (i j : Z) : (0 <= i)%Z -> (0 <= j)%Z ->
  daun_p1 j i = Abel (tri (IZR j)) (IZR j + 1) (IZR i).
Proof.
  intros Hi Hj.
  assert (Hx : 0 <= IZR i) by (apply IZR_le; lia).
  assert (Hc : 0 <= IZR j) by (apply IZR_le; lia).
  rewrite Abel_tri by assumption.
  unfold daun_p1.
  destruct (Z_lt_le_dec i (j - 1)) as [A|A]; [|destruct (Z.eq_dec i (j - 1)) as [B|B];
     [|destruct (Z.eq_dec i j) as [C|C]]].
  - (* i <= j-2 *) zconds; z2r; pt_close j.
  - (* i = j-1 *) subst i. zconds; z2r; pt_close j.
  - (* i = j *) subst i. zconds; z2r; pt_close j.
  - (* i >= j+1 *) zconds; z2r; pt_close j.
Qed.

Lemma sqrt_4u u : sqrt (4 * u) = 2 * sqrt u.
Proof.
  destruct (Rle_dec 0 u) as [H|H].
  - rewrite sqrt_mult by lra. replace 4 with (2 * 2) by ring.
    rewrite sqrt_square by lra. ring.
  - rewrite 2!sqrt_neg_0 by lra. ring.
Qed.

Lemma sqrt_onion_p (x c : R) : sqrt ((2 * c + 1) ^ 2 - 4 * x ^ 2) = 2 * sqrt ((c + 1 / 2) ^ 2 - x ^ 2).
Proof. rewrite <- sqrt_4u. f_equal. field. Qed.
Lemma sqrt_onion_m (x c : R) : sqrt ((2 * c - 1) ^ 2 - 4 * x ^ 2) = 2 * sqrt ((c - 1 / 2) ^ 2 - x ^ 2).
Proof. rewrite <- sqrt_4u. f_equal. field. Qed.

(* Dasch's onion-peeling weight matrix is the transposed degree-0 Daun matrix
   (every entry, every size).  dasch.py returns inv(W); daun.py (degree 0,
   no regularisation) solves with the matrix of daun_p0. *)
Lemma sqrt_eq_2sqrt u c : u = 4 * c -> sqrt u = 2 * sqrt c.
Proof. intros ->; apply sqrt_4u. Qed.

(* pair every sqrt of the onion formula with the sqrt of the daun formula whose
   argument is a quarter of it (up to field equality) *)
Ltac sqrt_pairs :=
  repeat match goal with
  | |- context [sqrt ?u] =>
      match goal with |- context [sqrt ?c] => rewrite (sqrt_eq_2sqrt u c) by field end
  end.

Lemma onion_W_eq_daun0 (cols i j : Z) : (0 <= i < cols)%Z -> (0 <= j < cols)%Z ->
  onion_W cols i j = daun_p0 j i.
Proof.
  intros Hi Hj. unfold onion_W, daun_p0.
  zconds; sqrt_pairs; ring.
Qed.
