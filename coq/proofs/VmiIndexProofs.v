(* VmiIndexProofs.v — the index arithmetic translated from the current source
   (coq/gen/VmiIndex.v, regenerated on every run by tools/translate/vmi_index.py)
   equals the hand-written model, for all arguments. *)
From Coq Require Import List Arith Lia Bool.
From Coq Require Import ZifyBool ZifyNat ZArith.
From PA Require Import model.DistrGeom model.DistrRepr model.RbasexOut gen.VmiIndex.
Import ListNotations.
Ltac Zify.zify_post_hook ::= Z.to_euclidean_division_equations.

(* Distributions.__init__: self.odd *)
Theorem init_odd_translated order odd : gen_init_odd order odd = resolve_odd order odd.
Proof.
  unfold gen_init_odd, resolve_odd. destruct (Nat.eqb order 0); [reflexivity|].
  replace (negb (Nat.eqb (order mod 2) 0)) with (Nat.eqb (order mod 2) 1); [reflexivity|].
  pose proof (Nat.mod_upper_bound order 2). destruct (Nat.eqb_spec (order mod 2) 1);
    destruct (Nat.eqb_spec (order mod 2) 0); cbn; lia.
Qed.

(* Distributions.__init__: self.N *)
Theorem init_N_translated order odd :
  gen_init_N order (gen_init_odd order odd) = nterms order odd.
Proof. rewrite init_odd_translated. unfold gen_init_N, nterms. reflexivity. Qed.

(* rbasex_transform: odd *)
Theorem rbasex_odd_translated order odd : gen_rbasex_odd order odd = resolve_odd order odd.
Proof. exact (init_odd_translated order odd). Qed.

(* Results.__init__: self.orders *)
Theorem orders_translated order odd : gen_orders order odd = orders order odd.
Proof.
  unfold gen_orders, orders, pyrange. destruct odd.
  - replace ((order + 1 - 0 + 1 - 1) / 1) with (order + 1) by (rewrite Nat.div_1_r; lia).
    rewrite <- (map_id (seq 0 (order + 1))) at 2. apply map_ext. intros k. lia.
  - replace ((order + 1 - 0 + 2 - 1) / 2) with (order / 2 + 1).
    + apply map_ext. intros k. lia.
    + replace (order + 1 - 0 + 2 - 1) with (order + 1 * 2) by lia. rewrite Nat.div_add by lia. reflexivity.
Qed.

(* Results.__init__: self.sinpowers *)
Theorem sinpowers_translated order odd : gen_sinpowers order odd = sinpowers order odd.
Proof.
  unfold gen_sinpowers, sinpowers. rewrite orders_translated. apply map_ext. intros n.
  unfold clear_bit0. pose proof (Nat.div_mod (order - n) 2). lia.
Qed.

(* rbasex_transform: height, width, row requested from _image *)
Theorem out_dims_translated out g : gen_out_dims out g = out_dims out g.
Proof. unfold gen_out_dims, out_dims. destruct out; destruct (g_odd g); reflexivity. Qed.
