(* C10Instances.v — per-instance machine-checked goals of C10 (Interval), kept
   out of props/C10.v so that the closure of the property theorems does not
   contain Interval's reflexive computations (coqchk re-runs them without the
   VM).  Built and re-checked by coqc on every run (tools/props/C10.py).

   ApproxGaussian (polynomial.py:690-820; node search not modelled): every
   segment of ApproxGaussian(tol).ranges, as the implementation returns them now
   (gen/ApproxGaussianInst.v), for the 7 tabulated tolerances stays within
   1.01 tol of exp(-x^2/2), and so does the tail beyond the last node. *)
From Coq Require Import Reals.
From PA Require Import gen.ApproxGaussianInst.
Open Scope R_scope.

Theorem C10_approx_gaussian_instances : AG_all.
Proof. exact AG_all_ok. Qed.
Print Assumptions C10_approx_gaussian_instances.

(* ... but not for every tol: for tol = 0.0187 a segment of the ranges the
   implementation returns deviates by more than 1.04 tol (finding
   C10:approx-gaussian-exceeds-tol; the node placement uses an estimate) *)
Theorem C10_approx_gaussian_tol_refuted : AG_refuted.
Proof. exact AG_refuted_ok. Qed.
Print Assumptions C10_approx_gaussian_tol_refuted.
