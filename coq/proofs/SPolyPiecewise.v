(* SPolyPiecewise.v — sums of SPolynomial pieces (PiecewiseSPolynomial) and the B-spline
   piece conversion (bspline). *)
From Coq Require Import Reals List Arith Bool ZArith QArith Qreals Lia Lra Psatz.
From Coquelicot Require Import Coquelicot.
From PA Require Import model.Poly model.AbelPoly model.SPoly proofs.PolyRing proofs.AbelPolyAlg proofs.AbelPolyInt proofs.PolyTop proofs.SPolyProofs.
Import ListNotations.
Open Scope R_scope.

(* ---- sums of SPolynomial pieces (PiecewiseSPolynomial, polynomial.py:451-459) ---- *)
Definition los2 (F : R -> R -> R) (r cs : R) : R -> R :=
  fun y => F (sqrt (r * r + y * y)) (r * cs / sqrt (r * r + y * y)).

Lemma Abel2_plus : forall F G Rm r cs,
  ex_RInt (los2 F r cs) 0 (sqrt (Rm * Rm - r * r)) -> ex_RInt (los2 G r cs) 0 (sqrt (Rm * Rm - r * r)) ->
  Abel2 (fun rho c => F rho c + G rho c) Rm r cs = Abel2 F Rm r cs + Abel2 G Rm r cs.
Proof.
  intros. unfold Abel2. fold (los2 F r cs) (los2 G r cs).
  rewrite <- Rmult_plus_distr_l. f_equal.
  rewrite <- (RInt_plus (los2 F r cs) (los2 G r cs)); auto.
Qed.

Lemma spfun_ex_RInt : forall cols r0 s rmin rmax Rm r cs,
  s <> 0 -> 0 < r -> Rmax rmin 0 <= rmax <= Rm ->
  ex_RInt (los2 (spfun cols r0 s rmin rmax) r cs) 0 (sqrt (Rm * Rm - r * r)).
Proof.
  intros cols r0 s rmin rmax Rm r cs Hs Hr Hl.
  assert (H0 : 0 <= Rmax rmin 0) by apply Rmax_r.
  destruct (Rlt_le_dec r rmax) as [Hlt|Hge].
  - eexists.
    apply (sp_los_RInt (spfun cols r0 s rmin rmax) (sp_prepareR cols r0 s) (Rmax rmin 0) rmax Rm r cs (conj Hr Hlt)).
    + lra.
    + intros rho c Hrho. unfold spfun. destruct (Rle_dec _ _); [|lra]. destruct (Rlt_dec _ _); [|lra].
      symmetry. apply sfun_prepare; auto.
    + intros rho c Hrho. unfold spfun. destruct (Rle_dec _ _); auto. lra.
    + intros rho c Hrho. unfold spfun. destruct (Rle_dec _ _); auto. destruct (Rlt_dec _ _); auto. lra.
  - exists 0. fold (ylim Rm r). apply (is_RInt_ext (fun _ => 0)).
    + intros y Hy. pose proof (ylim_nonneg Rm r). rewrite Rmin_left, Rmax_right in Hy by lra.
      symmetry. unfold los2, spfun. destruct (Rle_dec _ _); auto. destruct (Rlt_dec _ _); auto. exfalso.
      fold (rr r y) in *. pose proof (rr_sq r y). pose proof (rr_nonneg r y).
      assert (rr r y * rr r y < rmax * rmax) by (apply Rmult_le_0_lt_compat; lra).
      assert (rmax * rmax <= r * r) by (apply Rmult_le_compat; lra).
      assert (0 < y * y) by (apply Rmult_lt_0_compat; lra). lra.
    + apply is_RInt_zero.
Qed.

Record spiece := { sq_rmin : R; sq_rmax : R; sq_cols : list (list R); sq_r0 : R; sq_s : R }.
Definition spiece_ok (Rm : R) (p : spiece) : Prop := sq_s p <> 0 /\ Rmax (sq_rmin p) 0 <= sq_rmax p <= Rm.

(* abel of one piece at a pixel, as SPolynomial computes it (0 beyond r_max) *)
Definition sp_piece_abel (p : spiece) (r cs : R) : R :=
  if Rlt_dec r (sq_rmax p)
  then sp_abel_pt (sp_prepareR (sq_cols p) (sq_r0 p) (sq_s p)) r cs (Rmax (sq_rmin p) 0) (sq_rmax p) else 0.
Fixpoint spw_abel (ps : list spiece) (r cs : R) : R :=
  match ps with [] => 0 | p :: ps' => sp_piece_abel p r cs + spw_abel ps' r cs end.
Fixpoint spw_fun (ps : list spiece) (rho c : R) : R :=
  match ps with
  | [] => 0
  | p :: ps' => spfun (sq_cols p) (sq_r0 p) (sq_s p) (sq_rmin p) (sq_rmax p) rho c + spw_fun ps' rho c
  end.

Lemma spw_fun_ex_RInt : forall ps Rm r cs, 0 < r -> List.Forall (spiece_ok Rm) ps ->
  ex_RInt (los2 (spw_fun ps) r cs) 0 (sqrt (Rm * Rm - r * r)).
Proof.
  induction ps; intros; cbn [spw_fun].
  - apply ex_RInt_const.
  - inversion H0; subst. destruct H3.
    apply (ex_RInt_plus (los2 (spfun (sq_cols a) (sq_r0 a) (sq_s a) (sq_rmin a) (sq_rmax a)) r cs) (los2 (spw_fun ps) r cs)).
    + apply spfun_ex_RInt; auto.
    + apply IHps; auto.
Qed.

Theorem piecewise_s_abel : forall ps Rm r cs, 0 < r -> List.Forall (spiece_ok Rm) ps ->
  spw_abel ps r cs = Abel2 (spw_fun ps) Rm r cs.
Proof.
  induction ps; intros Rm r cs Hr Hok; cbn [spw_abel spw_fun].
  - unfold Abel2. rewrite RInt_const. unfold scal; simpl; unfold mult; simpl. ring.
  - inversion Hok; subst. destruct H1 as [Hs Hl].
    rewrite Abel2_plus by (try apply spfun_ex_RInt; try apply spw_fun_ex_RInt; auto).
    rewrite <- (IHps Rm r cs Hr H2). f_equal.
    unfold sp_piece_abel. assert (0 <= Rmax (sq_rmin a) 0) by apply Rmax_r.
    destruct (Rlt_dec r (sq_rmax a)).
    + apply spoly_abel; auto.
    + symmetry. apply spoly_abel_outside. lra.
Qed.

(* ---- bspline (polynomial.py:861-898): a PPoly piece (coefficients in descending powers of
   (x - x_i), as scipy evaluates them) is the range (x_i, x_{i+1}, reversed coefficients, r_0 = x_i) ---- *)
Definition ppoly_eval (cdesc : list R) (xi x : R) : R :=
  fold_left (fun acc a => acc * (x - xi) + a) cdesc 0.

Lemma ppoly_eval_app : forall l a xi x, ppoly_eval (l ++ [a]) xi x = ppoly_eval l xi x * (x - xi) + a.
Proof. intros. unfold ppoly_eval. rewrite fold_left_app. reflexivity. Qed.

Theorem bspline_piece : forall cdesc xi x, ppoly_eval cdesc xi x = pevalR (rev cdesc) ((x - xi) / 1).
Proof.
  intros. replace ((x - xi) / 1) with (x - xi) by field.
  induction cdesc using rev_ind.
  - reflexivity.
  - rewrite ppoly_eval_app, rev_app_distr, IHcdesc. unfold pevalR. simpl. ring.
Qed.

(* the range tuple (x_i, x_{i+1}, reversed coefficients, r_0 = x_i) stands for the PPoly piece on
   [max(x_i, 0), x_{i+1}) -- with r_0 the real breakpoint, also when x_i < 0 -- and for 0 elsewhere *)
Theorem bspline_range : forall cdesc xi xi1 r,
  polyfun xi xi1 (rev cdesc) xi 1 r =
  if Rle_dec (Rmax xi 0) r then if Rlt_dec r xi1 then ppoly_eval cdesc xi r else 0 else 0.
Proof.
  intros. unfold polyfun. destruct (Rle_dec _ _); auto. destruct (Rlt_dec _ _); auto.
  symmetry. apply bspline_piece.
Qed.
