(* Proofs about model/CacheBasex.v. *)
From Coq Require Import List Arith Bool Lia.
From PA Require Import base.Npy model.CacheCommon model.CacheBasex.
Import ListNotations.

(* ---- semantic reading ------------------------------------------------------ *)
Inductive tag := E (sig i k : nat) | EJunk.
Inductive sem :=
  | SBasis (rows : nat) (ent : nat -> nat -> tag)
  | SA (reg : nat) (corr : bool) (dr : nat) (fwd : bool) (m : sem)
  | SExc (c : nat).

(* entries of M, Mc depend on (sigma, i, k) only: x_gen does not appear *)
Definition den_x (x : xcont) : sem :=
  SBasis (x_n x) (if x_junk x then (fun _ _ => EJunk) else E (x_sig x)).

Definition den_a (a : acont) : sem := SA (a_reg a) (a_corr a) (a_dr a) (a_fwd a) (den_x (a_x a)).

Definition den_out (r : res acont) : sem :=
  match r with Ret a => den_a a | Raise e => SExc (exc_code e) end.

Lemma crop_law : forall n N sig, n <= N -> den_x (crop n (ideal N sig)) = den_x (ideal n sig).
Proof.
  intros n N sig H. unfold crop, ideal, den_x. simpl.
  destruct (n <? N) eqn:E1; simpl; auto.
  apply Nat.ltb_ge in E1. assert (n = N) by lia. subst. reflexivity.
Qed.

Lemma x_eqv_parts : forall a b, x_eqv a b = true ->
  x_sig a = x_sig b /\ x_n a = x_n b /\ x_junk a = false /\ x_junk b = false.
Proof.
  intros a b H. unfold x_eqv in H.
  apply andb_true_iff in H. destruct H as [H H4].
  apply andb_true_iff in H. destruct H as [H H3].
  apply andb_true_iff in H. destruct H as [H1 H2].
  apply Nat.eqb_eq in H1. apply Nat.eqb_eq in H2.
  apply negb_true_iff in H3. apply negb_true_iff in H4. auto.
Qed.

Lemma x_eqv_sound : forall a b, x_eqv a b = true -> den_x a = den_x b.
Proof.
  intros a b H. destruct (x_eqv_parts _ _ H) as (H1 & H2 & H3 & H4).
  unfold den_x. rewrite H1, H2, H3, H4. reflexivity.
Qed.

Lemma a_eqv_sound : forall a b, a_eqv a b = true -> den_a a = den_a b.
Proof.
  intros a b H. unfold a_eqv in H.
  apply andb_true_iff in H. destruct H as [H H5].
  apply andb_true_iff in H. destruct H as [H H4].
  apply andb_true_iff in H. destruct H as [H H3].
  apply andb_true_iff in H. destruct H as [H1 H2].
  apply Nat.eqb_eq in H2. apply eqb_prop in H3. apply Nat.eqb_eq in H4. apply eqb_prop in H5.
  unfold den_a. rewrite H2, H3, H4, H5, (x_eqv_sound _ _ H1). reflexivity.
Qed.

Lemma out_eqv_sound : forall a b, out_eqv a b = true -> den_out a = den_out b.
Proof.
  intros [x|e1] [y|e2]; simpl; intros H; try discriminate.
  - apply a_eqv_sound; auto.
  - apply Nat.eqb_eq in H. rewrite H. reflexivity.
Qed.

(* ---- invariant -------------------------------------------------------------- *)
Definition good_x (x : xcont) (n sig : nat) : Prop :=
  x_sig x = sig /\ x_n x = n /\ x_junk x = false.

Definition good_a (o : option prm3) (oa : option acont) (x : xcont) (fwd : bool) : Prop :=
  match o, oa with
  | Some p, Some a => a = {| a_x := x; a_reg := fst (fst p); a_corr := snd (fst p); a_dr := snd p; a_fwd := fwd |}
  | Some _, None => False
  | None, _ => True
  end.

Definition honest (d : disk fkey xcont) : Prop :=
  forall di k c, In (di, k, c) d ->
    match c with FGood x => x = ideal (fst k) (snd k) | FBad _ => True | FShape => True end.

Definition Inv (s : st) : Prop :=
  match bs s, bs_prm s with
  | Some x, Some (n, sig) => good_x x n sig /\ good_a (trf_prm s) (trf s) x true /\ good_a (tri_prm s) (tri s) x false
  | None, None => trf_prm s = None /\ tri_prm s = None
  | _, _ => False
  end /\ honest (dk s).

Lemma Inv_init : Inv init.
Proof. unfold Inv, init, honest; simpl. split; auto. intros ? ? ? []. Qed.

Lemma honest_filter : forall d f, honest d -> honest (filter f d).
Proof. unfold honest. intros d f H di k c Hin. apply filter_In in Hin. destruct Hin. eapply H; eauto. Qed.

Lemma honest_put : forall d di k c, honest d ->
  match c with FGood x => x = ideal (fst k) (snd k) | FBad _ => True | FShape => True end ->
  honest (put_file fkey_eqb di k c d).
Proof.
  unfold honest, put_file, remove_file. intros d di k c H Hc di' k' c' [Hin|Hin].
  - inversion Hin; subst. exact Hc.
  - apply filter_In in Hin. destruct Hin. eapply H; eauto.
Qed.

Lemma xcont_eqb_eq : forall a b, xcont_eqb a b = true -> a = b.
Proof.
  intros [d1 g1 s1 j1] [d2 g2 s2 j2]. unfold xcont_eqb. simpl. intros H.
  apply andb_true_iff in H. destruct H as [H H4].
  apply andb_true_iff in H. destruct H as [H H3].
  apply andb_true_iff in H. destruct H as [H1 H2].
  apply Nat.eqb_eq in H1. apply Nat.eqb_eq in H2. apply Nat.eqb_eq in H3. apply eqb_prop in H4.
  subst. reflexivity.
Qed.

Lemma best_file_spec : forall l n sig acc r (Q : fkey * fstate xcont -> Prop),
  (forall a, acc = Some a -> Q a) ->
  (forall k c, In (k, c) l -> snd k = sig -> n <= fst k -> Q (k, c)) ->
  best_file n sig l acc = Some r -> Q r.
Proof.
  induction l as [|[k c] l IH]; intros n sig acc r Q Ha Hl Hb; simpl in Hb.
  - apply Ha; auto.
  - eapply IH; [| |exact Hb].
    + intros a Ea.
      destruct ((snd k =? sig) && (n <=? fst k) &&
                match acc with Some (k', _) => fst k <? fst k' | None => true end) eqn:E1.
      * inversion Ea; subst.
        apply andb_true_iff in E1. destruct E1 as [E1 _].
        apply andb_true_iff in E1. destruct E1 as [E1 E2].
        apply Nat.eqb_eq in E1. apply Nat.leb_le in E2.
        apply Hl; auto. left; reflexivity.
      * apply Ha; auto.
    + intros k' c' Hin. apply Hl. right; auto.
Qed.

Lemma in_dir_In : forall (d : disk fkey xcont) di k c,
  In (k, c) (in_dir di d) -> In (di, k, c) d.
Proof.
  intros d di k c H. unfold in_dir in H. apply in_map_iff in H.
  destruct H as [[[d' k'] c'] [E Hin]]. simpl in E. inversion E; subst.
  apply filter_In in Hin. destruct Hin as [Hin Hd]. simpl in Hd. apply Nat.eqb_eq in Hd. subst. auto.
Qed.

Lemma find_file_In : forall (d : disk fkey xcont) di k c,
  find_file fkey_eqb di k d = Some c -> exists k', In (di, k', c) d /\ fkey_eqb k' k = true.
Proof.
  intros d di k c H. unfold find_file in H.
  destruct (filter (same_file fkey_eqb di k) d) as [|e l] eqn:E; [discriminate|].
  inversion H; subst. assert (Hin : In e (filter (same_file fkey_eqb di k) d)) by (rewrite E; left; auto).
  apply filter_In in Hin. destruct Hin as [Hin Hs]. unfold same_file in Hs.
  apply andb_true_iff in Hs. destruct Hs as [H1 H2]. apply Nat.eqb_eq in H1.
  destruct e as [[d' k'] c']. simpl in *. subst. exists k'. auto.
Qed.

Lemma fkey_eqb_eq : forall a b, fkey_eqb a b = true -> a = b.
Proof.
  intros [a1 a2] [b1 b2]. unfold fkey_eqb. simpl. intros H.
  apply andb_true_iff in H. destruct H as [H1 H2].
  apply Nat.eqb_eq in H1. apply Nat.eqb_eq in H2. subst. reflexivity.
Qed.

(* the file get_bs_cached decides to load: right sigma, sufficient size, on disk *)
Lemma pick_spec : forall n sig di d k c,
  pick n sig di d = Some (k, c) -> snd k = sig /\ n <= fst k /\ In (di, k, c) d.
Proof.
  intros n sig di d k c H. unfold pick in H.
  destruct (find_file fkey_eqb di (n, sig) d) as [c0|] eqn:Ef.
  - inversion H; subst. destruct (find_file_In _ _ _ _ Ef) as [k' [Hin Hk]].
    apply fkey_eqb_eq in Hk. subst. simpl. auto.
  - apply (best_file_spec _ _ _ _ _ (fun r => snd (fst r) = sig /\ n <= fst (fst r) /\ In (di, fst r, snd r) d)) in H.
    + exact H.
    + intros a Ha. discriminate.
    + intros k' c' Hin Hs Hn. simpl. repeat split; auto. apply in_dir_In; auto.
Qed.

(* ---- steps -------------------------------------------------------------------- *)
Definition expected (n sig reg : nat) (corr : bool) (dr : nat) (fwd : bool) : acont :=
  {| a_x := ideal n sig; a_reg := reg; a_corr := corr; a_dr := dr; a_fwd := fwd |}.

Lemma fresh_expected : forall n sig reg corr dr fwd bd,
  match bd with BPath d => dir_writable d = true | _ => True end ->
  fresh (Call n sig reg corr dr fwd bd) = Ret (expected n sig reg corr dr fwd).
Proof.
  intros n sig reg corr dr fwd bd Hw. unfold fresh, step_call, ensure_bs.
  destruct fwd; destruct bd as [| |d]; [| |rewrite Hw| | |rewrite Hw]; cbn -[Nat.ltb]; rewrite Nat.ltb_irrefl; reflexivity.
Qed.

Lemma Inv_with_gdir : forall s g, Inv s -> Inv (with_gdir s g).
Proof. intros s g H. exact H. Qed.

Definition clean (s : st) : Prop := forall di k c, In (di, k, c) (dk s) -> forall pe, c <> FBad pe.

Lemma best_file_some : forall l n sig a, best_file n sig l (Some a) <> None.
Proof.
  induction l as [|[k c] l IH]; intros n sig a; simpl; [discriminate|].
  destruct ((snd k =? sig) && (n <=? fst k) && (let (k', _) := a in fst k <? fst k')); apply IH.
Qed.

Lemma best_file_none : forall l n sig, best_file n sig l None = None ->
  forall k c, In (k, c) l -> snd k = sig -> fst k < n.
Proof.
  induction l as [|[k0 c0] l IH]; intros n sig H k c Hin Hs; [destruct Hin|].
  simpl in H.
  destruct ((snd k0 =? sig) && (n <=? fst k0) && true) eqn:E.
  - exfalso. eapply best_file_some; eauto.
  - destruct Hin as [Hi|Hi].
    + inversion Hi; subst. rewrite Nat.eqb_refl in E. cbn [andb] in E. rewrite andb_true_r in E.
      apply Nat.leb_gt in E. exact E.
    + eapply IH; eauto.
Qed.

Lemma largest_file_in : forall l sig acc k c, largest_file sig l acc = Some (k, c) ->
  acc = Some (k, c) \/ (In (k, c) l /\ snd k = sig).
Proof.
  induction l as [|[k0 c0] l IH]; intros sig acc k c H; simpl in H; [auto|].
  destruct ((snd k0 =? sig) && match acc with Some (k', _) => fst k' <? fst k0 | None => 0 <? fst k0 end) eqn:E.
  - destruct (IH _ _ _ _ H) as [Ha|[Hi Hs]].
    + inversion Ha; subst. right. split; [left; reflexivity|].
      apply andb_true_iff in E. destruct E as [E _]. apply Nat.eqb_eq in E. exact E.
    + right. split; [right; exact Hi|exact Hs].
  - destruct (IH _ _ _ _ H) as [Ha|[Hi Hs]]; [left; exact Ha|right; split; [right; exact Hi|exact Hs]].
Qed.

Lemma ensure_good : forall s n sig bd s1 oe,
  Inv s -> uses_bad_dir s bd = false -> ensure_bs s n sig bd = (s1, oe) ->
  Inv s1 /\
  (oe = None -> exists x, bs s1 = Some x /\ bs_prm s1 = Some (n, sig) /\ good_x x n sig) /\
  (forall e, oe = Some e -> clean s -> False).
Proof.
  intros s n sig bd s1 oe HI Hbad He. unfold ensure_bs in He.
  pose proof HI as [HI0 Hh].
  destruct (bs_hit s n sig) eqn:Eh.
  - injection He as <- <-. split; auto. split; [|discriminate]. intros _.
    unfold bs_hit in Eh. destruct (bs_prm s) as [[pn ps]|] eqn:Ep; [|discriminate].
    apply andb_true_iff in Eh. destruct Eh as [E1 E2]. apply Nat.eqb_eq in E1. apply Nat.eqb_eq in E2. subst.
    destruct (bs s) as [x|]; [|contradiction]. exists x. destruct HI0 as [Hg _]. auto.
  - unfold uses_bad_dir in Hbad.
    destruct (resolve (gdir s) bd) as [g dir] eqn:Er. cbn [snd] in Hbad.
    assert (Hgen : forall d', honest d' ->
              Inv (set_bs (with_gdir s g) g (ideal n sig) n sig d')).
    { intros d' Hd'. unfold Inv, set_bs. cbn [bs bs_prm trf_prm tri_prm trf tri dk].
      split; auto. repeat split; auto. }
    destruct dir as [di|].
    + apply negb_false_iff in Hbad. rewrite Hbad in He.
      set (generate := (set_bs (with_gdir s g) g (ideal n sig) n sig
                          (put_file fkey_eqb di (n, sig) (FGood (ideal n sig)) (dk s)), @None exc)) in *.
      assert (Hg1 : forall s1' oe', generate = (s1', oe') ->
                Inv s1' /\
                (oe' = None -> exists x, bs s1' = Some x /\ bs_prm s1' = Some (n, sig) /\ good_x x n sig) /\
                (forall e, oe' = Some e -> clean s -> False)).
      { intros s1' oe' E. unfold generate in E. inversion E; subst. split; [apply Hgen; apply honest_put; auto|].
        split; [|discriminate]. intros _. exists (ideal n sig). cbn. repeat split; auto. }
      assert (Hreg : forall s1' oe', (clean s -> True) -> generate = (s1', oe') ->
                Inv s1' /\
                (oe' = None -> exists x, bs s1' = Some x /\ bs_prm s1' = Some (n, sig) /\ good_x x n sig) /\
                (forall e, oe' = Some e -> clean s -> False)).
      { intros s1' oe' _ E. apply Hg1; auto. }
      destruct (pick n sig di (dk s)) as [[k c]|] eqn:Epk.
      * destruct (pick_spec _ _ _ _ _ _ Epk) as (Hk1 & Hk2 & Hk3). pose proof (Hh _ _ _ Hk3) as Hc.
        assert (Hnc : clean s -> forall x, c = FGood x \/ True) by auto.
        destruct c as [x|pe|]; [|destruct pe|].
        -- inversion He; subst s1 oe. clear He. subst x.
           assert (Hgx : good_x (crop n (ideal (fst k) (snd k))) n (snd k)).
           { unfold crop, good_x. cbn [x_n ideal]. destruct (n <? fst k) eqn:E4; cbn; repeat split; auto.
             apply Nat.ltb_ge in E4. lia. }
           rewrite <- Hk1.
           split; [|split; [|discriminate]].
           ++ unfold Inv, set_bs. cbn [bs bs_prm trf_prm tri_prm trf tri dk]. split; auto.
              split; [exact Hgx|]. split; exact I.
           ++ intros _. eexists. cbn [bs bs_prm set_bs]. split; [reflexivity|]. split; [reflexivity|exact Hgx].
        -- inversion He; subst. split; [apply Inv_with_gdir; auto|]. split; [discriminate|].
           intros e _ Hcl. exact (Hcl _ _ _ Hk3 _ eq_refl).
        -- eapply Hreg; [|exact He]. auto.
        -- inversion He; subst. split; [apply Inv_with_gdir; auto|]. split; [discriminate|].
           intros e _ Hcl. exact (Hcl _ _ _ Hk3 _ eq_refl).
        -- inversion He; subst. split; [apply Inv_with_gdir; auto|]. split; [discriminate|].
           intros e _ Hcl. exact (Hcl _ _ _ Hk3 _ eq_refl).
        -- eapply Hreg; [|exact He]. auto.
      * eapply Hreg; [|exact He]. auto.
    + inversion He; subst. split; [apply Hgen; auto|]. split; [|discriminate].
      intros _. exists (ideal n sig). cbn. repeat split; auto.
Qed.

Lemma prm3_eqb_eq : forall a b, prm3_eqb a b = true -> a = b.
Proof.
  intros [[a1 a2] a3] [[b1 b2] b3]. unfold prm3_eqb. simpl. intros H.
  apply andb_true_iff in H. destruct H as [H H3].
  apply andb_true_iff in H. destruct H as [H1 H2].
  apply Nat.eqb_eq in H1. apply eqb_prop in H2. apply Nat.eqb_eq in H3. subst. reflexivity.
Qed.

Lemma a_eqv_refl_good : forall x n sig reg corr dr fwd, good_x x n sig ->
  a_eqv {| a_x := x; a_reg := reg; a_corr := corr; a_dr := dr; a_fwd := fwd |}
        (expected n sig reg corr dr fwd) = true.
Proof.
  intros x n sig reg corr dr fwd (H1 & H2 & H3). unfold a_eqv, expected, x_eqv. cbn.
  rewrite H1, H2, H3, !Nat.eqb_refl, !eqb_reflx. reflexivity.
Qed.

Lemma step_good : forall s o s' r,
  Inv s -> hazard s o = false -> step s o = (s', r) ->
  Inv s' /\
  (is_call o = true ->
     out_eqv r (fresh o) = true \/
     exists e, r = Raise e /\ (clean s -> False)).
Proof.
  intros s o s' r HI Hz Hs. destruct o as [n sig reg corr dr fwd bd|sel|bd|bd|d k c|d k].
  - cbn [step hazard] in *. unfold step_call in Hs.
    destruct (ensure_bs s n sig bd) as [s1 oe] eqn:Ee.
    destruct (ensure_good _ _ _ _ _ _ HI Hz Ee) as (HI1 & Hb & Hraise).
    destruct oe as [e|].
    + inversion Hs; subst. split; auto. intros _. right.
      exists e. split; auto. exact (Hraise e eq_refl).
    + destruct (Hb eq_refl) as (x & Hbs & Hp & Hg). rewrite Hbs in Hs.
      assert (Hbd : match bd with BPath d => dir_writable d = true | _ => True end).
      { destruct bd; auto. unfold uses_bad_dir in Hz. simpl in Hz. apply negb_false_iff in Hz. auto. }
      rewrite fresh_expected by exact Hbd.
      pose proof HI1 as [HI10 Hh1]. rewrite Hbs, Hp in HI10. destruct HI10 as (_ & Hf & Hi).
      assert (Hsz : forall a, a_x a = x -> (x_n (a_x a) <? n) = false).
      { intros a ->. destruct Hg as (_ & Hn & _). rewrite Hn. apply Nat.ltb_irrefl. }
      set (anew := {| a_x := x; a_reg := reg; a_corr := corr; a_dr := dr; a_fwd := fwd |}).
      assert (Hnew : a_eqv anew (expected n sig reg corr dr fwd) = true) by (apply a_eqv_refl_good; auto).
      destruct fwd.
      * (* forward *)
        destruct (trf_prm s1) as [q|] eqn:Eq; destruct (trf s1) as [a|] eqn:Ea;
          try (destruct (prm3_eqb q (reg, corr, dr)) eqn:Epq).
        -- apply prm3_eqb_eq in Epq. subst q. cbn [good_a fst snd] in Hf. subst a.
           rewrite Hsz in Hs by reflexivity. inversion Hs; subst. split; [exact HI1|intros _; left; exact Hnew].
        -- rewrite Hsz in Hs by reflexivity. inversion Hs; subst. split; [|intros _; left; exact Hnew].
           unfold Inv. cbn [bs bs_prm trf_prm tri_prm trf tri dk]. rewrite ?Hbs, ?Hp. split; auto.
           split; auto. split; auto. cbn [good_a fst snd]. reflexivity.
        -- contradiction.
        -- contradiction.
        -- rewrite Hsz in Hs by reflexivity. inversion Hs; subst. split; [|intros _; left; exact Hnew].
           unfold Inv. cbn [bs bs_prm trf_prm tri_prm trf tri dk]. rewrite ?Hbs, ?Hp. split; auto.
           split; auto. split; auto. cbn [good_a fst snd]. reflexivity.
        -- rewrite Hsz in Hs by reflexivity. inversion Hs; subst. split; [|intros _; left; exact Hnew].
           unfold Inv. cbn [bs bs_prm trf_prm tri_prm trf tri dk]. rewrite ?Hbs, ?Hp. split; auto.
           split; auto. split; auto. cbn [good_a fst snd]. reflexivity.
      * destruct (tri_prm s1) as [q|] eqn:Eq; destruct (tri s1) as [a|] eqn:Ea;
          try (destruct (prm3_eqb q (reg, corr, dr)) eqn:Epq).
        -- apply prm3_eqb_eq in Epq. subst q. cbn [good_a fst snd] in Hi. subst a.
           rewrite Hsz in Hs by reflexivity. inversion Hs; subst. split; [exact HI1|intros _; left; exact Hnew].
        -- rewrite Hsz in Hs by reflexivity. inversion Hs; subst. split; [|intros _; left; exact Hnew].
           unfold Inv. cbn [bs bs_prm trf_prm tri_prm trf tri dk]. rewrite ?Hbs, ?Hp. split; auto.
           split; auto. split; auto. cbn [good_a fst snd]. reflexivity.
        -- contradiction.
        -- contradiction.
        -- rewrite Hsz in Hs by reflexivity. inversion Hs; subst. split; [|intros _; left; exact Hnew].
           unfold Inv. cbn [bs bs_prm trf_prm tri_prm trf tri dk]. rewrite ?Hbs, ?Hp. split; auto.
           split; auto. split; auto. cbn [good_a fst snd]. reflexivity.
        -- rewrite Hsz in Hs by reflexivity. inversion Hs; subst. split; [|intros _; left; exact Hnew].
           unfold Inv. cbn [bs bs_prm trf_prm tri_prm trf tri dk]. rewrite ?Hbs, ?Hp. split; auto.
           split; auto. split; auto. cbn [good_a fst snd]. reflexivity.
  - (* cache_cleanup *)
    inversion Hs; subst. split; [|discriminate]. destruct HI as [HI0 Hh].
    unfold Inv. cbn [bs bs_prm trf_prm tri_prm trf tri dk]. split; auto.
    destruct sel; cbn.
    + auto.
    + destruct (bs s), (bs_prm s) as [[? ?]|]; try contradiction; auto.
      * destruct HI0 as (A & B & C). split; [exact A|]. split; [exact I|exact C].
      * destruct HI0. auto.
    + destruct (bs s), (bs_prm s) as [[? ?]|]; try contradiction; auto.
      * destruct HI0 as (A & B & C). split; [exact A|]. split; [exact B|exact I].
      * destruct HI0. auto.
  - cbn [step] in Hs. destruct (resolve (gdir s) bd) as [g dir].
    destruct dir as [di|]; inversion Hs; subst; (split; [|discriminate]).
    + destruct HI as [HI0 Hh]. unfold Inv, with_dk, with_gdir. cbn [bs bs_prm trf_prm tri_prm trf tri dk].
      split; auto. apply honest_filter; auto.
    + apply Inv_with_gdir; auto.
  - inversion Hs; subst. split; [apply Inv_with_gdir; auto|discriminate].
  - inversion Hs; subst. split; [|discriminate]. destruct HI as [HI0 Hh].
    unfold Inv, with_dk. cbn [bs bs_prm trf_prm tri_prm trf tri dk]. split; auto.
    apply honest_put; auto. cbn [hazard] in Hz.
    destruct c as [x|e|]; auto.
    apply negb_false_iff in Hz. apply xcont_eqb_eq in Hz. auto.
  - inversion Hs; subst. split; [|discriminate]. destruct HI as [HI0 Hh].
    unfold Inv, with_dk. cbn [bs bs_prm trf_prm tri_prm trf tri dk]. split; auto.
    apply honest_filter; auto.
Qed.

(* ---- no damaged file -------------------------------------------------------------- *)
Lemma step_dk : forall s o s' r, step s o = (s', r) ->
  forall di k c, In (di, k, c) (dk s') ->
    In (di, k, c) (dk s) \/ (exists x, c = FGood x) \/ (exists d0 k0, o = Seed d0 k0 c).
Proof.
  intros s o s' r Hs di k c Hin. destruct o as [n sig reg corr dr fwd bd|sel|bd|bd|d k0 c0|d k0].
  - cbn [step] in Hs. unfold step_call in Hs.
    destruct (ensure_bs s n sig bd) as [s1 oe] eqn:Ee.
    assert (H1 : In (di, k, c) (dk s1) -> In (di, k, c) (dk s) \/ (exists x, c = FGood x)).
    { revert Ee. unfold ensure_bs. destruct (bs_hit s n sig); [intros E; inversion E; subst; auto|].
      destruct (resolve (gdir s) bd) as [g dir]. destruct dir as [d1|].
      - destruct (dir_writable d1); destruct (pick n sig d1 (dk s)) as [[k1 [x1|[]|]]|];
          intros E; inversion E; subst; cbn [dk set_bs with_gdir]; intros Hi;
          first [ left; exact Hi
                | destruct Hi as [Hi|Hi];
                  [inversion Hi; subst; right; eauto
                  |apply filter_In in Hi; destruct Hi; left; assumption] ].
      - intros E; inversion E; subst; cbn [dk set_bs with_gdir]; auto. }
    assert (H2 : dk s' = dk s1).
    { destruct oe; [inversion Hs; subst; reflexivity|].
      destruct (bs s1); [|inversion Hs; subst; reflexivity].
      revert Hs.
      repeat match goal with
             | |- context [if ?c then _ else _] => destruct c
             | |- context [match ?x with _ => _ end] => destruct x
             end; intros E; inversion E; subst; reflexivity. }
    rewrite H2 in Hin. destruct (H1 Hin); auto.
  - inversion Hs; subst. auto.
  - cbn [step] in Hs. destruct (resolve (gdir s) bd) as [g dir].
    destruct dir; inversion Hs; subst; cbn [dk with_dk with_gdir] in Hin; auto.
    apply filter_In in Hin. destruct Hin; auto.
  - inversion Hs; subst. auto.
  - inversion Hs; subst. cbn [dk with_dk] in Hin. destruct Hin as [Hi|Hi].
    + inversion Hi; subst. right. right. eauto.
    + apply filter_In in Hi. destruct Hi; auto.
  - inversion Hs; subst. cbn [dk with_dk] in Hin. apply filter_In in Hin. destruct Hin; auto.
Qed.

Lemma step_clean : forall s o s' r, clean s -> damage o = false -> hazard s o = false ->
  step s o = (s', r) -> clean s'.
Proof.
  intros s o s' r Hc Hd Hz Hs di k c Hin pe.
  destruct (step_dk _ _ _ _ Hs _ _ _ Hin) as [H|[[x ->]|(d0 & k0 & ->)]]; [eauto|discriminate|].
  cbn [damage] in Hd. destruct c; try discriminate.
Qed.

Lemma history_independent_from : forall ops s,
  Inv s -> clean s -> no_hazard s ops = true -> no_damage ops = true -> all_agree s ops = true.
Proof.
  induction ops as [|o ops IH]; intros s HI Hc Hz Hd; [reflexivity|].
  cbn [no_hazard no_damage all_agree] in *.
  apply andb_true_iff in Hz. destruct Hz as [Hz1 Hz2]. apply negb_true_iff in Hz1.
  apply andb_true_iff in Hd. destruct Hd as [Hd1 Hd2]. apply negb_true_iff in Hd1.
  destruct (step s o) as [s' r] eqn:Es. cbn [fst] in Hz2.
  destruct (step_good _ _ _ _ HI Hz1 Es) as [HI' Hr].
  pose proof (step_clean _ _ _ _ Hc Hd1 Hz1 Es) as Hc'.
  apply andb_true_iff. split; [|apply IH; auto].
  destruct (is_call o) eqn:Eo; [|reflexivity].
  destruct (Hr eq_refl) as [Hok|(e & _ & Hn)]; [exact Hok|].
  exfalso. exact (Hn Hc).
Qed.

Theorem history_independent : forall ops,
  no_hazard init ops = true -> no_damage ops = true -> all_agree init ops = true.
Proof.
  intros. apply history_independent_from; auto.
  - apply Inv_init.
  - intros di k c [].
Qed.

Lemma fault_safe_from : forall ops s,
  Inv s -> no_hazard s ops = true -> all_safe s ops = true.
Proof.
  induction ops as [|o ops IH]; intros s HI Hz; [reflexivity|].
  cbn [no_hazard all_safe] in *.
  apply andb_true_iff in Hz. destruct Hz as [Hz1 Hz2]. apply negb_true_iff in Hz1.
  destruct (step s o) as [s' r] eqn:Es. cbn [fst] in Hz2.
  destruct (step_good _ _ _ _ HI Hz1 Es) as [HI' Hr].
  apply andb_true_iff. split; [|apply IH; auto].
  destruct (is_call o) eqn:Eo; [|reflexivity].
  destruct (Hr eq_refl) as [Hok|(e & -> & _)].
  - rewrite Hok. reflexivity.
  - apply orb_true_iff. right. destruct e; reflexivity.
Qed.

Theorem fault_safe : forall ops, no_hazard init ops = true -> all_safe init ops = true.
Proof. intros. apply fault_safe_from; auto. apply Inv_init. Qed.

(* ---- wrong-shape file (F8, fixed in 7ce4ac5): regenerated and re-saved ------------- *)
Definition ws_call : op := Call 10 0 0 true 0 false (BPath 1).
Definition ws_hist : list op := [Seed 1 (10, 0) FShape].
Example wrong_shape_regenerated :
  out_eqv (last_result ws_hist ws_call) (fresh ws_call) = true /\
  out_eqv (last_result (ws_hist ++ [ws_call; Remove 1 (10, 0)]) ws_call) (fresh ws_call) = true.
Proof. split; vm_compute; reflexivity. Qed.
