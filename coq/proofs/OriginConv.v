(* OriginConv.v — autoconvolution of a profile: conv[k] <= sum p^2 for every k
   (2ab <= a^2 + b^2), with equality at k = s when p is symmetric about s/2,
   and only there unless p vanishes; hence the first argmax is s and the
   convolution method reports exactly s/2. *)
From Coq Require Import List Arith Lia Bool ZArith Reals Lra ZifyBool ZifyNat.
From PA Require Import base.Arr base.Px model.Origin proofs.OriginSums proofs.OriginProofs.
Import ListNotations.

Local Open Scope R_scope.

Lemma sq_nonneg x : 0 <= x * x.
Proof. exact (Rle_0_sqr x). Qed.

Lemma sq_zero x : x * x = 0 -> x = 0.
Proof. intros H. destruct (Rmult_integral _ _ H); assumption. Qed.

Section Conv.
  Variable p : list R.
  Let n := length p.

  (* conv[k] and the total of squares, as sums over Z *)
  Definition Cz (k : Z) : R := zs (fun i => pz p i * pz p (k - i)) 0 n.
  Definition Tz : R := zs (fun i => pz p i * pz p i) 0 n.

  Lemma conv_at_Cz k : conv_atR p k = Cz (Z.of_nat k).
  Proof.
    unfold conv_atR, conv_at, sum. fold n.
    rewrite (sum_map_seq _ 0 n). unfold Cz. apply zs_ext. intros i Hi. cbn [Z.of_nat] in Hi.
    rewrite <- (pz_nat p (Z.to_nat i)). rewrite Z2Nat.id by lia. f_equal.
    destruct (Nat.leb_spec (Z.to_nat i) k).
    - rewrite <- pz_nat. f_equal. lia.
    - symmetry. apply pz_out. lia.
  Qed.

  Lemma sq_window k : zs (fun i => pz p (k - i) * pz p (k - i)) 0 n <= Tz.
  Proof.
    rewrite (zs_refl (fun j => pz p j * pz p j) k 0 n).
    unfold Tz.
    pose proof (zs_sub_le (fun j => pz p j * pz p j) 0 (Z.of_nat n) (k - 0 - Z.of_nat n + 1) n) as H.
    replace (Z.to_nat (Z.of_nat n - 0)) with n in H by lia.
    apply H; try lia.
    - intros j. apply sq_nonneg.
    - intros j Hj. rewrite pz_out by (fold n; lia). lra.
  Qed.

  (* conv[k] <= sum of squares, for every k *)
  Lemma conv_le k : Cz k <= Tz.
  Proof.
    pose proof (sq_window k) as W.
    assert (H : 2 * Cz k <= Tz + zs (fun i => pz p (k - i) * pz p (k - i)) 0 n).
    { unfold Cz, Tz. rewrite <- zs_scal, <- zs_plus. apply zs_le. intros i _. cbv beta.
      pose proof (Rle_0_sqr (pz p i - pz p (k - i))) as Q. unfold Rsqr in Q. lra. }
    lra.
  Qed.

  (* equality forces p[i] = p[k - i] on the frame *)
  Lemma conv_eq_mirror k : Cz k = Tz -> forall i, (0 <= i < Z.of_nat n)%Z -> pz p i = pz p (k - i).
  Proof.
    intros E i Hi.
    set (D := fun i => (pz p i - pz p (k - i)) * (pz p i - pz p (k - i))).
    assert (D0 : zs D 0 n = 0).
    { assert (Dn : 0 <= zs D 0 n) by (apply zs_nonneg; intros j _; unfold D; apply sq_nonneg).
      assert (Ds : zs D 0 n = Tz + -2 * Cz k + zs (fun i => pz p (k - i) * pz p (k - i)) 0 n).
      { unfold D, Tz, Cz. rewrite <- zs_scal, <- !zs_plus. apply zs_ext. intros j _. ring. }
      pose proof (sq_window k). lra. }
    assert (Di : D i = 0).
    { apply (zs_nonneg_eq0 D 0 n); [intros j _; unfold D; apply sq_nonneg|exact D0|lia]. }
    unfold D in Di. apply sq_zero in Di. lra.
  Qed.

  Section Symmetric.
    Variable s : Z.
    Hypothesis Hsym : sym1 p s.

    Lemma conv_centre : Cz s = Tz.
    Proof. unfold Cz, Tz. apply zs_ext. intros i _. rewrite <- (Hsym i). reflexivity. Qed.

    (* the autoconvolution is maximal at 2c = s *)
    Lemma conv_max_at_centre k : Cz k <= Cz s.
    Proof. rewrite conv_centre. apply conv_le. Qed.

    (* a second maximum makes p periodic, hence zero *)
    Lemma periodic_zero (d : Z) :
      d <> 0%Z -> (forall i, (0 <= i < Z.of_nat n)%Z -> pz p i = pz p (i + d)) ->
      forall i, pz p i = 0.
    Proof.
      intros Hd Hper.
      assert (Step : forall j i, (0 <= i < Z.of_nat n)%Z ->
                ~ (0 <= i + Z.of_nat j * d < Z.of_nat n)%Z -> pz p i = 0).
      { induction j as [|j IH]; intros i Hi Hout.
        - exfalso. apply Hout. lia.
        - rewrite (Hper i Hi).
          destruct (Z_lt_ge_dec (i + d) 0); [apply pz_out; lia|].
          destruct (Z_lt_ge_dec (i + d) (Z.of_nat n)); [|apply pz_out; fold n; lia].
          apply IH; [lia|]. intros Hin. apply Hout. lia. }
      intros i.
      destruct (Z_lt_ge_dec i 0); [apply pz_out; lia|].
      destruct (Z_lt_ge_dec i (Z.of_nat n)); [|apply pz_out; fold n; lia].
      apply (Step n i); [lia|]. nia.
    Qed.

    Lemma conv_max_unique k : k <> s -> Cz k = Cz s -> forall i, pz p i = 0.
    Proof.
      intros Hk E. rewrite conv_centre in E.
      apply (periodic_zero (s - k)%Z); [lia|].
      intros i Hi. rewrite (conv_eq_mirror k E i Hi). rewrite (Hsym (k - i)%Z). f_equal. lia.
    Qed.

    Lemma conv_strict k : (exists i, pz p i <> 0) -> k <> s -> Cz k < Cz s.
    Proof.
      intros [i Hi] Hk. destruct (Rle_lt_or_eq_dec _ _ (conv_max_at_centre k)) as [L|E]; [exact L|].
      exfalso. apply Hi. apply (conv_max_unique k Hk E).
    Qed.

    Lemma centre_in_range : (exists i, pz p i <> 0) -> (0 <= s <= 2 * Z.of_nat n - 2)%Z.
    Proof.
      intros [i Hi].
      assert (H1 : (0 <= i < Z.of_nat n)%Z).
      { destruct (Z_lt_ge_dec i 0); [exfalso; apply Hi; apply pz_out; lia|].
        destruct (Z_lt_ge_dec i (Z.of_nat n)); [lia|exfalso; apply Hi; apply pz_out; fold n; lia]. }
      assert (H2 : (0 <= s - i < Z.of_nat n)%Z).
      { rewrite (Hsym i) in Hi.
        destruct (Z_lt_ge_dec (s - i) 0); [exfalso; apply Hi; apply pz_out; lia|].
        destruct (Z_lt_ge_dec (s - i) (Z.of_nat n)); [lia|exfalso; apply Hi; apply pz_out; fold n; lia]. }
      lia.
    Qed.
  End Symmetric.
End Conv.

(* ---- first argmax -------------------------------------------------------------- *)
Lemma Rltb_true a b : Rltb a b = true <-> a < b.
Proof. unfold Rltb. destruct (Rlt_dec a b); split; intros; auto; discriminate. Qed.

Lemma argmax_from_stay b bv k t :
  (forall x, In x t -> ~ bv < x) -> argmax_from Rltb b bv k t = b.
Proof.
  revert k; induction t as [|x t IH]; intros k H; cbn [argmax_from]; [reflexivity|].
  destruct (Rltb bv x) eqn:E.
  - apply Rltb_true in E. exfalso. apply (H x); [left; reflexivity|exact E].
  - apply IH. intros y Hy. apply H. right. exact Hy.
Qed.

Lemma argmax_from_switch t1 : forall b bv k x t2,
  (forall y, In y t1 -> y < x) -> bv < x -> (forall y, In y t2 -> y < x) ->
  argmax_from Rltb b bv k (t1 ++ x :: t2) = (k + length t1)%nat.
Proof.
  induction t1 as [|y t1 IH]; intros b bv k x t2 H1 Hb H2; cbn [app argmax_from length].
  - assert (E : Rltb bv x = true) by (apply Rltb_true; exact Hb). rewrite E.
    rewrite argmax_from_stay; [lia|]. intros z Hz. specialize (H2 z Hz). lra.
  - destruct (Rltb bv y).
    + rewrite IH; [lia| | |assumption].
      * intros z Hz. apply H1. right. exact Hz.
      * apply H1. left. reflexivity.
    + rewrite IH; [lia| |assumption|assumption].
      intros z Hz. apply H1. right. exact Hz.
Qed.

Lemma list_split_nth (t : list R) k :
  (k < length t)%nat -> t = firstn k t ++ nth k t 0 :: skipn (S k) t.
Proof.
  revert k; induction t as [|x t IH]; intros [|k] H; cbn [length] in H; try lia.
  - reflexivity.
  - cbn [firstn nth skipn app]. f_equal. apply IH. lia.
Qed.

Lemma argmax_unique (l : list R) k :
  (k < length l)%nat ->
  (forall j, (j < length l)%nat -> j <> k -> nth j l 0 < nth k l 0) ->
  argmaxR l = k.
Proof.
  intros Hk H. unfold argmaxR, argmax.
  destruct l as [|x0 t]; [cbn in Hk; lia|].
  destruct k as [|k].
  - apply argmax_from_stay. intros y Hy. apply In_nth with (d:=0) in Hy. destruct Hy as [j [Hj <-]].
    specialize (H (S j)). cbn [nth length] in H. specialize (H ltac:(lia) ltac:(lia)). lra.
  - cbn [length] in Hk.
    assert (Ht : t = firstn k t ++ nth k t 0 :: skipn (S k) t) by (apply list_split_nth; lia).
    rewrite Ht at 1.
    rewrite argmax_from_switch.
    + rewrite firstn_length. lia.
    + intros y Hy. apply In_nth with (d:=0) in Hy. destruct Hy as [j [Hj <-]].
      rewrite firstn_length in Hj.
      rewrite nth_firstn' by lia.
      specialize (H (S j)). cbn [nth length] in H. apply H; lia.
    + specialize (H 0%nat). cbn [nth length] in H. apply H; lia.
    + intros y Hy. apply In_nth with (d:=0) in Hy. destruct Hy as [j [Hj <-]].
      rewrite skipn_length in Hj.
      rewrite nth_skipn'.
      specialize (H (S (S k + j))). cbn [nth length] in H.
      replace (S k + j)%nat with (S (k + j)) in * by lia. apply H; lia.
Qed.
