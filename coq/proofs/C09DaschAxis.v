(* proofs/C09DaschAxis.v — the axis row i = 0 of the Dasch operators.
   two_point:   D[0][j] for j >= 2 is the inverse Abel integral (at r = 0) of the
                piecewise-linear interpolant of e_j; D[0][0] = 2/pi and
                D[0][1] = ln 2/pi - 2/pi are the documented convention (the
                integrand c/x of the first segment is not integrable).
   three_point: D[0][j] is the inverse Abel integral of the piecewise-parabolic
                interpolant of e_j for EVERY j, the parabola of the axis segment
                [0, 1/2] being the one through (-1, 0, 1) with P_{-1} = P_1
                (symmetric continuation), which makes P'(s)/s integrable:
                j = 0: dpar 0 (= -2 s on the axis segment), j = 1: dpar_sym1
                (2 s on the axis segment), j >= 2: dpar j (zero near the axis). *)
From Coq Require Import Reals ZArith Bool Lra Lia Psatz.
From Coquelicot Require Import Coquelicot.
From PA Require Import model.Abel proofs.AbelLemmas proofs.C09Daun proofs.C09Dasch gen.FormulasBasis.
Open Scope R_scope.

Lemma hyp0' y : 0 <= y -> sqrt (0 * 0 + y * y) = y.
Proof. apply hyp0. Qed.

Lemma upper0 Rm : 0 <= Rm -> sqrt (Rm * Rm - 0 * 0) = Rm.
Proof. intros. replace (Rm * Rm - 0 * 0) with (Rm * Rm) by ring. apply sqrt_square; auto. Qed.

Lemma RInt_inv a b : 0 < a -> a <= b -> is_RInt (fun y => / y) a b (ln b - ln a).
Proof.
  intros Ha Hab. apply (is_RInt_derive ln (fun y => / y)).
  - intros y Hy. rewrite Rmin_left, Rmax_right in Hy by lra. auto_derive; lra.
  - intros y Hy. rewrite Rmin_left, Rmax_right in Hy by lra.
    apply continuity_pt_filterlim. apply continuity_pt_inv; [apply continuity_pt_id|lra].
Qed.

(* pieces on the axis line of sight (x = 0, rho = y) *)
Lemma axis_piece (f : R -> R) a b al be : 0 < a -> a <= b ->
  (forall y, a < y < b -> f y = (al + be * y) / y) ->
  is_RInt f a b (al * (ln b - ln a) + (b - a) * be).
Proof.
  intros Ha Hab H.
  apply (is_RInt_ext (fun y => al * / y + be)).
  - intros y Hy. rewrite Rmin_left, Rmax_right in Hy by lra. rewrite H by auto.
    assert (E : forall s : R, 0 < s -> al * / s + be = (al + be * s) / s) by (intros; field; lra).
    apply E. lra.
  - apply (is_RInt_plus (fun y => al * / y) (fun _ => be)).
    + apply (is_RInt_scal (fun y => / y) a b al). apply RInt_inv; auto.
    + apply (is_RInt_const a b be).
Qed.

(* ---- two_point ---------------------------------------------------------- *)
Lemma sqrt_sq0 u : 0 <= u -> sqrt (u ^ 2 - 0 ^ 2) = u.
Proof. intros. replace (u ^ 2 - 0 ^ 2) with (u * u) by ring. apply sqrt_square; auto. Qed.

Lemma J_axis c : 0 < c -> two_point_J 0 c = (ln (c + 1) - ln c) / PI.
Proof.
  intros Hc. unfold two_point_J. rewrite 2!sqrt_sq0 by lra.
  replace ((c + 1 + c + 1) / (c + c)) with ((c + 1) / c) by (field; lra).
  rewrite ln_div by lra. reflexivity.
Qed.

Lemma InvAbel_dhat_axis c : 1 < c ->
  InvAbel (dhat c) (c + 1) 0 = - / PI * ((ln c - ln (c - 1)) - (ln (c + 1) - ln c)).
Proof.
  intros Hc. unfold InvAbel. rewrite upper0 by lra. f_equal.
  apply is_RInt_unique.
  replace (ln c - ln (c - 1) - (ln (c + 1) - ln c))
    with ((((c - 1) - 0) * 0 + (1 * (ln c - ln (c - 1)) + (c - (c - 1)) * 0))
          + ((-1) * (ln (c + 1) - ln c) + ((c + 1) - c) * 0)) by ring.
  apply (is_RInt_Chasles_R _ 0 c (c + 1)).
  apply (is_RInt_Chasles_R _ 0 (c - 1) c).
  - apply is_RInt_const_ext; [lra|]. intros y Hy. rewrite hyp0' by lra.
    unfold dhat. destruct (Rlt_dec y (c - 1)); [|lra]. unfold Rdiv; ring.
  - apply axis_piece; try lra. intros y Hy. rewrite hyp0' by lra.
    unfold dhat. destruct (Rlt_dec y (c - 1)); [lra|]. destruct (Rlt_dec y c); [|lra]. f_equal; ring.
  - apply axis_piece; try lra. intros y Hy. rewrite hyp0' by lra.
    unfold dhat. destruct (Rlt_dec y (c - 1)); [lra|]. destruct (Rlt_dec y c); [lra|].
    destruct (Rlt_dec y (c + 1)); [|lra]. f_equal; ring.
Qed.

Lemma two_point_row0_entry (cols j : Z) : (2 <= j < cols)%Z ->
  two_point_D cols 0 j = InvAbel (dhat (IZR j)) (IZR j + 1) 0.
Proof.
  intros Hj. assert (Hc : 2 <= IZR j) by (apply IZR_le; lia).
  rewrite InvAbel_dhat_axis by lra.
  unfold two_point_D. zconds.
  rewrite 2!J_axis by lra. replace (IZR j - 1 + 1) with (IZR j) by ring. field. apply PI_neq0.
Qed.

Lemma two_point_axis_convention (cols : Z) : (2 <= cols)%Z ->
  two_point_D cols 0 0 = 2 / PI /\ two_point_D cols 0 1 = ln 2 / PI - 2 / PI.
Proof.
  intros H. split; unfold two_point_D; zconds; [reflexivity|].
  rewrite J_axis by lra. replace (1 + 1) with 2 by ring. rewrite ln_1. unfold Rdiv; ring.
Qed.

(* ---- three_point -------------------------------------------------------- *)
Lemma sqrt_sq40 u : 0 <= u -> sqrt (u ^ 2 - 4 * 0 ^ 2) = u.
Proof. intros. replace (u ^ 2 - 4 * 0 ^ 2) with (u * u) by ring. apply sqrt_square; auto. Qed.

Lemma I0_axis c a b : a = c - 1 / 2 -> b = c + 1 / 2 -> 0 < a ->
  three_point_I0 0 c = (ln b - ln a) / (2 * PI).
Proof.
  intros -> -> Ha. unfold three_point_I0. rewrite 2!sqrt_sq40 by lra.
  replace ((2 * c + 1 + 2 * c + 1) / (2 * c - 1 + 2 * c - 1)) with ((c + 1 / 2) / (c - 1 / 2)) by (field; lra).
  rewrite ln_div by lra. reflexivity.
Qed.

Lemma I1_axis c a b : a = c - 1 / 2 -> b = c + 1 / 2 -> 0 < a ->
  three_point_I1 0 c = 1 / PI - 2 * c * ((ln b - ln a) / (2 * PI)).
Proof.
  intros Ea Eb Ha. unfold three_point_I1. rewrite (I0_axis c a b Ea Eb Ha).
  subst a b. rewrite 2!sqrt_sq40 by lra. field. apply PI_neq0.
Qed.

(* interpolant of e_1 with the symmetric parabola on the axis segment *)
Definition dpar_sym1 (r : R) : R := if Rlt_dec r (1 / 2) then 2 * r else dpar 1 r.

(* generic three-segment integral on the axis: segments [a0,a1], [a1,a2], [a2,a3] with a0 > 0 *)
Lemma InvAbel_dpar_axis c : 3 / 2 < c ->
  InvAbel (dpar c) (c + 3 / 2) 0 =
  - / PI * (((3 / 2 - c) * (ln (c - 1 / 2) - ln (c - 3 / 2)) + 1)
            + (2 * c * (ln (c + 1 / 2) - ln (c - 1 / 2)) - 2)
            + ((- c - 3 / 2) * (ln (c + 3 / 2) - ln (c + 1 / 2)) + 1)).
Proof.
  intros Hc. unfold InvAbel. rewrite upper0 by lra. f_equal.
  apply is_RInt_unique.
  replace ((3 / 2 - c) * (ln (c - 1 / 2) - ln (c - 3 / 2)) + 1 + (2 * c * (ln (c + 1 / 2) - ln (c - 1 / 2)) - 2)
           + ((- c - 3 / 2) * (ln (c + 3 / 2) - ln (c + 1 / 2)) + 1))
    with (((((c - 3 / 2) - 0) * 0
            + ((3 / 2 - c) * (ln (c - 1 / 2) - ln (c - 3 / 2)) + ((c - 1 / 2) - (c - 3 / 2)) * 1))
           + ((2 * c) * (ln (c + 1 / 2) - ln (c - 1 / 2)) + ((c + 1 / 2) - (c - 1 / 2)) * (-2)))
          + ((- c - 3 / 2) * (ln (c + 3 / 2) - ln (c + 1 / 2)) + ((c + 3 / 2) - (c + 1 / 2)) * 1)) by field.
  apply (is_RInt_Chasles_R _ 0 (c + 1 / 2) (c + 3 / 2)).
  apply (is_RInt_Chasles_R _ 0 (c - 1 / 2) (c + 1 / 2)).
  apply (is_RInt_Chasles_R _ 0 (c - 3 / 2) (c - 1 / 2)).
  - apply is_RInt_const_ext; [lra|]. intros y Hy. rewrite hyp0' by lra.
    unfold dpar. destruct (Rlt_dec y (c - 3 / 2)); [|lra]. unfold Rdiv; ring.
  - apply axis_piece; try lra. intros y Hy. rewrite hyp0' by lra.
    unfold dpar. destruct (Rlt_dec y (c - 3 / 2)); [lra|]. destruct (Rlt_dec y (c - 1 / 2)); [|lra]. f_equal; ring.
  - apply axis_piece; try lra. intros y Hy. rewrite hyp0' by lra.
    unfold dpar. destruct (Rlt_dec y (c - 3 / 2)); [lra|]. destruct (Rlt_dec y (c - 1 / 2)); [lra|].
    destruct (Rlt_dec y (c + 1 / 2)); [|lra]. f_equal; ring.
  - apply axis_piece; try lra. intros y Hy. rewrite hyp0' by lra.
    unfold dpar. destruct (Rlt_dec y (c - 3 / 2)); [lra|]. destruct (Rlt_dec y (c - 1 / 2)); [lra|].
    destruct (Rlt_dec y (c + 1 / 2)); [lra|]. destruct (Rlt_dec y (c + 3 / 2)); [|lra]. f_equal; ring.
Qed.

Lemma InvAbel_dpar_axis0 :
  InvAbel (dpar 0) (0 + 3 / 2) 0 = - / PI * ((1 / 2 - 0) * (-2) + ((- 3 / 2) * (ln (3 / 2) - ln (1 / 2)) + (3 / 2 - 1 / 2) * 1)).
Proof.
  unfold InvAbel. rewrite upper0 by lra. f_equal. apply is_RInt_unique.
  replace (0 + 3 / 2) with (3 / 2) by ring.
  apply (is_RInt_Chasles_R _ 0 (1 / 2) (3 / 2)).
  - apply is_RInt_const_ext; [lra|]. intros y Hy. rewrite hyp0' by lra.
    unfold dpar. destruct (Rlt_dec y (0 - 3 / 2)); [lra|]. destruct (Rlt_dec y (0 - 1 / 2)); [lra|].
    destruct (Rlt_dec y (0 + 1 / 2)); [|lra]. field. lra.
  - apply axis_piece; try lra. intros y Hy. rewrite hyp0' by lra.
    unfold dpar. destruct (Rlt_dec y (0 - 3 / 2)); [lra|]. destruct (Rlt_dec y (0 - 1 / 2)); [lra|].
    destruct (Rlt_dec y (0 + 1 / 2)); [lra|]. destruct (Rlt_dec y (0 + 3 / 2)); [|lra]. f_equal; field.
Qed.

Lemma InvAbel_dpar_axis1 :
  InvAbel dpar_sym1 (1 + 3 / 2) 0 =
  - / PI * (((1 / 2 - 0) * 2 + (2 * (ln (3 / 2) - ln (1 / 2)) + (3 / 2 - 1 / 2) * (-2)))
            + ((- 5 / 2) * (ln (5 / 2) - ln (3 / 2)) + (5 / 2 - 3 / 2) * 1)).
Proof.
  unfold InvAbel. rewrite upper0 by lra. f_equal. apply is_RInt_unique.
  replace (1 + 3 / 2) with (5 / 2) by field.
  apply (is_RInt_Chasles_R _ 0 (3 / 2) (5 / 2)).
  apply (is_RInt_Chasles_R _ 0 (1 / 2) (3 / 2)).
  - apply is_RInt_const_ext; [lra|]. intros y Hy. rewrite hyp0' by lra.
    unfold dpar_sym1. destruct (Rlt_dec y (1 / 2)); [|lra]. field. lra.
  - apply axis_piece; try lra. intros y Hy. rewrite hyp0' by lra.
    unfold dpar_sym1, dpar. destruct (Rlt_dec y (1 / 2)); [lra|].
    destruct (Rlt_dec y (1 - 3 / 2)); [lra|]. destruct (Rlt_dec y (1 - 1 / 2)); [lra|].
    destruct (Rlt_dec y (1 + 1 / 2)); [|lra]. f_equal; field.
  - apply axis_piece; try lra. intros y Hy. rewrite hyp0' by lra.
    unfold dpar_sym1, dpar. destruct (Rlt_dec y (1 / 2)); [lra|].
    destruct (Rlt_dec y (1 - 3 / 2)); [lra|]. destruct (Rlt_dec y (1 - 1 / 2)); [lra|].
    destruct (Rlt_dec y (1 + 1 / 2)); [lra|]. destruct (Rlt_dec y (1 + 3 / 2)); [|lra]. f_equal; field.
Qed.

Ltac axis_rw :=
  repeat match goal with
  | |- context [three_point_I0 0 ?c] => rewrite (I0_axis c (c - 1 / 2) (c + 1 / 2)) by lra
  | |- context [three_point_I1 0 ?c] => rewrite (I1_axis c (c - 1 / 2) (c + 1 / 2)) by lra
  end.

Ltac gen_ln := repeat match goal with |- context [ln ?a] => generalize (ln a); intro end.

Lemma three_point_row0_entry (cols j : Z) : (2 <= j < cols)%Z ->
  three_point_D cols 0 j = InvAbel (dpar (IZR j)) (IZR j + 3 / 2) 0.
Proof.
  intros Hj. assert (Hc : 2 <= IZR j) by (apply IZR_le; lia).
  rewrite InvAbel_dpar_axis by lra.
  destruct (Z.eq_dec j 2) as [E|E].
  - subst j. unfold three_point_D. zconds. axis_rw.
    try replace (3 + 1 / 2) with (7 / 2) by lra; try replace (3 - 1 / 2) with (5 / 2) by lra;
    try replace (2 + 1 / 2) with (5 / 2) by lra; try replace (2 - 1 / 2) with (3 / 2) by lra;
    try replace (1 + 1 / 2) with (3 / 2) by lra; try replace (1 - 1 / 2) with (1 / 2) by lra;
    try replace (2 - 3 / 2) with (1 / 2) by lra; try replace (2 + 3 / 2) with (7 / 2) by lra.
    gen_ln. field. apply PI_neq0.
  - unfold three_point_D. zconds; z2r; axis_rw; canon (IZR j); gen_ln; field; apply PI_neq0.
Qed.

Lemma three_point_row0_col0 (cols : Z) : (1 <= cols)%Z ->
  three_point_D cols 0 0 = InvAbel (dpar 0) (0 + 3 / 2) 0.
Proof.
  intros H. rewrite InvAbel_dpar_axis0. unfold three_point_D. zconds; axis_rw;
  replace (1 + 1 / 2) with (3 / 2) by field; replace (1 - 1 / 2) with (1 / 2) by field;
  gen_ln; field; apply PI_neq0.
Qed.

Lemma three_point_row0_col1 (cols : Z) : (2 <= cols)%Z ->
  three_point_D cols 0 1 = InvAbel dpar_sym1 (1 + 3 / 2) 0.
Proof.
  intros H. rewrite InvAbel_dpar_axis1. unfold three_point_D. zconds; axis_rw;
  replace (2 + 1 / 2) with (5 / 2) by field; replace (2 - 1 / 2) with (3 / 2) by field;
  replace (1 + 1 / 2) with (3 / 2) by field; replace (1 - 1 / 2) with (1 / 2) by field;
  gen_ln; field; apply PI_neq0.
Qed.
