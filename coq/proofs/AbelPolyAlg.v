(* AbelPolyAlg.v — algebra of the one-sided integral a(k) of
   abel/tools/polynomial.py (model/Poly.v a_gen, model/AbelPoly.v a_code): the
   C[] recursion and the Horner loop satisfy the reduction formula
   a(k+2) = (D(k+2) + (k+2) x^2 a(k))/(k+3); hence a(k) = AA k x y_up - AA k x y_lo. *)
From Coq Require Import Reals List Arith Bool ZArith QArith Qreals Lia Lra Psatz.
From Coquelicot Require Import Coquelicot.
From PA Require Import model.Poly model.AbelPoly proofs.PolyRing.
Import ListNotations.
Open Scope R_scope.

Notation ofnR := (ofnat R 0 1 Rplus).
Notation CcoefR := (Ccoef R 0 1 Rplus Rmult Rdiv).
Notation horR := (hor R 0 1 Rplus Rmult Rdiv).

Lemma ofnat_INR : forall n, ofnR n = INR n.
Proof. induction n; [reflexivity|]. rewrite S_INR. cbn [ofnat]. rewrite IHn. ring. Qed.

(* C_{k+2}[2(i+1)] = (k+2)/(k+3) C_k[2i] *)
Lemma Ccoef_step : forall k i, (2 * i <= k)%nat ->
  CcoefR (S (S k)) (S i) = INR (k + 2) / INR (k + 3) * CcoefR k i.
Proof.
  intros k i. induction i; intros H.
  - cbn [Ccoef]. rewrite !ofnat_INR.
    replace (S (S k) + 1)%nat with (k + 3)%nat by lia.
    replace (S (S k) - 2 * 0 - 1)%nat with (k + 1)%nat by lia.
    replace (S (S k) - 2 * 0)%nat with (k + 2)%nat by lia.
    rewrite !plus_INR. simpl (INR 1). simpl (INR 2). simpl (INR 3).
    assert (0 <= INR k) by apply pos_INR. field. lra.
  - change (CcoefR (S (S k)) (S (S i))) with
      (CcoefR (S (S k)) (S i) * ofnR (S (S k) - 2 * S i) / ofnR (S (S k) - 2 * S i - 1)).
    rewrite IHi by lia.
    change (CcoefR k (S i)) with (CcoefR k i * ofnR (k - 2 * i) / ofnR (k - 2 * i - 1)).
    replace (S (S k) - 2 * S i)%nat with (k - 2 * i)%nat by lia.
    unfold Rdiv. ring.
Qed.

Lemma INR_pos3 : forall k, INR (k + 3) <> 0.
Proof. intros. apply not_0_INR. lia. Qed.

Lemma hor_step : forall k od x2 D dln n i, (2 * (i + n) <= k)%nat ->
  horR (S (S k)) od x2 D dln n (S i) = INR (k + 2) / INR (k + 3) * horR k od x2 D dln n i.
Proof.
  intros k od x2 D dln n. induction n; intros i H.
  - cbn [hor]. rewrite Ccoef_step by lia.
    replace (S (S k) - 2 * S i)%nat with (k - 2 * i)%nat by lia.
    destruct od; ring.
  - cbn [hor]. rewrite Ccoef_step by lia. rewrite IHn by lia.
    replace (S (S k) - 2 * S i)%nat with (k - 2 * i)%nat by lia. ring.
Qed.

Lemma div2_SS : forall k, (S (S k) / 2 = S (k / 2))%nat.
Proof. intros. replace (S (S k)) with (k + 1 * 2)%nat by lia. rewrite Nat.div_add by lia. lia. Qed.

Lemma a_gen_SS : forall k x2 D dln,
  a_genR (S (S k)) x2 D dln = (D (k + 2)%nat + INR (k + 2) * x2 * a_genR k x2 D dln) / INR (k + 3).
Proof.
  intros. unfold a_genR, a_gen. rewrite div2_SS.
  replace (Nat.odd (S (S k))) with (Nat.odd k) by (symmetry; apply Nat.odd_succ_succ).
  cbn [hor]. rewrite hor_step by (pose proof (Nat.div_mod k 2); pose proof (Nat.mod_upper_bound k 2); lia).
  cbn [Ccoef]. rewrite ofnat_INR.
  replace (S (S k) + 1)%nat with (k + 3)%nat by lia.
  replace (S (S k) - 2 * 0)%nat with (k + 2)%nat by lia.
  pose proof (INR_pos3 k). field. auto.
Qed.

Lemma a_gen_0 : forall x2 D dln, a_genR 0 x2 D dln = D 0%nat.
Proof. intros. unfold a_genR, a_gen. cbn. field. Qed.

Lemma a_gen_1 : forall x2 D dln, a_genR 1 x2 D dln = (D 1%nat + x2 * dln) / 2.
Proof. intros. unfold a_genR, a_gen. cbn. field. Qed.

Lemma nat_ind2 : forall P : nat -> Prop,
  P 0%nat -> P 1%nat -> (forall n, P n -> P (S (S n))) -> forall n, P n.
Proof.
  intros P H0 H1 HS n. assert (P n /\ P (S n)) as [? _]; auto.
  induction n; [split; auto|]. destruct IHn. split; auto.
Qed.

Lemma a_gen_BB : forall k x yup rup ylo rlo,
  a_genR k (x * x) (fun p => yup * rup ^ p - ylo * rlo ^ p) (ln (yup + rup) - ln (ylo + rlo))
  = BB k x yup rup - BB k x ylo rlo.
Proof.
  intros k x yup rup ylo rlo. induction k as [| |k IH] using nat_ind2.
  - rewrite a_gen_0. simpl. ring.
  - rewrite a_gen_1. simpl. field.
  - rewrite a_gen_SS, IH. cbn [BB]. pose proof (INR_pos3 k). field. auto.
Qed.

Lemma hor_ext : forall k od x2 D D' dln n i, (forall p, D p = D' p) ->
  horR k od x2 D dln n i = horR k od x2 D' dln n i.
Proof. induction n; intros; cbn [hor]; rewrite ?H, ?(IHn _ H); reflexivity. Qed.

Lemma a_gen_ext : forall k x2 D D' dln, (forall p, D p = D' p) -> a_genR k x2 D dln = a_genR k x2 D' dln.
Proof. intros. unfold a_genR, a_gen. apply hor_ext; auto. Qed.

(* ---- end points ---- *)
Lemma rr_up : forall x rmax, 0 <= x <= rmax -> rr x (sqrt (rmax * rmax - x * x)) = rmax.
Proof.
  intros. unfold rr. rewrite sqrt_sqrt by nra.
  replace (x * x + (rmax * rmax - x * x)) with (rmax * rmax) by ring.
  apply sqrt_square. lra.
Qed.

Lemma rr_lo : forall x rmin, 0 <= x -> 0 <= rmin ->
  rr x (sqrt (rmin * rmin - x * x)) = Rmax rmin x.
Proof.
  intros. destruct (Rle_lt_dec x rmin).
  - rewrite Rmax_left by auto. apply rr_up. lra.
  - rewrite Rmax_right by lra. rewrite sqrt_neg_0 by nra. unfold rr.
    replace (x * x + 0 * 0) with (x * x) by ring. apply sqrt_square. lra.
Qed.

Lemma ylo_pow : forall x rmin p, 0 <= x -> 0 <= rmin ->
  rmin ^ p * sqrt (rmin * rmin - x * x) = sqrt (rmin * rmin - x * x) * Rmax rmin x ^ p.
Proof.
  intros. destruct (Rle_lt_dec x rmin).
  - rewrite Rmax_left by auto. ring.
  - rewrite sqrt_neg_0 by nra. ring.
Qed.

Theorem a_code_AA : forall k x rmin rmax, 0 <= x <= rmax -> 0 <= rmin ->
  a_code k x rmin rmax =
  AA k x (sqrt (rmax * rmax - x * x)) - AA k x (sqrt (rmin * rmin - x * x)).
Proof.
  intros. unfold a_code, AA. rewrite rr_up, rr_lo by lra.
  rewrite <- a_gen_BB. rewrite (Rplus_comm rmax), (Rplus_comm (Rmax rmin x)).
  apply a_gen_ext. intros p. unfold Dyr. rewrite (ylo_pow x rmin p) by lra. ring.
Qed.
