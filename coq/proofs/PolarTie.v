(* PolarTie.v — tactics for the per-instance translation-validation goals of
   C19 (coq/cases/C19_*.v): each goal  Rabs (f args - v) <= tol  states that a
   generated definition of gen/FormulasPolar.v, evaluated at concrete rational
   arguments, encloses the float v the implementation returned there. *)
From Coq Require Import Reals ZArith List Lra Lia.
From Interval Require Import Tactic.
From PA Require Import model.Polar gen.FormulasPolar proofs.PolarAtan2.
Open Scope R_scope.

Lemma ceilZ_spec x n : IZR n - 1 < x <= IZR n -> ceilZ x = n.
Proof.
  intros [H1 H2]. unfold ceilZ.
  assert (E : (1 - n)%Z = up (- x)).
  { apply tech_up; rewrite minus_IZR; lra. }
  rewrite <- E. lia.
Qed.

(* integer divisions / maxima of literals *)
Ltac z_resolve :=
  repeat (match goal with
          | |- context [(?a / ?b)%Z] => let v := eval vm_compute in (a / b)%Z in change (a / b)%Z with v
          | |- context [Z.max ?a ?b] => let v := eval vm_compute in (Z.max a b) in change (Z.max a b) with v
          end).

(* "if Rlt_dec a b" on concrete numbers *)
Ltac dec_resolve :=
  repeat (match goal with
          | |- context [Rlt_dec ?a ?b] =>
            destruct (Rlt_dec a b); [ try (exfalso; lra) | try (exfalso; lra) ]
          end; cbv iota).

(* np.ceil of concrete quotients: n1, n2 are the candidate values *)
Ltac ceil_resolve n1 n2 :=
  repeat (match goal with
          | |- context [ceilZ ?x] =>
            first [ rewrite (ceilZ_spec x n1) by (split; simpl; lra)
                  | rewrite (ceilZ_spec x n2) by (split; simpl; lra) ]
          end).

(* np.arctan2 on concrete numbers: pick the case *)
Ltac atan2_resolve :=
  repeat (match goal with
          | |- context [atan2 ?a ?b] =>
            first [ rewrite (atan2_pos a b) by lra
                  | rewrite (atan2_neg_nonneg a b) by lra
                  | rewrite (atan2_neg_neg a b) by lra
                  | rewrite (atan2_0_pos a b) by lra
                  | rewrite (atan2_0_neg a b) by lra
                  | rewrite (atan2_0_0 a b) by lra ]
          end).

Ltac tie_unfold :=
  unfold index_coords_x_oG, index_coords_y_oG, index_coords_x_oN, index_coords_y_oN,
    reproject_row_oG_tN, reproject_col_oG_tN, reproject_R_oG_tN, reproject_T_oG_tN,
    reproject_row_oG_tG, reproject_col_oG_tG, reproject_R_oG_tG, reproject_T_oG_tG,
    reproject_row_oN_tN, reproject_col_oN_tN, reproject_R_oN_tN, reproject_T_oN_tN,
    reproject_row_oN_tG, reproject_col_oN_tG, reproject_R_oN_tG, reproject_T_oN_tG,
    angular_integration_2D, angular_integration_3D, average_radial_intensity_2D, average_radial_intensity_3D,
    ri_int2D, ri_int3D, ri_avg2D, ri_avg3D, ang_reduce, w_int2D, w_int3D, w_avg2D, w_avg3D,
    toPES_E_nn, toPES_E_nP, toPES_E_Vn, toPES_E_VP,
    toPES_I_nt, toPES_I_nf, toPES_I_Vt, toPES_I_Vf, toPES_I0_nt, toPES_I0_nf, toPES_I0_Vt, toPES_I0_Vf,
    circ_row_mean, circ_col_mean, circ_row_ref, circ_col_ref,
    cart2polar, polar2cart, linspace_noend, linspace_end, mean_list, sum_list;
  cbn [fst snd map fold_right length INR]; cbv beta.

Ltac tie n1 n2 :=
  tie_unfold; z_resolve; ceil_resolve n1 n2; dec_resolve; atan2_resolve;
  interval with (i_prec 80).
