(* PolyQ2R.v — Q2R commutes with the executed (Q) instance of Polynomial.__init__'s model:
   the Q instance run by the correspondence check (vm_compute) and the R instance the
   theorems are about are the same function on rational inputs (closes the parametricity
   gap of the polymorphic Section code): prepare, .func, and the .abel evaluation form. *)
From Coq Require Import Reals List Arith Bool ZArith QArith Qreals Lia Lra Psatz.
From Coquelicot Require Import Coquelicot.
From PA Require Import model.Poly model.AbelPoly proofs.PolyRing proofs.AbelPolyAlg proofs.AbelPolyInt proofs.PolyTop proofs.AbelPolyEval.
Import ListNotations.
Open Scope R_scope.

(* Q2R commutes with the executed (Q) instance of the coefficient preparation: the Q
   instance run by the correspondence check and the R instance of the theorems are the
   same function on rational inputs *)
Notation mQ := (map Q2R).

Lemma Qeqb_Reqb : forall a b, Qeqb a b = Reqb (Q2R a) (Q2R b).
Proof.
  intros. unfold Qeqb, Reqb. destruct (Req_EM_T (Q2R a) (Q2R b)) as [E|E].
  - apply Qeq_bool_iff. apply eqR_Qeq; auto.
  - destruct (Qeq_bool a b) eqn:B; auto. exfalso. apply E. apply Qeq_eqR. apply Qeq_bool_iff; auto.
Qed.

Lemma Qltb_Rltb : forall a b, Qltb a b = Rltb (Q2R a) (Q2R b).
Proof.
  intros. unfold Qltb, Rltb. destruct (Rlt_dec (Q2R a) (Q2R b)) as [L|L].
  - destruct (Qle_bool b a) eqn:B; auto. apply Qle_bool_iff, Qle_Rle in B. lra.
  - destruct (Qle_bool b a) eqn:B; auto. exfalso. apply L.
    destruct (Qlt_le_dec a b) as [H|H]. apply Qlt_Rlt; auto. apply Qle_bool_iff in H. congruence.
Qed.

Lemma Q2R_peval : forall c x, Q2R (pevalQ c x) = pevalR (mQ c) (Q2R x).
Proof.
  induction c; intros; unfold pevalQ, pevalR in *; cbn [peval map]. apply Q2R_0.
  rewrite Q2R_add', Q2R_mul', IHc. reflexivity.
Qed.

Lemma trim_Q2R : forall c, mQ (trim Q 0%Q Qeqb c) = trimR (mQ c).
Proof.
  induction c; [reflexivity|]. cbn [trim map]. rewrite <- IHc.
  destruct (trim Q 0%Q Qeqb c); cbn [map].
  - rewrite Qeqb_Reqb, Q2R_0. destruct (Reqb (Q2R a) 0); reflexivity.
  - reflexivity.
Qed.

Lemma scale_pow_Q2R : forall c p q,
  mQ (scale_pow Q Qmul' p q c) = scale_pow R Rmult (Q2R p) (Q2R q) (mQ c).
Proof.
  induction c; intros; cbn [scale_pow map]; auto. rewrite IHc, !Q2R_mul'. reflexivity.
Qed.

Lemma stretch_Q2R : forall s c, ~ (s == 0)%Q ->
  mQ (stretch Q 1%Q Qmul' Qdiv' s c) = stretchR (Q2R s) (mQ c).
Proof.
  intros. unfold stretch. rewrite scale_pow_Q2R, Q2R_div', Q2R_1 by auto. reflexivity.
Qed.

Lemma Q2R_pwg : forall x n, Q2R (pwQ x n) = pw R 1 Rmult (Q2R x) n.
Proof. induction n; unfold pwQ in *; cbn [pw]. apply Q2R_1. rewrite Q2R_mul', IHn. reflexivity. Qed.

Lemma Q2R_ofnatg : forall n, Q2R (ofnat Q 0%Q 1%Q Qadd' n) = ofnat R 0 1 Rplus n.
Proof. intros. rewrite Q2R_ofnat, ofnat_INR. reflexivity. Qed.

Lemma srow_Q2R : forall c m l k,
  Q2R (srow Q 0%Q 1%Q Qadd' Qmul' m l k c) = srow R 0 1 Rplus Rmult (Q2R m) l k (mQ c).
Proof.
  induction c; intros; cbn [srow map]. apply Q2R_0.
  rewrite Q2R_add', IHc. destruct (l <=? k)%nat.
  - rewrite !Q2R_mul', Q2R_ofnatg. fold (pwQ m (k - l)). rewrite Q2R_pwg. reflexivity.
  - rewrite Q2R_0. reflexivity.
Qed.

Lemma shift_Q2R : forall r0 c,
  mQ (shift Q 0%Q 1%Q Qadd' Qmul' Qopp r0 c) = shiftR (Q2R r0) (mQ c).
Proof.
  intros. unfold shift. rewrite map_map, map_length.
  apply map_ext. intros l. rewrite srow_Q2R, Q2R_opp. reflexivity.
Qed.

Lemma search_Q2R : forall r v, searchsorted Q Qltb r v = searchR (mQ r) (Q2R v).
Proof.
  induction r; intros; cbn [searchsorted map]; auto. rewrite Qltb_Rltb, IHr. reflexivity.
Qed.

Definition prepQ2R (p : prepared Q) : prepared R :=
  {| p_r := mQ (p_r p); p_rmin := Q2R (p_rmin p); p_rmax := Q2R (p_rmax p); p_c := mQ (p_c p);
     p_scale := Q2R (p_scale p); p_imin := p_imin p; p_imax := p_imax p |}.

Lemma coef_Q2R : forall cc r0 s, ~ (s == 0)%Q ->
  mQ (let c1 := if Qeqb s 1 then cc else stretch Q 1%Q Qmul' Qdiv' s cc in
      if Qeqb r0 0 then c1 else shift Q 0%Q 1%Q Qadd' Qmul' Qopp r0 c1) =
  (let c1 := if Reqb (Q2R s) 1 then mQ cc else stretchR (Q2R s) (mQ cc) in
   if Reqb (Q2R r0) 0 then c1 else shiftR (Q2R r0) c1).
Proof.
  intros. cbv zeta. rewrite !Qeqb_Reqb, Q2R_0, Q2R_1.
  destruct (Reqb (Q2R r0) 0); destruct (Reqb (Q2R s) 1); rewrite ?shift_Q2R, ?stretch_Q2R; auto.
Qed.

Lemma Qdiv_nz : forall s rmax, ~ (s == 0)%Q -> 0 < Q2R rmax -> ~ (Qdiv' s rmax == 0)%Q.
Proof.
  intros s rmax Hs Hm E. apply Qeq_eqR in E.
  assert (Hn : ~ (rmax == 0)%Q) by (intro Z; apply Qeq_eqR in Z; rewrite Q2R_0 in Z; lra).
  rewrite Q2R_div', Q2R_0 in E by auto.
  apply Hs. apply eqR_Qeq. rewrite Q2R_0.
  apply (Rmult_eq_reg_r (/ Q2R rmax)). unfold Rdiv in E. lra. apply Rinv_neq_0_compat. lra.
Qed.

Theorem prepare_Q2R : forall r rmin rmax c r0 s red, ~ (s == 0)%Q ->
  prepareR (mQ r) (Q2R rmin) (Q2R rmax) (mQ c) (Q2R r0) (Q2R s) red =
  option_map prepQ2R (prepareQ r rmin rmax c r0 s red).
Proof.
  intros r rmin rmax c r0 s red Hs. unfold prepareR, prepareQ, prepare.
  rewrite (Qltb_Rltb 0 rmax), Q2R_0.
  destruct (Rltb 0 (Q2R rmax)) eqn:Em; [|reflexivity]. apply Rltb_true in Em.
  assert (Hn : ~ (rmax == 0)%Q) by (intro Z; apply Qeq_eqR in Z; rewrite Q2R_0 in Z; lra).
  rewrite (Qltb_Rltb rmin 0), Q2R_0.
  assert (Hmin : Q2R (if Rltb (Q2R rmin) 0 then 0%Q else rmin) = (if Rltb (Q2R rmin) 0 then 0 else Q2R rmin)).
  { destruct (Rltb (Q2R rmin) 0); auto. apply Q2R_0. }
  rewrite <- trim_Q2R. destruct (trim Q 0%Q Qeqb c) as [|a0 ct] eqn:Et; [reflexivity|].
  cbn [map]. change (Q2R a0 :: mQ ct) with (mQ (a0 :: ct)).
  set (cc := a0 :: ct) in *.
  destruct red; cbn [option_map]; f_equal; unfold prepQ2R;
    cbn [p_r p_rmin p_rmax p_c p_scale p_imin p_imax].
  - assert (Er : mQ (map (fun x => Qdiv' x rmax) r) = map (fun x => x / Q2R rmax) (mQ r)).
    { rewrite !map_map. apply map_ext. intros. apply Q2R_div'; auto. }
    rewrite Er, !Q2R_div', Hmin, Q2R_1 by auto.
    pose proof (coef_Q2R cc (Qdiv' r0 rmax) (Qdiv' s rmax) (Qdiv_nz s rmax Hs Em)) as CE. cbv zeta in CE.
    rewrite CE, !Q2R_div' by auto.
    rewrite !search_Q2R, Er, Q2R_div', Q2R_1, Hmin by auto. reflexivity.
  - rewrite Hmin, Q2R_1.
    pose proof (coef_Q2R cc r0 s Hs) as CE. cbv zeta in CE. rewrite CE.
    rewrite !search_Q2R, Hmin. reflexivity.
Qed.

Lemma func_span_Q2R_gen : forall c imin imax r s0,
  mQ (map (fun ix : nat * Q => let '(i, x) := ix in
             if (imin <=? i)%nat && (i <? imax)%nat then peval Q 0%Q Qadd' Qmul' c x else 0%Q)
          (combine (seq s0 (length r)) r)) =
  map (fun ix : nat * R => let '(i, x) := ix in
             if (imin <=? i)%nat && (i <? imax)%nat then peval R 0 Rplus Rmult (mQ c) x else 0)
      (combine (seq s0 (length (mQ r))) (mQ r)).
Proof.
  induction r; intros; cbn [length seq combine map]; auto.
  rewrite IHr. f_equal. destruct ((imin <=? s0)%nat && (s0 <? imax)%nat).
  - apply (Q2R_peval c a).
  - apply Q2R_0.
Qed.

Theorem poly_func_Q2R : forall r rmin rmax c r0 s red, ~ (s == 0)%Q ->
  mQ (poly_funcQ r rmin rmax c r0 s red) =
  poly_funcR (mQ r) (Q2R rmin) (Q2R rmax) (mQ c) (Q2R r0) (Q2R s) red.
Proof.
  intros. unfold poly_funcQ, poly_funcR, poly_func. fold prepareQ prepareR.
  rewrite prepare_Q2R by auto. destruct (prepareQ r rmin rmax c r0 s red) as [p|]; cbn [option_map].
  - unfold func_span, prepQ2R. cbn [p_c p_imin p_imax p_r]. apply func_span_Q2R_gen.
  - rewrite !map_map. apply map_ext. intros. apply Q2R_0.
Qed.

Theorem poly_abel_Q2R : forall r rmin rmax c r0 s red i, ~ (s == 0)%Q ->
  (forall j, (j < length r)%nat -> 0 <= nth j (mQ r) 0) -> (i < length r)%nat ->
  poly_abelQ_at r rmin rmax c r0 s red i =
  nth i (poly_abelR (mQ r) (Q2R rmin) (Q2R rmax) (mQ c) (Q2R r0) (Q2R s) red) 0.
Proof.
  intros r rmin rmax c r0 s red i Hs Hpos Hi.
  assert (HsR : Q2R s <> 0) by (intro E; apply Hs; apply eqR_Qeq; rewrite Q2R_0; auto).
  unfold poly_abelQ_at, poly_abel_dataQ, poly_abelR. rewrite prepare_Q2R by auto.
  destruct (prepareQ r rmin rmax c r0 s red) as [p|] eqn:E; cbn [option_map abel_of_opt].
  - pose proof (prepare_Q2R r rmin rmax c r0 s red Hs) as PE. rewrite E in PE. cbn [option_map] in PE.
    destruct (prepare_spec _ _ _ _ _ _ _ _ PE HsR) as (q & Hq & Hm & Pr & Pmin & Pmax & Psc & Pc & Pimin & Pimax).
    unfold prepQ2R in *. cbn [p_r p_rmin p_rmax p_c p_scale p_imin p_imax] in *.
    assert (Hl : length (mQ (p_r p)) = length r) by (rewrite Pr, !map_length; auto).
    set (f := fun ix : nat * R => let '(i0, x) := ix in
                if (i0 <? p_imax p)%nat then abel_pt (mQ (p_c p)) (Q2R (p_scale p)) x (Q2R (p_rmin p)) (Q2R (p_rmax p)) else 0).
    rewrite (nth_indep _ 0 (f (0%nat, 0))) by (rewrite map_length, combine_length, seq_length; lia).
    rewrite map_nth, combine_nth by (rewrite seq_length; auto).
    rewrite seq_nth by lia. unfold f. cbn [Nat.add].
    destruct (i <? p_imax p)%nat; cbn [abel_of_opt]; auto.
    assert (Hx : nth i (mQ (p_r p)) 0 = Q2R (nth i (p_r p) 0%Q)).
    { rewrite <- Q2R_0 at 1. apply map_nth. }
    rewrite Hx. apply abel_of_data_correct.
    + rewrite <- Hx, Pr, nth_map_div. apply Rmult_le_pos. apply Hpos; auto.
      left; apply Rinv_0_lt_compat; auto.
    + rewrite Pmin. apply Rmult_le_pos. apply Rmax_r. left; apply Rinv_0_lt_compat; auto.
  - rewrite nth_map_zero. reflexivity.
Qed.
