(* Proofs about model/FileFaults.v: interleaved writers and handlers. *)
From Coq Require Import List NArith Arith Bool Lia.
From PA Require Import base.Npy proofs.NpyProofs model.FileFaults.
Import ListNotations.

(* ---- write_at --------------------------------------------------------- *)
Lemma write_at_0 : forall c f, write_at 0 c f = c ++ skipn (length c) f.
Proof. intros. unfold write_at. simpl. reflexivity. Qed.

Lemma write_at_beyond : forall off c f, length f <= off ->
  write_at off c f = f ++ repeat 0%N (off - length f) ++ c.
Proof.
  intros off c f H. unfold write_at.
  rewrite firstn_all2 by (rewrite app_length, repeat_length; lia).
  rewrite skipn_all2 by lia. rewrite app_nil_r, <- app_assoc. reflexivity.
Qed.

Lemma write_at_over : forall p q c, length q <= length c ->
  write_at (length p) c (p ++ q) = p ++ c.
Proof.
  intros p q c H. unfold write_at.
  rewrite app_length. replace (length p - (length p + length q)) with 0 by lia.
  simpl. rewrite app_nil_r.
  rewrite firstn_app, Nat.sub_diag, firstn_all. simpl. rewrite app_nil_r.
  rewrite skipn_all2 by (rewrite app_length; lia). rewrite app_nil_r. reflexivity.
Qed.

(* ---- the reachable set under two-chunk writers ------------------------ *)
Section TwoChunk.
  Variable a : arr.
  Let H := head_chunk (shape a).
  Let D := data a.
  Let Z := repeat 0%N (length H).

  Definition in_S (f : file) : Prop := f = [] \/ f = H \/ f = Z ++ D \/ f = H ++ D.

  Definition in_alpha (o : sysop) : Prop :=
    o = OTrunc \/ o = OWrite 0 H \/ o = OWrite (length H) D \/ o = OWrite 0 (H ++ D).

  Lemma Z_len : length Z = length H.
  Proof. unfold Z. apply repeat_length. Qed.

  Lemma exec_in_S : forall f o, in_S f -> in_alpha o -> in_S (exec_op f o).
  Proof.
    intros f o Hf Ho. unfold in_S.
    destruct Ho as [-> | [-> | [-> | ->]]]; cbn [exec_op].
    - auto.
    - rewrite write_at_0.
      destruct Hf as [-> | [-> | [-> | ->]]].
      + rewrite skipn_nil, app_nil_r. auto.
      + rewrite skipn_all, app_nil_r. auto.
      + rewrite skipn_app, <- Z_len, skipn_all, Nat.sub_diag. simpl. auto.
      + rewrite skipn_app, skipn_all, Nat.sub_diag. simpl. auto.
    - destruct Hf as [-> | [-> | [-> | ->]]].
      + rewrite write_at_beyond by (simpl; lia). cbn [length List.app]. rewrite ?Nat.sub_0_r. auto.
      + rewrite write_at_beyond by (apply Nat.le_refl). rewrite Nat.sub_diag. simpl. auto.
      + rewrite <- Z_len. rewrite write_at_over by lia. auto.
      + rewrite write_at_over by lia. auto.
    - rewrite write_at_0.
      rewrite skipn_all2.
      + rewrite app_nil_r. auto.
      + destruct Hf as [-> | [-> | [-> | ->]]]; rewrite ?app_length, ?Z_len; simpl; lia.
  Qed.

  Lemma pop_alpha : forall procs i o procs',
    Forall (Forall in_alpha) procs -> pop procs i = (o, procs') ->
    Forall (Forall in_alpha) procs' /\ (forall op, o = Some op -> in_alpha op).
  Proof.
    induction procs as [|p r IH]; intros i o procs' HF Hp.
    - simpl in Hp. inversion Hp; subst. split; [constructor|discriminate].
    - inversion HF as [|? ? Hp1 Hr]; subst.
      destruct i.
      + destruct p as [|o1 p1]; simpl in Hp; inversion Hp; subst.
        * split; [auto|discriminate].
        * inversion Hp1; subst. split; [constructor; auto|].
          intros op E. inversion E; subst. auto.
      + simpl in Hp. destruct p as [|o1 p1];
          (destruct (pop r i) as [o2 r2] eqn:E; inversion Hp; subst;
           destruct (IH i o r2 Hr E) as [A B]; split; [constructor; auto|auto]).
  Qed.

  Lemma observed_in_S : forall sched procs f,
    Forall (Forall in_alpha) procs -> in_S f -> Forall in_S (observed procs f sched).
  Proof.
    induction sched as [|i s IH]; intros procs f HF Hf; simpl.
    - constructor; auto.
    - constructor; auto.
      destruct (pop procs i) as [o procs'] eqn:E.
      destruct (pop_alpha _ _ _ _ HF E) as [A B].
      apply IH; auto.
      destruct o; auto. apply exec_in_S; auto.
  Qed.

  Lemma save_alpha : forall p, is_save a p -> Forall in_alpha p.
  Proof.
    intros p [-> | ->]; unfold save_two, save_one, writer, serialize; cbn [writer_ops].
    - constructor; [left; reflexivity|].
      constructor; [right; left; reflexivity|].
      constructor; [right; right; left; reflexivity|constructor].
    - constructor; [left; reflexivity|].
      constructor; [right; right; right; reflexivity|constructor].
  Qed.

  Hypothesis Hwf : wf_arr a.
  Hypothesis Hh : hlen (shape a) / 256 < 256.

  Lemma in_S_safe : forall f, in_S f -> safe_read a f.
  Proof.
    intros f [-> | [-> | [-> | ->]]]; unfold safe_read.
    - left. reflexivity.
    - destruct (data a) eqn:E.
      + right. fold H. replace H with (serialize a).
        * apply parse_serialize; auto.
        * unfold serialize. rewrite E, app_nil_r. reflexivity.
      + left. unfold H. rewrite parse_head_only; auto. congruence.
    - left. unfold Z. rewrite parse_zero_head; auto. apply head_chunk_length_pos.
    - right. apply parse_serialize; auto.
  Qed.

  (* Any number of processes, each performing np.save of the same array with
     at most two writes (header chunk, payload), started on a truncated /
     absent file, under every schedule: whatever a reader sees parses to an
     error or to exactly the saved array. *)
  Theorem two_chunk_interleaving_safe : forall procs sched f,
    Forall (is_save a) procs -> In f (observed procs [] sched) -> safe_read a f.
  Proof.
    intros procs sched f HP Hin.
    assert (HA : Forall (Forall in_alpha) procs).
    { eapply Forall_impl; [|exact HP]. apply save_alpha. }
    pose proof (observed_in_S sched procs [] HA (or_introl eq_refl)) as HS.
    rewrite Forall_forall in HS. apply in_S_safe. apply HS. exact Hin.
  Qed.
End TwoChunk.

(* ---- sensitivity: three chunks --------------------------------------- *)
Definition wit_arr : arr :=
  {| shape := [2]; data := [1;2;3;4;5;6;7;8;9;10;11;12;13;14;15;16]%N |}.
Definition wit_sched : list nat := [0;0;0;1;1;0].
Definition wit_file : file := nth 6 (observed [save_three wit_arr 8; save_three wit_arr 8] [] wit_sched) [].
Definition wit_gap : arr :=
  {| shape := [2]; data := [0;0;0;0;0;0;0;0;9;10;11;12;13;14;15;16]%N |}.

(* Were the payload split over two writes, two writers of the same array and
   one reader admit a schedule in which the file parses successfully to a
   different array (a zero gap). *)
Theorem three_chunk_interleaving_refuted :
  exists (a : arr) (k : nat) (sched : list nat) (f : file) (b : arr),
    wf_arr a /\ hlen (shape a) / 256 < 256 /\
    In f (observed [save_three a k; save_three a k] [] sched) /\
    parse f = POk b /\ b <> a.
Proof.
  exists wit_arr, 8, wit_sched, wit_file, wit_gap.
  split; [reflexivity|]. split; [vm_compute; lia|].
  split; [vm_compute; tauto|]. split; [vm_compute; reflexivity|].
  unfold wit_gap, wit_arr. intros E. inversion E.
Qed.

(* ---- handlers --------------------------------------------------------- *)
(* A file whose content does not parse never yields other numbers, for every
   method and whatever the shape predicates are; ValueError-class damage is
   repaired (Fresh) exactly by the three methods that have a handler. *)
Theorem fault_outcome : forall m right fits unp f,
  is_err (parse f) = true ->
  load_outcome m right fits unp f <> Different /\
  (parse f = PErr PValue -> catches_value_error m = true ->
     load_outcome m right fits unp f = Fresh /\ resaved m f = true) /\
  (parse f <> PErr PValue \/ catches_value_error m = false ->
     load_outcome m right fits unp f = Exception /\ resaved m f = false).
Proof.
  intros m right fits unp f He. unfold load_outcome, resaved.
  destruct (parse f) as [b|e]; [discriminate|].
  split; [|split].
  - destruct e; destruct (catches_value_error m); discriminate.
  - intros E C. inversion E; subst. rewrite C. auto.
  - intros [E|C].
    + destruct e; try (exfalso; apply E; reflexivity); auto.
    + rewrite C. destruct e; auto.
Qed.

(* every crash point of a save is such a fault *)
Corollary crash_point_outcome : forall m right fits unp a k,
  wf_arr a -> hlen (shape a) / 256 < 256 -> k < length (serialize a) ->
  load_outcome m right fits unp (firstn k (serialize a)) =
    (if k =? 0 then Exception else if catches_value_error m then Fresh else Exception).
Proof.
  intros. unfold load_outcome. rewrite truncation_detected by assumption.
  destruct (k =? 0); reflexivity.
Qed.

(* a valid file of the wrong shape: exception or fresh, provided the module's
   shape checks reject it *)
Theorem wrong_shape_outcome : forall m right fits unp f a,
  parse f = POk a -> right a = false -> fits a = false ->
  load_outcome m right fits unp f <> Different.
Proof.
  intros m right fits unp f a P R F. unfold load_outcome. rewrite P, R, F.
  destruct (unp a && catches_value_error m); discriminate.
Qed.
