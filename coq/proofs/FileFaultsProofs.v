(* Proofs about model/FileFaults.v: interleaved writers and handlers. *)
From Coq Require Import List NArith Arith Bool Lia.
From PA Require Import base.Npy proofs.NpyProofs model.FileFaults.
Import ListNotations.

(* ---- write_at --------------------------------------------------------- *)
Lemma write_at_0 : forall c f, write_at 0 c f = c ++ skipn (length c) f.
Proof. intros. unfold write_at. simpl. reflexivity. Qed.

Lemma write_at_beyond : forall off c f, length f <= off ->
  write_at off c f = f ++ repeat 0%N (off - length f) ++ c.
Proof.
  intros off c f H. unfold write_at.
  rewrite firstn_all2 by (rewrite app_length, repeat_length; lia).
  rewrite skipn_all2 by lia. rewrite app_nil_r, <- app_assoc. reflexivity.
Qed.

Lemma write_at_over : forall p q c, length q <= length c ->
  write_at (length p) c (p ++ q) = p ++ c.
Proof.
  intros p q c H. unfold write_at.
  rewrite app_length. replace (length p - (length p + length q)) with 0 by lia.
  simpl. rewrite app_nil_r.
  rewrite firstn_app, Nat.sub_diag, firstn_all. simpl. rewrite app_nil_r.
  rewrite skipn_all2 by (rewrite app_length; lia). rewrite app_nil_r. reflexivity.
Qed.

(* ---- the reachable set under two-chunk writers ------------------------ *)
Section TwoChunk.
  Variable a : arr.
  Let H := head_chunk (shape a).
  Let D := data a.
  Let Z := repeat 0%N (length H).

  Definition in_S (f : file) : Prop := f = [] \/ f = H \/ f = Z ++ D \/ f = H ++ D.

  Definition in_alpha (o : sysop) : Prop :=
    o = OTrunc \/ o = OWrite 0 H \/ o = OWrite (length H) D \/ o = OWrite 0 (H ++ D).

  Lemma Z_len : length Z = length H.
  Proof. unfold Z. apply repeat_length. Qed.

  Lemma exec_in_S : forall f o, in_S f -> in_alpha o -> in_S (exec_op f o).
  Proof.
    intros f o Hf Ho. unfold in_S.
    destruct Ho as [-> | [-> | [-> | ->]]]; cbn [exec_op].
    - auto.
    - rewrite write_at_0.
      destruct Hf as [-> | [-> | [-> | ->]]].
      + rewrite skipn_nil, app_nil_r. auto.
      + rewrite skipn_all, app_nil_r. auto.
      + rewrite skipn_app, <- Z_len, skipn_all, Nat.sub_diag. simpl. auto.
      + rewrite skipn_app, skipn_all, Nat.sub_diag. simpl. auto.
    - destruct Hf as [-> | [-> | [-> | ->]]].
      + rewrite write_at_beyond by (simpl; lia). cbn [length List.app]. rewrite ?Nat.sub_0_r. auto.
      + rewrite write_at_beyond by (apply Nat.le_refl). rewrite Nat.sub_diag. simpl. auto.
      + rewrite <- Z_len. rewrite write_at_over by lia. auto.
      + rewrite write_at_over by lia. auto.
    - rewrite write_at_0.
      rewrite skipn_all2.
      + rewrite app_nil_r. auto.
      + destruct Hf as [-> | [-> | [-> | ->]]]; rewrite ?app_length, ?Z_len; simpl; lia.
  Qed.

  Lemma pop_alpha : forall procs i o procs',
    Forall (Forall in_alpha) procs -> pop procs i = (o, procs') ->
    Forall (Forall in_alpha) procs' /\ (forall op, o = Some op -> in_alpha op).
  Proof.
    induction procs as [|p r IH]; intros i o procs' HF Hp.
    - simpl in Hp. inversion Hp; subst. split; [constructor|discriminate].
    - inversion HF as [|? ? Hp1 Hr]; subst.
      destruct i.
      + destruct p as [|o1 p1]; simpl in Hp; inversion Hp; subst.
        * split; [auto|discriminate].
        * inversion Hp1; subst. split; [constructor; auto|].
          intros op E. inversion E; subst. auto.
      + simpl in Hp. destruct p as [|o1 p1];
          (destruct (pop r i) as [o2 r2] eqn:E; inversion Hp; subst;
           destruct (IH i o r2 Hr E) as [A B]; split; [constructor; auto|auto]).
  Qed.

  Lemma observed_in_S : forall sched procs f,
    Forall (Forall in_alpha) procs -> in_S f -> Forall in_S (observed procs f sched).
  Proof.
    induction sched as [|i s IH]; intros procs f HF Hf; simpl.
    - constructor; auto.
    - constructor; auto.
      destruct (pop procs i) as [o procs'] eqn:E.
      destruct (pop_alpha _ _ _ _ HF E) as [A B].
      apply IH; auto.
      destruct o; auto. apply exec_in_S; auto.
  Qed.

  Lemma save_alpha : forall p, is_save a p -> Forall in_alpha p.
  Proof.
    intros p [-> | ->]; unfold save_two, save_one, writer, serialize; cbn [writer_ops].
    - constructor; [left; reflexivity|].
      constructor; [right; left; reflexivity|].
      constructor; [right; right; left; reflexivity|constructor].
    - constructor; [left; reflexivity|].
      constructor; [right; right; right; reflexivity|constructor].
  Qed.

  Hypothesis Hwf : wf_arr a.
  Hypothesis Hh : hlen (shape a) / 256 < 256.

  Lemma in_S_safe : forall f, in_S f -> safe_read a f.
  Proof.
    intros f [-> | [-> | [-> | ->]]]; unfold safe_read.
    - left. reflexivity.
    - destruct (data a) eqn:E.
      + right. fold H. replace H with (serialize a).
        * apply parse_serialize; auto.
        * unfold serialize. rewrite E, app_nil_r. reflexivity.
      + left. unfold H. rewrite parse_head_only; auto. congruence.
    - left. unfold Z. rewrite parse_zero_head; auto. apply head_chunk_length_pos.
    - right. apply parse_serialize; auto.
  Qed.

  (* Any number of processes, each performing np.save of the same array with
     at most two writes (header chunk, payload), started on a truncated /
     absent file, under every schedule: whatever a reader sees parses to an
     error or to exactly the saved array. *)
  Theorem two_chunk_interleaving_safe : forall procs sched f,
    Forall (is_save a) procs -> In f (observed procs [] sched) -> safe_read a f.
  Proof.
    intros procs sched f HP Hin.
    assert (HA : Forall (Forall in_alpha) procs).
    { eapply Forall_impl; [|exact HP]. apply save_alpha. }
    pose proof (observed_in_S sched procs [] HA (or_introl eq_refl)) as HS.
    rewrite Forall_forall in HS. apply in_S_safe. apply HS. exact Hin.
  Qed.
End TwoChunk.

(* ---- sensitivity: three chunks --------------------------------------- *)
Definition wit_arr : arr :=
  {| shape := [2]; data := [1;2;3;4;5;6;7;8;9;10;11;12;13;14;15;16]%N |}.
Definition wit_sched : list nat := [0;0;0;1;1;0].
Definition wit_file : file := nth 6 (observed [save_three wit_arr 8; save_three wit_arr 8] [] wit_sched) [].
Definition wit_gap : arr :=
  {| shape := [2]; data := [0;0;0;0;0;0;0;0;9;10;11;12;13;14;15;16]%N |}.

(* Were the payload split over two writes, two writers of the same array and
   one reader admit a schedule in which the file parses successfully to a
   different array (a zero gap). *)
Theorem three_chunk_interleaving_refuted :
  exists (a : arr) (k : nat) (sched : list nat) (f : file) (b : arr),
    wf_arr a /\ hlen (shape a) / 256 < 256 /\
    In f (observed [save_three a k; save_three a k] [] sched) /\
    parse f = POk b /\ b <> a.
Proof.
  exists wit_arr, 8, wit_sched, wit_file, wit_gap.
  split; [reflexivity|]. split; [vm_compute; lia|].
  split; [vm_compute; tauto|]. split; [vm_compute; reflexivity|].
  unfold wit_gap, wit_arr. intros E. inversion E.
Qed.

(* ---- handlers --------------------------------------------------------- *)
(* A file whose content does not parse never yields other numbers, for every
   method; ValueError-class damage is repaired (Fresh) exactly by the three
   methods that have a handler. *)
Theorem fault_outcome : forall m right sok f,
  is_err (parse f) = true ->
  load_outcome m right sok f <> Different /\
  (parse f = PErr PValue -> catches_value_error m = true ->
     load_outcome m right sok f = Fresh /\ resaved m f = true) /\
  (parse f <> PErr PValue \/ catches_value_error m = false ->
     load_outcome m right sok f = Exception /\ resaved m f = false).
Proof.
  intros m right sok f He. unfold load_outcome, resaved.
  destruct (parse f) as [b|e]; [discriminate|].
  split; [|split].
  - destruct e; destruct (catches_value_error m); discriminate.
  - intros E C. inversion E; subst. rewrite C. auto.
  - intros [E|C].
    + destruct e; try (exfalso; apply E; reflexivity); auto.
    + rewrite C. destruct e; auto.
Qed.

(* every crash point of a save is such a fault *)
Corollary crash_point_outcome : forall m right sok a k,
  wf_arr a -> hlen (shape a) / 256 < 256 -> k < length (serialize a) ->
  load_outcome m right sok (firstn k (serialize a)) =
    (if k =? 0 then Exception else if catches_value_error m then Fresh else Exception).
Proof.
  intros. unfold load_outcome. rewrite truncation_detected by assumption.
  destruct (k =? 0); reflexivity.
Qed.

(* a valid file of the wrong shape is ignored: the result is the fresh one *)
Theorem wrong_shape_outcome : forall m right sok f a,
  parse f = POk a -> sok a = false -> load_outcome m right sok f = Fresh.
Proof.
  intros m right sok f a P S. unfold load_outcome. rewrite P, S.
  destruct (right a); reflexivity.
Qed.

(* ---- atomic save --------------------------------------------------------------- *)
Lemma write_at_end : forall f c, write_at (length f) c f = f ++ c.
Proof.
  intros f c. pose proof (write_at_over f [] c) as H. rewrite app_nil_r in H. apply H. simpl. lia.
Qed.

(* the temp file after the truncation and the first writes *)
Fixpoint run_temp (t : file) (ops : list aop) : file :=
  match ops with
  | [] => t
  | ATrunc :: r => run_temp [] r
  | AWrite off c :: r => run_temp (write_at off c t) r
  | ARename :: r => run_temp t r
  end.

Lemma run_temp_writes : forall chunks t, run_temp t (awrite_ops (length t) chunks) = t ++ concat chunks.
Proof.
  induction chunks as [|c r IH]; intros t; simpl; [rewrite app_nil_r; reflexivity|].
  rewrite write_at_end. replace (length t + length c) with (length (t ++ c)) by (rewrite app_length; reflexivity).
  rewrite IH, <- app_assoc. reflexivity.
Qed.

Lemma run_temp_app : forall a b t, run_temp t (a ++ b) = run_temp (run_temp t a) b.
Proof. induction a as [|[|off c|] a IH]; intros b t; simpl; auto. Qed.

Lemma no_rename_in_writes : forall off chunks, ~ In ARename (awrite_ops off chunks).
Proof.
  intros off chunks. revert off. induction chunks as [|c r IH]; intros off H; simpl in H; [auto|].
  destruct H as [H|H]; [discriminate|eapply IH; eauto].
Qed.

Section Atomic.
  Variable a : arr.
  Variable t0 : option file.          (* what the basis file was before (or None) *)
  Let F := serialize a.

  (* progress invariant of one writer *)
  Definition proc_ok (p : aproc) : Prop :=
    exists chunks done, concat chunks = F /\ awriter chunks = done ++ fst p /\
                        (done = [] \/ snd p = run_temp [] done).

  Definition target_ok (t : option file) : Prop := t = t0 \/ t = Some F.

  Lemma rename_has_all : forall chunks done rest,
    awriter chunks = done ++ ARename :: rest -> done = ATrunc :: awrite_ops 0 chunks /\ rest = [].
  Proof.
    intros chunks done rest H. unfold awriter in H.
    change (ATrunc :: awrite_ops 0 chunks ++ [ARename]) with ((ATrunc :: awrite_ops 0 chunks) ++ [ARename]) in H.
    set (w := ATrunc :: awrite_ops 0 chunks) in *.
    assert (Hw : ~ In ARename w).
    { unfold w. intros [Hx|Hx]; [discriminate|]. eapply no_rename_in_writes; eauto. }
    clearbody w. revert done H Hw. induction w as [|x w IH]; intros done H Hw.
    - destruct done as [|y done]; simpl in H.
      + inversion H; auto.
      + inversion H; subst. destruct done; discriminate.
    - destruct done as [|y done]; simpl in H.
      + inversion H; subst. exfalso. apply Hw. left. reflexivity.
      + inversion H; subst. destruct (IH done H2) as [E1 E2].
        * intros Hx. apply Hw. right. exact Hx.
        * subst. split; reflexivity.
  Qed.

  Lemma astep_ok : forall t p t' p', proc_ok p -> target_ok t -> astep t p = (t', p') ->
    proc_ok p' /\ target_ok t'.
  Proof.
    intros t [ops tmp] t' p' (chunks & done & Hc & Hw & Ht) Htg Hs. cbn [fst snd] in *.
    destruct ops as [|[|off c|] r]; cbn [astep] in Hs; inversion Hs; subst.
    - split; auto. exists chunks, done. auto.
    - split; auto. exists chunks, (done ++ [ATrunc]). cbn [fst snd]. split; auto.
      split; [rewrite <- app_assoc; exact Hw|]. right. rewrite run_temp_app. reflexivity.
    - split; auto. exists chunks, (done ++ [AWrite off c]). cbn [fst snd]. split; auto.
      split; [rewrite <- app_assoc; exact Hw|]. right.
      destruct Ht as [->|Ht].
      + (* the first syscall of a writer is the truncation *) unfold awriter in Hw. discriminate.
      + rewrite run_temp_app, <- Ht. reflexivity.
    - destruct (rename_has_all _ _ _ Hw) as [Hd Hr]. subst r.
      assert (Htmp : tmp = F).
      { destruct Ht as [->|Ht]; [discriminate|]. rewrite Ht, Hd. cbn [run_temp].
        change 0 with (length (@nil N)). rewrite run_temp_writes. exact Hc. }
      split.
      + exists chunks, (done ++ [ARename]). cbn [fst snd]. split; auto.
        split; [rewrite <- app_assoc; exact Hw|]. right. rewrite run_temp_app. cbn. destruct Ht as [->|Ht]; [discriminate|exact Ht].
      + right. rewrite Htmp. reflexivity.
  Qed.

  Lemma astep_nth_ok : forall procs i t t' procs', Forall proc_ok procs -> target_ok t ->
    astep_nth t procs i = (t', procs') -> Forall proc_ok procs' /\ target_ok t'.
  Proof.
    induction procs as [|p r IH]; intros i t t' procs' HF Ht Hs.
    - simpl in Hs. inversion Hs; subst. auto.
    - inversion HF as [|? ? Hp Hr]; subst. destruct i; simpl in Hs.
      + destruct (astep t p) as [t1 p1] eqn:E. inversion Hs; subst.
        destruct (astep_ok _ _ _ _ Hp Ht E). split; auto.
      + destruct (astep_nth t r i) as [t1 r1] eqn:E. inversion Hs; subst.
        destruct (IH _ _ _ _ Hr Ht E). split; auto.
  Qed.

  Lemma aobserved_ok : forall sched t procs, Forall proc_ok procs -> target_ok t ->
    Forall target_ok (aobserved t procs sched).
  Proof.
    induction sched as [|i s IH]; intros t procs HF Ht; simpl; constructor; auto.
    destruct (astep_nth t procs i) as [t' procs'] eqn:E.
    destruct (astep_nth_ok _ _ _ _ _ HF Ht E). apply IH; auto.
  Qed.

  Lemma start_ok : forall p, is_atomic_save a p -> proc_ok p.
  Proof. intros p (chunks & Hc & Hp). exists chunks, []. simpl. auto. Qed.

  (* Any number of processes saving the same array atomically, each with ANY
     number of write syscalls, under every schedule: a reader of the basis file
     only ever sees what was there before (nothing, or the old complete file)
     or the complete new file. *)
  Theorem atomic_save_safe : forall procs sched t,
    Forall (is_atomic_save a) procs -> In t (aobserved t0 procs sched) -> t = t0 \/ t = Some (serialize a).
  Proof.
    intros procs sched t HP Hin.
    assert (HA : Forall proc_ok procs) by (eapply Forall_impl; [|exact HP]; apply start_ok).
    pose proof (aobserved_ok sched t0 procs HA (or_introl eq_refl)) as HS.
    rewrite Forall_forall in HS. exact (HS _ Hin).
  Qed.
End Atomic.

(* so what np.load gets is an error-free parse of the saved array, or whatever
   the old file gave *)
Corollary atomic_save_read : forall a procs sched f,
  wf_arr a -> hlen (shape a) / 256 < 256 ->
  Forall (is_atomic_save a) procs -> In (Some f) (aobserved None procs sched) -> parse f = POk a.
Proof.
  intros a procs sched f Hwf Hh HP Hin.
  destruct (atomic_save_safe a None procs sched _ HP Hin) as [E|E]; [discriminate|].
  inversion E; subst. apply parse_serialize; auto.
Qed.

(* the three-write save of numpy is covered: header, bulk, tail as three chunks *)
Example atomic_three_chunks : is_atomic_save wit_arr
  (awriter [head_chunk (shape wit_arr); firstn 8 (data wit_arr); skipn 8 (data wit_arr)], []).
Proof. exists [head_chunk (shape wit_arr); firstn 8 (data wit_arr); skipn 8 (data wit_arr)]. split; reflexivity. Qed.
