(* VmiInvProofs.v — the translated cofactor formulas inv2 / inv3
   (coq/gen/VmiInv.v, regenerated from abel/tools/vmi.py on every run) are
   two-sided inverses of the Hankel matrix whenever the determinant the code
   tests is non-zero; what they return in the singular branches. *)
From Coq Require Import List Bool Reals Lra.
From PA Require Import base.MatL gen.VmiInv.
Import ListNotations.
Open Scope R_scope.

Definition Reqb (x y : R) : bool := if Req_EM_T x y then true else false.

Lemma Reqb_false x y : x <> y -> Reqb x y = false.
Proof. unfold Reqb; destruct (Req_EM_T x y); tauto. Qed.
Lemma Reqb_true x : Reqb x x = true.
Proof. unfold Reqb; destruct (Req_EM_T x x); tauto. Qed.
Lemma Reqb_eq x y : Reqb x y = true -> x = y.
Proof. unfold Reqb; destruct (Req_EM_T x y); auto; discriminate. Qed.

Definition Rops : field_ops R := FieldOps 0 1 Rplus Rminus Rmult Rdiv Ropp Reqb.
Definition inv2R := inv2 R Rops.
Definition inv3R := inv3 R Rops.
Definition matmulR := matmul 0 Rplus Rmult.
Definition identR := ident 0 1.
Definition hankelR := hankel 0.
Definition matvecR := matvec 0 Rplus Rmult.

Definition det2 (p0 p1 p2 : R) := p0 * p2 - p1 * p1.
Definition det3 (p0 p1 p2 p3 p4 : R) :=
  p0 * (p2 * p4 - p3 * p3) + p1 * (p2 * p3 - p1 * p4) + p2 * (p1 * p3 - p2 * p2).

Lemma inv2_value p0 p1 p2 : det2 p0 p1 p2 <> 0 ->
  inv2R p0 p1 p2 = mscale Rmult (1 / det2 p0 p1 p2) [[p2; - p1]; [- p1; p0]].
Proof. intros H. unfold inv2R, inv2; cbn [Rops f0 f1 fadd fsub fmul fdiv fopp feqb]. fold (det2 p0 p1 p2). rewrite Reqb_false by exact H. reflexivity. Qed.

Theorem inv2_correct p0 p1 p2 : det2 p0 p1 p2 <> 0 ->
  matmulR (inv2R p0 p1 p2) (hankelR 2 [p0; p1; p2]) 2 = identR 2 /\
  matmulR (hankelR 2 [p0; p1; p2]) (inv2R p0 p1 p2) 2 = identR 2.
Proof.
  intros H. rewrite inv2_value by exact H. unfold det2 in *.
  split; cbv [matmulR matmul identR ident hankelR hankel mscale dot mcol map seq combine fold_left
              nth fst snd Nat.eqb Nat.add];
    repeat (f_equal; try (field; exact H)).
Qed.

Lemma inv3_value p0 p1 p2 p3 p4 : det3 p0 p1 p2 p3 p4 <> 0 ->
  inv3R p0 p1 p2 p3 p4 =
  mscale Rmult (1 / det3 p0 p1 p2 p3 p4)
    [[p2 * p4 - p3 * p3; p2 * p3 - p1 * p4; p1 * p3 - p2 * p2];
     [p2 * p3 - p1 * p4; p0 * p4 - p2 * p2; p1 * p2 - p0 * p3];
     [p1 * p3 - p2 * p2; p1 * p2 - p0 * p3; p0 * p2 - p1 * p1]].
Proof.
  intros H. unfold inv3R, inv3; cbn [Rops f0 f1 fadd fsub fmul fdiv fopp feqb]. fold (det3 p0 p1 p2 p3 p4). rewrite Reqb_false by exact H. reflexivity.
Qed.

Theorem inv3_correct p0 p1 p2 p3 p4 : det3 p0 p1 p2 p3 p4 <> 0 ->
  matmulR (inv3R p0 p1 p2 p3 p4) (hankelR 3 [p0; p1; p2; p3; p4]) 3 = identR 3 /\
  matmulR (hankelR 3 [p0; p1; p2; p3; p4]) (inv3R p0 p1 p2 p3 p4) 3 = identR 3.
Proof.
  intros H. rewrite inv3_value by exact H. unfold det3 in *.
  split; cbv [matmulR matmul identR ident hankelR hankel mscale dot mcol map seq combine fold_left
              nth fst snd Nat.eqb Nat.add];
    repeat (f_equal; try (field; exact H)).
Qed.

(* singular branches: the code returns the inverse of the largest leading
   block it can invert, padded with zeros *)
Lemma inv2_singular p0 p1 p2 : det2 p0 p1 p2 = 0 ->
  inv2R p0 p1 p2 = if Reqb p0 0 then [[0; 0]; [0; 0]] else [[1 / p0; 0]; [0; 0]].
Proof.
  intros H. unfold inv2R, inv2; cbn [Rops f0 f1 fadd fsub fmul fdiv fopp feqb]. fold (det2 p0 p1 p2). rewrite H, Reqb_true.
  destruct (Reqb p0 0); reflexivity.
Qed.

Lemma inv3_singular p0 p1 p2 p3 p4 : det3 p0 p1 p2 p3 p4 = 0 ->
  inv3R p0 p1 p2 p3 p4 =
  match inv2R p0 p1 p2 with
  | [[a; b]; [c; d]] => [[a; b; 0]; [c; d; 0]; [0; 0; 0]]
  | _ => []
  end.
Proof.
  intros H. unfold inv3R, inv3; cbn [Rops f0 f1 fadd fsub fmul fdiv fopp feqb]. fold (det3 p0 p1 p2 p3 p4). rewrite H, Reqb_true.
  fold inv2R. unfold inv2R, inv2; cbn [Rops f0 f1 fadd fsub fmul fdiv fopp feqb]. destruct (Reqb (p0 * p2 - p1 * p1) 0).
  - destruct (negb (Reqb p0 0)); reflexivity.
  - reflexivity.
Qed.
