(* VmiInvProofs.v — the translated cofactor formulas inv2 / inv3
   (coq/gen/VmiInv.v, regenerated from abel/tools/vmi.py on every run) are
   two-sided inverses of the Hankel matrix whenever the determinant the code
   tests is non-zero; what they return in the singular branches. *)
From Coq Require Import List Bool Reals Lra.
From PA Require Import base.MatL gen.VmiInv.
Import ListNotations.
Open Scope R_scope.

Definition Reqb (x y : R) : bool := if Req_EM_T x y then true else false.

Lemma Reqb_false x y : x <> y -> Reqb x y = false.
Proof. unfold Reqb; destruct (Req_EM_T x y); tauto. Qed.
Lemma Reqb_true x : Reqb x x = true.
Proof. unfold Reqb; destruct (Req_EM_T x x); tauto. Qed.
Lemma Reqb_eq x y : Reqb x y = true -> x = y.
Proof. unfold Reqb; destruct (Req_EM_T x y); auto; discriminate. Qed.

Definition Rops : field_ops R := FieldOps 0 1 Rplus Rminus Rmult Rdiv Ropp Reqb.
Definition inv2R := inv2 R Rops.
Definition inv3R := inv3 R Rops.
Definition matmulR := matmul 0 Rplus Rmult.
Definition identR := ident 0 1.
Definition hankelR := hankel 0.
Definition matvecR := matvec 0 Rplus Rmult.

Definition det2 (p0 p1 p2 : R) := p0 * p2 - p1 * p1.
Definition det3 (p0 p1 p2 p3 p4 : R) :=
  p0 * (p2 * p4 - p3 * p3) + p1 * (p2 * p3 - p1 * p4) + p2 * (p1 * p3 - p2 * p2).

(* The proofs below do not depend on how the source spells its formulas:
   whatever expression d the code compares with 0, it is shown equal to the
   determinant by `ring`, and the returned entries are compared by `field`. *)
Ltac ops := cbn [Rops f0 f1 fadd fsub fmul fdiv fopp feqb].

Ltac split_on_det H :=
  match goal with
  | |- context [Reqb ?d 0] =>
    let E := fresh "E" in
    destruct (Reqb d 0) eqn:E;
    [ exfalso; apply H; apply Reqb_eq in E;
      (transitivity d; [unfold det2, det3; ring | exact E]) | ]
  end.

Ltac field_det H :=
  field; let Hc := fresh "Hc" in
  intro Hc; apply H;
  match type of Hc with ?e = 0 => transitivity e; [unfold det2, det3; ring | exact Hc] end.

Lemma inv2_value p0 p1 p2 : det2 p0 p1 p2 <> 0 ->
  inv2R p0 p1 p2 =
  [[p2 / det2 p0 p1 p2; - p1 / det2 p0 p1 p2]; [- p1 / det2 p0 p1 p2; p0 / det2 p0 p1 p2]].
Proof.
  intros H. unfold inv2R, inv2. ops. split_on_det H.
  cbv [mscale map]. unfold det2 in *.
  repeat (f_equal; try (field_det H)).
Qed.

Lemma inv3_value p0 p1 p2 p3 p4 : det3 p0 p1 p2 p3 p4 <> 0 ->
  inv3R p0 p1 p2 p3 p4 =
  let d := det3 p0 p1 p2 p3 p4 in
  [[(p2 * p4 - p3 * p3) / d; (p2 * p3 - p1 * p4) / d; (p1 * p3 - p2 * p2) / d];
   [(p2 * p3 - p1 * p4) / d; (p0 * p4 - p2 * p2) / d; (p1 * p2 - p0 * p3) / d];
   [(p1 * p3 - p2 * p2) / d; (p1 * p2 - p0 * p3) / d; (p0 * p2 - p1 * p1) / d]].
Proof.
  intros H. unfold inv3R, inv3. ops. split_on_det H.
  cbv [mscale map]. cbv zeta. unfold det3 in *.
  repeat (f_equal; try (field_det H)).
Qed.

Theorem inv2_correct p0 p1 p2 : det2 p0 p1 p2 <> 0 ->
  matmulR (inv2R p0 p1 p2) (hankelR 2 [p0; p1; p2]) 2 = identR 2 /\
  matmulR (hankelR 2 [p0; p1; p2]) (inv2R p0 p1 p2) 2 = identR 2.
Proof.
  intros H. rewrite inv2_value by exact H. unfold det2 in *.
  split; cbv [matmulR matmul identR ident hankelR hankel dot mcol map seq combine fold_left
              nth fst snd Nat.eqb Nat.add];
    repeat (f_equal; try (field; exact H)).
Qed.

Theorem inv3_correct p0 p1 p2 p3 p4 : det3 p0 p1 p2 p3 p4 <> 0 ->
  matmulR (inv3R p0 p1 p2 p3 p4) (hankelR 3 [p0; p1; p2; p3; p4]) 3 = identR 3 /\
  matmulR (hankelR 3 [p0; p1; p2; p3; p4]) (inv3R p0 p1 p2 p3 p4) 3 = identR 3.
Proof.
  intros H. rewrite inv3_value by exact H. cbv zeta. unfold det3 in *.
  split; cbv [matmulR matmul identR ident hankelR hankel dot mcol map seq combine fold_left
              nth fst snd Nat.eqb Nat.add];
    repeat (f_equal; try (field; exact H)).
Qed.

(* singular 2x2 branch: the inverse of the 1x1 leading block, padded with zeros *)
Lemma inv2_singular p0 p1 p2 : det2 p0 p1 p2 = 0 ->
  inv2R p0 p1 p2 = if Reqb p0 0 then [[0; 0]; [0; 0]] else [[1 / p0; 0]; [0; 0]].
Proof.
  intros H. unfold inv2R, inv2. ops.
  match goal with |- context [Reqb ?d 0] => destruct (Reqb d 0) eqn:E end.
  - destruct (Reqb p0 0); reflexivity.
  - exfalso. unfold Reqb in E.
    match type of E with (if Req_EM_T ?d 0 then _ else _) = _ =>
      destruct (Req_EM_T d 0) as [|Hn]; [discriminate|];
      apply Hn; transitivity (det2 p0 p1 p2); [unfold det2; ring | exact H] end.
Qed.
