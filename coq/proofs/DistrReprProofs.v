(* DistrReprProofs.v — the representations returned by Distributions.Results
   describe the same angular function (R instance of model/DistrRepr.v), for
   every order 0..8 and both parities, at one radius (the conversions act on
   every radius = column separately). *)
From Coq Require Import List Arith Lia Bool ZArith Reals Lra.
From PA Require Import base.MatL model.DistrRepr proofs.VmiInvProofs.
Import ListNotations.
Open Scope R_scope.

Definition colmat (c : list R) : list (list R) := map (fun v => [v]) c.
Definition matcol (M : list (list R)) : list R := map (fun r => nth 0%nat r 0) M.

Definition cossinR := cossin Rops.
Definition harmonicsR := harmonics Rops.

(* sum_k c_k x^(orders k) *)
Definition eval_cos (order : nat) (odd : bool) (c : list R) (x : R) : R :=
  fold_left Rplus (map (fun p => fst p * x ^ snd p) (combine c (orders order odd))) 0.

(* sum_k c_k cos^(orders k) sin^(sinpowers k), with cos = x and sin^2 = 1 - x^2
   (the sine powers are even) *)
Definition eval_cossin (order : nat) (odd : bool) (c : list R) (x : R) : R :=
  fold_left Rplus
    (map (fun p => fst p * x ^ fst (snd p) * (1 - x * x) ^ (snd (snd p) / 2))
         (combine c (combine (orders order odd) (sinpowers order odd)))) 0.

(* Legendre polynomials as real functions (Bonnet's recursion) *)
Fixpoint legP_pair (n : nat) (x : R) : R * R :=      (* (P_n, P_{n-1}) *)
  match n with
  | O => (1, 0)
  | S n' => let '(p, pm) := legP_pair n' x in
            (((2 * INR n' + 1) * x * p - INR n' * pm) / (INR n' + 1), p)
  end.
Definition legP (n : nat) (x : R) : R := fst (legP_pair n x).

(* sum_k c_k P_(orders k)(x) *)
Definition eval_harm (order : nat) (odd : bool) (c : list R) (x : R) : R :=
  fold_left Rplus (map (fun p => fst p * legP (snd p) x) (combine c (orders order odd))) 0.

Definition nterms (order : nat) (odd : bool) : nat := length (orders order odd).

(* the (order, odd) pairs a Results object can have: odd orders force odd=True,
   order 0 forces odd=False (vmi.py:713-718, rbasex.py:175-178) *)
Definition consistent (order : nat) (odd : bool) : bool :=
  if Nat.eqb order 0 then negb odd else if Nat.eqb (order mod 2) 1 then odd else true.

Ltac destruct_len c :=
  repeat match goal with
         | H : length c = _ |- _ => destruct c as [|? c]; cbn [length] in H; try discriminate H;
                                    try (apply eq_add_S in H)
         end.

Ltac all_orders order :=
  do 9 (destruct order as [|order]; [|]); [| | | | | | | | | exfalso; cbn in *; lia].

Local Ltac crunch :=
  cbv [eval_cos eval_cossin eval_harm cossinR cossin harmonicsR harmonics colmat matcol
       orders sinpowers CSmat pascal_upper flip2 binom nmat mmul matmul ncols mcol dot evens odds
       interleave ofnat ofZ ofrat CHmat lcoef legendre legendre_pair poly_add poly_scale poly_shift
       rat_add rat_scale rat_red back_subst row_sub row_scale row_div
       Rops f0 f1 fadd fsub fmul fdiv fopp
       map seq rev app combine fold_left fst snd hd tl nth skipn length Nat.eqb Nat.add Nat.mul Nat.sub
       Nat.div Nat.modulo Nat.divmod Nat.leb pow
       Z.gcd Z.eqb Z.div Z.div_eucl Z.pos_div_eucl Z.mul Z.add Z.opp Z.of_nat Z.to_pos Z.ltb Z.leb Z.compare Z.sub
       Z.pos_sub Z.succ_double Z.pred_double Z.double Z.abs Z.sgn Z.ggcd Z.geb
       Pos.gcd Pos.gcdn Pos.mul Pos.add Pos.of_nat Pos.of_succ_nat Pos.to_nat Pos.iter_op Pos.succ Pos.compare
       Pos.compare_cont Pos.sub Pos.sub_mask Pos.double_mask Pos.succ_double_mask Pos.double_pred_mask
       Pos.pred_double Pos.size_nat Pos.eqb Pos.leb Pos.ltb Pos.pred Pos.add_carry Pos.sub_mask_carry
       Pos.ggcd Pos.ggcdn Pos.divide
       legP legP_pair INR].
