(* DistrReprProofs.v — the representations returned by Distributions.Results
   describe the same angular function (R instance of model/DistrRepr.v), for
   every order 0..8 and both parities, at one radius (the conversions act on
   every radius = column separately). *)
From Coq Require Import List Arith Lia Bool ZArith Reals Lra.
From PA Require Import base.MatL model.DistrRepr proofs.VmiInvProofs.
Import ListNotations.
Open Scope R_scope.

Definition colmat (c : list R) : list (list R) := map (fun v => [v]) c.
Definition matcol (M : list (list R)) : list R := map (fun r => nth 0%nat r 0) M.

Definition cossinR := cossin Rops IZR.
Definition harmonicsR := harmonics Rops IZR.
Definition IbetaR := Ibeta Rops PI IZR.

(* sum_k c_k x^(orders k) *)
Definition eval_cos (order : nat) (odd : bool) (c : list R) (x : R) : R :=
  fold_left Rplus (map (fun p => fst p * x ^ snd p) (combine c (orders order odd))) 0.

(* sum_k c_k cos^(orders k) sin^(sinpowers k), with cos = x and sin^2 = 1 - x^2
   (the sine powers are even) *)
Definition eval_cossin (order : nat) (odd : bool) (c : list R) (x : R) : R :=
  fold_left Rplus
    (map (fun p => fst p * x ^ fst (snd p) * (1 - x * x) ^ (snd (snd p) / 2))
         (combine c (combine (orders order odd) (sinpowers order odd)))) 0.

(* Legendre polynomials as real functions (Bonnet's recursion) *)
Fixpoint legP_pair (n : nat) (x : R) : R * R :=      (* (P_n, P_{n-1}) *)
  match n with
  | O => (1, 0)
  | S n' => let '(p, pm) := legP_pair n' x in
            (((2 * IZR (Z.of_nat n') + 1) * x * p - IZR (Z.of_nat n') * pm) / (IZR (Z.of_nat n') + 1), p)
  end.
Definition legP (n : nat) (x : R) : R := fst (legP_pair n x).

(* sum_k c_k P_(orders k)(x) *)
Definition eval_harm (order : nat) (odd : bool) (c : list R) (x : R) : R :=
  fold_left Rplus (map (fun p => fst p * legP (snd p) x) (combine c (orders order odd))) 0.

Definition nterms (order : nat) (odd : bool) : nat := length (orders order odd).

(* the (order, odd) pairs a Results object can have: odd orders force odd=True,
   order 0 forces odd=False (vmi.py:713-718, rbasex.py:175-178) *)
Definition consistent (order : nat) (odd : bool) : bool :=
  if Nat.eqb order 0 then negb odd else if Nat.eqb (order mod 2) 1 then odd else true.

Ltac destruct_len c :=
  repeat match goal with
         | H : length c = _ |- _ => destruct c as [|? c]; cbn [length] in H; try discriminate H;
                                    try (apply eq_add_S in H)
         end.


(* evaluate the integer / rational tables of the model inside the goal *)
Ltac eval_tables :=
  repeat match goal with
         | |- context [CHinv ?o ?b] =>
           let t := eval vm_compute in (CHinv o b) in change (CHinv o b) with t
         | |- context [CSmat ?o] =>
           let t := eval vm_compute in (CSmat o) in change (CSmat o) with t
         | |- context [orders ?o ?b] =>
           let t := eval vm_compute in (orders o b) in change (orders o b) with t
         | |- context [sinpowers ?o ?b] =>
           let t := eval vm_compute in (sinpowers o b) in change (sinpowers o b) with t
         end.

Ltac crunch :=
  cbv [eval_cos eval_cossin eval_harm cossinR cossin harmonicsR harmonics colmat matcol
       nmat mmul matmul ncols mcol dot evens odds interleave ofnat ofrat
       Rops f0 f1 fadd fsub fmul fdiv fopp
       map seq rev app combine fold_left fst snd hd tl nth skipn length Nat.eqb Nat.add Nat.mul Nat.sub
       Nat.div Nat.modulo Nat.divmod pow Z.of_nat Pos.of_succ_nat Pos.succ
       legP legP_pair].

Ltac one_case tac :=
  intros;
  unfold eval_cossin, eval_cos, eval_harm, cossinR, cossin, harmonicsR, harmonics;
  eval_tables; crunch; tac.

(* cos^n -> cos^n sin^m: same function of the angle, all 18 (order, odd) cases *)
Theorem cossin_same_function : forall (order : nat) (odd : bool) (c : list R) (x : R),
  (order <= 8)%nat -> length c = nterms order odd ->
  eval_cossin order odd (matcol (cossinR order odd (colmat c))) x = eval_cos order odd c x.
Proof.
  intros order odd c x Ho Hlen.
  destruct order as [|[|[|[|[|[|[|[|[|order]]]]]]]]]; [ | | | | | | | | | exfalso; lia];
    destruct odd;
    (match type of Hlen with _ = ?r => let v := eval vm_compute in r in change r with v in Hlen end);
    destruct_len c; clear Ho;
    (unfold eval_cossin, eval_cos, cossinR, cossin; eval_tables; crunch; ring).
Qed.

(* cos^n -> Legendre: same function of the angle, all 18 (order, odd) cases *)
Theorem harmonics_same_function : forall (order : nat) (odd : bool) (c : list R) (x : R),
  (order <= 8)%nat -> length c = nterms order odd ->
  eval_harm order odd (matcol (harmonicsR order odd (colmat c))) x = eval_cos order odd c x.
Proof.
  intros order odd c x Ho Hlen.
  destruct order as [|[|[|[|[|[|[|[|[|order]]]]]]]]]; [ | | | | | | | | | exfalso; lia];
    destruct odd;
    (match type of Hlen with _ = ?r => let v := eval vm_compute in r in change r with v in Hlen end);
    destruct_len c; clear Ho;
    (unfold eval_harm, eval_cos, harmonicsR, harmonics; eval_tables; crunch; field).
Qed.

(* the Legendre functions used above are the usual ones *)
Lemma legP_values x : legP 0 x = 1 /\ legP 1 x = x /\ legP 2 x = (3 * x * x - 1) / 2.
Proof. unfold legP. cbn [legP_pair fst Z.of_nat Pos.of_succ_nat]. repeat split; field. Qed.

(* Ibeta(window = 1):  I = 4 pi r^2 P0,  beta_n = P_n / P0 where P0 <> 0, else 0 *)
Theorem Ibeta_def : forall order odd rs cn,
  let harm := harmonicsR order odd cn in
  IbetaR order odd 1 rs cn =
  map (fun p => 4 * PI * (fst p * fst p) * snd p) (combine rs (hd [] harm))
  :: map (fun row => map (fun p => if Reqb (snd p) 0 then 0 else fst p / snd p) (combine row (hd [] harm)))
         (tl harm).
Proof. intros. reflexivity. Qed.

Lemma beta_times_P0 pn p0 : p0 <> 0 -> (if Reqb p0 0 then 0 else pn / p0) * p0 = pn.
Proof. intros H. rewrite Reqb_false by exact H. field. exact H. Qed.

(* window > 1: the ratio is taken between the moving averages *)
Theorem Ibeta_window : forall order odd window rs cn, (1 < window)%nat ->
  let harm := harmonicsR order odd cn in
  let avg := uniform_filter Rops IZR window in
  tl (IbetaR order odd window rs cn) =
  map (fun row => map (fun p => if Reqb (snd p) 0 then 0 else fst p / snd p)
                      (combine row (avg (hd [] harm))))
      (map avg (tl harm)).
Proof.
  intros order odd window rs cn Hw. cbv zeta. unfold IbetaR, Ibeta. cbn [tl].
  replace (1 <? window)%nat with true by (symmetry; apply Nat.ltb_lt; exact Hw). reflexivity.
Qed.
