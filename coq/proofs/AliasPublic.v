(* AliasPublic.v — the checker of model/Alias.v run (vm_compute) on the programs
   generated from /repo's current sources (gen/AliasProgs.v), combined with
   its soundness theorem (proofs/AliasSound.v).

   Exceptions are listed by name in gen/AliasExceptions.v:
     known_arg_writers, known_cache_returners  recorded findings (KNOWN_FINDINGS.json)
     unproved_args                             analysis too coarse (committed list, reasons there)
     cache_accessors                           get_bs_cached functions: return cached arrays by design *)
From Coq Require Import List String Bool Arith Lia.
From PA Require Import model.Alias proofs.AliasSound gen.AliasProgs gen.AliasExceptions.
Import ListNotations.
Open Scope string_scope.

Definition inb (x : string) (l : list string) : bool := existsb (String.eqb x) l.

Fixpoint allowed_args (l : list (string * list nat)) (f : string) : list nat :=
  match l with
  | [] => []
  | (g, ps) :: l' => if String.eqb f g then ps else allowed_args l' f
  end.

(* recorded findings exempt the callable; "unproved" exceptions exempt only the listed
   argument positions of the callable *)
Definition args_exempt (f : string) : bool := inb f known_arg_writers.
Definition ret_exempt (f : string) : bool := inb f known_cache_returners || inb f cache_accessors.

Definition public_ok (fp : string * prog) : bool :=
  (args_exempt (fst fp) || safe_args_except (allowed_args unproved_args (fst fp)) (snd fp))
  && (ret_exempt (fst fp) || safe_ret_except (allowed_args returned_args_allowed (fst fp)) (snd fp)).

Lemma safe_all_public : forallb public_ok public_functions = true.
Proof. vm_compute. reflexivity. Qed.

(* Every call site of a translated library function carries a summary that covers
   what the analysis derives for the callee's own program. *)
Lemma calls_consistent_all : calls_consistent callee_functions = true.
Proof. vm_compute. reflexivity. Qed.

(* The exceptions are not vacuous: the checker does reject each of them. *)
Definition rejected_args (f : string) : bool :=
  match lookup public_functions f with Some p => negb (safe_args p) | None => false end.
Definition rejected_ret (f : string) : bool :=
  match lookup public_functions f with Some p => negb (safe_ret p) | None => false end.

Lemma exceptions_refuted :
  forallb rejected_args (known_arg_writers ++ map fst unproved_args) = true /\
  forallb rejected_ret (known_cache_returners ++ cache_accessors) = true /\
  forallb (fun f => match lookup public_functions f with Some p => negb (safe_ret_except [] p) | None => false end)
          (map fst returned_args_allowed) = true.
Proof. repeat split; vm_compute; reflexivity. Qed.

(* public methods of the public classes (and of the result classes they hand out), translated
   with `self` as parameter 0 *)
Definition method_ok (fp : string * prog) : bool := inb (fst fp) method_exempt || safe_method (snd fp).

Lemma methods_all_ok : forallb method_ok public_methods = true.
Proof. vm_compute. reflexivity. Qed.

Lemma method_exceptions_refuted :
  forallb (fun f => match lookup public_methods f with Some p => negb (safe_method p) | None => false end)
          method_exempt = true.
Proof. vm_compute. reflexivity. Qed.

Theorem public_methods_safe : forall f p, In (f, p) public_methods -> inb f method_exempt = false ->
  forall st st', init_ok p st -> exec (body p) st st' ->
  (forall b, arg_buffer p st b -> (forall i, org st b = LArg i -> i <> 0) -> ver st' b = ver st b) /\
  (forall b, In b (rets st') -> cached st' b = false /\ org st' b <> LArg 0).
Proof.
  intros f p Hin Hex. pose proof methods_all_ok as A. rewrite forallb_forall in A.
  specialize (A _ Hin). unfold method_ok in A. cbn [fst snd] in A. rewrite Hex in A. cbn [orb] in A.
  exact (safe_method_sound p A).
Qed.

(* ---- combination with soundness ---- *)

Lemma public_ok_in f p : In (f, p) public_functions -> public_ok (f, p) = true.
Proof.
  intro H. pose proof safe_all_public as A. rewrite forallb_forall in A. exact (A _ H).
Qed.

Theorem public_args_intact : forall f p, In (f, p) public_functions -> args_exempt f = false ->
  forall st st', init_ok p st -> exec (body p) st st' ->
  forall b, arg_buffer p st b ->
  (forall i, org st b = LArg i -> existsb (Nat.eqb i) (allowed_args unproved_args f) = false) ->
  ver st' b = ver st b.
Proof.
  intros f p Hin Hex st st' Hi He b Hb Hna.
  pose proof (public_ok_in f p Hin) as H. unfold public_ok in H. cbn [fst snd] in H.
  apply andb_prop in H. destruct H as [H _]. rewrite Hex in H. cbn [orb] in H.
  exact (safe_args_except_sound _ p H st st' Hi He b Hb Hna).
Qed.

Theorem public_results_not_cached : forall f p, In (f, p) public_functions -> ret_exempt f = false ->
  forall st st', init_ok p st -> exec (body p) st st' ->
  forall b, In b (rets st') ->
  cached st' b = false /\
  (forall i, org st' b = LArg i -> existsb (Nat.eqb i) (allowed_args returned_args_allowed f) = true).
Proof.
  intros f p Hin Hex st st' Hi He b Hb.
  pose proof (public_ok_in f p Hin) as H. unfold public_ok in H. cbn [fst snd] in H.
  apply andb_prop in H. destruct H as [_ H]. rewrite Hex in H. cbn [orb] in H.
  exact (safe_ret_except_sound _ p H st st' Hi He b Hb).
Qed.

(* ---- the semantics does see in-place writes and cache aliases (non-vacuity) ---- *)

Definition st0 : state :=
  {| sto := fun x => if String.eqb x "x" then Some 1 else None;
     ver := fun _ => 0; org := fun b => if Nat.eqb b 1 then LArg 0 else LGlob;
     cached := fun b => Nat.eqb b 0; next := 2; rets := [] |}.

Definition p_write : prog := {| params := ["x"]; body := Write "x" |}.         (* def f(x): x += 1 *)
Definition p_cache : prog := {| params := ["x"]; body := Seq (LoadG "c") (Ret "c") |}.   (* def f(x): return _cache *)

Lemma st0_init : forall p, params p = ["x"] -> init_ok p st0.
Proof.
  intros p Hp. constructor; simpl.
  - intros x b H. destruct (String.eqb x "x") eqn:E; [| discriminate].
    inversion H; subst. split; [lia |]. exists 0. apply String.eqb_eq in E. subst. rewrite Hp. split; reflexivity.
  - intros b Hb H. destruct b as [| [| b]]; simpl in *; try reflexivity; try discriminate; lia.
  - reflexivity.
Qed.

Lemma write_param_refuted : safe_args p_write = false /\
  exists st st', init_ok p_write st /\ exec (body p_write) st st' /\
                 exists b, arg_buffer p_write st b /\ ver st' b <> ver st b.
Proof.
  split; [vm_compute; reflexivity |].
  exists st0, (bump st0 1). split; [exact (st0_init p_write eq_refl) |]. split.
  - apply E_Write. reflexivity.
  - exists 1. split.
    + exists "x". split; [left; reflexivity | reflexivity].
    + simpl. unfold updn. simpl. discriminate.
Qed.

Lemma return_cache_refuted : safe_ret p_cache = false /\
  exists st st', init_ok p_cache st /\ exec (body p_cache) st st' /\
                 exists b, In b (rets st') /\ cached st' b = true.
Proof.
  split; [vm_compute; reflexivity |].
  exists st0, (add_ret (set_sto st0 "c" (Some 0)) 0). split; [exact (st0_init p_cache eq_refl) |]. split.
  - eapply E_Seq.
    + apply (E_LoadG st0 "c" 0); [simpl; lia | reflexivity].
    + apply E_Ret. reflexivity.
  - exists 0. split; [left; reflexivity | reflexivity].
Qed.
