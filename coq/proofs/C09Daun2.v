(* proofs/C09Daun2.v — daun degree 2: the generated entries daun_p2 are the Abel
   transforms of the piecewise-quadratic basis functions quad2. *)
From Coq Require Import Reals ZArith Bool Lra Lia Psatz.
From Coquelicot Require Import Coquelicot.
From PA Require Import model.Abel proofs.AbelLemmas proofs.C09Daun gen.FormulasBasis.
Open Scope R_scope.

(* int (x^2 + y^2) dy *)
Definition Kh (x y : R) : R := x * x * y + y * y * y / 3.

Lemma RInt_hyp2 x a b : is_RInt (fun y => x * x + y * y) a b (Kh x b - Kh x a).
Proof.
  apply (is_RInt_derive (Kh x) (fun y => x * x + y * y)).
  - intros y _. unfold Kh. auto_derive; auto. field.
  - intros y _. apply continuity_pt_filterlim. reg.
Qed.

(* a piece on which the integrand is al + be * rho + ga * rho^2 *)
Lemma is_RInt_quad_piece (f : R -> R) x a b al be ga : 0 <= x -> 0 <= a -> a <= b ->
  (forall y, a < y < b -> f y = al + be * sqrt (x * x + y * y) + ga * (sqrt (x * x + y * y) * sqrt (x * x + y * y))) ->
  is_RInt f a b ((b - a) * al + be * (Gh x b - Gh x a) + ga * (Kh x b - Kh x a)).
Proof.
  intros Hx Ha Hab H.
  apply (is_RInt_ext (fun y => (al + be * sqrt (x * x + y * y)) + ga * (x * x + y * y))).
  - intros y Hy. rewrite Rmin_left, Rmax_right in Hy by lra. rewrite H by auto.
    rewrite hyp_sq. reflexivity.
  - apply (is_RInt_plus (fun y => al + be * sqrt (x * x + y * y)) (fun y => ga * (x * x + y * y))).
    + apply is_RInt_lin_piece; auto.
    + apply (is_RInt_scal (fun y => x * x + y * y) a b ga). apply RInt_hyp2.
Qed.

(* the primitive the code calls P(R, a, b, c) (daun.py degree 2), extended to
   Rc <= x by its limit value (the x2logx corrections of the code) *)
Definition Pt2 (Rc a b c x : R) : R :=
  if Rlt_dec x Rc
  then sqrt (Rc ^ 2 - x ^ 2) * (a * 2 + b * Rc + c * 4 / 3 * (Rc ^ 2 / 2 + x ^ 2))
       + b * x ^ 2 * ln (sqrt (Rc ^ 2 - x ^ 2) + Rc)
  else b * x ^ 2 * ln x.

Lemma Pt2_eq x Rc a b c : 0 <= x ->
  2 * (a * ylos x Rc + b * Gh x (ylos x Rc) + c * Kh x (ylos x Rc)) = Pt2 Rc a b c x.
Proof.
  intros Hx. unfold Pt2, Gh, Kh. rewrite hyp_at_ylos by auto.
  destruct (Rlt_dec x Rc) as [L|L].
  - pose proof (ylos_sq x Rc Hx) as Hq. rewrite Rmax_left in Hq by lra.
    rewrite Rmax_left by lra. rewrite <- ylos_pow by lra.
    remember (ylos x Rc) as Y.
    assert (E : Y * Y * Y = Y * (Rc * Rc - x * x)) by (rewrite <- Hq; lra).
    rewrite E. field.
  - rewrite ylos_below by lra. rewrite Rmax_right by lra. rewrite Rplus_0_l. field.
Qed.

Lemma quad2_out c s : Rabs (s - c) >= 1 -> quad2 c s = 0.
Proof.
  intros H. unfold quad2. rewrite 2!pos_nonpos by lra. ring.
Qed.
Lemma quad2_mid c s : Rabs (s - c) <= 1 / 2 -> quad2 c s = 1 - 2 * (s - c) * (s - c).
Proof.
  intros H. unfold quad2. rewrite 2!pos_nonneg by lra.
  unfold Rabs in *. destruct (Rcase_abs (s - c)); field.
Qed.
Lemma quad2_wing c s : 1 / 2 <= Rabs (s - c) <= 1 -> quad2 c s = 2 * (1 - Rabs (s - c)) * (1 - Rabs (s - c)).
Proof.
  intros H. unfold quad2. rewrite pos_nonneg by lra. rewrite pos_nonpos by lra. ring.
Qed.

Definition quad2_RInt_value (x c : R) : R :=
  let y0 := ylos x (c - 1) in let y1 := ylos x (c - 1 / 2) in
  let y2 := ylos x (c + 1 / 2) in let y3 := ylos x (c + 1) in
  (((y0 - 0) * 0
    + ((y1 - y0) * (2 * (c - 1) ^ 2) + (-4 * (c - 1)) * (Gh x y1 - Gh x y0) + 2 * (Kh x y1 - Kh x y0)))
   + ((y2 - y1) * (1 - 2 * c ^ 2) + (4 * c) * (Gh x y2 - Gh x y1) + (-2) * (Kh x y2 - Kh x y1)))
  + ((y3 - y2) * (2 * (c + 1) ^ 2) + (-4 * (c + 1)) * (Gh x y3 - Gh x y2) + 2 * (Kh x y3 - Kh x y2)).

Lemma quad2_is_RInt x c : 0 <= x -> 0 <= c ->
  is_RInt (fun y => quad2 c (sqrt (x * x + y * y))) 0 (ylos x (c + 1)) (quad2_RInt_value x c).
Proof.
  intros Hx Hc. unfold quad2_RInt_value. cbv zeta.
  pose proof (ylos_nonneg x (c - 1)) as H0.
  pose proof (ylos_mono x (c - 1) (c - 1 / 2) Hx ltac:(lra)) as H1.
  pose proof (ylos_mono x (c - 1 / 2) (c + 1 / 2) Hx ltac:(lra)) as H2.
  pose proof (ylos_mono x (c + 1 / 2) (c + 1) Hx ltac:(lra)) as H3.
  set (y0 := ylos x (c - 1)) in *. set (y1 := ylos x (c - 1 / 2)) in *.
  set (y2 := ylos x (c + 1 / 2)) in *. set (y3 := ylos x (c + 1)) in *.
  apply (is_RInt_Chasles_R _ 0 y2 y3).
  apply (is_RInt_Chasles_R _ 0 y1 y2).
  apply (is_RInt_Chasles_R _ 0 y0 y1).
  - apply is_RInt_const_ext; [lra|]. intros y Hy. apply quad2_out.
    assert (sqrt (x * x + y * y) < c - 1) by (apply hyp_lt_ylos; unfold y0 in *; lra).
    rewrite Rabs_left1 by lra. lra.
  - apply is_RInt_quad_piece; try lra. intros y Hy.
    assert (sqrt (x * x + y * y) < c - 1 / 2) by (apply hyp_lt_ylos; unfold y1 in *; lra).
    assert (Rmax (c - 1) x < sqrt (x * x + y * y)) by (apply hyp_gt_ylos; unfold y0 in *; lra).
    pose proof (Rmax_l (c - 1) x).
    rewrite quad2_wing by (rewrite Rabs_left1 by lra; lra).
    rewrite Rabs_left1 by lra. ring.
  - apply is_RInt_quad_piece; try lra. intros y Hy.
    assert (sqrt (x * x + y * y) < c + 1 / 2) by (apply hyp_lt_ylos; unfold y2 in *; lra).
    assert (Rmax (c - 1 / 2) x < sqrt (x * x + y * y)) by (apply hyp_gt_ylos; unfold y1 in *; lra).
    pose proof (Rmax_l (c - 1 / 2) x).
    rewrite quad2_mid by (apply Rabs_le; lra). ring.
  - apply is_RInt_quad_piece; try lra. intros y Hy.
    assert (sqrt (x * x + y * y) < c + 1) by (apply hyp_lt_ylos; unfold y3 in *; lra).
    assert (Rmax (c + 1 / 2) x < sqrt (x * x + y * y)) by (apply hyp_gt_ylos; unfold y2 in *; lra).
    pose proof (Rmax_l (c + 1 / 2) x).
    rewrite quad2_wing by (rewrite Rabs_pos_eq by lra; lra).
    rewrite Rabs_pos_eq by lra. ring.
Qed.

Lemma Abel_quad2 x c : 0 <= x -> 0 <= c ->
  Abel (quad2 c) (c + 1) x =
    Pt2 (c + 1) (2 * (c + 1) ^ 2) (-4 * (c + 1)) 2 x
  - Pt2 (c + 1 / 2) ((2 * c + 1) ^ 2) (-4 * (2 * c + 1)) 4 x
  + Pt2 (c - 1 / 2) ((2 * c - 1) ^ 2) (-4 * (2 * c - 1)) 4 x
  - Pt2 (c - 1) (2 * (c - 1) ^ 2) (-4 * (c - 1)) 2 x.
Proof.
  intros Hx Hc. unfold Abel. rewrite abel_upper by lra.
  rewrite <- !Pt2_eq by auto.
  rewrite (is_RInt_unique _ _ _ _ (quad2_is_RInt x c Hx Hc)). unfold quad2_RInt_value. cbv zeta. ring.
Qed.

Lemma Pt2_above x Rc a b c : x < Rc ->
  Pt2 Rc a b c x = sqrt (Rc ^ 2 - x ^ 2) * (a * 2 + b * Rc + c * 4 / 3 * (Rc ^ 2 / 2 + x ^ 2))
                   + b * x ^ 2 * ln (sqrt (Rc ^ 2 - x ^ 2) + Rc).
Proof. intros; unfold Pt2. destruct (Rlt_dec x Rc); [reflexivity|lra]. Qed.
Lemma Pt2_below x Rc a b c : Rc <= x -> Pt2 Rc a b c x = b * x ^ 2 * ln x.
Proof. intros; unfold Pt2. destruct (Rlt_dec x Rc); [lra|reflexivity]. Qed.

Ltac pt2_close j :=
  repeat (first [rewrite Pt2_above by lra | rewrite Pt2_below by lra]);
  first [ field
        | (assert (E : IZR j = 0) by lra); rewrite E; field
        | (assert (E : IZR j - 1 = 0) by lra); rewrite E; field ].

Lemma daun2_entry (i j : Z) : (0 <= i)%Z -> (0 <= j)%Z ->
  daun_p2 j i = Abel (quad2 (IZR j)) (IZR j + 1) (IZR i).
Proof.
  intros Hi Hj.
  assert (Hx : 0 <= IZR i) by (apply IZR_le; lia).
  assert (Hc : 0 <= IZR j) by (apply IZR_le; lia).
  rewrite Abel_quad2 by assumption.
  unfold daun_p2.
  destruct (Z_lt_le_dec i (j - 1)) as [A|A]; [|destruct (Z.eq_dec i (j - 1)) as [B|B];
     [|destruct (Z.eq_dec i j) as [C|C]]].
  - (* i <= j-2 *) zconds; z2r; pt2_close j.
  - (* i = j-1 *) subst i. zconds; z2r; pt2_close j.
  - (* i = j *) subst i. zconds; z2r; pt2_close j.
  - (* i >= j+1 *) zconds; z2r; pt2_close j.
Qed.
