(* Proofs for model/AbelPairs.v: the Gaussian family and the scaling law.
   abel_gauss_shape  exact factorisation of the finite-range line integral;
   abel_gauss_scaled the same with the width scaled out;
   G_enclosure       |2 int_0^7 exp(-t^2) dt - sqrt PI| <= 2^-40 (Interval);
   gauss_tail        0 <= int_7^T exp(-t^2) dt <= exp(-49)/7 for T >= 7;
   abel_gauss_oracle the closed form s sqrt(PI) exp(-x^2/s^2) is within
                     2^-39 (relative) of the finite-range line integral
                     whenever the half chord is at least 7 s long;
   abel_scaling      Abel of r |-> f(r/a) on the a-times larger disk is a times
                     Abel f (this is the "absolute scale set by dr" law).
   NOT proved anywhere: int_0^infinity exp(-t^2) dt = sqrt(PI)/2. *)
From Coq Require Import Reals Lra Lia.
From Coquelicot Require Import Coquelicot.
From Interval Require Import Tactic.
From PA Require Import model.AbelPairs.
Open Scope R_scope.

Lemma cont_gauss1 s y : continuous (fun y => exp (- (y^2) / s^2)) y.
Proof. apply (ex_derive_continuous (fun y => exp (- (y^2) / s^2))). auto_derive. exact I. Qed.
Lemma ex_RInt_gauss1 s a b : ex_RInt (fun y => exp (- (y^2) / s^2)) a b.
Proof. apply (ex_RInt_continuous (fun y => exp (- (y^2) / s^2))). intros; apply cont_gauss1. Qed.
Lemma cont_g y : continuous (fun t => exp (- t^2)) y.
Proof. apply (ex_derive_continuous (fun t => exp (- t^2))). auto_derive. exact I. Qed.
Lemma ex_RInt_g a b : ex_RInt (fun t => exp (- t^2)) a b.
Proof. apply (ex_RInt_continuous (fun t => exp (- t^2))). intros; apply cont_g. Qed.

Theorem abel_gauss_shape s Rm x : s <> 0 ->
  Abel (gauss s) Rm x =
  exp (- x^2 / s^2) * (2 * RInt (fun y => exp (- (y^2) / s^2)) 0 (sqrt (Rm*Rm - x*x))).
Proof.
  intros Hs. unfold Abel.
  transitivity (2 * scal (exp (- x^2 / s^2)) (RInt (fun y => exp (- (y^2) / s^2)) 0 (sqrt (Rm*Rm - x*x)))).
  2:{ change (scal ?a ?b) with (a * b). ring. }
  f_equal. rewrite <- (RInt_scal (fun y => exp (- (y^2) / s^2))); [|apply ex_RInt_gauss1].
  apply RInt_ext. intros y _. unfold gauss.
  change (scal ?a ?b) with (a * b). rewrite <- exp_plus. f_equal.
  replace (sqrt (x*x+y*y) ^ 2) with (x*x+y*y).
  2:{ simpl. rewrite Rmult_1_r. rewrite sqrt_sqrt; nra. }
  field. exact Hs.
Qed.

Lemma gauss_rescale s Y : 0 < s ->
  RInt (fun y => exp (- (y^2) / s^2)) 0 Y = s * RInt (fun t => exp (- t^2)) 0 (Y / s).
Proof.
  intros Hs.
  pose proof (RInt_comp_lin (fun t => exp (- t^2)) (/ s) 0 0 Y) as H.
  replace (/ s * 0 + 0) with 0 in H by ring.
  replace (/ s * Y + 0) with (Y / s) in H by (unfold Rdiv; ring).
  rewrite <- H; [|apply ex_RInt_g].
  transitivity (scal s (RInt (fun y => scal (/ s) (exp (- (/ s * y + 0) ^ 2))) 0 Y)); [|reflexivity].
  rewrite <- RInt_scal.
  2:{ apply (ex_RInt_continuous (fun y => scal (/ s) (exp (- (/ s * y + 0) ^ 2)))). intros z _.
      apply (ex_derive_continuous (fun y => (/ s) * (exp (- (/ s * y + 0) ^ 2)))). auto_derive. exact I. }
  apply RInt_ext. intros y _. change (scal ?a ?b) with (a * b).
  rewrite <- Rmult_assoc. rewrite Rinv_r; [|lra]. rewrite Rmult_1_l. f_equal. field. lra.
Qed.

Theorem abel_gauss_scaled s Rm x : 0 < s ->
  Abel (gauss s) Rm x =
  s * exp (- x^2 / s^2) * (2 * RInt (fun t => exp (- t^2)) 0 (sqrt (Rm*Rm - x*x) / s)).
Proof.
  intros Hs. rewrite abel_gauss_shape; [|lra]. rewrite gauss_rescale; [|exact Hs]. ring.
Qed.

Theorem G_enclosure : Rabs (2 * RInt (fun t => exp (- t^2)) 0 7 - sqrt PI) <= / 2^40.
Proof.
  integral with (i_prec 80, i_fuel 2000, i_degree 20).
Qed.

Lemma gauss_tail T : 7 <= T -> 0 <= RInt (fun t => exp (- t^2)) 7 T <= exp (-49) / 7.
Proof.
  intros HT. split.
  - apply (RInt_ge_0 (fun t => exp (- t^2))); [exact HT|apply ex_RInt_g|]. intros; left; apply exp_pos.
  - assert (H : is_RInt (fun t => exp (-7 * t)) 7 T ((- exp (-7 * T) / 7) - (- exp (-7 * 7) / 7))).
    { apply (is_RInt_derive (fun t => - exp (-7 * t) / 7) (fun t => exp (-7 * t))).
      - intros t _. auto_derive; [exact I|]. field.
      - intros t _. apply (ex_derive_continuous (fun t => exp (-7 * t))). auto_derive. exact I. }
    apply Rle_trans with (RInt (fun t => exp (-7 * t)) 7 T).
    + apply (RInt_le (fun t => exp (- t^2)) (fun t => exp (-7 * t))); [exact HT|apply ex_RInt_g|exists ((- exp (-7 * T) / 7) - (- exp (-7 * 7) / 7)); exact H|].
      intros t Ht. destruct (Rle_lt_or_eq_dec _ _ (Rlt_le _ _ (proj1 Ht))) as [_|_];
      (apply Raux.exp_le || idtac); nra.
    + rewrite (is_RInt_unique _ _ _ _ H). replace (-7 * 7) with (-49) by ring.
      pose proof (exp_pos (-7 * T)). lra.
Qed.

Theorem G_enclosure_beyond Z : 7 <= Z ->
  Rabs (2 * RInt (fun t => exp (- t^2)) 0 Z - sqrt PI) <= / 2^39.
Proof.
  intros HZ.
  rewrite <- (RInt_Chasles (fun t => exp (- t^2)) 0 7 Z); [|apply ex_RInt_g|apply ex_RInt_g].
  change (plus ?a ?b) with (a + b).
  pose proof (gauss_tail Z HZ) as [T0 T1]. pose proof G_enclosure as G.
  assert (E : exp (-49) / 7 <= / 2^41) by interval.
  apply Rabs_le_between. apply Rabs_le_between in G.
  replace (/ 2^39) with (/ 2^40 + 2 * / 2^41) by field. lra.
Qed.

Theorem abel_gauss_oracle s Rm x : 0 < s -> 7 * s <= sqrt (Rm*Rm - x*x) ->
  Rabs (Abel (gauss s) Rm x - s * sqrt PI * exp (- x^2 / s^2)) <= s * exp (- x^2 / s^2) / 2^39.
Proof.
  intros Hs HY. rewrite abel_gauss_scaled; [|exact Hs].
  set (Z := sqrt (Rm*Rm - x*x) / s).
  assert (HZ : 7 <= Z). { unfold Z. apply Rmult_le_reg_r with s; [exact Hs|]. unfold Rdiv. rewrite Rmult_assoc, Rinv_l; lra. }
  pose proof (G_enclosure_beyond Z HZ) as G.
  set (I := 2 * RInt (fun t => exp (- t^2)) 0 Z) in *.
  replace (s * exp (- x ^ 2 / s ^ 2) * I - s * sqrt PI * exp (- x ^ 2 / s ^ 2))
    with ((s * exp (- x ^ 2 / s ^ 2)) * (I - sqrt PI)) by ring.
  rewrite Rabs_mult. rewrite (Rabs_pos_eq (s * exp _)).
  2:{ apply Rmult_le_pos; [lra|left; apply exp_pos]. }
  unfold Rdiv. apply Rmult_le_compat_l; [|exact G].
  apply Rmult_le_pos; [lra|left; apply exp_pos].
Qed.

(* scaling: sampling a profile a times wider multiplies the projection by a *)
Theorem abel_scaling (f : R -> R) a Rm x : 0 < a ->
  ex_RInt (fun y => f (sqrt (x*x + y*y))) 0 (sqrt (Rm*Rm - x*x)) ->
  Abel (fun r => f (r / a)) (a * Rm) (a * x) = a * Abel f Rm x.
Proof.
  intros Ha Hex. unfold Abel.
  set (Y := sqrt (Rm*Rm - x*x)) in *.
  assert (HY : sqrt (a * Rm * (a * Rm) - a * x * (a * x)) = a * Y).
  { replace (a * Rm * (a * Rm) - a * x * (a * x)) with ((a*a) * (Rm*Rm - x*x)) by ring.
    rewrite sqrt_mult_alt; [|nra]. rewrite sqrt_square; [reflexivity|lra]. }
  rewrite HY.
  pose proof (RInt_comp_lin (fun y => f (sqrt (a*x*(a*x) + y*y) / a)) a 0 0 Y) as H.
  replace (a * 0 + 0) with 0 in H by ring. replace (a * Y + 0) with (a * Y) in H by ring.
  assert (E : forall y, sqrt (a*x*(a*x) + (a*y+0)*(a*y+0)) / a = sqrt (x*x + y*y)).
  { intros y. replace (a*x*(a*x) + (a*y+0)*(a*y+0)) with ((a*a) * (x*x + y*y)) by ring.
    rewrite sqrt_mult_alt; [|nra]. rewrite sqrt_square; [|lra]. field. lra. }
  rewrite <- H.
  - transitivity (2 * scal a (RInt (fun y => f (sqrt (x*x + y*y))) 0 Y)).
    2:{ change (scal ?u ?v) with (u * v). ring. }
    f_equal. rewrite <- RInt_scal; [|exact Hex].
    apply RInt_ext. intros y _. rewrite E. reflexivity.
  - pose proof (ex_RInt_comp_lin (fun y => f (sqrt (x*x + y*y))) (/ a) 0 0 (a*Y)) as H2.
    replace (/ a * 0 + 0) with 0 in H2 by ring.
    replace (/ a * (a * Y) + 0) with Y in H2 by (field; lra).
    specialize (H2 Hex).
    apply (ex_RInt_scal _ 0 (a*Y) a) in H2.
    eapply ex_RInt_ext; [|exact H2]. intros y _. cbv beta.
    change (scal ?u ?v) with (u * v).
    rewrite <- Rmult_assoc, Rinv_r, Rmult_1_l; [|lra]. f_equal.
    replace (a*x*(a*x) + y*y) with ((a*a) * (x*x + (/ a * y + 0)*(/ a * y + 0))) by (field; lra).
    rewrite sqrt_mult_alt; [|nra]. rewrite sqrt_square; [|lra]. field. lra.
Qed.

Lemma ex_RInt_gauss_chord s x Rm :
  ex_RInt (fun y => gauss s (sqrt (x*x + y*y))) 0 (sqrt (Rm*Rm - x*x)).
Proof.
  apply ex_RInt_ext with (fun y => exp (- (x*x + y*y) / s^2)).
  { intros y _. unfold gauss. f_equal. f_equal. f_equal.
    simpl. rewrite Rmult_1_r. rewrite sqrt_sqrt; nra. }
  apply (ex_RInt_continuous (fun y => exp (- (x*x + y*y) / s^2))). intros z _.
  apply (ex_derive_continuous (fun y => exp (- (x*x + y*y) / s^2))). auto_derive. exact I.
Qed.
