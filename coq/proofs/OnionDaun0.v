(* OnionDaun0.v — the onion-peeling weight matrix is the transpose of the
   degree-0 daun basis, entry by entry (hand transcription of the two closed
   forms; the tie of these formulas to the source is numeric in
   tools/props/C17.py and symbolic in property C09):

     abel/dasch.py:273-280   W[i,i] = sqrt((2i+1)^2 - 4i^2)
                             W[i,j] = sqrt((2j+1)^2 - 4i^2) - sqrt((2j-1)^2 - 4i^2)   (j > i)
     abel/daun.py:334-340    p(j)[i] = 2*(sqrt((j+1/2)^2 - i^2) - [j>0, i<j] sqrt((j-1/2)^2 - i^2))   (i <= j)
                             B[j,i] = p(j)[i]                                                            *)
From Coq Require Import Reals Lra Arith Lia.
Open Scope R_scope.

Definition onion_W (i j : nat) : R :=
  if Nat.eqb i j then sqrt ((2 * INR j + 1) ^ 2 - 4 * INR i ^ 2)
  else if Nat.ltb i j then sqrt ((2 * INR j + 1) ^ 2 - 4 * INR i ^ 2) - sqrt ((2 * INR j - 1) ^ 2 - 4 * INR i ^ 2)
  else 0.

Definition daun0_B (j i : nat) : R :=
  if Nat.leb i j then
    2 * (sqrt ((INR j + 1 / 2) ^ 2 - INR i ^ 2)
         - (if (Nat.ltb 0 j && Nat.ltb i j)%bool then sqrt ((INR j - 1 / 2) ^ 2 - INR i ^ 2) else 0))
  else 0.

Lemma sqrt_4x x : sqrt (4 * x) = 2 * sqrt x.
Proof.
  destruct (Rle_dec 0 x) as [H|H].
  - rewrite sqrt_mult by lra. replace 4 with (2 * 2) by lra. rewrite sqrt_square by lra. reflexivity.
  - rewrite (sqrt_neg_0 x) by lra. rewrite sqrt_neg_0 by lra. lra.
Qed.

Lemma onion_W_eq_daun0 i j : onion_W i j = daun0_B j i.
Proof.
  unfold onion_W, daun0_B.
  assert (E1 : (2 * INR j + 1) ^ 2 - 4 * INR i ^ 2 = 4 * ((INR j + 1 / 2) ^ 2 - INR i ^ 2)) by (simpl; lra).
  assert (E2 : (2 * INR j - 1) ^ 2 - 4 * INR i ^ 2 = 4 * ((INR j - 1 / 2) ^ 2 - INR i ^ 2)) by (simpl; lra).
  rewrite E1, E2, !sqrt_4x.
  destruct (Nat.eqb_spec i j) as [->|ne].
  - rewrite Nat.leb_refl, Nat.ltb_irrefl, Bool.andb_false_r. lra.
  - destruct (Nat.ltb_spec i j) as [lt|ge].
    + replace (Nat.leb i j) with true by (symmetry; apply Nat.leb_le; lia).
      replace (Nat.ltb 0 j) with true by (symmetry; apply Nat.ltb_lt; lia).
      simpl. lra.
    + replace (Nat.leb i j) with false by (symmetry; apply Nat.leb_gt; lia). reflexivity.
Qed.
