(* DrSitesProofs.v — the generated dr sites (gen/DrSites.v) over the reals:
   (1) the driving functions of the Hansen-Law model ARE the generated
       expressions (so the dr theorems of HansenLawProofs.v are about the
       current source);
   (2) onion_bordas: output = (dr-independent array) / (2 dr);
   (3) direct: every trapezoid term of the forward transform scales with dr,
       of the inverse transform with 1/dr (the kernel 1/sqrt(y^2 - r^2) times
       the spacing is scale invariant). *)
From Coq Require Import List Reals Lra.
From PA Require Import model.HansenLaw gen.DrSites proofs.HansenLawProofs.
Import ListNotations.
Open Scope R_scope.

Definition g_hl_drive_forward := hl_drive_forward R 2 Rmult Ropp.
Definition g_hl_drive_inverse0 := hl_drive_inverse0 R Rminus Rdiv.
Definition g_hl_gradient_spacing := hl_gradient_spacing R.
Definition g_ob_scale := ob_scale R 2 Rmult Rdiv.
Definition g_direct_grid := direct_grid R Rmult.
Definition g_direct_pre_inverse := direct_pre_inverse R 1 Rmult Rdiv Ropp.
Definition g_direct_pre_forward := direct_pre_forward R 2 Rmult.
Definition g_direct_I_sqrt := direct_I_sqrt R Rmult Rminus sqrt.
Definition g_direct_weight := direct_weight R 1 Rmult Rminus Rdiv sqrt.

(* (1) model = generated expressions *)
Lemma hl_forward_tied dr pi im :
  driveR Forward dr pi im = map (g_hl_drive_forward dr pi) im.
Proof. reflexivity. Qed.

Lemma hl_inverse0_tied dr pi a b t :
  driveR Inverse0 dr pi (a :: b :: t) = g_hl_drive_inverse0 dr b a :: driveR Inverse0 dr pi (b :: t).
Proof. reflexivity. Qed.

Lemma hl_inverse0_last dr pi a : driveR Inverse0 dr pi [a] = [0].
Proof. reflexivity. Qed.

(* hold order 1: the model calls the specification of numpy.gradient with the
   spacing the source passes *)
Lemma hl_inverse1_tied dr pi im :
  driveR Inverse1 dr pi im = driveR Inverse1 (g_hl_gradient_spacing dr) pi im.
Proof. reflexivity. Qed.

(* (2) onion_bordas *)
Lemma ob_scale_dr dr y : dr <> 0 -> g_ob_scale dr y = / dr * g_ob_scale 1 y.
Proof. intros H. unfold g_ob_scale, ob_scale. field. assumption. Qed.

(* (3) direct *)
Lemma sqrt_scale c y r : 0 < c -> sqrt ((c * y) * (c * y) - (c * r) * (c * r)) = c * sqrt (y * y - r * r).
Proof.
  intros Hc.
  replace ((c * y) * (c * y) - (c * r) * (c * r)) with ((c * c) * (y * y - r * r)) by ring.
  destruct (Rle_dec 0 (y * y - r * r)) as [H|H].
  - rewrite sqrt_mult by nra. rewrite sqrt_square by lra. reflexivity.
  - rewrite (sqrt_neg_0 (y * y - r * r)) by lra. rewrite sqrt_neg_0 by nra. ring.
Qed.

Lemma direct_I_sqrt_scale c y r : 0 < c ->
  g_direct_I_sqrt (g_direct_grid c y) (g_direct_grid c r) = c * g_direct_I_sqrt y r.
Proof.
  intros Hc. unfold g_direct_I_sqrt, direct_I_sqrt, g_direct_grid, direct_grid.
  replace (y * c) with (c * y) by ring. replace (r * c) with (c * r) by ring. apply sqrt_scale; assumption.
Qed.

(* one trapezoid term of the FORWARD transform at pixel size c = c * the term at pixel size 1
   (i < j pixel indices as reals, so the square root is non-zero) *)
Lemma direct_forward_term_dr c i j v : 0 < c -> 0 <= i < j ->
  g_direct_weight (c * 1) (g_direct_grid c j) (g_direct_grid c i) (g_direct_pre_forward (g_direct_grid c j) v) =
  c * g_direct_weight 1 j i (g_direct_pre_forward j v).
Proof.
  intros Hc Hij. unfold g_direct_weight, direct_weight, direct_I_isqrt.
  fold g_direct_I_sqrt. rewrite direct_I_sqrt_scale by assumption.
  unfold g_direct_pre_forward, direct_pre_forward, g_direct_grid, direct_grid.
  assert (S : g_direct_I_sqrt j i <> 0).
  { unfold g_direct_I_sqrt, direct_I_sqrt. intro E. apply sqrt_eq_0 in E; nra. }
  field. split; [assumption|lra].
Qed.

(* one trapezoid term of the INVERSE transform at pixel size c = (term at pixel size 1) / c *)
Lemma direct_inverse_term_dr c pi i j g : 0 < c -> pi <> 0 -> 0 <= i < j ->
  g_direct_weight (c * 1) (g_direct_grid c j) (g_direct_grid c i) (g_direct_pre_inverse c pi g) =
  / c * g_direct_weight 1 j i (g_direct_pre_inverse 1 pi g).
Proof.
  intros Hc Hpi Hij. unfold g_direct_weight, direct_weight, direct_I_isqrt.
  fold g_direct_I_sqrt. rewrite direct_I_sqrt_scale by assumption.
  unfold g_direct_pre_inverse, direct_pre_inverse.
  assert (S : g_direct_I_sqrt j i <> 0).
  { unfold g_direct_I_sqrt, direct_I_sqrt. intro E. apply sqrt_eq_0 in E; nra. }
  field. repeat split; try assumption; lra.
Qed.

(* ------------------------------------------------------------------------ *)
(* (4) the recursion of the model IS the loop of hansenlaw.py                  *)
(*     (generated: the element-wise state update and the order of columns)     *)
(* ------------------------------------------------------------------------ *)
From Coq Require Import Arith Lia.

Definition g_hl_step_elem := hl_step_elem R Rplus Rmult.

(* state update: every state k of every row is updated by the generated expression *)
Lemma hl_step_is_source p ph c0 b0 c1 b1 xk x d1 d0 :
  stepR (p :: ph) (c0 :: b0) (c1 :: b1) (xk :: x) d1 d0 =
  g_hl_step_elem p c0 c1 xk d1 d0 :: stepR ph b0 b1 x d1 d0.
Proof. reflexivity. Qed.

(* one loop iteration of the model: new state from columns col+1 and col of the
   driving row, output = sum of the states, next iteration at col-1 *)
Lemma hl_run_is_source t ts col d x :
  runR (t :: ts) col d x =
  let x' := stepR (c_phi R t) (c_B0 R t) (c_B1 R t) x (nth (S col) d 0) (nth col d 0) in
  sumR x' :: runR ts (pred col) d x'.
Proof. reflexivity. Qed.

(* columns visited by the model when started as in hl_core: cols-2 iterations from cols-2 downwards *)
Fixpoint visited (k col : nat) : list nat :=
  match k with O => [] | S k' => col :: visited k' (pred col) end.

Lemma hl_cols_visited k : map (fun m => (m - 1)%nat) (rev (seq 2 k)) = visited k k.
Proof.
  induction k as [|k IH]; [reflexivity|].
  rewrite seq_S, rev_app_distr. simpl rev. simpl app. simpl map.
  simpl visited. f_equal; try lia. exact IH.
Qed.

(* ... which is the order `for indx, col in enumerate(n - 1)` with n = arange(cols-1, 1, -1) of the source *)
Lemma hl_columns_are_source cols : hl_cols cols = visited (cols - 2) (cols - 2).
Proof. unfold hl_cols. apply hl_cols_visited. Qed.

(* the model's output row: aim[0] = aim[1], aim[1..cols-2] = the loop outputs in increasing column order,
   aim[-1] = aim[-2] *)
Lemma hl_core_is_source K tabs d :
  hl_coreR K tabs d =
  let outs := rev (runR tabs (length d - 2) d (repeat 0 K)) in hd 0 outs :: outs ++ [last outs 0].
Proof. reflexivity. Qed.
