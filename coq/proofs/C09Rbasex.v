(* proofs/C09Rbasex.v — rbasex: the generated radial projections rbasex_p<n>
   (abel/rbasex.py: F_n antiderivatives, rFRF, second-difference stencil) equal
   2 int tri_R(rho) (r/rho)^n dy for every order n = 0..8. *)
From Coq Require Import Reals ZArith Bool Lra Lia Psatz.
From Coquelicot Require Import Coquelicot.
From PA Require Import model.Abel proofs.AbelLemmas proofs.C09Daun gen.FormulasBasis.
Open Scope R_scope.

Definition rho_ (r z : R) : R := sqrt (r * r + z * z).
Definition fr_ (r z : R) : R := r / sqrt (r * r + z * z).

Lemma rho_pos r z : 0 < r -> 0 < rho_ r z.
Proof. apply hyp_pos. Qed.

(* ---- generic: from antiderivatives of f^n and rho/r f^n to the stencil ---- *)
Section Generic.
  Variable n : nat.
  Variable r : R.
  Variables Fn Fm : R -> R.
  Hypothesis Hr : 0 < r.
  Hypothesis dFn : forall z, is_derive Fn z (fr_ r z ^ n).
  Hypothesis dFm : forall z, is_derive Fm z (rho_ r z / r * fr_ r z ^ n).

  Lemma fr_pow_continuous z : continuous (fun z => fr_ r z ^ n) z.
  Proof.
    apply (ex_derive_continuous (fun z => fr_ r z ^ n)).
    unfold fr_. pose proof (hyp_pos r z Hr). pose proof (hyp_sq r z).
    assert (0 < r * r + z * z) by (rewrite <- H0; apply Rmult_lt_0_compat; auto).
    auto_derive. repeat split; auto. lra.
  Qed.

  Lemma rhofr_continuous z : continuous (fun z => rho_ r z / r * fr_ r z ^ n) z.
  Proof.
    apply (ex_derive_continuous (fun z => rho_ r z / r * fr_ r z ^ n)).
    unfold fr_, rho_. pose proof (hyp_pos r z Hr). pose proof (hyp_sq r z).
    assert (0 < r * r + z * z) by (rewrite <- H0; apply Rmult_lt_0_compat; auto).
    auto_derive. repeat split; auto; lra.
  Qed.

  Lemma is_RInt_w_piece (g : R -> R) a b al be : a <= b ->
    (forall y, a < y < b -> g y = fr_ r y ^ n * (al + be * sqrt (r * r + y * y))) ->
    is_RInt g a b (al * (Fn b - Fn a) + be * r * (Fm b - Fm a)).
  Proof.
    intros Hab H.
    apply (is_RInt_ext (fun y => al * (fr_ r y ^ n) + (be * r) * (rho_ r y / r * fr_ r y ^ n))).
    - intros y Hy. rewrite Rmin_left, Rmax_right in Hy by lra. rewrite H by auto.
      assert (E : forall f s : R, al * f + be * r * (s / r * f) = f * (al + be * s)) by (intros; field; lra).
      unfold rho_. apply E.
    - apply (is_RInt_plus (fun y => al * (fr_ r y ^ n)) (fun y => (be * r) * (rho_ r y / r * fr_ r y ^ n))).
      + apply (is_RInt_scal (fun y => fr_ r y ^ n) a b al).
        apply (is_RInt_derive Fn (fun y => fr_ r y ^ n)).
        * intros y _. apply dFn.
        * intros y _. apply fr_pow_continuous.
      + apply (is_RInt_scal (fun y => rho_ r y / r * fr_ r y ^ n) a b (be * r)).
        apply (is_RInt_derive Fm (fun y => rho_ r y / r * fr_ r y ^ n)).
        * intros y _. apply dFm.
        * intros y _. apply rhofr_continuous.
  Qed.

  Definition rF (Rc : R) : R := r * Fm (ylos r Rc) - Rc * Fn (ylos r Rc).

  Lemma generic_entry c : 0 <= c ->
    AbelW (fun x rho => (x / rho) ^ n) (tri c) (c + 1) r = 2 * (2 * rF c - rF (c + 1) - rF (c - 1)).
  Proof.
    intros Hc. unfold AbelW. rewrite abel_upper by lra.
    assert (Hx : 0 <= r) by lra.
    pose proof (ylos_nonneg r (c - 1)) as H0.
    pose proof (ylos_mono r (c - 1) c Hx ltac:(lra)) as H1.
    pose proof (ylos_mono r c (c + 1) Hx ltac:(lra)) as H2.
    assert (HI : is_RInt (fun y => (r / sqrt (r * r + y * y)) ^ n * tri c (sqrt (r * r + y * y))) 0 (ylos r (c + 1))
       (((0 * (Fn (ylos r (c - 1)) - Fn 0) + 0 * r * (Fm (ylos r (c - 1)) - Fm 0))
         + ((1 - c) * (Fn (ylos r c) - Fn (ylos r (c - 1))) + 1 * r * (Fm (ylos r c) - Fm (ylos r (c - 1)))))
        + ((1 + c) * (Fn (ylos r (c + 1)) - Fn (ylos r c)) + (-1) * r * (Fm (ylos r (c + 1)) - Fm (ylos r c))))).
    { apply (is_RInt_Chasles_R _ 0 (ylos r c) (ylos r (c + 1))).
      apply (is_RInt_Chasles_R _ 0 (ylos r (c - 1)) (ylos r c)).
      - apply is_RInt_w_piece; [lra|]. intros y Hy. unfold fr_.
        rewrite tri_below; [ring|].
        assert (sqrt (r * r + y * y) < c - 1) by (apply hyp_lt_ylos; lra). lra.
      - apply is_RInt_w_piece; [lra|]. intros y Hy. unfold fr_.
        rewrite tri_rise; [ring|].
        assert (sqrt (r * r + y * y) < c) by (apply hyp_lt_ylos; lra).
        assert (Rmax (c - 1) r < sqrt (r * r + y * y)) by (apply hyp_gt_ylos; lra).
        pose proof (Rmax_l (c - 1) r). lra.
      - apply is_RInt_w_piece; [lra|]. intros y Hy. unfold fr_.
        rewrite tri_fall; [ring|].
        assert (sqrt (r * r + y * y) < c + 1) by (apply hyp_lt_ylos; lra).
        assert (Rmax c r < sqrt (r * r + y * y)) by (apply hyp_gt_ylos; lra).
        pose proof (Rmax_l c r). lra. }
    rewrite (is_RInt_unique _ _ _ _ HI). unfold rF. ring.
  Qed.
End Generic.

(* ---- the antiderivatives as functions of the line-of-sight coordinate z ---- *)
Definition Fzm1 (r z : R) : R := (z * sqrt (r * r + z * z) / r + r * ln (z + sqrt (r * r + z * z))) / 2.
Definition Fz0 (r z : R) : R := z.
Definition Fz1 (r z : R) : R := r * ln (z + sqrt (r * r + z * z)).
Definition Fz2 (r z : R) : R := r * atan (z / r).
Definition Fz3 (r z : R) : R := z * (r / sqrt (r * r + z * z)).
(* recursion step of the code: F[k+2] = (z f^k + (k-1) F[k]) / k *)
Definition Fstep (k : nat) (F : R -> R -> R) (r z : R) : R :=
  (z * (r / sqrt (r * r + z * z)) ^ k + (INR k - 1) * F r z) / INR k.
Definition Fz4 := Fstep 2 Fz2.
Definition Fz5 := Fstep 3 Fz3.
Definition Fz6 := Fstep 4 Fz4.
Definition Fz7 := Fstep 5 Fz5.
Definition Fz8 := Fstep 6 Fz6.

Section Derivs.
  Variable r : R.
  Hypothesis Hr : 0 < r.

  Ltac prep z :=
    pose proof (hyp_pos r z Hr) as Hs; pose proof (y_plus_hyp_pos r z Hr) as Hp;
    pose proof (hyp_sq r z) as Hq;
    assert (Hsq : 0 < r * r + z * z) by (rewrite <- Hq; apply Rmult_lt_0_compat; auto).

  Lemma dFzm1 z : is_derive (Fzm1 r) z (rho_ r z / r * fr_ r z ^ 0).
  Proof.
    unfold Fzm1, rho_, fr_. prep z.
    auto_derive.
    - repeat split; auto; lra.
    - set (s := sqrt (r * r + z * z)) in *.
      simpl pow. field_simplify_eq; [ring [Hq] | repeat split; lra].
  Qed.

  Lemma dFz0 z : is_derive (Fz0 r) z (fr_ r z ^ 0).
  Proof. unfold Fz0. simpl pow. auto_derive; auto. Qed.

  Lemma dFz1 z : is_derive (Fz1 r) z (fr_ r z ^ 1).
  Proof.
    unfold Fz1, fr_. prep z.
    auto_derive.
    - repeat split; auto.
    - set (s := sqrt (r * r + z * z)) in *. field. lra.
  Qed.

  Lemma dFz2 z : is_derive (Fz2 r) z (fr_ r z ^ 2).
  Proof.
    unfold Fz2, fr_. prep z.
    auto_derive.
    - lra.
    - set (s := sqrt (r * r + z * z)) in *.
      simpl pow. field_simplify_eq; [ring [Hq] | repeat split; nra].
  Qed.

  Lemma dFz3 z : is_derive (Fz3 r) z (fr_ r z ^ 3).
  Proof.
    unfold Fz3, fr_. prep z.
    auto_derive.
    - repeat split; auto; lra.
    - set (s := sqrt (r * r + z * z)) in *.
      simpl pow. field_simplify_eq; [ring [Hq] | repeat split; lra].
  Qed.
End Derivs.

Lemma dFstep (m : nat) (F : R -> R -> R) r : 0 < r ->
  (forall z, is_derive (F r) z (fr_ r z ^ S m)) ->
  forall z, is_derive (Fstep (S m) F r) z (fr_ r z ^ (2 + S m)).
Proof.
  intros Hr HF z. unfold Fstep, fr_ in *.
  pose proof (hyp_pos r z Hr) as Hs. pose proof (hyp_sq r z) as Hq.
  assert (Hsq : 0 < r * r + z * z) by (rewrite <- Hq; apply Rmult_lt_0_compat; auto).
  assert (Hk : 0 < INR (S m)) by (apply lt_0_INR; lia).
  auto_derive.
  - repeat split; auto; try lra. exists (fr_ r z ^ S m). apply HF.
  - change (match m with 0%nat => 1 | S _ => INR m + 1 end) with (INR (S m)).
    match goal with |- context [Derive ?g z] => rewrite (is_derive_unique g z _ (HF z)) end.
    simpl pow. unfold Rdiv.
    set (s := sqrt (r * r + z * z)) in *. set (K := INR (S m)) in *.
    set (A := (r * / s) ^ m).
    field_simplify_eq; [ring [Hq] | repeat split; lra].
Qed.

Section Derivs2.
  Variable r : R.
  Hypothesis Hr : 0 < r.
  Lemma dFz4 z : is_derive (Fz4 r) z (fr_ r z ^ 4). Proof. exact (dFstep 1 Fz2 r Hr (dFz2 r Hr) z). Qed.
  Lemma dFz5 z : is_derive (Fz5 r) z (fr_ r z ^ 5). Proof. exact (dFstep 2 Fz3 r Hr (dFz3 r Hr) z). Qed.
  Lemma dFz6 z : is_derive (Fz6 r) z (fr_ r z ^ 6). Proof. exact (dFstep 3 Fz4 r Hr dFz4 z). Qed.
  Lemma dFz7 z : is_derive (Fz7 r) z (fr_ r z ^ 7). Proof. exact (dFstep 4 Fz5 r Hr dFz5 z). Qed.
  Lemma dFz8 z : is_derive (Fz8 r) z (fr_ r z ^ 8). Proof. exact (dFstep 5 Fz6 r Hr dFz6 z). Qed.

  Lemma rho_fr z n : rho_ r z / r * fr_ r z ^ S n = fr_ r z ^ n.
  Proof.
    unfold rho_, fr_. pose proof (hyp_pos r z Hr). simpl pow. field. lra.
  Qed.

  (* an antiderivative of f^n is an antiderivative of rho/r f^(n+1) *)
  Lemma as_Fm (F : R -> R) n : (forall z, is_derive F z (fr_ r z ^ n)) ->
    forall z, is_derive F z (rho_ r z / r * fr_ r z ^ S n).
  Proof. intros H z. rewrite rho_fr. apply H. Qed.
End Derivs2.

(* ---- the generated formulas are these antiderivatives at z = sqrt(rho^2-r^2) ---- *)
Section Corr.
  Variables r rho : R.
  Hypothesis Hr : 0 < r.
  Hypothesis Hrho : r <= rho.
  Let z := sqrt (rho ^ 2 - r ^ 2).

  Lemma hz : sqrt (r * r + z * z) = rho.
  Proof.
    unfold z. rewrite sqrt_sqrt by nra.
    replace (r * r + (rho ^ 2 - r ^ 2)) with (rho * rho) by ring. apply sqrt_square; lra.
  Qed.

  Lemma Fm1_corr : rbasex_Fm1 r rho = Fzm1 r z.
  Proof. unfold rbasex_Fm1, Fzm1. rewrite hz. fold z. field. lra. Qed.
  Lemma F0_corr : rbasex_F0 r rho = Fz0 r z.
  Proof. reflexivity. Qed.
  Lemma F1_corr : rbasex_F1 r rho = Fz1 r z.
  Proof. unfold rbasex_F1, Fz1. rewrite hz. reflexivity. Qed.

  Lemma acos_corr : acos (r / rho) = atan (z / r).
  Proof.
    assert (Hx : 0 < r / rho) by (apply Rdiv_lt_0_compat; lra).
    rewrite acos_atan by assumption. f_equal.
    assert (E : 1 - (r / rho)² = (rho ^ 2 - r ^ 2) / (rho * rho)) by (unfold Rsqr; field; lra).
    rewrite E. rewrite sqrt_div_alt by nra. rewrite sqrt_square by lra. fold z. field. lra.
  Qed.

  Lemma F2_corr : rbasex_F2 r rho = Fz2 r z.
  Proof. unfold rbasex_F2, Fz2. rewrite acos_corr. reflexivity. Qed.
  Lemma F3_corr : rbasex_F3 r rho = Fz3 r z.
  Proof. unfold rbasex_F3, Fz3. rewrite hz. reflexivity. Qed.

  Ltac step_corr Fprev :=
    unfold Fstep; rewrite Fprev; rewrite hz; fold z; simpl INR; simpl pow; field.

  Lemma F4_corr : rbasex_F4 r rho = Fz4 r z.
  Proof. unfold rbasex_F4, Fz4. step_corr F2_corr. lra. Qed.
  Lemma F5_corr : rbasex_F5 r rho = Fz5 r z.
  Proof. unfold rbasex_F5, Fz5. step_corr F3_corr. lra. Qed.
  Lemma F6_corr : rbasex_F6 r rho = Fz6 r z.
  Proof. unfold rbasex_F6, Fz6. step_corr F4_corr. lra. Qed.
  Lemma F7_corr : rbasex_F7 r rho = Fz7 r z.
  Proof. unfold rbasex_F7, Fz7. step_corr F5_corr. lra. Qed.
  Lemma F8_corr : rbasex_F8 r rho = Fz8 r z.
  Proof. unfold rbasex_F8, Fz8. step_corr F6_corr. lra. Qed.
End Corr.

Lemma dFz0u r : 0 < r -> forall z, is_derive (Fz0 r) z (fr_ r z ^ 0).
Proof. intros _; apply dFz0. Qed.
Lemma F0_corru r rho : 0 < r -> r <= rho -> rbasex_F0 r rho = Fz0 r (sqrt (rho ^ 2 - r ^ 2)).
Proof. intros _ _; apply F0_corr. Qed.

Lemma sqrt_self r : sqrt (r ^ 2 - r ^ 2) = 0.
Proof. replace (r ^ 2 - r ^ 2) with 0 by ring. apply sqrt_0. Qed.

(* common script: the generated entry is the stencil of rF, which generic_entry
   identifies with the weighted line-of-sight integral *)
Ltac rb_entry Hr HRc n Fn Fm dFn dFm cFn cFm :=
  match goal with |- _ = rbasex_proj _ (IZR ?Rc) (IZR ?r) =>
    assert (Hr' : 0 < IZR r) by (apply IZR_lt; lia);
    assert (HRc' : 0 <= IZR Rc) by (apply IZR_le; lia);
    unfold rbasex_proj;
    rewrite (generic_entry n (IZR r) (Fn (IZR r)) (Fm (IZR r)) Hr' (dFn (IZR r) Hr') (dFm (IZR r) Hr') (IZR Rc) HRc');
    unfold rF
  end.

Ltac rb_close cFn cFm Hr' :=
  zconds; z2r;
  rewrite ?(cFn _ _ Hr'), ?(cFm _ _ Hr') by lra;
  rewrite ?sqrt_self;
  repeat match goal with
  | |- context [ylos ?x ?Rc] => first [ rewrite (ylos_pow x Rc) by lra | rewrite (ylos_below x Rc) by lra ]
  end;
  ring.

Lemma rbasex0_entry (Rc r : Z) : (1 <= r)%Z -> (r <= Rc)%Z ->
  rbasex_p0 Rc r = rbasex_proj 0 (IZR Rc) (IZR r).
Proof.
  intros Hr HRc.
  rb_entry Hr HRc 0%nat Fz0 Fzm1 dFz0u dFzm1 F0_corru Fm1_corr.
  unfold rbasex_p0, rbasex_stencil, rbasex_rFRF0_ge, rbasex_rFRF0_lt.
  rb_close F0_corru Fm1_corr Hr'.
Qed.

Lemma dFm_1 r (Hr : 0 < r) z : is_derive (Fz0 r) z (rho_ r z / r * fr_ r z ^ 1).
Proof. exact (as_Fm r Hr (Fz0 r) 0 (dFz0 r) z). Qed.
Lemma dFm_2 r (Hr : 0 < r) z : is_derive (Fz1 r) z (rho_ r z / r * fr_ r z ^ 2).
Proof. exact (as_Fm r Hr (Fz1 r) 1 (dFz1 r Hr) z). Qed.
Lemma dFm_3 r (Hr : 0 < r) z : is_derive (Fz2 r) z (rho_ r z / r * fr_ r z ^ 3).
Proof. exact (as_Fm r Hr (Fz2 r) 2 (dFz2 r Hr) z). Qed.
Lemma dFm_4 r (Hr : 0 < r) z : is_derive (Fz3 r) z (rho_ r z / r * fr_ r z ^ 4).
Proof. exact (as_Fm r Hr (Fz3 r) 3 (dFz3 r Hr) z). Qed.
Lemma dFm_5 r (Hr : 0 < r) z : is_derive (Fz4 r) z (rho_ r z / r * fr_ r z ^ 5).
Proof. exact (as_Fm r Hr (Fz4 r) 4 (dFz4 r Hr) z). Qed.
Lemma dFm_6 r (Hr : 0 < r) z : is_derive (Fz5 r) z (rho_ r z / r * fr_ r z ^ 6).
Proof. exact (as_Fm r Hr (Fz5 r) 5 (dFz5 r Hr) z). Qed.
Lemma dFm_7 r (Hr : 0 < r) z : is_derive (Fz6 r) z (rho_ r z / r * fr_ r z ^ 7).
Proof. exact (as_Fm r Hr (Fz6 r) 6 (dFz6 r Hr) z). Qed.
Lemma dFm_8 r (Hr : 0 < r) z : is_derive (Fz7 r) z (rho_ r z / r * fr_ r z ^ 8).
Proof. exact (as_Fm r Hr (Fz7 r) 7 (dFz7 r Hr) z). Qed.
Lemma rbasex1_entry (Rc r : Z) : (1 <= r)%Z -> (r <= Rc)%Z ->
  rbasex_p1 Rc r = rbasex_proj 1 (IZR Rc) (IZR r).
Proof.
  intros Hr HRc.
  rb_entry Hr HRc 1%nat Fz1 Fz0 dFz1 dFm_1 F1_corr F0_corru.
  unfold rbasex_p1, rbasex_stencil, rbasex_rFRF1_ge, rbasex_rFRF1_lt.
  rb_close F1_corr F0_corru Hr'.
Qed.
Lemma rbasex2_entry (Rc r : Z) : (1 <= r)%Z -> (r <= Rc)%Z ->
  rbasex_p2 Rc r = rbasex_proj 2 (IZR Rc) (IZR r).
Proof.
  intros Hr HRc.
  rb_entry Hr HRc 2%nat Fz2 Fz1 dFz2 dFm_2 F2_corr F1_corr.
  unfold rbasex_p2, rbasex_stencil, rbasex_rFRF2_ge, rbasex_rFRF2_lt.
  rb_close F2_corr F1_corr Hr'.
Qed.
Lemma rbasex3_entry (Rc r : Z) : (1 <= r)%Z -> (r <= Rc)%Z ->
  rbasex_p3 Rc r = rbasex_proj 3 (IZR Rc) (IZR r).
Proof.
  intros Hr HRc.
  rb_entry Hr HRc 3%nat Fz3 Fz2 dFz3 dFm_3 F3_corr F2_corr.
  unfold rbasex_p3, rbasex_stencil, rbasex_rFRF3_ge, rbasex_rFRF3_lt.
  rb_close F3_corr F2_corr Hr'.
Qed.
Lemma rbasex4_entry (Rc r : Z) : (1 <= r)%Z -> (r <= Rc)%Z ->
  rbasex_p4 Rc r = rbasex_proj 4 (IZR Rc) (IZR r).
Proof.
  intros Hr HRc.
  rb_entry Hr HRc 4%nat Fz4 Fz3 dFz4 dFm_4 F4_corr F3_corr.
  unfold rbasex_p4, rbasex_stencil, rbasex_rFRF4_ge, rbasex_rFRF4_lt.
  rb_close F4_corr F3_corr Hr'.
Qed.
Lemma rbasex5_entry (Rc r : Z) : (1 <= r)%Z -> (r <= Rc)%Z ->
  rbasex_p5 Rc r = rbasex_proj 5 (IZR Rc) (IZR r).
Proof.
  intros Hr HRc.
  rb_entry Hr HRc 5%nat Fz5 Fz4 dFz5 dFm_5 F5_corr F4_corr.
  unfold rbasex_p5, rbasex_stencil, rbasex_rFRF5_ge, rbasex_rFRF5_lt.
  rb_close F5_corr F4_corr Hr'.
Qed.
Lemma rbasex6_entry (Rc r : Z) : (1 <= r)%Z -> (r <= Rc)%Z ->
  rbasex_p6 Rc r = rbasex_proj 6 (IZR Rc) (IZR r).
Proof.
  intros Hr HRc.
  rb_entry Hr HRc 6%nat Fz6 Fz5 dFz6 dFm_6 F6_corr F5_corr.
  unfold rbasex_p6, rbasex_stencil, rbasex_rFRF6_ge, rbasex_rFRF6_lt.
  rb_close F6_corr F5_corr Hr'.
Qed.
Lemma rbasex7_entry (Rc r : Z) : (1 <= r)%Z -> (r <= Rc)%Z ->
  rbasex_p7 Rc r = rbasex_proj 7 (IZR Rc) (IZR r).
Proof.
  intros Hr HRc.
  rb_entry Hr HRc 7%nat Fz7 Fz6 dFz7 dFm_7 F7_corr F6_corr.
  unfold rbasex_p7, rbasex_stencil, rbasex_rFRF7_ge, rbasex_rFRF7_lt.
  rb_close F7_corr F6_corr Hr'.
Qed.
Lemma rbasex8_entry (Rc r : Z) : (1 <= r)%Z -> (r <= Rc)%Z ->
  rbasex_p8 Rc r = rbasex_proj 8 (IZR Rc) (IZR r).
Proof.
  intros Hr HRc.
  rb_entry Hr HRc 8%nat Fz8 Fz7 dFz8 dFm_8 F8_corr F7_corr.
  unfold rbasex_p8, rbasex_stencil, rbasex_rFRF8_ge, rbasex_rFRF8_lt.
  rb_close F8_corr F7_corr Hr'.
Qed.

Lemma rbasex_all_entry (Rc r : Z) : (1 <= r)%Z -> (r <= Rc)%Z ->
  rbasex_p0 Rc r = rbasex_proj 0 (IZR Rc) (IZR r) /\
  rbasex_p1 Rc r = rbasex_proj 1 (IZR Rc) (IZR r) /\
  rbasex_p2 Rc r = rbasex_proj 2 (IZR Rc) (IZR r) /\
  rbasex_p3 Rc r = rbasex_proj 3 (IZR Rc) (IZR r) /\
  rbasex_p4 Rc r = rbasex_proj 4 (IZR Rc) (IZR r) /\
  rbasex_p5 Rc r = rbasex_proj 5 (IZR Rc) (IZR r) /\
  rbasex_p6 Rc r = rbasex_proj 6 (IZR Rc) (IZR r) /\
  rbasex_p7 Rc r = rbasex_proj 7 (IZR Rc) (IZR r) /\
  rbasex_p8 Rc r = rbasex_proj 8 (IZR Rc) (IZR r).
Proof.
  intros H1 H2. repeat split;
  [ apply rbasex0_entry | apply rbasex1_entry | apply rbasex2_entry | apply rbasex3_entry | apply rbasex4_entry
  | apply rbasex5_entry | apply rbasex6_entry | apply rbasex7_entry | apply rbasex8_entry ]; assumption.
Qed.

(* the recursion step of the code is an antiderivative step, for every order *)
Lemma rbasex_F_step (m : nat) (F : R -> R -> R) r : 0 < r ->
  (forall z, is_derive (F r) z ((r / sqrt (r * r + z * z)) ^ S m)) ->
  forall z, is_derive (fun z => (z * (r / sqrt (r * r + z * z)) ^ S m + (INR (S m) - 1) * F r z) / INR (S m)) z
                      ((r / sqrt (r * r + z * z)) ^ (2 + S m)).
Proof. exact (dFstep m F r). Qed.
