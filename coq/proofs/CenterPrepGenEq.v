(* CenterPrepGenEq.v — the origin preprocessing of set_center regenerated from
   the current source (gen/CenterPrepGen.v, tools/translate/center_prep_src.py)
   is the hand-written prep_axis of model/Center.v; the complement origin_ is
   shape - 1 - origin (what vr_axis / md_axis of the model compute). *)
From Coq Require Import List Arith Bool ZArith QArith Qround.
From PA Require Import base.Arr model.Center gen.CenterPrepGen.

Theorem prep_axis_gen_eq (n order : nat) (o : Q) :
  prep_axis_gen n order o =
  (fst (prep_axis n order o), snd (prep_axis n order o),
   (Z.of_nat n - 1 - fst (prep_axis n order o))%Z).
Proof.
  unfold prep_axis_gen, prep_axis.
  change (inject_Z 0%Z) with 0%Q.
  destruct (Qle_bool 0 o); destruct order; reflexivity.
Qed.
