(* Proofs about model/CacheDaun.v: semantic reading of the symbolic contents,
   the invariant "every cached object's key determines its content", history
   independence for hazard-free histories, and the refutations. *)
From Coq Require Import List Arith Bool Lia.
From PA Require Import base.Npy model.CacheCommon model.CacheDaun.
Import ListNotations.

(* ---- semantic domain: matrices of ideal-entry tags ---------------------- *)
Inductive tag := E (deg i j : nat) | E3 (deg gen i j : nat) | EJunk.
Inductive sem :=
  | SMat (size : nat) (ent : nat -> nat -> tag)
  | SInv (m : sem) | SCrop (n : nat) (m : sem)
  | STikh (rt z : nat) (m : sem)
  | SExc (c : nat).

Definition den_b (b : bcont) : sem :=
  SMat (b_size b)
       (if b_junk b then (fun _ _ => EJunk)
        else if b_deg b <? 3 then E (b_deg b) else E3 (b_deg b) (b_gen b)).

Definition den_t (t : tcont) : sem :=
  match t with
  | TSame b => den_b b
  | TInv b => SInv (den_b b)
  | TTikh rt z b => STikh (regt_code rt) z (den_b b)
  end.

Definition den_m (m : mres) : sem :=
  match m with
  | MB b => den_b b
  | MT (TSame b) n => den_b (crop n b)
  | MT t n => if n <? t_size t then SCrop n (den_t t) else den_t t
  | MR t => den_t t
  end.

Definition den_out (r : res mres) : sem :=
  match r with Ret m => den_m m | Raise e => SExc (exc_code e) end.

(* cropping a degree<=2 basis gives the basis of the smaller size *)
Lemma crop_law : forall n N deg, deg < 3 -> n <= N ->
  den_b (crop n (ideal N deg)) = den_b (ideal n deg).
Proof.
  intros n N deg Hd Hn. unfold crop, ideal, den_b. simpl.
  assert (Hl : (deg <? 3) = true) by (apply Nat.ltb_lt; auto).
  destruct (n <? N) eqn:E1; simpl; rewrite Hl.
  - reflexivity.
  - apply Nat.ltb_ge in E1. assert (n = N) by lia. subst. reflexivity.
Qed.

(* ... a degree-3 basis does not *)
Lemma crop_law3_fails : forall n N, n < N ->
  den_b (crop n (ideal N 3)) <> den_b (ideal n 3).
Proof.
  intros n N H. unfold crop, ideal, den_b. simpl.
  replace (n <? N) with true by (symmetry; apply Nat.ltb_lt; auto). simpl.
  intros Eq. inversion Eq as [Hf].
  assert (Hx : E3 3 N 0 0 = E3 3 n 0 0) by (rewrite Hf; reflexivity).
  inversion Hx. lia.
Qed.

Lemma regt_code_inj : forall a b, regt_code a = regt_code b -> a = b.
Proof. destruct a, b; simpl; intros; try discriminate; reflexivity. Qed.

Lemma b_eqv_parts : forall a b, b_eqv a b = true ->
  b_deg a = b_deg b /\ b_size a = b_size b /\ b_junk a = b_junk b /\
  ((b_deg a <? 3) = true \/ b_gen a = b_gen b) /\ b_junk a = false.
Proof.
  intros a b H. unfold b_eqv in H.
  apply andb_true_iff in H. destruct H as [H HF].
  apply andb_true_iff in H. destruct H as [H HD].
  apply andb_true_iff in H. destruct H as [H HC].
  apply andb_true_iff in H. destruct H as [HA HB].
  apply Nat.eqb_eq in HA. apply Nat.eqb_eq in HB. apply eqb_prop in HC.
  apply negb_true_iff in HF. apply orb_true_iff in HD.
  repeat split; auto. destruct HD as [HD|HD]; [left; auto|right; apply Nat.eqb_eq; auto].
Qed.

Lemma b_eqv_sound : forall a b, b_eqv a b = true -> den_b a = den_b b.
Proof.
  intros a b H. destruct (b_eqv_parts _ _ H) as (H1 & H2 & H3 & H4 & H5).
  unfold den_b. rewrite <- H3, H5, <- H1, H2.
  destruct H4 as [H4|H4]; [rewrite H4; reflexivity|rewrite H4; reflexivity].
Qed.

Lemma t_eqv_sound : forall a b, t_eqv a b = true -> den_t a = den_t b.
Proof.
  intros [x|x|r1 z1 x] [y|y|r2 z2 y]; simpl; intros H; try discriminate.
  - apply b_eqv_sound; auto.
  - f_equal. apply b_eqv_sound; auto.
  - apply andb_true_iff in H. destruct H as [H Hb].
    apply andb_true_iff in H. destruct H as [Hr Hz].
    unfold regt_eqb in Hr. apply Nat.eqb_eq in Hr. apply Nat.eqb_eq in Hz.
    rewrite Hr, Hz. f_equal. apply b_eqv_sound; auto.
Qed.

Lemma b_eqv_size : forall a b, b_eqv a b = true -> b_size a = b_size b.
Proof.
  intros a b H. destruct (b_eqv_parts _ _ H) as (H1 & H2 & _). auto.
Qed.

Lemma t_eqv_size : forall a b, t_eqv a b = true -> t_size a = t_size b.
Proof.
  intros [x|x|r1 z1 x] [y|y|r2 z2 y]; simpl; intros H; try discriminate;
    try (apply b_eqv_size; auto).
  apply andb_true_iff in H. destruct H as [_ Hb]. exact Hb.
Qed.

Lemma den_m_norm : forall m, den_m (norm m) = den_m m.
Proof.
  intros [b|[b|b|rt z b] n|t]; simpl; try reflexivity.
  - destruct (n <? b_size b) eqn:E1; simpl; rewrite ?E1; reflexivity.
  - destruct (n <? b_size b) eqn:E1; simpl; rewrite ?E1; reflexivity.
Qed.

(* the executable test is sound: equal test => same ideal numbers *)
Lemma m_eqv_sound : forall a b, m_eqv a b = true -> den_m a = den_m b.
Proof.
  intros a b H. rewrite <- (den_m_norm a), <- (den_m_norm b).
  unfold m_eqv in H.
  destruct (norm a) as [x|x n|x] eqn:Ea; destruct (norm b) as [y|y m|y] eqn:Eb; try discriminate.
  - simpl. apply b_eqv_sound; auto.
  - apply andb_true_iff in H. destruct H as [H1 H2]. apply Nat.eqb_eq in H1. subst m.
    pose proof (t_eqv_sound _ _ H2) as D. pose proof (t_eqv_size _ _ H2) as S.
    destruct x as [x|x|r1 z1 x]; destruct y as [y|y|r2 z2 y]; simpl in H2; try discriminate; simpl.
    + (* TSame cannot be a normal form of MT *)
      destruct a as [?|[?|?|? ? ?] ?|?]; simpl in Ea; try discriminate;
        try (destruct (n0 <? b_size b0); discriminate).
    + simpl in S, D. rewrite S. rewrite D. reflexivity.
    + simpl in S, D. rewrite S. rewrite D. reflexivity.
  - simpl. apply t_eqv_sound; auto.
Qed.

Lemma out_eqv_sound : forall a b, out_eqv a b = true -> den_out a = den_out b.
Proof.
  intros [x|e1] [y|e2]; simpl; intros H; try discriminate.
  - apply m_eqv_sound; auto.
  - apply Nat.eqb_eq in H. rewrite H. reflexivity.
Qed.

(* ---- the invariant ------------------------------------------------------ *)
Definition good_b (b : bcont) (pn pd : nat) : Prop :=
  b_deg b = pd /\ b_junk b = false /\ pn <= b_size b /\ pd <= 3 /\
  (pd = 3 -> b_size b = pn /\ b_gen b = pn).

Definition good_t (t : tcont) (b : bcont) (p : nat * regt * nat) (pd : nat) : Prop :=
  let '(tn, rt, z) := p in
  (z = 0 /\ t = (if pd =? 3 then TInv b else TSame b)) \/
  (z <> 0 /\ tn <= b_size b /\ t = TTikh rt z (crop tn b)).

Definition honest (d : disk fkey bcont) : Prop :=
  forall di k c, In (di, k, c) d ->
    match c with FGood b => b = ideal (fst k) (snd k) | FBad _ => True | FShape => True end.

Definition Inv (s : st) : Prop :=
  match bs s, bs_prm s with
  | Some b, Some (pn, pd) =>
      good_b b pn pd /\
      match tr s, tr_prm s with
      | Some t, Some p => good_t t b p pd
      | None, None => True
      | _, _ => False
      end
  | None, None => tr s = None /\ tr_prm s = None
  | _, _ => False
  end /\ honest (dk s).

Lemma Inv_init : Inv init.
Proof. unfold Inv, init, honest; simpl. split; auto. intros ? ? ? []. Qed.

Lemma honest_filter : forall d f, honest d -> honest (filter f d).
Proof. unfold honest. intros d f H di k c Hin. apply filter_In in Hin. destruct Hin. eapply H; eauto. Qed.

Lemma honest_put : forall d di k c, honest d ->
  match c with FGood b => b = ideal (fst k) (snd k) | FBad _ => True | FShape => True end ->
  honest (put_file fkey_eqb di k c d).
Proof.
  unfold honest, put_file, remove_file. intros d di k c H Hc di' k' c' [Hin|Hin].
  - inversion Hin; subst. exact Hc.
  - apply filter_In in Hin. destruct Hin. eapply H; eauto.
Qed.

Lemma bcont_eqb_eq : forall a b, bcont_eqb a b = true -> a = b.
Proof.
  intros [d1 g1 s1 j1] [d2 g2 s2 j2]. unfold bcont_eqb. simpl. intros H.
  apply andb_true_iff in H. destruct H as [H H4].
  apply andb_true_iff in H. destruct H as [H H3].
  apply andb_true_iff in H. destruct H as [H1 H2].
  apply Nat.eqb_eq in H1. apply Nat.eqb_eq in H2. apply Nat.eqb_eq in H3. apply eqb_prop in H4.
  subst. reflexivity.
Qed.

(* ---- _load_bs picks a sufficient file of the right degree --------------- *)
Lemma best_file_spec : forall l n deg acc r (Q : fkey * fstate bcont -> Prop),
  (forall a, acc = Some a -> Q a) ->
  (forall k c, In (k, c) l -> snd k = deg -> n <= fst k -> (deg = 3 -> fst k = n) -> Q (k, c)) ->
  best_file n deg l acc = Some r -> Q r.
Proof.
  induction l as [|[k c] l IH]; intros n deg acc r Q Ha Hl Hb; simpl in Hb.
  - apply Ha; auto.
  - eapply IH; [| |exact Hb].
    + intros a Ea.
      destruct ((snd k =? deg) &&
                (if deg =? 3 then fst k =? n
                 else (n <=? fst k) &&
                      match acc with Some (k', _) => fst k <? fst k' | None => true end)) eqn:E1.
      * inversion Ea; subst.
        apply andb_true_iff in E1. destruct E1 as [E1 E2]. apply Nat.eqb_eq in E1.
        destruct (deg =? 3) eqn:E3.
        -- apply Nat.eqb_eq in E2. apply Hl; auto; [left; reflexivity|lia].
        -- apply andb_true_iff in E2. destruct E2 as [E2 _]. apply Nat.leb_le in E2.
           apply Nat.eqb_neq in E3. apply Hl; auto; [left; reflexivity|congruence].
      * apply Ha; auto.
    + intros k' c' Hin. apply Hl. right; auto.
Qed.

Lemma in_dir_In : forall (d : disk fkey bcont) di k c,
  In (k, c) (in_dir di d) -> In (di, k, c) d.
Proof.
  intros d di k c H. unfold in_dir in H. apply in_map_iff in H.
  destruct H as [[[d' k'] c'] [E Hin]]. simpl in E. inversion E; subst.
  apply filter_In in Hin. destruct Hin as [Hin Hd]. simpl in Hd. apply Nat.eqb_eq in Hd. subst. auto.
Qed.

(* ---- what a fresh process returns --------------------------------------- *)
Definition expected (n deg : nat) (rt : regt) (z : nat) (fwd : bool) : mres :=
  let b := ideal n deg in
  if fwd || regt_eqb rt RNonneg then MB b
  else let z' := match rt with RNone => 0 | _ => z end in
       if z' =? 0 then MT (if deg =? 3 then TInv b else TSame b) n
       else MR (TTikh rt z' b).

Lemma crop_ideal : forall n deg, crop n (ideal n deg) = ideal n deg.
Proof. intros. unfold crop. simpl. rewrite Nat.ltb_irrefl. reflexivity. Qed.

Lemma compute_fresh : forall s1 n deg rt z fwd,
  bs s1 = Some (ideal n deg) -> tr s1 = None -> tr_prm s1 = None ->
  snd (compute s1 (ideal n deg) n deg rt z fwd) = Ret (expected n deg rt z fwd).
Proof.
  intros s1 n deg rt z fwd Hb Ht Hp. unfold compute, expected.
  rewrite crop_ideal. cbn [b_size ideal]. rewrite Nat.ltb_irrefl.
  destruct (fwd || regt_eqb rt RNonneg); [reflexivity|].
  destruct ((match rt with RNone => 0 | _ => z end) =? 0) eqn:Ez.
  - unfold tr_strength0. rewrite Ht. reflexivity.
  - rewrite Ht. reflexivity.
Qed.

Lemma fresh_expected : forall n deg rt z fwd bd,
  match bd with BPath d => dir_writable d = true | _ => True end ->
  fresh (Call n deg rt z fwd bd) = Ret (expected n deg rt z fwd).
Proof.
  intros n deg rt z fwd bd Hw. unfold fresh, step_call.
  destruct bd as [| |d]; [| |rewrite Hw]; cbn -[compute]; apply compute_fresh; reflexivity.
Qed.

(* ---- a good basis gives the fresh result -------------------------------- *)
Lemma crop_good : forall b n pn deg, good_b b pn deg -> n <= pn -> (deg = 3 -> pn = n) ->
  b_eqv (crop n b) (ideal n deg) = true.
Proof.
  intros b n pn deg (Hd & Hj & Hs & Hd3 & H3) Hn H3n.
  unfold b_eqv, crop. destruct (n <? b_size b) eqn:E1; cbn [b_deg b_gen b_size b_junk ideal].
  - rewrite Hd, Hj, !Nat.eqb_refl. cbn [eqb negb andb].
    destruct (deg <? 3) eqn:E2; cbn [orb andb]; auto.
    apply Nat.ltb_ge in E2. assert (Hq : deg = 3) by lia.
    destruct (H3 Hq) as [A B]. specialize (H3n Hq). apply Nat.ltb_lt in E1. lia.
  - apply Nat.ltb_ge in E1. assert (Hq : b_size b = n) by lia.
    rewrite Hd, Hj, Hq, !Nat.eqb_refl. cbn [eqb negb andb].
    destruct (deg <? 3) eqn:E2; cbn [orb andb]; auto.
    apply Nat.ltb_ge in E2. assert (Hq3 : deg = 3) by lia.
    destruct (H3 Hq3) as [A B]. specialize (H3n Hq3). rewrite B, H3n, Nat.eqb_refl. reflexivity.
Qed.

Lemma regt_eqb_refl : forall r, regt_eqb r r = true.
Proof. intros. unfold regt_eqb. apply Nat.eqb_refl. Qed.

Lemma m_eqv_MB : forall x y, b_eqv x y = true -> m_eqv (MB x) (MB y) = true.
Proof. intros. unfold m_eqv. simpl. auto. Qed.

Lemma m_eqv_same : forall b n deg, b_eqv (crop n b) (ideal n deg) = true ->
  m_eqv (MT (TSame b) n) (MT (TSame (ideal n deg)) n) = true.
Proof. intros. unfold m_eqv. cbn [norm]. rewrite crop_ideal. auto. Qed.

Lemma m_eqv_inv : forall b n, b_size b = n -> b_eqv b (ideal n 3) = true ->
  m_eqv (MT (TInv b) n) (MT (TInv (ideal n 3)) n) = true.
Proof.
  intros b n Hs H. unfold m_eqv. cbn [norm b_size ideal]. rewrite Hs, Nat.ltb_irrefl.
  cbn [t_eqv]. auto.
Qed.

Lemma m_eqv_tikh : forall rt z x y, b_eqv x y = true ->
  m_eqv (MR (TTikh rt z x)) (MR (TTikh rt z y)) = true.
Proof.
  intros. unfold m_eqv. cbn [norm t_eqv]. rewrite regt_eqb_refl, Nat.eqb_refl. auto.
Qed.

Lemma Inv_with_tr : forall s b pn pd t p,
  bs s = Some b -> bs_prm s = Some (pn, pd) -> Inv s -> good_t t b p pd ->
  Inv (with_tr s (Some t) (Some p)).
Proof.
  intros s b pn pd t p Hb Hp [HI Hh] Hg. unfold Inv, with_tr. cbn [bs bs_prm tr tr_prm dk].
  rewrite Hb, Hp in *. destruct HI as [Hgb _]. split; auto.
Qed.

Lemma compute_good : forall s1 b n pn deg rt z fwd s2 r,
  bs s1 = Some b -> bs_prm s1 = Some (pn, deg) -> Inv s1 -> n <= pn -> (deg = 3 -> pn = n) ->
  compute s1 b n deg rt z fwd = (s2, r) ->
  Inv s2 /\ exists m, r = Ret m /\ m_eqv m (expected n deg rt z fwd) = true.
Proof.
  intros s1 b n pn deg rt z fwd s2 r Hb Hp HI Hn H3n Hc.
  pose proof HI as [HI1 Hh]. rewrite Hb, Hp in HI1. destruct HI1 as [Hg Htr].
  pose proof Hg as (Hd & Hj & Hs & Hd3 & H3).
  pose proof (crop_good b n pn deg Hg Hn H3n) as Hcg.
  assert (Hsz : (b_size b <? n) = false) by (apply Nat.ltb_ge; lia).
  unfold compute, expected in *.
  destruct (fwd || regt_eqb rt RNonneg).
  - rewrite Hsz in Hc. inversion Hc; subst. split; auto.
    eexists; split; [reflexivity|]. apply m_eqv_MB; auto.
  - set (z' := match rt with RNone => 0 | _ => z end) in *.
    destruct (z' =? 0) eqn:Ez.
    + (* strength 0 *)
      assert (Hres : forall t, t = (if deg =? 3 then TInv b else TSame b) ->
                m_eqv (MT t n) (MT (if deg =? 3 then TInv (ideal n deg) else TSame (ideal n deg)) n) = true
                /\ (t_size t <? n) = false).
      { intros t ->. destruct (deg =? 3) eqn:E3.
        - apply Nat.eqb_eq in E3. destruct (H3 E3) as [A B]. specialize (H3n E3).
          split; [|exact Hsz]. subst deg. apply m_eqv_inv; [lia|].
          rewrite <- Hcg. unfold crop. replace (n <? b_size b) with false; auto.
          symmetry; apply Nat.ltb_ge; lia.
        - split; [|exact Hsz]. apply m_eqv_same; auto. }
      destruct (tr_strength0 s1) eqn:Es.
      * unfold tr_strength0 in Es.
        destruct (tr s1) as [t|] eqn:Et; [|discriminate].
        destruct (tr_prm s1) as [[[tn trt] tz]|] eqn:Etp; [|discriminate].
        apply Nat.eqb_eq in Es. subst tz. cbn [good_t] in Htr.
        destruct Htr as [[_ Ht]|[Hz _]]; [|congruence].
        destruct (Hres t Ht) as [Hm Hts]. rewrite Hts in Hc. inversion Hc; subst.
        split; auto. eexists; split; [reflexivity|]. exact Hm.
      * rewrite Hsz in Hc. inversion Hc; subst.
        destruct (Hres _ eq_refl) as [Hm _].
        split; [|eexists; split; [reflexivity|exact Hm]].
        eapply Inv_with_tr; eauto. rewrite Hp. cbn [good_t]. left. auto.
    + (* Tikhonov *)
      assert (Hz : z' <> 0) by (apply Nat.eqb_neq; auto).
      assert (Hrec : forall s2 r,
                (if b_size b <? n then (s1, Raise EValue)
                 else (with_tr s1 (Some (TTikh rt z' (crop n b))) (Some (n, rt, z')),
                       Ret (MR (TTikh rt z' (crop n b))))) = (s2, r) ->
                Inv s2 /\ exists m, r = Ret m /\ m_eqv m (MR (TTikh rt z' (ideal n deg))) = true).
      { intros s2' r' Hc'. rewrite Hsz in Hc'. inversion Hc'; subst.
        split; [|eexists; split; [reflexivity|apply m_eqv_tikh; auto]].
        eapply Inv_with_tr; eauto. cbn [good_t]. right. repeat split; auto. lia. }
      destruct (tr s1) as [t|] eqn:Et; [|apply Hrec; auto].
      destruct (tr_prm s1) as [p|] eqn:Etp; [|apply Hrec; auto].
      destruct (prm3_eqb p n rt z') eqn:Ep; [|apply Hrec; auto].
      rewrite Nat.ltb_irrefl in Hc. inversion Hc; subst.
      split; auto. eexists; split; [reflexivity|].
      destruct p as [[tn trt] tz]. unfold prm3_eqb in Ep. cbn [fst snd] in Ep.
      apply andb_true_iff in Ep. destruct Ep as [Ep E3]. apply andb_true_iff in Ep. destruct Ep as [E1 E2].
      apply Nat.eqb_eq in E1. apply Nat.eqb_eq in E3. unfold regt_eqb in E2. apply Nat.eqb_eq in E2.
      apply regt_code_inj in E2. subst.
      cbn [good_t] in Htr. destruct Htr as [[Hz0 _]|[_ [_ Ht]]]; [congruence|].
      subst t. apply m_eqv_tikh; auto.
Qed.

(* ---- making _bs right ---------------------------------------------------- *)
Lemma Inv_with_gdir : forall s g, Inv s -> Inv (with_gdir s g).
Proof. intros s g H. exact H. Qed.

Lemma crop_ideal_good : forall n N deg, n <= N -> deg <= 3 -> (deg = 3 -> N = n) ->
  good_b (crop n (ideal N deg)) n deg.
Proof.
  intros n N deg Hn Hd H3. unfold crop, good_b. cbn [b_size ideal].
  destruct (n <? N) eqn:E4; cbn [b_deg b_gen b_size b_junk ideal].
  - apply Nat.ltb_lt in E4. repeat split; auto; intros E; specialize (H3 E); lia.
  - apply Nat.ltb_ge in E4. repeat split; auto; try lia; intros E; specialize (H3 E); lia.
Qed.

Lemma ensure_good : forall s n deg rt z fwd bd s1 oe,
  Inv s -> hazard s (Call n deg rt z fwd bd) = false ->
  ensure_bs s n deg bd = (s1, oe) ->
  Inv s1 /\
  (oe = None -> exists b pn, bs s1 = Some b /\ bs_prm s1 = Some (pn, deg) /\
                             n <= pn /\ (deg = 3 -> pn = n)).
Proof.
  intros s n deg rt z fwd bd s1 oe HI Hz He.
  cbn [hazard] in Hz.
  apply orb_false_iff in Hz. destruct Hz as [Hdeg Hbad].
  apply Nat.ltb_ge in Hdeg.
  unfold ensure_bs in He. unfold bs_ok in *.
  pose proof HI as [HI1 Hh].
  (* the reload path, common to "nothing cached" and "cached for other parameters" *)
  assert (Hreload : forall g dir, resolve (gdir s) bd = (g, dir) ->
            match load_bs dir n deg (dk (with_gdir s g)) with
            | LRaise e0 => (with_gdir s g, Some e0)
            | LSome b => ({| bs := Some b; bs_prm := Some (n, deg); tr := None; tr_prm := None;
                             gdir := g; dk := dk (with_gdir s g) |}, None)
            | LNone =>
                match dir with
                | Some di =>
                    if dir_writable di
                    then ({| bs := Some (ideal n deg); bs_prm := Some (n, deg); tr := None; tr_prm := None;
                             gdir := g;
                             dk := put_file fkey_eqb di (n, deg) (FGood (ideal n deg)) (dk (with_gdir s g)) |}, None)
                    else (with_gdir s g, Some EOther)
                | None => ({| bs := Some (ideal n deg); bs_prm := Some (n, deg); tr := None; tr_prm := None;
                              gdir := g; dk := dk (with_gdir s g) |}, None)
                end
            end = (s1, oe) ->
            Inv s1 /\
            (oe = None -> exists b pn, bs s1 = Some b /\ bs_prm s1 = Some (pn, deg) /\
                                       n <= pn /\ (deg = 3 -> pn = n))).
  { intros g dir Er Hl. unfold uses_bad_dir in Hbad. rewrite Er in Hbad. cbn [snd] in Hbad.
    assert (Hgen : forall d', honest d' ->
              Inv {| bs := Some (ideal n deg); bs_prm := Some (n, deg); tr := None; tr_prm := None;
                     gdir := g; dk := d' |}).
    { intros d' Hd'. unfold Inv. cbn [bs bs_prm tr tr_prm dk]. split; auto.
      split; auto. unfold good_b, ideal. cbn. repeat split; auto. }
    unfold load_bs in Hl. cbn [with_gdir dk] in Hl.
    destruct dir as [di|].
    - apply negb_false_iff in Hbad. rewrite Hbad in Hl.
      assert (Hregen : forall s1' oe',
                ({| bs := Some (ideal n deg); bs_prm := Some (n, deg); tr := None; tr_prm := None; gdir := g;
                    dk := put_file fkey_eqb di (n, deg) (FGood (ideal n deg)) (dk s) |}, @None exc) = (s1', oe') ->
                Inv s1' /\
                (oe' = None -> exists b pn, bs s1' = Some b /\ bs_prm s1' = Some (pn, deg) /\
                                            n <= pn /\ (deg = 3 -> pn = n))).
      { intros s1' oe' E. inversion E; subst. split; [apply Hgen; apply honest_put; auto|].
        intros _. exists (ideal n deg), n. cbn [bs bs_prm]. repeat split; auto. }
      destruct (best_file n deg (in_dir di (dk s)) None) as [[k c]|] eqn:Ebf; [|apply Hregen; auto].
      assert (Hk : snd k = deg /\ n <= fst k /\ (deg = 3 -> fst k = n) /\ In (di, k, c) (dk s)).
      { apply (best_file_spec _ _ _ _ _ (fun r => snd (fst r) = deg /\ n <= fst (fst r) /\
                                                  (deg = 3 -> fst (fst r) = n) /\ In (di, fst r, snd r) (dk s))) in Ebf.
        - exact Ebf.
        - intros a Ha. discriminate.
        - intros k' c' Hin Hd Hn H3. cbn [fst snd]. repeat split; auto. apply in_dir_In; auto. }
      destruct Hk as (Hk1 & Hk2 & Hk3 & Hk4). pose proof (Hh _ _ _ Hk4) as Hc.
      destruct c as [c|e|]; [|destruct e|].
      + inversion Hl; subst s1 oe. clear Hl. subst c.
        assert (Hgb : good_b (crop n (ideal (fst k) (snd k))) n (snd k)).
        { apply crop_ideal_good; auto; rewrite Hk1; auto. }
        split.
        * unfold Inv. cbn [bs bs_prm tr tr_prm dk]. rewrite Hk1 in Hgb at 2. split; [split; [exact Hgb|exact I]|exact Hh].
        * intros _. eexists. exists n. cbn [bs bs_prm]. repeat split; auto.
      + inversion Hl; subst. split; [apply Inv_with_gdir; auto|discriminate].
      + apply Hregen; auto.
      + inversion Hl; subst. split; [apply Inv_with_gdir; auto|discriminate].
      + inversion Hl; subst. split; [apply Inv_with_gdir; auto|discriminate].
      + apply Hregen; auto.
    - inversion Hl; subst s1 oe. split; [apply Hgen; auto|].
      intros _. exists (ideal n deg), n. cbn [bs bs_prm]. repeat split; auto. }
  destruct (bs s) as [b|] eqn:Eb.
  - destruct (bs_prm s) as [[pn pd]|] eqn:Ep; [|contradiction].
    destruct ((pd =? deg) && (if deg =? 3 then pn =? n else n <=? pn)) eqn:Eok.
    + inversion He; subst. split; auto. intros _.
      apply andb_true_iff in Eok. destruct Eok as [E1 E2]. apply Nat.eqb_eq in E1. subst pd.
      exists b, pn. repeat split; auto.
      * destruct (deg =? 3); [apply Nat.eqb_eq in E2; lia|apply Nat.leb_le in E2; auto].
      * intros ->. simpl in E2. apply Nat.eqb_eq in E2. auto.
    + destruct (resolve (gdir s) bd) as [g dir] eqn:Er. eapply Hreload; eauto.
  - destruct (bs_prm s) as [[pn pd]|] eqn:Ep; [contradiction|].
    destruct (resolve (gdir s) bd) as [g dir] eqn:Er. eapply Hreload; eauto.
Qed.

(* a call can raise only because a damaged file is on disk *)
Lemma ensure_raise : forall s n deg bd s1 e,
  Inv s -> uses_bad_dir s bd = false ->
  ensure_bs s n deg bd = (s1, Some e) ->
  exists di k pe, In (di, k, FBad pe) (dk s).
Proof.
  intros s n deg bd s1 e [HI Hh] Hbad He.
  unfold ensure_bs, bs_ok in He. unfold uses_bad_dir in Hbad.
  assert (Hmain : forall g dir, resolve (gdir s) bd = (g, dir) ->
            match load_bs dir n deg (dk (with_gdir s g)) with
            | LRaise e0 => (with_gdir s g, Some e0)
            | LSome b => ({| bs := Some b; bs_prm := Some (n, deg); tr := None; tr_prm := None;
                             gdir := g; dk := dk (with_gdir s g) |}, None)
            | LNone =>
                match dir with
                | Some di =>
                    if dir_writable di
                    then ({| bs := Some (ideal n deg); bs_prm := Some (n, deg); tr := None; tr_prm := None;
                             gdir := g;
                             dk := put_file fkey_eqb di (n, deg) (FGood (ideal n deg)) (dk (with_gdir s g)) |}, None)
                    else (with_gdir s g, Some EOther)
                | None => ({| bs := Some (ideal n deg); bs_prm := Some (n, deg); tr := None; tr_prm := None;
                              gdir := g; dk := dk (with_gdir s g) |}, None)
                end
            end = (s1, Some e) -> exists di k pe, In (di, k, FBad pe) (dk s)).
  { intros g dir Er Hl. rewrite Er in Hbad. cbn [snd] in Hbad.
    unfold load_bs in Hl. destruct dir as [di|]; [|discriminate].
    apply negb_false_iff in Hbad. rewrite Hbad in Hl. cbn [with_gdir dk] in Hl.
    destruct (best_file n deg (in_dir di (dk s)) None) as [[k c]|] eqn:Ebf; [|discriminate].
    assert (Hk : In (di, k, c) (dk s)).
    { apply (best_file_spec _ _ _ _ _ (fun r => In (di, fst r, snd r) (dk s))) in Ebf.
      - exact Ebf.
      - intros a Ha. discriminate.
      - intros k' c' Hin _ _ _. apply in_dir_In; auto. }
    destruct c as [c|pe|]; try discriminate.
    exists di, k, pe. exact Hk. }
  destruct (bs s) as [b|]; destruct (bs_prm s) as [[pn pd]|]; try contradiction.
  - destruct ((pd =? deg) && (if deg =? 3 then pn =? n else n <=? pn)); [discriminate|].
    destruct (resolve (gdir s) bd) as [g dir] eqn:Er. eapply Hmain; eauto.
  - destruct (resolve (gdir s) bd) as [g dir] eqn:Er. eapply Hmain; eauto.
Qed.

(* ---- one step ------------------------------------------------------------ *)
Lemma bad_dir_bd : forall s bd, uses_bad_dir s bd = false ->
  match bd with BPath d => dir_writable d = true | _ => True end.
Proof.
  intros s bd H. destruct bd; auto. unfold uses_bad_dir in H. simpl in H.
  apply negb_false_iff in H. auto.
Qed.

Lemma hazard_call_parts : forall s n deg rt z fwd bd,
  hazard s (Call n deg rt z fwd bd) = false -> uses_bad_dir s bd = false.
Proof.
  intros. cbn [hazard] in H. apply orb_false_iff in H. destruct H as [_ H]. exact H.
Qed.

Lemma step_good : forall s o s' r,
  Inv s -> hazard s o = false -> step s o = (s', r) ->
  Inv s' /\
  (is_call o = true ->
     out_eqv r (fresh o) = true \/
     exists e di k pe, r = Raise e /\ In (di, k, FBad pe) (dk s)).
Proof.
  intros s o s' r HI Hz Hs. destruct o as [n deg rt z fwd bd|all|bd|bd|d k c|d k].
  - (* Call *)
    cbn [step] in Hs. unfold step_call in Hs.
    destruct (ensure_bs s n deg bd) as [s1 oe] eqn:Ee.
    destruct (ensure_good _ _ _ rt z fwd _ _ _ HI Hz Ee) as [HI1 Hb].
    pose proof (hazard_call_parts _ _ _ _ _ _ _ Hz) as Hbad.
    destruct oe as [e|].
    + inversion Hs; subst. split; auto. intros _. right.
      destruct (ensure_raise _ _ _ _ _ _ HI Hbad Ee) as (di & k & pe & Hin).
      exists e, di, k, pe. auto.
    + destruct (Hb eq_refl) as (b & pn & Hbs & Hp & Hn & H3).
      rewrite Hbs in Hs.
      destruct (compute_good _ _ _ _ _ _ _ _ _ _ Hbs Hp HI1 Hn H3 Hs) as [HI2 (m & -> & Hm)].
      split; auto. intros _. left.
      rewrite fresh_expected by (eapply bad_dir_bd; eauto). exact Hm.
  - (* cache_cleanup *)
    inversion Hs; subst. split; [|discriminate]. destruct HI as [HI0 Hh].
    unfold Inv. cbn [bs bs_prm tr tr_prm dk].
    destruct all; [split; auto|].
    destruct (bs s), (bs_prm s) as [[? ?]|]; try contradiction; split; auto.
    destruct HI0; split; auto.
  - (* basis_dir_cleanup *)
    cbn [step] in Hs.
    destruct (match bd with BDefault => get_basis_dir (gdir s) | _ => resolve (gdir s) bd end) as [g dir].
    destruct dir as [di|]; inversion Hs; subst; (split; [|discriminate]).
    + destruct HI as [HI0 Hh]. unfold Inv. cbn [bs bs_prm tr tr_prm dk]. split; auto.
      apply honest_filter; auto.
    + apply Inv_with_gdir; auto.
  - inversion Hs; subst. split; [apply Inv_with_gdir; auto|discriminate].
  - (* a file appears *)
    inversion Hs; subst. split; [|discriminate]. destruct HI as [HI0 Hh].
    unfold Inv, with_dk. cbn [bs bs_prm tr tr_prm dk]. split; auto.
    apply honest_put; auto. cbn [hazard] in Hz.
    destruct c as [b|e|]; auto.
    apply negb_false_iff in Hz. apply bcont_eqb_eq in Hz. auto.
  - inversion Hs; subst. split; [|discriminate]. destruct HI as [HI0 Hh].
    unfold Inv, with_dk. cbn [bs bs_prm tr tr_prm dk]. split; auto.
    apply honest_filter; auto.
Qed.

(* ---- no damaged file ------------------------------------------------------ *)
Definition clean (s : st) : Prop :=
  forall di k c, In (di, k, c) (dk s) -> forall pe, c <> FBad pe.


Lemma clean_put : forall (d : disk fkey bcont) di k b,
  (forall di k c, In (di, k, c) d -> forall pe, c <> FBad pe) ->
  forall di' k' c', In (di', k', c') (put_file fkey_eqb di k (FGood b) d) -> forall pe, c' <> FBad pe.
Proof.
  intros d di k b H di' k' c' [Hin|Hin] pe.
  - inversion Hin; subst. discriminate.
  - apply filter_In in Hin. destruct Hin. eauto.
Qed.

Lemma step_clean : forall s o s' r,
  clean s -> damage o = false -> hazard s o = false -> step s o = (s', r) -> clean s'.
Proof.
  intros s o s' r Hc Hd Hz Hs. destruct o as [n deg rt z fwd bd|all|bd|bd|d k c|d k].
  - cbn [step] in Hs. unfold step_call in Hs.
    destruct (ensure_bs s n deg bd) as [s1 oe] eqn:Ee.
    assert (Hc1 : clean s1).
    { revert Ee. unfold ensure_bs. destruct (bs_ok s n deg) as [[|]|e0].
      - intros E; inversion E; subst; auto.
      - destruct (resolve (gdir s) bd) as [g dir].
        destruct (load_bs dir n deg (dk (with_gdir s g))).
        + destruct dir as [di|].
          * destruct (dir_writable di); intros E; inversion E; subst; unfold clean; cbn [dk with_bs with_gdir]; auto.
            apply clean_put. exact Hc.
          * intros E; inversion E; subst; unfold clean; cbn [dk]; auto.
        + intros E; inversion E; subst; unfold clean; cbn [dk]; auto.
        + intros E; inversion E; subst; unfold clean; cbn [dk]; auto.
      - intros E; inversion E; subst; auto. }
    destruct oe; [inversion Hs; subst; auto|].
    destruct (bs s1); [|inversion Hs; subst; auto].
    assert (Hdk : forall s2 r2, compute s1 b n deg rt z fwd = (s2, r2) -> dk s2 = dk s1).
    { intros s2 r2. unfold compute.
      repeat match goal with
             | |- context [if ?c then _ else _] => destruct c
             | |- context [match ?x with _ => _ end] => destruct x
             end; intros E; inversion E; subst; reflexivity. }
    unfold clean. rewrite (Hdk _ _ Hs). exact Hc1.
  - inversion Hs; subst; exact Hc.
  - cbn [step] in Hs.
    destruct (match bd with BDefault => get_basis_dir (gdir s) | _ => resolve (gdir s) bd end) as [g dir].
    destruct dir; inversion Hs; subst; unfold clean; cbn [dk with_gdir]; auto.
    intros di k c Hin. apply filter_In in Hin. destruct Hin. eapply Hc; eauto.
  - inversion Hs; subst; exact Hc.
  - inversion Hs; subst. unfold clean, with_dk, put_file. cbn [dk].
    intros di0 k0 c0 [Hi|Hi] pe.
    + inversion Hi; subst. cbn [damage] in Hd. destruct c0; try discriminate.
    + apply filter_In in Hi. destruct Hi. eapply Hc; eauto.
  - inversion Hs; subst. unfold clean, with_dk, remove_file. cbn [dk].
    intros di k0 c Hin. apply filter_In in Hin. destruct Hin. eapply Hc; eauto.
Qed.

(* ---- the theorems ---------------------------------------------------------- *)

(* C07: from any good state, a history without hazard and without damaged
   files returns, at every call, what a fresh process returns *)
Lemma history_independent_from : forall ops s,
  Inv s -> clean s -> no_hazard s ops = true -> no_damage ops = true -> all_agree s ops = true.
Proof.
  induction ops as [|o ops IH]; intros s HI Hc Hz Hd; [reflexivity|].
  cbn [no_hazard no_damage all_agree] in *.
  apply andb_true_iff in Hz. destruct Hz as [Hz1 Hz2]. apply negb_true_iff in Hz1.
  apply andb_true_iff in Hd. destruct Hd as [Hd1 Hd2]. apply negb_true_iff in Hd1.
  destruct (step s o) as [s' r] eqn:Es. cbn [fst] in Hz2.
  destruct (step_good _ _ _ _ HI Hz1 Es) as [HI' Hr].
  pose proof (step_clean _ _ _ _ Hc Hd1 Hz1 Es) as Hc'.
  apply andb_true_iff. split; [|apply IH; auto].
  destruct (is_call o) eqn:Eo; [|reflexivity].
  destruct (Hr eq_refl) as [Hok|(e & di & k & pe & _ & Hin)]; [exact Hok|].
  exfalso. exact (Hc _ _ _ Hin pe eq_refl).
Qed.

Theorem history_independent : forall ops,
  no_hazard init ops = true -> no_damage ops = true -> all_agree init ops = true.
Proof.
  intros. apply history_independent_from; auto.
  - apply Inv_init.
  - intros di k c [].
Qed.

(* C08: damaged files (empty, truncated, garbage, zip prefix) allowed: every
   call either agrees with the fresh process or raises *)
Lemma fault_safe_from : forall ops s,
  Inv s -> no_hazard s ops = true -> all_safe s ops = true.
Proof.
  induction ops as [|o ops IH]; intros s HI Hz; [reflexivity|].
  cbn [no_hazard all_safe] in *.
  apply andb_true_iff in Hz. destruct Hz as [Hz1 Hz2]. apply negb_true_iff in Hz1.
  destruct (step s o) as [s' r] eqn:Es. cbn [fst] in Hz2.
  destruct (step_good _ _ _ _ HI Hz1 Es) as [HI' Hr].
  apply andb_true_iff. split; [|apply IH; auto].
  destruct (is_call o) eqn:Eo; [|reflexivity].
  destruct (Hr eq_refl) as [Hok|(e & di & k & pe & -> & Hin)].
  - rewrite Hok. reflexivity.
  - apply orb_true_iff. right. destruct e; reflexivity.
Qed.

Theorem fault_safe : forall ops, no_hazard init ops = true -> all_safe init ops = true.
Proof. intros. apply fault_safe_from; auto. apply Inv_init. Qed.

(* ---- cache_cleanup only changes speed --------------------------------------- *)
Lemma all_agree_last : forall ops s c,
  all_agree s (ops ++ [c]) = true -> is_call c = true ->
  out_eqv (snd (step (run s ops) c)) (fresh c) = true.
Proof.
  induction ops as [|o ops IH]; intros s c H Hc; cbn [app all_agree run] in *.
  - destruct (step s c) as [s' r]. rewrite Hc in H. apply andb_true_iff in H. destruct H; auto.
  - destruct (step s o) as [s' r] eqn:Es. apply andb_true_iff in H. destruct H as [_ H].
    cbn [fst]. apply IH; auto.
Qed.

(* inserting a cache_cleanup anywhere in a hazard-free history does not
   change what the last call returns *)
Theorem cleanup_only_speed : forall ops1 ops2 c all,
  is_call c = true ->
  no_hazard init (ops1 ++ ops2 ++ [c]) = true -> no_damage (ops1 ++ ops2 ++ [c]) = true ->
  no_hazard init (ops1 ++ Cleanup all :: ops2 ++ [c]) = true ->
  den_out (last_result (ops1 ++ ops2) c) = den_out (last_result (ops1 ++ Cleanup all :: ops2) c).
Proof.
  intros ops1 ops2 c all Hc H1 D1 H2.
  assert (D2 : no_damage (ops1 ++ Cleanup all :: ops2 ++ [c]) = true).
  { clear - D1. induction ops1 as [|o r IH]; cbn [app no_damage] in *; auto.
    apply andb_true_iff in D1. destruct D1. apply andb_true_iff. split; auto. }
  pose proof (history_independent _ H1 D1) as A1.
  pose proof (history_independent _ H2 D2) as A2.
  rewrite app_assoc in A1. apply all_agree_last in A1; auto.
  change (ops1 ++ Cleanup all :: ops2 ++ [c]) with (ops1 ++ (Cleanup all :: ops2) ++ [c]) in A2.
  rewrite app_assoc in A2. apply all_agree_last in A2; auto.
  unfold last_result. rewrite (out_eqv_sound _ _ A1), (out_eqv_sound _ _ A2). reflexivity.
Qed.

(* ---- the formerly failing histories (fixed in /repo) ---------------------------- *)
(* cbc57b0: a larger degree-3 basis file is no longer cropped *)
Definition d3_hist : list op := [Call 20 3 RNone 0 false (BPath 1); Cleanup true].
Definition d3_call : op := Call 12 3 RNone 0 false (BPath 1).
Example daun3_no_disk_crop :
  no_hazard init (d3_hist ++ [d3_call]) = true /\ out_eqv (last_result d3_hist d3_call) (fresh d3_call) = true.
Proof. split; vm_compute; reflexivity. Qed.

(* 216552f: a failing save leaves the memory cache as it was *)
Definition fs_hist : list op :=
  [Call 10 0 RNone 0 true BNone; Call 10 1 RNone 0 true (BPath BADDIR)].
Definition fs_call : op := Call 10 0 RNone 0 true BNone.
Example failed_save_harmless :
  res_code (snd (step (run init [Call 10 0 RNone 0 true BNone]) (Call 10 1 RNone 0 true (BPath BADDIR)))) = exc_code EOther /\
  out_eqv (last_result fs_hist fs_call) (fresh fs_call) = true.
Proof. split; vm_compute; reflexivity. Qed.

(* 7ce4ac5: a valid file of a wrong shape is ignored: regenerated and re-saved *)
Definition ws_call : op := Call 10 0 RNone 0 false (BPath 1).
Definition ws_hist : list op := [Seed 1 (10, 0) FShape].
Example wrong_shape_regenerated :
  no_hazard init (ws_hist ++ [ws_call; Remove 1 (10, 0); ws_call]) = true /\
  out_eqv (last_result ws_hist ws_call) (fresh ws_call) = true /\
  out_eqv (last_result (ws_hist ++ [ws_call; Remove 1 (10, 0)]) ws_call) (fresh ws_call) = true.
Proof. repeat split; vm_compute; reflexivity. Qed.

(* ---- a file changes on disk AFTER it was loaded --------------------------------- *)
(* what was loaded is a private copy: whatever happens to the file afterwards
   (overwritten in place with garbage, removed, replaced) leaves the memory
   caches as they were; so calls served from memory stay fresh, and calls that
   go back to the disk are covered by fault_safe *)
Lemma disk_fault_keeps_memory : forall s d k c,
  let s' := fst (step s (Seed d k c)) in
  bs s' = bs s /\ bs_prm s' = bs_prm s /\ tr s' = tr s /\ tr_prm s' = tr_prm s /\ gdir s' = gdir s.
Proof. intros; cbn; repeat split. Qed.

Definition ow_call : op := Call 10 0 RNone 0 false (BPath 1).
Definition ow_small : op := Call 6 0 RNone 0 false (BPath 1).
Definition ow_hist : list op :=
  [Seed 1 (10, 0) (FGood (ideal 10 0)); ow_call; Seed 1 (10, 0) (FBad PValue)].
Example overwritten_after_load_fresh :
  no_hazard init (ow_hist ++ [ow_call; ow_small; Cleanup true; ow_call]) = true /\
  out_eqv (last_result ow_hist ow_call) (fresh ow_call) = true /\
  out_eqv (last_result (ow_hist ++ [ow_call]) ow_small) (fresh ow_small) = true /\
  out_eqv (last_result (ow_hist ++ [ow_call; ow_small; Cleanup true]) ow_call) (fresh ow_call) = true.
Proof. repeat split; vm_compute; reflexivity. Qed.
