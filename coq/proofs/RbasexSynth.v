(* RbasexSynth.v — the image built by rbasex._image is the synthesis
   sum_n lerp(c_n, r) cos^n(theta) (R instance of model/RbasexOut.v), the
   composite statements for out='same' / 'full', the stale-cache refutation
   and the masking of invalid radii. *)
From Coq Require Import List Arith Lia Bool ZArith Reals Lra QArith.
From Coq Require Import ZifyBool ZifyNat.
From PA Require Import base.Arr base.Px base.MatL base.QClose model.DistrGeom model.DistrFit model.Symmetry
  model.RbasexOut model.DistrQ proofs.VmiInvProofs proofs.DistrGeomProofs proofs.DistrFitProofs proofs.RbasexProofs.
Import ListNotations.
Open Scope R_scope.

Notation rtermR := (radial_term Rops sqrtR).
Notation iwlR := (iwl Rops sqrtR).
Notation iwuR := (iwu Rops sqrtR).
Notation icosR := (icos Rops sqrtR).
Notation image_pxR := (image_px Rops sqrtR).

(* the radial profile continued by zero beyond rmax *)
Definition cext (rmax : nat) (cn : list R) (k : nat) : R := if (k <=? rmax)%nat then nth k cn 0 else 0.

Lemma ibin_le rmax brow a b : (ibin rmax brow a b <= rmax + 1)%nat.
Proof. unfold ibin. destruct (Nat.ltb_spec rmax (Nat.sqrt (ir2 brow a b))); lia. Qed.

(* linear interpolation between the integer radii k and k + 1 *)
Lemma radial_term_lerp rmax brow cn a b : length cn = (rmax + 1)%nat ->
  let k := ibin rmax brow a b in
  rtermR rmax brow cn a b = iwlR rmax brow a b * cext rmax cn k + iwuR rmax brow a b * cext rmax cn (k + 1).
Proof.
  intros Hl k. unfold radial_term. fold k. cbn [Rops f0 fadd fmul].
  pose proof (ibin_le rmax brow a b) as Hk. fold k in Hk. unfold cext.
  assert (E1 : nth k (cn ++ [0]) 0 = if (k <=? rmax)%nat then nth k cn 0 else 0).
  { destruct (Nat.leb_spec k rmax).
    - apply app_nth1. lia.
    - rewrite app_nth2 by lia. replace (k - length cn)%nat with 0%nat by lia. reflexivity. }
  assert (E2 : nth k (tl cn ++ [0; 0]) 0 = if (k + 1 <=? rmax)%nat then nth (k + 1) cn 0 else 0).
  { assert (Htl : length (tl cn) = rmax) by (destruct cn; cbn in *; lia).
    destruct (Nat.leb_spec (k + 1) rmax).
    - rewrite app_nth1 by lia. destruct cn; [cbn in Hl; lia|]. cbn [tl]. replace (k + 1)%nat with (S k) by lia. reflexivity.
    - rewrite app_nth2 by lia. destruct (k - length (tl cn))%nat as [|[|n]] eqn:E; try reflexivity. lia. }
  rewrite E1, E2. reflexivity.
Qed.

(* zero from one pixel beyond rmax on *)
Lemma radial_term_beyond rmax brow cn a b : length cn = (rmax + 1)%nat ->
  (rmax < Nat.sqrt (ir2 brow a b))%nat -> rtermR rmax brow cn a b = 0.
Proof.
  intros Hl Hb. rewrite radial_term_lerp by exact Hl. cbv zeta.
  assert (E : ibin rmax brow a b = (rmax + 1)%nat).
  { unfold ibin. destruct (Nat.ltb_spec rmax (Nat.sqrt (ir2 brow a b))); lia. }
  rewrite E. unfold cext.
  replace (rmax + 1 <=? rmax)%nat with false by lia. replace (rmax + 1 + 1 <=? rmax)%nat with false by lia. ring.
Qed.

(* sum_n t_n x^(n0 + n) *)
Fixpoint synth_from (n0 : nat) (ts : list R) (x : R) : R :=
  match ts with [] => 0 | t :: ts' => t * x ^ n0 + synth_from (S n0) ts' x end.

Lemma image_fold rmax brow odd cs a b s n :
  fst (fold_left (fun acc cn => let '(s, n) := acc in
                    (fadd Rops s (fmul Rops (rtermR rmax brow cn a b) (cpow Rops (icosR odd brow a b) n)), S n))
                 cs (s, n))
  = s + synth_from n (map (fun cn => rtermR rmax brow cn a b) cs) (icosR odd brow a b).
Proof.
  revert s n. induction cs as [|cn cs IH]; intros s n; cbn [fold_left map synth_from fst].
  - lra.
  - rewrite IH. cbn [Rops fadd fmul]. fold cpowR. rewrite cpow_pow. ring.
Qed.

(* _image = sum_n lerp(c_n, r) cos^n(theta) *)
Theorem image_is_synthesis odd rmax brow (c : list (list R)) a b :
  image_pxR odd rmax brow c a b
  = synth_from 0 (map (fun cn => rtermR rmax brow cn a b) c) (icosR odd brow a b).
Proof.
  unfold image_px. destruct c as [|c0 cs]; [reflexivity|].
  rewrite image_fold. cbn [map synth_from]. cbn [pow]. ring.
Qed.

(* ---- composite: the returned image about the origin ----------------------------- *)
Section Composite.
  Variables (h w row col rmax N : nat).
  Hypothesis Hrow : (row < h)%nat.
  Hypothesis Hcol : (col < w)%nat.
  Notation gq := (gq h w row col rmax N).

  Lemma wf_image bs odd (c : list (list R)) :
    wf (fst (fst bs)) (snd (fst bs)) (image Rops sqrtR bs odd rmax c).
  Proof. destruct bs as [[height width] brow]. cbn [fst snd image]. apply wf_tab. Qed.

  (* out='same', fresh cache: pixel (i, j) is the synthesis at the offset of
     (i, j) from the origin (row, col) *)
  Theorem recon_same_is_synthesis odd (c : list (list R)) i j : (i < h)%nat -> (j < w)%nat ->
    shape_of (recon Rops sqrtR None OSame (gq odd) c) = (h, w) /\
    px 0 (recon Rops sqrtR None OSame (gq odd) c) i j
    = image_pxR odd rmax (if odd then row else 0%nat) c (if odd then i else dist i row) (dist j col).
  Proof.
    intros Hi Hj. unfold recon, RbasexProofs.gq.
    set (g := quad_geom h w row col rmax odd N).
    set (bs := fst (get_image_bs None g (out_dims OSame g))).
    assert (Ebs : bs = (fst (fst (out_dims OSame g)), snd (fst (out_dims OSame g)),
                        if odd then row else 0%nat)).
    { unfold bs, get_image_bs, fresh_ibs, out_dims, g. cbn [fst].
      rewrite qg_odd, qg_h, qg_row, qg_VER, qg_HOR, qg_Qh, qg_Qw, qg_y0. cbn [fst snd].
      destruct odd.
      - destruct ((h =? _)%nat && _) eqn:E; [|reflexivity]. f_equal. lia.
      - destruct ((_ =? _)%nat && _); reflexivity. }
    replace (g_rmax g) with rmax by (unfold g; rewrite qg_rmax; reflexivity).
    replace (g_odd g) with odd by (unfold g; rewrite qg_odd; reflexivity).
    pose proof (wf_image bs odd c) as WB. rewrite Ebs in WB |- *. cbn [fst snd] in WB.
    destruct (out_same_shape_origin R 0 h w row col rmax N Hrow Hcol odd _ WB) as [WS PS].
    unfold RbasexProofs.gq in WS, PS. fold g in WS, PS.
    split.
    - unfold shape_of. destruct WS as [L F]. rewrite L. f_equal.
      match goal with |- context [hd [] ?X] => destruct X as [|r0 rs] end; [cbn in L; lia|].
      cbn [hd]. inversion F; assumption.
    - rewrite PS by assumption. unfold image.
      rewrite px_tab; [reflexivity| |].
      + unfold out_dims, g. rewrite qg_odd, qg_h, qg_VER. cbn [fst snd].
        destruct odd; [lia|]. unfold dist. destruct (Nat.leb_spec i row); lia.
      + unfold out_dims, g. rewrite qg_HOR. cbn [fst snd].
        unfold dist. destruct (Nat.leb_spec j col); lia.
  Qed.
End Composite.

(* ---- all out values return the same distributions (structural) --------------------- *)
(* rbasex_transform returns (image or None, profiles): the profiles c are
   computed before `out` is looked at (rbasex.py:181-216) *)
Definition rbasex_result (cache : ibs_cache) (out : option outv) (g : geom) (c : list (list R))
  : option (list (list R)) * list (list R) :=
  (match out with None => None | Some o => Some (recon Rops sqrtR cache o g c) end, c).

Theorem distr_independent_of_out cache cache' out out' g c :
  snd (rbasex_result cache out g c) = snd (rbasex_result cache' out' g c).
Proof. reflexivity. Qed.

(* ---- the image does not depend on earlier calls (image-basis cache) ------------------ *)
(* invariant of the cache while _dst stays the same: the stored arrays are
   those of the stored request *)
Definition cache_ok (g : geom) (cache : ibs_cache) : Prop :=
  match cache with Some (k, bs) => bs = fresh_ibs g k | None => True end.

Lemma req_eqb_eq a b : req_eqb a b = true -> a = b.
Proof.
  destruct a as [[a1 a2] a3], b as [[b1 b2] b3]. unfold req_eqb. cbn [fst snd]. intros H.
  apply andb_true_iff in H. destruct H as [H H3]. apply andb_true_iff in H. destruct H as [H1 H2].
  apply Nat.eqb_eq in H1, H2, H3. subst. reflexivity.
Qed.

Lemma get_image_bs_fresh g cache req : cache_ok g cache ->
  fst (get_image_bs cache g req) = fresh_ibs g req /\ cache_ok g (snd (get_image_bs cache g req)).
Proof.
  unfold get_image_bs, cache_ok. destruct cache as [[k bs]|]; intros H.
  - destruct (req_eqb k req) eqn:E; cbn [fst snd].
    + apply req_eqb_eq in E. subst k. split; [exact H|exact H].
    + split; reflexivity.
  - cbn [fst snd]. split; reflexivity.
Qed.

Lemma cache_after_history_ok g history : cache_ok g (cache_after_history g history).
Proof.
  unfold cache_after_history.
  assert (G : forall st, cache_ok g st -> cache_ok g (fold_left (fun st o => cache_after st o g) history st)).
  { induction history as [|o hs IH]; intros st Hst; cbn [fold_left]; [exact Hst|].
    apply IH. unfold cache_after. apply get_image_bs_fresh. exact Hst. }
  apply G. exact I.
Qed.

(* after any history of calls with the same image parameters (any out values,
   no clean-up) the returned image is the one a fresh cache gives *)
Theorem ibs_history_independent (A : Type) (O : field_ops A) (sqrtn : nat -> A) g history out c :
  recon O sqrtn (cache_after_history g history) out g c = recon O sqrtn None out g c.
Proof.
  unfold recon.
  destruct (get_image_bs_fresh g (cache_after_history g history) (out_dims out g)
                               (cache_after_history_ok g history)) as [E _].
  rewrite E. reflexivity.
Qed.

(* ---- invalid radii ---------------------------------------------------------------------- *)
(* get_bs_cached masks the rows of the transform matrices at radii without
   valid data (rbasex.py:617-623, 658); c_n = A_n . p_n (rbasex.py:208) *)
Definition mask_rows (valid : list bool) (M : list (list R)) : list (list R) :=
  map (fun p : bool * list R => if fst p then snd p else map (fun _ : R => 0) (snd p)) (combine valid M).

Lemma dot_zero_row (v u : list R) : dot 0 Rplus Rmult (map (fun _ : R => 0) v) u = 0.
Proof.
  unfold dot. assert (G : forall acc, fold_left Rplus (map (fun p => fst p * snd p) (combine (map (fun _ : R => 0) v) u)) acc = acc).
  { revert u. induction v as [|x v IH]; intros u acc; cbn [map combine fold_left]; [reflexivity|].
    destruct u as [|y u]; cbn [map combine fold_left fst snd]; [reflexivity|]. rewrite IH. ring. }
  apply G.
Qed.

Lemma combine_nth_lt {X Y : Type} (l : list X) (l' : list Y) r x y :
  (r < length l)%nat -> (r < length l')%nat -> nth r (combine l l') (x, y) = (nth r l x, nth r l' y).
Proof.
  revert l' r. induction l as [|a l IH]; intros [|b l'] [|r] H1 H2; cbn in *; try lia; try reflexivity.
  apply IH; lia.
Qed.

Theorem invalid_radii_zero valid (M : list (list R)) (p : list R) r :
  (r < length M)%nat -> (r < length valid)%nat -> nth r valid true = false ->
  nth r (matvec 0 Rplus Rmult (mask_rows valid M) p) 0 = 0.
Proof.
  intros HM HV Hr. unfold matvec, mask_rows. rewrite map_map.
  rewrite (nth_map_gen _ (combine valid M) r 0 (true, [])) by (rewrite combine_length; lia).
  rewrite combine_nth_lt by lia.
  cbn [fst snd]. rewrite Hr. apply dot_zero_row.
Qed.
