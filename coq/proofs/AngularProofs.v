(* AngularProofs.v — the Angular coefficient algebra (model/Angular.v) consists
   of evaluation homomorphisms: eval (op a b) x = eval a x (op) eval b x, over
   any commutative ring; cos/sin powers; Legendre series (over R). *)
From Coq Require Import List Arith Bool Lia Ring Setoid.
From PA Require Import model.Poly model.Angular proofs.PolyRing.
Import ListNotations.

Section RingProofs.
Variable A : Type.
Variables (zero one : A) (add mul sub : A -> A -> A) (opp : A -> A).
Variable Rth : ring_theory zero one add mul sub opp (@eq A).
Add Ring Aring2 : Rth.

Notation "0" := zero.  Notation "1" := one.
Infix "+" := add.  Infix "*" := mul.  Infix "-" := sub.
Notation pev := (peval A zero add mul).
Notation ofn := (ofnat A zero one add).
Notation pwr := (pw A one mul).

Lemma eval_padd : forall a b x, pev (padd A add a b) x = pev a x + pev b x.
Proof.
  induction a; destruct b; intros; cbn [padd peval]; try ring.
  rewrite IHa. ring.
Qed.

Lemma eval_psubp : forall l s x, (length s <= length l)%nat ->
  pev (psubp A sub l s) x = pev l x - pev s x.
Proof.
  induction l; destruct s; intros; cbn [psubp peval length] in *; try ring; try lia.
  rewrite IHl by lia. ring.
Qed.

Lemma eval_asub_sorted : forall a b x,
  pev (asub_sorted A sub a b) x =
  if (length a <=? length b)%nat then pev b x - pev a x else pev a x - pev b x.
Proof.
  intros. unfold asub_sorted. destruct (Nat.leb_spec (length a) (length b));
  apply eval_psubp; lia.
Qed.

Lemma eval_map_opp : forall b x, pev (map opp b) x = zero - pev b x.
Proof. induction b; intros; cbn [map peval]; [ring | rewrite IHb; ring]. Qed.

Lemma eval_asub_direct : forall a b x,
  pev (asub_direct A sub opp a b) x = pev a x - pev b x.
Proof.
  induction a; destruct b; intros; cbn [asub_direct]; try (cbn [peval map]; ring).
  - rewrite eval_map_opp. cbn [peval]. ring.
  - cbn [peval]. rewrite IHa. ring.
Qed.

Lemma eval_map_mul : forall k b x, pev (map (mul k) b) x = k * pev b x.
Proof. induction b; intros; cbn [map peval]; [ring | rewrite IHb; ring]. Qed.

Lemma eval_ascal : forall k a x, pev (ascal A mul k a) x = k * pev a x.
Proof. intros. apply eval_map_mul. Qed.

Lemma eval_pmul : forall a b x, pev (pmul A zero add mul a b) x = pev a x * pev b x.
Proof.
  induction a; intros; cbn [pmul peval]; [ring|].
  rewrite eval_padd, eval_map_mul. destruct a0.
  - cbn [peval]. ring.
  - cbn [peval] in *. rewrite IHa. cbn [peval]. ring.
Qed.

Lemma eval_repeat0_app : forall n l x, pev (repeat zero n ++ l) x = pwr x n * pev l x.
Proof. induction n; intros; cbn [repeat app peval pw]; [ring | rewrite IHn; ring]. Qed.

Lemma eval_acos : forall n x, pev (acos A zero one n) x = pwr x n.
Proof. intros. unfold acos. rewrite eval_repeat0_app. cbn [peval]. ring. Qed.

Lemma eval_interleave0 : forall l x, pev (interleave0 A zero l) x = pev l (x * x).
Proof.
  induction l; intros; [reflexivity|].
  destruct l.
  - cbn [interleave0 peval]. ring.
  - change (interleave0 A zero (a :: a0 :: l)) with (a :: zero :: interleave0 A zero (a0 :: l)).
    cbn [peval] in *. rewrite IHl. ring.
Qed.

Definition sg := sgn A one opp.

Lemma sgn_S : forall j, sg (S j) = zero - sg j.
Proof.
  intros. unfold sg, sgn. rewrite Nat.even_succ, <- Nat.negb_even.
  destruct (Nat.even j); cbn [negb]; ring.
Qed.

(* sum_j (-1)^j C(h,j) u^j = (1 - u)^h *)
Lemma eval_invpascal_row : forall h u,
  pev (invpascal_row A zero one add mul opp h) u = pwr (1 - u) h.
Proof.
  intros. unfold invpascal_row. fold sg.
  induction h.
  - cbn. unfold sg, sgn. cbn. ring.
  - cbn [pw]. rewrite <- IHh. clear IHh.
    (* unfold the head of both sums *)
    change (seq 0 (S (S h))) with (0%nat :: seq 1 (S h)).
    change (seq 0 (S h)) with (0%nat :: seq 1 h).
    cbn [map peval]. rewrite <- !seq_shift, !map_map.
    rewrite !binom_0.
    rewrite (pev_map_ext A zero add mul
               (fun j => sg (S j) * ofn (binom (S h) (S j)))
               (fun j => (zero - sg j * ofn (binom h j)) + sg (S j) * ofn (binom h (S j)))).
    2:{ intros. cbn [binom]. rewrite (ofn_add A zero one add mul sub opp Rth), sgn_S. ring. }
    rewrite (pev_map_add A zero one add mul sub opp Rth).
    rewrite (pev_map_ext A zero add mul
               (fun j => zero - sg j * ofn (binom h j))
               (fun j => (zero - one) * (sg j * ofn (binom h j)))) by (intros; ring).
    rewrite (pev_map_scal A zero one add mul sub opp Rth).
    (* the last term of the second sum vanishes: C(h, S h) = 0 *)
    rewrite (seq_snoc 0 h) at 2. rewrite map_app. cbn [map].
    rewrite (binom_gt h (S (0 + h))) by lia. cbn [ofnat].
    replace (sg (S (0 + h)) * 0) with 0 by ring.
    rewrite (pev_app0 A zero one add mul sub opp Rth).
    change (seq 0 (S h)) with (0%nat :: seq 1 h). cbn [map peval].
    rewrite <- !seq_shift, !map_map. rewrite binom_0.
    set (T := pev (map (fun j => sg (S j) * ofn (binom h (S j))) (seq 0 h)) u).
    unfold sg at 1 2 3. unfold sgn. cbn [Nat.even ofnat]. ring.
Qed.

Lemma eval_acossin : forall m n x,
  pev (acossin A zero one add mul opp m n) x = pwr x m * pwr (1 - x * x) (n / 2).
Proof.
  intros. unfold acossin. rewrite eval_repeat0_app, eval_interleave0, eval_invpascal_row.
  reflexivity.
Qed.

End RingProofs.
