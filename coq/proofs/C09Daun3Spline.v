(* proofs/C09Daun3Spline.v — daun degree 3: the row shuffle of _bs_daun
     C = solve_banded((1,1), (0 1..1 0 | 4..4 | 0 1..1 0), 3*B)[1:-1, 1:-1]
     A[2:, 1:-1] += C ;  A[:-2, 1:-1] -= C
   gives exactly the Hermite combination with the clamped-spline slopes.
   Linear algebra only (finite sums): the interior system is tridiagonal and
   SYMMETRIC, so for  S m = rhs  and  S x = 3 b :  rhs . x = m . S x = 3 m . b .
   Conventions: n = S N knots 0..N; sequences on nat; prev f 0 = 0;
   tri3 f k = f (k-1) + 4 f k + f (k+1). *)
From Coq Require Import Reals ZArith Bool Lra Lia Arith.
From Coquelicot Require Import Coquelicot.
From PA Require Import model.Abel proofs.AbelLemmas proofs.C09Daun proofs.C09Daun2 proofs.C09Daun3
  proofs.ExactOnSpan proofs.C09Daun3Comb gen.FormulasBasis.
Open Scope R_scope.

Definition prev (f : nat -> R) (k : nat) : R := match k with O => 0 | S k' => f k' end.
Definition tri3 (f : nat -> R) (k : nat) : R := prev f k + 4 * f k + f (S k).

Lemma sumn_shift N (m x : nat -> R) :
  sumn (S N) (fun k => prev m k * x k) = sumn N (fun k => m k * x (S k)).
Proof.
  induction N as [|N IH].
  - simpl. ring.
  - change (sumn (S (S N)) (fun k => prev m k * x k))
      with (sumn (S N) (fun k => prev m k * x k) + prev m (S N) * x (S N)).
    rewrite IH. simpl. ring.
Qed.

(* symmetry of the tridiagonal (1, 4, 1) form on sequences vanishing at the last knot *)
Lemma tri3_symmetric N (m x : nat -> R) : m N = 0 -> x N = 0 ->
  sumn (S N) (fun k => tri3 m k * x k) = sumn (S N) (fun k => m k * tri3 x k).
Proof.
  intros Hm Hx. unfold tri3.
  rewrite (sumn_ext (S N) _ (fun k => (prev m k * x k + 4 * (m k * x k)) + m (S k) * x k)) by (intros; ring).
  rewrite (sumn_ext (S N) (fun k => m k * _) (fun k => (x k * prev x k * 0 + (prev x k * m k + 4 * (m k * x k))) + m k * x (S k)))
    by (intros; ring).
  rewrite !sumn_plus, !sumn_scal_l.
  rewrite (sumn_shift N m x), (sumn_shift N x m).
  rewrite (sumn_ext (S N) (fun k => x k * prev x k * 0) (fun _ => 0)) by (intros; ring). rewrite sumn_zero.
  simpl sumn. rewrite Hm, Hx.
  rewrite (sumn_ext N (fun k => x k * m (S k)) (fun k => m (S k) * x k)) by (intros; ring). ring.
Qed.

Lemma sumn_delta_out n c t : (n <= t)%nat -> sumn n (fun k => c k * delta k t) = 0.
Proof.
  intros H. rewrite (sumn_ext n _ (fun _ => 0)); [apply sumn_zero|].
  intros k Hk. unfold delta. destruct (Nat.eqb_spec k t); [lia|ring].
Qed.

Lemma sumn_delta_succ n c j : (j <= n)%nat ->
  sumn n (fun k => c k * delta j (S k)) = prev c j.
Proof.
  intros Hj. destruct j as [|j'].
  - rewrite (sumn_ext n _ (fun _ => 0)); [apply sumn_zero|]. intros k Hk. unfold delta. simpl. ring.
  - rewrite (sumn_ext n _ (fun k => c k * delta k j')).
    + change (prev c (S j')) with (c j'). apply sumn_delta. lia.
    + intros k Hk. unfold delta. simpl Nat.eqb. rewrite (Nat.eqb_sym j' k). reflexivity.
Qed.

Section Spline.
  Variables (N j : nat) (i : Z) (m x : nat -> R).
  Hypothesis Hj : (j <= N)%nat.
  Hypothesis Hi : (0 <= i)%Z.
  (* slopes of the cardinal clamped spline of knot j: zero end slopes, C^2 at the interior knots *)
  Hypothesis Hm0 : m O = 0.
  Hypothesis HmN : m N = 0.
  Hypothesis Hm : forall k, (1 <= k < N)%nat -> tri3 m k = 3 * (delta j (S k) - delta k (S j)).
  (* the interior rows of the banded solve for pixel column i: x k = X[k][i], cropped rows = 0 *)
  Hypothesis Hx0 : x O = 0.
  Hypothesis HxN : x N = 0.
  Hypothesis Hx : forall k, (1 <= k < N)%nat -> tri3 x k = 3 * daun_q3 (Z.of_nat k) i.

  Lemma slopes_dot_B :
    sumn (S N) (fun k => m k * daun_q3 (Z.of_nat k) i) = prev x j - (if (S j <? S N)%nat then x (S j) else 0).
  Proof.
    apply Rmult_eq_reg_l with 3; [|lra].
    rewrite <- sumn_scal_l.
    rewrite (sumn_ext (S N) _ (fun k => m k * tri3 x k)).
    2:{ intros k Hk. destruct (Nat.eq_dec k 0) as [->|]; [rewrite Hm0; ring|].
        destruct (Nat.eq_dec k N) as [->|]; [rewrite HmN; ring|]. rewrite Hx by lia. ring. }
    rewrite <- tri3_symmetric by assumption.
    rewrite (sumn_ext (S N) _ (fun k => 3 * (x k * delta j (S k)) - 3 * (x k * delta k (S j)))).
    2:{ intros k Hk. destruct (Nat.eq_dec k 0) as [->|]; [rewrite Hx0; ring|].
        destruct (Nat.eq_dec k N) as [->|]; [rewrite HxN; ring|]. rewrite Hm by lia. ring. }
    unfold Rminus. rewrite sumn_plus.
    rewrite (sumn_ext (S N) (fun k => - (3 * (x k * delta k (S j)))) (fun k => (-3) * (x k * delta k (S j)))) by (intros; ring).
    rewrite !sumn_scal_l. rewrite sumn_delta_succ by lia.
    destruct (Nat.ltb_spec (S j) (S N)).
    - rewrite sumn_delta by lia. ring.
    - rewrite sumn_delta_out by lia. ring.
  Qed.

  (* the degree-3 row of _bs_daun after the shuffle is the projection of the spline *)
  Theorem daun3_spline_entry :
    daun_p3 (Z.of_nat j) i + prev x j - (if (S j <? S N)%nat then x (S j) else 0)
    = Abel (hermite_comb j m (S N)) (zc (S N)) (IZR i).
  Proof.
    rewrite daun3_hermite_combination by (assumption || lia).
    rewrite slopes_dot_B. ring.
  Qed.
End Spline.

(* ---- edge columns: the code adds no correction at pixels 0 and N, and indeed
   the right-hand sides of the banded system vanish there, so x = 0 solves it ---- *)
Lemma daun_q3_beyond (k i : Z) : (0 <= k)%Z -> (k + 1 <= i)%Z -> daun_q3 k i = 0.
Proof. intros Hk Hi. unfold daun_q3. zconds; ring. Qed.

Lemma Pt3_axis Rc a b c d : 0 < Rc ->
  Pt3 Rc a b c d 0 = Rc * (a * 2 + (b + (c * 2 / 3 + d * Rc / 2) * Rc) * Rc).
Proof.
  intros H. rewrite Pt3_above by lra.
  replace (Rc ^ 2 - 0 ^ 2) with (Rc * Rc) by ring. rewrite sqrt_square by lra. ring.
Qed.

Lemma Abel_herm_q_axis c : 1 <= c -> Abel (herm_q c) (c + 1) 0 = 0.
Proof.
  intros Hc. rewrite Abel_herm_q by lra.
  rewrite 2!Pt3_axis by lra.
  destruct (Rle_lt_or_eq_dec 1 c Hc) as [H|H].
  - rewrite Pt3_axis by lra. field.
  - subst c. rewrite Pt3_below by lra. field.
Qed.

Lemma daun_q3_pixel0 (k : Z) : (1 <= k)%Z -> daun_q3 k 0 = 0.
Proof.
  intros Hk. rewrite daun3q_entry by lia. apply Abel_herm_q_axis. apply IZR_le. lia.
Qed.

Theorem daun3_spline_entry_edge (N j : nat) (i : Z) (m : nat -> R) :
  (j <= N)%nat -> (i = 0 \/ Z.of_nat N <= i)%Z ->
  m O = 0 -> m N = 0 ->
  (forall k, (1 <= k < N)%nat -> tri3 m k = 3 * (delta j (S k) - delta k (S j))) ->
  daun_p3 (Z.of_nat j) i = Abel (hermite_comb j m (S N)) (zc (S N)) (IZR i).
Proof.
  intros Hj Hi Hm0 HmN Hm.
  rewrite <- (daun3_spline_entry N j i m (fun _ => 0) Hj ltac:(lia) Hm0 HmN Hm eq_refl eq_refl).
  - simpl. destruct (S j <? S N)%nat; destruct j; simpl; ring.
  - intros k Hk.
    assert (E : daun_q3 (Z.of_nat k) i = 0)
      by (destruct Hi as [->|Hi]; [apply daun_q3_pixel0; lia|apply daun_q3_beyond; lia]).
    rewrite E. unfold tri3, prev. destruct k; ring.
Qed.
