(* OriginProofs.v — one-dimensional theorems about the origin finders
   (model/Origin.v over R): centre of mass and autoconvolution of a profile
   that is symmetric about a point of the half-pixel grid; translation and
   scaling. *)
From Coq Require Import List Arith Lia Bool ZArith Reals Lra ZifyBool ZifyNat.
From PA Require Import base.Arr model.Origin proofs.OriginSums.
Import ListNotations.

Local Open Scope R_scope.

Definition Rltb (a b : R) : bool := if Rlt_dec a b then true else false.
Definition sumR := sum 0 Rplus.
Definition wsumR := wsum 0 Rplus Rmult INR.
Definition com_axisR := com_axis 0 Rplus Rmult Rdiv INR.
Definition conv_atR := conv_at 0 Rplus Rmult.
Definition autoconvR := autoconv 0 Rplus Rmult.
Definition argmaxR := argmax Rltb.
Definition conv_axisR := conv_axis 0 Rplus Rmult Rdiv INR Rltb.
Definition proj0R := proj0 0 Rplus.
Definition proj1R := proj1 0 Rplus.
Definition find_originR := find_origin 0 Rplus Rmult Rdiv INR Rltb.

(* the profile p (zero outside its frame) is symmetric about s/2 *)
Definition sym1 (p : list R) (s : Z) : Prop := forall k : Z, pz p k = pz p (s - k).

Lemma zs_two_windows f a b len :
  (forall k, (k < a \/ a + Z.of_nat len <= k)%Z -> f k = 0) ->
  (forall k, (k < b \/ b + Z.of_nat len <= k)%Z -> f k = 0) ->
  zs f a len = zs f b len.
Proof.
  intros Ha Hb.
  set (u := Z.max a b). set (v := Z.min (a + Z.of_nat len) (b + Z.of_nat len)).
  destruct (Z_le_gt_dec u v) as [Huv|Huv].
  - apply (zs_window2 f u v); try lia.
    intros k Hk. destruct (Z_lt_ge_dec k a); [apply Ha; lia|].
    destruct (Z_lt_ge_dec k b); [apply Hb; lia|].
    destruct (Z_lt_ge_dec k (a + Z.of_nat len)); [apply Hb; lia|apply Ha; lia].
  - rewrite (zs_zero f a len) by (intros k Hk; apply Hb; lia).
    rewrite (zs_zero f b len) by (intros k Hk; apply Ha; lia). reflexivity.
Qed.

(* ---- links between the list model and sums over Z --------------------------- *)
Lemma sumR_zs p : sumR p = zs (pz p) 0 (length p).
Proof. apply sum_zs. Qed.

Lemma wsum_from_zs j p :
  wsum_from 0 Rplus Rmult INR j p = zs (fun k => (IZR k + INR j) * pz p k) 0 (length p).
Proof.
  revert j; induction p as [|x t IH]; intros j; cbn [wsum_from length zs]; [reflexivity|].
  rewrite pz_cons0. rewrite IH. f_equal; [lra|].
  rewrite <- (zs_shift (fun k => (IZR k + INR j) * pz (x :: t) k) 1 0). apply zs_ext. intros k Hk.
  rewrite pz_cons by lia. replace (k + 1 - 1)%Z with k by lia.
  rewrite plus_IZR, S_INR. lra.
Qed.

Lemma wsumR_zs p : wsumR p = zs (fun k => IZR k * pz p k) 0 (length p).
Proof.
  unfold wsumR, wsum. rewrite wsum_from_zs. apply zs_ext. intros k _. cbn [INR]. lra.
Qed.

(* ---- centre of mass ------------------------------------------------------------ *)
Lemma sym_support p s k : sym1 p s -> (k < s - Z.of_nat (length p) + 1 \/ s + 1 <= k)%Z -> pz p k = 0.
Proof. intros H Hk. rewrite (H k). apply pz_out. lia. Qed.

Lemma com_symmetric_sum p s : sym1 p s -> 2 * wsumR p = IZR s * sumR p.
Proof.
  intros H. set (n := length p).
  set (g := fun k => (2 * IZR k - IZR s) * pz p k).
  assert (G : zs g 0 n = 0).
  { assert (Ganti : forall k, g (s - k)%Z = -1 * g k).
    { intros k. unfold g. rewrite <- (H k). rewrite minus_IZR. lra. }
    assert (Gout : forall k, (k < 0 \/ 0 + Z.of_nat n <= k)%Z -> g k = 0).
    { intros k Hk. unfold g. rewrite pz_out by (fold n; lia). lra. }
    assert (Gout2 : forall k, (k < s - Z.of_nat n + 1 \/ s - Z.of_nat n + 1 + Z.of_nat n <= k)%Z -> g k = 0).
    { intros k Hk. unfold g. rewrite (sym_support p s k H) by (fold n; lia). lra. }
    assert (E1 : zs g 0 n = zs g (s - Z.of_nat n + 1) n) by (apply zs_two_windows; assumption).
    assert (E2 : zs (fun k => g (s - k)%Z) 0 n = zs g (s - Z.of_nat n + 1) n).
    { rewrite zs_refl. f_equal. lia. }
    assert (E3 : zs (fun k => g (s - k)%Z) 0 n = -1 * zs g 0 n).
    { rewrite <- zs_scal. apply zs_ext. intros k _. apply Ganti. }
    lra. }
  unfold g in G.
  rewrite (zs_ext _ (fun k => 2 * (IZR k * pz p k) + (- IZR s) * pz p k)) in G by (intros; lra).
  rewrite zs_plus, !zs_scal in G. rewrite wsumR_zs, sumR_zs. fold n. lra.
Qed.

(* centre of mass of a symmetric profile with non-zero total = its centre *)
Theorem com_symmetric_1d p s : sym1 p s -> sumR p <> 0 -> com_axisR p = IZR s / 2.
Proof.
  intros H Hs. unfold com_axisR, com_axis. fold (wsumR p) (sumR p).
  pose proof (com_symmetric_sum p s H).
  replace (wsumR p) with (IZR s * sumR p / 2) by lra. field. exact Hs.
Qed.

(* translation by a whole pixels (the content stays inside the frame) *)
Theorem com_shift_1d p p' a :
  length p' = length p -> (forall k, pz p' k = pz p (k - a)) -> sumR p <> 0 ->
  sumR p' = sumR p /\ com_axisR p' = com_axisR p + IZR a.
Proof.
  intros Hl H Hs. set (n := length p) in *.
  assert (Sup : forall k, (k < - a \/ - a + Z.of_nat n <= k)%Z -> pz p k = 0).
  { intros k Hk. replace k with (k + a - a)%Z by lia. rewrite <- H. apply pz_out. rewrite Hl. lia. }
  assert (S1 : sumR p' = sumR p).
  { rewrite !sumR_zs, Hl. fold n.
    rewrite (zs_ext _ (fun k => pz p (k + - a)%Z)) by (intros; rewrite H; f_equal; lia).
    rewrite zs_shift. apply zs_two_windows.
    - exact Sup.
    - intros k Hk. apply pz_out. fold n. lia. }
  assert (S2 : wsumR p' = wsumR p + IZR a * sumR p).
  { rewrite !wsumR_zs, sumR_zs, Hl. fold n.
    set (h := fun k => (IZR k + IZR a) * pz p k).
    rewrite (zs_ext _ (fun k => h (k + - a)%Z)).
    2:{ intros k _. unfold h. rewrite H. rewrite plus_IZR, opp_IZR.
        replace (k - a)%Z with (k + - a)%Z by lia. lra. }
    rewrite zs_shift.
    rewrite (zs_two_windows h (0 + - a) 0 n).
    - unfold h. rewrite (zs_ext _ (fun k => IZR k * pz p k + IZR a * pz p k)) by (intros; lra).
      rewrite zs_plus, zs_scal. reflexivity.
    - intros k Hk. unfold h. rewrite Sup by lia. lra.
    - intros k Hk. unfold h. rewrite pz_out by (fold n; lia). lra. }
  split; [exact S1|].
  unfold com_axisR, com_axis. fold (wsumR p) (sumR p) (wsumR p') (sumR p').
  rewrite S1, S2. field. exact Hs.
Qed.

(* multiplication by a non-zero constant *)
Lemma sum_scale c p : sumR (map (Rmult c) p) = c * sumR p.
Proof. induction p as [|x t IH]; cbn; [lra|]. unfold sumR, sum in IH. rewrite IH. lra. Qed.

Lemma wsum_from_scale c j p :
  wsum_from 0 Rplus Rmult INR j (map (Rmult c) p) = c * wsum_from 0 Rplus Rmult INR j p.
Proof. revert j; induction p as [|x t IH]; intros j; cbn [map wsum_from]; [lra|]. rewrite IH. lra. Qed.

Theorem com_scale_1d c p : c <> 0 -> sumR p <> 0 -> com_axisR (map (Rmult c) p) = com_axisR p.
Proof.
  intros Hc Hs. unfold com_axisR, com_axis, wsum. fold (sumR (map (Rmult c) p)) (sumR p).
  rewrite sum_scale, wsum_from_scale. field. split; assumption.
Qed.
