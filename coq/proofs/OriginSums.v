(* OriginSums.v — finite sums of real functions over integer intervals
   (zs f a len = f a + f (a+1) + ... + f (a+len-1)) with the re-indexing
   lemmas (reflection, translation, change of window for functions of finite
   support) used by the origin-finder theorems, and the link with lists. *)
From Coq Require Import List Arith Lia Bool ZArith Reals Lra ZifyBool ZifyNat.
Import ListNotations.


Local Open Scope R_scope.

Fixpoint zs (f : Z -> R) (a : Z) (len : nat) : R :=
  match len with
  | O => 0
  | S l => f a + zs f (a + 1) l
  end.

Lemma zs_ext f g a len :
  (forall k, (a <= k < a + Z.of_nat len)%Z -> f k = g k) -> zs f a len = zs g a len.
Proof.
  revert a; induction len as [|l IH]; intros a H; cbn [zs]; [reflexivity|].
  rewrite (H a) by lia. rewrite (IH (a + 1)%Z); [reflexivity|]. intros k Hk. apply H. lia.
Qed.

Lemma zs_split f a l1 l2 : zs f a (l1 + l2) = zs f a l1 + zs f (a + Z.of_nat l1) l2.
Proof.
  revert a; induction l1 as [|l IH]; intros a.
  - cbn [zs plus]. replace (a + Z.of_nat 0)%Z with a by lia. lra.
  - cbn [zs plus]. rewrite IH. replace (a + 1 + Z.of_nat l)%Z with (a + Z.of_nat (S l))%Z by lia. lra.
Qed.

Lemma zs_snoc f a l : zs f a (S l) = zs f a l + f (a + Z.of_nat l)%Z.
Proof.
  replace (S l) with (l + 1)%nat by lia. rewrite zs_split. cbn [zs]. lra.
Qed.

Lemma zs_zero f a len : (forall k, (a <= k < a + Z.of_nat len)%Z -> f k = 0) -> zs f a len = 0.
Proof.
  revert a; induction len as [|l IH]; intros a H; cbn [zs]; [reflexivity|].
  rewrite (H a) by lia. rewrite IH; [lra|]. intros k Hk. apply H. lia.
Qed.

Lemma zs_plus f g a len : zs (fun k => f k + g k) a len = zs f a len + zs g a len.
Proof. revert a; induction len as [|l IH]; intros a; cbn [zs]; [lra|]. rewrite IH. lra. Qed.

Lemma zs_scal c f a len : zs (fun k => c * f k) a len = c * zs f a len.
Proof. revert a; induction len as [|l IH]; intros a; cbn [zs]; [lra|]. rewrite IH. lra. Qed.

Lemma zs_le f g a len :
  (forall k, (a <= k < a + Z.of_nat len)%Z -> f k <= g k) -> zs f a len <= zs g a len.
Proof.
  revert a; induction len as [|l IH]; intros a H; cbn [zs]; [lra|].
  assert (f a <= g a) by (apply H; lia).
  assert (zs f (a + 1) l <= zs g (a + 1) l) by (apply IH; intros k Hk; apply H; lia). lra.
Qed.

Lemma zs_nonneg f a len : (forall k, (a <= k < a + Z.of_nat len)%Z -> 0 <= f k) -> 0 <= zs f a len.
Proof.
  intros H. rewrite <- (zs_zero (fun _ => 0) a len) by reflexivity. apply zs_le. exact H.
Qed.

(* translation and reflection of the summation index *)
Lemma zs_shift f d a len : zs (fun k => f (k + d)%Z) a len = zs f (a + d) len.
Proof.
  revert a; induction len as [|l IH]; intros a; cbn [zs]; [reflexivity|].
  rewrite IH. replace (a + 1 + d)%Z with (a + d + 1)%Z by lia. reflexivity.
Qed.

Lemma zs_refl f c a len :
  zs (fun k => f (c - k)%Z) a len = zs f (c - a - Z.of_nat len + 1) len.
Proof.
  revert a; induction len as [|l IH]; intros a; [reflexivity|].
  rewrite (zs_snoc f (c - a - Z.of_nat (S l) + 1) l). cbn [zs]. rewrite IH.
  replace (c - (a + 1) - Z.of_nat l + 1)%Z with (c - a - Z.of_nat (S l) + 1)%Z by lia.
  replace (c - a - Z.of_nat (S l) + 1 + Z.of_nat l)%Z with (c - a)%Z by lia. lra.
Qed.

(* a function vanishing outside [u, v) has the same sum over every window
   that contains [u, v) *)
Lemma zs_window f u v a len :
  (forall k, (k < u \/ v <= k)%Z -> f k = 0) -> (a <= u)%Z -> (u <= v)%Z -> (v <= a + Z.of_nat len)%Z ->
  zs f a len = zs f u (Z.to_nat (v - u)).
Proof.
  intros H Hu Huv Hv.
  replace len with (Z.to_nat (u - a) + (Z.to_nat (v - u) + Z.to_nat (a + Z.of_nat len - v)))%nat by lia.
  rewrite !zs_split.
  rewrite (zs_zero f a) by (intros k Hk; apply H; lia).
  replace (a + Z.of_nat (Z.to_nat (u - a)))%Z with u by lia.
  rewrite (zs_zero f (u + Z.of_nat (Z.to_nat (v - u)))) by (intros k Hk; apply H; lia). lra.
Qed.

Lemma zs_window2 f u v a len a' len' :
  (forall k, (k < u \/ v <= k)%Z -> f k = 0) -> (u <= v)%Z ->
  (a <= u)%Z -> (v <= a + Z.of_nat len)%Z -> (a' <= u)%Z -> (v <= a' + Z.of_nat len')%Z ->
  zs f a len = zs f a' len'.
Proof.
  intros H Huv H1 H2 H3 H4.
  rewrite (@zs_window f u v a len), (@zs_window f u v a' len'); auto.
Qed.

(* a non-negative function vanishing outside [u, v): no window sums to more
   than the whole *)
Lemma zs_sub_le f u v a len :
  (forall k, 0 <= f k) -> (forall k, (k < u \/ v <= k)%Z -> f k = 0) -> (u <= v)%Z ->
  zs f a len <= zs f u (Z.to_nat (v - u)).
Proof.
  intros Hpos H Huv.
  set (a' := Z.min a u). set (e' := Z.max (a + Z.of_nat len) v).
  rewrite <- (@zs_window f u v a' (Z.to_nat (e' - a'))) by (auto; lia).
  replace (Z.to_nat (e' - a')) with (Z.to_nat (a - a') + (len + Z.to_nat (e' - (a + Z.of_nat len))))%nat by lia.
  rewrite !zs_split.
  replace (a' + Z.of_nat (Z.to_nat (a - a')))%Z with a by lia.
  assert (0 <= zs f a' (Z.to_nat (a - a'))) by (apply zs_nonneg; intros; apply Hpos).
  assert (0 <= zs f (a + Z.of_nat len) (Z.to_nat (e' - (a + Z.of_nat len)))) by (apply zs_nonneg; intros; apply Hpos).
  lra.
Qed.

Lemma zs_nonneg_eq0 f a len :
  (forall k, (a <= k < a + Z.of_nat len)%Z -> 0 <= f k) -> zs f a len = 0 ->
  forall k, (a <= k < a + Z.of_nat len)%Z -> f k = 0.
Proof.
  revert a; induction len as [|l IH]; intros a Hpos Hz k Hk; [lia|].
  cbn [zs] in Hz.
  assert (0 <= f a) by (apply Hpos; lia).
  assert (0 <= zs f (a + 1) l) by (apply zs_nonneg; intros j Hj; apply Hpos; lia).
  destruct (Z.eq_dec k a) as [->|Hne]; [lra|].
  apply (IH (a + 1)%Z); [intros j Hj; apply Hpos; lia|lra|lia].
Qed.

Lemma zs_swap (f : Z -> Z -> R) a l1 b l2 :
  zs (fun i => zs (fun j => f i j) b l2) a l1 = zs (fun j => zs (fun i => f i j) a l1) b l2.
Proof.
  revert a; induction l1 as [|l IH]; intros a; cbn [zs].
  - symmetry. apply zs_zero. reflexivity.
  - rewrite IH. rewrite <- zs_plus. reflexivity.
Qed.

(* ---- lists ---------------------------------------------------------------- *)
(* element of the zero-extended list *)
Definition pz (l : list R) (k : Z) : R := if (k <? 0)%Z then 0 else nth (Z.to_nat k) l 0.

Lemma pz_out l k : (k < 0 \/ Z.of_nat (length l) <= k)%Z -> pz l k = 0.
Proof.
  intros H. unfold pz. destruct (Z.ltb_spec k 0); [reflexivity|].
  apply nth_overflow. lia.
Qed.

Lemma pz_nat l i : pz l (Z.of_nat i) = nth i l 0.
Proof. unfold pz. destruct (Z.ltb_spec (Z.of_nat i) 0); [lia|]. rewrite Nat2Z.id. reflexivity. Qed.

Lemma pz_cons x t k : (1 <= k)%Z -> pz (x :: t) k = pz t (k - 1).
Proof.
  intros H. unfold pz. destruct (Z.ltb_spec k 0); [lia|]. destruct (Z.ltb_spec (k - 1) 0); [lia|].
  replace (Z.to_nat k) with (S (Z.to_nat (k - 1))) by lia. reflexivity.
Qed.

Lemma pz_cons0 x t : pz (x :: t) 0 = x.
Proof. reflexivity. Qed.

Lemma sum_map_seq (g : nat -> R) a len :
  fold_right Rplus 0 (map g (seq a len)) = zs (fun k => g (Z.to_nat k)) (Z.of_nat a) len.
Proof.
  revert a; induction len as [|l IH]; intros a; cbn [seq map fold_right zs]; [reflexivity|].
  rewrite IH. rewrite Nat2Z.id. replace (Z.of_nat a + 1)%Z with (Z.of_nat (S a)) by lia. reflexivity.
Qed.

Lemma sum_zs l : fold_right Rplus 0 l = zs (pz l) 0 (length l).
Proof.
  induction l as [|x t IH]; cbn [fold_right length zs]; [reflexivity|].
  rewrite pz_cons0. f_equal. rewrite IH.
  rewrite <- (zs_shift (pz (x :: t)) 1 0). apply zs_ext. intros k Hk.
  rewrite pz_cons by lia. f_equal. lia.
Qed.
