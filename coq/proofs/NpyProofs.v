(* Proofs about the .npy codec model base/Npy.v:
   parse_serialize, truncation_detected, trailing_ignored and the facts about
   the first byte / zero-filled head used by the interleaving theorems. *)
From Coq Require Import List NArith Arith Bool Lia Decimal DecimalNat DecimalFacts.
From PA Require Import base.Npy.
Import ListNotations.

(* ---- generic list facts ---------------------------------------------- *)
Lemma beq_refl : forall a, beq a a = true.
Proof. induction a; simpl; auto. rewrite N.eqb_refl; auto. Qed.

Lemma beq_eq : forall a b, beq a b = true -> a = b.
Proof.
  induction a; destruct b; simpl; intros H; try discriminate; auto.
  apply andb_true_iff in H. destruct H as [H1 H2].
  apply N.eqb_eq in H1. subst. f_equal. auto.
Qed.

Lemma strip_app : forall p r, strip p (p ++ r) = Some r.
Proof. induction p; simpl; intros; auto. rewrite N.eqb_refl. simpl. auto. Qed.

Lemma starts_app : forall p r, starts p (p ++ r) = true.
Proof. induction p; simpl; intros; auto. rewrite N.eqb_refl. simpl. auto. Qed.

(* ---- decimal round trip ---------------------------------------------- *)
Definition nondigit_head (r : bytes) : Prop :=
  match r with [] => True | b :: _ => is_digit b = false end.

Lemma read_digits_app : forall d r, nondigit_head r ->
  read_digits (uint_bytes d ++ r) = (d, r).
Proof.
  induction d; intros r Hr;
    try (simpl; rewrite (IHd r Hr); reflexivity).
  simpl. destruct r; auto. simpl in Hr. simpl. rewrite Hr. reflexivity.
Qed.

Lemma to_uint_nonnil : forall n, Nat.to_uint n <> Nil.
Proof.
  intros n H. pose proof (Unsigned.to_of (Nat.to_uint n)) as E.
  rewrite Unsigned.of_to in E. rewrite H in E. simpl in E. discriminate.
Qed.

(* ---- dims ------------------------------------------------------------- *)
Lemma parse_dims_tail : forall r f rest n,
  length r < f -> nondigit_head rest ->
  (match rest with c :: _ => N.eqb c COMMA = false | [] => True end) ->
  parse_dims f (dec n ++ dims_tail r ++ rest) = (n :: r, rest).
Proof.
  induction r as [|m r IH]; intros f rest n Hf Hd Hc.
  - destruct f; [simpl in Hf; lia|].
    cbn [parse_dims dims_tail List.app]. unfold dec.
    rewrite read_digits_app by exact Hd.
    destruct (Nat.to_uint n) eqn:E; try (exfalso; eapply to_uint_nonnil; eassumption);
      rewrite <- E, Unsigned.of_to; cbn [List.app];
      (destruct rest as [|c [|s rest']]; [reflexivity| cbv beta iota in Hc; rewrite Hc; reflexivity |
        cbv beta iota in Hc; rewrite Hc; reflexivity]).
  - destruct f; [simpl in Hf; lia|].
    cbn [parse_dims dims_tail]. unfold dec at 1.
    change ((COMMA :: SP :: dec m ++ dims_tail r) ++ rest)
      with (COMMA :: SP :: (dec m ++ dims_tail r) ++ rest).
    rewrite read_digits_app by (simpl; reflexivity).
    rewrite <- List.app_assoc.
    rewrite (IH f rest m) by (simpl in Hf; auto; lia).
    destruct (Nat.to_uint n) eqn:E; try (exfalso; eapply to_uint_nonnil; eassumption);
      rewrite <- E, Unsigned.of_to; reflexivity.
Qed.

Lemma parse_dims_dims_str : forall s f rest,
  length s <= f ->
  parse_dims f (dims_str s ++ RPAR :: rest) =
    (s, match s with [_] => RPAR :: rest | _ => RPAR :: rest end).
Proof.
  intros s f rest Hf.
  destruct s as [|n [|m r]].
  - simpl. destruct f; reflexivity.
  - destruct f; [simpl in Hf; lia|].
    cbn [dims_str parse_dims]. unfold dec. rewrite <- List.app_assoc.
    rewrite read_digits_app by (simpl; reflexivity).
    destruct (Nat.to_uint n) eqn:E; try (exfalso; eapply to_uint_nonnil; eassumption);
      rewrite <- E, Unsigned.of_to; reflexivity.
  - cbn [dims_str]. rewrite <- List.app_assoc.
    rewrite (parse_dims_tail (m :: r) f (RPAR :: rest) n); auto; simpl; reflexivity.
Qed.

(* ---- header round trip ------------------------------------------------ *)
Lemma parse_header_canonical : forall s k,
  parse_header (dict_str s ++ repeat SP k ++ [NL]) = Some s.
Proof.
  intros s k. unfold parse_header, dict_str.
  rewrite <- !List.app_assoc. rewrite strip_app.
  change (HSUFFIX ++ repeat SP k ++ [NL]) with (RPAR :: ([44;32;125]%N ++ repeat SP k ++ [NL])).
  rewrite parse_dims_dims_str.
  2:{ rewrite !List.app_length. simpl. destruct s as [|a [|b s]]; simpl; try lia.
      rewrite !List.app_length. simpl.
      assert (length (dims_tail s) >= length s).
      { clear. induction s; simpl; try lia. rewrite List.app_length. lia. }
      rewrite !List.app_length. lia. }
  set (d := HPREFIX ++ dims_str s ++ HSUFFIX).
  assert (Hl : length (HPREFIX ++ dims_str s ++ RPAR :: [44; 32; 125]%N ++ repeat SP k ++ [NL])
               = length d + k + 1).
  { unfold d. rewrite !List.app_length. simpl. rewrite !List.app_length, repeat_length. simpl. lia. }
  rewrite Hl.
  replace (length d <? length d + k + 1) with true by (symmetry; apply Nat.ltb_lt; lia).
  replace (length d + k + 1 - length d - 1) with k by lia.
  replace (HPREFIX ++ dims_str s ++ RPAR :: [44; 32; 125]%N ++ repeat SP k ++ [NL])
    with (d ++ repeat SP k ++ [NL]).
  2:{ unfold d. rewrite <- !List.app_assoc. reflexivity. }
  rewrite beq_refl. reflexivity.
Qed.

Lemma header_canonical : forall s,
  header s = dict_str s ++ repeat SP (grow s + padlen s) ++ [NL].
Proof.
  intros. unfold header, header0. rewrite repeat_app. rewrite <- !List.app_assoc. reflexivity.
Qed.

Lemma parse_header_header : forall s, parse_header (header s) = Some s.
Proof. intros. rewrite header_canonical. apply parse_header_canonical. Qed.

Arguments header _ : simpl never.
Arguments prod _ : simpl never.
Arguments Nat.mul _ _ : simpl never.

(* ---- parse on what follows the 10-byte preamble ----------------------- *)
Lemma hlen_decode : forall h, h / 256 < 256 ->
  N.to_nat (N.of_nat (h mod 256)) + 256 * N.to_nat (N.of_nat (h / 256)) = h.
Proof.
  intros. rewrite !Nat2N.id. pose proof (Nat.div_mod h 256). lia.
Qed.

Lemma parse_preamble : forall s rest, hlen s / 256 < 256 ->
  parse (preamble s ++ rest) = parse_body (hlen s) rest.
Proof.
  intros s rest H. unfold preamble.
  cbn [List.app]. unfold parse.
  change (starts ZIP1 (147%N :: _)) with false.
  change (starts ZIP2 (147%N :: _)) with false.
  cbn [orb].
  match goal with |- context [starts MAGIC ?l] =>
    change (starts MAGIC l) with true end.
  cbn [negb skipn]. change (N.eqb 1 1 && N.eqb 0 0) with true. cbn iota.
  rewrite hlen_decode by assumption. reflexivity.
Qed.

Lemma parse_body_full : forall a extra, wf_arr a ->
  parse_body (hlen (shape a)) (header (shape a) ++ data a ++ extra) = POk a.
Proof.
  intros [s d] extra Hwf. unfold wf_arr in Hwf. cbn [shape data] in *.
  unfold parse_body, hlen.
  rewrite List.app_length.
  replace (length (header s) + length (d ++ extra) <? length (header s)) with false
    by (symmetry; apply Nat.ltb_ge; lia).
  rewrite firstn_app, Nat.sub_diag, firstn_all. cbn [firstn skipn List.app]. rewrite List.app_nil_r.
  rewrite parse_header_header.
  rewrite skipn_app, Nat.sub_diag, skipn_all. cbn [firstn skipn List.app].
  rewrite List.app_length, Hwf.
  replace (8 * prod s + length extra <? 8 * prod s) with false
    by (symmetry; apply Nat.ltb_ge; lia).
  rewrite <- Hwf. rewrite firstn_app, Nat.sub_diag, firstn_all. cbn [firstn skipn List.app]. rewrite List.app_nil_r.
  reflexivity.
Qed.

(* parse (serialize a) = Ok a — and bytes after a complete payload are ignored *)
Theorem parse_serialize_trailing : forall a extra, wf_arr a -> hlen (shape a) / 256 < 256 ->
  parse (serialize a ++ extra) = POk a.
Proof.
  intros a extra Hwf Hh. unfold serialize, head_chunk.
  rewrite <- !List.app_assoc. rewrite parse_preamble by assumption.
  apply parse_body_full; assumption.
Qed.

Theorem parse_serialize : forall a, wf_arr a -> hlen (shape a) / 256 < 256 ->
  parse (serialize a) = POk a.
Proof.
  intros. rewrite <- (List.app_nil_r (serialize a)). apply parse_serialize_trailing; assumption.
Qed.

(* ---- truncation ------------------------------------------------------- *)
Lemma parse_body_short : forall a k, wf_arr a ->
  k < length (header (shape a) ++ data a) ->
  parse_body (hlen (shape a)) (firstn k (header (shape a) ++ data a)) = PErr PValue.
Proof.
  intros [s d] k Hwf Hk. unfold wf_arr in Hwf. cbn [shape data] in *.
  unfold parse_body, hlen.
  rewrite firstn_length. rewrite List.app_length in *.
  destruct (Nat.ltb_spec (Nat.min k (length (header s) + length d)) (length (header s))) as [Hlt|Hge];
    [reflexivity|].
  assert (Hk2 : length (header s) <= k) by lia.
  rewrite firstn_firstn. replace (Nat.min (length (header s)) k) with (length (header s)) by lia.
  rewrite firstn_app, Nat.sub_diag, firstn_all. cbn [firstn skipn List.app]. rewrite List.app_nil_r.
  rewrite parse_header_header.
  rewrite firstn_app. rewrite skipn_app.
  rewrite firstn_length. replace (Nat.min k (length (header s))) with (length (header s)) by lia.
  rewrite Nat.sub_diag. rewrite (firstn_all2 (header s)) by lia.
  rewrite skipn_all. cbn [firstn skipn List.app].
  rewrite firstn_length.
  replace (Nat.min (k - length (header s)) (length d) <? 8 * prod s) with true
    by (symmetry; apply Nat.ltb_lt; lia).
  reflexivity.
Qed.

Lemma firstn_preamble_app : forall s rest k, 10 <= k ->
  firstn k (preamble s ++ rest) = preamble s ++ firstn (k - 10) rest.
Proof.
  intros s rest k Hk. rewrite firstn_app.
  assert (L : length (preamble s) = 10) by reflexivity.
  rewrite L. rewrite firstn_all2 by lia. reflexivity.
Qed.

(* every proper prefix of a saved file is rejected: every crash point of a
   save, including "before the header is written" (k = 0) *)
Theorem truncation_detected : forall a k, wf_arr a -> hlen (shape a) / 256 < 256 ->
  k < length (serialize a) ->
  parse (firstn k (serialize a)) = PErr (if k =? 0 then PEOF else PValue).
Proof.
  intros a k Hwf Hh Hk. unfold serialize, head_chunk in *. rewrite <- List.app_assoc in *.
  destruct (Nat.lt_ge_cases k 10) as [Hs|Hl].
  - unfold preamble. cbn [List.app].
    do 10 (destruct k as [|k]; [reflexivity|]). lia.
  - rewrite firstn_preamble_app by assumption.
    rewrite parse_preamble by assumption.
    replace (k =? 0) with false by (symmetry; apply Nat.eqb_neq; lia).
    apply parse_body_short; auto.
    rewrite List.app_length in Hk. change (length (preamble (shape a))) with 10 in Hk. lia.
Qed.

Corollary truncation_is_error : forall a k, wf_arr a -> hlen (shape a) / 256 < 256 ->
  k < length (serialize a) -> is_err (parse (firstn k (serialize a))) = true.
Proof. intros. rewrite truncation_detected by assumption. reflexivity. Qed.

(* ---- facts used by the interleaving theorems -------------------------- *)
Lemma head_chunk_length_pos : forall s, 0 < length (head_chunk s).
Proof. intros. unfold head_chunk. rewrite List.app_length. change (length (preamble s)) with 10. lia. Qed.

(* a file that starts with a zero byte is never accepted *)
Lemma parse_zero_head : forall n rest, 0 < n ->
  parse (repeat 0%N n ++ rest) = PErr PValue.
Proof. intros n rest Hn. destruct n; [lia|]. reflexivity. Qed.

(* the header chunk alone (payload not yet written) *)
Lemma parse_head_only : forall a, wf_arr a -> hlen (shape a) / 256 < 256 ->
  data a <> [] -> parse (head_chunk (shape a)) = PErr PValue.
Proof.
  intros a Hwf Hh Hd.
  assert (E : head_chunk (shape a) = firstn (length (head_chunk (shape a))) (serialize a)).
  { unfold serialize. rewrite firstn_app, Nat.sub_diag, firstn_all. simpl. rewrite List.app_nil_r. reflexivity. }
  assert (Hlt : length (head_chunk (shape a)) < length (serialize a)).
  { unfold serialize. rewrite List.app_length. destruct (data a); [congruence|simpl; lia]. }
  rewrite E. rewrite (truncation_detected a _ Hwf Hh Hlt).
  pose proof (head_chunk_length_pos (shape a)).
  destruct (length (head_chunk (shape a))) eqn:L; [lia|reflexivity].
Qed.
