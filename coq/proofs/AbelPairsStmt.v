(* Statements (Definitions, no proofs) of the clauses of C01/C02 that are NOT
   carried by a theorem: the accuracy envelope, the refinement clause and the
   dr scaling of a *discrete* method.  They are kept here, and re-exported in
   props/C01.v / props/C02.v, so that what the numeric sweep decides is visible
   in the same language as what is proved.  A discrete method is abstracted
   as a function from the pixel size and the list of samples of one row to the
   list of output samples. *)
From Coq Require Import Reals List Arith.
From Coquelicot Require Import Coquelicot.
From PA Require Import model.AbelPairs.
Import ListNotations.
Open Scope R_scope.

Definition samples (g : R -> R) (dr : R) (n : nat) : list R :=
  map (fun i => g (INR i * dr)) (seq 0 n).

Definition peak (g : R -> R) (dr : R) (n : nat) : R :=
  fold_right Rmax 0 (map Rabs (samples g dr n)).

(* pixels that are judged: at least 3 px from the axis, at least
   max(3, n/10) px from the outer edge (tools/oracle/sweep.py judged()) *)
Definition judged (n i : nat) : Prop :=
  (3 <= i)%nat /\ (i + Nat.max 3 (n / 10) <= n - 1)%nat.

Section Discrete.
Variable T : R -> list R -> list R.   (* the method: dr -> row -> transformed row *)

(* error of the method at pixel i, relative to the peak of the truth *)
Definition err_at (input truth : R -> R) (dr : R) (n i : nat) : R :=
  Rabs (nth i (T dr (samples input dr n)) 0 - truth (INR i * dr)) / peak truth dr n.

(* the family is a predicate "f has smallest length scale s and lies in [0,Rm]" *)
Definition envelope_inverse (family : R -> R -> (R -> R) -> Prop) (K q : R) : Prop :=
  forall (f : R -> R) (s Rm dr : R) (n : nat),
    family s Rm f -> 0 < dr -> 6 * dr <= s -> Rm <= INR (n - 1) * dr ->
    forall i, judged n i ->
      err_at (Abel f Rm) f dr n i <= K * Rpower (dr / s) q.

Definition envelope_forward (family : R -> R -> (R -> R) -> Prop) (K q : R) : Prop :=
  forall (f : R -> R) (s Rm dr : R) (n : nat),
    family s Rm f -> 0 < dr -> 6 * dr <= s -> Rm <= INR (n - 1) * dr ->
    forall i, judged n i ->
      err_at f (Abel f Rm) dr n i <= K * Rpower (dr / s) q.

(* the same distribution sampled k times finer (same physical extent): the
   error over the physical region judged on the coarse grid does not grow *)
Definition refinement_inverse (family : R -> R -> (R -> R) -> Prop) : Prop :=
  forall (f : R -> R) (s Rm dr : R) (n k : nat),
    family s Rm f -> 0 < dr -> 6 * dr <= s -> Rm <= INR (n - 1) * dr -> (1 <= k)%nat ->
    forall j, judged n (j / k) -> (j <= (n - 1) * k)%nat ->
      exists i, judged n i /\
        err_at (Abel f Rm) f (dr / INR k) ((n - 1) * k + 1) j <= err_at (Abel f Rm) f dr n i.

Definition refinement_forward (family : R -> R -> (R -> R) -> Prop) : Prop :=
  forall (f : R -> R) (s Rm dr : R) (n k : nat),
    family s Rm f -> 0 < dr -> 6 * dr <= s -> Rm <= INR (n - 1) * dr -> (1 <= k)%nat ->
    forall j, judged n (j / k) -> (j <= (n - 1) * k)%nat ->
      exists i, judged n i /\
        err_at f (Abel f Rm) (dr / INR k) ((n - 1) * k + 1) j <= err_at f (Abel f Rm) dr n i.

(* absolute scale: the same pixel values read with pixel size dr give dr times
   the forward result read with pixel size 1 *)
Definition dr_scale_forward : Prop :=
  forall (row : list R) (dr : R), 0 < dr -> T dr row = map (Rmult dr) (T 1 row).
Definition dr_scale_inverse : Prop :=
  forall (row : list R) (dr : R), 0 < dr -> T dr row = map (fun v => v / dr) (T 1 row).
End Discrete.

(* the families of the sweep, as predicates *)
Definition gauss_family (s Rm : R) (f : R -> R) : Prop :=
  0 < s /\ 7 * s <= Rm /\ f = gauss s.
Definition bump_family (p : nat) (s Rm : R) (f : R -> R) : Prop :=
  (2 <= p)%nat /\ 0 < Rm /\ s = Rm /\ f = bump Rm p.
