(* DispatchProofs.v — the C20 statements decided over the whole request space
   (finite: every cell of all_requests) by computation, lifted with
   forallb_forall. *)
From Coq Require Import List Bool.
From PA Require Import model.Dispatch.
Import ListNotations.

Definition via_eqb (a b : via) := match a, b with Fn, Fn | Tr, Tr => true | _, _ => false end.
Definition shape_eqb (a b : shape) :=
  match a, b with
  | Fine, Fine | OneD, OneD | TwoRows, TwoRows | OneCol, OneCol | TwoCols, TwoCols
  | NonSquare, NonSquare | EvenSize, EvenSize => true
  | _, _ => false
  end.
Definition opt_eqb (a b : opt) :=
  match a, b with
  | NoOpt, NoOpt | BadMethod, BadMethod | BadOrigin, BadOrigin | BadCrop, BadCrop
  | BadSymMethod, BadSymMethod | NoQuadrants, NoQuadrants | DaunRegString, DaunRegString
  | DaunRegTuple, DaunRegTuple | DaunDegree, DaunDegree | DaunNonneg, DaunNonneg
  | RbasexReg, RbasexReg | RbasexRegTuple, RbasexRegTuple | RbasexOut, RbasexOut
  | RbasexRmax, RbasexRmax => true
  | _, _ => false
  end.
Definition request_eqb (a b : request) :=
  via_eqb (r_via a) (r_via b) && meth_eqb (r_meth a) (r_meth b) && dir_eqb (r_dir a) (r_dir b)
  && shape_eqb (r_shape a) (r_shape b) && opt_eqb (r_opt a) (r_opt b).
Fixpoint requests_eqb (a b : list request) : bool :=
  match a, b with
  | [], [] => true
  | x :: a', y :: b' => request_eqb x y && requests_eqb a' b'
  | _, _ => false
  end.

Lemma outcome_eqb_eq a b : outcome_eqb a b = true -> a = b.
Proof.
  destruct a as [|m d], b as [|m' d']; simpl; try discriminate; auto.
  destruct m, m'; simpl; try discriminate; destruct d, d'; simpl; try discriminate; reflexivity.
Qed.

Lemma loud_or_honoured : forall r, In r all_requests ->
  outcome_of r = Raise \/ outcome_of r = Performs (r_meth r) (r_dir r).
Proof.
  assert (H : forallb loud_or_honoured_b all_requests = true) by (vm_compute; reflexivity).
  intros r Hr. rewrite forallb_forall in H. specialize (H r Hr).
  unfold loud_or_honoured_b in H. apply orb_true_iff in H.
  destruct H as [H|H]; apply outcome_eqb_eq in H; auto.
Qed.

Lemma cannot_honour_raises : forall r, In r all_requests ->
  must_raise r = true -> outcome_of r = Raise.
Proof.
  assert (H : forallb (fun r => implb (must_raise r) (outcome_eqb (outcome_of r) Raise)) all_requests = true)
    by (vm_compute; reflexivity).
  intros r Hr Hm. rewrite forallb_forall in H. specialize (H r Hr). rewrite Hm in H.
  simpl in H. apply outcome_eqb_eq in H. exact H.
Qed.

Lemma can_honour_performs : forall r, In r all_requests ->
  must_raise r = false -> outcome_of r = Performs (r_meth r) (r_dir r).
Proof.
  assert (H : forallb (fun r => implb (negb (must_raise r))
                 (outcome_eqb (outcome_of r) (Performs (r_meth r) (r_dir r)))) all_requests = true)
    by (vm_compute; reflexivity).
  intros r Hr Hm. rewrite forallb_forall in H. specialize (H r Hr). rewrite Hm in H.
  simpl in H. apply outcome_eqb_eq in H. exact H.
Qed.

Lemma forward_never_inverse : forall r, In r all_requests -> r_dir r = Forward ->
  forall m, outcome_of r <> Performs m Inverse.
Proof.
  intros r Hr Hd m. destruct (loud_or_honoured r Hr) as [H|H]; rewrite H; [discriminate|].
  rewrite Hd. intros E. inversion E.
Qed.

Lemma request_space_size : length all_requests = 315.
Proof. vm_compute. reflexivity. Qed.

Example some_request_is_honoured :
  In {| r_via := Tr; r_meth := Hansenlaw; r_dir := Forward; r_shape := Fine; r_opt := NoOpt |} all_requests
  /\ must_raise {| r_via := Tr; r_meth := Hansenlaw; r_dir := Forward; r_shape := Fine; r_opt := NoOpt |} = false.
Proof. split; [vm_compute; tauto|reflexivity]. Qed.
