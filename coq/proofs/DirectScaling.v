(* DirectScaling.v — abel/direct.py, python backend: the whole integral
   (_pyabel_direct_integral: trapezoid sums of row*I_isqrt over the mask i < j,
   minus half the sum over the first two points, plus the analytic end-cell
   correction) assembled from the GENERATED element-wise expressions
   (gen/DrSites.v; the assembling statements are pinned by the translator),
   numpy.trapezoid by specification, numpy.arccosh an arbitrary function.
   Result: with r = arange(n)*dr the forward transform is dr x (transform at
   dr = 1) and the inverse transform is (transform at dr = 1) / dr. *)
From Coq Require Import List Reals Lra Arith Lia Bool.
From PA Require Import gen.DrSites proofs.DrSitesProofs.
Open Scope R_scope.

Definition g_direct_f_r := direct_f_r R Rminus Rdiv.
Definition g_direct_corr := direct_corr R Rplus Rmult Rminus.
Definition g_direct_ratio := direct_ratio R Rdiv.

Section Direct.
Variable acosh : R -> R.       (* numpy.arccosh: any function *)
Variable k0 : R.               (* numpy.cosh(1): the ratio used for the first cell when r[0] = 0 *)

Fixpoint rsum (n : nat) (g : nat -> R) : R :=
  match n with O => 0 | S n' => rsum n' g + g n' end.

(* numpy trapezoid(y, dx=dx) over n samples, dx factored into the samples *)
Definition np_trapezoid (n : nat) (g : nat -> R) : R := rsum n g - (g O + g (n - 1)%nat) / 2.

Variable n : nat.
Variables (r f : nat -> R) (dx : R).

Definition P (i j : nat) : R :=
  if (i <? j)%nat then g_direct_weight dx (r j) (r i) (f j) else 0.
Definition direct_mask2 (i j : nat) : bool := ((j - 2 <? i)%nat || (j <? 2)%nat) && (i <? j + 1)%nat.
Definition direct_main (i : nat) : R := np_trapezoid n (P i) - /2 * np_trapezoid n (fun j => if direct_mask2 i j then P i j else 0).
Definition direct_cell (i : nat) : R :=
  let fr := g_direct_f_r (f (S i)) (f i) (r (S i)) (r i) in
  let ratio := if (i =? 0)%nat then k0 else g_direct_ratio (r (S i)) (r i) in
  g_direct_corr (g_direct_I_sqrt (r (S i)) (r i)) fr (acosh ratio) (f i) (r i).
Definition direct_out (correction : bool) (i : nat) : R :=
  direct_main i + (if correction && (i <? n - 1)%nat then direct_cell i else 0).
End Direct.

Lemma rsum_ext n g h : (forall j, (j < n)%nat -> g j = h j) -> rsum n g = rsum n h.
Proof. induction n; simpl; intros H; [reflexivity|]. rewrite IHn by (intros; apply H; lia). rewrite H by lia. reflexivity. Qed.
Lemma rsum_scale n s g : rsum n (fun j => s * g j) = s * rsum n g.
Proof. induction n; simpl; [lra|]. rewrite IHn. lra. Qed.

Section Scaling.
Variable acosh : R -> R.
Variable k0 : R.
Variable n : nat.
Variables (r f : nat -> R) (dx c s : R).
Hypothesis Hc : 0 < c.
Hypothesis rinc : forall i j, (i < j)%nat -> 0 <= r i < r j.

Let r' := fun k => g_direct_grid c (r k).      (* r = arange(n) * dr *)
Variable f' : nat -> R.
Hypothesis f'_def : forall k, f' k = s * f k.

Lemma P_scale i j : P r' f' (c * dx) i j = s * P r f dx i j.
Proof.
  unfold P. destruct (Nat.ltb_spec i j) as [H|H]; [|ring].
  unfold g_direct_weight, direct_weight, direct_I_isqrt, r'. rewrite f'_def.
  fold g_direct_I_sqrt.
  assert (E : g_direct_I_sqrt (g_direct_grid c (r j)) (g_direct_grid c (r i)) = c * g_direct_I_sqrt (r j) (r i)).
  { apply direct_I_sqrt_scale; assumption. }
  rewrite E.
  assert (S0 : g_direct_I_sqrt (r j) (r i) <> 0).
  { unfold g_direct_I_sqrt, direct_I_sqrt. intro Z. apply sqrt_eq_0 in Z; pose proof (rinc i j H); nra. }
  field. split; [assumption|lra].
Qed.

Lemma np_trapezoid_scale g h : (forall j, g j = s * h j) -> np_trapezoid n g = s * np_trapezoid n h.
Proof.
  intros H. unfold np_trapezoid. rewrite (rsum_ext n g (fun j => s * h j)) by (intros; apply H).
  rewrite rsum_scale, !H. field.
Qed.

Lemma direct_main_scale i : direct_main n r' f' (c * dx) i = s * direct_main n r f dx i.
Proof.
  unfold direct_main. rewrite (np_trapezoid_scale (P r' f' (c * dx) i) (P r f dx i)) by (intros; apply P_scale).
  rewrite (np_trapezoid_scale (fun j => if direct_mask2 i j then P r' f' (c * dx) i j else 0)
                      (fun j => if direct_mask2 i j then P r f dx i j else 0)).
  - ring.
  - intros j. destruct (direct_mask2 i j); [apply P_scale|ring].
Qed.

Lemma direct_cell_scale i : direct_cell acosh k0 r' f' i = s * direct_cell acosh k0 r f i.
Proof.
  unfold direct_cell, r'. rewrite !f'_def.
  assert (E : g_direct_I_sqrt (g_direct_grid c (r (S i))) (g_direct_grid c (r i)) = c * g_direct_I_sqrt (r (S i)) (r i)).
  { apply direct_I_sqrt_scale; assumption. }
  rewrite E.
  unfold g_direct_corr, direct_corr, g_direct_f_r, direct_f_r, g_direct_ratio, direct_ratio, g_direct_grid, direct_grid.
  pose proof (rinc i (S i) (Nat.lt_succ_diag_r i)) as Hr.
  destruct (Nat.eqb_spec i 0) as [->|Hi].
  - field. repeat split; try lra; try nra.
  - assert (0 < r i) by (destruct i; [lia|]; pose proof (rinc O (S i) ltac:(lia)); lra).
    replace (r (S i) * c / (r i * c)) with (r (S i) / r i) by (field; lra).
    field. repeat split; try lra; try nra.
Qed.

Theorem direct_out_scale correction i : direct_out acosh k0 n r' f' (c * dx) correction i = s * direct_out acosh k0 n r f dx correction i.
Proof.
  unfold direct_out. rewrite direct_main_scale. destruct (correction && (i <? n - 1)%nat); [rewrite direct_cell_scale|]; ring.
Qed.
End Scaling.

(* ---- the two directions on the pixel grid r = arange(n) * dr ------------------- *)
Section OnGrid.
Variable acosh : R -> R.
Variable k0 : R.
Variable n : nat.
Variable c : R.                  (* the pixel size dr *)
Hypothesis Hc : 0 < c.

Lemma INR_grid i j : (i < j)%nat -> 0 <= INR i < INR j.
Proof. intros H. split; [apply pos_INR|apply lt_INR; assumption]. Qed.

(* forward: f = fr * 2r (direct.py `f *= 2*r[None, :]`), trapezoid spacing |r[1]-r[0]| = dr *)
Theorem direct_forward_dr (v : nat -> R) correction i :
  direct_out acosh k0 n (fun k => g_direct_grid c (INR k))
      (fun k => g_direct_pre_forward (g_direct_grid c (INR k)) (v k)) (c * 1) correction i =
  c * direct_out acosh k0 n INR (fun k => g_direct_pre_forward (INR k) (v k)) 1 correction i.
Proof.
  apply (direct_out_scale acosh k0 n INR (fun k => g_direct_pre_forward (INR k) (v k)) 1 c c Hc INR_grid).
  intros k. unfold g_direct_pre_forward, direct_pre_forward, g_direct_grid, direct_grid. ring.
Qed.

(* inverse: f = derivative(fr)/dr * (-1/pi)  (g = numpy.gradient(fr), unit spacing, independent of dr) *)
Theorem direct_inverse_dr (pi : R) (g : nat -> R) correction i : pi <> 0 ->
  direct_out acosh k0 n (fun k => g_direct_grid c (INR k)) (fun k => g_direct_pre_inverse c pi (g k)) (c * 1) correction i =
  / c * direct_out acosh k0 n INR (fun k => g_direct_pre_inverse 1 pi (g k)) 1 correction i.
Proof.
  intros Hpi.
  apply (direct_out_scale acosh k0 n INR (fun k => g_direct_pre_inverse 1 pi (g k)) 1 c (/ c) Hc INR_grid).
  intros k. unfold g_direct_pre_inverse, direct_pre_inverse. field. split; [assumption|lra].
Qed.
End OnGrid.
