(* PairsStepGauss.v — StepAnalytical and GaussianAnalytical (translated closed
   forms, gen/FormulasPairs.v). *)
From Coq Require Import Reals List Arith Bool ZArith QArith Qreals Lia Lra Psatz.
From Coquelicot Require Import Coquelicot.
From PA Require Import model.Poly model.AbelPoly proofs.AbelPolyAlg proofs.AbelPolyInt proofs.PolyTop proofs.PolyPiecewise proofs.PairsClosed gen.FormulasPairs.
Import ListNotations.
Open Scope R_scope.

(* ---- StepAnalytical ---- *)
Lemma step_func_in : forall A0 r1 r2 r, 0 <= r -> r1 < r < r2 -> step_func A0 r1 r2 r = A0.
Proof.
  intros. unfold step_func. rewrite (Rabs_right r) by lra.
  destruct (Rlt_dec _ _) as [L|L]; auto. exfalso. apply L. apply Rabs_def1; lra.
Qed.
Lemma step_func_out : forall A0 r1 r2 r, 0 <= r -> r <= r1 \/ r2 <= r -> r1 <= r2 -> step_func A0 r1 r2 r = 0.
Proof.
  intros. unfold step_func. rewrite (Rabs_right r) by lra.
  destruct (Rlt_dec _ _) as [L|L]; auto. exfalso. apply Rabs_def2 in L. lra.
Qed.

Theorem step_pair : forall A0 r1 r2 Rm x, 0 <= x -> 0 <= r1 <= r2 -> r2 <= Rm ->
  step_abel A0 r1 r2 x = Abel (step_func A0 r1 r2) Rm x.
Proof.
  intros A0 r1 r2 Rm x Hx H1 H2.
  rewrite (piece_closed (step_func A0 r1 r2) [A0] r1 r2 Rm x Hx ltac:(lra)).
  - cbn [PB BB]. unfold step_abel, ylim.
    replace (r2 ^ 2 - x ^ 2) with (r2 * r2 - x * x) by ring.
    replace (r1 ^ 2 - x ^ 2) with (r1 * r1 - x * x) by ring.
    destruct (Rlt_dec x r1).
    + ring.
    + destruct (Rle_dec r1 x); [|lra].
      fold (ylim r1 x). rewrite (ylim_above r1 x) by lra.
      destruct (Rlt_dec x r2).
      * ring.
      * fold (ylim r2 x). rewrite (ylim_above r2 x) by lra. ring.
  - intros. rewrite step_func_in by lra. unfold pevalR. cbn [peval]. ring.
  - intros. apply step_func_out; lra.
  - intros. apply step_func_out; lra.
Qed.

(* ---- GaussianAnalytical ---- *)
Theorem gaussian_ratio : forall A0 sigma r,
  gauss_abel A0 sigma r = sigma * sqrt PI * gauss_func A0 sigma r.
Proof. intros. unfold gauss_abel, gauss_func. ring. Qed.

Lemma gauss_cont : forall sigma y, sigma <> 0 -> continuous (fun y => exp (- y ^ 2 / sigma ^ 2)) y.
Proof.
  intros. apply (ex_derive_continuous (fun y => exp (- y ^ 2 / sigma ^ 2))). auto_derive. auto.
Qed.

(* the Gaussian factorises along the line of sight: constant ratio abel/func up to
   the (trusted) value of the Gaussian integral *)
Theorem gaussian_pair_partial : forall A0 sigma Rm x, sigma <> 0 ->
  Abel (gauss_func A0 sigma) Rm x =
  gauss_func A0 sigma x * (2 * RInt (fun y => exp (- y ^ 2 / sigma ^ 2)) 0 (sqrt (Rm * Rm - x * x))).
Proof.
  intros. unfold Abel.
  set (g := fun y : R => exp (- y ^ 2 / sigma ^ 2)).
  set (Y := sqrt (Rm * Rm - x * x)).
  assert (Hex : ex_RInt g 0 Y).
  { apply (@ex_RInt_continuous R_CompleteNormedModule). intros. apply gauss_cont; auto. }
  pose proof (RInt_scal g 0 Y (gauss_func A0 sigma x) Hex) as E.
  unfold scal in E; simpl in E; unfold mult in E; simpl in E.
  rewrite (RInt_ext (fun y => gauss_func A0 sigma (sqrt (x * x + y * y)))
                    (fun y => gauss_func A0 sigma x * g y)).
  - rewrite E. ring.
  - intros y _. unfold gauss_func, g.
    replace (sqrt (x * x + y * y) ^ 2) with (x * x + y * y).
    + rewrite Rmult_assoc, <- exp_plus. f_equal. f_equal.
      assert (sigma ^ 2 <> 0) by (apply pow_nonzero; auto). field. auto.
    + simpl. rewrite Rmult_1_r, sqrt_sqrt; auto. nra.
Qed.
