(* OriginTop.v — the clauses of C13 on the model find_origin over R. *)
From Coq Require Import List Arith Lia Bool ZArith Reals Lra ZifyBool ZifyNat.
From PA Require Import base.Arr base.Px model.Origin proofs.OriginSums proofs.OriginProofs
  proofs.OriginConv proofs.OriginImage.
Import ListNotations.

Local Open Scope R_scope.

Lemma nth_autoconv p j : (j < 2 * length p - 1)%nat -> nth j (autoconvR p) 0 = Cz p (Z.of_nat j).
Proof.
  intros H. unfold autoconvR, autoconv.
  rewrite (nth_map_gen _ _ _ (seq 0 (2 * length p - 1)) j 0 0%nat) by (rewrite seq_length; exact H).
  rewrite seq_nth by exact H. cbn [plus]. apply conv_at_Cz.
Qed.

(* the first maximum of the autoconvolution of a symmetric profile is at s *)
Lemma argmax_symmetric p s : sym1 p s -> (exists i, pz p i <> 0) ->
  argmaxR (autoconvR p) = Z.to_nat s /\ (0 <= s)%Z.
Proof.
  intros Hs Hnz. pose proof (centre_in_range p s Hs Hnz) as Hr. split; [|lia].
  apply argmax_unique.
  - unfold autoconvR, autoconv. rewrite map_length, seq_length. lia.
  - unfold autoconvR at 1, autoconv at 1. rewrite map_length, seq_length. intros j Hj Hne.
    rewrite !nth_autoconv by lia. rewrite Z2Nat.id by lia.
    apply conv_strict; [exact Hs|exact Hnz|lia].
Qed.

(* convolution method, one axis: exactly the centre, on the half-pixel grid *)
Theorem conv_symmetric_1d p s : sym1 p s -> (exists i, pz p i <> 0) -> conv_axisR p = IZR s / 2.
Proof.
  intros Hs Hnz. destruct (argmax_symmetric p s Hs Hnz) as [E H0].
  unfold conv_axisR, conv_axis. fold (autoconvR p). fold (argmaxR (autoconvR p)). rewrite E.
  rewrite INR_IZR_INZ, Z2Nat.id by lia. cbn [INR]. lra.
Qed.

(* positive scaling does not move the first argmax *)
Lemma argmax_from_scale c b bv k t : 0 < c ->
  argmax_from Rltb b (c * bv) k (map (Rmult c) t) = argmax_from Rltb b bv k t.
Proof.
  intros Hc. revert b bv k; induction t as [|x t IH]; intros b bv k; cbn [map argmax_from]; [reflexivity|].
  assert (E : Rltb (c * bv) (c * x) = Rltb bv x).
  { unfold Rltb. destruct (Rlt_dec (c * bv) (c * x)) as [L|L]; destruct (Rlt_dec bv x) as [M|M]; try reflexivity.
    - exfalso. apply M. apply Rmult_lt_reg_l with c; assumption.
    - exfalso. apply L. apply Rmult_lt_compat_l; assumption. }
  rewrite E. destruct (Rltb bv x); apply IH.
Qed.

Lemma argmax_scale c l : 0 < c -> argmaxR (map (Rmult c) l) = argmaxR l.
Proof.
  intros Hc. destruct l as [|x t]; [reflexivity|]. unfold argmaxR, argmax. cbn [map].
  apply argmax_from_scale. exact Hc.
Qed.

Lemma conv_at_scale c p k : conv_atR (map (Rmult c) p) k = (c * c) * conv_atR p k.
Proof.
  rewrite !conv_at_Cz. unfold Cz. rewrite map_length. rewrite <- zs_scal. apply zs_ext. intros i _.
  assert (P : forall j, pz (map (Rmult c) p) j = c * pz p j).
  { intros j. unfold pz. destruct (j <? 0)%Z; [lra|].
    replace 0 with (c * 0) at 1 by lra. apply map_nth. }
  rewrite !P. ring.
Qed.

Theorem conv_scale_1d c p : c <> 0 -> conv_axisR (map (Rmult c) p) = conv_axisR p.
Proof.
  intros Hc. unfold conv_axisR, conv_axis. do 2 f_equal.
  fold (autoconvR (map (Rmult c) p)) (autoconvR p).
  assert (E : autoconvR (map (Rmult c) p) = map (Rmult (c * c)) (autoconvR p)).
  { unfold autoconvR, autoconv. rewrite map_length, map_map. apply map_ext. intros k.
    apply conv_at_scale. }
  rewrite E. apply argmax_scale. nra.
Qed.

(* ---- images ------------------------------------------------------------------------ *)
Section Top.
  Variables n m : nat.
  Variable IM : imgR.
  Hypothesis Hwf : wf n m IM.
  Hypothesis Hn : (0 < n)%nat.

  (* centre of mass and autoconvolution of a point-symmetric image *)
  Theorem com_symmetric s0 s1 : psym IM s0 s1 -> total IM <> 0 ->
    find_originR Com IM true true = (IZR s0 / 2, IZR s1 / 2).
  Proof.
    intros Hs Ht. unfold find_originR, find_origin. f_equal.
    - apply com_symmetric_1d; [apply (proj0_sym n m IM Hwf s0 s1 Hs)|exact Ht].
    - apply com_symmetric_1d; [apply (proj1_sym n m IM Hwf s0 s1 Hn Hs)|].
      fold (proj1R IM). rewrite (total_proj1 n m IM Hwf Hn). exact Ht.
  Qed.

  Theorem conv_symmetric s0 s1 : psym IM s0 s1 -> total IM <> 0 ->
    find_originR Convolution IM true true = (IZR s0 / 2, IZR s1 / 2).
  Proof.
    intros Hs Ht. unfold find_originR, find_origin. f_equal.
    - apply conv_symmetric_1d; [apply (proj0_sym n m IM Hwf s0 s1 Hs)|].
      apply nonzero_sum_witness. exact Ht.
    - apply conv_symmetric_1d; [apply (proj1_sym n m IM Hwf s0 s1 Hn Hs)|].
      apply nonzero_sum_witness. fold (proj1R IM). rewrite (total_proj1 n m IM Hwf Hn). exact Ht.
  Qed.

  (* the autoconvolution of each projection is maximal at 2c *)
  Theorem conv_max_at_centre_img s0 s1 : psym IM s0 s1 ->
    (forall k, Cz (proj0R IM) k <= Cz (proj0R IM) s0) /\ (forall k, Cz (proj1R IM) k <= Cz (proj1R IM) s1).
  Proof.
    intros Hs. split; intros k; apply conv_max_at_centre.
    - apply (proj0_sym n m IM Hwf s0 s1 Hs).
    - apply (proj1_sym n m IM Hwf s0 s1 Hn Hs).
  Qed.

  (* whole-pixel translation of the content (empty margins) *)
  Section Shift.
    Variable IM' : imgR.
    Variables a b : Z.
    Hypothesis Hwf' : wf n m IM'.
    Hypothesis Htr : translated IM IM' a b.

    Lemma proj0_translated i : pz (proj0R IM') i = pz (proj0R IM) (i - a).
    Proof.
      rewrite (proj0_pz n m IM' Hwf'), (proj0_pz n m IM Hwf).
      rewrite (zs_ext (fun j => pxz IM' i j) (fun j => pxz IM (i - a) (j + - b))).
      2:{ intros j _. rewrite (Htr i j). f_equal; lia. }
      rewrite (zs_shift (fun j => pxz IM (i - a) j) (- b) 0 m).
      apply zs_two_windows.
      - intros j Hj. replace (pxz IM (i - a) j) with (pxz IM' i (j + b)).
        + apply (pxz_out_cols n m IM' Hwf'). lia.
        + rewrite (Htr i (j + b)%Z). f_equal; lia.
      - intros j Hj. apply (pxz_out_cols n m IM Hwf). lia.
    Qed.

    Lemma proj1_translated j : pz (proj1R IM') j = pz (proj1R IM) (j - b).
    Proof.
      rewrite (proj1_pz n m IM' Hwf' j Hn), (proj1_pz n m IM Hwf (j - b) Hn).
      rewrite (zs_ext (fun i => pxz IM' i j) (fun i => pxz IM (i + - a) (j - b))).
      2:{ intros i _. rewrite (Htr i j). f_equal; lia. }
      rewrite (zs_shift (fun i => pxz IM i (j - b)) (- a) 0 n).
      apply zs_two_windows.
      - intros i Hi. replace (pxz IM i (j - b)) with (pxz IM' (i + a) j).
        + apply (pxz_out_rows n m IM' Hwf'). lia.
        + rewrite (Htr (i + a)%Z j). f_equal; lia.
      - intros i Hi. apply (pxz_out_rows n m IM Hwf). lia.
    Qed.

    Theorem com_shift : total IM <> 0 ->
      find_originR Com IM' true true =
      (fst (find_originR Com IM true true) + IZR a, snd (find_originR Com IM true true) + IZR b).
    Proof.
      intros Ht. unfold find_originR, find_origin. cbn [fst snd].
      fold (proj0R IM') (proj0R IM) (proj1R IM') (proj1R IM). fold com_axisR. f_equal.
      - apply com_shift_1d.
        + rewrite (length_proj0 n m IM' Hwf'), (length_proj0 n m IM Hwf). reflexivity.
        + exact proj0_translated.
        + exact Ht.
      - apply com_shift_1d.
        + rewrite (length_proj1 n m IM' Hwf' Hn), (length_proj1 n m IM Hwf Hn). reflexivity.
        + exact proj1_translated.
        + rewrite (total_proj1 n m IM Hwf Hn). exact Ht.
    Qed.
  End Shift.

  (* multiplication by a constant *)
  Definition scaled (c : R) (X : imgR) : imgR := map (map (Rmult c)) X.

  Lemma proj0_scaled c : proj0R (scaled c IM) = map (Rmult c) (proj0R IM).
  Proof.
    unfold proj0R, proj0, scaled. rewrite !map_map. apply map_ext. intros r. apply sum_scale.
  Qed.

  Lemma proj1_scaled c : proj1R (scaled c IM) = map (Rmult c) (proj1R IM).
  Proof.
    unfold proj1R, proj1, scaled.
    assert (E : ncols (map (map (Rmult c)) IM) = ncols IM).
    { unfold ncols. destruct IM; cbn; [reflexivity|apply map_length]. }
    rewrite E. rewrite !map_map. apply map_ext. intros j.
    rewrite map_map. rewrite <- sum_scale. unfold sumR. f_equal. rewrite map_map. apply map_ext. intros r.
    replace 0 with (c * 0) at 1 by lra. apply map_nth.
  Qed.

  Theorem com_scale c : c <> 0 -> total IM <> 0 ->
    find_originR Com (scaled c IM) true true = find_originR Com IM true true.
  Proof.
    intros Hc Ht. unfold find_originR, find_origin.
    fold (proj0R (scaled c IM)) (proj1R (scaled c IM)) (proj0R IM) (proj1R IM).
    rewrite proj0_scaled, proj1_scaled. f_equal; apply com_scale_1d; try exact Hc; try exact Ht.
    rewrite (total_proj1 n m IM Hwf Hn). exact Ht.
  Qed.

  Theorem conv_scale c : c <> 0 ->
    find_originR Convolution (scaled c IM) true true = find_originR Convolution IM true true.
  Proof.
    intros Hc. unfold find_originR, find_origin.
    fold (proj0R (scaled c IM)) (proj1R (scaled c IM)) (proj0R IM) (proj1R IM).
    rewrite proj0_scaled, proj1_scaled. f_equal; apply conv_scale_1d; exact Hc.
  Qed.
End Top.

(* the convolution method follows whole-pixel translations of a symmetric image *)
Theorem conv_shift_symmetric n m (IM IM' : imgR) a b s0 s1 :
  wf n m IM -> wf n m IM' -> (0 < n)%nat -> translated IM IM' a b -> psym IM s0 s1 -> total IM <> 0 ->
  find_originR Convolution IM' true true =
  (fst (find_originR Convolution IM true true) + IZR a, snd (find_originR Convolution IM true true) + IZR b).
Proof.
  intros Hwf Hwf' Hn Htr Hs Ht.
  assert (Hs' : psym IM' (s0 + 2 * a) (s1 + 2 * b)).
  { intros i j. rewrite (Htr i j), (Htr (s0 + 2 * a - i)%Z (s1 + 2 * b - j)%Z).
    rewrite (Hs (i - a)%Z (j - b)%Z). f_equal; lia. }
  assert (Ht' : total IM' <> 0).
  { unfold total.
    destruct (com_shift_1d (proj0R IM) (proj0R IM') a) as [E _].
    - rewrite (length_proj0 n m IM' Hwf'), (length_proj0 n m IM Hwf). reflexivity.
    - apply (proj0_translated n m IM Hwf Hn IM' a b Hwf' Htr).
    - exact Ht.
    - rewrite E. exact Ht. }
  rewrite (conv_symmetric n m IM' Hwf' Hn _ _ Hs' Ht'), (conv_symmetric n m IM Hwf Hn _ _ Hs Ht).
  cbn [fst snd]. rewrite !plus_IZR, !mult_IZR. f_equal; lra.
Qed.

(* image_center, and the coordinates of axes that are not requested *)
Theorem image_center_spec (IM : imgR) ax0 ax1 :
  find_originR ImageCenter IM ax0 ax1 = (INR (nrows IM / 2), INR (ncols IM / 2)).
Proof. reflexivity. Qed.

Theorem axes_default_centre (meth : method) (IM : imgR) ax0 ax1 :
  (ax0 = false -> fst (find_originR meth IM ax0 ax1) = INR (nrows IM / 2)) /\
  (ax1 = false -> snd (find_originR meth IM ax0 ax1) = INR (ncols IM / 2)).
Proof. split; intros ->; destruct meth; reflexivity. Qed.

(* a requested coordinate does not depend on whether the other one is requested *)
Theorem axes_independent (meth : method) (IM : imgR) ax :
  fst (find_originR meth IM true ax) = fst (find_originR meth IM true true) /\
  snd (find_originR meth IM ax true) = snd (find_originR meth IM true true).
Proof. split; destruct meth; reflexivity. Qed.

(* point symmetry only needs to be checked on the frame *)
Lemma psym_check n m (IM : imgR) s0 s1 : wf n m IM ->
  (forall i j, (i < n)%nat -> (j < m)%nat ->
     pxz IM (Z.of_nat i) (Z.of_nat j) = pxz IM (s0 - Z.of_nat i) (s1 - Z.of_nat j)) ->
  psym IM s0 s1.
Proof.
  intros Hwf H i j.
  assert (In : forall x y, (0 <= x < Z.of_nat n)%Z -> (0 <= y < Z.of_nat m)%Z ->
             pxz IM x y = pxz IM (s0 - x) (s1 - y)).
  { intros x y Hx Hy. specialize (H (Z.to_nat x) (Z.to_nat y)). rewrite !Z2Nat.id in H by lia. apply H; lia. }
  destruct (Z_lt_ge_dec i 0) as [Hi|Hi]; [|destruct (Z_lt_ge_dec i (Z.of_nat n)) as [Hi2|Hi2]].
  1,3: rewrite (pxz_out_rows n m IM Hwf i j) by lia.
  3: destruct (Z_lt_ge_dec j 0) as [Hj|Hj]; [|destruct (Z_lt_ge_dec j (Z.of_nat m)) as [Hj2|Hj2]].
  3,5: rewrite (pxz_out_cols n m IM Hwf i j) by lia.
  5: apply In; lia.
  all: symmetry.
  all: destruct (Z_lt_ge_dec (s0 - i) 0); [apply (pxz_out_rows n m IM Hwf); lia|].
  all: destruct (Z_lt_ge_dec (s0 - i) (Z.of_nat n)); [|apply (pxz_out_rows n m IM Hwf); lia].
  all: destruct (Z_lt_ge_dec (s1 - j) 0); [apply (pxz_out_cols n m IM Hwf); lia|].
  all: destruct (Z_lt_ge_dec (s1 - j) (Z.of_nat m)); [|apply (pxz_out_cols n m IM Hwf); lia].
  all: rewrite (In (s0 - i)%Z (s1 - j)%Z) by lia.
  all: replace (s0 - (s0 - i))%Z with i by lia; replace (s1 - (s1 - j))%Z with j by lia.
  1,2: apply (pxz_out_rows n m IM Hwf); lia.
  all: apply (pxz_out_cols n m IM Hwf); lia.
Qed.

(* the hypotheses are satisfiable: a 2 x 3 image symmetric about (1/2, 1) *)
Lemma c13_example :
  let IM := [[1; 2; 3]; [3; 2; 1]] in
  wf 2 3 IM /\ psym IM 1 2 /\ total IM <> 0.
Proof.
  cbv zeta. assert (W : wf 2 3 [[1; 2; 3]; [3; 2; 1]]) by (apply wfb_wf; reflexivity).
  split; [exact W|]. split.
  - apply (psym_check 2 3 _ 1 2 W). intros [|[|i]] [|[|[|j]]] Hi Hj; try lia; reflexivity.
  - unfold total, sumR, proj0R, proj0, sum. cbn. lra.
Qed.
