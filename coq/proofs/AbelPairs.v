(* Proofs for model/AbelPairs.v: the bump family.
   abel_bump_gen: for every p, R0 > 0, 0 <= x < R0 the line-of-sight integral
   of (1 - r^2/R0^2)^p equals 2*wallis p * R0 * (1-x^2/R0^2)^(p+1/2), through
   the reduction (2p+3) I_{p+1} = (2p+2) Y^2 I_p obtained by integrating the
   derivative of y (Y^2-y^2)^(p+1) over [0, Y] (is_RInt_derive). *)
From Coq Require Import Reals Lra Lia.
From Coquelicot Require Import Coquelicot.
From PA Require Import model.AbelPairs.
Open Scope R_scope.

(* continuity helper *)
Lemma cont_poly p Y y : continuous (fun y => (Y*Y - y*y)^p) y.
Proof.
  apply (ex_derive_continuous (fun y => (Y*Y - y*y)^p)). auto_derive. exact I.
Qed.

Lemma ex_RInt_poly p Y a b : ex_RInt (fun y => (Y*Y - y*y)^p) a b.
Proof.
  apply (ex_RInt_continuous (fun y => (Y*Y - y*y)^p)). intros; apply cont_poly.
Qed.

Lemma I_rec p Y :
  (2 * INR (S p) + 1) * RInt (fun y => (Y*Y - y*y)^(S p)) 0 Y =
  (2 * INR (S p)) * (Y*Y) * RInt (fun y => (Y*Y - y*y)^p) 0 Y.
Proof.
  set (F := fun y => y * (Y*Y - y*y)^(S p)).
  set (dF := fun y => (2 * INR (S p) + 1) * (Y*Y - y*y)^(S p) - (2 * INR (S p)) * (Y*Y) * (Y*Y - y*y)^p).
  assert (H : is_RInt dF 0 Y (F Y - F 0)).
  { apply (is_RInt_derive F dF).
    - intros x _. unfold F, dF. auto_derive. exact I.
      change (match p with 0%nat => 1 | S _ => INR p + 1 end) with (INR (S p)).
      generalize (INR (S p)); intro c. rewrite <- !tech_pow_Rmult. replace (Y * Y + - (x * x)) with (Y * Y - x * x) by ring. generalize ((Y * Y - x * x) ^ p); intro q. ring.
    - intros x _. unfold dF.
      apply (continuous_minus (fun y => (2 * INR (S p) + 1) * (Y*Y - y*y)^(S p)) (fun y => (2 * INR (S p)) * (Y*Y) * (Y*Y - y*y)^p)).
      apply (continuous_scal_r (2 * INR (S p) + 1) (fun y => (Y*Y - y*y)^(S p))). apply cont_poly.
      apply (continuous_scal_r (2 * INR (S p) * (Y*Y)) (fun y => (Y*Y - y*y)^p)). apply cont_poly. }
  assert (H0 : F Y - F 0 = 0). { unfold F. replace (Y*Y - Y*Y) with 0 by ring. rewrite pow_i; [ring|lia]. }
  rewrite H0 in H.
  pose proof (is_RInt_scal _ 0 Y (2 * INR (S p) + 1) _ (RInt_correct _ 0 Y (ex_RInt_poly (S p) Y 0 Y))) as A1.
  pose proof (is_RInt_scal _ 0 Y (2 * INR (S p) * (Y*Y)) _ (RInt_correct _ 0 Y (ex_RInt_poly p Y 0 Y))) as A2.
  pose proof (is_RInt_minus _ _ _ _ _ _ A1 A2) as A3.
  pose proof (is_RInt_unique dF 0 Y _ H) as U1.
  pose proof (is_RInt_unique dF 0 Y _ A3) as U2.
  assert (U3 : 0 = (2 * INR (S p) + 1) * RInt (fun y => (Y*Y - y*y)^(S p)) 0 Y - (2 * INR (S p)) * (Y*Y) * RInt (fun y => (Y*Y - y*y)^p) 0 Y).
  { transitivity (RInt dF 0 Y); [symmetry; exact U1 | exact U2]. }
  lra.
Qed.

Lemma INR_pos2 p : 0 < 2 * INR (S p) + 1.
Proof. pose proof (pos_INR (S p)). lra. Qed.

Lemma I_closed p Y : RInt (fun y => (Y*Y - y*y)^p) 0 Y = wallis p * Y^(2*p+1).
Proof.
  induction p.
  - simpl.
    rewrite RInt_const. unfold scal; simpl; unfold mult; simpl. ring.
  - pose proof (I_rec p Y) as H. pose proof (INR_pos2 p) as Hp.
    rewrite IHp in H.
    change (wallis (S p)) with ((2 * INR (S p)) / (2 * INR (S p) + 1) * wallis p).
    replace (2 * S p + 1)%nat with (S (S (2 * p + 1))) by lia.
    rewrite <- !tech_pow_Rmult.
    apply (Rmult_eq_reg_l (2 * INR (S p) + 1)); [|lra].
    rewrite H. field. lra.
Qed.

Lemma wallis_pos p : 0 < wallis p.
Proof.
  induction p; [simpl; lra|].
  change (wallis (S p)) with ((2 * INR (S p)) / (2 * INR (S p) + 1) * wallis p).
  pose proof (pos_INR p). rewrite S_INR in *.
  apply Rmult_lt_0_compat; [|assumption]. apply Rdiv_lt_0_compat; lra.
Qed.

Section Bump.
Variables (R0 x : R).
Hypothesis HR : 0 < R0.
Hypothesis Hx : 0 <= x < R0.

Let Y := sqrt (R0*R0 - x*x).
Lemma Y2 : Y * Y = R0*R0 - x*x.
Proof. unfold Y. apply sqrt_sqrt. nra. Qed.

Lemma bump_integrand p y :
  bump R0 p (sqrt (x*x + y*y)) = / (R0^(2*p)) * (Y*Y - y*y)^p.
Proof.
  unfold bump. rewrite Y2.
  replace (sqrt (x*x+y*y) ^ 2) with (x*x+y*y).
  2:{ simpl. rewrite Rmult_1_r. rewrite sqrt_sqrt; nra. }
  rewrite pow_mult. rewrite <- pow_inv. rewrite <- Rpow_mult_distr.
  f_equal. field. lra.
Qed.

Theorem abel_bump_gen p :
  Abel (bump R0 p) R0 x = 2 * wallis p * R0 * (1 - x^2/R0^2)^p * sqrt (1 - x^2/R0^2).
Proof.
  unfold Abel. fold Y.
  transitivity (2 * (scal (/ R0^(2*p)) (RInt (fun y => (Y*Y - y*y)^p) 0 Y))).
  { f_equal. rewrite <- (RInt_scal (fun y => (Y*Y - y*y)^p)); [|apply ex_RInt_poly].
    apply RInt_ext. intros y _. apply bump_integrand. }
  rewrite I_closed.
  change (scal (/ R0 ^ (2 * p)) (wallis p * Y ^ (2 * p + 1))) with (/ R0 ^ (2 * p) * (wallis p * Y ^ (2 * p + 1))).
  assert (Hs : 1 - x^2/R0^2 = (Y/R0)^2).
  { simpl. rewrite !Rmult_1_r. unfold Rdiv at 2 3. replace (Y * / R0 * (Y * / R0)) with ((Y*Y) * / (R0*R0)) by (field; lra).
    rewrite Y2. field. lra. }
  assert (HY : 0 <= Y) by apply sqrt_pos.
  rewrite Hs. replace ((Y/R0)^2) with ((Y/R0)*(Y/R0)) by ring.
  rewrite sqrt_square; [|apply Rmult_le_pos; [assumption|left; apply Rinv_0_lt_compat; assumption]].
  replace (Y/R0*(Y/R0)) with ((Y/R0)^2) by ring. rewrite <- pow_mult.
  replace (2 * p + 1)%nat with (S (2 * p)) by lia. rewrite <- tech_pow_Rmult.
  unfold Rdiv. rewrite Rpow_mult_distr. rewrite pow_inv. field.
  split; [lra|apply pow_nonzero; lra].
Qed.
End Bump.

Lemma wallis_2 : 2 * wallis 2 = 16 / 15.
Proof. simpl. field. Qed.
Lemma wallis_3 : 2 * wallis 3 = 32 / 35.
Proof. simpl. field. Qed.
Lemma wallis_4 : 2 * wallis 4 = 256 / 315.
Proof. simpl. field. Qed.

Lemma abel_bump_proj R0 x p : 0 < R0 -> 0 <= x < R0 ->
  Abel (bump R0 p) R0 x = bump_proj R0 p x.
Proof. intros. unfold bump_proj. apply abel_bump_gen; assumption. Qed.

Lemma abel_bump_2 R0 x : 0 < R0 -> 0 <= x < R0 ->
  Abel (bump R0 2) R0 x = 16 / 15 * R0 * (1 - x^2/R0^2)^2 * sqrt (1 - x^2/R0^2).
Proof. intros. rewrite abel_bump_gen by assumption. rewrite wallis_2. reflexivity. Qed.
Lemma abel_bump_3 R0 x : 0 < R0 -> 0 <= x < R0 ->
  Abel (bump R0 3) R0 x = 32 / 35 * R0 * (1 - x^2/R0^2)^3 * sqrt (1 - x^2/R0^2).
Proof. intros. rewrite abel_bump_gen by assumption. rewrite wallis_3. reflexivity. Qed.
Lemma abel_bump_4 R0 x : 0 < R0 -> 0 <= x < R0 ->
  Abel (bump R0 4) R0 x = 256 / 315 * R0 * (1 - x^2/R0^2)^4 * sqrt (1 - x^2/R0^2).
Proof. intros. rewrite abel_bump_gen by assumption. rewrite wallis_4. reflexivity. Qed.
