(* PolyRing.v — coefficient-list lemmas of model/Poly.v over an arbitrary
   commutative ring (Coq's ring_theory with Leibniz equality): Horner
   evaluation is linear, stretch and the Pascal/Toeplitz shift define the same
   function of r (binomial theorem on coefficient lists). *)
From Coq Require Import List Arith Bool Lia Ring Setoid.
From PA Require Import model.Poly.
Import ListNotations.

Section RingProofs.
Variable A : Type.
Variables (zero one : A) (add mul sub : A -> A -> A) (opp : A -> A).
Variable Rth : ring_theory zero one add mul sub opp (@eq A).
Add Ring Aring : Rth.

Notation "0" := zero.  Notation "1" := one.
Infix "+" := add.  Infix "*" := mul.  Infix "-" := sub.
Notation pev := (peval A zero add mul).
Notation ofn := (ofnat A zero one add).
Notation pwr := (pw A one mul).
Notation srw := (srow A zero one add mul).

Lemma ofn_add : forall a b, ofn (a + b)%nat = ofn a + ofn b.
Proof. induction a; intros; simpl; [ring | rewrite IHa; ring]. Qed.

Lemma binom_gt : forall n k, (n < k)%nat -> binom n k = 0%nat.
Proof.
  induction n; destruct k; simpl; intros; try lia.
  rewrite !IHn by lia. reflexivity.
Qed.

Lemma binom_0 : forall n, binom n 0 = 1%nat.
Proof. destruct n; reflexivity. Qed.

Lemma binom_diag : forall n, binom n n = 1%nat.
Proof. induction n; simpl; auto. rewrite IHn, binom_gt by lia. reflexivity. Qed.

(* ---- Horner evaluation ---- *)
Lemma pev_app0 : forall c x, pev (c ++ [0]) x = pev c x.
Proof. induction c; intros; simpl; [ring | rewrite IHc; reflexivity]. Qed.

Lemma pev_map_add : forall (f g : nat -> A) l x,
  pev (map (fun i => f i + g i) l) x = pev (map f l) x + pev (map g l) x.
Proof. induction l; intros; simpl; [ring | rewrite IHl; ring]. Qed.

Lemma pev_map_scal : forall (f : nat -> A) m l x,
  pev (map (fun i => m * f i) l) x = m * pev (map f l) x.
Proof. induction l; intros; simpl; [ring | rewrite IHl; ring]. Qed.

Lemma pev_map_ext : forall (f g : nat -> A) l x,
  (forall i, In i l -> f i = g i) -> pev (map f l) x = pev (map g l) x.
Proof.
  induction l; intros; simpl; auto.
  rewrite (H a) by (left; auto). rewrite IHl; auto. intros; apply H; right; auto.
Qed.

(* ---- stretch ---- *)
Lemma scale_pow_eval : forall c p q x,
  pev (scale_pow A mul p q c) x = p * pev c (q * x).
Proof. induction c; intros; simpl; [ring | rewrite IHc; ring]. Qed.

(* ---- shift ---- *)
Lemma srow_zero_above : forall m c l k, (k + length c <= l)%nat -> srw m l k c = 0.
Proof.
  induction c; intros; simpl in *; auto.
  rewrite IHc by lia. destruct (Nat.leb_spec l k); [lia | ring].
Qed.

Lemma srow_S : forall m c l k,
  srw m (S l) (S k) c = srw m l k c + m * srw m (S l) k c.
Proof.
  induction c; intros; [simpl; ring|].
  cbn [srow]. rewrite IHc.
  change (S l <=? S k) with (l <=? k).
  destruct (Nat.leb_spec l k) as [H|H].
  - destruct (Nat.leb_spec (S l) k) as [H2|H2].
    + cbn [binom]. rewrite ofn_add.
      replace (S k - S l)%nat with (k - l)%nat by lia.
      replace (k - l)%nat with (S (k - S l)) by lia. cbn [pw]. ring.
    + assert (l = k) by lia. subst l. cbn [binom].
      rewrite (binom_gt k (S k)) by lia. rewrite Nat.add_0_r.
      replace (S k - S k)%nat with (k - k)%nat by lia. ring.
  - destruct (Nat.leb_spec (S l) k); [lia | ring].
Qed.

Lemma srow_0S : forall m c k, srw m 0 (S k) c = m * srw m 0 k c.
Proof.
  induction c; intros; [simpl; ring|].
  cbn [srow]. rewrite IHc. cbn [Nat.leb]. rewrite !binom_0.
  replace (S k - 0)%nat with (S (k - 0)) by lia. cbn [pw ofnat]. ring.
Qed.

Lemma seq_snoc : forall s n, seq s (S n) = seq s n ++ [(s + n)%nat].
Proof. intros. rewrite seq_S. reflexivity. Qed.

(* the transformed coefficients define the same function, shifted *)
Lemma shiftM_eval : forall m c x,
  pev (map (fun l => srw m l 0 c) (seq 0 (length c))) x = pev c (x + m).
Proof.
  induction c as [|a c IH]; intros; [reflexivity|].
  cbn [length]. cbn [seq map]. rewrite <- seq_shift, map_map.
  cbn [peval].
  (* head *)
  assert (H0 : srw m 0 0 (a :: c) = a + m * srw m 0 0 c).
  { cbn [srow Nat.leb binom Nat.sub pw ofnat]. rewrite srow_0S. ring. }
  rewrite H0.
  assert (HS : forall l, srw m (S l) 0 (a :: c) = srw m l 0 c + m * srw m (S l) 0 c).
  { intros. cbn [srow Nat.leb]. rewrite srow_S. ring. }
  rewrite (pev_map_ext (fun l => srw m (S l) 0 (a :: c))
                       (fun l => srw m l 0 c + m * srw m (S l) 0 c)) by (intros; apply HS).
  rewrite pev_map_add, pev_map_scal, IH.
  (* T := eval of the coefficients 1.. of shift c *)
  set (T := pev (map (fun l => srw m (S l) 0 c) (seq 0 (length c))) x).
  assert (HE : pev c (x + m) = srw m 0 0 c + x * T).
  { rewrite <- IH. unfold T. destruct c as [|b c']; [simpl; ring|].
    set (cc := b :: c'). change (length cc) with (S (length c')).
    rewrite seq_snoc at 2. rewrite map_app. cbn [map].
    replace (srw m (S (0 + length c')) 0 cc) with 0
      by (symmetry; apply srow_zero_above; unfold cc; simpl; lia).
    rewrite pev_app0. cbn [seq map peval]. rewrite <- seq_shift, map_map. reflexivity. }
  rewrite HE. ring.
Qed.

Theorem shift_eval : forall r0 c x,
  pev (shift A zero one add mul opp r0 c) x = pev c (x - r0).
Proof.
  intros. unfold shift. rewrite shiftM_eval. f_equal. ring.
Qed.

End RingProofs.
