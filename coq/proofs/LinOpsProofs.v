(* LinOpsProofs.v — non-negative least squares by specification:
   positive homogeneity (C04), uniqueness for full-rank systems, and
   "constrained == unconstrained when the latter is feasible" (C17);
   applied to the generated daun 'nonneg' expression. *)
From mathcomp Require Import all_ssreflect all_algebra.
From mathcomp Require Import ring.
From PA Require Import base.MxNp gen.MatrixExpr model.LinOps proofs.MxAlgebra.
Set Implicit Arguments.
Unset Strict Implicit.
Unset Printing Implicit Defensive.
Import Order.TTheory GRing.Theory Num.Theory.
Local Open Scope ring_scope.

Section NNLS.
Variable R : realFieldType.

Lemma normsq_ge0 n (v : 'rV[R]_n) : 0 <= normsq v.
Proof. by apply: sumr_ge0 => j _; rewrite sqr_ge0. Qed.

Lemma normsq_scale n (c : R) (v : 'rV[R]_n) : normsq (c *: v) = c ^+ 2 * normsq v.
Proof.
rewrite /normsq big_distrr /=; apply: eq_bigr => j _.
by rewrite mxE exprMn.
Qed.

Lemma normsq_eq0 n (v : 'rV[R]_n) : normsq v = 0 -> v = 0.
Proof.
move=> /eqP; rewrite psumr_eq0; last by move=> j _; rewrite sqr_ge0.
move=> /allP H; apply/rowP=> j; rewrite mxE.
have := H j; rewrite mem_index_enum => /(_ isT) /=.
by rewrite sqrf_eq0 => /eqP.
Qed.

Lemma normsq0 n : normsq (0 : 'rV[R]_n) = 0.
Proof. by rewrite /normsq big1 // => j _; rewrite mxE expr0n. Qed.

(* parallelogram identity *)
Lemma normsq_par n (u v : 'rV[R]_n) :
  normsq (u + v) = 2%:R * (normsq u + normsq v) - normsq (u - v).
Proof.
rewrite /normsq -big_split /= !big_distrr /= -sumrB; apply: eq_bigr => j _.
by rewrite !mxE; move: (u 0 j) (v 0 j) => a b; ring.
Qed.

Section Problem.
Variables (m n : nat) (A : 'M[R]_(m, n)).

Lemma resid_scale (c : R) b (x : 'rV[R]_n) :
  resid A (c *: b) (c *: x) = c ^+ 2 * resid A b x.
Proof. by rewrite /resid -scalemxAl -scalerBr normsq_scale. Qed.

(* C04: the non-negativity solvers are positively homogeneous *)
Lemma nnls_pos_homogeneous (c : R) b x : 0 < c ->
  is_nnls A b x -> is_nnls A (c *: b) (c *: x).
Proof.
move=> c0 [x0 xmin]; split.
  by move=> j; rewrite mxE mulr_ge0 // ltW.
move=> y y0.
have cn0 : c != 0 by rewrite gt_eqF.
have -> : y = c *: (c^-1 *: y) by rewrite scalerA mulfV // scale1r.
rewrite !resid_scale ler_pmul2l ?exprn_gt0 //; apply: xmin => j.
by rewrite mxE mulr_ge0 // invr_ge0 ltW.
Qed.

(* the minimiser is unique when A has full column rank *)
Lemma nnls_unique b x y : full_rank A -> is_nnls A b x -> is_nnls A b y -> x = y.
Proof.
move=> inj [x0 xmin] [y0 ymin]; apply: inj.
set u := x *m A^T - b; set v := y *m A^T - b.
have exy : normsq v = normsq u.
  by apply/eqP; rewrite eq_le (xmin y y0) (ymin x x0).
pose z := 2%:R^-1 *: (x + y).
have z0 : nonneg z.
  by move=> j; rewrite !mxE mulr_ge0 ?invr_ge0 ?ler0n // addr_ge0.
have ez : z *m A^T - b = 2%:R^-1 *: (u + v).
  rewrite /z /u /v -scalemxAl mulmxDl.
  apply/rowP=> j; rewrite !mxE.
  move: (\sum_k x 0 k * A^T k j) (\sum_k y 0 k * A^T k j) (b 0 j) => p q r; by field.
have H : normsq u <= 2%:R^-1 ^+ 2 * (2%:R * (normsq u + normsq v) - normsq (u - v)).
  by have := xmin z z0; rewrite /resid ez normsq_scale (normsq_par u v).
move: H; rewrite exy; set d := normsq (u - v); set mm := normsq u => H.
have d0 : 0 <= d by apply: normsq_ge0.
have d0' : d <= 0.
  move: H; rewrite -subr_ge0.
  have -> : 2%:R^-1 ^+ 2 * (2%:R * (mm + mm) - d) - mm = - (4%:R^-1 * d).
    by move: mm d {d0} => p q; field.
  by rewrite oppr_ge0 pmulr_rle0 // invr_gt0 ltr0n.
have /normsq_eq0 : normsq (u - v) = 0 by apply: le_anti; rewrite -/d d0' d0.
rewrite /u /v opprB addrA subrK => /eqP.
by rewrite subr_eq0 => /eqP.
Qed.

Lemma nnls_solver_homogeneous (solver : 'M[R]_(m, n) -> 'rV[R]_m -> 'rV[R]_n) (c : R) b :
  (forall b', is_nnls A b' (solver A b')) -> full_rank A -> 0 < c ->
  solver A (c *: b) = c *: solver A b.
Proof.
move=> spec inj c0; apply: (nnls_unique inj (spec _)).
exact: nnls_pos_homogeneous (spec b).
Qed.

(* C17: if an unconstrained least-squares solution is non-negative it solves
   the constrained problem (the feasible set is a subset) *)
Lemma lsq_feasible_is_nnls b x : is_lsq A b x -> nonneg x -> is_nnls A b x.
Proof. by move=> lx x0; split=> // y _; apply: lx. Qed.

Lemma exact_solution_is_lsq b x : x *m A^T = b -> is_lsq A b x.
Proof. by move=> e y; rewrite /resid e subrr normsq0 normsq_ge0. Qed.

Lemma nonneg_eq_unconstrained (solver : 'M[R]_(m, n) -> 'rV[R]_m -> 'rV[R]_n) b x :
  (forall b', is_nnls A b' (solver A b')) -> full_rank A ->
  is_lsq A b x -> nonneg x -> solver A b = x.
Proof.
move=> spec inj lx x0; apply: (nnls_unique inj (spec _)); exact: lsq_feasible_is_nnls.
Qed.

End Problem.

(* ---- the generated daun 'nonneg' expression ------------------------------ *)
Section DaunNonneg.
Variables (n : nat) (B : 'M[R]_n).
Variable nnls : 'M[R]_n -> 'rV[R]_n -> 'rV[R]_n.
Hypothesis spec : nnls_spec nnls.
Hypothesis uB : B \in unitmx.

Lemma full_rank_unit : full_rank B^T.
Proof. by move=> x y; rewrite trmxK => /(can_inj (mulmxK uB)). Qed.

Lemma daun_nonneg_pos_homogeneous h (X : 'M[R]_(h, n)) (c : R) : 0 < c ->
  daun_inverse_deg0_nonneg_dr1 B nnls (c *: X) = c *: daun_inverse_deg0_nonneg_dr1 B nnls X.
Proof.
move=> c0; apply/matrixP=> i j; rewrite !mxE linearZ /=.
by rewrite (nnls_solver_homogeneous _ (fun b' => spec B^T b') full_rank_unit c0) mxE.
Qed.

(* when the unconstrained inverse X B^-1 is non-negative, the 'nonneg' solver
   returns it *)
Lemma daun_nonneg_eq_unconstrained h (X : 'M[R]_(h, n)) :
  (forall i j, 0 <= (X *m invmx B) i j) ->
  daun_inverse_deg0_nonneg_dr1 B nnls X = X *m invmx B.
Proof.
move=> pos; apply/matrixP=> i j; rewrite mxE.
rewrite (@nonneg_eq_unconstrained _ _ B^T nnls (row i X) (row i X *m invmx B) (fun b' => spec B^T b') full_rank_unit).
- by rewrite -row_mul mxE.
- by apply: exact_solution_is_lsq; rewrite trmxK mulmxKV.
- by move=> k; rewrite -row_mul mxE.
Qed.

Lemma daun_nonneg_eq_none h (X : 'M[R]_(h, n)) : is_trig_mx B ->
  (forall i j, 0 <= (daun_inverse_deg0_none_dr1 B X) i j) ->
  daun_inverse_deg0_nonneg_dr1 B nnls X = daun_inverse_deg0_none_dr1 B X.
Proof.
by move=> tB; rewrite daun_inverse_tri_spec // => pos; apply: daun_nonneg_eq_unconstrained.
Qed.

(* each output row depends only on the same input row *)
Lemma daun_nonneg_rowwise h (X : 'M[R]_(h, n)) (i : 'I_h) :
  row i (daun_inverse_deg0_nonneg_dr1 B nnls X) = nnls B^T (row i X).
Proof. by apply/rowP=> j; rewrite !mxE. Qed.

End DaunNonneg.
End NNLS.
