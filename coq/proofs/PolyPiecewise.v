(* PolyPiecewise.v — sums of pieces (PiecewisePolynomial, polynomial.py:257-260),
   multiplication by a number (__imul__, 49-55): the Abel transform is linear. *)
From Coq Require Import Reals List Arith Bool ZArith QArith Qreals Lia Lra Psatz.
From Coquelicot Require Import Coquelicot.
From PA Require Import model.Poly model.AbelPoly proofs.PolyRing proofs.AbelPolyAlg proofs.AbelPolyInt proofs.PolyTop.
Import ListNotations.
Open Scope R_scope.

Definition los (F : R -> R) (x : R) : R -> R := fun y => F (sqrt (x * x + y * y)).

Lemma Abel_plus : forall F G Rm x,
  ex_RInt (los F x) 0 (sqrt (Rm * Rm - x * x)) -> ex_RInt (los G x) 0 (sqrt (Rm * Rm - x * x)) ->
  Abel (fun r => F r + G r) Rm x = Abel F Rm x + Abel G Rm x.
Proof.
  intros. unfold Abel. fold (los F x) (los G x).
  rewrite <- Rmult_plus_distr_l. f_equal.
  rewrite <- (RInt_plus (los F x) (los G x)); auto.
Qed.

Lemma Abel_scal : forall F k Rm x,
  ex_RInt (los F x) 0 (sqrt (Rm * Rm - x * x)) ->
  Abel (fun r => k * F r) Rm x = k * Abel F Rm x.
Proof.
  intros. unfold Abel. fold (los F x).
  pose proof (RInt_scal (los F x) 0 (sqrt (Rm * Rm - x * x)) k H) as E.
  unfold scal in E; simpl in E; unfold mult in E; simpl in E.
  change (fun y => k * F (sqrt (x * x + y * y))) with (fun y => k * los F x y).
  rewrite E. ring.
Qed.

(* the represented function is integrable along every line of sight *)
Lemma polyfun_ex_RInt : forall rmin rmax c r0 s Rm x, s <> 0 -> 0 <= x ->
  Rmax rmin 0 <= rmax <= Rm ->
  ex_RInt (los (polyfun rmin rmax c r0 s) x) 0 (sqrt (Rm * Rm - x * x)).
Proof.
  intros rmin rmax c r0 s Rm x Hs Hx Hl.
  assert (Hm0 : 0 <= Rmax rmin 0) by apply Rmax_r.
  eexists.
  apply (los_RInt (polyfun rmin rmax c r0 s) (shiftR r0 (stretchR s c)) (Rmax rmin 0) rmax Rm x Hx).
  - lra.
  - intros t Ht. rewrite (F_in rmin rmax c r0 s) by lra.
    rewrite shiftR_eval, stretch_eval by auto. reflexivity.
  - intros t Ht. apply F_lo. lra.
  - intros t [Ht _]. apply F_hi. lra.
Qed.

(* ---- pieces ---- *)
Record piece := { q_rmin : R; q_rmax : R; q_c : list R; q_r0 : R; q_s : R; q_red : bool }.

Definition vaddR := vadd R Rplus.
Definition zerosR (r : list R) : list R := map (fun _ => 0) r.

Definition pw_func (r : list R) (ps : list piece) : list R :=
  fold_right (fun p acc => vaddR (poly_funcR r (q_rmin p) (q_rmax p) (q_c p) (q_r0 p) (q_s p) (q_red p)) acc)
             (zerosR r) ps.
Definition pw_abel (r : list R) (ps : list piece) : list R :=
  fold_right (fun p acc => vaddR (poly_abelR r (q_rmin p) (q_rmax p) (q_c p) (q_r0 p) (q_s p) (q_red p)) acc)
             (zerosR r) ps.
Fixpoint pw_fun (ps : list piece) (t : R) : R :=
  match ps with
  | [] => 0
  | p :: ps' => polyfun (q_rmin p) (q_rmax p) (q_c p) (q_r0 p) (q_s p) t + pw_fun ps' t
  end.

Definition piece_ok (Rm : R) (p : piece) : Prop :=
  q_s p <> 0 /\ Rmax (q_rmin p) 0 <= q_rmax p <= Rm.

Lemma nth_vadd : forall a b i, length a = length b ->
  nth i (vaddR a b) 0 = nth i a 0 + nth i b 0.
Proof.
  induction a; destruct b; intros; simpl in *; try lia.
  - destruct i; ring.
  - destruct i; auto.
Qed.

Lemma length_vadd : forall a b, length a = length b -> length (vaddR a b) = length a.
Proof. induction a; destruct b; intros; simpl in *; try lia. f_equal. apply IHa. lia. Qed.

Lemma poly_funcR_length : forall r rmin rmax c r0 s red,
  s <> 0 -> length (poly_funcR r rmin rmax c r0 s red) = length r.
Proof.
  intros. unfold poly_funcR, poly_func. fold prepareR.
  destruct (prepareR r rmin rmax c r0 s red) eqn:E.
  - destruct (prepare_spec _ _ _ _ _ _ _ _ E H) as (q & _ & _ & Pr & _).
    unfold func_span. rewrite map_length, combine_length, seq_length, Pr, map_length. lia.
  - apply map_length.
Qed.

Lemma poly_abelR_length : forall r rmin rmax c r0 s red,
  s <> 0 -> length (poly_abelR r rmin rmax c r0 s red) = length r.
Proof.
  intros. unfold poly_abelR.
  destruct (prepareR r rmin rmax c r0 s red) eqn:E.
  - destruct (prepare_spec _ _ _ _ _ _ _ _ E H) as (q & _ & _ & Pr & _).
    rewrite map_length, combine_length, seq_length, Pr, map_length. lia.
  - apply map_length.
Qed.

Lemma pw_fun_ex_RInt : forall ps Rm x, 0 <= x -> List.Forall (piece_ok Rm) ps ->
  ex_RInt (los (pw_fun ps) x) 0 (sqrt (Rm * Rm - x * x)).
Proof.
  induction ps; intros; cbn [pw_fun].
  - apply ex_RInt_const.
  - inversion H0; subst. destruct H3.
    apply (ex_RInt_plus (los (polyfun (q_rmin a) (q_rmax a) (q_c a) (q_r0 a) (q_s a)) x) (los (pw_fun ps) x)).
    + apply polyfun_ex_RInt; auto.
    + apply IHps; auto.
Qed.

Section Pieces.
Variables (r : list R) (Rm : R).
Hypothesis Hasc : ascending r.
Hypothesis Hpos : forall j, (j < length r)%nat -> 0 <= nth j r 0.

Lemma pw_lengths : forall ps, List.Forall (piece_ok Rm) ps ->
  length (pw_func r ps) = length r /\ length (pw_abel r ps) = length r.
Proof.
  induction ps; intros; cbn [pw_func pw_abel fold_right].
  - unfold zerosR. rewrite map_length. auto.
  - inversion H; subst. destruct (IHps H3). destruct H2.
    fold (pw_func r ps) (pw_abel r ps).
    rewrite !length_vadd; rewrite ?poly_funcR_length, ?poly_abelR_length; auto.
Qed.

Theorem piecewise_func : forall ps i, List.Forall (piece_ok Rm) ps -> (i < length r)%nat ->
  nth i (pw_func r ps) 0 = pw_fun ps (nth i r 0).
Proof.
  induction ps; intros; cbn [pw_func pw_fun fold_right].
  - apply nth_map_zero.
  - inversion H; subst. destruct H3. destruct (pw_lengths ps H4).
    fold (pw_func r ps). rewrite nth_vadd by (rewrite poly_funcR_length; auto).
    rewrite poly_func_spec, IHps; auto.
Qed.

Theorem piecewise_abel : forall ps i, List.Forall (piece_ok Rm) ps -> (i < length r)%nat ->
  nth i (pw_abel r ps) 0 = Abel (pw_fun ps) Rm (nth i r 0).
Proof.
  induction ps; intros; cbn [pw_abel pw_fun fold_right].
  - rewrite nth_map_zero. symmetry. apply (Abel_outside _ 0 Rm).
    split. lra. apply Hpos; auto. intros; reflexivity.
  - inversion H; subst. destruct H3. destruct (pw_lengths ps H4).
    fold (pw_abel r ps). rewrite nth_vadd by (rewrite poly_abelR_length; auto).
    rewrite (poly_abel_spec r _ _ _ _ _ _ Hasc Hpos H1 Rm H2), IHps; auto.
    symmetry. apply Abel_plus.
    + apply polyfun_ex_RInt; auto.
    + apply pw_fun_ex_RInt; auto.
Qed.
End Pieces.

(* multiplication by a number (BasePolynomial.__imul__): func and abel scaled *)
Theorem scalar_mul_abel : forall F k Rm x,
  ex_RInt (los F x) 0 (sqrt (Rm * Rm - x * x)) ->
  k * Abel F Rm x = Abel (fun t => k * F t) Rm x.
Proof. intros. symmetry. apply Abel_scal; auto. Qed.

(* ---- scaling by a number: __imul__, __mul__, __rmul__, __itruediv__, __truediv__
   (polynomial.py:49-80; PiecewisePolynomial.__imul__ 272-281 scales every piece) ---- *)
Definition vscaleR := vscale R Rmult.

Lemma nth_vscale : forall k l i, nth i (vscaleR k l) 0 = k * nth i l 0.
Proof.
  intros. unfold vscaleR, vscale. replace 0 with (k * 0) at 1 by ring. apply (map_nth (Rmult k)).
Qed.

Lemma vscale_length : forall k l, length (vscaleR k l) = length l.
Proof. intros. apply map_length. Qed.

(* division is multiplication by 1/a; dividing and multiplying back is the identity *)
Lemma vscale_div : forall a l i, a <> 0 -> nth i (vscaleR (1 / a) l) 0 = nth i l 0 / a.
Proof. intros. rewrite nth_vscale. field. auto. Qed.

Lemma vscale_roundtrip : forall a l, a <> 0 -> vscaleR a (vscaleR (1 / a) l) = l.
Proof.
  intros. unfold vscaleR, vscale. rewrite map_map. rewrite <- (map_id l) at 2.
  apply map_ext. intros. field. auto.
Qed.

(* scaled object: whole func/abel and every piece, as PiecewisePolynomial.__imul__ does *)
Definition scaled_pieces (k : R) (r : list R) (ps : list piece) : list (list R * list R) :=
  map (fun p => (vscaleR k (poly_funcR r (q_rmin p) (q_rmax p) (q_c p) (q_r0 p) (q_s p) (q_red p)),
                 vscaleR k (poly_abelR r (q_rmin p) (q_rmax p) (q_c p) (q_r0 p) (q_s p) (q_red p)))) ps.

Lemma nth_map_any : forall (A B : Type) (f : A -> B) (l : list A) (j : nat) (d : A) (d' : B),
  (j < length l)%nat -> nth j (map f l) d' = f (nth j l d).
Proof. induction l; intros; simpl in *; [lia|]. destruct j; auto. apply IHl. lia. Qed.

Section Scaled.
Variables (r : list R) (Rm : R).
Hypothesis Hasc : ascending r.
Hypothesis Hpos : forall j, (j < length r)%nat -> 0 <= nth j r 0.

(* k * object is the pair of the function k * f: whole object *)
Theorem scaled_whole : forall k ps i, List.Forall (piece_ok Rm) ps -> (i < length r)%nat ->
  nth i (vscaleR k (pw_func r ps)) 0 = k * pw_fun ps (nth i r 0) /\
  nth i (vscaleR k (pw_abel r ps)) 0 = Abel (fun t => k * pw_fun ps t) Rm (nth i r 0).
Proof.
  intros. rewrite !nth_vscale. split.
  - rewrite (piecewise_func r Rm); auto.
  - rewrite (piecewise_abel r Rm); auto. apply scalar_mul_abel.
    apply pw_fun_ex_RInt; auto.
Qed.

(* ... and every piece *)
Theorem scaled_piece : forall k ps j i, List.Forall (piece_ok Rm) ps -> (j < length ps)%nat -> (i < length r)%nat ->
  let p := nth j ps {| q_rmin := 0; q_rmax := 0; q_c := []; q_r0 := 0; q_s := 1; q_red := false |} in
  let F := polyfun (q_rmin p) (q_rmax p) (q_c p) (q_r0 p) (q_s p) in
  nth i (fst (nth j (scaled_pieces k r ps) ([], []))) 0 = k * F (nth i r 0) /\
  nth i (snd (nth j (scaled_pieces k r ps) ([], []))) 0 = Abel (fun t => k * F t) Rm (nth i r 0).
Proof.
  intros k ps j i Hok Hj Hi p F.
  set (d := {| q_rmin := 0; q_rmax := 0; q_c := []; q_r0 := 0; q_s := 1; q_red := false |}) in *.
  assert (Hp : piece_ok Rm p).
  { rewrite Forall_forall in Hok. apply Hok. unfold p. apply nth_In. auto. }
  destruct Hp as [Hs Hl].
  unfold scaled_pieces.
  rewrite (nth_map_any _ _ _ ps j d ([], [])) by auto.
  fold p. cbn [fst snd]. rewrite !nth_vscale. split.
  - rewrite poly_func_spec; auto.
  - rewrite (poly_abel_spec r _ _ _ _ _ _ Hasc Hpos Hs Rm Hl); auto.
    apply scalar_mul_abel. apply polyfun_ex_RInt; auto.
Qed.
End Scaled.
