(* PairsGrid.v — r grid, dr, symmetric layout, mirroring and masks of
   abel/tools/analytical.py (model/Pairs.v), over R. *)
From Coq Require Import Reals List Arith Bool ZArith QArith Qreals Lia Lra Psatz.
From PA Require Import model.Poly model.AbelPoly model.Pairs proofs.AbelPolyAlg.
Import ListNotations.
Open Scope R_scope.

Notation lin_at := (linspace_at R 0 1 Rplus Rmult Rminus Rdiv).
Notation linR := (linspace R 0 1 Rplus Rmult Rminus Rdiv).

Lemma lin_at_eq : forall a b n i, lin_at a b n i = a + INR i * ((b - a) / INR (n - 1)).
Proof. intros. unfold linspace_at. rewrite !ofnat_INR. reflexivity. Qed.

Lemma INR_pred_nz : forall n, (2 <= n)%nat -> INR (n - 1) <> 0.
Proof. intros. apply not_0_INR. lia. Qed.

(* uniform spacing: r[i+1] - r[i] = dr for every i *)
Theorem grid_uniform : forall a b n i,
  lin_at a b n (S i) - lin_at a b n i = (b - a) / INR (n - 1).
Proof. intros. rewrite !lin_at_eq, S_INR. ring. Qed.

Theorem grid_ends : forall a b n, (2 <= n)%nat ->
  lin_at a b n 0 = a /\ lin_at a b n (n - 1) = b.
Proof.
  intros. pose proof (INR_pred_nz n H). rewrite !lin_at_eq. split.
  - simpl. ring.
  - field. auto.
Qed.

(* symmetric layout: r[i] = - r[n-1-i] *)
Theorem grid_symmetric : forall rm n i, (2 <= n)%nat -> (i <= n - 1)%nat ->
  lin_at (- rm) rm n i = - lin_at (- rm) rm n (n - 1 - i).
Proof.
  intros. pose proof (INR_pred_nz n H). rewrite !lin_at_eq.
  rewrite (minus_INR (n - 1) i) by lia. field. auto.
Qed.

(* odd n: the middle point is exactly 0; even n: the two middle points are -+ dr/2 *)
Theorem grid_centre_odd : forall rm m, (1 <= m)%nat -> lin_at (- rm) rm (2 * m + 1) m = 0.
Proof.
  intros. rewrite lin_at_eq. replace (2 * m + 1 - 1)%nat with (2 * m)%nat by lia.
  rewrite mult_INR. simpl (INR 2). assert (INR m <> 0) by (apply not_0_INR; lia). field. auto.
Qed.

Theorem grid_centre_even : forall rm m, (1 <= m)%nat ->
  let dr := (rm - - rm) / INR (2 * m - 1) in
  lin_at (- rm) rm (2 * m) m = dr / 2 /\ lin_at (- rm) rm (2 * m) (m - 1) = - dr / 2.
Proof.
  intros. subst dr. rewrite !lin_at_eq.
  assert (INR (2 * m - 1) <> 0) by (apply not_0_INR; lia).
  rewrite (minus_INR m 1) by lia.
  assert (E : INR (2 * m - 1) = 2 * INR m - 1).
  { rewrite minus_INR by lia. rewrite mult_INR. simpl. ring. }
  rewrite E in *. simpl (INR 1). split; field; auto.
Qed.

Lemma linR_length : forall a b n, length (linR a b n) = n.
Proof. intros. unfold linspace. rewrite map_length, seq_length. reflexivity. Qed.

Lemma linR_nth : forall a b n i, (i < n)%nat -> nth i (linR a b n) 0 = lin_at a b n i.
Proof.
  intros. unfold linspace.
  rewrite (nth_indep _ 0 (lin_at a b n 0)) by (rewrite map_length, seq_length; auto).
  rewrite map_nth, seq_nth by auto. reflexivity.
Qed.

(* ---- mirroring of the r >= 0 half (Polynomial wrappers) ---- *)
Lemma mirror_length : forall (A : Type) (f : list A), f <> [] -> length (mirror f) = (2 * length f - 1)%nat.
Proof.
  intros. unfold mirror. rewrite app_length, rev_length. destruct f; [congruence|]. simpl. lia.
Qed.

Theorem mirror_nth : forall (A : Type) (f : list A) (d : A) i,
  f <> [] -> (i < 2 * length f - 1)%nat ->
  nth i (mirror f) d =
  nth (if (i <? length f - 1)%nat then length f - 1 - i else i - (length f - 1))%nat f d.
Proof.
  intros A f d i Hf Hi. unfold mirror. destruct f as [|a t]; [congruence|].
  cbn [tl length] in *. replace (S (length t) - 1)%nat with (length t) by lia.
  destruct (Nat.ltb_spec i (length t)).
  - rewrite app_nth1 by (rewrite rev_length; auto).
    rewrite rev_nth by auto.
    replace (length t - i)%nat with (S (length t - S i)) by lia. reflexivity.
  - rewrite app_nth2 by (rewrite rev_length; auto). rewrite rev_length. reflexivity.
Qed.

(* length of the mirrored array: n for odd n, n - 1 for even n (the classes
   document "n should be odd" for symmetric = True) *)
Theorem wrapper_length : forall (A : Type) (r : list A) n, length r = n -> (2 <= n)%nat ->
  length (mirror (upper_half r n)) = if Nat.odd n then n else (n - 1)%nat.
Proof.
  intros A r n Hl Hn. unfold upper_half.
  assert (Hk : length (skipn (n / 2) r) = (n - n / 2)%nat) by (rewrite skipn_length; lia).
  assert (Hne : skipn (n / 2) r <> []).
  { intro E. rewrite E in Hk. cbn [length] in Hk. pose proof (Nat.div_lt n 2 ltac:(lia) ltac:(lia)). lia. }
  rewrite mirror_length by auto. rewrite Hk.
  pose proof (Nat.div_mod n 2 ltac:(lia)). pose proof (Nat.mod_upper_bound n 2 ltac:(lia)).
  destruct (Nat.odd n) eqn:E.
  - apply Nat.odd_spec in E. destruct E as [k E]. lia.
  - rewrite <- Nat.negb_even in E. apply negb_false_iff in E.
    apply Nat.even_spec in E. destruct E as [k E]. lia.
Qed.

(* masks are symmetric in r *)
Notation absR := (absA R 0 Ropp Rltb).
Lemma absR_Rabs : forall x, absR x = Rabs x.
Proof.
  intros. unfold absA, Rltb. destruct (Rlt_dec x 0).
  - rewrite Rabs_left; auto.
  - rewrite Rabs_right; lra.
Qed.

Theorem masks_symmetric : forall ratio r1 r2 half sigma r,
  step_mask R 0 Rplus Rmult Rminus Ropp Rltb ratio r1 r2 half (- r) =
  step_mask R 0 Rplus Rmult Rminus Ropp Rltb ratio r1 r2 half r /\
  gauss_mask R 0 Rmult Ropp Rltb ratio sigma (- r) = gauss_mask R 0 Rmult Ropp Rltb ratio sigma r.
Proof.
  intros. unfold step_mask, gauss_mask. rewrite !absR_Rabs, !Rabs_Ropp. auto.
Qed.
