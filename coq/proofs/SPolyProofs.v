(* SPolyProofs.v — SPolynomial: the antiderivative families (all k), the line-of-sight
   integral of sum c[m,n] R^m cos^n, and .abel of the model = Abel2 of the represented
   function at every pixel (r > 0, r >= r_max, r = 0). *)
From Coq Require Import Reals List Arith Bool ZArith Lia Lra Psatz.
From Coquelicot Require Import Coquelicot.
From PA Require Import model.Poly model.AbelPoly model.SPoly proofs.PolyRing proofs.AbelPolyAlg proofs.AbelPolyInt proofs.PolyTop proofs.AbelPolyEval.
Import ListNotations.
Open Scope R_scope.

Lemma fpow_deriv : forall k r y, 0 < r ->
  is_derive (fun y => (r / rr r y) ^ k) y (- INR k * (r / rr r y) ^ k * (y / (rr r y * rr r y))).
Proof.
  intros. pose proof (rr_pos r y H). assert (0 < r * r + y * y) by nra.
  unfold rr in *. auto_derive. split; auto. lra.
  destruct k. simpl. ring.
  simpl Init.Nat.pred. rewrite S_INR. set (s := sqrt (r * r + y * y)) in *. simpl pow. unfold Rdiv. set (u := (r * / s) ^ k). field. lra.
Qed.

Lemma rec_deriv : forall (h g : R -> R) (h' g' c d y : R),
  is_derive h y h' -> is_derive g y g' -> d <> 0 ->
  is_derive (fun y => (y * h y + c * g y) / d) y ((h y + y * h' + c * g') / d).
Proof.
  intros. auto_derive.
  - split. exists h'; auto. split; auto. exists g'; auto.
  - replace (Derive (fun x => h x) y) with h' by (symmetry; apply is_derive_unique; auto).
    replace (Derive (fun x => g x) y) with g' by (symmetry; apply is_derive_unique; auto).
    field. auto.
Qed.

Lemma Gpos_deriv : forall k r y, 0 < r ->
  is_derive (fun y => Gpos k r y (rr r y)) y ((r / rr r y) ^ k).
Proof.
  intros k r y Hr. revert y. induction k as [k IH] using lt_wf_ind. intros y.
  pose proof (rr_pos r y Hr) as Hp. pose proof (rr_sq r y) as Hs.
  assert (Hq : 0 < r * r + y * y) by nra.
  destruct k as [|[|[|j]]].
  - simpl. auto_derive; auto.
  - pose proof (rr_gt_y r y Hr). cbn [Gpos]. unfold rr in *. auto_derive.
    + repeat split; auto.
    + set (s := sqrt (r * r + y * y)) in *. simpl pow.
      replace (r * r) with (s * s - y * y) in * by lra. field. split; lra.
  - cbn [Gpos]. unfold rr in *. auto_derive. lra.
    set (s := sqrt (r * r + y * y)) in *.
    replace ((r / s) ^ 2) with (r * r / (r * r + y * y)) by (rewrite <- Hs; field; lra).
    field. split; lra.
  - set (k' := S j) in *.
    assert (Hk : INR k' <> 0) by (apply not_0_INR; unfold k'; lia).
    pose proof (IH k' ltac:(unfold k'; lia) y) as IHk.
    pose proof (fpow_deriv k' r y Hr) as Hf.
    pose proof (rec_deriv (fun y => (r / rr r y) ^ k') (fun y => Gpos k' r y (rr r y)) _ _ (INR (k' - 1)) (INR k') y Hf IHk Hk) as D.
    cbn beta in D.
    replace ((r / rr r y) ^ S (S k')) with
      (((r / rr r y) ^ k' + y * (- INR k' * (r / rr r y) ^ k' * (y / (rr r y * rr r y))) + INR (k' - 1) * (r / rr r y) ^ k') / INR k').
    + exact D.
    + replace (k' - 1)%nat with j by (unfold k'; lia).
      replace (S (S k')) with (k' + 2)%nat by lia. rewrite pow_add.
      assert (E : INR k' = INR j + 1) by (unfold k'; apply S_INR).
      set (u := (r / rr r y) ^ k'). simpl pow. rewrite Rmult_1_r.
      replace (r / rr r y * (r / rr r y)) with (r * r / (rr r y * rr r y)) by (field; lra).
      rewrite !E in *.
      replace (r * r) with (rr r y * rr r y - y * y) by lra.
      set (s := rr r y) in *. field. split; lra.
Qed.

Lemma gpow_deriv : forall k r y, 0 < r ->
  is_derive (fun y => (rr r y / r) ^ k) y (INR k * (rr r y / r) ^ k * (y / (rr r y * rr r y))).
Proof.
  intros. pose proof (rr_pos r y H). assert (0 < r * r + y * y) by nra.
  unfold rr in *. auto_derive. repeat split; auto.
  destruct k. simpl. ring.
  simpl Init.Nat.pred. rewrite S_INR. set (s := sqrt (r * r + y * y)) in *. simpl pow.
  unfold Rdiv. set (u := (s * / r) ^ k). field. lra.
Qed.

Lemma Gneg_deriv : forall j r y, 0 < r ->
  is_derive (fun y => Gneg j r y (rr r y)) y ((rr r y / r) ^ j).
Proof.
  intros j r y Hr. revert y. induction j as [j IH] using lt_wf_ind. intros y.
  pose proof (rr_pos r y Hr) as Hp. pose proof (rr_sq r y) as Hs.
  assert (Hq : 0 < r * r + y * y) by nra.
  destruct j as [|[|j]].
  - simpl. auto_derive; auto.
  - pose proof (rr_gt_y r y Hr). cbn [Gneg]. unfold rr in *. auto_derive.
    + repeat split; auto.
    + set (s := sqrt (r * r + y * y)) in *. simpl pow.
      replace (s / r * 1) with ((s * s + (r * r + y * y)) / (2 * s * r)) by (rewrite <- Hs; field; lra).
      field. repeat split; lra.
  - assert (Hk : INR (j + 3) <> 0) by (apply not_0_INR; lia).
    pose proof (IH j ltac:(lia) y) as IHj.
    pose proof (gpow_deriv (j + 2) r y Hr) as Hf.
    pose proof (rec_deriv (fun y => (rr r y / r) ^ (j + 2)) (fun y => Gneg j r y (rr r y)) _ _ (INR (j + 2)) (INR (j + 3)) y Hf IHj Hk) as D.
    cbn beta in D.
    apply (is_derive_ext (fun y => (y * (rr r y / r) ^ (j + 2) + INR (j + 2) * Gneg j r y (rr r y)) / INR (j + 3))).
    { intros; reflexivity. }
    replace ((rr r y / r) ^ S (S j)) with
      (((rr r y / r) ^ (j + 2) + y * (INR (j + 2) * (rr r y / r) ^ (j + 2) * (y / (rr r y * rr r y))) +
        INR (j + 2) * (rr r y / r) ^ j) / INR (j + 3)).
    + exact D.
    + replace (S (S j)) with (j + 2)%nat by lia. rewrite pow_add.
      replace (j + 3)%nat with (S (S (S j))) in * by lia. replace (j + 2)%nat with (S (S j)) by lia.
      rewrite !S_INR in *.
      set (u := (rr r y / r) ^ j). simpl pow. rewrite Rmult_1_r.
      replace (rr r y / r * (rr r y / r)) with ((r * r + y * y) / (r * r)) by (rewrite <- Hs; field; lra).
      rewrite Hs. field. repeat split; lra.
Qed.

Lemma FzG_deriv : forall k r y, 0 < r ->
  is_derive (fun y => FzG k r y (rr r y)) y (fz k (r / rr r y)).
Proof.
  intros. unfold FzG, fz. destruct (0 <=? k)%Z.
  - apply Gpos_deriv; auto.
  - pose proof (rr_pos r y H).
    replace (/ (r / rr r y)) with (rr r y / r) by (field; lra). apply Gneg_deriv; auto.
Qed.

Lemma fz_sub : forall n m u, u <> 0 -> u ^ n * (/ u) ^ m = fz (Z.of_nat n - Z.of_nat m) u.
Proof.
  intros n m u Hu. unfold fz. destruct (Z.leb_spec 0 (Z.of_nat n - Z.of_nat m)).
  - replace (Z.to_nat (Z.of_nat n - Z.of_nat m)) with (n - m)%nat by lia.
    replace n with ((n - m) + m)%nat at 1 by lia. rewrite pow_add, Rmult_assoc, <- Rpow_mult_distr.
    rewrite Rinv_r by auto. rewrite pow1. ring.
  - replace (Z.to_nat (- (Z.of_nat n - Z.of_nat m))) with (m - n)%nat by lia.
    replace m with (n + (m - n))%nat at 1 by lia. rewrite pow_add, <- Rmult_assoc, <- Rpow_mult_distr.
    rewrite Rinv_r by auto. rewrite pow1. ring.
Qed.

Lemma colsum_ext : forall col m0 g g', (forall m, g m = g' m) -> colsum col m0 g = colsum col m0 g'.
Proof. induction col; intros; simpl; auto. rewrite H, (IHcol _ g g' H). auto. Qed.
Lemma colssum_ext : forall cols n0 g g', (forall n m, g n m = g' n m) -> colssum cols n0 g = colssum cols n0 g'.
Proof.
  induction cols; intros; simpl; auto. rewrite (IHcols _ g g' H). f_equal. apply colsum_ext. intros; apply H.
Qed.
Lemma colsum_lin : forall col m0 g h a b,
  colsum col m0 (fun m => a * g m + b * h m) = a * colsum col m0 g + b * colsum col m0 h.
Proof. induction col; intros; simpl. ring. rewrite IHcol. ring. Qed.
Lemma colssum_lin : forall cols n0 g h a b,
  colssum cols n0 (fun n m => a * g n m + b * h n m) = a * colssum cols n0 g + b * colssum cols n0 h.
Proof. induction cols; intros; simpl. ring. rewrite IHcols, colsum_lin. ring. Qed.

Lemma colsum_deriv : forall col m0 (g : nat -> R -> R) (g' : nat -> R) y,
  (forall m, is_derive (g m) y (g' m)) ->
  is_derive (fun y => colsum col m0 (fun m => g m y)) y (colsum col m0 g').
Proof.
  induction col; intros; simpl.
  - apply @is_derive_const.
  - apply (is_derive_plus (fun y => a * g m0 y) (fun y => colsum col (S m0) (fun m => g m y))).
    + apply (is_derive_scal (g m0)). apply H.
    + apply IHcol; auto.
Qed.
Lemma colssum_deriv : forall cols n0 (g : nat -> nat -> R -> R) (g' : nat -> nat -> R) y,
  (forall n m, is_derive (g n m) y (g' n m)) ->
  is_derive (fun y => colssum cols n0 (fun n m => g n m y)) y (colssum cols n0 g').
Proof.
  induction cols; intros; simpl.
  - apply @is_derive_const.
  - apply (is_derive_plus (fun y => colsum a 0 (fun m => g n0 m y)) (fun y => colssum cols (S n0) (fun n m => g n m y))).
    + apply (colsum_deriv a 0 (g n0) (g' n0)). intros; apply H.
    + apply IHcols; auto.
Qed.

(* integrand along the line of sight through the image point (r, cs), r > 0 *)
Lemma sfun_los : forall cols r cs y, 0 < r ->
  sfun cols (rr r y) (r * cs / rr r y) =
  colssum cols 0 (fun n m => cs ^ n * r ^ m * fz (Z.of_nat n - Z.of_nat m) (r / rr r y)).
Proof.
  intros. pose proof (rr_pos r y H). unfold sfun. apply colssum_ext. intros n m.
  rewrite <- fz_sub by (apply Rgt_not_eq; apply Rdiv_lt_0_compat; lra).
  replace (r * cs / rr r y) with (cs * (r / rr r y)) by (field; lra).
  rewrite Rpow_mult_distr.
  replace (rr r y ^ m) with (r ^ m * (/ (r / rr r y)) ^ m).
  - ring.
  - rewrite <- Rpow_mult_distr. f_equal. field. lra.
Qed.

Lemma Tsp_deriv : forall cols r cs y, 0 < r ->
  is_derive (fun y => Tsp cols r cs y) y (sfun cols (rr r y) (r * cs / rr r y)).
Proof.
  intros. rewrite sfun_los by auto. unfold Tsp.
  apply (colssum_deriv cols 0 (fun n m y => cs ^ n * r ^ m * FzG (Z.of_nat n - Z.of_nat m) r y (rr r y))).
  intros n m. apply (is_derive_scal (fun y => FzG (Z.of_nat n - Z.of_nat m) r y (rr r y))).
  apply FzG_deriv; auto.
Qed.

Lemma fz_deriv_ex : forall k r y, 0 < r -> ex_derive (fun y => fz k (r / rr r y)) y.
Proof.
  intros. unfold fz. destruct (0 <=? k)%Z.
  - eexists. apply fpow_deriv; auto.
  - eexists. apply (is_derive_ext (fun y => (rr r y / r) ^ Z.to_nat (- k))).
    + intros t. pose proof (rr_pos r t H). f_equal. field. lra.
    + apply gpow_deriv; auto.
Qed.

Lemma sfun_los_continuous : forall cols r cs y, 0 < r ->
  continuous (fun y => sfun cols (rr r y) (r * cs / rr r y)) y.
Proof.
  intros. apply (continuous_ext (fun y => colssum cols 0 (fun n m => cs ^ n * r ^ m * fz (Z.of_nat n - Z.of_nat m) (r / rr r y)))).
  - intros; symmetry; apply sfun_los; auto.
  - apply (ex_derive_continuous (fun y => colssum cols 0 (fun n m => cs ^ n * r ^ m * fz (Z.of_nat n - Z.of_nat m) (r / rr r y)))).
    eexists.
    apply (colssum_deriv cols 0 (fun n m y => cs ^ n * r ^ m * fz (Z.of_nat n - Z.of_nat m) (r / rr r y))
                         (fun n m => scal (cs ^ n * r ^ m) (Derive (fun y => fz (Z.of_nat n - Z.of_nat m) (r / rr r y)) y))).
    intros n m. apply (is_derive_scal (fun y => fz (Z.of_nat n - Z.of_nat m) (r / rr r y))).
    apply Derive_correct. apply fz_deriv_ex; auto.
Qed.

(* line integral of the polynomial part over any piece of the line of sight *)
Theorem sp_seg_RInt : forall cols r cs a b, 0 < r ->
  is_RInt (fun y => sfun cols (rr r y) (r * cs / rr r y)) a b (Tsp cols r cs b - Tsp cols r cs a).
Proof.
  intros. apply (is_RInt_derive (fun y => Tsp cols r cs y)).
  - intros y _. apply Tsp_deriv; auto.
  - intros y _. apply sfun_los_continuous; auto.
Qed.

Lemma acos_limit : forall r rho, 0 < r <= rho -> acos (r / rho) = atan (sqrt (rho * rho - r * r) / r).
Proof.
  intros r rho [H0 H1]. assert (Hrho : 0 < rho) by lra.
  assert (Hx : 0 < r / rho) by (apply Rdiv_lt_0_compat; lra).
  rewrite acos_atan by auto. f_equal.
  assert (E : sqrt (1 - (r / rho)²) = sqrt (rho * rho - r * r) / rho).
  { apply sqrt_lem_1.
    - unfold Rsqr. assert (r / rho <= 1) by (apply (Rmult_le_reg_r rho); auto; unfold Rdiv; rewrite Rmult_assoc, Rinv_l; lra).
      nra.
    - apply Rmult_le_pos. apply sqrt_pos. left; apply Rinv_0_lt_compat; auto.
    - unfold Rsqr. replace (sqrt (rho * rho - r * r) / rho * (sqrt (rho * rho - r * r) / rho))
        with (sqrt (rho * rho - r * r) * sqrt (rho * rho - r * r) / (rho * rho)) by (field; lra).
      rewrite sqrt_sqrt by nra. field. lra. }
  rewrite E. field. lra.
Qed.

Lemma FposC_step : forall j r z rho, FposC (S (S (S j))) r z rho =
  (z * (r / rho) ^ S j + INR (S j - 1) * FposC (S j) r z rho) / INR (S j).
Proof. reflexivity. Qed.
Lemma Gpos_step : forall j r z rho, Gpos (S (S (S j))) r z rho =
  (z * (r / rho) ^ S j + INR (S j - 1) * Gpos (S j) r z rho) / INR (S j).
Proof. reflexivity. Qed.

Lemma FposC_eq : forall k r rho, 0 < r <= rho ->
  FposC k r (sqrt (rho * rho - r * r)) rho = Gpos k r (sqrt (rho * rho - r * r)) rho.
Proof.
  intros k r rho H. induction k as [k IH] using lt_wf_ind.
  destruct k as [|[|[|j]]]; try reflexivity.
  - cbn [FposC Gpos]. rewrite acos_limit by auto. reflexivity.
  - rewrite FposC_step, Gpos_step, (IH (S j)) by lia. reflexivity.
Qed.

Lemma Fcode_eq : forall k r rho, 0 < r <= rho ->
  Fcode k r (sqrt (rho * rho - r * r)) rho = FzG k r (sqrt (rho * rho - r * r)) rho.
Proof. intros. unfold Fcode, FzG. destruct (0 <=? k)%Z; auto. apply FposC_eq; auto. Qed.

Lemma z0_ylim : forall r rmin, 0 < r -> 0 <= rmin ->
  sqrt (Rmax r rmin * Rmax r rmin - r * r) = ylim rmin r /\ rr r (ylim rmin r) = Rmax r rmin.
Proof.
  intros. rewrite (Rmax_comm r rmin). split.
  - destruct (Rle_lt_dec r rmin).
    + rewrite Rmax_left by auto. reflexivity.
    + rewrite Rmax_right by lra. replace (r * r - r * r) with 0 by ring. rewrite sqrt_0.
      symmetry. unfold ylim. apply sqrt_neg_0. nra.
  - apply rr_lo; lra.
Qed.

Section SSegment.
Variables (F : R -> R -> R) (cols : list (list R)) (rmin rmax Rm r cs : R).
Hypothesis Hr : 0 < r < rmax.
Hypothesis Hl : 0 <= rmin /\ rmin <= rmax /\ rmax <= Rm.
Hypothesis Fin : forall rho c, rmin < rho < rmax -> F rho c = sfun cols rho c.
Hypothesis Flo : forall rho c, 0 <= rho < rmin -> F rho c = 0.
Hypothesis Fhi : forall rho c, rmax < rho < Rm -> F rho c = 0.

Let g := fun y => F (rr r y) (r * cs / rr r y).

Lemma zero2_RInt : forall a b, a <= b -> (forall y, a < y < b -> g y = 0) -> is_RInt g a b 0.
Proof.
  intros. apply (is_RInt_ext (fun _ => 0)).
  - intros y Hy. rewrite Rmin_left, Rmax_right in Hy by lra. symmetry; auto.
  - apply is_RInt_zero.
Qed.

Theorem sp_los_RInt :
  is_RInt g 0 (ylim Rm r) (Tsp cols r cs (ylim rmax r) - Tsp cols r cs (ylim rmin r)).
Proof.
  destruct Hl as (H0 & H1 & H2). destruct Hr as [Hr0 Hr1].
  assert (Hx : 0 <= r) by lra.
  pose proof (ylim_nonneg rmin r) as L0.
  pose proof (ylim_mono rmin rmax r Hx (conj H0 H1)) as L1.
  pose proof (ylim_mono rmax Rm r Hx (conj (Rle_trans _ _ _ H0 H1) H2)) as L2.
  assert (I1 : is_RInt g 0 (ylim rmin r) 0).
  { apply zero2_RInt; auto. intros y Hy. apply Flo. split. apply rr_nonneg. apply rr_lt; lra. }
  assert (I2 : is_RInt g (ylim rmin r) (ylim rmax r) (Tsp cols r cs (ylim rmax r) - Tsp cols r cs (ylim rmin r))).
  { apply (is_RInt_ext (fun y => sfun cols (rr r y) (r * cs / rr r y))).
    - intros y Hy. rewrite Rmin_left, Rmax_right in Hy by lra. symmetry. apply Fin. split.
      + apply rr_gt; lra.
      + apply rr_lt; lra.
    - apply sp_seg_RInt; auto. }
  assert (I3 : is_RInt g (ylim rmax r) (ylim Rm r) 0).
  { apply zero2_RInt; auto. intros y Hy. apply Fhi. split. apply rr_gt; lra. apply rr_lt; lra. }
  pose proof (is_RInt_Chasles _ _ _ _ _ _ I1 I2) as I12.
  pose proof (is_RInt_Chasles _ _ _ _ _ _ I12 I3) as I.
  match type of I with is_RInt _ _ _ ?v =>
    replace v with (Tsp cols r cs (ylim rmax r) - Tsp cols r cs (ylim rmin r)) in I
      by (unfold plus; simpl; ring) end.
  exact I.
Qed.

(* .abel of SPolynomial at a pixel with r > 0 is the Abel transform *)
Theorem sp_abel_pt_Abel2 : sp_abel_pt cols r cs rmin rmax = Abel2 F Rm r cs.
Proof.
  destruct Hl as (H0 & H1 & H2). destruct Hr as [Hr0 Hr1].
  unfold Abel2. fold (rr r). 
  change (RInt (fun y => F (sqrt (r * r + y * y)) (r * cs / sqrt (r * r + y * y))) 0 (sqrt (Rm * Rm - r * r)))
    with (RInt g 0 (ylim Rm r)).
  rewrite (is_RInt_unique _ _ _ _ sp_los_RInt).
  unfold sp_abel_pt. cbv zeta.
  destruct (z0_ylim r rmin Hr0 H0) as [Z0 R0]. rewrite Z0.
  fold (ylim rmax r).
  assert (R1 : rr r (ylim rmax r) = rmax) by (apply rr_up; lra).
  rewrite (colssum_ext cols 0 _
    (fun n m => 2 * (cs ^ n * r ^ m * FzG (Z.of_nat n - Z.of_nat m) r (ylim rmax r) (rr r (ylim rmax r)))
              + (-2) * (cs ^ n * r ^ m * FzG (Z.of_nat n - Z.of_nat m) r (ylim rmin r) (rr r (ylim rmin r))))).
  - rewrite colssum_lin. unfold Tsp. ring.
  - intros n m. rewrite R1, R0. unfold ylim.
    rewrite (Fcode_eq _ r rmax) by lra.
    assert (E0 : Fcode (Z.of_nat n - Z.of_nat m) r (sqrt (rmin * rmin - r * r)) (Rmax r rmin)
               = FzG (Z.of_nat n - Z.of_nat m) r (sqrt (rmin * rmin - r * r)) (Rmax r rmin)).
    { fold (ylim rmin r). rewrite <- Z0. apply Fcode_eq. split; auto. apply Rmax_l. }
    rewrite E0. ring.
Qed.
End SSegment.

Lemma colsum_peval : forall col m0 k rho, colsum col m0 (fun m => k * rho ^ m) = k * (rho ^ m0 * pevalR col rho).
Proof.
  induction col; intros; simpl. ring. rewrite IHcol. unfold pevalR. simpl. ring.
Qed.

Lemma sfun_peval : forall cols n0 rho c,
  colssum cols n0 (fun n m => c ^ n * rho ^ m) =
  colssum (map (fun col => [pevalR col rho]) cols) n0 (fun n m => c ^ n).
Proof.
  induction cols; intros; simpl; auto. rewrite IHcols, colsum_peval. simpl. ring.
Qed.

Lemma sfun_prepare : forall cols r0 s rho c, s <> 0 ->
  sfun (sp_prepareR cols r0 s) rho c = sfun cols ((rho - r0) / s) c.
Proof.
  intros. unfold sfun. rewrite !sfun_peval. unfold sp_prepareR. rewrite map_map.
  f_equal. apply map_ext. intros col. f_equal. apply (coef_eval col r0 s rho H).
Qed.

Theorem spoly_abel : forall cols r0 s rmin rmax Rm r cs,
  s <> 0 -> 0 < r < rmax -> Rmax rmin 0 <= rmax <= Rm ->
  sp_abel_pt (sp_prepareR cols r0 s) r cs (Rmax rmin 0) rmax = Abel2 (spfun cols r0 s rmin rmax) Rm r cs.
Proof.
  intros cols r0 s rmin rmax Rm r cs Hs Hr Hl.
  assert (H0 : 0 <= Rmax rmin 0) by apply Rmax_r.
  apply (sp_abel_pt_Abel2 (spfun cols r0 s rmin rmax) (sp_prepareR cols r0 s) (Rmax rmin 0) rmax Rm r cs Hr).
  - lra.
  - intros rho c Hrho. unfold spfun. destruct (Rle_dec _ _); [|lra]. destruct (Rlt_dec _ _); [|lra].
    symmetry. apply sfun_prepare; auto.
  - intros rho c Hrho. unfold spfun. destruct (Rle_dec _ _); auto. lra.
  - intros rho c Hrho. unfold spfun. destruct (Rle_dec _ _); auto. destruct (Rlt_dec _ _); auto. lra.
Qed.

(* beyond r_max the code leaves abel = 0 *)
Theorem spoly_abel_outside : forall cols r0 s rmin rmax Rm r cs, 0 <= rmax <= r ->
  Abel2 (spfun cols r0 s rmin rmax) Rm r cs = 0.
Proof.
  intros. unfold Abel2.
  match goal with |- 2 * ?I = 0 => assert (E : I = 0); [|rewrite E; ring] end.
  apply is_RInt_unique. fold (ylim Rm r).
  apply (is_RInt_ext (fun _ => 0)).
  - intros y Hy. pose proof (ylim_nonneg Rm r). rewrite Rmin_left, Rmax_right in Hy by lra.
    symmetry. unfold spfun. destruct (Rle_dec _ _); auto. destruct (Rlt_dec _ _); auto. exfalso.
    fold (rr r y) in *. pose proof (rr_sq r y). pose proof (rr_nonneg r y).
    assert (rr r y * rr r y < rmax * rmax) by (apply Rmult_le_0_lt_compat; lra).
    assert (rmax * rmax <= r * r) by (apply Rmult_le_compat; lra).
    assert (0 < y * y) by (apply Rmult_lt_0_compat; lra). lra.
  - apply is_RInt_zero.
Qed.

Lemma sfun_cos0 : forall cols rho, sfun cols rho 0 = pevalR (hd [] cols) rho.
Proof.
  intros. unfold sfun. rewrite sfun_peval. destruct cols as [|col cols]; simpl.
  - unfold pevalR. reflexivity.
  - assert (Z0 : forall col m0, colsum col m0 (fun _ => 0) = 0).
    { induction col0; intros; simpl; auto. rewrite IHcol0. ring. }
    assert (Z : forall l n0, colssum l (S n0) (fun n _ => 0 ^ n) = 0).
    { induction l; intros; simpl; auto. rewrite IHl.
      rewrite (colsum_ext a 0 (fun _ => 0 * 0 ^ n0) (fun _ => 0)) by (intros; ring). rewrite Z0. ring. }
    rewrite Z. ring.
Qed.

Lemma PQ_r0 : forall col m0 rmin rmax,
  2 * (PQ col m0 rmax - PQ col m0 rmin) = sp_abel_r0 col m0 rmin rmax.
Proof.
  induction col; intros; simpl. ring. rewrite <- IHcol.
  assert (INR (S m0) <> 0) by (apply not_0_INR; lia). simpl pow. field. auto.
Qed.

Theorem spoly_abel_r0 : forall cols r0 s rmin rmax Rm cs,
  s <> 0 -> 0 < rmax -> Rmax rmin 0 <= rmax <= Rm ->
  sp_abel_r0 (hd [] (sp_prepareR cols r0 s)) 0 (Rmax rmin 0) rmax = Abel2 (spfun cols r0 s rmin rmax) Rm 0 cs.
Proof.
  intros cols r0 s rmin rmax Rm cs Hs Hm Hl.
  assert (H0 : 0 <= Rmax rmin 0) by apply Rmax_r.
  set (F1 := fun rho => spfun cols r0 s rmin rmax rho 0).
  assert (E : Abel2 (spfun cols r0 s rmin rmax) Rm 0 cs = Abel F1 Rm 0).
  { unfold Abel2, Abel. f_equal. apply RInt_ext. intros y _. unfold F1. f_equal. unfold Rdiv. ring. }
  rewrite E.
  rewrite (los_Abel F1 (hd [] (sp_prepareR cols r0 s)) (Rmax rmin 0) rmax Rm 0); try lra.
  - rewrite !PA_x0 by apply ylim_nonneg.
    assert (Y : forall a, 0 <= a -> ylim a 0 = a).
    { intros. unfold ylim. replace (a * a - 0 * 0) with (a * a) by ring. apply sqrt_square; auto. }
    rewrite !Y by lra. symmetry. apply PQ_r0.
  - intros t Ht. unfold F1, spfun. destruct (Rle_dec _ _); [|lra]. destruct (Rlt_dec _ _); [|lra].
    rewrite <- sfun_prepare by auto. apply sfun_cos0.
  - intros t Ht. unfold F1, spfun. destruct (Rle_dec _ _); auto. lra.
  - intros t Ht. unfold F1, spfun. destruct (Rle_dec _ _); auto. destruct (Rlt_dec _ _); auto. lra.
Qed.

(* the evaluation form run by the correspondence check is the model *)
Lemma sp_abel_ptG_eq : forall cols r cs rmin rmax, 0 < r <= rmax ->
  sp_abel_pt cols r cs rmin rmax = sp_abel_ptG cols r cs (Rmax r rmin) rmax.
Proof.
  intros. unfold sp_abel_pt, sp_abel_ptG. cbv zeta. apply colssum_ext. intros n m.
  rewrite (Fcode_eq _ r rmax) by lra.
  rewrite (Fcode_eq _ r (Rmax r rmin)) by (split; [lra | apply Rmax_l]). reflexivity.
Qed.

Theorem sp_abelQ_at_correct : forall cols r cs rmin rmax, 0 < Q2R r <= Q2R rmax ->
  sp_abelQ_at cols r cs rmin rmax =
  sp_abel_pt (map (map Q2R) cols) (Q2R r) (Q2R cs) (Q2R rmin) (Q2R rmax).
Proof.
  intros. unfold sp_abelQ_at. rewrite Q2R_Qmax. symmetry. apply sp_abel_ptG_eq; auto.
Qed.
