(* TransformGenEq.v — the pipeline regenerated from abel/transform.py
   (coq/gen/TransformGen.v, by tools/translate/transform_src.py on every run)
   is the hand-written model transform_model that the C05 theorems are about. *)
From Coq Require Import List Arith Bool ZArith.
From PA Require Import base.Arr model.Symmetry model.TransformPipe gen.TransformGen.
Import ListNotations.

Lemma transform_gen_eq (A : Type) (zero : A) (add : A -> A -> A) (divn : A -> nat -> A)
      (T : list (list A) -> list (list A)) (a0 : axis) (u : mask) (meth : smethod) (IM : list (list A)) :
  @transform_gen A zero add divn T a0 u meth IM = transform_model zero add divn T a0 u meth IM.
Proof.
  unfold transform_gen, verify_inputs_gen, by_quadrant_gen, transform_model, norm_axis.
  destruct (Nat.leb (nrows IM) 2); [reflexivity|].
  destruct (Nat.eqb (mask_count u) 0); [reflexivity|].
  match goal with |- context [get_quadrants zero add divn IM true ?a u meth] =>
    destruct (get_quadrants zero add divn IM true a u meth) as [[[[Q0 Q1] Q2] Q3]|]; [|reflexivity] end.
  destruct (ax_elems a0);
    match goal with |- context [ax_has 0 ?a] =>
      destruct (ax_has 0 a), (ax_has 1 a), (ax_has_none a); reflexivity end.
Qed.
