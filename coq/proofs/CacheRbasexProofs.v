(* model/CacheRbasex.v: the histories that used to fail (all fixed in /repo),
   evaluated on the model of the fixed code. *)
From Coq Require Import List Arith Bool Lia.
From PA Require Import base.Npy model.CacheCommon model.CacheRbasex.
Import ListNotations.

(* a call of the standard kind: 9x9 image, origin 'center', rmax 'MIN',
   order 2, even only; Rmax = 4, valid-mask content #1005 (all valid) *)
Definition mkcall (pid wid wver fail reg : nat) (fwd : bool) (geom : option (nat * nat * nat)) (bd : bdarg) : call :=
  {| c_pid := pid; c_wid := wid; c_wver := wver; c_fail := fail; c_rmax := 4; c_vid := 1005;
     c_order := 2; c_odd := false; c_fwd := fwd; c_reg := reg; c_geom := geom; c_bd := bd;
     c_listing := [] |}.

Definition agrees (h : list op) (c : op) : bool := out_eqv (last_result h c) (fresh c).

(* 5c177c1: image basis keyed by its geometry *)
Example ibs_keyed :
  agrees [Call (mkcall 1 0 0 0 0 false (Some (5, 5, 0)) BNone)] (Call (mkcall 1 0 0 0 0 false (Some (6, 6, 0)) BNone)) = true.
Proof. vm_compute. reflexivity. Qed.

(* a36fe34: weights compared by content (same object, content 100 -> 101) *)
Example weights_by_content :
  agrees [Call (mkcall 2 1 100 0 0 false None BNone)] (Call (mkcall 2 1 101 0 0 false None BNone)) = true.
Proof. vm_compute. reflexivity. Qed.

(* d536a3f: a call whose Distributions raises leaves the cache untouched *)
Example failed_call_harmless :
  res_code (last_result [] (Call (mkcall 3 0 0 2 0 false None BNone))) = exc_code EValue /\
  agrees [Call (mkcall 3 0 0 2 0 false None BNone)] (Call (mkcall 1 0 0 0 0 false None BNone)) = true /\
  agrees [Call (mkcall 1 1 100 0 0 false None BNone); Call (mkcall 3 1 100 1 0 false None BNone)]
         (Call (mkcall 3 1 100 1 0 false None BNone)) = true.
Proof. repeat split; vm_compute; reflexivity. Qed.

(* d536a3f: an invalid reg raises every time *)
Example invalid_reg_always_raises :
  let h := [Call (mkcall 1 0 0 0 2 false None BNone); Call (mkcall 1 0 0 0 9 false None BNone)] in
  res_code (last_result h (Call (mkcall 1 0 0 0 9 false None BNone))) = exc_code EValue /\
  agrees h (Call (mkcall 1 0 0 0 9 false None BNone)) = true /\
  agrees (h ++ [Call (mkcall 1 0 0 0 9 false None BNone)]) (Call (mkcall 1 0 0 0 2 false None BNone)) = true.
Proof. repeat split; vm_compute; reflexivity. Qed.

(* d536a3f: a raising load (empty file: EOFError is still not caught) leaves
   the cache untouched; after the file is removed the result is fresh *)
Definition oddcall : call :=
  {| c_pid := 5; c_wid := 0; c_wver := 0; c_fail := 0; c_rmax := 4; c_vid := 1005;
     c_order := 2; c_odd := true; c_fwd := false; c_reg := 0; c_geom := None; c_bd := BNone; c_listing := [] |}.
Definition o4call (listing : list fkey) : call :=
  {| c_pid := 6; c_wid := 0; c_wver := 0; c_fail := 0; c_rmax := 4; c_vid := 1005;
     c_order := 4; c_odd := false; c_fwd := false; c_reg := 0; c_geom := None; c_bd := BPath 1;
     c_listing := listing |}.
Definition k44i : fkey := {| fk_rmax := 4; fk_order := 4; fk_odd := false; fk_inv := true |}.
Example failed_load_harmless :
  res_code (last_result [Call oddcall; Seed 1 k44i (FBad PEOF)] (Call (o4call [k44i]))) = exc_code EEOF /\
  agrees [Call oddcall; Seed 1 k44i (FBad PEOF); Call (o4call [k44i]); Remove 1 k44i] (Call (o4call [])) = true.
Proof. split; vm_compute; reflexivity. Qed.

(* 7ce4ac5: a valid file of a wrong shape is ignored (regenerated, re-saved) *)
Definition k42i : fkey := {| fk_rmax := 4; fk_order := 2; fk_odd := false; fk_inv := true |}.
Example wrong_shape_regenerated :
  agrees [Seed 1 k42i FShape] (Call (mkcall 1 0 0 0 0 false None (BPath 1))) = true.
Proof. vm_compute. reflexivity. Qed.

(* 2e99c37: transform matrices keyed by the validity mask, also through the
   public accessor get_bs_cached *)
Definition call7 : call :=
  {| c_pid := 1; c_wid := 1; c_wver := 100; c_fail := 0; c_rmax := 4; c_vid := 7; c_order := 2; c_odd := false;
     c_fwd := false; c_reg := 0; c_geom := None; c_bd := BNone; c_listing := [] |}.
Example accessor_keyed_by_mask :
  agrees [Call call7] (GetBs 4 2 false false 0 1000 BNone []) = true /\
  agrees [Call (mkcall 1 0 0 0 0 false None BNone); Cleanup CInv; GetBs 4 2 false false 0 7 BNone []]
         (Call (mkcall 1 0 0 0 0 false None BNone)) = true.
Proof. split; vm_compute; reflexivity. Qed.
