(* Proofs about model/CacheRbasex.v: the recorded findings as refutation
   theorems (each by evaluation of the model on a concrete history), and the
   facts about what a fresh process returns. *)
From Coq Require Import List Arith Bool Lia.
From PA Require Import base.Npy model.CacheCommon model.CacheRbasex.
Import ListNotations.

(* a call of the standard kind: 9x9 image, origin 'center', rmax 'MIN',
   order 2, even only, no weights; Rmax = 4, valid-mask content #1 *)
Definition mkcall (pid wid wver fail reg : nat) (fwd : bool) (geom : option (nat * nat * nat)) (bd : bdarg) : call :=
  {| c_pid := pid; c_wid := wid; c_wver := wver; c_fail := fail; c_rmax := 4; c_vid := 1;
     c_order := 2; c_odd := false; c_fwd := fwd; c_reg := reg; c_geom := geom; c_bd := bd;
     c_listing := [] |}.

Definition same_geom : option (nat * nat * nat) := Some (5, 5, 0).   (* out='same' *)
Definition full_geom : option (nat * nat * nat) := Some (6, 6, 0).   (* out='full' with another Rmax+1 *)

(* F5 (fixed in /repo, commit "rbasex image-basis cache is keyed by the output
   geometry"): out='same' then out='full' now gives the fresh result *)
Definition ibs_hist : list op := [Call (mkcall 1 0 0 0 0 false same_geom BNone)].
Definition ibs_call : op := Call (mkcall 1 0 0 0 0 false full_geom BNone).
Example ibs_keyed : out_eqv (last_result ibs_hist ibs_call) (fresh ibs_call) = true.
Proof. vm_compute. reflexivity. Qed.

(* F6: weights are compared by identity: same object (wid 1), content changed
   in place (version 100 -> 101) *)
Definition w_hist : list op := [Call (mkcall 2 1 100 0 0 false None BNone)].
Definition w_call : op := Call (mkcall 2 1 101 0 0 false None BNone).
Theorem weights_identity_refuted :
  res_code (last_result w_hist w_call) = 0 /\ res_code (fresh w_call) = 0 /\
  out_eqv (last_result w_hist w_call) (fresh w_call) = false.
Proof. repeat split; vm_compute; reflexivity. Qed.

(* F17: a call whose Distributions precalculation raises (rmax='foo') leaves a
   half-built object: the next valid call raises AttributeError *)
Definition fc_hist : list op := [Call (mkcall 3 0 0 2 0 false None BNone)].
Definition fc_call : op := Call (mkcall 1 0 0 0 0 false None BNone).
Theorem failed_call_poisons_refuted :
  res_code (last_result fc_hist fc_call) = exc_code EAttr /\ res_code (fresh fc_call) = 0.
Proof. split; vm_compute; reflexivity. Qed.

(* ... and cache_cleanup('all') is what repairs it *)
Example failed_call_repaired_by_cleanup :
  out_eqv (last_result (fc_hist ++ [Cleanup CAll]) fc_call) (fresh fc_call) = true.
Proof. vm_compute. reflexivity. Qed.

(* _tri_prm is assigned before the regularisation argument is checked: the
   second call with reg='foo' silently returns the matrices of the call before *)
Definition rg_hist : list op :=
  [Call (mkcall 1 0 0 0 2 false None BNone); Call (mkcall 1 0 0 0 9 false None BNone)].
Definition rg_call : op := Call (mkcall 1 0 0 0 9 false None BNone).
Theorem invalid_reg_twice_refuted :
  res_code (last_result rg_hist rg_call) = 0 /\ res_code (fresh rg_call) = exc_code EValue.
Proof. split; vm_compute; reflexivity. Qed.

(* _bs_prm is assigned before _load_bs: an empty file (EOFError is not caught)
   makes the call raise, and after the file is removed the old basis — here of
   (Rmax 4, order 2, odd) — serves the request (Rmax 4, order 4, even) *)
Definition oddcall : call :=
  {| c_pid := 5; c_wid := 0; c_wver := 0; c_fail := 0; c_rmax := 4; c_vid := 1;
     c_order := 2; c_odd := true; c_fwd := false; c_reg := 0; c_geom := None; c_bd := BNone; c_listing := [] |}.
Definition o4call (listing : list fkey) : call :=
  {| c_pid := 6; c_wid := 0; c_wver := 0; c_fail := 0; c_rmax := 4; c_vid := 1;
     c_order := 4; c_odd := false; c_fwd := false; c_reg := 0; c_geom := None; c_bd := BPath 1;
     c_listing := listing |}.
Definition k44i : fkey := {| fk_rmax := 4; fk_order := 4; fk_odd := false; fk_inv := true |}.
Definition fl_hist : list op :=
  [Call oddcall; Seed 1 k44i (FBad PEOF); Call (o4call [k44i]); Remove 1 k44i].
Definition fl_call : op := Call (o4call []).
Theorem failed_load_poisons_refuted :
  res_code (snd (step (run init [Call oddcall; Seed 1 k44i (FBad PEOF)]) (Call (o4call [k44i])))) = exc_code EEOF /\
  res_code (last_result fl_hist fl_call) = 0 /\ res_code (fresh fl_call) = 0 /\
  out_eqv (last_result fl_hist fl_call) (fresh fl_call) = false.
Proof. repeat split; vm_compute; reflexivity. Qed.

(* a valid file of a too small shape: raises, and keeps raising after removal *)
Definition k42i : fkey := {| fk_rmax := 4; fk_order := 2; fk_odd := false; fk_inv := true |}.
Definition ws_call (l : list fkey) : op :=
  Call {| c_pid := 1; c_wid := 0; c_wver := 0; c_fail := 0; c_rmax := 4; c_vid := 1; c_order := 2;
          c_odd := false; c_fwd := false; c_reg := 0; c_geom := None; c_bd := BPath 1; c_listing := l |}.
Definition ws_hist : list op := [Seed 1 k42i FShape; ws_call [k42i]; Remove 1 k42i].
Theorem wrong_shape_sticks :
  0 <? res_code (last_result ws_hist (ws_call [])) = true /\ res_code (fresh (ws_call [])) = 0.
Proof. split; vm_compute; reflexivity. Qed.

(* the ValueError class of damage is repaired by the handler: regenerated and re-saved *)
Example value_error_damage_repaired :
  out_eqv (last_result [Seed 1 k42i (FBad PValue)] (ws_call [k42i])) (fresh (ws_call [])) = true.
Proof. vm_compute. reflexivity. Qed.

(* _trf / _tri are not keyed by the valid mask: after a transform whose
   Distributions object has mask #7 (some radii without data), the public
   accessor called with valid=None (number 1000: no masking) returns the
   masked matrices; and a direct masked accessor call after
   cache_cleanup('inverse') leaves masked matrices that the next transform
   (all radii valid: number 1005) silently uses *)
Definition acc_call7 : call :=
  {| c_pid := 1; c_wid := 1; c_wver := 100; c_fail := 0; c_rmax := 4; c_vid := 7; c_order := 2; c_odd := false;
     c_fwd := false; c_reg := 0; c_geom := None; c_bd := BNone; c_listing := [] |}.
Definition acc_get : op := GetBs 4 2 false false 0 1000 BNone [].
Theorem accessor_mask_refuted :
  res_code (last_result [Call acc_call7] acc_get) = 0 /\ res_code (fresh acc_get) = 0 /\
  out_eqv (last_result [Call acc_call7] acc_get) (fresh acc_get) = false.
Proof. repeat split; vm_compute; reflexivity. Qed.

Definition acc_callok : call :=
  {| c_pid := 1; c_wid := 0; c_wver := 0; c_fail := 0; c_rmax := 4; c_vid := 1005; c_order := 2; c_odd := false;
     c_fwd := false; c_reg := 0; c_geom := None; c_bd := BNone; c_listing := [] |}.
Definition acc_hist : list op := [Call acc_callok; Cleanup CInv; GetBs 4 2 false false 0 7 BNone []].
Theorem accessor_poisons_transform_refuted :
  res_code (last_result acc_hist (Call acc_callok)) = 0 /\
  out_eqv (last_result acc_hist (Call acc_callok)) (fresh (Call acc_callok)) = false.
Proof. split; vm_compute; reflexivity. Qed.
