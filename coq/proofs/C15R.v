(* C15R.v — invariances of the Distributions analysis that follow from the
   folding specification and the structure of the model:
   origin spellings, left-right / top-bottom mirroring, zero-weight pixels. *)
From Coq Require Import List Arith Lia Bool ZArith String Ascii Reals Lra.
From Coq Require Import ZifyBool ZifyNat.
From PA Require Import base.Arr base.Px base.MatL model.DistrGeom gen.VmiInv model.DistrFit
  proofs.VmiInvProofs proofs.DistrGeomProofs proofs.DistrFitProofs proofs.C14R.
Import ListNotations.
Open Scope nat_scope.

(* ---- origin spellings ------------------------------------------------------------ *)
Lemma origin_negative h w r c : r < h -> c < w ->
  let pos := resolve_origin h w (OTuple (Z.of_nat r) (Z.of_nat c)) in
  pos = Some (Z.of_nat r, Z.of_nat c) /\
  resolve_origin h w (OTuple (Z.of_nat r - Z.of_nat h) (Z.of_nat c)) = pos /\
  resolve_origin h w (OTuple (Z.of_nat r) (Z.of_nat c - Z.of_nat w)) = pos /\
  resolve_origin h w (OTuple (Z.of_nat r - Z.of_nat h) (Z.of_nat c - Z.of_nat w)) = pos.
Proof.
  intros Hr Hc. cbv zeta. unfold resolve_origin.
  replace (Z.of_nat r <? 0)%Z with false by lia. replace (Z.of_nat c <? 0)%Z with false by lia.
  replace (Z.of_nat r - Z.of_nat h <? 0)%Z with true by lia.
  replace (Z.of_nat c - Z.of_nat w <? 0)%Z with true by lia.
  repeat split; f_equal; f_equal; lia.
Qed.

(* vertical / horizontal position words *)
Inductive vpos := VTop | VCenter | VBottom.
Inductive hpos := HLeft | HCenter | HRight.
Definition vrow (h : nat) (v : vpos) : Z :=
  match v with VTop => 0 | VCenter => Z.of_nat h / 2 | VBottom => Z.of_nat h - 1 end.
Definition hcol (w : nat) (p : hpos) : Z :=
  match p with HLeft => 0 | HCenter => Z.of_nat w / 2 | HRight => Z.of_nat w - 1 end.

Open Scope string_scope.
Definition origin_table : list (string * vpos * hpos) :=
  [("top left", VTop, HLeft); ("top center", VTop, HCenter); ("top right", VTop, HRight);
   ("upper left", VTop, HLeft); ("upper center", VTop, HCenter); ("upper right", VTop, HRight);
   ("center left", VCenter, HLeft); ("center center", VCenter, HCenter); ("center right", VCenter, HRight);
   ("bottom left", VBottom, HLeft); ("bottom center", VBottom, HCenter); ("bottom right", VBottom, HRight);
   ("lower left", VBottom, HLeft); ("lower center", VBottom, HCenter); ("lower right", VBottom, HRight);
   ("tl", VTop, HLeft); ("tc", VTop, HCenter); ("tr", VTop, HRight);
   ("ul", VTop, HLeft); ("uc", VTop, HCenter); ("ur", VTop, HRight);
   ("cl", VCenter, HLeft); ("cc", VCenter, HCenter); ("cr", VCenter, HRight);
   ("bl", VBottom, HLeft); ("bc", VBottom, HCenter); ("br", VBottom, HRight);
   ("ll", VBottom, HLeft); ("lc", VBottom, HCenter); ("lr", VBottom, HRight);
   ("c", VCenter, HCenter); ("center", VCenter, HCenter)].
Close Scope string_scope.

Theorem origin_strings :
  Forall (fun e => forall h w, resolve_origin h w (OStr (fst (fst e)))
                               = Some (vrow h (snd (fst e)), hcol w (snd e))) origin_table.
Proof. unfold origin_table. repeat constructor. Qed.

(* ---- pixels with zero weight ------------------------------------------------------- *)
Open Scope R_scope.

Lemma imul_zero_weight h w (Wt IM IM' : list (list R)) :
  wf h w Wt -> wf h w IM -> wf h w IM' ->
  (forall i j, (i < h)%nat -> (j < w)%nat -> px 0 Wt i j <> 0 -> px 0 IM i j = px 0 IM' i j) ->
  imul Rops Wt IM = imul Rops Wt IM'.
Proof.
  intros HW HI HI' H. unfold imul.
  apply (img_ext 0 (n:=h) (m:=w)); try (apply wf_imap2; assumption).
  intros i j Hi Hj. rewrite !(px_imap2 0 (fmul Rops) (n:=h) (m:=w)) by assumption.
  cbn [Rops fmul]. destruct (Req_EM_T (px 0 Wt i j) 0) as [E|E].
  - rewrite E. ring.
  - rewrite (H i j Hi Hj E). reflexivity.
Qed.

(* changing pixels whose weight is zero does not change any result *)
Theorem zero_weight_pixels_ignored h w meth g use_sin (Wt IM IM' : list (list R)) :
  wf h w Wt -> wf h w IM -> wf h w IM' ->
  (forall i j, (i < h)%nat -> (j < w)%nat -> px 0 Wt i j <> 0 -> px 0 IM i j = px 0 IM' i j) ->
  distr_cos Rops sqrtR meth g use_sin (Some Wt) IM = distr_cos Rops sqrtR meth g use_sin (Some Wt) IM'.
Proof.
  intros HW HI HI' H. unfold distr_cos, QD.
  rewrite (imul_zero_weight h w Wt IM IM' HW HI HI' H). reflexivity.
Qed.

(* ---- mirroring ----------------------------------------------------------------------- *)
Notation foldR := (fold_image 0 Rplus).

(* the folding specification split by axis *)
Definition colterm (w col : nat) (IM : list (list R)) (i b : nat) : R :=
  (if ((1 <=? b) && (b <=? col))%nat then px 0 IM i (col - b) else 0)
  + (if (col + b <? w)%nat then px 0 IM i (col + b) else 0).
Definition rowterm (h row : nat) (IM : list (list R)) (a j : nat) : R :=
  (if ((1 <=? a) && (a <=? row))%nat then px 0 IM (row - a) j else 0)
  + (if (row + a <? h)%nat then px 0 IM (row + a) j else 0).

Lemma spec_even_by_rows h w row col IM a b :
  spec_even R 0 Rplus h w row col IM a b =
  (if ((1 <=? a) && (a <=? row))%nat then colterm w col IM (row - a) b else 0)
  + (if (row + a <? h)%nat then colterm w col IM (row + a) b else 0).
Proof.
  unfold spec_even, gpix, colterm.
  destruct ((1 <=? a) && (a <=? row))%nat; destruct (row + a <? h)%nat;
    destruct ((1 <=? b) && (b <=? col))%nat; destruct (col + b <? w)%nat; cbn [andb]; ring.
Qed.

Lemma spec_even_by_cols h w row col IM a b :
  spec_even R 0 Rplus h w row col IM a b =
  (if ((1 <=? b) && (b <=? col))%nat then rowterm h row IM a (col - b) else 0)
  + (if (col + b <? w)%nat then rowterm h row IM a (col + b) else 0).
Proof.
  unfold spec_even, gpix, rowterm.
  destruct ((1 <=? a) && (a <=? row))%nat; destruct (row + a <? h)%nat;
    destruct ((1 <=? b) && (b <=? col))%nat; destruct (col + b <? w)%nat; cbn [andb]; ring.
Qed.

Lemma colterm_mirror h w col (IM : list (list R)) i b :
  wf h w IM -> (col < w)%nat -> (i < h)%nat ->
  colterm w (w - 1 - col) (fliplr IM) i b = colterm w col IM i b.
Proof.
  intros HIM Hc Hi. unfold colterm.
  assert (F : forall j, (j < w)%nat -> px 0 (fliplr IM) i j = px 0 IM i (w - 1 - j)%nat)
    by (intros; apply (px_fliplr 0 (n:=h) (m:=w)); assumption).
  destruct (Nat.leb_spec 1 b) as [B1|B1]; cbn [andb].
  - destruct (Nat.leb_spec b (w - 1 - col)) as [P|P]; destruct (Nat.ltb_spec (w - 1 - col + b) w) as [Q|Q];
      destruct (Nat.leb_spec b col) as [P'|P']; destruct (Nat.ltb_spec (col + b) w) as [Q'|Q']; try lia;
      rewrite ?F by lia;
      try (replace (w - 1 - (w - 1 - col - b))%nat with (col + b)%nat by lia);
      try (replace (w - 1 - (w - 1 - col + b))%nat with (col - b)%nat by lia); ring.
  - assert (b = 0)%nat by lia. subst b.
    destruct (Nat.ltb_spec (w - 1 - col + 0) w) as [Q|Q]; destruct (Nat.ltb_spec (col + 0) w) as [Q'|Q']; try lia.
    rewrite F by lia. replace (w - 1 - (w - 1 - col + 0))%nat with (col + 0)%nat by lia. ring.
Qed.

Lemma rowterm_mirror h w row (IM : list (list R)) a j :
  wf h w IM -> (row < h)%nat ->
  rowterm h (h - 1 - row) (flipud IM) a j = rowterm h row IM a j.
Proof.
  intros HIM Hr. unfold rowterm.
  assert (F : forall i, (i < h)%nat -> px 0 (flipud IM) i j = px 0 IM (h - 1 - i)%nat j)
    by (intros; apply (px_flipud 0 (n:=h) (m:=w)); assumption).
  destruct (Nat.leb_spec 1 a) as [A1|A1]; cbn [andb].
  - destruct (Nat.leb_spec a (h - 1 - row)) as [P|P]; destruct (Nat.ltb_spec (h - 1 - row + a) h) as [Q|Q];
      destruct (Nat.leb_spec a row) as [P'|P']; destruct (Nat.ltb_spec (row + a) h) as [Q'|Q']; try lia;
      rewrite ?F by lia;
      try (replace (h - 1 - (h - 1 - row - a))%nat with (row + a)%nat by lia);
      try (replace (h - 1 - (h - 1 - row + a))%nat with (row - a)%nat by lia); ring.
  - assert (a = 0)%nat by lia. subst a.
    destruct (Nat.ltb_spec (h - 1 - row + 0) h) as [Q|Q]; destruct (Nat.ltb_spec (row + 0) h) as [Q'|Q']; try lia.
    rewrite F by lia. replace (h - 1 - (h - 1 - row + 0))%nat with (row + 0)%nat by lia. ring.
Qed.

(* left-right mirror of image and origin: same folded quadrant (even orders) *)
Theorem fold_mirror_lr_even h w row col rmax N (IM : list (list R)) a b :
  (row < h)%nat -> (col < w)%nat -> wf h w IM ->
  let g := quad_geom h w row col rmax false N in
  let g' := quad_geom h w row (w - 1 - col) rmax false N in
  (a < g_Qh g)%nat -> (b < g_Qw g)%nat ->
  g_Qh g' = g_Qh g /\ g_Qw g' = g_Qw g /\
  px 0 (foldR g' (fliplr IM)) a b = px 0 (foldR g IM) a b.
Proof.
  intros Hr Hc HIM g g' Ha Hb.
  assert (E1 : g_Qh g' = g_Qh g) by (unfold g, g'; rewrite !qg_Qh; reflexivity).
  assert (E2 : g_Qw g' = g_Qw g) by (unfold g, g'; rewrite !qg_Qw; f_equal; lia).
  split; [exact E1|]. split; [exact E2|].
  unfold g in Ha, Hb. rewrite qg_Qw in Hb. rewrite qg_Qh in Ha.
  unfold g, g'.
  rewrite !fold_spec_even_R; try lia; try (rewrite ?qg_Qh, ?qg_Qw; lia).
  rewrite !spec_even_by_rows.
  destruct (Nat.leb_spec 1 a) as [A1|A1]; destruct (Nat.leb_spec a row) as [A2|A2];
    destruct (Nat.ltb_spec (row + a) h) as [A3|A3]; cbn [andb];
    rewrite ?(colterm_mirror h w col IM) by (try assumption; lia); reflexivity.
Qed.

(* top-bottom mirror of image and origin: same folded quadrant (even orders) *)
Theorem fold_mirror_tb_even h w row col rmax N (IM : list (list R)) a b :
  (row < h)%nat -> (col < w)%nat -> wf h w IM ->
  let g := quad_geom h w row col rmax false N in
  let g' := quad_geom h w (h - 1 - row) col rmax false N in
  (a < g_Qh g)%nat -> (b < g_Qw g)%nat ->
  g_Qh g' = g_Qh g /\ g_Qw g' = g_Qw g /\
  px 0 (foldR g' (flipud IM)) a b = px 0 (foldR g IM) a b.
Proof.
  intros Hr Hc HIM g g' Ha Hb.
  assert (E1 : g_Qh g' = g_Qh g) by (unfold g, g'; rewrite !qg_Qh; f_equal; lia).
  assert (E2 : g_Qw g' = g_Qw g) by (unfold g, g'; rewrite !qg_Qw; reflexivity).
  split; [exact E1|]. split; [exact E2|].
  unfold g in Ha, Hb. rewrite qg_Qw in Hb. rewrite qg_Qh in Ha.
  unfold g, g'.
  rewrite !fold_spec_even_R; try lia; try (rewrite ?qg_Qh, ?qg_Qw; lia).
  rewrite !spec_even_by_cols.
  rewrite !(rowterm_mirror h w row IM) by assumption. reflexivity.
Qed.

(* left-right mirror, odd orders (only the columns are folded) *)
Theorem fold_mirror_lr_odd h w row col rmax N (IM : list (list R)) a b :
  (row < h)%nat -> (col < w)%nat -> wf h w IM ->
  let g := quad_geom h w row col rmax true N in
  let g' := quad_geom h w row (w - 1 - col) rmax true N in
  (a < g_Qh g)%nat -> (b < g_Qw g)%nat ->
  g_Qh g' = g_Qh g /\ g_Qw g' = g_Qw g /\ g_y0 g' = g_y0 g /\
  px 0 (foldR g' (fliplr IM)) a b = px 0 (foldR g IM) a b.
Proof.
  intros Hr Hc HIM g g' Ha Hb.
  assert (E1 : g_Qh g' = g_Qh g) by (unfold g, g'; rewrite !qg_Qh; reflexivity).
  assert (E2 : g_Qw g' = g_Qw g) by (unfold g, g'; rewrite !qg_Qw; f_equal; lia).
  assert (E3 : g_y0 g' = g_y0 g) by (unfold g, g'; rewrite !qg_y0; reflexivity).
  split; [exact E1|]. split; [exact E2|]. split; [exact E3|].
  unfold g in Ha, Hb. rewrite qg_Qw in Hb. rewrite qg_Qh in Ha.
  unfold g, g'.
  rewrite !fold_spec_odd_R; try lia; try (rewrite ?qg_Qh, ?qg_Qw; lia).
  rewrite !qg_y0. unfold spec_odd, gpix. cbn [andb].
  pose proof (colterm_mirror h w col IM (row - min row rmax + a) b HIM Hc) as M.
  unfold colterm in M. rewrite !Rplus_0_l. apply M. lia.
Qed.
