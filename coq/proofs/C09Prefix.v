(* proofs/C09Prefix.v — prefix (crop) property of the generated operators: the
   entry at (i, j) does not depend on the size the matrix was generated for, so
   the operator of a smaller size is the leading block of a larger one (what
   the memory / disk caches of abel/dasch.py, abel/daun.py, abel/rbasex.py rely
   on when they return M[:n, :n]).
   daun_p<d> (j i) and rbasex_p<n> (Rc r) have no size argument at all: for
   them the property holds by construction of the generated definitions
   (stated below for the record).  For the Dasch matrices the size enters the
   guards of the assembly; it is shown to be irrelevant inside the matrix.
   For onion peeling the *operator* is inv(W): crop commutes with the inverse
   of an upper-triangular matrix (proofs/TriangularCrop.v, C07). *)
From Coq Require Import Reals ZArith Bool Lia.
From PA Require Import proofs.C09Daun gen.FormulasBasis.
Open Scope R_scope.

Lemma two_point_prefix (n m i j : Z) : (0 <= i < n)%Z -> (0 <= j < n)%Z -> (n <= m)%Z ->
  two_point_D n i j = two_point_D m i j.
Proof. intros Hi Hj Hn. unfold two_point_D. zconds; reflexivity. Qed.

Lemma three_point_prefix (n m i j : Z) : (0 <= i < n)%Z -> (0 <= j < n)%Z -> (n <= m)%Z ->
  three_point_D n i j = three_point_D m i j.
Proof. intros Hi Hj Hn. unfold three_point_D. zconds; reflexivity. Qed.

Lemma onion_W_prefix (n m i j : Z) : (0 <= i < n)%Z -> (0 <= j < n)%Z -> (n <= m)%Z ->
  onion_W n i j = onion_W m i j.
Proof. intros Hi Hj Hn. unfold onion_W. zconds; reflexivity. Qed.

(* matrices are exactly (upper) triangular / banded as the methods require *)
Lemma two_point_upper (n i j : Z) : (0 <= j < i)%Z -> (i < n)%Z -> two_point_D n i j = 0.
Proof. intros H1 H2. unfold two_point_D. zconds; reflexivity. Qed.

Lemma onion_W_upper (n i j : Z) : (0 <= j < i)%Z -> (i < n)%Z -> onion_W n i j = 0.
Proof. intros H1 H2. unfold onion_W. zconds; reflexivity. Qed.

Lemma three_point_band (n i j : Z) : (0 <= j)%Z -> (j + 1 < i)%Z -> (i < n)%Z -> three_point_D n i j = 0.
Proof. intros H1 H2 H3. unfold three_point_D. zconds; reflexivity. Qed.

Lemma daun_lower (i j : Z) : (0 <= j < i)%Z ->
  daun_p0 j i = 0 /\ daun_p1 j i = 0.
Proof.
  intros H. split.
  - unfold daun_p0. zconds; ring.
  - unfold daun_p1. zconds; ring.
Qed.
