(* C06R.v — the Symmetry theorems instantiated at the real numbers. *)
From Coq Require Import List Arith Lia Bool ZArith Reals Lra.
From PA Require Import base.Arr base.Px model.Symmetry proofs.SymmetryPx proofs.SymmetryProofs.
Import ListNotations.
Local Open Scope R_scope.

Definition Rdivn (x : R) (k : nat) : R := x / INR k.
Notation symR := (symmetrize 0 Rplus Rdivn).
Notation Rimg := (list (list R)).

Lemma R_mean_laws : mean_laws 0 Rplus Rdivn.
Proof.
  unfold mean_laws, Rdivn. repeat split; intros x; simpl; try field; lra.
Qed.

Lemma R_put_get_id (n m : nat) (IM : Rimg) :
  wf n m IM -> (1 <= n)%nat -> (1 <= m)%nat ->
  symR ax_None mask_all Average IM = Ok IM /\ symR ax_None mask_all Fourier IM = Ok IM.
Proof. intros H Hn Hm. split; apply (@put_get_id _ 0 Rplus Rdivn n m IM H Hn Hm); discriminate. Qed.

Lemma R_sym_mirror (n m : nat) (IM S : Rimg) (u : mask) :
  wf n m IM -> (1 <= n)%nat -> (1 <= m)%nat ->
  (symR ax_0 u Average IM = Ok S -> fliplr S = S) /\
  (symR ax_1 u Average IM = Ok S -> flipud S = S) /\
  (forall a, In a both_spellings -> symR a u Average IM = Ok S -> fliplr S = S /\ flipud S = S).
Proof.
  intros H Hn Hm. repeat split.
  - apply (@sym_mirror_0 _ 0 Rplus Rdivn n m IM H Hn Hm).
  - apply (@sym_mirror_1 _ 0 Rplus Rdivn n m IM H Hn Hm).
  - apply (@sym_mirror_both _ 0 Rplus Rdivn n m IM H Hn Hm a u S H0 H1).
  - apply (@sym_mirror_both _ 0 Rplus Rdivn n m IM H Hn Hm a u S H0 H1).
Qed.

Lemma R_sym_fix (n m : nat) (IM : Rimg) (u : mask) :
  wf n m IM -> (1 <= n)%nat -> (1 <= m)%nat ->
  (fliplr IM = IM -> rejects ax_0 u = false -> symR ax_0 u Average IM = Ok IM) /\
  (flipud IM = IM -> rejects ax_1 u = false -> symR ax_1 u Average IM = Ok IM) /\
  (forall a, In a both_spellings ->
     fliplr IM = IM -> flipud IM = IM -> rejects a u = false -> symR a u Average IM = Ok IM).
Proof.
  intros H Hn Hm. repeat split.
  - apply (@sym_fix_0 _ 0 Rplus Rdivn n m IM H Hn Hm R_mean_laws).
  - apply (@sym_fix_1 _ 0 Rplus Rdivn n m IM H Hn Hm R_mean_laws).
  - intros a. apply (@sym_fix_both _ 0 Rplus Rdivn n m IM H Hn Hm R_mean_laws a u).
Qed.

Lemma R_sym_idem (n m : nat) (IM S : Rimg) (u : mask) (a : axis) :
  wf n m IM -> (1 <= n)%nat -> (1 <= m)%nat -> In a (ax_0 :: ax_1 :: both_spellings) ->
  symR a u Average IM = Ok S -> symR a u Average S = Ok S.
Proof.
  intros H Hn Hm [<-|[<-|Ha]].
  - apply (@sym_idem_0 _ 0 Rplus Rdivn n m IM S u R_mean_laws H Hn Hm).
  - apply (@sym_idem_1 _ 0 Rplus Rdivn n m IM S u R_mean_laws H Hn Hm).
  - apply (@sym_idem_both _ 0 Rplus Rdivn n m IM S a u R_mean_laws H Hn Hm Ha).
Qed.

Lemma R_sym_mean (n m : nat) (IM : Rimg) :
  wf n m IM -> (1 <= n)%nat -> (1 <= m)%nat ->
  symR ax_0 mask_all Average IM = Ok (imdiv Rdivn 2 (imadd Rplus IM (fliplr IM))) /\
  symR ax_1 mask_all Average IM = Ok (imdiv Rdivn 2 (imadd Rplus IM (flipud IM))).
Proof.
  intros H Hn Hm. split.
  - apply (@sym_mean_0 _ 0 Rplus Rdivn n m IM H Hn Hm Rplus_comm).
  - apply (@sym_mean_1 _ 0 Rplus Rdivn n m IM H Hn Hm Rplus_comm).
Qed.

(* non-vacuity: a concrete image meeting the hypotheses *)
Example R_example_wf : wf 3 2 [[1; 2]; [3; 4]; [5; 6]] /\ (1 <= 3)%nat /\ (1 <= 2)%nat.
Proof. repeat split; try lia. repeat constructor. Qed.

(* pixel formula for every admissible mask: mean over the enabled quadrants *)
Notation mean2R := (mean2 0 Rplus Rdivn).
Notation mean4R := (mean4 0 Rplus Rdivn).

Lemma R_sym_px_0 (n m : nat) (IM S : Rimg) (u : mask) (i j : nat) :
  wf n m IM -> (1 <= n)%nat -> (1 <= m)%nat ->
  symR ax_0 u Average IM = Ok S -> (i < n)%nat -> (j < m)%nat ->
  px 0 S i j =
    if (i <? n / 2)%nat
    then (if (j <? m / 2)%nat then mean2R (u0 u) (u1 u) (px 0 IM i (m - 1 - j)) (px 0 IM i j)
          else mean2R (u0 u) (u1 u) (px 0 IM i j) (px 0 IM i (m - 1 - j)))
    else (if (j <? m / 2)%nat then mean2R (u2 u) (u3 u) (px 0 IM i j) (px 0 IM i (m - 1 - j))
          else mean2R (u2 u) (u3 u) (px 0 IM i (m - 1 - j)) (px 0 IM i j)).
Proof. intros H Hn Hm. apply (@sym_px_0 _ 0 Rplus Rdivn n m IM H Hn Hm). Qed.

Lemma R_sym_px_1 (n m : nat) (IM S : Rimg) (u : mask) (i j : nat) :
  wf n m IM -> (1 <= n)%nat -> (1 <= m)%nat ->
  symR ax_1 u Average IM = Ok S -> (i < n)%nat -> (j < m)%nat ->
  px 0 S i j =
    if (j <? m / 2)%nat
    then (if (i <? n / 2)%nat then mean2R (u1 u) (u2 u) (px 0 IM i j) (px 0 IM (n - 1 - i) j)
          else mean2R (u1 u) (u2 u) (px 0 IM (n - 1 - i) j) (px 0 IM i j))
    else (if (i <? n / 2)%nat then mean2R (u0 u) (u3 u) (px 0 IM i j) (px 0 IM (n - 1 - i) j)
          else mean2R (u0 u) (u3 u) (px 0 IM (n - 1 - i) j) (px 0 IM i j)).
Proof. intros H Hn Hm. apply (@sym_px_1 _ 0 Rplus Rdivn n m IM H Hn Hm). Qed.

Lemma R_sym_px_both (n m : nat) (IM S : Rimg) (a : axis) (u : mask) (i j : nat) :
  wf n m IM -> (1 <= n)%nat -> (1 <= m)%nat -> In a both_spellings ->
  symR a u Average IM = Ok S -> (i < n)%nat -> (j < m)%nat ->
  px 0 S i j = mean4R u (px 0 IM (Nat.min i (n - 1 - i)) (Nat.max j (m - 1 - j)))
                        (px 0 IM (Nat.min i (n - 1 - i)) (Nat.min j (m - 1 - j)))
                        (px 0 IM (Nat.max i (n - 1 - i)) (Nat.min j (m - 1 - j)))
                        (px 0 IM (Nat.max i (n - 1 - i)) (Nat.max j (m - 1 - j))).
Proof. intros H Hn Hm Ha HS Hi Hj. apply (@sym_px_both _ 0 Rplus Rdivn n m IM H Hn Hm a u S i j Ha HS Hi Hj). Qed.

(* ---- the Fourier method ----------------------------------------------------- *)
Lemma R_fourier_eq_average (n m : nat) (IM : Rimg) (u : mask) :
  wf n m IM -> (1 <= n)%nat -> (1 <= m)%nat ->
  (rejects ax_0 u = false -> symR ax_0 u Fourier IM = symR ax_0 mask_all Average IM) /\
  (rejects ax_1 u = false -> symR ax_1 u Fourier IM = symR ax_1 mask_all Average IM).
Proof.
  intros H Hn Hm. split.
  - apply (@fourier_eq_average_0 _ 0 Rplus Rdivn n m IM H Hn Hm Rplus_comm).
  - apply (@fourier_eq_average_1 _ 0 Rplus Rdivn n m IM H Hn Hm Rplus_comm).
Qed.

Lemma R_fourier_mirror (n m : nat) (IM S : Rimg) (u : mask) :
  wf n m IM -> (1 <= n)%nat -> (1 <= m)%nat ->
  (symR ax_0 u Fourier IM = Ok S -> fliplr S = S) /\
  (symR ax_1 u Fourier IM = Ok S -> flipud S = S) /\
  (forall a, In a both_spellings -> symR a u Fourier IM = Ok S -> fliplr S = S /\ flipud S = S).
Proof.
  intros H Hn Hm. split; [|split].
  - apply (@fourier_mirror_0 _ 0 Rplus Rdivn n m IM H Hn Hm Rplus_comm).
  - apply (@fourier_mirror_1 _ 0 Rplus Rdivn n m IM H Hn Hm Rplus_comm).
  - intros a. apply (@fourier_mirror_both _ 0 Rplus Rdivn n m IM H Hn Hm Rplus_comm a u S).
Qed.

Lemma R_fourier_fix (n m : nat) (IM : Rimg) (u : mask) :
  wf n m IM -> (1 <= n)%nat -> (1 <= m)%nat ->
  (fliplr IM = IM -> rejects ax_0 u = false -> symR ax_0 u Fourier IM = Ok IM) /\
  (flipud IM = IM -> rejects ax_1 u = false -> symR ax_1 u Fourier IM = Ok IM) /\
  (forall a, In a both_spellings ->
     fliplr IM = IM -> flipud IM = IM -> rejects a u = false -> symR a u Fourier IM = Ok IM).
Proof.
  intros H Hn Hm. split; [|split].
  - apply (@fourier_fix_0 _ 0 Rplus Rdivn n m IM H Hn Hm Rplus_comm R_mean_laws).
  - apply (@fourier_fix_1 _ 0 Rplus Rdivn n m IM H Hn Hm Rplus_comm R_mean_laws).
  - intros a. apply (@fourier_fix_both _ 0 Rplus Rdivn n m IM H Hn Hm Rplus_comm R_mean_laws a u).
Qed.

Lemma R_fourier_idem (n m : nat) (IM S : Rimg) (u : mask) (a : axis) :
  wf n m IM -> (1 <= n)%nat -> (1 <= m)%nat -> In a (ax_0 :: ax_1 :: both_spellings) ->
  symR a u Fourier IM = Ok S -> symR a u Fourier S = Ok S.
Proof.
  intros H Hn Hm Ha. apply (@fourier_idem _ 0 Rplus Rdivn n m IM S a u R_mean_laws Rplus_comm H Hn Hm Ha).
Qed.
