(* C05R.v — TransformPipe theorems instantiated at the real numbers *)
From Coq Require Import List Arith Lia Bool ZArith Reals.
From PA Require Import base.Arr base.Px model.Symmetry model.TransformPipe
  proofs.SymmetryPx proofs.SymmetryProofs proofs.TransformPipeProofs proofs.C06R.
Import ListNotations.
Local Open Scope R_scope.

Notation Rimg := (list (list R)).
Notation modelR := (transform_model 0 Rplus Rdivn).
Notation specR := (four_quadrants_spec 0 Rplus Rdivn).

Lemma R_transform_is_four_quadrants (T : Rimg -> Rimg) (n m : nat) (IM : Rimg) (a : axis) (u : mask) :
  wf n m IM -> (3 <= n)%nat -> (1 <= m)%nat -> In a pipe_axes -> mask_count u <> 0%nat ->
  modelR T a u Average IM = specR T a u Average IM.
Proof. intros. eapply transform_is_four_quadrants; eauto. Qed.

Lemma R_transform_shape (T : Rimg -> Rimg) (n m : nat) (IM S : Rimg) (a : axis) (u : mask) :
  wf n m IM -> (3 <= n)%nat -> (1 <= m)%nat ->
  (forall X, wf (ceil2 n) (ceil2 m) X -> wf (ceil2 n) (ceil2 m) (T X)) ->
  In a pipe_axes -> mask_count u <> 0%nat ->
  modelR T a u Average IM = Ok S -> wf n m S.
Proof. intros H Hn Hm HT Ha Hu HS. eapply transform_shape with (IM:=IM); eauto. Qed.

(* pixel-level content of the reassembled image (overlap rule) *)
Lemma R_assemble_pixels (n m : nat) (Q0 Q1 Q2 Q3 : Rimg) (i j : nat) :
  wf (ceil2 n) (ceil2 m) Q0 -> wf (ceil2 n) (ceil2 m) Q1 ->
  wf (ceil2 n) (ceil2 m) Q2 -> wf (ceil2 n) (ceil2 m) Q3 ->
  (i < n)%nat -> (j < m)%nat ->
  px 0 (put_quadrants (Q0, Q1, Q2, Q3) n m ax_None) i j =
    if (i <? n / 2)%nat
    then (if (j <? m / 2)%nat then px 0 Q1 i (ceil2 m - 1 - j) else px 0 Q0 i (j - m / 2))
    else (if (j <? m / 2)%nat then px 0 Q2 (n - 1 - i) (ceil2 m - 1 - j)
          else px 0 Q3 (n - 1 - i) (j - m / 2)).
Proof. intros. apply (px_put_plain 0%R); assumption. Qed.

Lemma R_empty_axis_is_none (T : Rimg -> Rimg) (IM : Rimg) (u : mask) (meth : smethod) (b : bool) :
  modelR T {| ax_tuple := b; ax_elems := [] |} u meth IM = modelR T ax_None u meth IM.
Proof. reflexivity. Qed.

Example R_pipe_hypotheses_satisfiable :
  wf 3 2 [[1; 2]; [3; 4]; [5; 6]] /\ (3 <= 3)%nat /\ (1 <= 2)%nat /\ In ax_0 pipe_axes
  /\ mask_count mask_all <> 0%nat.
Proof. repeat split; try lia; try (repeat constructor); try (right; left; reflexivity); discriminate. Qed.
