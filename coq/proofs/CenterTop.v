(* CenterTop.v — center_image(method='image_center', crop='maintain_size'):
   the result has the shape left by the trimming step; odd_size / square
   clauses of C12 for every input shape. *)
From Coq Require Import List Arith Lia Bool ZArith QArith ZifyBool ZifyNat.
From PA Require Import base.Arr base.Px model.Center proofs.CenterAxis proofs.CenterProofs
  proofs.CenterPrep proofs.CenterImage.
Import ListNotations.

Ltac Zify.zify_post_hook ::= Z.to_euclidean_division_equations.
Set Implicit Arguments.
Local Open Scope nat_scope.

Section Top.
  Variable A : Type.
  Variables (zero one : A) (add sub mul : A -> A -> A) (ofQ : Q -> A).
  Notation img := (list (list A)).
  Notation center_image := (center_image zero one add sub mul ofQ).

  Lemma sel_in_axis ax n order : 0 < n ->
    in_axis n (sel_origin ax n order (Some (inject_Z (Z.of_nat (n / 2))))).
  Proof.
    intros Hn. destruct ax; cbn [sel_origin option_map in_axis]; [|exact I].
    rewrite whole_origin_int. unfold wrap.
    destruct (Z.ltb_spec (Z.of_nat (n / 2)) 0); lia.
  Qed.

  Lemma center_image_ms_shape odd_size square n m (IM : img) ax0 ax1 order :
    wf n m IM -> 0 < n -> 0 < m ->
    0 < fst (ci_shape odd_size square n m) -> 0 < snd (ci_shape odd_size square n m) ->
    exists out,
      center_image IM None odd_size square ax0 ax1 MaintainSize order = Ok out /\
      wf (fst (ci_shape odd_size square n m)) (snd (ci_shape odd_size square n m)) out.
  Proof.
    intros Hwf Hn Hm Hn' Hm'.
    pose proof (ci_trim_wf odd_size square Hwf Hn) as W.
    set (n' := fst (ci_shape odd_size square n m)) in *.
    set (m' := snd (ci_shape odd_size square n m)) in *.
    unfold center_image, Center.center_image. cbn [fst snd].
    set (IM1 := ci_trim odd_size square IM) in *.
    rewrite set_center_whole_pixel
      by (right; split; [destruct ax0|destruct ax1]; cbn [is_integral]; try exact I; eexists; reflexivity).
    rewrite (wf_nrows W), (wf_ncols W Hn').
    destruct (@set_center_int_spec A zero MaintainSize n' m' IM1
                (sel_origin ax0 n' order (Some (inject_Z (Z.of_nat (n' / 2)))))
                (sel_origin ax1 m' order (Some (inject_Z (Z.of_nat (m' / 2))))))
      as [out [E [Wo _]]]; try assumption; try discriminate; try (apply sel_in_axis; assumption).
    exists out. rewrite E. split; [reflexivity|].
    replace n' with (out_len MaintainSize n' (sel_origin ax0 n' order (Some (inject_Z (Z.of_nat (n' / 2)))))) at 1
      by (destruct ax0; reflexivity).
    replace m' with (out_len MaintainSize m' (sel_origin ax1 m' order (Some (inject_Z (Z.of_nat (m' / 2)))))) at 1
      by (destruct ax1; reflexivity).
    exact Wo.
  Qed.

  Theorem center_image_odd square n m (IM : img) ax0 ax1 order :
    wf n m IM -> 0 < n -> 0 < m ->
    exists out n' m',
      center_image IM None true square ax0 ax1 MaintainSize order = Ok out /\
      wf n' m' out /\ m' mod 2 = 1.
  Proof.
    intros Hwf Hn Hm. destruct (ci_shape_odd square Hn Hm) as [Ho Hp].
    destruct (@center_image_ms_shape true square n m IM ax0 ax1 order) as [out [E W]]; try assumption.
    - destruct (snd (ci_shape true square n m)); [discriminate Ho|lia].
    - exists out, (fst (ci_shape true square n m)), (snd (ci_shape true square n m)). auto.
  Qed.

  Theorem center_image_square odd_size n m (IM : img) ax0 ax1 order :
    wf n m IM -> 0 < n -> 0 < m ->
    exists out n',
      center_image IM None odd_size true ax0 ax1 MaintainSize order = Ok out /\
      wf n' n' out /\ 0 < n' /\ (odd_size = true -> n' mod 2 = 1).
  Proof.
    intros Hwf Hn Hm. destruct (ci_shape_square odd_size Hn Hm) as [He Hp].
    destruct (@center_image_ms_shape odd_size true n m IM ax0 ax1 order) as [out [E W]]; try assumption.
    - rewrite <- He. exact Hp.
    - exists out, (fst (ci_shape odd_size true n m)). rewrite <- He in W.
      split; [exact E|]. split; [exact W|]. split; [exact Hp|].
      intros ->. rewrite He. apply (ci_shape_odd true Hn Hm).
  Qed.
End Top.
