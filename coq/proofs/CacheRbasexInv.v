(* History independence and fault safety for model/CacheRbasex.v (fixed code):
   invariant, step lemma, theorems. *)
From Coq Require Import List Arith Bool Lia.
From PA Require Import base.Npy model.CacheCommon model.CacheRbasex.
Import ListNotations.

(* ---- small facts -------------------------------------------------------------- *)
Lemma rcont_eqb_eq : forall a b, rcont_eqb a b = true -> a = b.
Proof.
  intros [a1 a2 a3 a4] [b1 b2 b3 b4]. unfold rcont_eqb. simpl. intros H.
  apply andb_true_iff in H. destruct H as [H H4].
  apply andb_true_iff in H. destruct H as [H H3].
  apply andb_true_iff in H. destruct H as [H1 H2].
  apply Nat.eqb_eq in H1. apply Nat.eqb_eq in H2. apply eqb_prop in H3. apply eqb_prop in H4.
  subst. reflexivity.
Qed.

Lemma fkey_eqb_eq : forall a b, fkey_eqb a b = true -> a = b.
Proof.
  intros [a1 a2 a3 a4] [b1 b2 b3 b4]. unfold fkey_eqb. simpl. intros H.
  apply andb_true_iff in H. destruct H as [H H4].
  apply andb_true_iff in H. destruct H as [H H3].
  apply andb_true_iff in H. destruct H as [H1 H2].
  apply Nat.eqb_eq in H1. apply Nat.eqb_eq in H2. apply eqb_prop in H3. apply eqb_prop in H4.
  subst. reflexivity.
Qed.

Lemma find_file_In : forall (d : disk fkey fcont) di k c,
  find_file fkey_eqb di k d = Some c -> In (di, k, c) d.
Proof.
  intros d di k c H. unfold find_file in H.
  destruct (filter (same_file fkey_eqb di k) d) as [|e l] eqn:E; [discriminate|].
  inversion H; subst. assert (Hin : In e (filter (same_file fkey_eqb di k) d)) by (rewrite E; left; auto).
  apply filter_In in Hin. destruct Hin as [Hin Hs]. unfold same_file in Hs.
  apply andb_true_iff in Hs. destruct Hs as [H1 H2]. apply Nat.eqb_eq in H1.
  destruct e as [[d' k'] c']. simpl in *. apply fkey_eqb_eq in H2. subst. auto.
Qed.

Lemma opt_eqb_eq : forall a b, opt_eqb a b = true -> a = b.
Proof. intros [a|] [b|]; simpl; intros H; try discriminate; auto. apply Nat.eqb_eq in H. subst. auto. Qed.

Lemma opt_eqb_refl : forall a, opt_eqb a a = true.
Proof. intros [a|]; simpl; auto. apply Nat.eqb_refl. Qed.

(* ---- invariant ------------------------------------------------------------------ *)
Definition honest (d : disk fkey fcont) : Prop :=
  forall di k c, In (di, k, c) d ->
    match c with
    | FGood f => f_c f = ideal (fk_rmax k) (fk_order k) (fk_odd k) /\ f_inv f = fk_inv k
    | FBad _ => True
    | FShape => True
    end.

(* no damaged file on disk (the setting of C07) *)
Definition clean (s : st) : Prop := forall di k c, In (di, k, c) (dk s) -> forall pe, c <> FBad pe.

(* the part about _profiles' globals *)
Definition InvD (s : st) : Prop :=
  match dst s with
  | DNone => prm s = None
  | DHalf => False
  | DOk p _ v _ _ => prm s = Some p /\ wobj s = v
  end.

(* the part about get_bs_cached's globals: the cached matrices belong to the
   cached basis, are masked for _mask_key, and a recorded reg never raises *)
Definition InvB (mk : nat) (bp : option (nat * nat * bool)) (b t : option rcont)
           (f : option acont) (tp : option nat) (ti : option acont) (d : disk fkey fcont) : Prop :=
  match b with
  | Some x => bp = Some (r_rmax x, r_order x, r_odd x) /\ r_junk x = false
  | None => t = None /\ f = None /\ tp = None
  end /\
  (forall y, t = Some y -> b = Some y) /\
  (forall a, f = Some a -> exists x, b = Some x /\ a = AFwd x mk) /\
  (forall reg, tp = Some reg -> exists x, b = Some x /\ ti = Some (AInv reg x mk) /\
                                         reg_raises reg (r_order x) (r_odd x) = false) /\
  honest d.

Definition Inv (s : st) : Prop :=
  InvD s /\ InvB (mkey s) (bs_prm s) (bs s) (tri_full s) (trf s) (tri_prm s) (tri s) (dk s).

Lemma Inv_init : Inv init.
Proof.
  unfold Inv, InvD, InvB, init, honest; simpl. repeat split; auto; try discriminate.
  intros ? ? ? [].
Qed.

Lemma Inv_upd : forall s bp b t f tp ti g d,
  InvD s -> InvB (mkey s) bp b t f tp ti d -> Inv (upd s bp b t f tp ti g d).
Proof. intros. split; assumption. Qed.

Lemma honest_filter : forall d f, honest d -> honest (filter f d).
Proof. unfold honest. intros d f H di k c Hin. apply filter_In in Hin. destruct Hin. eapply H; eauto. Qed.

Lemma honest_put : forall d di k c, honest d ->
  match c with
  | FGood f => f_c f = ideal (fk_rmax k) (fk_order k) (fk_odd k) /\ f_inv f = fk_inv k
  | FBad _ => True | FShape => True end ->
  honest (put_file fkey_eqb di k c d).
Proof.
  unfold honest, put_file, remove_file. intros d di k c H Hc di' k' c' [Hin|Hin].
  - inversion Hin; subst. exact Hc.
  - apply filter_In in Hin. destruct Hin. eapply H; eauto.
Qed.

(* ---- _profiles -------------------------------------------------------------------- *)
Lemma hazard_parts : forall s c, hazard s (Call c) = false ->
  uses_bad_dir s (c_bd c) = false /\
  (reuses_dst s c = true ->
     match dst s with
     | DOk _ _ _ r vid => r = c_rmax c /\ vid = c_vid c /\ c_fail c = 0
     | _ => False
     end).
Proof.
  intros s c H. cbn [hazard] in H.
  apply orb_false_iff in H. destruct H as [H1 H2]. split; auto.
  intros Hr. rewrite Hr in H2. cbn [andb] in H2. apply negb_false_iff in H2.
  destruct (dst s); try discriminate.
  apply andb_true_iff in H2. destruct H2 as [H2 H4]. apply andb_true_iff in H2. destruct H2 as [H2 H3].
  apply Nat.eqb_eq in H2. apply Nat.eqb_eq in H3. apply Nat.eqb_eq in H4. auto.
Qed.

(* either the Distributions object is (re)built / reused and describes the
   call, or — invalid parameters — the call raises ValueError and nothing changes *)
Lemma profiles_good : forall s c s1 r,
  Inv s -> hazard s (Call c) = false -> profiles s c = (s1, r) ->
  (r = Ret (c_pid c, c_wver c, c_rmax c, c_vid c) /\ Inv s1 /\ gdir s1 = gdir s /\ dk s1 = dk s /\
   c_fail c = 0) \/
  (r = Raise EValue /\ s1 = s /\ c_fail c <> 0).
Proof.
  intros s c s1 r [HD HB] Hz Hp.
  destruct (hazard_parts _ _ Hz) as (_ & Hre).
  unfold profiles in Hp. unfold reuses_dst in *.
  assert (Hnew : forall ov, dst_vid (dst s) = ov ->
            Inv (set_profiles s (Some (c_pid c)) (c_wver c)
                   (DOk (c_pid c) (c_wid c) (c_wver c) (c_rmax c) (c_vid c)) None
                   (negb (opt_eqb (Some (c_vid c)) ov)))).
  { intros ov _. split.
    - unfold InvD, set_profiles. cbn. auto.
    - unfold set_profiles. cbn [mkey bs_prm bs tri_full trf tri_prm tri dk].
      destruct HB as (B1 & B2 & B3 & B4 & B5).
      destruct (negb (opt_eqb (Some (c_vid c)) ov)).
      + repeat split; auto; try discriminate.
        destruct (bs s); auto. destruct B1 as (A & B & C). auto.
      + repeat split; auto. }
  destruct (dst s) as [| |p w v rm vid] eqn:Ed.
  - unfold InvD in HD. rewrite Ed in HD. rewrite HD in Hp. cbn [opt_eqb andb] in Hp.
    destruct (c_fail c) eqn:Ef.
    + inversion Hp; subst. left. split; auto. split; [apply (Hnew None); reflexivity|]. auto.
    + inversion Hp; subst. right. repeat split; auto.
  - unfold InvD in HD. rewrite Ed in HD. contradiction.
  - unfold InvD in HD. rewrite Ed in HD. destruct HD as [HP HW].
    destruct (opt_eqb (prm s) (Some (c_pid c)) && (wobj s =? c_wver c)) eqn:Esame.
    + specialize (Hre eq_refl). destruct Hre as (E2 & E3 & E4). subst rm vid.
      apply andb_true_iff in Esame. destruct Esame as [Ep Ew]. apply opt_eqb_eq in Ep.
      apply Nat.eqb_eq in Ew. rewrite HP in Ep. inversion Ep; subst p.
      assert (Ev : v = c_wver c) by congruence.
      inversion Hp; subst s1 r. rewrite Ev. left. split; auto. split; [|auto].
      split; auto. unfold InvD. rewrite Ed. auto.
    + destruct (c_fail c) eqn:Ef.
      * inversion Hp; subst. left. split; auto. split; [apply (Hnew (Some vid)); reflexivity|]. auto.
      * inversion Hp; subst. right. repeat split; auto.
Qed.

(* ---- get_bs_cached ------------------------------------------------------------------- *)
Lemma prm_ideal : forall bp x rmax order odd,
  bp = Some (r_rmax x, r_order x, r_odd x) -> r_junk x = false ->
  prm_eqb bp rmax order odd = true -> x = ideal rmax order odd.
Proof.
  intros bp [a b c d] rmax order odd -> Hj H. cbn in *. subst d.
  apply andb_true_iff in H. destruct H as [H H3]. apply andb_true_iff in H. destruct H as [H1 H2].
  apply Nat.eqb_eq in H1. apply Nat.eqb_eq in H2. apply eqb_prop in H3. subst. reflexivity.
Qed.

Lemma honest_load : forall d di k f rmax order odd,
  honest d -> find_file fkey_eqb di k d = Some (FGood f) ->
  {| r_rmax := rmax; r_order := order; r_odd := odd; r_junk := r_junk (f_c f) |} = ideal rmax order odd.
Proof.
  intros d di k f rmax order odd Hh Hf. apply find_file_In in Hf. destruct (Hh _ _ _ Hf) as [Hc _].
  rewrite Hc. reflexivity.
Qed.

Definition damaged (d : disk fkey fcont) : Prop := exists di k pe, In (di, k, FBad pe) d.

Lemma load_good : forall dir rmax order odd inv listing d,
  honest d -> match dir with Some di => dir_writable di = true | None => True end ->
  match load_bs dir rmax order odd inv listing d with
  | LNone => True
  | LSome b t => b = ideal rmax order odd /\ (t = None \/ t = Some b)
  | LRaise _ => damaged d
  end.
Proof.
  intros dir rmax order odd inv listing d Hh Hw. unfold load_bs.
  destruct dir as [di|]; [|exact I]. rewrite Hw. cbn [negb].
  set (exact := {| fk_rmax := rmax; fk_order := order; fk_odd := odd; fk_inv := inv |}).
  destruct (match find_file fkey_eqb di exact d with
            | Some _ => Some exact
            | None => best_file rmax order odd inv listing None
            end) as [k|]; [|exact I].
  destruct (find_file fkey_eqb di k d) as [[f|pe|]|] eqn:Ef; try exact I.
  - rewrite (honest_load _ _ _ _ rmax order odd Hh Ef). split; auto.
    destruct (f_inv f && inv); auto.
  - destruct pe; try exact I; apply find_file_In in Ef; do 3 eexists; exact Ef.
Qed.

Lemma stage1_good : forall s rmax order odd fwd reg listing g dir s1 nb oe,
  Inv s -> match dir with Some di => dir_writable di = true | None => True end ->
  stage1 s rmax order odd fwd reg listing g dir = (s1, nb, oe) ->
  Inv s1 /\ dst s1 = dst s /\ prm s1 = prm s /\ wobj s1 = wobj s /\ ibs s1 = ibs s /\ dk s1 = dk s /\
  mkey s1 = mkey s /\
  (forall e, oe = Some e -> damaged (dk s)) /\
  (oe = None -> bs s1 = Some (ideal rmax order odd) /\ (nb = true -> tri_full s1 = None)).
Proof.
  intros s rmax order odd fwd reg listing g dir s1 nb oe [HD HB] Hw H1. unfold stage1 in H1.
  pose proof HB as (B1 & B2 & B3 & B4 & B5).
  destruct (match bs s with None => true | Some _ => negb (prm_eqb (bs_prm s) rmax order odd) end) eqn:En.
  - pose proof (load_good dir rmax order odd (negb fwd && (reg =? 0)) listing (dk s) B5 Hw) as Hl.
    destruct (load_bs dir rmax order odd (negb fwd && (reg =? 0)) listing (dk s)) as [|b t|e].
    + inversion H1; subst. split; [|repeat split; auto; discriminate].
      apply Inv_upd; auto. unfold InvB. repeat split; auto; try discriminate.
    + destruct Hl as [Hb Ht]. inversion H1; subst. split; [|repeat split; auto; discriminate].
      apply Inv_upd; auto. unfold InvB. repeat split; auto; try discriminate.
      intros y Hy. destruct Ht as [Ht|Ht]; rewrite Ht in Hy; [discriminate|inversion Hy; reflexivity].
    + inversion H1; subst. split; [apply Inv_upd; auto|]. repeat split; auto; try discriminate.
  - inversion H1; subst.
    destruct (bs s) as [x|] eqn:Ex; [|discriminate]. apply negb_false_iff in En.
    destruct B1 as [Hp Hj]. pose proof (prm_ideal _ _ _ _ _ Hp Hj En) as Hx. subst x.
    split; [apply Inv_upd; auto|]. repeat split; auto; discriminate.
Qed.

Lemma set_mask_good : forall s m, Inv s ->
  Inv (set_mask s m) /\ mkey (set_mask s m) = m /\ dst (set_mask s m) = dst s /\
  prm (set_mask s m) = prm s /\ wobj (set_mask s m) = wobj s /\ ibs (set_mask s m) = ibs s /\
  dk (set_mask s m) = dk s /\ bs (set_mask s m) = bs s /\ tri_full (set_mask s m) = tri_full s /\
  gdir (set_mask s m) = gdir s.
Proof.
  intros s m HI. pose proof HI as [HD HB]. unfold set_mask. destruct (mkey s =? m) eqn:E.
  - apply Nat.eqb_eq in E. split; [exact HI|]. repeat split; auto.
  - destruct HB as (B1 & B2 & B3 & B4 & B5). split; [|cbn; repeat split; auto].
    split; [exact HD|]. cbn [mkey bs_prm bs tri_full trf tri_prm tri dk].
    repeat split; auto; try discriminate.
    destruct (bs s); auto. destruct B1 as (A & B & C). auto.
Qed.

Lemma save_good : forall dir rmax order odd b t d d',
  honest d -> b = ideal rmax order odd -> (t = None \/ t = Some b) ->
  save_bs dir rmax order odd b t d = Some d' -> honest d'.
Proof.
  intros dir rmax order odd b t d d' Hh Hb Ht Hs. unfold save_bs in Hs.
  destruct dir as [di|]; [|inversion Hs; subst; auto].
  destruct (dir_writable di); [|discriminate]. inversion Hs; subst.
  apply honest_put; auto.
Qed.

Lemma save_some : forall dir rmax order odd b t d,
  match dir with Some di => dir_writable di = true | None => True end ->
  exists d', save_bs dir rmax order odd b t d = Some d'.
Proof.
  intros dir rmax order odd b t d Hw. unfold save_bs. destruct dir as [di|]; [rewrite Hw|]; eauto.
Qed.

Lemma InvB_dk : forall mk bp b t f tp ti d d',
  InvB mk bp b t f tp ti d -> honest d' -> InvB mk bp b t f tp ti d'.
Proof. intros mk bp b t f tp ti d d' (B1 & B2 & B3 & B4 & _) H. repeat split; auto. Qed.

(* the matrices handed back (or the ValueError for an invalid reg) *)
Definition expected_a (rmax order : nat) (odd fwd : bool) (reg vid : nat) : res acont :=
  if fwd then Ret (AFwd (ideal rmax order odd) vid)
  else if reg_raises reg order odd then Raise EValue
  else Ret (AInv reg (ideal rmax order odd) vid).

Lemma finish_good : forall s1 nb b rmax order odd fwd reg vid g dir s2 r,
  Inv s1 -> bs s1 = Some b -> b = ideal rmax order odd -> (nb = true -> tri_full s1 = None) ->
  mkey s1 = vid ->
  match dir with Some di => dir_writable di = true | None => True end ->
  finish_bs s1 nb b rmax order odd fwd reg vid g dir = (s2, r) ->
  Inv s2 /\ dst s2 = dst s1 /\ prm s2 = prm s1 /\ wobj s2 = wobj s1 /\ ibs s2 = ibs s1 /\
  r = expected_a rmax order odd fwd reg vid.
Proof.
  intros s1 nb b rmax order odd fwd reg vid g dir s2 r HI Hbs Hb Hnb Hmk Hw Hf.
  pose proof HI as [HD HB]. pose proof HB as (B1 & B2 & B3 & B4 & B5).
  rewrite Hmk in B3, B4. rewrite Hbs in B1, B2, B3, B4.
  cbn beta iota in B1. destruct B1 as [B1a B1b].
  assert (Hsz : negb (r_rmax b =? rmax) = false) by (rewrite Hb; cbn; rewrite Nat.eqb_refl; reflexivity).
  assert (Hord : r_order b = order /\ r_odd b = odd) by (rewrite Hb; split; reflexivity).
  destruct Hord as [Ho Hd].
  unfold finish_bs in Hf. rewrite ?Hsz in Hf. cbn [andb] in Hf. unfold expected_a. rewrite <- Hb. destruct fwd.
  - (* forward *)
    destruct (trf s1) as [a|] eqn:Ea.
    + destruct (B3 a eq_refl) as (x & Hx & Ha). inversion Hx; subst x.
      inversion Hf; subst s2 r. split; [exact HI|]. rewrite Ha. repeat split; auto.
    + assert (Hnew : forall d', honest d' ->
                Inv (upd s1 (bs_prm s1) (bs s1) (tri_full s1) (Some (AFwd b vid)) (tri_prm s1) (tri s1) g d')).
      { intros d' Hd'. apply Inv_upd; auto. rewrite Hmk, Hbs. repeat split; auto.
        intros a Ha. injection Ha as <-. exists b. auto. }
      destruct nb.
      * destruct (save_some dir rmax order odd b None (dk s1) Hw) as [d' Hs].
        pose proof (save_good _ _ _ _ _ _ _ _ B5 Hb (or_introl eq_refl) Hs) as Hd'.
        rewrite Hs in Hf. inversion Hf; subst s2 r. split; [apply Hnew; auto|]. repeat split; auto.
      * inversion Hf; subst s2 r. split; [apply Hnew; auto|]. repeat split; auto.
  - (* inverse *)
    unfold stage2 in Hf. rewrite Hsz in Hf. cbn [andb] in Hf.
    assert (Hend : forall (s3 : st) (nb3 : bool) (a : acont) (ti : option acont),
              Inv s3 -> bs s3 = Some b -> (tri_full s3 = None \/ tri_full s3 = Some b) ->
              dst s3 = dst s1 -> prm s3 = prm s1 -> wobj s3 = wobj s1 -> ibs s3 = ibs s1 -> tri s3 = ti ->
              (if nb3 then
                 match save_bs dir rmax order odd b (tri_full s3) (dk s3) with
                 | None => (s3, Raise EOther)
                 | Some d' => (upd s3 (bs_prm s3) (bs s3) (tri_full s3) (trf s3) (tri_prm s3) ti g d', Ret a)
                 end
               else (s3, Ret a)) = (s2, r) ->
              Inv s2 /\ dst s2 = dst s1 /\ prm s2 = prm s1 /\ wobj s2 = wobj s1 /\ ibs s2 = ibs s1 /\ r = Ret a).
    { intros s3 nb3 a ti HI3 Hb3 Ht3 E1 E2 E3 E4 Eti He. subst ti. pose proof HI3 as [HD3 HB3]. destruct nb3.
      - destruct (save_some dir rmax order odd b (tri_full s3) (dk s3) Hw) as [d' Hs].
        assert (Hd' : honest d').
        { destruct HB3 as (_ & _ & _ & _ & H5). exact (save_good _ _ _ _ _ _ _ _ H5 Hb Ht3 Hs). }
        rewrite Hs in He. inversion He; subst s2 r. split; [|repeat split; auto].
        apply Inv_upd; auto. eapply InvB_dk; eauto.
      - inversion He; subst s2 r. split; [exact HI3|]. repeat split; auto. }
    destruct (opt_eqb (tri_prm s1) (Some reg)) eqn:Eh.
    + (* cached: the recorded reg never raises *)
      apply opt_eqb_eq in Eh. destruct (B4 reg Eh) as (x & Hx & Ht & Hnr).
      inversion Hx; subst x. rewrite Ho, Hd in Hnr. rewrite Hnr. rewrite Ht in Hf.
      eapply Hend; [exact HI| | | | | | | |exact Hf]; auto.
      destruct (tri_full s1) as [t|] eqn:Et; auto. right. pose proof (B2 t eq_refl) as E. injection E as ->. reflexivity.
    + destruct (reg_raises reg order odd) eqn:Hreg.
      * (* invalid reg: ValueError, _tri_prm = None *)
        inversion Hf; subst s2 r. split; [|repeat split; auto].
        apply Inv_upd; [exact HD|].
        rewrite Hmk, Hbs. repeat split; auto; discriminate.
      * destruct (reg =? 0) eqn:Er.
        -- apply Nat.eqb_eq in Er. subst reg.
           cbn [tri_full upd] in Hf.
           destruct (tri_full s1) as [t|] eqn:Et.
           ++ assert (Etb : t = b) by (pose proof (B2 t eq_refl) as E; injection E as ->; reflexivity). subst t.
              cbn [tri upd] in Hf.
              eapply Hend; [| | | | | | | |exact Hf]; cbn [bs tri_full dst prm wobj ibs tri upd]; auto.
              apply Inv_upd; [exact HD|].
              cbn [mkey upd bs_prm bs tri_full trf tri_prm tri dk]. rewrite Hmk, Hbs.
              repeat split; auto; try (intros ? Hq; injection Hq as <-); auto;
                try (exists b; rewrite Ho, Hd; repeat split; auto).
           ++ cbn [tri upd] in Hf.
              eapply (Hend _ true); [| | | | | | | |exact Hf]; cbn [bs tri_full dst prm wobj ibs tri upd]; auto.
              apply Inv_upd; [exact HD|].
              cbn [mkey upd bs_prm bs tri_full trf tri_prm tri dk]. rewrite Hmk, Hbs.
              repeat split; auto; try (intros ? Hq; injection Hq as <-); auto;
                try (exists b; rewrite Ho, Hd; repeat split; auto).
        -- cbn [tri upd] in Hf.
           eapply Hend; [| | | | | | | |exact Hf]; cbn [bs tri_full dst prm wobj ibs tri upd]; auto.
           ++ apply Inv_upd; [exact HD|].
              cbn [mkey upd bs_prm bs tri_full trf tri_prm tri dk]. rewrite Hmk, Hbs.
              repeat split; auto; try (intros ? Hq; injection Hq as <-); auto;
                try (exists b; rewrite Ho, Hd; repeat split; auto).
           ++ destruct (tri_full s1) as [t|] eqn:Et; auto. right. pose proof (B2 t eq_refl) as E. injection E as ->. reflexivity.
Qed.

Lemma bad_dir_writable : forall s bd g dir, uses_bad_dir s bd = false -> resolve (gdir s) bd = (g, dir) ->
  match dir with Some di => dir_writable di = true | None => True end.
Proof.
  intros s bd g dir H Hr. unfold uses_bad_dir in H. rewrite Hr in H. cbn [snd] in H.
  destruct dir; auto. apply negb_false_iff in H. auto.
Qed.

Lemma get_bs_good : forall s rmax order odd fwd reg vid bd listing s2 r,
  Inv s -> uses_bad_dir s bd = false ->
  get_bs s rmax order odd fwd reg vid bd listing = (s2, r) ->
  Inv s2 /\ dst s2 = dst s /\ prm s2 = prm s /\ wobj s2 = wobj s /\ ibs s2 = ibs s /\
  (r = expected_a rmax order odd fwd reg (norm_vid vid) \/
   (exists e, r = Raise e) /\ damaged (dk s)).
Proof.
  intros s rmax order odd fwd reg vid bd listing s2 r HI Hbad Hg.
  unfold get_bs in Hg. destruct (resolve (gdir s) bd) as [g dir] eqn:Er.
  pose proof (bad_dir_writable _ _ _ _ Hbad Er) as Hw.
  destruct (stage1 s rmax order odd fwd reg listing g dir) as [[s1 nb] oe] eqn:E1.
  destruct (stage1_good _ _ _ _ _ _ _ _ _ _ _ _ HI Hw E1) as (HI1 & Ed & Ep & Ew & Ei & Edk & Emk & Hraise & Hok).
  destruct oe as [e|].
  - inversion Hg; subst. split; auto. repeat split; auto. right. split; [eauto|]. eapply Hraise; eauto.
  - destruct (Hok eq_refl) as [Hbs Hnb].
    destruct (set_mask_good s1 (norm_vid vid) HI1) as (HIm & Mk & Md & Mp & Mw & Mi & Mdk & Mb & Mt & Mg).
    rewrite Mb, Hbs in Hg.
    assert (Hnb' : nb = true -> tri_full (set_mask s1 (norm_vid vid)) = None) by (intros H; rewrite Mt; auto).
    assert (Hbs' : bs (set_mask s1 (norm_vid vid)) = Some (ideal rmax order odd)) by (rewrite Mb; auto).
    destruct (finish_good _ _ _ _ _ _ _ _ _ _ _ _ _ HIm Hbs' eq_refl Hnb' Mk Hw Hg)
      as (HI2 & E2d & E2p & E2w & E2i & Hr).
    split; [exact HI2|]. rewrite E2d, E2p, E2w, E2i, Md, Mp, Mw, Mi, Ed, Ep, Ew, Ei. repeat split; auto.
Qed.

(* ---- the whole call ------------------------------------------------------------------ *)
Definition expected (c : call) : rres :=
  {| q_pid := c_pid c; q_wver := c_wver c;
     q_a := if c_fwd c then AFwd (ideal (c_rmax c) (c_order c) (c_odd c)) (norm_vid (c_vid c))
            else AInv (c_reg c) (ideal (c_rmax c) (c_order c) (c_odd c)) (norm_vid (c_vid c));
     q_img := c_geom c; q_want := c_geom c |}.

(* what a call returns, in any reachable state and in a fresh process *)
Definition expected_out (c : call) : res rres :=
  if negb (c_fail c =? 0) then Raise EValue
  else if negb (c_fwd c) && reg_raises (c_reg c) (c_order c) (c_odd c) then Raise EValue
  else Ret (expected c).

Lemma fit_ideal : forall r o d, fit (ideal r o d) o d = ideal r o d.
Proof.
  intros. unfold fit. cbn [r_order r_odd ideal]. rewrite Nat.leb_refl, eqb_reflx. reflexivity.
Qed.

Lemma rcont_eqb_refl : forall x, rcont_eqb x x = true.
Proof. intros [a b c d]. unfold rcont_eqb. cbn. rewrite !Nat.eqb_refl, !eqb_reflx. reflexivity. Qed.

Lemma Inv_set_ibs : forall s i, Inv s -> Inv (set_profiles s (prm s) (wobj s) (dst s) i false).
Proof. intros s i H. exact H. Qed.

Lemma call_good : forall s c s' r,
  Inv s -> hazard s (Call c) = false -> step_call s c = (s', r) ->
  Inv s' /\ (r = expected_out c \/ (exists e, r = Raise e) /\ damaged (dk s)).
Proof.
  intros s c s' r HI Hz Hs.
  destruct (hazard_parts _ _ Hz) as (Hbad & _).
  unfold step_call in Hs.
  destruct (profiles s c) as [s1 rp] eqn:Ep.
  destruct (profiles_good _ _ _ _ HI Hz Ep) as [(Hrp & HI1 & Eg & Edk & Hf0)|(Hrp & Hs1 & Hf)].
  2:{ subst rp s1. inversion Hs; subst. split; auto. left. unfold expected_out.
      replace (c_fail c =? 0) with false by (symmetry; apply Nat.eqb_neq; auto). reflexivity. }
  subst rp.
  assert (Hbad1 : uses_bad_dir s1 (c_bd c) = false) by (unfold uses_bad_dir in *; rewrite Eg; exact Hbad).
  destruct (get_bs s1 (c_rmax c) (c_order c) (c_odd c) (c_fwd c) (c_reg c) (c_vid c) (c_bd c) (c_listing c))
    as [s2 rg] eqn:Egb.
  destruct (get_bs_good _ _ _ _ _ _ _ _ _ _ _ HI1 Hbad1 Egb) as (HI2 & E2d & E2p & E2w & E2i & Hr).
  destruct Hr as [Hr|[[e He] Hdam]].
  2:{ subst rg. inversion Hs; subst. split; auto. right. split; [eauto|]. rewrite <- Edk. exact Hdam. }
  subst rg. unfold expected_a in Hs. unfold expected_out. rewrite Hf0. cbn [Nat.eqb negb].
  destruct (c_fwd c) eqn:Efw; cbn [negb andb].
  - (* forward *)
    cbn [a_rcont r_rmax ideal a_reg] in Hs. rewrite Nat.eqb_refl in Hs. cbn [negb andb] in Hs.
    cbn [fit_a] in Hs. rewrite fit_ideal in Hs.
    destruct (c_geom c) as [gm|] eqn:Egm; inversion Hs; subst; (split; [try apply Inv_set_ibs; exact HI2|]);
      left; unfold expected; rewrite Efw, Egm; reflexivity.
  - destruct (reg_raises (c_reg c) (c_order c) (c_odd c)) eqn:Hreg.
    + inversion Hs; subst. split; auto.
    + cbn [a_rcont r_rmax ideal a_reg] in Hs. rewrite Nat.eqb_refl in Hs. cbn [negb] in Hs.
      rewrite rcont_eqb_refl in Hs. cbn [negb] in Hs. rewrite andb_false_r in Hs.
      cbn [fit_a] in Hs. rewrite fit_ideal in Hs.
      destruct (c_geom c) as [gm|] eqn:Egm; inversion Hs; subst; (split; [try apply Inv_set_ibs; exact HI2|]);
        left; unfold expected; rewrite Efw, Egm; reflexivity.
Qed.

(* a fresh process *)
Lemma fresh_expected : forall s c, hazard s (Call c) = false -> fresh (Call c) = expected_out c.
Proof.
  intros s c Hz. destruct (hazard_parts _ _ Hz) as (Hbad & _).
  unfold fresh.
  destruct (step_call init (fresh_call c)) as [s' r] eqn:Es. cbn [snd].
  assert (Hz0 : hazard init (Call (fresh_call c)) = false).
  { cbn [hazard fresh_call c_bd c_pid c_wver]. cbn.
    unfold uses_bad_dir. cbn. destruct (c_bd c) as [| |d]; cbn; auto.
    destruct (dir_writable d) eqn:Ew; cbn; auto.
    unfold uses_bad_dir in Hbad. cbn in Hbad. rewrite Ew in Hbad. discriminate. }
  destruct (call_good _ _ _ _ Inv_init Hz0 Es) as [_ [->|[_ (di & k & pe & [])]]]. reflexivity.
Qed.

Lemma out_eqv_expected_refl : forall c, out_eqv (expected_out c) (expected_out c) = true.
Proof.
  intros c. unfold expected_out.
  destruct (negb (c_fail c =? 0)); [reflexivity|].
  destruct (negb (c_fwd c) && reg_raises (c_reg c) (c_order c) (c_odd c)); [reflexivity|].
  cbn [out_eqv]. unfold q_eqv, expected. cbn. rewrite !Nat.eqb_refl.
  assert (Ha : forall a : acont, r_junk (a_rcont a) = false -> a_eqv a a = true).
  { intros [x v|rg x v] Hj; cbn in *; unfold r_eqv; rewrite !Nat.eqb_refl, !eqb_reflx, Hj; reflexivity. }
  rewrite Ha by (destruct (c_fwd c); reflexivity).
  assert (Hg : forall g, geom_eqb g g = true).
  { intros [[[x y] z]|]; cbn; rewrite ?Nat.eqb_refl; reflexivity. }
  rewrite !Hg. reflexivity.
Qed.

Lemma a_eqv_refl : forall a : acont, r_junk (a_rcont a) = false -> a_eqv a a = true.
Proof.
  intros [x v|rg x v] Hj; cbn in *; unfold r_eqv; rewrite !Nat.eqb_refl, !eqb_reflx, Hj; reflexivity.
Qed.

(* the public accessor get_bs_cached called directly *)
Lemma getbs_good : forall s rmax order odd fwd reg vid bd l s' r,
  Inv s -> uses_bad_dir s bd = false ->
  step s (GetBs rmax order odd fwd reg vid bd l) = (s', r) ->
  Inv s' /\
  (out_eqv r (fresh (GetBs rmax order odd fwd reg vid bd l)) = true \/
   (exists e, r = Raise e) /\ damaged (dk s)).
Proof.
  intros s rmax order odd fwd reg vid bd l s' r HI Hbad Hs. cbn [step] in Hs.
  destruct (get_bs s rmax order odd fwd reg vid bd l) as [s2 rg] eqn:Eg.
  destruct (get_bs_good _ _ _ _ _ _ _ _ _ _ _ HI Hbad Eg) as (HI2 & _ & _ & _ & _ & Hr).
  (* the fresh process *)
  assert (Hfb : uses_bad_dir init (fresh_bd bd) = false).
  { unfold uses_bad_dir. destruct bd as [| |d]; cbn; auto. destruct (dir_writable d) eqn:Ew; cbn; auto. }
  cbn [fresh].
  destruct (get_bs init rmax order odd fwd reg vid (fresh_bd bd) []) as [s0 r0] eqn:E0.
  destruct (get_bs_good _ _ _ _ _ _ _ _ _ _ _ Inv_init Hfb E0) as (_ & _ & _ & _ & _ & [Hr0|[_ (di & k & pe & [])]]).
  destruct Hr as [Hr|[[e He] Hdam]].
  - subst rg r0. unfold expected_a in *. destruct fwd.
    + inversion Hs; subst. split; auto. left. cbn [out_eqv]. unfold q_eqv. cbn [q_pid q_wver q_a q_img q_want geom_eqb Nat.eqb andb]. rewrite a_eqv_refl by reflexivity. reflexivity.
    + destruct (reg_raises reg order odd).
      * inversion Hs; subst. split; auto.
      * inversion Hs; subst. split; auto. left. cbn [out_eqv]. unfold q_eqv. cbn [q_pid q_wver q_a q_img q_want geom_eqb Nat.eqb andb]. rewrite a_eqv_refl by reflexivity. reflexivity.
  - subst rg. inversion Hs; subst. split; auto. right. split; eauto.
Qed.

(* ---- one step ------------------------------------------------------------------------------ *)
Lemma fcont_honest_ok : forall k f, fcont_honest k f = true ->
  f_c f = ideal (fk_rmax k) (fk_order k) (fk_odd k) /\ f_inv f = fk_inv k.
Proof.
  intros k f H. unfold fcont_honest in H. apply andb_true_iff in H. destruct H as [H1 H2].
  apply rcont_eqb_eq in H1. apply eqb_prop in H2. auto.
Qed.

Lemma step_good : forall s o s' r,
  Inv s -> hazard s o = false -> step s o = (s', r) ->
  Inv s' /\
  (is_call o = true -> out_eqv r (fresh o) = true \/ (exists e, r = Raise e) /\ damaged (dk s)).
Proof.
  intros s o s' r HI Hz Hs. pose proof HI as [HD HB].
  destruct o as [c|rmax order odd fwd reg vid bd l|sel|bd|bd|d k c|d k].
  - cbn [step] in Hs. destruct (call_good _ _ _ _ HI Hz Hs) as [HI' Hr]. split; auto.
    intros _. rewrite (fresh_expected _ _ Hz). destruct Hr as [->|Hr]; [left; apply out_eqv_expected_refl|right; exact Hr].
  - cbn [hazard] in Hz. destruct (getbs_good _ _ _ _ _ _ _ _ _ _ _ HI Hz Hs) as [HI' Hr]. split; auto.
  - inversion Hs; subst. split; [|discriminate].
    destruct HB as (B1 & B2 & B3 & B4 & B5).
    destruct sel; split; unfold InvD, InvB in *; cbn [prm wobj dst ibs bs_prm bs tri_full trf tri_prm tri dk mkey]; auto.
    + repeat split; auto; discriminate.
    + repeat split; auto; try discriminate. destruct (bs s); auto. destruct B1 as (A & B & C). auto.
    + repeat split; auto; try discriminate. destruct (bs s); auto. destruct B1 as (A & B & C). auto.
  - cbn [step] in Hs. destruct (resolve (gdir s) bd) as [g dir]. inversion Hs; subst. split; [|discriminate].
    apply Inv_upd; auto. destruct HB as (B1 & B2 & B3 & B4 & B5). repeat split; auto.
    destruct dir; auto. apply honest_filter; auto.
  - inversion Hs; subst. split; [|discriminate]. apply Inv_upd; auto.
  - inversion Hs; subst. split; [|discriminate]. apply Inv_upd; auto.
    destruct HB as (B1 & B2 & B3 & B4 & B5). repeat split; auto.
    apply honest_put; auto. cbn [hazard] in *.
    destruct c as [f|e|]; auto. apply negb_false_iff in Hz. apply fcont_honest_ok; auto.
  - inversion Hs; subst. split; [|discriminate]. apply Inv_upd; auto.
    destruct HB as (B1 & B2 & B3 & B4 & B5). repeat split; auto. apply honest_filter; auto.
Qed.

(* ---- no damaged file ---------------------------------------------------------------------- *)
Lemma save_dk : forall dir rmax order odd b t d d' di k c,
  save_bs dir rmax order odd b t d = Some d' -> In (di, k, c) d' ->
  In (di, k, c) d \/ exists f, c = FGood f.
Proof.
  intros dir rmax order odd b t d d' di k c Hs Hin. unfold save_bs in Hs.
  destruct dir as [d0|]; [|inversion Hs; subst; auto].
  destruct (dir_writable d0); [|discriminate]. inversion Hs; subst.
  destruct Hin as [Hi|Hi]; [inversion Hi; subst; right; eauto|apply filter_In in Hi; destruct Hi; auto].
Qed.

Lemma stage2_dk : forall s1 nb b rmax reg order odd vid g s3 nb3 oe,
  stage2 s1 nb b rmax reg order odd vid g = (s3, nb3, oe) -> dk s3 = dk s1.
Proof.
  intros s1 nb b rmax reg order odd vid g s3 nb3 oe H. unfold stage2 in H. revert H.
  repeat match goal with
         | |- context [if ?c then _ else _] => destruct c
         | |- context [match ?x with _ => _ end] => destruct x
         end; intros E; inversion E; subst; reflexivity.
Qed.

Lemma finish_dk : forall s1 nb b rmax order odd fwd reg vid g dir s2 r di k c,
  finish_bs s1 nb b rmax order odd fwd reg vid g dir = (s2, r) -> In (di, k, c) (dk s2) ->
  In (di, k, c) (dk s1) \/ exists f, c = FGood f.
Proof.
  intros s1 nb b rmax order odd fwd reg vid g dir s2 r di k c Hf Hin. unfold finish_bs in Hf.
  destruct fwd.
  - destruct (trf s1); [inversion Hf; subst; auto|].
    destruct (negb (r_rmax b =? rmax) && negb (vid =? 0)); [inversion Hf; subst; auto|].
    destruct nb; [|inversion Hf; subst; auto].
    destruct (save_bs dir rmax order odd b None (dk s1)) as [d'|] eqn:Es; inversion Hf; subst; auto.
    cbn [dk upd] in Hin. exact (save_dk _ _ _ _ _ _ _ _ _ _ _ Es Hin).
  - destruct (stage2 s1 nb b rmax reg order odd vid g) as [[s3 nb3] oe] eqn:E2.
    pose proof (stage2_dk _ _ _ _ _ _ _ _ _ _ _ _ E2) as Hd.
    destruct oe; [inversion Hf; subst; rewrite <- Hd; auto|].
    destruct (tri s3); [|inversion Hf; subst; rewrite <- Hd; auto].
    destruct nb3; [|inversion Hf; subst; rewrite <- Hd; auto].
    destruct (save_bs dir rmax order odd b (tri_full s3) (dk s3)) as [d'|] eqn:Es;
      inversion Hf; subst; rewrite <- Hd; auto.
    cbn [dk upd] in Hin. exact (save_dk _ _ _ _ _ _ _ _ _ _ _ Es Hin).
Qed.

Lemma get_bs_dk : forall s rmax order odd fwd reg vid bd l s2 r di k c,
  get_bs s rmax order odd fwd reg vid bd l = (s2, r) -> In (di, k, c) (dk s2) ->
  In (di, k, c) (dk s) \/ exists f, c = FGood f.
Proof.
  intros s rmax order odd fwd reg vid bd l s2 r di k c Hg Hin. unfold get_bs in Hg.
  destruct (resolve (gdir s) bd) as [g dir].
  destruct (stage1 s rmax order odd fwd reg l g dir) as [[s1 nb] oe] eqn:E1.
  assert (H1 : dk s1 = dk s).
  { unfold stage1 in E1.
    destruct (match bs s with None => true | Some _ => negb (prm_eqb (bs_prm s) rmax order odd) end);
      [destruct (load_bs dir rmax order odd (negb fwd && (reg =? 0)) l (dk s))|]; inversion E1; subst; reflexivity. }
  destruct oe; [inversion Hg; subst; left; rewrite <- H1; exact Hin|].
  set (sm := set_mask s1 (norm_vid vid)) in *.
  assert (Hm : dk sm = dk s1) by (unfold sm, set_mask; destruct (mkey s1 =? norm_vid vid); reflexivity).
  destruct (bs sm) as [b|]; [|inversion Hg; subst; left; rewrite <- H1, <- Hm; exact Hin].
  rewrite <- H1, <- Hm. eapply finish_dk; eauto.
Qed.

Lemma step_clean : forall s o s' r, clean s -> damage o = false -> step s o = (s', r) -> clean s'.
Proof.
  intros s o s' r Hc Hd Hs di k c Hin pe.
  destruct o as [cl|rmax order odd fwd reg vid bd l|sel|bd|bd|d k0 c0|d k0].
  - cbn [step] in Hs. unfold step_call in Hs.
    destruct (profiles s cl) as [s1 rp] eqn:Ep.
    assert (H1 : dk s1 = dk s).
    { unfold profiles in Ep. revert Ep.
      repeat match goal with
             | |- context [if ?c then _ else _] => destruct c
             | |- context [match ?x with _ => _ end] => destruct x
             end; intros E; inversion E; subst; reflexivity. }
    destruct rp as [[[[a1 a2] a3] a4]|e]; [|inversion Hs; subst; rewrite H1 in Hin; eapply Hc; eauto].
    destruct (get_bs s1 a3 (c_order cl) (c_odd cl) (c_fwd cl) (c_reg cl) a4 (c_bd cl) (c_listing cl)) as [s2 rg] eqn:Eg.
    assert (H2 : In (di, k, c) (dk s2) -> In (di, k, c) (dk s) \/ exists f, c = FGood f).
    { intros Hi. rewrite <- H1. eapply get_bs_dk; eauto. }
    assert (H3 : In (di, k, c) (dk s2)).
    { revert Hs.
      repeat match goal with
             | |- context [if ?c then _ else _] => destruct c
             | |- context [match ?x with _ => _ end] => destruct x
             end; intros E; inversion E; subst; exact Hin. }
    destruct (H2 H3) as [Hi|[f ->]]; [eapply Hc; eauto|discriminate].
  - cbn [step] in Hs.
    destruct (get_bs s rmax order odd fwd reg vid bd l) as [s2 rg] eqn:Eg.
    assert (H3 : In (di, k, c) (dk s2)) by (destruct rg; inversion Hs; subst; exact Hin).
    destruct (get_bs_dk _ _ _ _ _ _ _ _ _ _ _ _ _ _ Eg H3) as [Hi|[f ->]]; [eapply Hc; eauto|discriminate].
  - inversion Hs; subst. eapply Hc; eauto.
  - cbn [step] in Hs. destruct (resolve (gdir s) bd) as [g dir]. inversion Hs; subst. cbn [dk upd] in Hin.
    destruct dir; [apply filter_In in Hin; destruct Hin|]; eapply Hc; eauto.
  - inversion Hs; subst. eapply Hc; eauto.
  - inversion Hs; subst. cbn [dk upd] in Hin. destruct Hin as [Hi|Hi].
    + inversion Hi; subst. cbn [damage] in Hd. destruct c; discriminate.
    + apply filter_In in Hi. destruct Hi. eapply Hc; eauto.
  - inversion Hs; subst. cbn [dk upd] in Hin. apply filter_In in Hin. destruct Hin. eapply Hc; eauto.
Qed.

(* ---- theorems ---------------------------------------------------------------------------------- *)
Lemma history_independent_from : forall ops s,
  Inv s -> clean s -> no_hazard s ops = true -> no_damage ops = true -> all_agree s ops = true.
Proof.
  induction ops as [|o ops IH]; intros s HI Hc Hz Hd; [reflexivity|].
  cbn [no_hazard no_damage all_agree] in *.
  apply andb_true_iff in Hz. destruct Hz as [Hz1 Hz2]. apply negb_true_iff in Hz1.
  apply andb_true_iff in Hd. destruct Hd as [Hd1 Hd2]. apply negb_true_iff in Hd1.
  destruct (step s o) as [s' r] eqn:Es. cbn [fst] in Hz2.
  destruct (step_good _ _ _ _ HI Hz1 Es) as [HI' Hr].
  pose proof (step_clean _ _ _ _ Hc Hd1 Es) as Hc'.
  apply andb_true_iff. split; [|apply IH; auto].
  destruct (is_call o) eqn:Eo; auto.
  destruct (Hr eq_refl) as [Hok|[_ (di & k & pe & Hin)]]; [exact Hok|].
  exfalso. exact (Hc _ _ _ Hin pe eq_refl).
Qed.

(* C07 for rbasex: every call of every history (transforms with any parameters,
   valid or not, direct accessor calls, clean-ups, appearing files) returns what
   a fresh process returns *)
Theorem history_independent : forall ops,
  no_hazard init ops = true -> no_damage ops = true -> all_agree init ops = true.
Proof. intros. apply history_independent_from; auto; [apply Inv_init|intros di k c []]. Qed.

Lemma fault_safe_from : forall ops s,
  Inv s -> no_hazard s ops = true -> all_safe s ops = true.
Proof.
  induction ops as [|o ops IH]; intros s HI Hz; [reflexivity|].
  cbn [no_hazard all_safe] in *.
  apply andb_true_iff in Hz. destruct Hz as [Hz1 Hz2]. apply negb_true_iff in Hz1.
  destruct (step s o) as [s' r] eqn:Es. cbn [fst] in Hz2.
  destruct (step_good _ _ _ _ HI Hz1 Es) as [HI' Hr].
  apply andb_true_iff. split; [|apply IH; auto].
  destruct (is_call o) eqn:Eo; [|reflexivity].
  destruct (Hr eq_refl) as [Hok|[[e ->] _]].
  - rewrite Hok. reflexivity.
  - apply orb_true_iff. right. destruct e; reflexivity.
Qed.

(* C08 for rbasex: with damaged / wrong-shape files anywhere, every call returns
   the fresh result or raises — also after a raising call *)
Theorem fault_safe : forall ops, no_hazard init ops = true -> all_safe init ops = true.
Proof. intros. apply fault_safe_from; auto. apply Inv_init. Qed.
