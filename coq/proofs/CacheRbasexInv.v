(* History independence for model/CacheRbasex.v with the recorded defective
   paths excluded (hazard): invariant, step lemma, theorem. *)
From Coq Require Import List Arith Bool Lia.
From PA Require Import base.Npy model.CacheCommon model.CacheRbasex.
Import ListNotations.

(* ---- small facts -------------------------------------------------------------- *)
Lemma rcont_eqb_eq : forall a b, rcont_eqb a b = true -> a = b.
Proof.
  intros [a1 a2 a3 a4] [b1 b2 b3 b4]. unfold rcont_eqb. simpl. intros H.
  apply andb_true_iff in H. destruct H as [H H4].
  apply andb_true_iff in H. destruct H as [H H3].
  apply andb_true_iff in H. destruct H as [H1 H2].
  apply Nat.eqb_eq in H1. apply Nat.eqb_eq in H2. apply eqb_prop in H3. apply eqb_prop in H4.
  subst. reflexivity.
Qed.

Lemma fkey_eqb_eq : forall a b, fkey_eqb a b = true -> a = b.
Proof.
  intros [a1 a2 a3 a4] [b1 b2 b3 b4]. unfold fkey_eqb. simpl. intros H.
  apply andb_true_iff in H. destruct H as [H H4].
  apply andb_true_iff in H. destruct H as [H H3].
  apply andb_true_iff in H. destruct H as [H1 H2].
  apply Nat.eqb_eq in H1. apply Nat.eqb_eq in H2. apply eqb_prop in H3. apply eqb_prop in H4.
  subst. reflexivity.
Qed.

Lemma find_file_In : forall (d : disk fkey fcont) di k c,
  find_file fkey_eqb di k d = Some c -> In (di, k, c) d.
Proof.
  intros d di k c H. unfold find_file in H.
  destruct (filter (same_file fkey_eqb di k) d) as [|e l] eqn:E; [discriminate|].
  inversion H; subst. assert (Hin : In e (filter (same_file fkey_eqb di k) d)) by (rewrite E; left; auto).
  apply filter_In in Hin. destruct Hin as [Hin Hs]. unfold same_file in Hs.
  apply andb_true_iff in Hs. destruct Hs as [H1 H2]. apply Nat.eqb_eq in H1.
  destruct e as [[d' k'] c']. simpl in *. apply fkey_eqb_eq in H2. subst. auto.
Qed.

Lemma opt_eqb_eq : forall a b, opt_eqb a b = true -> a = b.
Proof. intros [a|] [b|]; simpl; intros H; try discriminate; auto. apply Nat.eqb_eq in H. subst. auto. Qed.

Lemma opt_eqb_refl : forall a, opt_eqb a a = true.
Proof. intros [a|]; simpl; auto. apply Nat.eqb_refl. Qed.

(* ---- invariant ------------------------------------------------------------------ *)
Definition honest (d : disk fkey fcont) : Prop :=
  forall di k c, In (di, k, c) d ->
    match c with
    | FGood f => f_c f = ideal (fk_rmax k) (fk_order k) (fk_odd k) /\ f_inv f = fk_inv k
    | FBad _ => False          (* damaged files are property C08's subject *)
    | FShape => False
    end.

(* the part about _profiles' globals *)
Definition InvD (s : st) : Prop :=
  match dst s with
  | DNone => prm s = None
  | DHalf => False
  | DOk p w _ _ _ => prm s = Some p /\ wobj s = w
  end.

(* the part about get_bs_cached's globals, relative to the valid-mask number
   of the cached Distributions object *)
Definition InvB (ov : option nat) (bp : option (nat * nat * bool)) (b t : option rcont)
           (f : option acont) (tp : option nat) (ti : option acont) (d : disk fkey fcont) : Prop :=
  match b with
  | Some x => bp = Some (r_rmax x, r_order x, r_odd x) /\ r_junk x = false
  | None => t = None /\ f = None /\ tp = None
  end /\
  (forall y, t = Some y -> b = Some y) /\
  (forall a, f = Some a -> exists x v, b = Some x /\ a = AFwd x (norm_vid v) /\ ov = Some v) /\
  (forall reg, tp = Some reg -> exists x v, b = Some x /\ ti = Some (AInv reg x (norm_vid v)) /\ ov = Some v) /\
  honest d.

Definition Inv (s : st) : Prop :=
  InvD s /\ InvB (dst_vid (dst s)) (bs_prm s) (bs s) (tri_full s) (trf s) (tri_prm s) (tri s) (dk s).

Lemma Inv_init : Inv init.
Proof.
  unfold Inv, InvD, InvB, init, honest; simpl. repeat split; auto; try discriminate.
  intros ? ? ? [].
Qed.

Lemma Inv_upd : forall s bp b t f tp ti g d,
  InvD s -> InvB (dst_vid (dst s)) bp b t f tp ti d -> Inv (upd s bp b t f tp ti g d).
Proof. intros. split; assumption. Qed.

Lemma honest_filter : forall d f, honest d -> honest (filter f d).
Proof. unfold honest. intros d f H di k c Hin. apply filter_In in Hin. destruct Hin. eapply H; eauto. Qed.

Lemma honest_put : forall d di k c, honest d ->
  match c with
  | FGood f => f_c f = ideal (fk_rmax k) (fk_order k) (fk_odd k) /\ f_inv f = fk_inv k
  | FBad _ => False | FShape => False end ->
  honest (put_file fkey_eqb di k c d).
Proof.
  unfold honest, put_file, remove_file. intros d di k c H Hc di' k' c' [Hin|Hin].
  - inversion Hin; subst. exact Hc.
  - apply filter_In in Hin. destruct Hin. eapply H; eauto.
Qed.

(* ---- _profiles -------------------------------------------------------------------- *)
Lemma hazard_parts : forall s c, hazard s (Call c) = false ->
  c_fail c = 0 /\ reg_raises (c_reg c) (c_order c) (c_odd c) = false /\ uses_bad_dir s (c_bd c) = false /\
  (reuses_dst s c = true ->
     match dst s with
     | DOk _ _ v r vid => v = c_wver c /\ r = c_rmax c /\ vid = c_vid c
     | _ => False
     end).
Proof.
  intros s c H. cbn [hazard] in H.
  apply orb_false_iff in H. destruct H as [H H4].
  apply orb_false_iff in H. destruct H as [H H3].
  apply orb_false_iff in H. destruct H as [H1 H2].
  apply negb_false_iff in H1. apply Nat.eqb_eq in H1.
  repeat split; auto.
  - intros Hr. rewrite Hr in H4. cbn [andb] in H4. apply negb_false_iff in H4.
    destruct (dst s); try discriminate.
    apply andb_true_iff in H4. destruct H4 as [H4 H6]. apply andb_true_iff in H4. destruct H4 as [H4 H7].
    apply Nat.eqb_eq in H4. apply Nat.eqb_eq in H6. apply Nat.eqb_eq in H7. auto.
Qed.

Lemma profiles_good : forall s c s1 r,
  Inv s -> hazard s (Call c) = false -> profiles s c = (s1, r) ->
  r = Ret (c_pid c, c_wver c, c_rmax c, c_vid c) /\ Inv s1 /\
  dst_vid (dst s1) = Some (c_vid c) /\ gdir s1 = gdir s /\ dk s1 = dk s.
Proof.
  intros s c s1 r [HD HB] Hz Hp.
  destruct (hazard_parts _ _ Hz) as (Hf & _ & _ & Hre).
  unfold profiles in Hp. unfold reuses_dst in *.
  destruct (dst s) as [| |p w v rm vid] eqn:Ed.
  - (* no object yet *)
    unfold InvD in HD. rewrite Ed in HD. rewrite HD in Hp. cbn [opt_eqb andb] in Hp.
    rewrite Hf in Hp. inversion Hp; subst. split; auto.
    split; [|repeat split; auto].
    split.
    + unfold InvD, set_profiles. cbn. auto.
    + unfold set_profiles. cbn [dst dst_vid bs_prm bs tri_full trf tri_prm tri dk]. cbn [dst_vid opt_eqb negb].
      destruct HB as (B1 & B2 & B3 & B4 & B5).
      cbn [dst_vid] in B3, B4.
      repeat split; auto.
      * destruct (bs s); auto. destruct B1 as (A & B & C). auto.
      * discriminate.
      * discriminate.
  - unfold InvD in HD. rewrite Ed in HD. contradiction.
  - unfold InvD in HD. rewrite Ed in HD. destruct HD as [HP HW].
    destruct (opt_eqb (prm s) (Some (c_pid c)) && (wobj s =? c_wid c)) eqn:Esame.
    + (* reuse *)
      specialize (Hre eq_refl). destruct Hre as (E1 & E2 & E3). subst v rm vid.
      apply andb_true_iff in Esame. destruct Esame as [Ep _]. apply opt_eqb_eq in Ep.
      rewrite HP in Ep. inversion Ep; subst p.
      inversion Hp; subst. split; auto. split; [split; auto; unfold InvD; rewrite Ed; auto|].
      rewrite ?Ed. cbn [dst_vid]. repeat split; auto.
    + rewrite Hf in Hp. inversion Hp; subst. split; auto.
      split; [|repeat split; auto].
      split.
      * unfold InvD, set_profiles. cbn. auto.
      * unfold set_profiles. cbn [dst dst_vid bs_prm bs tri_full trf tri_prm tri dk].
        destruct HB as (B1 & B2 & B3 & B4 & B5). cbn [dst_vid] in B3, B4.
        cbn [dst_vid opt_eqb]. destruct (c_vid c =? vid) eqn:Ev; cbn [negb].
        -- apply Nat.eqb_eq in Ev. subst vid. repeat split; auto.
        -- repeat split; auto; try discriminate.
           destruct (bs s); auto. destruct B1 as (A & B & C). auto.
Qed.

(* ---- get_bs_cached ------------------------------------------------------------------- *)
Lemma prm_ideal : forall bp x rmax order odd,
  bp = Some (r_rmax x, r_order x, r_odd x) -> r_junk x = false ->
  prm_eqb bp rmax order odd = true -> x = ideal rmax order odd.
Proof.
  intros bp [a b c d] rmax order odd -> Hj H. cbn in *. subst d.
  apply andb_true_iff in H. destruct H as [H H3]. apply andb_true_iff in H. destruct H as [H1 H2].
  apply Nat.eqb_eq in H1. apply Nat.eqb_eq in H2. apply eqb_prop in H3. subst. reflexivity.
Qed.

Lemma honest_load : forall d di k f rmax order odd,
  honest d -> find_file fkey_eqb di k d = Some (FGood f) ->
  {| r_rmax := rmax; r_order := order; r_odd := odd; r_junk := r_junk (f_c f) |} = ideal rmax order odd.
Proof.
  intros d di k f rmax order odd Hh Hf. apply find_file_In in Hf. destruct (Hh _ _ _ Hf) as [Hc _].
  rewrite Hc. reflexivity.
Qed.

Lemma load_good : forall dir rmax order odd inv listing d,
  honest d -> match dir with Some di => dir_writable di = true | None => True end ->
  match load_bs dir rmax order odd inv listing d with
  | LNone => True
  | LSome b t => b = ideal rmax order odd /\ (t = None \/ t = Some b)
  | LRaise _ => False
  end.
Proof.
  intros dir rmax order odd inv listing d Hh Hw. unfold load_bs.
  destruct dir as [di|]; [|exact I]. rewrite Hw. cbn [negb].
  set (exact := {| fk_rmax := rmax; fk_order := order; fk_odd := odd; fk_inv := inv |}).
  destruct (match find_file fkey_eqb di exact d with
            | Some _ => Some exact
            | None => best_file rmax order odd inv listing None
            end) as [k|]; [|exact I].
  destruct (find_file fkey_eqb di k d) as [[f|pe|]|] eqn:Ef; try exact I.
  - rewrite (honest_load _ _ _ _ rmax order odd Hh Ef). split; auto.
    destruct (f_inv f && inv); auto.
  - apply find_file_In in Ef. destruct (Hh _ _ _ Ef).
  - apply find_file_In in Ef. destruct (Hh _ _ _ Ef).
Qed.

Lemma stage1_good : forall s rmax order odd fwd reg listing g dir s1 nb oe,
  Inv s -> match dir with Some di => dir_writable di = true | None => True end ->
  stage1 s rmax order odd fwd reg listing g dir = (s1, nb, oe) ->
  oe = None /\
  (Inv s1 /\ dst s1 = dst s /\ prm s1 = prm s /\ wobj s1 = wobj s /\ ibs s1 = ibs s /\ dk s1 = dk s /\
     bs s1 = Some (ideal rmax order odd) /\
     (nb = true -> tri_full s1 = None)).
Proof.
  intros s rmax order odd fwd reg listing g dir s1 nb oe [HD HB] Hw H1. unfold stage1 in H1.
  pose proof HB as (B1 & B2 & B3 & B4 & B5).
  destruct (match bs s with None => true | Some _ => negb (prm_eqb (bs_prm s) rmax order odd) end) eqn:En.
  - pose proof (load_good dir rmax order odd (negb fwd && (reg =? 0)) listing (dk s) B5 Hw) as Hl.
    destruct (load_bs dir rmax order odd (negb fwd && (reg =? 0)) listing (dk s)) as [|b t|e].
    + inversion H1; subst. split; [reflexivity|].
      split; [|repeat split; auto].
      apply Inv_upd; auto. unfold InvB. repeat split; auto; try discriminate.
    + destruct Hl as [Hb Ht]. inversion H1; subst. split; [reflexivity|].
      split; [|repeat split; auto; discriminate].
      apply Inv_upd; auto. unfold InvB. repeat split; auto; try discriminate.
      intros y Hy. destruct Ht as [Ht|Ht]; rewrite Ht in Hy; [discriminate|inversion Hy; reflexivity].
    + contradiction.
  - inversion H1; subst. split; [reflexivity|].
    destruct (bs s) as [x|] eqn:Ex; [|discriminate]. apply negb_false_iff in En.
    destruct B1 as [Hp Hj]. pose proof (prm_ideal _ _ _ _ _ Hp Hj En) as Hx. subst x.
    split; [|repeat split; auto; discriminate].
    apply Inv_upd; auto.
Qed.

Lemma save_good : forall dir rmax order odd b t d d',
  honest d -> b = ideal rmax order odd -> (t = None \/ t = Some b) ->
  save_bs dir rmax order odd b t d = Some d' -> honest d'.
Proof.
  intros dir rmax order odd b t d d' Hh Hb Ht Hs. unfold save_bs in Hs.
  destruct dir as [di|]; [|inversion Hs; subst; auto].
  destruct (dir_writable di); [|discriminate]. inversion Hs; subst.
  apply honest_put; auto.
Qed.

Lemma save_some : forall dir rmax order odd b t d,
  match dir with Some di => dir_writable di = true | None => True end ->
  exists d', save_bs dir rmax order odd b t d = Some d'.
Proof.
  intros dir rmax order odd b t d Hw. unfold save_bs. destruct dir as [di|]; [rewrite Hw|]; eauto.
Qed.

Lemma InvB_dk : forall ov bp b t f tp ti d d',
  InvB ov bp b t f tp ti d -> honest d' -> InvB ov bp b t f tp ti d'.
Proof. intros ov bp b t f tp ti d d' (B1 & B2 & B3 & B4 & _) H. repeat split; auto. Qed.

Lemma finish_good : forall s1 nb b rmax order odd fwd reg vid g dir s2 r ov,
  Inv s1 -> bs s1 = Some b -> b = ideal rmax order odd -> (nb = true -> tri_full s1 = None) ->
  dst_vid (dst s1) = Some ov -> norm_vid ov = vid ->
  reg_raises reg order odd = false ->
  match dir with Some di => dir_writable di = true | None => True end ->
  finish_bs s1 nb b rmax order odd fwd reg vid g dir = (s2, r) ->
  Inv s2 /\ dst s2 = dst s1 /\ prm s2 = prm s1 /\ wobj s2 = wobj s1 /\ ibs s2 = ibs s1 /\
  r = Ret (if fwd then AFwd b vid else AInv reg b vid).
Proof.
  intros s1 nb b rmax order odd fwd reg vid g dir s2 r ov HI Hbs Hb Hnb Hov Hvid Hreg Hw Hf.
  subst vid. pose proof HI as [HD HB]. pose proof HB as (B1 & B2 & B3 & B4 & B5). rewrite Hov in B3, B4. rewrite Hbs in B1, B2, B3, B4.
  cbn beta iota in B1. destruct B1 as [B1a B1b].
  assert (Hsz : negb (r_rmax b =? rmax) = false) by (rewrite Hb; cbn; rewrite Nat.eqb_refl; reflexivity).
  unfold finish_bs in Hf. rewrite ?Hsz in Hf. cbn [andb] in Hf. destruct fwd.
  - (* forward *)
    destruct (trf s1) as [a|] eqn:Ea.
    + destruct (B3 a eq_refl) as (x & v & Hx & Ha & Hv). inversion Hx; subst x. inversion Hv; subst v.
      inversion Hf; subst s2 r. split; [exact HI|]. rewrite Ha. repeat split; auto.
    + assert (Hnew : forall d', honest d' ->
                Inv (upd s1 (bs_prm s1) (bs s1) (tri_full s1) (Some (AFwd b (norm_vid ov))) (tri_prm s1) (tri s1) g d')).
      { intros d' Hd'. apply Inv_upd; auto. rewrite Hov, Hbs. repeat split; auto.
        - intros a Ha. injection Ha as <-. exists b, ov. auto. }
      destruct nb.
      * destruct (save_some dir rmax order odd b None (dk s1) Hw) as [d' Hs].
        pose proof (save_good _ _ _ _ _ _ _ _ B5 Hb (or_introl eq_refl) Hs) as Hd'.
        rewrite Hs in Hf. inversion Hf; subst s2 r. split; [apply Hnew; auto|]. repeat split; auto.
      * inversion Hf; subst s2 r. split; [apply Hnew; auto|]. repeat split; auto.
  - (* inverse *)
    unfold stage2 in Hf. rewrite Hreg in Hf.
    rewrite Hsz in Hf. cbn [andb] in Hf.
    (* saving at the end *)
    assert (Hend : forall (s3 : st) (nb3 : bool) (a : acont) (ti : option acont),
              Inv s3 -> bs s3 = Some b -> (tri_full s3 = None \/ tri_full s3 = Some b) ->
              dst s3 = dst s1 -> prm s3 = prm s1 -> wobj s3 = wobj s1 -> ibs s3 = ibs s1 -> tri s3 = ti ->
              (if nb3 then
                 match save_bs dir rmax order odd b (tri_full s3) (dk s3) with
                 | None => (s3, Raise EOther)
                 | Some d' => (upd s3 (bs_prm s3) (bs s3) (tri_full s3) (trf s3) (tri_prm s3) ti g d', Ret a)
                 end
               else (s3, Ret a)) = (s2, r) ->
              Inv s2 /\ dst s2 = dst s1 /\ prm s2 = prm s1 /\ wobj s2 = wobj s1 /\ ibs s2 = ibs s1 /\ r = Ret a).
    { intros s3 nb3 a ti HI3 Hb3 Ht3 E1 E2 E3 E4 Eti He. subst ti. pose proof HI3 as [HD3 HB3]. destruct nb3.
      - destruct (save_some dir rmax order odd b (tri_full s3) (dk s3) Hw) as [d' Hs].
        assert (Hd' : honest d').
        { destruct HB3 as (_ & _ & _ & _ & H5). exact (save_good _ _ _ _ _ _ _ _ H5 Hb Ht3 Hs). }
        rewrite Hs in He. inversion He; subst s2 r. split; [|repeat split; auto].
        apply Inv_upd; auto. eapply InvB_dk; eauto.
      - inversion He; subst s2 r. split; [exact HI3|]. repeat split; auto. }
    destruct (opt_eqb (tri_prm s1) (Some reg)) eqn:Eh.
    + (* cached *)
      apply opt_eqb_eq in Eh. destruct (B4 reg Eh) as (x & v & Hx & Ht & Hv).
      inversion Hx; subst x. inversion Hv; subst v. rewrite Ht in Hf.
      eapply Hend; [exact HI| | | | | | | |exact Hf]; auto.
      destruct (tri_full s1) as [t|] eqn:Et; auto. right. pose proof (B2 t eq_refl) as E. injection E as ->. reflexivity.
    + destruct (reg =? 0) eqn:Er.
      * apply Nat.eqb_eq in Er. subst reg.
        cbn [tri_full upd] in Hf.
        destruct (tri_full s1) as [t|] eqn:Et.
        -- assert (Etb : t = b) by (pose proof (B2 t eq_refl) as E; injection E as ->; reflexivity). subst t.
           cbn [tri upd] in Hf.
           eapply Hend; [| | | | | | | |exact Hf]; cbn [bs tri_full dst prm wobj ibs tri upd]; auto.
           apply Inv_upd; [exact HD|].
           cbn [dst upd bs_prm bs tri_full trf tri_prm tri dk]. rewrite Hov, Hbs. repeat split; auto; try (intros ? Hq; injection Hq as <-); auto; try (exists b, ov; repeat split; auto).
        -- cbn [tri upd] in Hf.
           eapply (Hend _ true); [| | | | | | | |exact Hf]; cbn [bs tri_full dst prm wobj ibs tri upd]; auto.
           apply Inv_upd; [exact HD|].
           cbn [dst upd bs_prm bs tri_full trf tri_prm tri dk]. rewrite Hov, Hbs. repeat split; auto; try (intros ? Hq; injection Hq as <-); auto; try (exists b, ov; repeat split; auto).
      * cbn [tri upd] in Hf.
        eapply Hend; [| | | | | | | |exact Hf]; cbn [bs tri_full dst prm wobj ibs tri upd]; auto.
        -- apply Inv_upd; [exact HD|].
           cbn [dst upd bs_prm bs tri_full trf tri_prm tri dk]. rewrite Hov, Hbs. repeat split; auto; try (intros ? Hq; injection Hq as <-); auto; try (exists b, ov; repeat split; auto).
        -- destruct (tri_full s1) as [t|] eqn:Et; auto. right. pose proof (B2 t eq_refl) as E. injection E as ->. reflexivity.
Qed.

Lemma bad_dir_writable : forall s bd g dir, uses_bad_dir s bd = false -> resolve (gdir s) bd = (g, dir) ->
  match dir with Some di => dir_writable di = true | None => True end.
Proof.
  intros s bd g dir H Hr. unfold uses_bad_dir in H. rewrite Hr in H. cbn [snd] in H.
  destruct dir; auto. apply negb_false_iff in H. auto.
Qed.

Lemma get_bs_good : forall s rmax order odd fwd reg bd listing s2 r ov,
  Inv s -> dst_vid (dst s) = Some ov -> uses_bad_dir s bd = false -> reg_raises reg order odd = false ->
  get_bs s rmax order odd fwd reg ov bd listing = (s2, r) ->
  Inv s2 /\ dst s2 = dst s /\ prm s2 = prm s /\ wobj s2 = wobj s /\ ibs s2 = ibs s /\
  r = Ret (if fwd then AFwd (ideal rmax order odd) (norm_vid ov)
           else AInv reg (ideal rmax order odd) (norm_vid ov)).
Proof.
  intros s rmax order odd fwd reg bd listing s2 r ov HI Hov Hbad Hreg Hg.
  unfold get_bs in Hg. destruct (resolve (gdir s) bd) as [g dir] eqn:Er.
  pose proof (bad_dir_writable _ _ _ _ Hbad Er) as Hw.
  destruct (stage1 s rmax order odd fwd reg listing g dir) as [[s1 nb] oe] eqn:E1.
  destruct (stage1_good _ _ _ _ _ _ _ _ _ _ _ _ HI Hw E1) as (Hoe & HI1 & Ed & Ep & Ew & Ei & Edk & Hbs & Hnb).
  subst oe. rewrite Hbs in Hg.
  assert (Hov1 : dst_vid (dst s1) = Some ov) by (rewrite Ed; exact Hov).
  destruct (finish_good _ _ _ _ _ _ _ _ _ _ _ _ _ _ HI1 Hbs eq_refl Hnb Hov1 eq_refl Hreg Hw Hg)
    as (HI2 & E2d & E2p & E2w & E2i & Hr).
  split; [exact HI2|]. rewrite E2d, E2p, E2w, E2i, Ed, Ep, Ew, Ei. repeat split; auto.
Qed.

(* ---- the whole call ------------------------------------------------------------------ *)
Definition expected (c : call) : rres :=
  {| q_pid := c_pid c; q_wver := c_wver c;
     q_a := if c_fwd c then AFwd (ideal (c_rmax c) (c_order c) (c_odd c)) (norm_vid (c_vid c))
            else AInv (c_reg c) (ideal (c_rmax c) (c_order c) (c_odd c)) (norm_vid (c_vid c));
     q_img := c_geom c; q_want := c_geom c |}.

Lemma fit_ideal : forall r o d, fit (ideal r o d) o d = ideal r o d.
Proof.
  intros. unfold fit. cbn [r_order r_odd ideal]. rewrite Nat.leb_refl, eqb_reflx. reflexivity.
Qed.

Lemma rcont_eqb_refl : forall x, rcont_eqb x x = true.
Proof. intros [a b c d]. unfold rcont_eqb. cbn. rewrite !Nat.eqb_refl, !eqb_reflx. reflexivity. Qed.

Lemma Inv_set_ibs : forall s i, Inv s -> Inv (set_profiles s (prm s) (wobj s) (dst s) i false).
Proof. intros s i H. exact H. Qed.

Lemma call_good : forall s c s' r,
  Inv s -> hazard s (Call c) = false -> step_call s c = (s', r) ->
  Inv s' /\ r = Ret (expected c).
Proof.
  intros s c s' r HI Hz Hs.
  destruct (hazard_parts _ _ Hz) as (Hf & Hreg & Hbad & _).
  unfold step_call in Hs.
  destruct (profiles s c) as [s1 rp] eqn:Ep.
  destruct (profiles_good _ _ _ _ HI Hz Ep) as (Hrp & HI1 & Hov & Eg & Edk).
  subst rp.
  assert (Hbad1 : uses_bad_dir s1 (c_bd c) = false) by (unfold uses_bad_dir in *; rewrite Eg; exact Hbad).
  destruct (get_bs s1 (c_rmax c) (c_order c) (c_odd c) (c_fwd c) (c_reg c) (c_vid c) (c_bd c) (c_listing c))
    as [s2 rg] eqn:Egb.
  destruct (get_bs_good _ _ _ _ _ _ _ _ _ _ _ HI1 Hov Hbad1 Hreg Egb) as (HI2 & E2d & E2p & E2w & E2i & Hr).
  subst rg.
  set (a := if c_fwd c then AFwd (ideal (c_rmax c) (c_order c) (c_odd c)) (norm_vid (c_vid c))
            else AInv (c_reg c) (ideal (c_rmax c) (c_order c) (c_odd c)) (norm_vid (c_vid c))) in *.
  assert (Hac : a_rcont a = ideal (c_rmax c) (c_order c) (c_odd c)) by (unfold a; destruct (c_fwd c); reflexivity).
  rewrite Hac in Hs. cbn [r_rmax ideal] in Hs. rewrite Nat.eqb_refl in Hs. cbn [negb] in Hs.
  rewrite rcont_eqb_refl in Hs. cbn [negb] in Hs. rewrite andb_false_r in Hs.
  assert (Hfit : fit_a a (c_order c) (c_odd c) = a).
  { unfold a. destruct (c_fwd c); cbn [fit_a]; rewrite fit_ideal; reflexivity. }
  rewrite Hfit in Hs.
  destruct (c_geom c) as [gm|] eqn:Egm.
  - inversion Hs; subst. split; [apply Inv_set_ibs; exact HI2|].
    unfold expected. fold a. rewrite Egm. reflexivity.
  - inversion Hs; subst. split; [exact HI2|]. unfold expected. fold a. rewrite Egm. reflexivity.
Qed.

(* a fresh process *)
Lemma fresh_expected : forall s c, hazard s (Call c) = false -> fresh (Call c) = Ret (expected c).
Proof.
  intros s c Hz. destruct (hazard_parts _ _ Hz) as (Hf & Hreg & Hbad & _).
  unfold fresh.
  destruct (step_call init (fresh_call c)) as [s' r] eqn:Es. cbn [snd].
  assert (Hz0 : hazard init (Call (fresh_call c)) = false).
  { cbn [hazard fresh_call c_fail c_reg c_order c_odd c_bd c_pid c_wid]. rewrite Hf, Hreg. cbn.
    unfold uses_bad_dir. cbn. destruct (c_bd c) as [| |d]; cbn; auto.
    destruct (dir_writable d) eqn:Ew; cbn; auto.
    unfold uses_bad_dir in Hbad. cbn in Hbad. rewrite Ew in Hbad. discriminate. }
  destruct (call_good _ _ _ _ Inv_init Hz0 Es) as [_ ->]. reflexivity.
Qed.

Lemma q_eqv_refl_expected : forall c, q_eqv (expected c) (expected c) = true.
Proof.
  intros c. unfold q_eqv, expected. cbn. rewrite !Nat.eqb_refl.
  assert (Ha : forall a : acont, r_junk (a_rcont a) = false -> a_eqv a a = true).
  { intros [x v|rg x v] Hj; cbn in *; unfold r_eqv; rewrite !Nat.eqb_refl, !eqb_reflx, Hj; reflexivity. }
  rewrite Ha by (destruct (c_fwd c); reflexivity).
  assert (Hg : forall g, geom_eqb g g = true).
  { intros [[[x y] z]|]; cbn; rewrite ?Nat.eqb_refl; reflexivity. }
  rewrite !Hg. reflexivity.
Qed.

(* ---- one step ------------------------------------------------------------------------------ *)
Lemma fcont_honest_ok : forall k f, fcont_honest k f = true ->
  f_c f = ideal (fk_rmax k) (fk_order k) (fk_odd k) /\ f_inv f = fk_inv k.
Proof.
  intros k f H. unfold fcont_honest in H. apply andb_true_iff in H. destruct H as [H1 H2].
  apply rcont_eqb_eq in H1. apply eqb_prop in H2. auto.
Qed.

Lemma step_good : forall s o s' r,
  Inv s -> hazard s o = false -> damage o = false -> step s o = (s', r) ->
  Inv s' /\ (is_call o = true -> out_eqv r (fresh o) = true).
Proof.
  intros s o s' r HI Hz Hd Hs. pose proof HI as [HD HB].
  destruct o as [c|rmax order odd fwd reg vid bd l|sel|bd|bd|d k c|d k].
  - cbn [step] in Hs. destruct (call_good _ _ _ _ HI Hz Hs) as [HI' ->]. split; auto.
    intros _. rewrite (fresh_expected _ _ Hz). cbn [out_eqv]. apply q_eqv_refl_expected.
  - discriminate.
  - inversion Hs; subst. split; [|discriminate].
    destruct HB as (B1 & B2 & B3 & B4 & B5).
    destruct sel; split; unfold InvD, InvB in *; cbn [prm wobj dst ibs bs_prm bs tri_full trf tri_prm tri dk dst_vid]; auto.
    + repeat split; auto; discriminate.
    + repeat split; auto; try discriminate. destruct (bs s); auto. destruct B1 as (A & B & C). auto.
    + repeat split; auto; try discriminate. destruct (bs s); auto. destruct B1 as (A & B & C). auto.
  - cbn [step] in Hs. destruct (resolve (gdir s) bd) as [g dir]. inversion Hs; subst. split; [|discriminate].
    apply Inv_upd; auto. destruct HB as (B1 & B2 & B3 & B4 & B5). repeat split; auto.
    destruct dir; auto. apply honest_filter; auto.
  - inversion Hs; subst. split; [|discriminate]. apply Inv_upd; auto.
  - inversion Hs; subst. split; [|discriminate]. apply Inv_upd; auto.
    destruct HB as (B1 & B2 & B3 & B4 & B5). repeat split; auto.
    apply honest_put; auto. cbn [hazard damage] in *.
    destruct c as [f|e|]; try discriminate. apply negb_false_iff in Hz. apply fcont_honest_ok; auto.
  - inversion Hs; subst. split; [|discriminate]. apply Inv_upd; auto.
    destruct HB as (B1 & B2 & B3 & B4 & B5). repeat split; auto. apply honest_filter; auto.
Qed.

Lemma history_independent_from : forall ops s,
  Inv s -> no_hazard s ops = true -> no_damage ops = true -> all_agree s ops = true.
Proof.
  induction ops as [|o ops IH]; intros s HI Hz Hd; [reflexivity|].
  cbn [no_hazard no_damage all_agree] in *.
  apply andb_true_iff in Hz. destruct Hz as [Hz1 Hz2]. apply negb_true_iff in Hz1.
  apply andb_true_iff in Hd. destruct Hd as [Hd1 Hd2]. apply negb_true_iff in Hd1.
  destruct (step s o) as [s' r] eqn:Es. cbn [fst] in Hz2.
  destruct (step_good _ _ _ _ HI Hz1 Hd1 Es) as [HI' Hr].
  apply andb_true_iff. split; [|apply IH; auto].
  destruct (is_call o) eqn:Eo; auto.
Qed.

(* C07 for rbasex, with the recorded defective paths excluded *)
Theorem history_independent_partial : forall ops,
  no_hazard init ops = true -> no_damage ops = true -> all_agree init ops = true.
Proof. intros. apply history_independent_from; auto. apply Inv_init. Qed.
