(* PolyTop.v — the model of Polynomial.__init__ (model/Poly.v prepare/poly_func,
   model/AbelPoly.v poly_abelR) returns the documented function and its Abel
   transform at every grid point: any ascending non-negative grid, any
   coefficients, shift, stretch (s <> 0), reduced on/off. *)
From Coq Require Import Reals List Arith Bool ZArith QArith Qreals Lia Lra Psatz.
From Coquelicot Require Import Coquelicot.
From PA Require Import model.Poly model.AbelPoly proofs.PolyRing proofs.AbelPolyAlg proofs.AbelPolyInt.
Import ListNotations.
Open Scope R_scope.

Notation trimR := (trim R 0 Reqb).
Notation stretchR := (stretch R 1 Rmult Rdiv).
Notation shiftR := (shift R 0 1 Rplus Rmult Ropp).
Notation searchR := (searchsorted R Rltb).
Notation func_spanR := (func_span R 0 Rplus Rmult).

Lemma Reqb_true : forall a b, Reqb a b = true <-> a = b.
Proof. intros. unfold Reqb. destruct (Req_EM_T a b); split; intros; auto; discriminate. Qed.
Lemma Rltb_true : forall a b, Rltb a b = true <-> a < b.
Proof. intros. unfold Rltb. destruct (Rlt_dec a b); split; intros; auto; discriminate. Qed.
Lemma Rltb_false : forall a b, Rltb a b = false <-> b <= a.
Proof. intros. unfold Rltb. destruct (Rlt_dec a b); split; intros; auto; try discriminate; lra. Qed.

(* ---- coefficient preparation preserves the function ---- *)
Lemma trim_eval : forall c x, pevalR (trimR c) x = pevalR c x.
Proof.
  unfold pevalR. induction c; intros; [reflexivity|].
  cbn [trim]. specialize (IHc x). destruct (trimR c) eqn:E.
  - cbn [peval] in IHc. destruct (Reqb a 0) eqn:Ea.
    + apply Reqb_true in Ea. subst a. cbn [peval]. rewrite <- IHc. ring.
    + cbn [peval]. rewrite <- IHc. ring.
  - cbn [peval] in *. rewrite <- IHc. reflexivity.
Qed.

Lemma trim_nil_eval : forall c x, trimR c = [] -> pevalR c x = 0.
Proof. intros. rewrite <- trim_eval, H. reflexivity. Qed.

Lemma stretch_eval : forall s c x, s <> 0 -> pevalR (stretchR s c) x = pevalR c (x / s).
Proof.
  intros. unfold stretch, pevalR.
  rewrite (scale_pow_eval R 0 1 Rplus Rmult Rminus Ropp RTheory).
  rewrite Rmult_1_l. f_equal. field. auto.
Qed.

Lemma shiftR_eval : forall r0 c x, pevalR (shiftR r0 c) x = pevalR c (x - r0).
Proof. intros. apply (shift_eval R 0 1 Rplus Rmult Rminus Ropp RTheory). Qed.

(* ---- grid ---- *)
Definition ascending (r : list R) : Prop :=
  forall i j, (i <= j < length r)%nat -> nth i r 0 <= nth j r 0.

Lemma ascending_tail : forall a r, ascending (a :: r) -> ascending r.
Proof. intros a r H i j Hij. apply (H (S i) (S j)). simpl. lia. Qed.

Lemma searchsorted_spec : forall r v i, ascending r -> (i < length r)%nat ->
  ((i < searchR r v)%nat <-> nth i r 0 < v).
Proof.
  induction r as [|a r IH]; intros v i Hs Hi; [simpl in Hi; lia|].
  cbn [searchsorted]. destruct (Rltb a v) eqn:E.
  - apply Rltb_true in E. destruct i; simpl.
    + split; intros; [auto | lia].
    + rewrite <- (IH v i (ascending_tail _ _ Hs)) by (simpl in Hi; lia). lia.
  - apply Rltb_false in E. split; [lia|]. intros.
    pose proof (Hs 0%nat i ltac:(lia)). simpl (nth 0 _ _) in H0. lra.
Qed.

Lemma nth_func_span : forall c imin imax r i, (i < length r)%nat ->
  nth i (func_spanR c imin imax r) 0 =
  if (imin <=? i)%nat && (i <? imax)%nat then pevalR c (nth i r 0) else 0.
Proof.
  intros. unfold func_span.
  set (f := fun ix : nat * R => let '(i0, x) := ix in
              if (imin <=? i0)%nat && (i0 <? imax)%nat then peval R 0 Rplus Rmult c x else 0).
  rewrite (nth_indep _ 0 (f (0%nat, 0))) by (rewrite map_length, combine_length, seq_length; lia).
  rewrite map_nth. rewrite combine_nth by (rewrite seq_length; auto).
  rewrite seq_nth by auto. reflexivity.
Qed.

Lemma coef_eval : forall cc r0 s t, s <> 0 ->
  pevalR (let c1 := if Reqb s 1 then cc else stretchR s cc in
          if Reqb r0 0 then c1 else shiftR r0 c1) t = pevalR cc ((t - r0) / s).
Proof.
  intros. cbv zeta.
  assert (E1 : forall u, pevalR (if Reqb s 1 then cc else stretchR s cc) u = pevalR cc (u / s)).
  { intros. destruct (Reqb s 1) eqn:Es.
    - apply Reqb_true in Es. subst s. f_equal. field.
    - apply stretch_eval; auto. }
  destruct (Reqb r0 0) eqn:E0.
  - apply Reqb_true in E0. subst r0. rewrite E1. f_equal. field. auto.
  - rewrite shiftR_eval, E1. reflexivity.
Qed.

Lemma prepare_spec : forall r rmin rmax c r0 s red p,
  prepareR r rmin rmax c r0 s red = Some p -> s <> 0 ->
  exists q, 0 < q /\ 0 < rmax /\
    p_r p = map (fun x => x / q) r /\
    p_rmin p = Rmax rmin 0 / q /\ p_rmax p = rmax / q /\ p_scale p = q /\
    (forall t, pevalR (p_c p) t = pevalR c ((t * q - r0) / s)) /\
    p_imin p = searchR (p_r p) (p_rmin p) /\ p_imax p = searchR (p_r p) (p_rmax p).
Proof.
  intros r rmin rmax c r0 s red p H Hs. unfold prepareR, prepare in H.
  destruct (Rltb 0 rmax) eqn:Em; [|discriminate]. apply Rltb_true in Em.
  assert (Hmin : (if Rltb rmin 0 then 0 else rmin) = Rmax rmin 0).
  { destruct (Rltb rmin 0) eqn:E.
    - apply Rltb_true in E. rewrite Rmax_right; lra.
    - apply Rltb_false in E. rewrite Rmax_left; lra. }
  rewrite Hmin in H.
  destruct (trimR c) as [|a0 ct] eqn:Et; [discriminate|]. rewrite <- Et in H.
  destruct red.
  - exists rmax. inversion H; subst p; clear H. cbn [p_r p_rmin p_rmax p_scale p_c p_imin p_imax].
    repeat split; auto.
    + unfold Rdiv. rewrite Rinv_r; lra.
    + intros t.
      assert (Hs' : s / rmax <> 0).
      { intros E. apply Hs. apply (Rmult_eq_reg_r (/ rmax)). unfold Rdiv in E. lra.
        apply Rinv_neq_0_compat. lra. }
      pose proof (coef_eval (trimR c) (r0 / rmax) (s / rmax) t Hs') as CE. cbv zeta in CE.
      rewrite CE, trim_eval. f_equal. field. lra.
  - exists 1. inversion H; subst p; clear H. cbn [p_r p_rmin p_rmax p_scale p_c p_imin p_imax].
    repeat split; auto; try lra.
    + rewrite <- (map_id r) at 1. apply map_ext. intros. field.
    + intros t. pose proof (coef_eval (trimR c) r0 s t Hs) as CE. cbv zeta in CE.
      rewrite CE, trim_eval. f_equal. field. auto.
Qed.

Lemma prepare_none : forall r rmin rmax c r0 s red,
  prepareR r rmin rmax c r0 s red = None -> rmax <= 0 \/ (forall t, pevalR c t = 0).
Proof.
  intros. unfold prepareR, prepare in H.
  destruct (Rltb 0 rmax) eqn:Em.
  - right. intros. destruct (trimR c) eqn:Et.
    + apply trim_nil_eval; auto.
    + destruct red; discriminate.
  - left. apply Rltb_false in Em. auto.
Qed.

(* ---- scaling of the line of sight (option reduced) ---- *)
Lemma rr_scale : forall q x y, 0 < q -> rr (q * x) (q * y) = q * rr x y.
Proof.
  intros. unfold rr. replace (q * x * (q * x) + q * y * (q * y)) with (q * q * (x * x + y * y)) by ring.
  rewrite sqrt_mult by nra. rewrite sqrt_square by lra. reflexivity.
Qed.

Lemma ylim_scale : forall q rm x, 0 < q -> ylim (q * rm) (q * x) = q * ylim rm x.
Proof.
  intros. unfold ylim.
  replace (q * rm * (q * rm) - q * x * (q * x)) with (q * q * (rm * rm - x * x)) by ring.
  destruct (Rle_lt_dec 0 (rm * rm - x * x)).
  - rewrite sqrt_mult by nra. rewrite sqrt_square by lra. reflexivity.
  - rewrite (sqrt_neg_0 (rm * rm - x * x)) by lra. rewrite sqrt_neg_0 by nra. ring.
Qed.

Lemma los_scale : forall (F : R -> R) q Rm x l, 0 < q ->
  is_RInt (fun t => F (q * rr x t)) 0 (ylim Rm x) l ->
  is_RInt (fun y => F (rr (q * x) y)) 0 (ylim (q * Rm) (q * x)) (q * l).
Proof.
  intros F q Rm x l Hq H.
  rewrite ylim_scale by auto.
  pose proof (is_RInt_comp_lin (fun t => F (q * rr x t)) (/ q) 0 0 (q * ylim Rm x) l) as C.
  replace (/ q * 0 + 0) with 0 in C by ring.
  replace (/ q * (q * ylim Rm x) + 0) with (ylim Rm x) in C by (field; lra).
  specialize (C H).
  pose proof (is_RInt_scal _ 0 (q * ylim Rm x) q l C) as S.
  apply (is_RInt_ext (fun y => scal q (scal (/ q) (F (q * rr x (/ q * y + 0)))))).
  - intros y _. unfold scal; simpl; unfold mult; simpl.
    replace (q * (/ q * F (q * rr x (/ q * y + 0)))) with (F (q * rr x (/ q * y + 0))) by (field; lra).
    f_equal. rewrite <- rr_scale by auto. f_equal. field. lra.
  - exact S.
Qed.

Lemma nth_map_div : forall q r i, nth i (map (fun x => x / q) r) 0 = nth i r 0 / q.
Proof.
  intros. replace 0 with (0 / q) at 1 by (unfold Rdiv; ring).
  apply (map_nth (fun x => x / q)).
Qed.

Lemma ascending_div : forall q r, 0 < q -> ascending r -> ascending (map (fun x => x / q) r).
Proof.
  intros q r Hq H i j Hij. rewrite map_length in Hij. rewrite !nth_map_div.
  apply Rmult_le_compat_r. left; apply Rinv_0_lt_compat; auto. apply H; auto.
Qed.

Lemma div_lt_iff : forall a b q, 0 < q -> (a / q < b / q <-> a < b).
Proof.
  intros. split; intros.
  - apply (Rmult_lt_reg_r (/ q)). apply Rinv_0_lt_compat; auto. exact H0.
  - apply Rmult_lt_compat_r. apply Rinv_0_lt_compat; auto. auto.
Qed.

Lemma nth_map_zero : forall (r : list R) i, nth i (map (fun _ : R => 0) r) 0 = 0.
Proof. induction r; destruct i; simpl; auto. Qed.

Section Top.
Variables (r : list R) (rmin rmax : R) (c : list R) (r0 s : R) (red : bool).
Hypothesis Hasc : ascending r.
Hypothesis Hpos : forall j, (j < length r)%nat -> 0 <= nth j r 0.
Hypothesis Hs : s <> 0.

Let F := polyfun rmin rmax c r0 s.

Lemma F_hi : forall t, rmax <= t -> F t = 0.
Proof. intros. unfold F, polyfun. destruct (Rle_dec _ _); auto. destruct (Rlt_dec _ _); auto. lra. Qed.
Lemma F_lo : forall t, t < Rmax rmin 0 -> F t = 0.
Proof. intros. unfold F, polyfun. destruct (Rle_dec _ _); auto. lra. Qed.
Lemma F_in : forall t, Rmax rmin 0 <= t < rmax -> F t = pevalR c ((t - r0) / s).
Proof.
  intros. unfold F, polyfun. destruct (Rle_dec _ _); [|lra]. destruct (Rlt_dec _ _); [auto|lra].
Qed.

Theorem poly_func_spec : forall i, (i < length r)%nat ->
  nth i (poly_funcR r rmin rmax c r0 s red) 0 = F (nth i r 0).
Proof.
  intros i Hi. unfold poly_funcR, poly_func. fold prepareR.
  destruct (prepareR r rmin rmax c r0 s red) as [p|] eqn:E.
  - destruct (prepare_spec _ _ _ _ _ _ _ _ E Hs) as (q & Hq & Hm & Pr & Pmin & Pmax & Psc & Pc & Pimin & Pimax).
    assert (Hl : length (p_r p) = length r) by (rewrite Pr, map_length; auto).
    rewrite nth_func_span by lia.
    assert (Ha : ascending (p_r p)) by (rewrite Pr; apply ascending_div; auto).
    assert (Hx : nth i (p_r p) 0 = nth i r 0 / q) by (rewrite Pr; apply nth_map_div).
    set (x := nth i r 0) in *.
    assert (B1 : (i < p_imin p)%nat <-> x < Rmax rmin 0).
    { rewrite Pimin, searchsorted_spec by (auto; lia). rewrite Hx, Pmin. apply div_lt_iff; auto. }
    assert (B2 : (i < p_imax p)%nat <-> x < rmax).
    { rewrite Pimax, searchsorted_spec by (auto; lia). rewrite Hx, Pmax. apply div_lt_iff; auto. }
    destruct (Nat.leb_spec (p_imin p) i); destruct (Nat.ltb_spec i (p_imax p)); cbn [andb].
    + rewrite F_in. rewrite Pc, Hx. f_equal. field. lra.
      split. destruct (Rle_lt_dec (Rmax rmin 0) x); auto. apply B1 in r1. lia. apply B2; auto.
    + rewrite F_hi; auto. destruct (Rle_lt_dec rmax x); auto. apply B2 in r1. lia.
    + rewrite F_lo; auto. apply B1; auto.
    + rewrite F_lo; auto. apply B1; auto.
  - rewrite nth_map_zero. destruct (prepare_none _ _ _ _ _ _ _ E).
    + rewrite F_hi; auto. specialize (Hpos i Hi). lra.
    + unfold F, polyfun. destruct (Rle_dec _ _); auto. destruct (Rlt_dec _ _); auto.
Qed.

Variable Rm : R.
Hypothesis Hlim : Rmax rmin 0 <= rmax <= Rm.

Theorem poly_abel_spec : forall i, (i < length r)%nat ->
  nth i (poly_abelR r rmin rmax c r0 s red) 0 = Abel F Rm (nth i r 0).
Proof.
  intros i Hi. unfold poly_abelR.
  assert (Hm0 : 0 <= Rmax rmin 0) by apply Rmax_r.
  destruct (prepareR r rmin rmax c r0 s red) as [p|] eqn:E.
  - destruct (prepare_spec _ _ _ _ _ _ _ _ E Hs) as (q & Hq & Hm & Pr & Pmin & Pmax & Psc & Pc & Pimin & Pimax).
    assert (Hl : length (p_r p) = length r) by (rewrite Pr, map_length; auto).
    set (f := fun ix : nat * R => let '(i0, x) := ix in
                if (i0 <? p_imax p)%nat then abel_pt (p_c p) (p_scale p) x (p_rmin p) (p_rmax p) else 0).
    rewrite (nth_indep _ 0 (f (0%nat, 0))) by (rewrite map_length, combine_length, seq_length; lia).
    rewrite map_nth. rewrite combine_nth by (rewrite seq_length; auto).
    rewrite seq_nth by lia. unfold f. cbn [Nat.add].
    assert (Ha : ascending (p_r p)) by (rewrite Pr; apply ascending_div; auto).
    assert (Hx : nth i (p_r p) 0 = nth i r 0 / q) by (rewrite Pr; apply nth_map_div).
    pose proof (Hpos i Hi) as Hx0.
    set (x := nth i r 0) in *.
    assert (B2 : (i < p_imax p)%nat <-> x < rmax).
    { rewrite Pimax, searchsorted_spec by (auto; lia). rewrite Hx, Pmax. apply div_lt_iff; auto. }
    assert (Hiq : 0 < / q) by (apply Rinv_0_lt_compat; auto).
    destruct (Nat.ltb_spec i (p_imax p)).
    + apply B2 in H.
      rewrite Hx, Pmin, Pmax, Psc.
      assert (X0 : 0 <= x / q) by (apply Rmult_le_pos; lra).
      assert (X1 : x / q < rmax / q) by (apply div_lt_iff; auto).
      assert (X2 : 0 <= Rmax rmin 0 / q) by (apply Rmult_le_pos; lra).
      assert (X3 : Rmax rmin 0 / q <= rmax / q) by (apply Rmult_le_compat_r; lra).
      assert (X4 : rmax / q <= Rm / q) by (apply Rmult_le_compat_r; lra).
      unfold abel_pt. rewrite abel_sum_PA by lra.
      pose proof (los_RInt (fun t => F (q * t)) (p_c p) (Rmax rmin 0 / q) (rmax / q) (Rm / q) (x / q) X0
                           (conj X2 (conj X3 X4))) as L.
      assert (L' : is_RInt (fun y => F (q * rr (x / q) y)) 0 (ylim (Rm / q) (x / q))
                     (PA (p_c p) 0 (x / q) (ylim (rmax / q) (x / q)) -
                      PA (p_c p) 0 (x / q) (ylim (Rmax rmin 0 / q) (x / q)))).
      { apply L.
        - intros t Ht. rewrite F_in. rewrite Pc. f_equal. field; auto.
          destruct Ht as [T1 T2]. apply (Rmult_lt_compat_l q) in T1; auto. apply (Rmult_lt_compat_l q) in T2; auto.
          replace (q * (Rmax rmin 0 / q)) with (Rmax rmin 0) in T1 by (field; lra).
          replace (q * (rmax / q)) with rmax in T2 by (field; lra). lra.
        - intros t Ht. apply F_lo. destruct Ht as [T1 T2]. apply (Rmult_lt_compat_l q) in T2; auto.
          replace (q * (Rmax rmin 0 / q)) with (Rmax rmin 0) in T2 by (field; lra). lra.
        - intros t [Ht _]. apply F_hi. apply (Rmult_lt_compat_l q) in Ht; auto.
          replace (q * (rmax / q)) with rmax in Ht by (field; lra). lra. }
      pose proof (los_scale F q (Rm / q) (x / q) _ Hq L') as LS.
      replace (q * (x / q)) with x in LS by (field; lra).
      replace (q * (Rm / q)) with Rm in LS by (field; lra).
      unfold Abel.
      rewrite (is_RInt_unique (fun y => F (sqrt (x * x + y * y))) 0 (sqrt (Rm * Rm - x * x)) _ LS). ring.
    + rewrite (Abel_outside F rmax Rm x); auto.
      * split. lra. destruct (Rle_lt_dec rmax x); auto. apply B2 in r1. lia.
      * intros. apply F_hi. lra.
  - rewrite nth_map_zero. symmetry. apply (Abel_outside F 0 Rm).
    + split. lra. apply Hpos; auto.
    + intros t Ht. destruct (prepare_none _ _ _ _ _ _ _ E).
      * apply F_hi. lra.
      * unfold F, polyfun. destruct (Rle_dec _ _); auto. destruct (Rlt_dec _ _); auto.
Qed.
End Top.
