(* AbelPolyEval.v — the evaluation form run by the correspondence check
   (rational coefficients of y_up, y_lo, Dlnry computed in Q by vm_compute)
   equals the real-number model abel_pt. *)
From Coq Require Import Reals List Arith Bool ZArith QArith Qreals Lia Lra Psatz.
From Coquelicot Require Import Coquelicot.
From PA Require Import model.Poly model.AbelPoly proofs.AbelPolyAlg.
Import ListNotations.
Open Scope R_scope.

(* ---- Q2R commutes with the normalising operations ---- *)
Lemma Q2R_add' : forall a b, Q2R (Qadd' a b) = Q2R a + Q2R b.
Proof. intros. unfold Qadd'. rewrite (Qeq_eqR _ _ (Qred_correct _)). apply Q2R_plus. Qed.
Lemma Q2R_mul' : forall a b, Q2R (Qmul' a b) = Q2R a * Q2R b.
Proof. intros. unfold Qmul'. rewrite (Qeq_eqR _ _ (Qred_correct _)). apply Q2R_mult. Qed.
Lemma Q2R_div' : forall a b, ~ (b == 0)%Q -> Q2R (Qdiv' a b) = Q2R a / Q2R b.
Proof. intros. unfold Qdiv'. rewrite (Qeq_eqR _ _ (Qred_correct _)). apply Q2R_div; auto. Qed.
Lemma Q2R_red : forall a, Q2R (Qred a) = Q2R a.
Proof. intros. apply Qeq_eqR, Qred_correct. Qed.
Lemma Q2R_0 : Q2R 0 = 0. Proof. unfold Q2R; simpl; ring. Qed.
Lemma Q2R_1 : Q2R 1 = 1. Proof. unfold Q2R; simpl; field. Qed.

Notation ofnQ := (ofnat Q 0%Q 1%Q Qadd').
Notation CcoefQ := (Ccoef Q 0%Q 1%Q Qadd' Qmul' Qdiv').
Notation horQ := (hor Q 0%Q 1%Q Qadd' Qmul' Qdiv').

Lemma Q2R_ofnat : forall n, Q2R (ofnQ n) = INR n.
Proof.
  induction n; [apply Q2R_0|]. cbn [ofnat]. rewrite Q2R_add', IHn, Q2R_1, S_INR. ring.
Qed.

Lemma ofnat_nz : forall n, (1 <= n)%nat -> ~ (ofnQ n == 0)%Q.
Proof.
  intros n Hn E. apply Qeq_eqR in E. rewrite Q2R_ofnat, Q2R_0 in E.
  apply (not_0_INR n); [lia | auto].
Qed.

Lemma Q2R_Ccoef : forall k i, (2 * i <= k)%nat -> Q2R (CcoefQ k i) = CcoefR k i.
Proof.
  intros k i. induction i; intros H; cbn [Ccoef].
  - rewrite Q2R_div' by (apply ofnat_nz; lia). rewrite Q2R_1, Q2R_ofnat, ofnat_INR. reflexivity.
  - rewrite Q2R_div' by (apply ofnat_nz; lia). rewrite Q2R_mul', IHi by lia.
    rewrite !Q2R_ofnat, !ofnat_INR. reflexivity.
Qed.

Lemma Q2R_hor : forall k od x2 D dln n i, (2 * (i + n) <= k)%nat ->
  Q2R (horQ k od x2 D dln n i) = horR k od (Q2R x2) (fun p => Q2R (D p)) (Q2R dln) n i.
Proof.
  intros k od x2 D dln n. induction n; intros i H; cbn [hor].
  - rewrite Q2R_add', Q2R_mul', Q2R_Ccoef by lia. destruct od.
    + rewrite !Q2R_mul', Q2R_Ccoef by lia. reflexivity.
    + rewrite Q2R_0. reflexivity.
  - rewrite Q2R_add', !Q2R_mul', Q2R_Ccoef, IHn by lia. reflexivity.
Qed.

Lemma Q2R_a_gen : forall k x2 D dln,
  Q2R (a_genQ k x2 D dln) = a_genR k (Q2R x2) (fun p => Q2R (D p)) (Q2R dln).
Proof.
  intros. unfold a_genQ, a_genR, a_gen. apply Q2R_hor.
  pose proof (Nat.div_mod k 2). lia.
Qed.

Lemma Q2R_abel_sum : forall c k0 ak,
  Q2R (abel_sumQ c k0 ak) = abel_sumR (map Q2R c) k0 (fun k => Q2R (ak k)).
Proof.
  induction c; intros; cbn [abel_sum map]; unfold abel_sumQ, abel_sumR in *; cbn [abel_sum].
  - apply Q2R_0.
  - rewrite Q2R_add', !Q2R_mul', Q2R_add', Q2R_1, IHc. reflexivity.
Qed.

Lemma Q2R_pw : forall x n, Q2R (pwQ x n) = Q2R x ^ n.
Proof.
  induction n; unfold pwQ in *; cbn [pw pow]. apply Q2R_1. rewrite Q2R_mul', IHn. reflexivity.
Qed.

(* ---- the model is linear in y_up, y_lo, Dlnry ---- *)
Lemma hor_linear : forall k od x2 (U W : nat -> R) yup ylo dln n i,
  horR k od x2 (fun p => U p * yup + W p * ylo) dln n i =
  yup * horR k od x2 U 0 n i + ylo * horR k od x2 W 0 n i + dln * horR k od x2 (fun _ => 0) 1 n i.
Proof.
  intros. revert i. induction n; intros; cbn [hor].
  - destruct od; ring.
  - rewrite IHn. ring.
Qed.

Lemma abel_sum_linear : forall c k0 (f g h : nat -> R) a b d,
  abel_sumR c k0 (fun k => a * f k + b * g k + d * h k) =
  a * abel_sumR c k0 f + b * abel_sumR c k0 g + d * abel_sumR c k0 h.
Proof.
  induction c; intros; unfold abel_sumR in *; cbn [abel_sum]. ring. rewrite IHc. ring.
Qed.

Lemma abel_sum_ext : forall c k0 (f g : nat -> R), (forall k, f k = g k) ->
  abel_sumR c k0 f = abel_sumR c k0 g.
Proof.
  induction c; intros; unfold abel_sumR in *; cbn [abel_sum]. auto. rewrite H, (IHc _ f g H). auto.
Qed.

Lemma Qltb_0 : forall z, Qltb 0 z = true <-> 0 < Q2R z.
Proof.
  intros. unfold Qltb. rewrite negb_true_iff. split; intros.
  - destruct (Qlt_le_dec 0 z) as [L|L].
    + apply Qlt_Rlt in L. rewrite Q2R_0 in L. auto.
    + apply Qle_bool_iff in L. congruence.
  - destruct (Qle_bool z 0) eqn:E; auto. apply Qle_bool_iff in E. apply Qle_Rle in E.
    rewrite Q2R_0 in E. lra.
Qed.

Lemma sqrt_guard : forall z, (if Qltb 0 z then sqrt (Q2R z) else 0) = sqrt (Q2R z).
Proof.
  intros. destruct (Qltb 0 z) eqn:E; auto. symmetry. apply sqrt_neg_0.
  destruct (Rle_lt_dec (Q2R z) 0); auto. apply Qltb_0 in r. congruence.
Qed.

Lemma Q2R_Qmax : forall a b, Q2R (Qmax a b) = Rmax (Q2R a) (Q2R b).
Proof.
  intros. unfold Qmax, Qltb. destruct (Qle_bool b a) eqn:E; cbn [negb].
  - apply Qle_bool_iff, Qle_Rle in E. rewrite Rmax_left; auto.
  - destruct (Qlt_le_dec a b) as [L|L].
    + apply Qlt_Rlt in L. rewrite Rmax_right; lra.
    + apply Qle_bool_iff in L. congruence.
Qed.

Lemma ln_nonpos : forall x, x <= 0 -> ln x = 0.
Proof. intros. unfold ln. destruct (Rlt_dec 0 x); auto. exfalso; lra. Qed.

(* the evaluation form used by the correspondence check is the model *)
Theorem abel_of_data_correct : forall c sc x rmin rmax,
  0 <= Q2R x -> 0 <= Q2R rmin ->
  abel_of_data (abel_dataQ c sc x rmin rmax) =
  abel_pt (map Q2R c) (Q2R sc) (Q2R x) (Q2R rmin) (Q2R rmax).
Proof.
  intros c sc x rmin rmax Hx Hm. unfold abel_dataQ, abel_linQ, abel_of_data.
  cbn [d_al d_be d_ga d_zup d_bup d_zlo d_blo d_m d_bm d_rmax].
  rewrite !sqrt_guard, !Q2R_red.
  rewrite !Q2R_abel_sum.
  unfold Qminus. rewrite !Q2R_plus, !Q2R_opp, !Q2R_mult.
  set (yup := sqrt (Q2R rmax * Q2R rmax + - (Q2R x * Q2R x))).
  set (ylo := sqrt (Q2R rmin * Q2R rmin + - (Q2R x * Q2R x))).
  assert (Hln : (if Qltb 0 (Qmax rmin x) then ln (Q2R (Qmax rmin x) + ylo) else 0)
                = ln (Rmax (Q2R rmin) (Q2R x) + ylo)).
  { rewrite <- Q2R_Qmax. destruct (Qltb 0 (Qmax rmin x)) eqn:E; auto.
    symmetry. apply ln_nonpos.
    assert (Q2R (Qmax rmin x) <= 0).
    { destruct (Rle_lt_dec (Q2R (Qmax rmin x)) 0); auto. apply Qltb_0 in r. congruence. }
    rewrite Q2R_Qmax in *.
    assert (Q2R rmin = 0) by (pose proof (Rmax_l (Q2R rmin) (Q2R x)); lra).
    assert (Q2R x = 0) by (pose proof (Rmax_r (Q2R rmin) (Q2R x)); lra).
    assert (ylo = 0).
    { unfold ylo. rewrite H0, H1. replace (0 * 0 + - (0 * 0)) with 0 by ring. apply sqrt_0. }
    lra. }
  rewrite Hln.
  unfold abel_pt, a_code.
  replace (Q2R rmax * Q2R rmax - Q2R x * Q2R x) with (Q2R rmax * Q2R rmax + - (Q2R x * Q2R x)) by ring.
  replace (Q2R rmin * Q2R rmin - Q2R x * Q2R x) with (Q2R rmin * Q2R rmin + - (Q2R x * Q2R x)) by ring.
  fold yup ylo.
  set (dln := ln (Q2R rmax + yup) - ln (Rmax (Q2R rmin) (Q2R x) + ylo)).
  rewrite (abel_sum_ext _ 0
    (fun k => a_genR k (Q2R x * Q2R x) (Dyr (Q2R rmin) (Q2R rmax) yup ylo) dln)
    (fun k => yup * a_genR k (Q2R x * Q2R x) (fun p => Q2R rmax ^ p) 0
            + ylo * a_genR k (Q2R x * Q2R x) (fun p => - Q2R rmin ^ p) 0
            + dln * a_genR k (Q2R x * Q2R x) (fun _ => 0) 1)).
  2:{ intros k. unfold a_genR, a_gen. rewrite <- hor_linear. apply hor_ext.
      intros p. unfold Dyr. ring. }
  rewrite abel_sum_linear.
  assert (Hc : map Q2R (map (Qmul' sc) c) = map (Rmult (Q2R sc)) (map Q2R c)).
  { rewrite !map_map. apply map_ext. intros. apply Q2R_mul'. }
  rewrite Hc.
  assert (E1 : forall D dl, abel_sumR (map (Rmult (Q2R sc)) (map Q2R c)) 0
                 (fun k => Q2R (a_genQ k (x * x)%Q D dl))
               = abel_sumR (map (Rmult (Q2R sc)) (map Q2R c)) 0
                 (fun k => a_genR k (Q2R x * Q2R x) (fun p => Q2R (D p)) (Q2R dl))).
  { intros. apply abel_sum_ext. intros. rewrite Q2R_a_gen, Q2R_mult. reflexivity. }
  rewrite !E1.
  rewrite (abel_sum_ext _ 0 (fun k => a_genR k (Q2R x * Q2R x) (fun p => Q2R (pwQ rmax p)) (Q2R 0))
                            (fun k => a_genR k (Q2R x * Q2R x) (fun p => Q2R rmax ^ p) 0)).
  2:{ intros. rewrite Q2R_0. apply a_gen_ext. intros. apply Q2R_pw. }
  rewrite (abel_sum_ext _ 0 (fun k => a_genR k (Q2R x * Q2R x) (fun p => Q2R (- pwQ rmin p)) (Q2R 0))
                            (fun k => a_genR k (Q2R x * Q2R x) (fun p => - Q2R rmin ^ p) 0)).
  2:{ intros. rewrite Q2R_0. apply a_gen_ext. intros. rewrite Q2R_opp, Q2R_pw. reflexivity. }
  rewrite (abel_sum_ext _ 0 (fun k => a_genR k (Q2R x * Q2R x) (fun _ => Q2R 0) (Q2R 1))
                            (fun k => a_genR k (Q2R x * Q2R x) (fun _ => 0) 1)).
  2:{ intros. rewrite Q2R_1. apply a_gen_ext. intros. apply Q2R_0. }
  ring.
Qed.
