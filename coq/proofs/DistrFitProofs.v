(* DistrFitProofs.v — the coefficient solve of Distributions returns the
   coefficients of an exact angular model (R instance of model/DistrFit.v). *)
From Coq Require Import List Arith Lia Bool ZArith Reals Lra.
From PA Require Import base.Arr base.Px base.MatL model.DistrGeom gen.VmiInv model.DistrFit
  proofs.VmiInvProofs proofs.DistrGeomProofs.
Import ListNotations.
Open Scope R_scope.

Definition sqrtR (n : nat) : R := sqrt (INR n).

Notation pixelR := (pixel R).
Definition momentR := moment Rops.
Definition dmomentR := dmoment Rops.
Definition coeffsR := coeffs Rops.
Definition cpowR := cpow Rops.

(* ---- sums ----------------------------------------------------------------------- *)
Lemma fold_left_Rplus_acc (l : list R) a : fold_left Rplus l a = a + fold_left Rplus l 0.
Proof.
  revert a. induction l as [|x l IH]; intros a; cbn [fold_left]; [lra|].
  rewrite IH. rewrite (IH (0 + x)). lra.
Qed.

Lemma sumR_cons x l : sum Rops (x :: l) = x + sum Rops l.
Proof. unfold sum. cbn [fold_left Rops f0 fadd]. rewrite fold_left_Rplus_acc. lra. Qed.

Lemma sumR_nil : sum Rops [] = 0.
Proof. reflexivity. Qed.

Lemma sumR_app l1 l2 : sum Rops (l1 ++ l2) = sum Rops l1 + sum Rops l2.
Proof.
  induction l1 as [|x l1 IH]; cbn [app]; [rewrite sumR_nil; lra|].
  rewrite !sumR_cons, IH. lra.
Qed.

Lemma cpow_pow x n : cpowR x n = x ^ n.
Proof.
  unfold cpowR. induction n as [|n IH]; [reflexivity|].
  destruct n as [|n]; [cbn; lra|].
  change (cpow Rops x (S (S n))) with (x * cpow Rops x (S n)). rewrite IH. reflexivity.
Qed.

Lemma momentR_cons w x q l n : momentR n ((w, x, q) :: l) = w * x ^ n + momentR n l.
Proof. unfold momentR, moment. cbn [map]. rewrite sumR_cons. fold cpowR. rewrite cpow_pow. reflexivity. Qed.

Lemma dmomentR_cons w x q l n : dmomentR n ((w, x, q) :: l) = q * x ^ n + dmomentR n l.
Proof. unfold dmomentR, dmoment. cbn [map]. rewrite sumR_cons. fold cpowR. rewrite cpow_pow. reflexivity. Qed.

(* ---- data moments of an exact model ----------------------------------------------- *)
(* every pixel's datum is weight * (c0 + c1 x + c2 x^2) *)
Definition exact_px (c0 c1 c2 : R) (t : pixelR) : Prop :=
  let '(w, x, q) := t in q = w * (c0 + c1 * x + c2 * x ^ 2).

Lemma dmoment_exact c0 c1 c2 (px : list pixelR) n :
  Forall (exact_px c0 c1 c2) px ->
  dmomentR n px = c0 * momentR n px + c1 * momentR (n + 1) px + c2 * momentR (n + 2) px.
Proof.
  induction 1 as [|[[w x] q] l Hx Hl IH].
  - unfold dmomentR, momentR, dmoment, moment. cbn [map]. rewrite !sumR_nil. lra.
  - rewrite dmomentR_cons, !momentR_cons, IH. unfold exact_px in Hx. rewrite Hx.
    rewrite !pow_add. ring.
Qed.

Definition det1 (px : list pixelR) := momentR 0 px.
Definition det2m (px : list pixelR) := det2 (momentR 0 px) (momentR 1 px) (momentR 2 px).
Definition det3m (px : list pixelR) :=
  det3 (momentR 0 px) (momentR 1 px) (momentR 2 px) (momentR 3 px) (momentR 4 px).

(* the Hankel determinant the code tests, N = 1, 2, 3 *)
Definition hdet (N : nat) (px : list pixelR) : R :=
  match N with 1%nat => det1 px | 2%nat => det2m px | 3%nat => det3m px | _ => 0 end.

Lemma dotR2 a b x y : dot 0 Rplus Rmult [a; b] [x; y] = a * x + b * y.
Proof. unfold dot. cbn. lra. Qed.
Lemma dotR3 a b c x y z : dot 0 Rplus Rmult [a; b; c] [x; y; z] = a * x + b * y + c * z.
Proof. unfold dot. cbn. lra. Qed.

Theorem coeffs_exact_1 c0 (px : list pixelR) :
  Forall (exact_px c0 0 0) px -> hdet 1 px <> 0 -> coeffsR 1 px = Some [c0].
Proof.
  intros Hx Hd. unfold coeffsR, coeffs, convC. cbn [hdet] in Hd. unfold det1 in Hd.
  fold momentR. cbn [Rops feqb f0 f1 fdiv]. rewrite Reqb_false by exact Hd.
  cbn [matvec map seq]. fold dmomentR. rewrite (dmoment_exact c0 0 0) by exact Hx.
  unfold dot. cbn [combine map fold_left fst snd Rops f0 fadd fmul]. cbn [Nat.add].
  do 2 f_equal. field. exact Hd.
Qed.

Theorem coeffs_exact_2 c0 c1 (px : list pixelR) :
  Forall (exact_px c0 c1 0) px -> hdet 2 px <> 0 -> coeffsR 2 px = Some [c0; c1].
Proof.
  intros Hx Hd. unfold coeffsR, coeffs, convC. cbn [hdet] in Hd. unfold det2m in Hd.
  fold momentR. fold inv2R. rewrite inv2_value by exact Hd.
  cbn [matvec map seq Rops f0 fadd fmul]. fold dmomentR.
  rewrite !(dmoment_exact c0 c1 0) by exact Hx. cbn [Nat.add].
  rewrite !dotR2. unfold det2 in *.
  set (p0 := momentR 0 px) in *. set (p1 := momentR 1 px) in *. set (p2 := momentR 2 px) in *.
  do 2 f_equal; [field; exact Hd|]. f_equal. field. exact Hd.
Qed.

Theorem coeffs_exact_3 c0 c1 c2 (px : list pixelR) :
  Forall (exact_px c0 c1 c2) px -> hdet 3 px <> 0 -> coeffsR 3 px = Some [c0; c1; c2].
Proof.
  intros Hx Hd. unfold coeffsR, coeffs, convC. cbn [hdet] in Hd. unfold det3m in Hd.
  fold momentR. fold inv3R. rewrite inv3_value by exact Hd. cbv zeta.
  cbn [matvec map seq Rops f0 fadd fmul]. fold dmomentR.
  rewrite !(dmoment_exact c0 c1 c2) by exact Hx. cbn [Nat.add].
  rewrite !dotR3. unfold det3 in *.
  set (p0 := momentR 0 px) in *. set (p1 := momentR 1 px) in *. set (p2 := momentR 2 px) in *.
  set (p3 := momentR 3 px) in *. set (p4 := momentR 4 px) in *.
  do 2 f_equal; [field; exact Hd|]. f_equal; [field; exact Hd|]. f_equal. field. exact Hd.
Qed.

(* ---- the pixel lists of a radius --------------------------------------------------- *)
Lemma in_quad_idx g a b : In (a, b) (quad_idx g) <-> (a < g_Qh g /\ b < g_Qw g)%nat.
Proof.
  unfold quad_idx. rewrite in_flat_map. split.
  - intros [a' [Ha Hb]]. apply in_map_iff in Hb. destruct Hb as [b' [E Hb]].
    injection E as -> ->. apply in_seq in Ha, Hb. lia.
  - intros [Ha Hb]. exists a. split; [apply in_seq; lia|]. apply in_map. apply in_seq. lia.
Qed.

Lemma Forall_flat_map_quad (P : pixelR -> Prop) g (f : nat * nat -> list pixelR) :
  (forall a b, (a < g_Qh g)%nat -> (b < g_Qw g)%nat -> Forall P (f (a, b))) ->
  Forall P (flat_map f (quad_idx g)).
Proof.
  intros H. apply Forall_forall. intros t Ht. apply in_flat_map in Ht.
  destruct Ht as [[a b] [Hab Ht]]. apply in_quad_idx in Hab. destruct Hab as [Ha Hb].
  specialize (H a b Ha Hb). rewrite Forall_forall in H. apply H. exact Ht.
Qed.

Notation cos1R := (cos1 Rops sqrtR).
Notation wlR := (wl Rops sqrtR).
Notation wuR := (wu Rops sqrtR).

Lemma pixels_nearest_forall (P : pixelR -> Prop) g wq dq r :
  (forall a b, (a < g_Qh g)%nat -> (b < g_Qw g)%nat -> bin Nearest g a b = r ->
               P (wq a b, cos1R g a b, dq a b)) ->
  Forall P (pixels Rops sqrtR Nearest g wq dq r).
Proof.
  intros H. unfold pixels. apply Forall_flat_map_quad. intros a b Ha Hb.
  destruct (Nat.eqb_spec (bin Nearest g a b) r) as [E|E]; [|constructor].
  constructor; [|constructor]. apply H; assumption.
Qed.

Lemma pixels_linear_forall (P : pixelR -> Prop) g wq dq r :
  (forall a b, (a < g_Qh g)%nat -> (b < g_Qw g)%nat -> bin Linear g a b = r ->
               P (wlR g a b * wq a b, cos1R g a b, wlR g a b * dq a b)) ->
  (forall a b, (a < g_Qh g)%nat -> (b < g_Qw g)%nat -> S (bin Linear g a b) = r ->
               P (wuR g a b * wq a b, cos1R g a b, wuR g a b * dq a b)) ->
  Forall P (pixels Rops sqrtR Linear g wq dq r).
Proof.
  intros H1 H2. unfold pixels. apply Forall_app. split; apply Forall_flat_map_quad; intros a b Ha Hb.
  - destruct (Nat.eqb_spec (bin Linear g a b) r) as [E|E]; [|constructor].
    constructor; [|constructor]. apply H1; assumption.
  - destruct (Nat.eqb_spec (S (bin Linear g a b)) r) as [E|E]; [|constructor].
    constructor; [|constructor]. apply H2; assumption.
Qed.

(* coefficient functions of the radius; for 'linear' they must not depend on it *)
Definition radial_const (meth : method) (c : nat -> R) : Prop :=
  match meth with Nearest => True | Linear => forall r r', c r = c r' end.

(* the quadrant data are the quadrant weights times the angular model *)
Definition quadrant_exact (meth : method) g (wq dq : nat -> nat -> R) (c0 c1 c2 : nat -> R) : Prop :=
  forall a b, (a < g_Qh g)%nat -> (b < g_Qw g)%nat ->
    dq a b = wq a b * (c0 (bin meth g a b) + c1 (bin meth g a b) * cos1R g a b
                       + c2 (bin meth g a b) * cos1R g a b ^ 2).

Lemma pixels_exact meth g wq dq c0 c1 c2 r :
  quadrant_exact meth g wq dq c0 c1 c2 ->
  radial_const meth c0 -> radial_const meth c1 -> radial_const meth c2 ->
  Forall (exact_px (c0 r) (c1 r) (c2 r)) (pixels Rops sqrtR meth g wq dq r).
Proof.
  intros HQ K0 K1 K2. destruct meth.
  - apply pixels_nearest_forall. intros a b Ha Hb E. unfold exact_px.
    rewrite (HQ a b Ha Hb), E. reflexivity.
  - cbn in K0, K1, K2. apply pixels_linear_forall; intros a b Ha Hb E; unfold exact_px;
      rewrite (HQ a b Ha Hb);
      rewrite (K0 (bin Linear g a b) r), (K1 (bin Linear g a b) r), (K2 (bin Linear g a b) r);
      cbn [Rops fmul]; ring.
Qed.

Definition zero_fun : nat -> R := fun _ => 0.

Theorem coeffs_exact_quadrant meth g wq dq c0 c1 c2 N r :
  quadrant_exact meth g wq dq c0 c1 c2 ->
  radial_const meth c0 -> radial_const meth c1 -> radial_const meth c2 ->
  (N = 1%nat /\ c1 = zero_fun /\ c2 = zero_fun \/ N = 2%nat /\ c2 = zero_fun \/ N = 3%nat) ->
  hdet N (pixels Rops sqrtR meth g wq dq r) <> 0 ->
  coeffsR N (pixels Rops sqrtR meth g wq dq r) = Some (firstn N [c0 r; c1 r; c2 r]).
Proof.
  intros HQ K0 K1 K2 HN Hd.
  pose proof (pixels_exact meth g wq dq c0 c1 c2 r HQ K0 K1 K2) as Hx.
  destruct HN as [ [-> [-> ->] ] | [ [-> ->] | -> ] ]; cbn [firstn].
  - apply coeffs_exact_1; assumption.
  - apply coeffs_exact_2; assumption.
  - apply coeffs_exact_3; assumption.
Qed.

(* ---- folded data of an exact-model image -------------------------------------------- *)
Notation foldR := (fold_image 0 Rplus).
Notation gpixR := (gpix R 0).

Lemma gpix_factor (X Wf : list (list R)) c1 c2 i j v :
  (c1 && c2 = true -> px 0 X i j = px 0 Wf i j * v) ->
  gpixR X c1 c2 i j = gpixR Wf c1 c2 i j * v.
Proof. unfold gpix. destruct (c1 && c2); intros H; [apply H; reflexivity|ring]. Qed.

Lemma fold_factor_even h w row col rmax N (X Wf : list (list R)) (F : nat -> nat -> R) a b :
  (row < h)%nat -> (col < w)%nat ->
  let g := quad_geom h w row col rmax false N in
  (forall i j, (i < h)%nat -> (j < w)%nat -> px 0 X i j = px 0 Wf i j * F (dist i row) (dist j col)) ->
  (a < g_Qh g)%nat -> (b < g_Qw g)%nat ->
  px 0 (foldR g X) a b = px 0 (foldR g Wf) a b * F a b.
Proof.
  intros Hr Hc g HX Ha Hb. subst g.
  rewrite !(fold_spec_even R 0 Rplus Rplus_0_l Rplus_0_r) by assumption.
  unfold spec_even.
  rewrite (gpix_factor X Wf _ _ (row - a) (col - b) (F a b)).
  2:{ intros G. rewrite HX by lia. do 2 f_equal; unfold dist.
      - destruct (Nat.leb_spec (row - a) row); lia.
      - destruct (Nat.leb_spec (col - b) col); lia. }
  rewrite (gpix_factor X Wf _ _ (row - a) (col + b) (F a b)).
  2:{ intros G. rewrite HX by lia. do 2 f_equal; unfold dist.
      - destruct (Nat.leb_spec (row - a) row); lia.
      - destruct (Nat.leb_spec (col + b) col); lia. }
  rewrite (gpix_factor X Wf _ _ (row + a) (col - b) (F a b)).
  2:{ intros G. rewrite HX by lia. do 2 f_equal; unfold dist.
      - destruct (Nat.leb_spec (row + a) row); lia.
      - destruct (Nat.leb_spec (col - b) col); lia. }
  rewrite (gpix_factor X Wf _ _ (row + a) (col + b) (F a b)).
  2:{ intros G. rewrite HX by lia. do 2 f_equal; unfold dist.
      - destruct (Nat.leb_spec (row + a) row); lia.
      - destruct (Nat.leb_spec (col + b) col); lia. }
  ring.
Qed.

Lemma fold_factor_odd h w row col rmax N (X Wf : list (list R)) (F : nat -> nat -> R) a b :
  (row < h)%nat -> (col < w)%nat ->
  let g := quad_geom h w row col rmax true N in
  (forall i j, (row - g_y0 g <= i)%nat -> (i < row - g_y0 g + g_Qh g)%nat -> (j < w)%nat ->
     px 0 X i j = px 0 Wf i j * F (i - (row - g_y0 g))%nat (dist j col)) ->
  (a < g_Qh g)%nat -> (b < g_Qw g)%nat ->
  px 0 (foldR g X) a b = px 0 (foldR g Wf) a b * F a b.
Proof.
  intros Hr Hc g HX Ha Hb.
  pose proof (fold_spec_odd R 0 Rplus Rplus_0_l Rplus_0_r h w row col rmax N X a b Hr Hc) as E1.
  pose proof (fold_spec_odd R 0 Rplus Rplus_0_l Rplus_0_r h w row col rmax N Wf a b Hr Hc) as E2.
  cbv zeta in E1, E2. fold g in E1, E2. rewrite (E1 Ha Hb), (E2 Ha Hb).
  unfold spec_odd.
  rewrite (gpix_factor X Wf _ _ (row - g_y0 g + a) (col - b) (F a b)).
  2:{ intros G. rewrite HX by lia. do 2 f_equal; [lia|]. unfold dist.
      destruct (Nat.leb_spec (col - b) col); lia. }
  rewrite (gpix_factor X Wf _ _ (row - g_y0 g + a) (col + b) (F a b)).
  2:{ intros G. rewrite HX by lia. do 2 f_equal; [lia|]. unfold dist.
      destruct (Nat.leb_spec (col + b) col); lia. }
  ring.
Qed.

(* ---- end to end ---------------------------------------------------------------------- *)
(* the angular model at quadrant pixel [a][b]: sum_n c_n(bin) x^n, x = cos(theta)
   (odd orders present) or cos^2(theta) (even orders only) *)
Definition angular (meth : method) g (c0 c1 c2 : nat -> R) (a b : nat) : R :=
  c0 (bin meth g a b) + c1 (bin meth g a b) * cos1R g a b + c2 (bin meth g a b) * cos1R g a b ^ 2.

(* the image equals the angular model about the origin (on the rows that the
   analysis uses, for odd orders) *)
Definition model_image (meth : method) g (c0 c1 c2 : nat -> R) (IM : list (list R)) : Prop :=
  if g_odd g then
    forall i j, (g_row g - g_y0 g <= i)%nat -> (i < g_row g - g_y0 g + g_Qh g)%nat -> (j < g_w g)%nat ->
      px 0 IM i j = angular meth g c0 c1 c2 (i - (g_row g - g_y0 g)) (dist j (g_col g))
  else
    forall i j, (i < g_h g)%nat -> (j < g_w g)%nat ->
      px 0 IM i j = angular meth g c0 c1 c2 (dist i (g_row g)) (dist j (g_col g)).

Lemma px_ones h w i j : (i < h)%nat -> (j < w)%nat -> px 0 (ones Rops h w) i j = 1.
Proof.
  intros Hi Hj. unfold px, row, ones. cbn [Rops f1].
  rewrite nth_indep with (d' := repeat 1 w) by (rewrite repeat_length; exact Hi).
  rewrite nth_repeat. rewrite nth_indep with (d' := 1) by (rewrite repeat_length; exact Hj).
  apply nth_repeat.
Qed.

Lemma nth_map_seq_opt {Y : Type} (f : nat -> option Y) n r :
  (r < n)%nat -> nth r (map f (seq 0 n)) None = f r.
Proof.
  intros H. rewrite (nth_map_gen f (seq 0 n) r None 0%nat) by (rewrite seq_length; exact H).
  rewrite seq_nth by exact H. reflexivity.
Qed.

Theorem distr_exact h w row col rmax odd N meth use_sin (W : option (list (list R))) IM c0 c1 c2 r :
  (row < h)%nat -> (col < w)%nat -> wf h w IM ->
  (forall Wt, W = Some Wt -> wf h w Wt) ->
  let g := quad_geom h w row col rmax odd N in
  model_image meth g c0 c1 c2 IM ->
  radial_const meth c0 -> radial_const meth c1 -> radial_const meth c2 ->
  (N = 1%nat /\ c1 = zero_fun /\ c2 = zero_fun \/ N = 2%nat /\ c2 = zero_fun \/ N = 3%nat) ->
  (r <= rmax)%nat ->
  hdet N (distr_pixels Rops sqrtR meth g use_sin W IM r) <> 0 ->
  nth r (distr_cos Rops sqrtR meth g use_sin W IM) None = Some (firstn N [c0 r; c1 r; c2 r]).
Proof.
  intros Hr Hc HIM HW g HM K0 K1 K2 HN Hrr Hd.
  assert (Gh : g_h g = h) by apply qg_h. assert (Gw : g_w g = w) by apply qg_w.
  assert (Grow : g_row g = row) by apply qg_row. assert (Gcol : g_col g = col) by apply qg_col.
  assert (Grm : g_rmax g = rmax) by apply qg_rmax. assert (GN : g_N g = N) by apply qg_N.
  assert (Godd : g_odd g = odd) by apply qg_odd.
  unfold distr_cos. cbv zeta. rewrite Grm, GN. rewrite nth_map_seq_opt by lia.
  unfold distr_pixels in Hd.
  apply coeffs_exact_quadrant; try assumption.
  (* the quadrant data factor through the weights *)
  intros a b Ha Hb. fold (angular meth g c0 c1 c2 a b).
  unfold QW, QD. cbv zeta.
  set (Wf := match W with Some Wt => Wt | None => ones Rops (g_h g) (g_w g) end).
  set (X := match W with Some Wt => imul Rops Wt IM | None => IM end).
  assert (HX : forall i j, (i < h)%nat -> (j < w)%nat -> px 0 X i j = px 0 Wf i j * px 0 IM i j).
  { intros i j Hi Hj. unfold X, Wf. destruct W as [Wt|].
    - unfold imul. rewrite (px_imap2 0 (fmul Rops) (n:=h) (m:=w)); try assumption; [reflexivity|].
      apply HW. reflexivity.
    - rewrite Gh, Gw, px_ones by assumption. ring. }
  assert (HF : px 0 (foldR g X) a b = px 0 (foldR g Wf) a b * angular meth g c0 c1 c2 a b).
  { unfold model_image in HM. rewrite Godd in HM. unfold g in *. destruct odd.
    - apply fold_factor_odd; try assumption.
      intros i j Hi1 Hi2 Hj. rewrite qg_Qh, qg_y0 in Hi2. rewrite qg_y0 in Hi1.
      rewrite HX by (try assumption; lia).
      rewrite Grow, Gcol, Gw in HM. rewrite HM; [reflexivity| | |assumption].
      + rewrite qg_y0. exact Hi1.
      + rewrite qg_Qh, qg_y0. exact Hi2.
    - apply fold_factor_even; try assumption.
      intros i j Hi Hj. rewrite HX by assumption.
      rewrite Grow, Gcol, Gh, Gw in HM. rewrite HM by assumption. reflexivity. }
  cbn [Rops f0 fadd fmul]. fold Wf. fold X. rewrite HF.
  destruct use_sin; cbn [Rops fmul]; ring.
Qed.
