(* DistrFitProofs.v — the coefficient solve of Distributions returns the
   coefficients of an exact angular model (R instance of model/DistrFit.v). *)
From Coq Require Import List Arith Lia Bool ZArith Reals Lra.
From PA Require Import base.Arr base.Px base.MatL model.DistrGeom gen.VmiInv model.DistrFit
  proofs.VmiInvProofs proofs.DistrGeomProofs.
Import ListNotations.
Open Scope R_scope.

Definition sqrtR (n : nat) : R := sqrt (INR n).

Notation pixelR := (pixel R).
Definition momentR := moment Rops.
Definition dmomentR := dmoment Rops.
Definition coeffsR := coeffs Rops.
Definition cpowR := cpow Rops.

(* ---- sums ----------------------------------------------------------------------- *)
Lemma fold_left_Rplus_acc (l : list R) a : fold_left Rplus l a = a + fold_left Rplus l 0.
Proof.
  revert a. induction l as [|x l IH]; intros a; cbn [fold_left]; [lra|].
  rewrite IH. rewrite (IH (0 + x)). lra.
Qed.

Lemma sumR_cons x l : sum Rops (x :: l) = x + sum Rops l.
Proof. unfold sum. cbn [fold_left Rops f0 fadd]. rewrite fold_left_Rplus_acc. lra. Qed.

Lemma sumR_nil : sum Rops [] = 0.
Proof. reflexivity. Qed.

Lemma sumR_app l1 l2 : sum Rops (l1 ++ l2) = sum Rops l1 + sum Rops l2.
Proof.
  induction l1 as [|x l1 IH]; cbn [app]; [rewrite sumR_nil; lra|].
  rewrite !sumR_cons, IH. lra.
Qed.

Lemma cpow_pow x n : cpowR x n = x ^ n.
Proof.
  unfold cpowR. induction n as [|n IH]; [reflexivity|].
  destruct n as [|n]; [cbn; lra|].
  change (cpow Rops x (S (S n))) with (x * cpow Rops x (S n)). rewrite IH. reflexivity.
Qed.

Lemma momentR_cons w x q l n : momentR n ((w, x, q) :: l) = w * x ^ n + momentR n l.
Proof. unfold momentR, moment. cbn [map]. rewrite sumR_cons. fold cpowR. rewrite cpow_pow. reflexivity. Qed.

Lemma dmomentR_cons w x q l n : dmomentR n ((w, x, q) :: l) = q * x ^ n + dmomentR n l.
Proof. unfold dmomentR, dmoment. cbn [map]. rewrite sumR_cons. fold cpowR. rewrite cpow_pow. reflexivity. Qed.

(* ---- data moments of an exact model ----------------------------------------------- *)
(* every pixel's datum is weight * (c0 + c1 x + c2 x^2) *)
Definition exact_px (c0 c1 c2 : R) (t : pixelR) : Prop :=
  let '(w, x, q) := t in q = w * (c0 + c1 * x + c2 * x ^ 2).

Lemma dmoment_exact c0 c1 c2 (px : list pixelR) n :
  Forall (exact_px c0 c1 c2) px ->
  dmomentR n px = c0 * momentR n px + c1 * momentR (n + 1) px + c2 * momentR (n + 2) px.
Proof.
  induction 1 as [|[[w x] q] l Hx Hl IH].
  - unfold dmomentR, momentR, dmoment, moment. cbn [map]. rewrite !sumR_nil. lra.
  - rewrite dmomentR_cons, !momentR_cons, IH. unfold exact_px in Hx. rewrite Hx.
    rewrite !pow_add. ring.
Qed.

Definition det1 (px : list pixelR) := momentR 0 px.
Definition det2m (px : list pixelR) := det2 (momentR 0 px) (momentR 1 px) (momentR 2 px).
Definition det3m (px : list pixelR) :=
  det3 (momentR 0 px) (momentR 1 px) (momentR 2 px) (momentR 3 px) (momentR 4 px).

(* the Hankel determinant the code tests, N = 1, 2, 3 *)
Definition hdet (N : nat) (px : list pixelR) : R :=
  match N with 1%nat => det1 px | 2%nat => det2m px | 3%nat => det3m px | _ => 0 end.

Lemma dotR2 a b x y : dot 0 Rplus Rmult [a; b] [x; y] = a * x + b * y.
Proof. unfold dot. cbn. lra. Qed.
Lemma dotR3 a b c x y z : dot 0 Rplus Rmult [a; b; c] [x; y; z] = a * x + b * y + c * z.
Proof. unfold dot. cbn. lra. Qed.

Theorem coeffs_exact_1 c0 (px : list pixelR) :
  Forall (exact_px c0 0 0) px -> hdet 1 px <> 0 -> coeffsR 1 px = Some [c0].
Proof.
  intros Hx Hd. unfold coeffsR, coeffs, convC. cbn [hdet] in Hd. unfold det1 in Hd.
  fold momentR. cbn [Rops feqb f0 f1 fdiv]. rewrite Reqb_false by exact Hd.
  cbn [matvec map seq]. fold dmomentR. rewrite (dmoment_exact c0 0 0) by exact Hx.
  unfold dot. cbn [combine map fold_left fst snd Rops f0 fadd fmul]. cbn [Nat.add].
  do 2 f_equal. field. exact Hd.
Qed.

Theorem coeffs_exact_2 c0 c1 (px : list pixelR) :
  Forall (exact_px c0 c1 0) px -> hdet 2 px <> 0 -> coeffsR 2 px = Some [c0; c1].
Proof.
  intros Hx Hd. unfold coeffsR, coeffs, convC. cbn [hdet] in Hd. unfold det2m in Hd.
  fold momentR. fold inv2R. rewrite inv2_value by exact Hd.
  cbn [matvec map seq mscale Rops f0 fadd fmul]. fold dmomentR.
  rewrite !(dmoment_exact c0 c1 0) by exact Hx. cbn [Nat.add].
  rewrite !dotR2. unfold det2 in *.
  set (p0 := momentR 0 px) in *. set (p1 := momentR 1 px) in *. set (p2 := momentR 2 px) in *.
  do 2 f_equal; [field; exact Hd|]. f_equal. field. exact Hd.
Qed.

Theorem coeffs_exact_3 c0 c1 c2 (px : list pixelR) :
  Forall (exact_px c0 c1 c2) px -> hdet 3 px <> 0 -> coeffsR 3 px = Some [c0; c1; c2].
Proof.
  intros Hx Hd. unfold coeffsR, coeffs, convC. cbn [hdet] in Hd. unfold det3m in Hd.
  fold momentR. fold inv3R. rewrite inv3_value by exact Hd.
  cbn [matvec map seq mscale Rops f0 fadd fmul]. fold dmomentR.
  rewrite !(dmoment_exact c0 c1 c2) by exact Hx. cbn [Nat.add].
  rewrite !dotR3. unfold det3 in *.
  set (p0 := momentR 0 px) in *. set (p1 := momentR 1 px) in *. set (p2 := momentR 2 px) in *.
  set (p3 := momentR 3 px) in *. set (p4 := momentR 4 px) in *.
  do 2 f_equal; [field; exact Hd|]. f_equal; [field; exact Hd|]. f_equal. field. exact Hd.
Qed.
