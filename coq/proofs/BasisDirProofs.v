(* Proofs about model/BasisDir.v and the default-directory helpers. *)
From Coq Require Import List Arith Bool Lia.
From PA Require Import base.Npy model.CacheCommon model.BasisDir.
Import ListNotations.

Lemma starts_app : forall p r, starts p (p ++ r) = true.
Proof. induction p; simpl; intros; auto. rewrite Nat.eqb_refl. simpl. auto. Qed.

(* if neither of two strings is a prefix of the other, the first is not a
   prefix of any extension of the second *)
Lemma prefix_free_ext : forall a b x, prefix_free a b = true -> starts a (b ++ x) = false.
Proof.
  induction a as [|u a IH]; intros b x H.
  - unfold prefix_free in H. simpl in H. discriminate.
  - destruct b as [|v b].
    + unfold prefix_free in H. simpl in H. discriminate.
    + simpl. destruct (u =? v) eqn:E; [|reflexivity]. simpl.
      apply IH. unfold prefix_free in *. simpl in H. rewrite E in H.
      apply Nat.eqb_eq in E. subst. rewrite Nat.eqb_refl in H. simpl in H. exact H.
Qed.

Lemma all_prefix_free_true : all_prefix_free = true.
Proof. vm_compute. reflexivity. Qed.

(* basis_dir_cleanup of one method never touches a file of another method *)
Theorem cleanup_spares_others : forall m m' params,
  In m METHODS -> In m' METHODS -> m <> m' -> cleanup_matches m (file_name m' params) = false.
Proof.
  intros m m' params Hm Hm' Hne. unfold cleanup_matches, file_name.
  assert (Hpf : prefix_free (m ++ BASIS) (m' ++ BASIS) = true).
  { pose proof all_prefix_free_true as H. unfold all_prefix_free in H.
    rewrite forallb_forall in H. specialize (H m Hm). rewrite forallb_forall in H. specialize (H m' Hm').
    apply orb_true_iff in H. destruct H as [H|H]; auto.
    unfold str_eqb in H. destruct (list_eq_dec Nat.eq_dec m m'); [contradiction|discriminate]. }
  rewrite app_assoc. rewrite (prefix_free_ext _ _ _ Hpf). reflexivity.
Qed.

Lemma ends_app : forall suffix s, ends suffix (s ++ suffix) = true.
Proof. intros. unfold ends. rewrite rev_app_distr. apply starts_app. Qed.

(* ... and removes every file of its own method *)
Theorem cleanup_takes_own : forall m params, cleanup_matches m (file_name m params) = true.
Proof.
  intros m params. unfold cleanup_matches, file_name.
  rewrite app_assoc, starts_app.
  replace ((m ++ BASIS) ++ params ++ NPY) with (((m ++ BASIS) ++ params) ++ NPY) by (rewrite <- !app_assoc; reflexivity).
  rewrite ends_app. cbn [andb]. apply Nat.leb_le. rewrite !app_length. lia.
Qed.

(* set_basis_dir / get_basis_dir: what was set is what is used *)
Theorem basis_dir_resolution : forall a,
  get_basis_dir (set_basis_dir a) =
    (set_basis_dir a, match a with BNone => None | BDefault => Some 0 | BPath d => Some d end) /\
  get_basis_dir GUnset = (GPath 0, Some 0).
Proof. intros a. split; [destruct a; reflexivity|reflexivity]. Qed.

(* after any sequence of set_basis_dir calls only the last one counts, and a
   call with basis_dir='' uses it; None disables the disk, an explicit path
   wins over the default *)
Theorem resolve_after_sets : forall (l : list bdarg) a,
  let g := fold_left (fun _ x => set_basis_dir x) (l ++ [a]) GUnset in
  g = set_basis_dir a /\
  snd (resolve g BDefault) = match a with BNone => None | BDefault => Some 0 | BPath d => Some d end /\
  snd (resolve g BNone) = None /\ forall d, snd (resolve g (BPath d)) = Some d.
Proof.
  intros l a. cbv zeta. rewrite fold_left_app. simpl.
  repeat split; destruct a; reflexivity.
Qed.
