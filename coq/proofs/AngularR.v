(* AngularR.v — R instance of the Angular algebra: Legendre series (Bonnet
   recursion, all n), division by a number, and the sign defect of __sub__
   as written. *)
From Coq Require Import Reals List Arith Bool ZArith QArith Lia Lra.
From PA Require Import model.Poly model.Angular proofs.PolyRing proofs.AngularProofs.
Import ListNotations.
Open Scope R_scope.

Notation pevR := (peval R 0 Rplus Rmult).
Notation legR := (leg R 0 1 Rplus Rmult Rminus Rdiv).
Notation leg2R := (leg2 R 0 1 Rplus Rmult Rminus Rdiv).
Notation alegendreR := (alegendre R 0 1 Rplus Rmult Rminus Rdiv).
Notation aleg_fromR := (aleg_from R 0 1 Rplus Rmult Rminus Rdiv).
Notation paddR := (padd R Rplus).
Notation asub_sortedR := (asub_sorted R Rminus).
Notation asub_directR := (asub_direct R Rminus Ropp).
Notation pmulR := (pmul R 0 Rplus Rmult).
Notation ofnR := (ofnat R 0 1 Rplus).

Lemma ofnR_INR : forall n, ofnR n = INR n.
Proof. induction n; [reflexivity|]. rewrite S_INR. cbn [ofnat]. rewrite IHn. ring. Qed.

Lemma eval_map_div : forall k b x, k <> 0 -> pevR (map (fun a => a / k) b) x = pevR b x / k.
Proof. induction b; intros; cbn [map peval]; [field; auto | rewrite IHb by auto; field; auto]. Qed.

Lemma leg2_fst_snd : forall n, snd (leg2R n) = fst (leg2R (S n)).
Proof. intros. cbn [leg2]. destruct (leg2R n). reflexivity. Qed.

Lemma psubp_length : forall (l s : list R), length (psubp R Rminus l s) = length l.
Proof. induction l; destruct s; cbn [psubp length]; auto. Qed.

Lemma leg2_length : forall n, length (fst (leg2R n)) = S n /\ length (snd (leg2R n)) = S (S n).
Proof.
  induction n; [split; reflexivity|].
  cbn [leg2]. destruct (leg2R n) as [p0 p1]. cbn [fst snd] in *. destruct IHn as [L0 L1].
  split; auto. rewrite map_length, psubp_length. cbn [map length]. rewrite map_length. lia.
Qed.

(* Bonnet: (n+2) P_{n+2}(x) = (2n+3) x P_{n+1}(x) - (n+1) P_n(x) *)
Theorem leg_bonnet : forall n x,
  INR (n + 2) * pevR (legR (S (S n))) x =
  INR (2 * n + 3) * x * pevR (legR (S n)) x - INR (n + 1) * pevR (legR n) x.
Proof.
  intros. unfold leg. destruct (leg2_length n) as [L0 L1].
  cbn [leg2]. destruct (leg2R n) as [p0 p1] eqn:E. cbn [fst snd] in *.
  assert (INR (n + 2) <> 0) by (apply not_0_INR; lia).
  rewrite eval_map_div by (rewrite ofnR_INR; auto).
  rewrite (eval_psubp R 0 1 Rplus Rmult Rminus Ropp RTheory)
    by (cbn [map length]; rewrite !map_length; lia).
  rewrite !(eval_map_mul R 0 1 Rplus Rmult Rminus Ropp RTheory).
  cbn [peval]. rewrite !ofnR_INR. field. auto.
Qed.

Lemma leg_0 : forall x, pevR (legR 0) x = 1.
Proof. intros. cbn. ring. Qed.
Lemma leg_1 : forall x, pevR (legR 1) x = x.
Proof. intros. cbn. ring. Qed.

(* Legendre series *)
Fixpoint leg_series (n : nat) (c : list R) (x : R) : R :=
  match c with [] => 0 | a :: c' => a * pevR (legR n) x + leg_series (S n) c' x end.

Theorem eval_alegendre : forall c x, pevR (alegendreR c) x = leg_series 0 c x.
Proof.
  intros. unfold alegendre. generalize 0%nat. induction c; intros; cbn [aleg_from leg_series]; auto.
  rewrite (eval_padd R 0 1 Rplus Rmult Rminus Ropp RTheory).
  rewrite (eval_ascal R 0 1 Rplus Rmult Rminus Ropp RTheory). rewrite IHc. reflexivity.
Qed.

(* the former body of __sub__ (sorted by length; still recognised by the translator as asub_sorted):
   it returned (longer - shorter), and other - self for equal lengths *)
Theorem asub_sorted_refuted : exists a b x, pevR (asub_sortedR a b) x <> pevR a x - pevR b x.
Proof. exists [1], [2], 0. cbn. lra. Qed.

Theorem asub_sorted_partial : forall a b x, (length b < length a)%nat ->
  pevR (asub_sortedR a b) x = pevR a x - pevR b x.
Proof.
  intros. rewrite (eval_asub_sorted R 0 1 Rplus Rmult Rminus Ropp RTheory).
  destruct (Nat.leb_spec (length a) (length b)); [lia | reflexivity].
Qed.

(* exact rational Legendre coefficients for n <= 8 agree with the closed forms *)
Definition leg_table : list (list Q) :=
  [[1]; [0; 1]; [-1 # 2; 0; 3 # 2]; [0; -3 # 2; 0; 5 # 2]; [3 # 8; 0; -15 # 4; 0; 35 # 8];
   [0; 15 # 8; 0; -35 # 4; 0; 63 # 8]; [-5 # 16; 0; 105 # 16; 0; -315 # 16; 0; 231 # 16];
   [0; -35 # 16; 0; 315 # 16; 0; -693 # 16; 0; 429 # 16];
   [35 # 128; 0; -315 # 32; 0; 3465 # 64; 0; -3003 # 32; 0; 6435 # 128]]%Q.
Theorem leg_table_ok :
  forallb (fun n => qlist_eq (legQ n) (nth n leg_table [])) (seq 0 9) = true.
Proof. vm_compute. reflexivity. Qed.
(* P_n(1) = 1, n <= 8 *)
Theorem leg_at_one : forallb (fun n => Qeq_bool (pevalQ (legQ n) 1) 1) (seq 0 9) = true.
Proof. vm_compute. reflexivity. Qed.
