(* TransformPipeProofs.v — lemmas behind props/C05.v *)
From Coq Require Import List Arith Lia Bool ZArith ZifyBool ZifyNat.
From PA Require Import base.Arr base.Px model.Symmetry model.TransformPipe
  proofs.SymmetryPx proofs.SymmetryProofs.
Import ListNotations.

Ltac Zify.zify_post_hook ::= Z.to_euclidean_division_equations.
Set Implicit Arguments.

Section PipeProofs.
  Variable A : Type.
  Variable zero : A.
  Variable add : A -> A -> A.
  Variable divn : A -> nat -> A.
  Variable T : list (list A) -> list (list A).
  Notation img := (list (list A)).
  Notation model := (transform_model zero add divn T).
  Notation spec := (four_quadrants_spec zero add divn T).

  (* the symmetry settings of the property: None, 0, 1, (0,1) (and the other
     spellings of "both") *)
  Definition pipe_axes : list axis := ax_None :: ax_0 :: ax_1 :: both_spellings.

  Variables n m : nat.
  Variable IM : img.
  Hypothesis HIM : wf n m IM.
  Hypothesis Hn : 3 <= n.
  Hypothesis Hm : 1 <= m.

  Let Hn1 : 1 <= n. Proof. lia. Qed.

  Lemma leb_rows : Nat.leb (nrows IM) 2 = false.
  Proof. rewrite (wf_nrows HIM). apply Nat.leb_gt. lia. Qed.

  (* Skipping the quadrants that symmetry makes equal is correct: the result is
     the reassembly of the transforms of the four combined quadrants. *)
  Lemma transform_is_four_quadrants a u :
    In a pipe_axes -> mask_count u <> 0 ->
    model a u Average IM = spec a u Average IM.
  Proof.
    intros Ha Hu. unfold transform_model, four_quadrants_spec.
    rewrite leb_rows. apply Nat.eqb_neq in Hu. rewrite Hu.
    destruct Ha as [<-|[<-|[<-|Ha]]].
    - change (norm_axis ax_None) with ax_None.
      rewrite (get_None zero add divn HIM Hn1 Hm u).
      destruct (rejects ax_None u); reflexivity.
    - change (norm_axis ax_0) with ax_0.
      rewrite (get_0 zero add divn HIM Hn1 Hm u).
      destruct (rejects ax_0 u); reflexivity.
    - change (norm_axis ax_1) with ax_1.
      rewrite (get_1 zero add divn HIM Hn1 Hm u).
      destruct (rejects ax_1 u); reflexivity.
    - assert (E : norm_axis a = a) by (destruct Ha as [<-|[<-|[<-|[]]]]; reflexivity).
      rewrite E. rewrite (get_both zero add divn HIM Hn1 Hm u Ha).
      destruct (rejects a u); [reflexivity|].
      destruct Ha as [<-|[<-|[<-|[]]]]; reflexivity.
  Qed.

  (* symmetry_axis=[] / () is treated as None *)
  Lemma empty_axis_is_none u meth b :
    model {| ax_tuple := b; ax_elems := [] |} u meth IM = model ax_None u meth IM.
  Proof. reflexivity. Qed.

  (* shape: the result has the shape of the (centred) input whenever the
     half-image transform preserves the quadrant shape *)
  Hypothesis T_shape : forall X, wf (ceil2 n) (ceil2 m) X -> wf (ceil2 n) (ceil2 m) (T X).

  Lemma spec_shape a u S :
    In a pipe_axes -> spec a u Average IM = Ok S -> wf n m S.
  Proof.
    intros Ha. unfold four_quadrants_spec.
    assert (W : forall b, wf (ceil2 n) (ceil2 m) (Q0r zero n m IM b) /\ wf (ceil2 n) (ceil2 m) (Q1r zero n m IM b)
                       /\ wf (ceil2 n) (ceil2 m) (Q2r zero n m IM b) /\ wf (ceil2 n) (ceil2 m) (Q3r zero n m IM b)).
    { intros b. split; [apply wf_Q0r; exact HIM|split; [apply wf_Q1r; exact HIM|split; [apply wf_Q2r; exact HIM|apply wf_Q3r; exact HIM]]]. }
    destruct (shape_IM zero add divn HIM Hn1 Hm) as [En Em].
    destruct Ha as [<-|[<-|[<-|Ha]]].
    - change (norm_axis ax_None) with ax_None.
      rewrite (get_None zero add divn HIM Hn1 Hm u).
      destruct (rejects ax_None u); [discriminate|]. rewrite En, Em.
      intros HS; apply Ok_inj in HS; subst S.
      apply (wf_put_plain n m); apply T_shape; apply W.
    - change (norm_axis ax_0) with ax_0. rewrite (get_0 zero add divn HIM Hn1 Hm u).
      destruct (rejects ax_0 u); [discriminate|]. rewrite En, Em.
      intros HS; apply Ok_inj in HS; subst S.
      apply (wf_put_plain n m); apply T_shape;
        first [apply (wf_Q01 zero add divn HIM)|apply (wf_Q23 zero add divn HIM)].
    - change (norm_axis ax_1) with ax_1. rewrite (get_1 zero add divn HIM Hn1 Hm u).
      destruct (rejects ax_1 u); [discriminate|]. rewrite En, Em.
      intros HS; apply Ok_inj in HS; subst S.
      apply (wf_put_plain n m); apply T_shape;
        first [apply (wf_Q03 zero add divn HIM)|apply (wf_Q12 zero add divn HIM)].
    - assert (E : norm_axis a = a) by (destruct Ha as [<-|[<-|[<-|[]]]]; reflexivity).
      rewrite E. rewrite (get_both zero add divn HIM Hn1 Hm u Ha).
      destruct (rejects a u); [discriminate|]. rewrite En, Em.
      intros HS; apply Ok_inj in HS; subst S.
      apply (wf_put_plain n m); apply T_shape; apply (wf_Qall zero add divn HIM).
  Qed.

  Lemma transform_shape a u S :
    In a pipe_axes -> mask_count u <> 0 -> model a u Average IM = Ok S -> wf n m S.
  Proof.
    intros Ha Hu. rewrite (@transform_is_four_quadrants a u Ha Hu). apply spec_shape; exact Ha.
  Qed.
End PipeProofs.

(* a row-wise half-image transform acts on each quadrant row on its own *)
Lemma rowwise_rows (A : Type) (f : list A -> list A) (X : list (list A)) i :
  i < length X -> row (map f X) i = f (row X i).
Proof. apply row_map. Qed.
