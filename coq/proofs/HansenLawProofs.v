(* HansenLawProofs.v — the Hansen-Law recursion (model/HansenLaw.v), over the
   real numbers, for ARBITRARY coefficient tables, any number of states, any
   number of columns:
     * linear in the image row (both hold orders, both directions),
     * the image transform is the row transform applied to each row,
     * forward scales with dr, inverse with 1/dr. *)
From Coq Require Import List Arith Reals Lra Lia.
From PA Require Import model.HansenLaw.
Import ListNotations.
Open Scope R_scope.

Definition Rtwo : R := 2.
Notation coefR := (coef R).
Definition stepR := step R Rplus Rmult.
Definition runR := run R 0 Rplus Rmult.
Definition sumR := sum R 0 Rplus.
Definition hl_coreR := hl_core R 0 Rplus Rmult.
Definition driveR := drive R 0 Rmult Rminus Rdiv Ropp Rtwo.
Definition hl_rowR := hl_row R 0 Rplus Rmult Rminus Rdiv Ropp Rtwo.
Definition hl_imageR := hl_image R 0 Rplus Rmult Rminus Rdiv Ropp Rtwo.

(* pointwise a*l1 + b*l2 *)
Fixpoint comb (a b : R) (l1 l2 : list R) : list R :=
  match l1, l2 with
  | u :: l1', v :: l2' => (a * u + b * v) :: comb a b l1' l2'
  | _, _ => []
  end.

Definition scal (c : R) (l : list R) : list R := map (Rmult c) l.

Section Comb.
Variables a b : R.

Lemma comb_length l1 l2 : length l1 = length l2 -> length (comb a b l1 l2) = length l1.
Proof.
  revert l2; induction l1 as [|u l1 IH]; destruct l2; simpl; intros; try discriminate; auto.
Qed.

Lemma comb_nth l1 l2 k : length l1 = length l2 ->
  nth k (comb a b l1 l2) 0 = a * nth k l1 0 + b * nth k l2 0.
Proof.
  revert l2 k; induction l1 as [|u l1 IH]; destruct l2; simpl; intros k H; try discriminate.
  - destruct k; lra.
  - destruct k; [lra|]. apply IH; lia.
Qed.

Lemma comb_app l1 l2 m1 m2 : length l1 = length l2 ->
  comb a b (l1 ++ m1) (l2 ++ m2) = comb a b l1 l2 ++ comb a b m1 m2.
Proof.
  revert l2; induction l1 as [|u l1 IH]; destruct l2; simpl; intros H; try discriminate; auto.
  f_equal. apply IH; lia.
Qed.

Lemma comb_rev l1 l2 : length l1 = length l2 ->
  comb a b (rev l1) (rev l2) = rev (comb a b l1 l2).
Proof.
  revert l2; induction l1 as [|u l1 IH]; destruct l2; simpl; intros H; try discriminate; auto.
  rewrite comb_app by (rewrite !rev_length; lia). simpl. rewrite IH by lia. reflexivity.
Qed.

Lemma comb_hd l1 l2 : length l1 = length l2 ->
  hd 0 (comb a b l1 l2) = a * hd 0 l1 + b * hd 0 l2.
Proof. destruct l1, l2; simpl; intros; try discriminate; lra. Qed.

Lemma comb_last l1 l2 : length l1 = length l2 ->
  last (comb a b l1 l2) 0 = a * last l1 0 + b * last l2 0.
Proof.
  revert l2; induction l1 as [|u l1 IH]; intros [|v l2] H; simpl in H; try discriminate.
  - simpl; lra.
  - destruct l1 as [|u' l1].
    + destruct l2; simpl in *; try discriminate. lra.
    + destruct l2 as [|v' l2]; simpl in H; try discriminate.
      change (last (comb a b (u' :: l1) (v' :: l2)) 0 = a * last (u' :: l1) 0 + b * last (v' :: l2) 0).
      apply IH. simpl; lia.
Qed.

Lemma comb_repeat0 K : comb a b (repeat 0 K) (repeat 0 K) = repeat 0 K.
Proof. induction K; simpl; auto. rewrite IHK. f_equal. lra. Qed.

Lemma sum_comb l1 l2 : length l1 = length l2 ->
  sumR (comb a b l1 l2) = a * sumR l1 + b * sumR l2.
Proof.
  unfold sumR, sum.
  revert l2; induction l1 as [|u l1 IH]; destruct l2; simpl; intros H; try discriminate.
  - lra.
  - rewrite IH by lia. lra.
Qed.

Lemma step_length ph b0 b1 x1 x2 u1 v1 u2 v2 : length x1 = length x2 ->
  length (stepR ph b0 b1 x1 u1 v1) = length (stepR ph b0 b1 x2 u2 v2).
Proof.
  unfold stepR.
  revert b0 b1 x1 x2; induction ph as [|p ph IH]; intros [|c0 b0] [|c1 b1] [|y1 x1] [|y2 x2] H;
    simpl in *; try discriminate; auto.
Qed.

Lemma step_comb ph b0 b1 x1 x2 u1 v1 u2 v2 : length x1 = length x2 ->
  stepR ph b0 b1 (comb a b x1 x2) (a * u1 + b * u2) (a * v1 + b * v2) =
  comb a b (stepR ph b0 b1 x1 u1 v1) (stepR ph b0 b1 x2 u2 v2).
Proof.
  unfold stepR.
  revert b0 b1 x1 x2; induction ph as [|p ph IH]; intros [|c0 b0] [|c1 b1] [|y1 x1] [|y2 x2] H;
    simpl in *; try discriminate; auto.
  f_equal; [lra|]. apply IH; lia.
Qed.

Lemma run_comb tabs : forall col d1 d2 x1 x2, length d1 = length d2 -> length x1 = length x2 ->
  runR tabs col (comb a b d1 d2) (comb a b x1 x2) =
  comb a b (runR tabs col d1 x1) (runR tabs col d2 x2).
Proof.
  unfold runR.
  induction tabs as [|t ts IH]; intros col d1 d2 x1 x2 Hd Hx; simpl; auto.
  rewrite !comb_nth by assumption.
  fold stepR. rewrite step_comb by assumption.
  rewrite sum_comb by (apply step_length; assumption).
  f_equal. apply IH; [assumption|]. apply step_length; assumption.
Qed.

Lemma run_length tabs : forall col d x, length (runR tabs col d x) = length tabs.
Proof. unfold runR; induction tabs; simpl; intros; auto. Qed.

Lemma core_comb K tabs d1 d2 : length d1 = length d2 ->
  hl_coreR K tabs (comb a b d1 d2) = comb a b (hl_coreR K tabs d1) (hl_coreR K tabs d2).
Proof.
  intros Hd. unfold hl_coreR, hl_core. fold runR.
  rewrite comb_length by assumption. rewrite <- Hd.
  set (r1 := runR tabs (length d1 - 2) d1 (repeat 0 K)).
  set (r2 := runR tabs (length d1 - 2) d2 (repeat 0 K)).
  assert (E : runR tabs (length d1 - 2) (comb a b d1 d2) (repeat 0 K) = comb a b r1 r2).
  { rewrite <- (comb_repeat0 K) at 1. apply run_comb; auto. }
  rewrite E. clear E.
  assert (L : length r1 = length r2) by (unfold r1, r2; rewrite !run_length; reflexivity).
  rewrite <- comb_rev by assumption.
  assert (L' : length (rev r1) = length (rev r2)) by (rewrite !rev_length; assumption).
  simpl. rewrite comb_hd by assumption. f_equal.
  rewrite comb_app by assumption. f_equal.
  simpl. rewrite comb_last by assumption. reflexivity.
Qed.

(* the three driving functions are linear in the image row *)
Lemma drive_forward_comb dr pi l1 l2 : length l1 = length l2 ->
  driveR (Forward) dr pi (comb a b l1 l2) = comb a b (driveR Forward dr pi l1) (driveR Forward dr pi l2).
Proof.
  unfold driveR, drive, drive_forward.
  revert l2; induction l1 as [|u l1 IH]; destruct l2; simpl; intros H; try discriminate; auto.
  f_equal; [unfold Rtwo; lra|]. apply IH; lia.
Qed.

Lemma drive_inverse0_comb dr pi l1 l2 : length l1 = length l2 ->
  driveR Inverse0 dr pi (comb a b l1 l2) = comb a b (driveR Inverse0 dr pi l1) (driveR Inverse0 dr pi l2).
Proof.
  unfold driveR, drive.
  revert l2; induction l1 as [|u l1 IH]; destruct l2 as [|v l2]; simpl; intros H; try discriminate; auto.
  destruct l1 as [|u' l1], l2 as [|v' l2]; simpl in *; try discriminate.
  - f_equal. lra.
  - f_equal; [unfold Rdiv; lra|]. apply (IH (v' :: l2)). simpl; lia.
Qed.

Lemma drive_inverse1_comb dr pi l1 l2 : length l1 = length l2 ->
  driveR Inverse1 dr pi (comb a b l1 l2) = comb a b (driveR Inverse1 dr pi l1) (driveR Inverse1 dr pi l2).
Proof.
  intros H. unfold driveR, drive, drive_inverse1.
  rewrite comb_length by assumption. rewrite <- H.
  set (n := length l1).
  generalize (seq 0 n). intros s.
  induction s as [|j s IH]; simpl; auto.
  rewrite IH. f_equal.
  rewrite !comb_nth by assumption.
  destruct (Nat.eqb j 0); [unfold Rdiv; lra|].
  destruct (Nat.eqb j (n - 1)); unfold Rdiv; lra.
Qed.

Lemma drive_length m dr pi l : length (driveR m dr pi l) = length l.
Proof.
  destruct m; unfold driveR, drive.
  - unfold drive_forward. apply map_length.
  - induction l as [|u l IH]; simpl; auto. destruct l; simpl in *; auto.
  - unfold drive_inverse1. rewrite map_length, seq_length. reflexivity.
Qed.

Lemma drive_comb m dr pi l1 l2 : length l1 = length l2 ->
  driveR m dr pi (comb a b l1 l2) = comb a b (driveR m dr pi l1) (driveR m dr pi l2).
Proof.
  destruct m; [apply drive_forward_comb | apply drive_inverse0_comb | apply drive_inverse1_comb].
Qed.

(* C04 for hansenlaw: a*X + b*Y maps to a*T(X) + b*T(Y), any real a, b *)
Theorem hansenlaw_row_linear m dr pi K tabs l1 l2 : length l1 = length l2 ->
  hl_rowR m dr pi K tabs (comb a b l1 l2) =
  comb a b (hl_rowR m dr pi K tabs l1) (hl_rowR m dr pi K tabs l2).
Proof.
  intros H. unfold hl_rowR, hl_row. fold driveR. fold hl_coreR.
  rewrite drive_comb by assumption.
  apply core_comb. rewrite !drive_length. assumption.
Qed.

End Comb.

(* images: lists of rows *)
Definition icomb (a b : R) (X Y : list (list R)) : list (list R) :=
  map (fun p => comb a b (fst p) (snd p)) (combine X Y).

Definition wfR (h w : nat) (X : list (list R)) := length X = h /\ Forall (fun r => length r = w) X.

Theorem hansenlaw_linear m dr pi K tabs a b h w X Y : wfR h w X -> wfR h w Y ->
  hl_imageR m dr pi K tabs (icomb a b X Y) =
  icomb a b (hl_imageR m dr pi K tabs X) (hl_imageR m dr pi K tabs Y).
Proof.
  intros [HX FX] [HY FY]. unfold hl_imageR, hl_image, icomb. subst h.
  revert FX Y HY FY. induction X as [|r X IH]; intros FX [|s Y] HY FY; simpl in *; auto; try discriminate.
  inversion FX as [|? ? Hr FX']; inversion FY as [|? ? Hs FY']; subst.
  f_equal.
  - fold hl_rowR. apply hansenlaw_row_linear. congruence.
  - apply IH; auto.
Qed.

(* each output row depends on the same input row only: the image transform
   is the row transform mapped over the rows; in particular deleting,
   permuting or changing other rows does not change a row's output *)
Theorem hansenlaw_rowwise m dr pi K tabs X i :
  nth i (hl_imageR m dr pi K tabs X) [] =
  if lt_dec i (length X) then hl_rowR m dr pi K tabs (nth i X []) else [].
Proof.
  unfold hl_imageR, hl_image. fold hl_rowR.
  destruct (lt_dec i (length X)).
  - rewrite (nth_indep _ [] (hl_rowR m dr pi K tabs [])) by (rewrite map_length; assumption).
    apply map_nth.
  - apply nth_overflow. rewrite map_length. lia.
Qed.

Theorem hansenlaw_row_of_any_image m dr pi K tabs X Y i j :
  (i < length X)%nat -> (j < length Y)%nat -> nth i X [] = nth j Y [] ->
  nth i (hl_imageR m dr pi K tabs X) [] = nth j (hl_imageR m dr pi K tabs Y) [].
Proof.
  intros Hi Hj E. rewrite !hansenlaw_rowwise.
  destruct (lt_dec i (length X)), (lt_dec j (length Y)); try lia. congruence.
Qed.

(* ---- homogeneity and dr ------------------------------------------------- *)
Lemma comb_scal c l : comb c 0 l l = scal c l.
Proof. induction l; simpl; auto. rewrite IHl. f_equal. lra. Qed.

Lemma core_scal c K tabs d : hl_coreR K tabs (scal c d) = scal c (hl_coreR K tabs d).
Proof. rewrite <- !comb_scal. apply core_comb. reflexivity. Qed.

Lemma drive_forward_dr dr pi l : driveR Forward dr pi l = scal dr (driveR Forward 1 pi l).
Proof.
  unfold driveR, drive, drive_forward, scal. rewrite map_map. apply map_ext. intros; unfold Rtwo; lra.
Qed.

Lemma drive_inverse0_dr dr pi l : dr <> 0 -> driveR Inverse0 dr pi l = scal (/ dr) (driveR Inverse0 1 pi l).
Proof.
  intros Hd. unfold driveR, drive, scal.
  induction l as [|u l IH]; simpl; auto.
  destruct l as [|v l]; simpl in *.
  - f_equal. lra.
  - f_equal; [unfold Rdiv; field; assumption|]. apply IH.
Qed.

Lemma drive_inverse1_dr dr pi l : dr <> 0 -> driveR Inverse1 dr pi l = scal (/ dr) (driveR Inverse1 1 pi l).
Proof.
  intros Hd. unfold driveR, drive, drive_inverse1, scal. rewrite map_map. apply map_ext.
  intros j. destruct (Nat.eqb j 0); [unfold Rdiv; field; assumption|].
  destruct (Nat.eqb j (length l - 1)); unfold Rdiv, Rtwo; field; assumption.
Qed.

(* forward transform at pixel size dr = dr * (transform at pixel size 1) *)
Theorem hansenlaw_dr_forward dr pi K tabs l :
  hl_rowR Forward dr pi K tabs l = scal dr (hl_rowR Forward 1 pi K tabs l).
Proof.
  unfold hl_rowR, hl_row. fold driveR. fold hl_coreR.
  rewrite drive_forward_dr. apply core_scal.
Qed.

(* inverse transform at pixel size dr = (transform at pixel size 1) / dr *)
Theorem hansenlaw_dr_inverse dr pi K tabs l : dr <> 0 ->
  hl_rowR Inverse0 dr pi K tabs l = scal (/ dr) (hl_rowR Inverse0 1 pi K tabs l) /\
  hl_rowR Inverse1 dr pi K tabs l = scal (/ dr) (hl_rowR Inverse1 1 pi K tabs l).
Proof.
  intros Hd. unfold hl_rowR, hl_row. fold driveR. fold hl_coreR.
  rewrite drive_inverse0_dr, drive_inverse1_dr by assumption. split; apply core_scal.
Qed.

Example hansenlaw_hypotheses_satisfiable :
  wfR 2 3 [[1; -2; 3]; [0; 5; -1]] /\ length [1; -2; 3] = length [0; 5; -1].
Proof. split; [split; [reflexivity|repeat constructor]|reflexivity]. Qed.
