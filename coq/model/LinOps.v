(* LinOps.v — specification-level models for property C04 / C17.

   * A half-image transform of the matrix class is  X |-> X *m A  with a
     data-independent A (see proofs/MxAlgebra.v: is_rowwise; the matrices are
     the generated expressions of coq/gen/MatrixExpr.v).
   * The non-negativity solvers (abel/daun.py:117-127 `nnls(M.T, data[i])[0]`,
     abel/rbasex.py:191-194 `nnls(A, p)[0]`) are modelled by the SPECIFICATION
     of scipy.optimize.nnls:  nnls(A, b) = argmin_{x >= 0} || A x - b ||_2 .
     1-D arrays are row vectors, so  A x  is  x *m A^T.
   No proofs here. *)
From mathcomp Require Import all_ssreflect all_algebra.
Set Implicit Arguments.
Unset Strict Implicit.
Unset Printing Implicit Defensive.
Import GRing.Theory Num.Theory.
Local Open Scope ring_scope.

Section Spec.
Variable R : realFieldType.

Definition normsq n (v : 'rV[R]_n) : R := \sum_j v 0 j ^+ 2.

Definition nonneg n (x : 'rV[R]_n) : Prop := forall j, 0 <= x 0 j.

(* squared residual  || A x - b ||^2 *)
Definition resid m n (A : 'M[R]_(m, n)) (b : 'rV[R]_m) (x : 'rV[R]_n) : R :=
  normsq (x *m A^T - b).

(* x is a solution of the non-negative least-squares problem (A, b) *)
Definition is_nnls m n (A : 'M[R]_(m, n)) (b : 'rV[R]_m) (x : 'rV[R]_n) : Prop :=
  nonneg x /\ forall y, nonneg y -> resid A b x <= resid A b y.

(* x is an unconstrained least-squares solution *)
Definition is_lsq m n (A : 'M[R]_(m, n)) (b : 'rV[R]_m) (x : 'rV[R]_n) : Prop :=
  forall y, resid A b x <= resid A b y.

(* what is assumed of scipy.optimize.nnls *)
Definition nnls_spec m n (solver : 'M[R]_(m, n) -> 'rV[R]_m -> 'rV[R]_n) : Prop :=
  forall A b, is_nnls A b (solver A b).

(* A has full column rank: x |-> A x is injective *)
Definition full_rank m n (A : 'M[R]_(m, n)) : Prop :=
  forall x y : 'rV[R]_n, x *m A^T = y *m A^T -> x = y.

(* a transform applied row by row (the shape of the daun 'nonneg' loop) *)
Definition rowwise_map h n m (f : 'rV[R]_n -> 'rV[R]_m) (X : 'M[R]_(h, n)) : 'M[R]_(h, m) :=
  \matrix_(i < h) f (row i X).

End Spec.
