(* AbelPairs — ground truth ("oracles") for the accuracy sweeps of C01/C02.

   No proofs here.  The Abel (line-of-sight) transform is defined in its
   proper-integral form for a source supported in [0, Rm] (DESIGN §2.2): the
   projection at lateral distance x is twice the integral of the source along
   the half chord y in [0, sqrt(Rm^2 - x^2)].  Equivalence with the textbook
   singular form (substitution r = sqrt(x^2+y^2)) is a definitional choice,
   not proved.

   The source families are those sampled by tools/oracle/pairs.py:
     bump  R0 p r   = (1 - r^2/R0^2)^p          (compact, p >= 2 in the sweeps)
     gauss s r      = exp(-r^2/s^2)             (PyAbel's GaussianAnalytical
                                                 uses exp(-r^2/sigma^2) with the
                                                 same convention: no factor 2)
     ring  r0 w k   = exp(-(r-r0)^2/w^2) * cos(theta)^k  in the (x, z) plane,
                      theta measured from the symmetry axis z.
   This file is kept self-contained (its own Abel) on purpose. *)
From Coq Require Import Reals.
From Coquelicot Require Import Coquelicot.
Open Scope R_scope.

Definition Abel (f : R -> R) (Rm x : R) : R :=
  2 * RInt (fun y => f (sqrt (x*x + y*y))) 0 (sqrt (Rm*Rm - x*x)).

Definition bump (R0 : R) (p : nat) (r : R) : R := (1 - r^2 / R0^2) ^ p.

Definition gauss (s r : R) : R := exp (- (r^2) / s^2).

(* wallis p = int_0^1 (1-t^2)^p dt = (2p)!!/(2p+1)!!;  c_p = 2 * wallis p *)
Fixpoint wallis (p : nat) : R :=
  match p with
  | O => 1
  | S q => (2 * INR (S q)) / (2 * INR (S q) + 1) * wallis q
  end.

(* closed-form projections used by the sweeps *)
Definition bump_proj (R0 : R) (p : nat) (x : R) : R :=
  2 * wallis p * R0 * (1 - x^2 / R0^2) ^ p * sqrt (1 - x^2 / R0^2).

Definition gauss_proj (s x : R) : R := s * sqrt PI * exp (- x^2 / s^2).

(* anisotropic source in 3-D, cylindrically symmetric about z; rho is the
   distance from the axis; and its line-of-sight projection onto the (x, z)
   detector plane, integrated over the half chord inside the sphere Rm. *)
Definition ring3 (r0 w : R) (k : nat) (rho z : R) : R :=
  let r := sqrt (rho*rho + z*z) in
  exp (- (r - r0)^2 / w^2) * (z / r) ^ k.

Definition Abel2 (F : R -> R -> R) (Rm x z : R) : R :=
  2 * RInt (fun y => F (sqrt (x*x + y*y)) z) 0 (sqrt (Rm*Rm - x*x - z*z)).
