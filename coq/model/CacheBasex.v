(* CacheBasex.v — state machine of the caches of abel/basex.py: globals
   _bs_prm/_bs (basis [n, sigma]), _trf_prm/_trf, _tri_prm/_tri (forward /
   inverse matrices keyed by [reg, correction, dr]); functions get_bs_cached,
   cache_cleanup, basis_dir_cleanup.

   Symbolic content: a basis (M, Mc) is described by sigma (an index into the
   harness's list of sigma values; the code compares and formats the float
   itself, which is injective), the size it was generated for, its present
   row count n (the column count nbf = round(n / sigma) follows), and a junk
   flag for the content of a valid .npy of a too small shape.  Entries
   M[i, k], Mc[i, k] depend on (sigma, i, k) only (_bs_basex), so cropping a
   larger basis and extending a smaller one both give the basis of the
   requested size: den_x ignores x_gen.

   Order of assignments: _bs_prm/_bs are assigned only after a successful
   load-or-generate-and-save, so a raising load or save leaves the memory
   cache untouched; since 7ce4ac5 a loaded array whose shape is not what the
   file name promises raises ValueError inside the try block (regenerated).
   No proofs here. *)
From Coq Require Import List Arith Bool.
From PA Require Import base.Npy model.CacheCommon.
Import ListNotations.

Record xcont := { x_sig : nat; x_gen : nat; x_n : nat; x_junk : bool }.

Definition ideal (n sig : nat) : xcont :=
  {| x_sig := sig; x_gen := n; x_n := n; x_junk := false |}.

(* M[:n, :nbf] *)
Definition crop (n : nat) (x : xcont) : xcont :=
  if n <? x_n x then {| x_sig := x_sig x; x_gen := x_gen x; x_n := n; x_junk := x_junk x |} else x.

(* transform matrix A: _get_A(M, Mc, reg, direction), times the correction
   profile, scaled by dr *)
Record acont := { a_x : xcont; a_reg : nat; a_corr : bool; a_dr : nat; a_fwd : bool }.

Definition fkey := (nat * nat)%type.     (* basex_basis_<n>_<sigma>.npy *)
Definition fkey_eqb (a b : fkey) : bool := (fst a =? fst b) && (snd a =? snd b).

Definition prm3 := (nat * bool * nat)%type.   (* [reg, correction, dr] *)
Definition prm3_eqb (a b : prm3) : bool :=
  (fst (fst a) =? fst (fst b)) && eqb (snd (fst a)) (snd (fst b)) && (snd a =? snd b).

Record st := {
  bs : option xcont;
  bs_prm : option (nat * nat);
  trf_prm : option prm3; trf : option acont;
  tri_prm : option prm3; tri : option acont;
  gdir : bdglobal;
  dk : disk fkey xcont }.

Definition init : st :=
  {| bs := None; bs_prm := None; trf_prm := None; trf := None; tri_prm := None; tri := None;
     gdir := GUnset; dk := [] |}.

Inductive csel := CAll | CFwd | CInv.

Inductive op :=
  | Call (n sig reg : nat) (corr : bool) (dr : nat) (fwd : bool) (bd : bdarg)
  | Cleanup (sel : csel)
  | DirCleanup (bd : bdarg)
  | SetDir (bd : bdarg)
  | Seed (d : nat) (k : fkey) (c : fstate xcont)
  | Remove (d : nat) (k : fkey).

(* smallest sufficient file with this sigma *)
Fixpoint best_file (n sig : nat) (l : list (fkey * fstate xcont)) (acc : option (fkey * fstate xcont))
  : option (fkey * fstate xcont) :=
  match l with
  | [] => acc
  | (k, c) :: r =>
      let ok := (snd k =? sig) && (n <=? fst k) &&
                match acc with Some (k', _) => fst k <? fst k' | None => true end in
      best_file n sig r (if ok then Some (k, c) else acc)
  end.

Definition pick (n sig di : nat) (d : disk fkey xcont) : option (fkey * fstate xcont) :=
  match find_file fkey_eqb di (n, sig) d with
  | Some c => Some ((n, sig), c)                     (* "have exactly needed" *)
  | None => best_file n sig (in_dir di d) None
  end.

(* the largest file with this sigma ("to extend if not sufficient") *)
Fixpoint largest_file (sig : nat) (l : list (fkey * fstate xcont)) (acc : option (fkey * fstate xcont))
  : option (fkey * fstate xcont) :=
  match l with
  | [] => acc
  | (k, c) :: r =>
      let ok := (snd k =? sig) && match acc with Some (k', _) => fst k' <? fst k | None => 0 <? fst k end in
      largest_file sig r (if ok then Some (k, c) else acc)
  end.

(* what `oldM, oldMc = np.load(full_path(largest_file))` inside the bare
   try/except yields: nothing when the exact file exists (largest_file is then
   unbound: NameError swallowed), when no file is there, or when loading fails *)
Definition old_basis (n sig di : nat) (d : disk fkey xcont) : option (fstate xcont) :=
  match find_file fkey_eqb di (n, sig) d with
  | Some _ => None
  | None => match largest_file sig (in_dir di d) None with
            | Some (_, c) => Some c
            | None => None
            end
  end.

Definition set_bs (s : st) (g : bdglobal) (x : xcont) (n sig : nat) (d : disk fkey xcont) : st :=
  {| bs := Some x; bs_prm := Some (n, sig); trf_prm := None; trf := trf s;
     tri_prm := None; tri := tri s; gdir := g; dk := d |}.

Definition with_gdir (s : st) (g : bdglobal) : st :=
  {| bs := bs s; bs_prm := bs_prm s; trf_prm := trf_prm s; trf := trf s;
     tri_prm := tri_prm s; tri := tri s; gdir := g; dk := dk s |}.
Definition with_dk (s : st) (d : disk fkey xcont) : st :=
  {| bs := bs s; bs_prm := bs_prm s; trf_prm := trf_prm s; trf := trf s;
     tri_prm := tri_prm s; tri := tri s; gdir := gdir s; dk := d |}.

Definition bs_hit (s : st) (n sig : nat) : bool :=
  match bs_prm s with Some (pn, ps) => (pn =? n) && (ps =? sig) | None => false end.

Definition ensure_bs (s : st) (n sig : nat) (bd : bdarg) : st * option exc :=
  if bs_hit s n sig then (s, None)
  else
    let (g, dir) := resolve (gdir s) bd in
    let s1 := with_gdir s g in
    match dir with
    | None => (set_bs s1 g (ideal n sig) n sig (dk s), None)
    | Some di =>
        (* generate, possibly extending the largest file found (_bs_basex(n, sigma,
           oldM): same content), then save under the exact name *)
        let generate :=
          if dir_writable di
          then (set_bs s1 g (ideal n sig) n sig (put_file fkey_eqb di (n, sig) (FGood (ideal n sig)) (dk s)), None)
          else (s1, Some EOther) in
        (* (the file to extend is used only if it has the shape its name promises
           and is not larger than n — fix 6203711 — so the content is the same) *)
        let regenerate := generate in
        match pick n sig di (dk s) with
        | None => regenerate
        | Some (_, FBad PValue) => regenerate            (* except ValueError *)
        | Some (_, FBad e) => (s1, Some (load_exc e))
        | Some (_, FShape) => regenerate                 (* shape check raises ValueError inside the try *)
        | Some (_, FGood x) => (set_bs s1 g (crop n x) n sig (dk s), None)
        end
    end.

Definition step_call (s : st) (n sig reg : nat) (corr : bool) (dr : nat) (fwd : bool) (bd : bdarg)
  : st * res acont :=
  match ensure_bs s n sig bd with
  | (s1, Some e) => (s1, Raise e)
  | (s1, None) =>
      match bs s1 with
      | None => (s1, Raise EOther)
      | Some x =>
          let p := (reg, corr, dr) in
          let fin (s' : st) (a : acont) :=
            (* rawdata.dot(A) with a too small A raises ValueError *)
            if x_n (a_x a) <? n then (s', Raise EValue) else (s', Ret a) in
          let cached := if fwd then match trf_prm s1, trf s1 with
                                    | Some q, Some a => if prm3_eqb q p then Some a else None
                                    | _, _ => None end
                        else match tri_prm s1, tri s1 with
                             | Some q, Some a => if prm3_eqb q p then Some a else None
                             | _, _ => None end in
          match cached with
          | Some a => fin s1 a
          | None =>
              let a := {| a_x := x; a_reg := reg; a_corr := corr; a_dr := dr; a_fwd := fwd |} in
              let s2 := if fwd
                        then {| bs := bs s1; bs_prm := bs_prm s1; trf_prm := Some p; trf := Some a;
                                tri_prm := tri_prm s1; tri := tri s1; gdir := gdir s1; dk := dk s1 |}
                        else {| bs := bs s1; bs_prm := bs_prm s1; trf_prm := trf_prm s1; trf := trf s1;
                                tri_prm := Some p; tri := Some a; gdir := gdir s1; dk := dk s1 |} in
              fin s2 a
          end
      end
  end.

Definition step (s : st) (o : op) : st * res acont :=
  match o with
  | Call n sig reg corr dr fwd bd => step_call s n sig reg corr dr fwd bd
  | Cleanup sel =>
      let all := match sel with CAll => true | _ => false end in
      let f := match sel with CAll | CFwd => true | _ => false end in
      let i := match sel with CAll | CInv => true | _ => false end in
      ({| bs := if all then None else bs s; bs_prm := if all then None else bs_prm s;
          trf_prm := if f then None else trf_prm s; trf := if f then None else trf s;
          tri_prm := if i then None else tri_prm s; tri := if i then None else tri s;
          gdir := gdir s; dk := dk s |}, Raise EOther)
  | DirCleanup bd =>
      let (g, dir) := resolve (gdir s) bd in
      (match dir with
       | Some di => with_dk (with_gdir s g) (filter (fun e => negb (fst (fst e) =? di)) (dk s))
       | None => with_gdir s g
       end, Raise EOther)
  | SetDir bd => (with_gdir s (set_basis_dir bd), Raise EOther)
  | Seed d k c => (with_dk s (put_file fkey_eqb d k c (dk s)), Raise EOther)
  | Remove d k => (with_dk s (remove_file fkey_eqb d k (dk s)), Raise EOther)
  end.

Fixpoint run (s : st) (ops : list op) : st :=
  match ops with [] => s | o :: r => run (fst (step s o)) r end.

(* ---- same numbers? ------------------------------------------------------- *)
Definition x_eqv (a b : xcont) : bool :=
  (x_sig a =? x_sig b) && (x_n a =? x_n b) && negb (x_junk a) && negb (x_junk b).

Definition a_eqv (a b : acont) : bool :=
  x_eqv (a_x a) (a_x b) && (a_reg a =? a_reg b) && eqb (a_corr a) (a_corr b) &&
  (a_dr a =? a_dr b) && eqb (a_fwd a) (a_fwd b).

Definition out_eqv (a b : res acont) : bool :=
  match a, b with
  | Ret x, Ret y => a_eqv x y
  | Raise e1, Raise e2 => exc_code e1 =? exc_code e2
  | _, _ => false
  end.

Definition fresh (o : op) : res acont :=
  match o with
  | Call n sig reg corr dr fwd bd =>
      snd (step_call init n sig reg corr dr fwd
             (match bd with BPath d => if dir_writable d then BPath 1 else bd | _ => bd end))
  | _ => Raise EOther
  end.

(* ---- observation ----------------------------------------------------------- *)
Definition prm3_code (p : option prm3) : list nat :=
  match p with None => [] | Some (r, c, d) => [r; if c then 1 else 0; d] end.

Fixpoint insert_key (k : nat * nat * nat) (l : list (nat * nat * nat)) :=
  match l with
  | [] => [k]
  | x :: r =>
      let '(a, b, c) := k in let '(a', b', c') := x in
      if (a <? a') || ((a =? a') && ((b <? b') || ((b =? b') && (c <=? c'))))
      then k :: l else x :: insert_key k r
  end.
Definition listing (s : st) : list (nat * nat * nat) :=
  fold_right insert_key [] (map (fun e => (fst (fst e), fst (snd (fst e)), snd (snd (fst e)))) (dk s)).

Record obs := {
  o_code : nat; o_agree : bool; o_fresh_code : nat;
  o_bs_prm : list nat; o_bs_rows : list nat;
  o_trf_prm : list nat; o_tri_prm : list nat;
  o_gdir : nat; o_listing : list (nat * nat * nat) }.

Definition is_call (o : op) : bool := match o with Call _ _ _ _ _ _ _ => true | _ => false end.

Definition observe (o : op) (s' : st) (r : res acont) : obs :=
  {| o_code := if is_call o then res_code r else 0;
     o_agree := if is_call o then out_eqv r (fresh o) else true;
     o_fresh_code := if is_call o then res_code (fresh o) else 0;
     o_bs_prm := match bs_prm s' with Some (a, b) => [a; b] | None => [] end;
     o_bs_rows := match bs s' with Some x => [x_n x] | None => [] end;
     o_trf_prm := prm3_code (trf_prm s'); o_tri_prm := prm3_code (tri_prm s');
     o_gdir := bdglobal_code (gdir s'); o_listing := listing s' |}.

Definition list_eqb (a b : list nat) : bool := if list_eq_dec Nat.eq_dec a b then true else false.
Definition listing_eqb (a b : list (nat * nat * nat)) : bool :=
  list_eqb (flat_map (fun '(x, y, z) => [x; y; z]) a) (flat_map (fun '(x, y, z) => [x; y; z]) b).

Definition obs_eqb (a b : obs) : bool :=
  (o_code a =? o_code b) && eqb (o_agree a) (o_agree b) && (o_fresh_code a =? o_fresh_code b) &&
  list_eqb (o_bs_prm a) (o_bs_prm b) && list_eqb (o_bs_rows a) (o_bs_rows b) &&
  list_eqb (o_trf_prm a) (o_trf_prm b) && list_eqb (o_tri_prm a) (o_tri_prm b) &&
  (o_gdir a =? o_gdir b) && listing_eqb (o_listing a) (o_listing b).

Fixpoint check_hist (s : st) (h : list (op * obs)) : list bool :=
  match h with
  | [] => []
  | (o, ob) :: r => let (s', res) := step s o in obs_eqb (observe o s' res) ob :: check_hist s' r
  end.

Fixpoint trace_hist (s : st) (h : list op) : list obs :=
  match h with
  | [] => []
  | o :: r => let (s', res) := step s o in observe o s' res :: trace_hist s' r
  end.

(* ---- hazards ----------------------------------------------------------------- *)
Definition xcont_eqb (a b : xcont) : bool :=
  (x_sig a =? x_sig b) && (x_gen a =? x_gen b) && (x_n a =? x_n b) && eqb (x_junk a) (x_junk b).

Definition uses_bad_dir (s : st) (bd : bdarg) : bool :=
  match snd (resolve (gdir s) bd) with Some di => negb (dir_writable di) | None => false end.

(* assumptions about the environment, not defects *)
Definition hazard (s : st) (o : op) : bool :=
  match o with
  | Call _ _ _ _ _ _ bd => uses_bad_dir s bd
  | Seed d k c =>
      match c with
      | FGood x => negb (xcont_eqb x (ideal (fst k) (snd k)))
      | _ => false
      end
  | _ => false
  end.

Fixpoint no_hazard (s : st) (ops : list op) : bool :=
  match ops with [] => true | o :: r => negb (hazard s o) && no_hazard (fst (step s o)) r end.

Definition damage (o : op) : bool := match o with Seed _ _ (FBad _) => true | _ => false end.
Fixpoint no_damage (ops : list op) : bool :=
  match ops with [] => true | o :: r => negb (damage o) && no_damage r end.

Fixpoint all_agree (s : st) (ops : list op) : bool :=
  match ops with
  | [] => true
  | o :: r => let (s', res) := step s o in
              (if is_call o then out_eqv res (fresh o) else true) && all_agree s' r
  end.

Fixpoint all_safe (s : st) (ops : list op) : bool :=
  match ops with
  | [] => true
  | o :: r => let (s', res) := step s o in
              (if is_call o then out_eqv res (fresh o) || (0 <? res_code res) else true) && all_safe s' r
  end.

Definition last_result (ops : list op) (c : op) : res acont := snd (step (run init ops) c).
