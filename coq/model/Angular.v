(* Angular.v — model of abel/tools/polynomial.py class Angular (lines 530-687):
   coefficient lists in powers of cos(theta).  Generic carrier (Section), Q
   instance for execution (exact comparison with Angular(...).c), R instance
   for the theorems (proofs/AngularProofs.v).  No proofs here. *)
From Coq Require Import List Arith Bool ZArith QArith.
From PA Require Import model.Poly.
Import ListNotations.

Section Carrier.
Variable A : Type.
Variables (zero one : A) (add mul sub div : A -> A -> A) (opp : A -> A).

Notation ofn := (ofnat A zero one add).

(* __add__ (636-643): copy of the longer array, shorter one added to its head *)
Fixpoint padd (a b : list A) : list A :=
  match a, b with
  | [], _ => b
  | _, [] => a
  | x :: a', y :: b' => add x y :: padd a' b'
  end.

(* c = l.copy(); c[:len(s)] -= s   (len s <= len l) *)
Fixpoint psubp (l s : list A) : list A :=
  match l, s with
  | [], _ => []
  | _, [] => l
  | x :: l', y :: s' => sub x y :: psubp l' s'
  end.

(* __sub__ as written (645-652): a, b = sorted([self.c, other.c], key=len)
   (stable: a is self when the lengths are equal); c = b.copy(); c[:len(a)] -= a *)
Definition asub_sorted (self other : list A) : list A :=
  if length self <=? length other then psubp other self else psubp self other.

(* self - other, coefficientwise with zero padding (what __sub__ should be;
   selected by tools/translate/angular_sub.py when the source has this form) *)
Fixpoint asub_direct (a b : list A) : list A :=
  match a, b with
  | [], _ => map opp b
  | _, [] => a
  | x :: a', y :: b' => sub x y :: asub_direct a' b'
  end.

(* __mul__ by a number (664-665), __truediv__ (680-684) *)
Definition ascal (k : A) (a : list A) : list A := map (mul k) a.
Definition adivn (a : list A) (k : A) : list A := map (fun x => div x k) a.

(* __mul__ by another Angular: np.convolve (662-663) *)
Fixpoint pmul (a b : list A) : list A :=
  match a with
  | [] => []
  | x :: a' => padd (map (mul x) b) (match a' with [] => [] | _ => zero :: pmul a' b end)
  end.

(* outer product with radial coefficients (675): rows = r powers *)
Definition aouter (rad ang : list A) : list (list A) := map (fun a => map (mul a) ang) rad.

(* cos(n) (575-581) *)
Definition acos (n : nat) : list A := repeat zero n ++ [one].

(* a_0, 0, a_1, 0, ..., a_h : c[m::2] = ... on a zero array *)
Fixpoint interleave0 (l : list A) : list A :=
  match l with
  | [] => []
  | [a] => [a]
  | a :: l' => a :: zero :: interleave0 l'
  end.

(* invpascal(1 + h, 'lower', False)[-1, ::-1][j] = (-1)^j C(h, j) *)
Definition sgn (j : nat) : A := if Nat.even j then one else opp one.
Definition invpascal_row (h : nat) : list A :=
  map (fun j => mul (sgn j) (ofn (binom h j))) (seq 0 (S h)).

(* cossin(m, n), n even (592-604) *)
Definition acossin (m n : nat) : list A := repeat zero m ++ interleave0 (invpascal_row (n / 2)).

(* Legendre polynomial coefficients (ascending) by Bonnet's recursion: stands
   for scipy.special.legendre(n).c[::-1] restricted to the powers of the parity
   of n (line 627) *)
Fixpoint leg2 (n : nat) : list A * list A :=    (* (P_n, P_{n+1}) *)
  match n with
  | O => ([one], [zero; one])
  | S n' => let '(p0, p1) := leg2 n' in
            (p1, map (fun x => div x (ofn (n' + 2)))
                     (psubp (map (mul (ofn (2 * n' + 3))) (zero :: p1))
                            (map (mul (ofn (n' + 1))) p0)))
  end.
Definition leg (n : nat) : list A := fst (leg2 n).

(* legendre(c) (607-630): C = zeros_like(c); C += a_n * P_n *)
Fixpoint aleg_from (n : nat) (c : list A) : list A :=
  match c with
  | [] => []
  | a :: c' => padd (ascal a (leg n)) (aleg_from (S n) c')
  end.
Definition alegendre (c : list A) : list A := aleg_from 0 c.

End Carrier.

(* ---- Q instance ---- *)
Definition paddQ := padd Q Qadd'.
Definition asub_sortedQ := asub_sorted Q (fun a b => Qred (a - b)).
Definition asub_directQ := asub_direct Q (fun a b => Qred (a - b)) Qopp.
Definition ascalQ := ascal Q Qmul'.
Definition adivnQ := adivn Q Qdiv'.
Definition pmulQ := pmul Q 0%Q Qadd' Qmul'.
Definition aouterQ := aouter Q Qmul'.
Definition acosQ := acos Q 0%Q 1%Q.
Definition acossinQ := acossin Q 0%Q 1%Q Qadd' Qmul' Qopp.
Definition legQ := leg Q 0%Q 1%Q Qadd' Qmul' (fun a b => Qred (a - b)) Qdiv'.
Definition alegendreQ := alegendre Q 0%Q 1%Q Qadd' Qmul' (fun a b => Qred (a - b)) Qdiv'.

(* exact comparison of coefficient lists (same length, equal rationals) *)
Fixpoint qlist_eq (a b : list Q) : bool :=
  match a, b with
  | [], [] => true
  | x :: a', y :: b' => Qeq_bool x y && qlist_eq a' b'
  | _, _ => false
  end.
Fixpoint qlist_close (tol : Q) (a b : list Q) : bool :=
  match a, b with
  | [], [] => true
  | x :: a', y :: b' => qwithin tol x y && qlist_close tol a' b'
  | _, _ => false
  end.
