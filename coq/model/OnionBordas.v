(* OnionBordas.v — executable model of abel/onion_bordas.py
   onion_bordas_transform (the peeling loop, lines 129-176, shift_grid=False
   path), polymorphic in the carrier (R for theorems, Q for the
   correspondence run).

   The tables val1 (arcsin differences) and val2 (1/(i+1)) returned by
   _init_abel are ARBITRARY here; the correspondence harness reads the
   tables the implementation actually used out of the running frame and
   feeds them to this model.

   Python (one image row; the code vectorises over rows):
     IM = fliplr(IM)                              -> rev
     for col in 1 .. w-1:   idist = w - col
        rest_col = rest[col-1];  normfac = 1/val1[idist, idist]
        for i in idist-1 .. 0:  rest[w-i-1] -= rest_col*normfac*val1[i, idist]
        abel[col] = normfac*rest_col*val2[idist, h-row-1]
     abel = c_[abel[1:], abel[-1]];  abel = fliplr(abel);  return abel/(2*dr)
   The targets w-i-1 (i < idist) are exactly the columns col .. w-1, i.e.
   the tail behind rest_col, with i = (number of elements behind the target):
   [upd] below.  [peel n l] handles a list l = rest[col-1 ..] of length n+1
   (n = idist).  scipy.ndimage.shift of the shift_grid=True path is outside
   this model (pre/post composition, assumed linear: see the C04 trusted base).
   No proofs here. *)
From Coq Require Import List Arith.
Import ListNotations.

Section OB.
  Variable A : Type.
  Variables (zero one two : A) (mul sub div : A -> A -> A).
  Variable val1 : nat -> nat -> A.
  Variable val2 : nat -> nat -> A.       (* val2[idist, h-row-1] *)

  (* rest[k] -= c * val1[i, idist] with i = number of elements behind k *)
  Fixpoint upd (c : A) (idist : nat) (t : list A) : list A :=
    match t with
    | [] => []
    | x :: t' => sub x (mul c (val1 (length t') idist)) :: upd c idist t'
    end.

  (* outputs abel[col], abel[col+1], ..., abel[w-1] for l = rest[col-1 ..], n = idist;
     rv = h-row-1, the second index into val2 *)
  Fixpoint peel (rv : nat) (n : nat) (l : list A) : list A :=
    match n, l with
    | S n', rc :: tail =>
        let nf := div one (val1 n n) in
        mul (mul nf rc) (val2 n rv) :: peel rv n' (upd (mul rc nf) n tail)
    | _, _ => []
    end.

  Definition ob_row (rv : nat) (dr : A) (im : list A) : list A :=
    let outs := peel rv (length im - 1) (rev im) in
    map (fun v => div v (mul two dr)) (rev (outs ++ [last outs zero])).

  Fixpoint ob_rows (h : nat) (ri : nat) (dr : A) (IM : list (list A)) : list (list A) :=
    match IM with
    | [] => []
    | r :: IM' => ob_row (h - ri - 1) dr r :: ob_rows h (S ri) dr IM'
    end.

  Definition ob_image (dr : A) (IM : list (list A)) : list (list A) := ob_rows (length IM) 0 dr IM.
End OB.
