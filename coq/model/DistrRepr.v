(* DistrRepr.v — executable model of the representation conversions of
   abel.tools.vmi.Distributions.Results (abel/tools/vmi.py):
     orders, sinpowers            vmi.py:1219-1220
     cossin()                     vmi.py:1303-1316
     harmonics()                  vmi.py:1345-1357
     Ibeta(window)                vmi.py:1427-1434
   cn is the (terms x radii) array of cos^n coefficients, a list of rows.
   Over an arbitrary carrier (field_ops); rationals (Legendre coefficients)
   enter as numerator/denominator pairs.  numpy.linalg.inv of the (upper
   triangular, rational) Legendre coefficient matrix is modelled by back
   substitution in exact rational arithmetic. *)
From Coq Require Import List Arith Bool ZArith.
From PA Require Import base.MatL.
Import ListNotations.
Open Scope nat_scope.

Set Implicit Arguments.

(* ---- integer tables ------------------------------------------------------- *)
Fixpoint binom (n k : nat) : nat :=
  match n, k with
  | _, 0 => 1
  | 0, S _ => 0
  | S n', S k' => binom n' k' + binom n' k
  end.

(* self.orders, self.sinpowers *)
Definition orders (order : nat) (odd : bool) : list nat :=
  if odd then seq 0 (order + 1) else map (fun k => 2 * k) (seq 0 (order / 2 + 1)).
Definition sinpowers (order : nat) (odd : bool) : list nat :=
  map (fun n => 2 * ((order - n) / 2)) (orders order odd).       (* (order - n) & ~1 *)

(* scipy.linalg.pascal(n, 'upper')[i][j] = C(j, i);  np.flip reverses both axes *)
Definition pascal_upper (n : nat) : list (list nat) :=
  map (fun i => map (fun j => binom j i) (seq 0 n)) (seq 0 n).
Definition flip2 {X} (M : list (list X)) : list (list X) := rev (map (@rev X) M).
Definition CSmat (order : nat) : list (list nat) := flip2 (pascal_upper (1 + order / 2)).

(* Legendre polynomials as ascending coefficient lists over Q = Z x positive,
   by Bonnet's recursion (n+1) P_{n+1} = (2n+1) x P_n - n P_{n-1} *)
Definition rat := (Z * positive)%type.
Definition rat_red (q : rat) : rat :=
  let g := Z.gcd (fst q) (Zpos (snd q)) in
  if Z.eqb g 0 then q else ((fst q / g)%Z, Z.to_pos (Zpos (snd q) / g)).
Definition rat_add (a b : rat) : rat :=
  rat_red ((fst a * Zpos (snd b) + fst b * Zpos (snd a))%Z, (snd a * snd b)%positive).
Definition rat_scale (k : Z) (d : positive) (a : rat) : rat :=
  rat_red ((k * fst a)%Z, (d * snd a)%positive).
Fixpoint poly_add (p q : list rat) : list rat :=
  match p, q with
  | [], _ => q
  | _, [] => p
  | a :: p', b :: q' => rat_add a b :: poly_add p' q'
  end.
Definition poly_scale (k : Z) (d : positive) (p : list rat) : list rat := map (rat_scale k d) p.
Definition poly_shift (p : list rat) : list rat := (0%Z, 1%positive) :: p.

Fixpoint legendre_pair (n : nat) : list rat * list rat :=     (* (P_n, P_{n-1}) *)
  match n with
  | 0 => ([(1%Z, 1%positive)], [])
  | S n' =>
    let '(p, pm) := legendre_pair n' in
    let k := Z.of_nat n' in
    (poly_add (poly_scale (2 * k + 1) (Pos.of_nat (S n')) (poly_shift p))
              (poly_scale (- k) (Pos.of_nat (S n')) pm), p)
  end.
Definition legendre (n : nat) : list rat := fst (legendre_pair n).
Definition lcoef (n k : nat) : rat := nth k (legendre n) (0%Z, 1%positive).

(* CH before inversion: CH[k][i] = coefficient of x^(orders k) in P_(orders i) *)
Definition CHmat (order : nat) (odd : bool) : list (list rat) :=
  let os := orders order odd in
  map (fun k => map (fun i => lcoef i k) os) os.

(* inverse of the (upper triangular, rational) matrix CH by back substitution in
   exact rational arithmetic: row i of the inverse from the rows below it *)
Definition rat_sub (a b : rat) : rat := rat_add a (rat_scale (-1) 1 b).
Definition rat_mul (a b : rat) : rat := rat_red ((fst a * fst b)%Z, (snd a * snd b)%positive).
Definition rat_inv (a : rat) : rat :=
  match fst a with
  | Z0 => (0%Z, 1%positive)
  | Zpos p => (Zpos (snd a), p)
  | Zneg p => (Zneg (snd a), p)
  end.
Definition rrow_sub (a b : list rat) : list rat := map (fun p => rat_sub (fst p) (snd p)) (combine a b).
Definition rrow_scale (k : rat) (a : list rat) : list rat := map (rat_mul k) a.
Fixpoint rat_back_subst (U : list (list rat)) (b : list (list rat)) (i : nat) : list (list rat) :=
  match U, b with
  | u :: U', bi :: b' =>
    let xs := rat_back_subst U' b' (S i) in
    let coefs := skipn (S i) u in
    let s := fold_left (fun acc p => rrow_sub acc (rrow_scale (fst p) (snd p))) (combine coefs xs) bi in
    rrow_scale (rat_inv (nth i u (0%Z, 1%positive))) s :: xs
  | _, _ => []
  end.
Definition rat_ident (n : nat) : list (list rat) :=
  map (fun i => map (fun j => if Nat.eqb i j then (1%Z, 1%positive) else (0%Z, 1%positive)) (seq 0 n)) (seq 0 n).
(* inv(CH) *)
Definition CHinv (order : nat) (odd : bool) : list (list rat) :=
  let U := CHmat order odd in rat_back_subst U (rat_ident (length U)) 0.

Section Repr.
  Variable A : Type.
  Variable O : field_ops A.
  Variable piA : A.
  Variable ofz : Z -> A.            (* embedding of the integers *)
  Notation zero := (f0 O).  Notation one := (f1 O).
  Notation add := (fadd O). Notation sub := (fsub O). Notation mul := (fmul O).
  Notation div := (fdiv O). Notation opp := (fopp O). Notation eqb := (feqb O).
  Notation mat := (list (list A)).

  Definition ofnat (n : nat) : A := ofz (Z.of_nat n).
  Definition ofrat (q : rat) : A := div (ofz (fst q)) (ofz (Zpos (snd q))).

  Definition sum (l : list A) : A := fold_left add l zero.
  Definition ncols (M : mat) : nat := length (hd [] M).
  Definition mmul (M : mat) (P : mat) : mat := matmul zero add mul M P (ncols P).

  (* a[::2], a[1::2] *)
  Fixpoint evens {X} (l : list X) : list X :=
    match l with [] => [] | x :: l' => x :: match l' with [] => [] | _ :: l'' => evens l'' end end.
  Definition odds {X} (l : list X) : list X := match l with [] => [] | _ :: l' => evens l' end.
  Fixpoint interleave {X} (a b : list X) : list X :=
    match a, b with
    | x :: a', y :: b' => x :: y :: interleave a' b'
    | _, [] => a
    | [], _ => b
    end.

  Definition nmat (M : list (list nat)) : mat := map (map ofnat) M.

  (* cossin() *)
  Definition cossin (order : nat) (odd : bool) (cn : mat) : mat :=
    let CS := nmat (CSmat order) in
    if odd then
      let ev := mmul CS (evens cn) in
      let CS' := if Nat.eqb (order mod 2) 0 then map (@tl A) (tl CS) else CS in   (* CS[1:, 1:] *)
      let od := mmul CS' (odds cn) in
      interleave ev od
    else mmul CS cn.

  (* harmonics(): inv(CH) . cn, the inverse taken in exact rational arithmetic *)
  Definition harmonics (order : nat) (odd : bool) (cn : mat) : mat :=
    mmul (map (map ofrat) (CHinv order odd)) cn.

  (* uniform_filter1d(row, window, mode='nearest'):
     out[i] = mean_k row[clamp(i + k - window//2)], k = 0..window-1 *)
  Definition clamp_idx (n : nat) (z : Z) : nat :=
    if (z <? 0)%Z then 0 else if (Z.of_nat n <=? z)%Z then n - 1 else Z.to_nat z.
  Definition uniform_filter (window : nat) (r : list A) : list A :=
    let n := length r in
    map (fun i => div (sum (map (fun k => nth (clamp_idx n (Z.of_nat i + Z.of_nat k - Z.of_nat (window / 2))) r zero)
                                (seq 0 window)))
                      (ofnat window))
        (seq 0 n).

  (* Ibeta(window); rs = self.r *)
  Definition Ibeta (order : nat) (odd : bool) (window : nat) (rs : list A) (cn : mat) : mat :=
    let harm := harmonics order odd cn in
    let P0 := hd [] harm in let Pn := tl harm in
    let I := map (fun p => mul (mul (mul (ofnat 4) piA) (mul (fst p) (fst p))) (snd p)) (combine rs P0) in
    let P0f := if 1 <? window then uniform_filter window P0 else P0 in
    let Pnf := if 1 <? window then map (uniform_filter window) Pn else Pn in
    let beta := map (fun row => map (fun p => if eqb (snd p) zero then zero else div (fst p) (snd p))
                                    (combine row P0f)) Pnf in
    I :: beta.
End Repr.
