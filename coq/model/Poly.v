(* Poly.v — model of abel/tools/polynomial.py, class Polynomial (lines 115-226)
   and PiecewisePolynomial (257-260): coefficient preparation, index limits,
   Horner evaluation of .func.  Written once over an arbitrary carrier A
   (Section Carrier): instantiated with Q for execution (vm_compute, used by
   the correspondence check) and with R for the theorems (proofs/PolyProofs.v).
   The Abel part (.abel, needs sqrt and ln) is in model/AbelPoly.v.  No proofs
   here. *)
From Coq Require Import List Arith Bool ZArith QArith Qabs.
Import ListNotations.

(* binomial coefficients: scipy.linalg.pascal(1+K,'upper',False)[l,k] = C(k,l) *)
Fixpoint binom (n k : nat) : nat :=
  match n, k with
  | _, O => 1
  | O, S _ => 0
  | S n', S k' => binom n' k' + binom n' (S k')
  end.

Section Carrier.
Variable A : Type.
Variables (zero one : A) (add mul sub div : A -> A -> A) (opp : A -> A).
Variables (eqb ltb : A -> A -> bool).

Fixpoint ofnat (n : nat) : A :=
  match n with O => zero | S n' => add one (ofnat n') end.

Fixpoint pw (x : A) (n : nat) : A :=
  match n with O => one | S n' => mul x (pw x n') end.

(* Horner evaluation, polynomial.py:213-215 (func = func*x + c[k], k = K-1..0) *)
Fixpoint peval (c : list A) (x : A) : A :=
  match c with [] => zero | a :: c' => add a (mul x (peval c' x)) end.

(* np.trim_zeros(c, 'b'), line 128 *)
Fixpoint trim (c : list A) : list A :=
  match c with
  | [] => []
  | a :: c' => match trim c' with
               | [] => if eqb a zero then [] else [a]
               | t => a :: t
               end
  end.

(* lines 147-150: c *= cumprod([1] + [1/s]*K) *)
Fixpoint scale_pow (p q : A) (c : list A) : list A :=
  match c with [] => [] | a :: c' => mul a p :: scale_pow (mul p q) q c' end.
Definition stretch (s : A) (c : list A) : list A := scale_pow one (div one s) c.

(* lines 151-156: c = (P * T).dot(c), P[l,k] = C(k,l), T[l,k] = (-r_0)^(k-l)
   for k >= l and 0 below the diagonal.  srow m l k0 c is row l of the product
   applied to c, the first element of c having column index k0. *)
Fixpoint srow (m : A) (l k : nat) (c : list A) : A :=
  match c with
  | [] => zero
  | a :: c' => add (if l <=? k then mul (mul (ofnat (binom k l)) (pw m (k - l))) a else zero)
                   (srow m l (S k) c')
  end.
Definition shift (r0 : A) (c : list A) : list A :=
  map (fun l => srow (opp r0) l 0 c) (seq 0 (length c)).

(* np.searchsorted(r, v) (side='left') on an ascending array: the number of
   elements < v; lines 163-164 *)
Fixpoint searchsorted (r : list A) (v : A) : nat :=
  match r with [] => 0 | a :: r' => if ltb a v then S (searchsorted r' v) else 0 end.

(* lines 210-216: zeros, Horner on the span [i_min, i_max) *)
Definition func_span (c : list A) (imin imax : nat) (r : list A) : list A :=
  map (fun ix => let '(i, x) := ix in
                 if (imin <=? i) && (i <? imax) then peval c x else zero)
      (combine (seq 0 (length r)) r).

(* Everything Polynomial.__init__ prepares before evaluating (lines 118-164):
   None = one of the two early returns (func = abel = 0). *)
Record prepared := {
  p_r : list A;        (* grid (divided by r_max when reduced) *)
  p_rmin : A; p_rmax : A;
  p_c : list A;        (* coefficients after trim, stretch, shift *)
  p_scale : A;         (* abel_scale (1 when not reduced) *)
  p_imin : nat; p_imax : nat }.

Definition prepare (r : list A) (rmin rmax : A) (c : list A) (r0 s : A) (reduced : bool)
  : option prepared :=
  if ltb zero rmax then
    let rmin := if ltb rmin zero then zero else rmin in
    let c := trim c in
    match c with
    | [] => None
    | _ =>
      let '(r, r0, s, sc, rmin, rmax) :=
        if reduced then (map (fun x => div x rmax) r, div r0 rmax, div s rmax, rmax, div rmin rmax, one)
        else (r, r0, s, one, rmin, rmax) in
      let c := if eqb s one then c else stretch s c in
      let c := if eqb r0 zero then c else shift r0 c in
      Some {| p_r := r; p_rmin := rmin; p_rmax := rmax; p_c := c; p_scale := sc;
              p_imin := searchsorted r rmin; p_imax := searchsorted r rmax |}
    end
  else None.

Definition poly_func (r : list A) (rmin rmax : A) (c : list A) (r0 s : A) (reduced : bool) : list A :=
  match prepare r rmin rmax c r0 s reduced with
  | None => map (fun _ => zero) r
  | Some p => func_span (p_c p) (p_imin p) (p_imax p) (p_r p)
  end.

(* ---- one-sided Abel integral a(k), lines 190-207 (the values Dyr[p] and Dlnry
   are parameters here; they need sqrt and ln, see model/AbelPoly.v) ---- *)
(* C[2i] for given k: C[0] = 1/(k+1), C[k-m+2] = C[k-m]*m/(m-1), m = k - 2i *)
Fixpoint Ccoef (k i : nat) : A :=
  match i with
  | O => div one (ofnat (k + 1))
  | S i' => div (mul (Ccoef k i') (ofnat (k - 2 * i'))) (ofnat (k - 2 * i' - 1))
  end.

(* Horner in x2 = x^2; D p = Dyr[p]; dln = Dlnry.  n = remaining steps,
   i = current index of C (C[2i]); the innermost (first computed) term carries
   the logarithm for odd k. *)
Fixpoint hor (k : nat) (od : bool) (x2 : A) (D : nat -> A) (dln : A) (n i : nat) : A :=
  match n with
  | O => add (mul (Ccoef k i) (D (k - 2 * i)%nat))
             (if od then mul (mul (Ccoef k i) x2) dln else zero)
  | S n' => add (mul (Ccoef k i) (D (k - 2 * i)%nat)) (mul x2 (hor k od x2 D dln n' (S i)))
  end.
Definition a_gen (k : nat) (x2 : A) (D : nat -> A) (dln : A) : A :=
  hor k (Nat.odd k) x2 D dln (k / 2) 0.

(* lines 219-226: sum_k c[k] * 2 * a(k) *)
Fixpoint abel_sum (c : list A) (k0 : nat) (ak : nat -> A) : A :=
  match c with [] => zero | a :: c' => add (mul (mul a (add one one)) (ak k0)) (abel_sum c' (S k0) ak) end.

(* elementwise sum of equally long lists (PiecewisePolynomial: sum(p.func)) *)
Fixpoint vadd (a b : list A) : list A :=
  match a, b with x :: a', y :: b' => add x y :: vadd a' b' | _, _ => [] end.
Definition vscale (k : A) (a : list A) : list A := map (mul k) a.

End Carrier.

Arguments p_r {A}. Arguments p_rmin {A}. Arguments p_rmax {A}. Arguments p_c {A}.
Arguments p_scale {A}. Arguments p_imin {A}. Arguments p_imax {A}.

(* ------------------------------------------------------------------ *)
(* Q instance (execution)                                              *)
Definition Qeqb (a b : Q) : bool := Qeq_bool a b.
Definition Qltb (a b : Q) : bool := negb (Qle_bool b a).

(* the operations normalise their results (Qred) so that the size of the
   numerals stays that of the exact value *)
Definition Qadd' (a b : Q) : Q := Qred (a + b).
Definition Qmul' (a b : Q) : Q := Qred (a * b).
Definition Qdiv' (a b : Q) : Q := Qred (a / b).

Definition prepareQ := prepare Q 0%Q 1%Q Qadd' Qmul' Qdiv' Qopp Qeqb Qltb.
Definition poly_funcQ := poly_func Q 0%Q 1%Q Qadd' Qmul' Qdiv' Qopp Qeqb Qltb.
Definition pevalQ := peval Q 0%Q Qadd' Qmul'.
Definition a_genQ := a_gen Q 0%Q 1%Q Qadd' Qmul' Qdiv'.
Definition abel_sumQ := abel_sum Q 0%Q 1%Q Qadd' Qmul'.
Definition pwQ := pw Q 1%Q Qmul'.
Definition vaddQ := vadd Q Qadd'.
Definition vscaleQ := vscale Q Qmul'.      (* __imul__: func *= k, abel *= k (division: k = 1/a) *)

(* abel value = alpha*y_up + beta*y_lo + gamma*Dlnry with rational alpha, beta,
   gamma (the model is linear in the three irrational quantities): the
   coefficients, for prepared data and grid value x *)
Definition abel_linQ (c : list Q) (sc x rmin rmax : Q) : Q * Q * Q :=
  let cs := map (Qmul' sc) c in
  let x2 := x * x in
  (abel_sumQ cs 0 (fun k => a_genQ k x2 (fun p => pwQ rmax p) 0),
   abel_sumQ cs 0 (fun k => a_genQ k x2 (fun p => - pwQ rmin p) 0),
   abel_sumQ cs 0 (fun k => a_genQ k x2 (fun _ => 0) 1)).

(* |x - y| <= tol, all three exact rationals *)
Definition qwithin (tol x y : Q) : bool := Qle_bool (Qabs (x - y)) tol.
Fixpoint all_within (tol xs ys : list Q) : bool :=
  match tol, xs, ys with
  | [], [], [] => true
  | t :: tol', x :: xs', y :: ys' => qwithin t x y && all_within tol' xs' ys'
  | _, _, _ => false
  end.
