(* HansenLaw.v — executable model of abel/hansenlaw.py hansenlaw_transform
   (lines 158-210), polymorphic in the carrier (R for theorems, Q for the
   correspondence run).

   The coefficient tables phi, B0, B1 (hansenlaw.py:176-193; powers and
   logarithms of n/(n-1), constants h, lam) are ARBITRARY here: one record
   per processed column, in processing order indx = 0, 1, ... (col = cols-2
   down to 1), each holding the K = 9 state coefficients.  The
   correspondence harness reads the tables the implementation actually used
   out of the running frame and feeds them to this model.

     x <- phi[indx]*x + B0[indx]*drive[col+1] + B1[indx]*drive[col]   (l.197-198)
     aim[col] = x.sum(axis=0)                                         (l.199)
     aim[0] = aim[1]; aim[-1] = aim[-2]                               (l.202-203)
   drive (l.162-174):
     forward            -2*dr*pi*image
     inverse, hold 0    drive[:-1] = (image[1:] - image[:-1])/dr, last column 0
     inverse, hold 1    np.gradient(image, dr, axis=-1)
   One list = one image row; an image is transformed row by row
   (hansenlaw.py vectorises the same recursion over rows by broadcasting).
   No proofs here. *)
From Coq Require Import List Arith.
Import ListNotations.

Section HL.
  Variable A : Type.
  Variables (zero : A) (add mul sub div : A -> A -> A) (opp : A -> A) (two : A).

  Definition sum (l : list A) : A := fold_right add zero l.

  Record coef := { c_phi : list A; c_B0 : list A; c_B1 : list A }.

  (* one column step for one image row; x = the K state variables *)
  Fixpoint step (ph b0 b1 x : list A) (d1 d0 : A) : list A :=
    match ph, b0, b1, x with
    | p :: ph', c0 :: b0', c1 :: b1', xk :: x' =>
        add (add (mul p xk) (mul c0 d1)) (mul c1 d0) :: step ph' b0' b1' x' d1 d0
    | _, _, _, _ => []
    end.

  (* outputs for col, col-1, ... (one per table entry) *)
  Fixpoint run (tabs : list coef) (col : nat) (d : list A) (x : list A) : list A :=
    match tabs with
    | [] => []
    | t :: ts =>
        let x' := step (c_phi t) (c_B0 t) (c_B1 t) x (nth (S col) d zero) (nth col d zero) in
        sum x' :: run ts (pred col) d x'
    end.

  (* recursion on a given driving row d (K zero states initially) *)
  Definition hl_core (K : nat) (tabs : list coef) (d : list A) : list A :=
    let outs := rev (run tabs (length d - 2) d (repeat zero K)) in   (* columns 1 .. cols-2 *)
    hd zero outs :: outs ++ [last outs zero].

  (* driving functions *)
  Definition drive_forward (dr pi : A) (im : list A) : list A :=
    map (fun v => mul (mul (mul (opp two) dr) pi) v) im.

  Fixpoint drive_inverse0 (dr : A) (im : list A) : list A :=
    match im with
    | a :: t => match t with
                | b :: _ => div (sub b a) dr :: drive_inverse0 dr t
                | [] => [zero]
                end
    | [] => []
    end.

  (* numpy.gradient(f, dr): central differences inside, one-sided at the ends *)
  Definition drive_inverse1 (dr : A) (im : list A) : list A :=
    let n := length im in
    map (fun j =>
           if Nat.eqb j 0 then div (sub (nth 1 im zero) (nth 0 im zero)) dr
           else if Nat.eqb j (n - 1) then div (sub (nth (n - 1) im zero) (nth (n - 2) im zero)) dr
           else div (sub (nth (S j) im zero) (nth (j - 1) im zero)) (mul two dr))
        (seq 0 n).

  Inductive hl_mode := Forward | Inverse0 | Inverse1.
  (* hold_order only changes the tables for 'forward' *)

  Definition drive (m : hl_mode) (dr pi : A) (im : list A) : list A :=
    match m with
    | Forward => drive_forward dr pi im
    | Inverse0 => drive_inverse0 dr im
    | Inverse1 => drive_inverse1 dr im
    end.

  Definition hl_row (m : hl_mode) (dr pi : A) (K : nat) (tabs : list coef) (im : list A) : list A :=
    hl_core K tabs (drive m dr pi im).

  Definition hl_image (m : hl_mode) (dr pi : A) (K : nat) (tabs : list coef) (IM : list (list A))
    : list (list A) := map (hl_row m dr pi K tabs) IM.

End HL.
