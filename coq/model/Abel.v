(* model/Abel.v — the line-of-sight (Abel) transform in its proper-integral
   form, the inverse-Abel functional in the same parametrisation, and the basis
   *functions* whose projections the basis methods of PyAbel tabulate.
   Definitions only (proofs: proofs/AbelLemmas.v, proofs/C09Daun.v,
   proofs/C09Dasch.v).

   Anchors in /repo:
     abel/daun.py:308-437     _bs_daun   (rect, tri, quad2, herm_p, herm_q:
                                          the functions abel/tests/test_daun.py::daun_bs writes)
     abel/dasch.py:156-287    _bs_two_point/_bs_three_point/_bs_onion_peeling
     abel/rbasex.py:366-419   _bs_rbasex (tri * cos^n theta)
     abel/basex.py:552-665    _bs_basex  (basex_rho)

   The basis functions are written with Rabs only (pos a = max 0 a =
   (a + |a|)/2), so that the `integral` tactic of Interval can enclose their
   projections in the per-instance goals of gen/C09Instances*.v. *)
From Coq Require Import Reals.
From Coquelicot Require Import Coquelicot.
Open Scope R_scope.

(* Abel transform at x of a function f of the radius supported in [0, Rm]:
   2 * int_0^sqrt(Rm^2-x^2) f(sqrt(x^2+y^2)) dy  (y = line-of-sight coordinate).
   For x > Rm the upper limit is sqrt of a negative number = 0 and Abel = 0. *)
Definition Abel (f : R -> R) (Rm x : R) : R :=
  2 * RInt (fun y => f (sqrt (x * x + y * y))) 0 (sqrt (Rm * Rm - x * x)).

(* Weighted line-of-sight integral (rbasex: weight (x/rho)^n). *)
Definition AbelW (w : R -> R -> R) (f : R -> R) (Rm x : R) : R :=
  2 * RInt (fun y => w x (sqrt (x * x + y * y)) * f (sqrt (x * x + y * y))) 0 (sqrt (Rm * Rm - x * x)).

(* Inverse Abel transform at r of a function with derivative dP on the pieces
   [a, b] of radii, same parametrisation (substitution x = sqrt(r^2+y^2) in
   -1/pi int_r^Rm P'(x)/sqrt(x^2-r^2) dx): *)
Definition InvAbel (dP : R -> R) (Rm r : R) : R :=
  - / PI * RInt (fun y => dP (sqrt (r * r + y * y)) / sqrt (r * r + y * y)) 0 (sqrt (Rm * Rm - r * r)).

(* line-of-sight coordinate at which the radius reaches Rc, seen from x
   (0 when Rc <= x) *)
Definition ylos (x Rc : R) : R := sqrt (Rmax Rc x * Rmax Rc x - x * x).

Definition pos (a : R) : R := (a + Rabs a) / 2.

(* daun degree 0: rectangle [c-1/2, c+1/2) *)
Definition rect (c r : R) : R :=
  if Rle_dec (c - 1 / 2) r then (if Rlt_dec r (c + 1 / 2) then 1 else 0) else 0.

(* daun degree 1, two_point interpolant, rbasex radial part: triangle *)
Definition tri (c r : R) : R := pos (1 - Rabs (r - c)).

(* daun degree 2: 2(r-c+1)^2 on [c-1,c-1/2], 1-2(r-c)^2 on [c-1/2,c+1/2], 2(r-c-1)^2 on [c+1/2,c+1] *)
Definition quad2 (c r : R) : R :=
  2 * (pos (1 - Rabs (r - c))) ^ 2 - 4 * (pos (1 / 2 - Rabs (r - c))) ^ 2.

(* daun degree 3: Hermite value basis 1 - 3t^2 + 2t^3 (t = |r-c| <= 1) and
   derivative basis u(1-|u|)^2 (u = r-c) *)
Definition herm_p (c r : R) : R :=
  pos (1 - Rabs (r - c)) * pos (1 - Rabs (r - c)) * (3 - 2 * pos (1 - Rabs (r - c))).
Definition herm_q (c r : R) : R := (r - c) * (pos (1 - Rabs (r - c))) ^ 2.

(* rbasex: radial part of the projection of tri_Rc(rho) cos^n(theta):
   p_{Rc;n}(r) = 2 int_0^Y tri_Rc(rho) (r/rho)^n dy, rho = sqrt(r^2+y^2) *)
Definition rbasex_proj (n : nat) (Rc r : R) : R :=
  AbelW (fun x rho => (x / rho) ^ n) (tri Rc) (Rc + 1) r.

(* basex: rho_k(r) = (e/k^2)^(k^2) (r/sigma)^(2k^2) exp(-(r/sigma)^2), written in
   the log form the code evaluates (k >= 1, r > 0) *)
Definition basex_rho (k2 sigma r : R) : R :=
  exp ((1 - ln k2) * k2 + ln (r / sigma) * 2 * k2 - (r / sigma) * (r / sigma)).

(* Dasch interpolants of the unit data vector e_c (P_c = 1, all other samples
   0); their derivatives, piecewise:
   two_point: piecewise linear, P' = +1 on (c-1,c), -1 on (c,c+1);
   three_point: the parabola through (k-1,k,k+1) is used on [k-1/2,k+1/2]:
      P' = (r-(c-1)) + 1/2       on (c-3/2, c-1/2)   (k = c-1)
      P' = -2 (r-c)              on (c-1/2, c+1/2)   (k = c)
      P' = (r-(c+1)) - 1/2       on (c+1/2, c+3/2)   (k = c+1) *)
Definition dhat (c r : R) : R :=
  if Rlt_dec r (c - 1) then 0 else if Rlt_dec r c then 1 else if Rlt_dec r (c + 1) then -1 else 0.
Definition dpar (c r : R) : R :=
  if Rlt_dec r (c - 3 / 2) then 0 else if Rlt_dec r (c - 1 / 2) then r - c + 3 / 2
  else if Rlt_dec r (c + 1 / 2) then -2 * (r - c) else if Rlt_dec r (c + 3 / 2) then r - c - 3 / 2 else 0.
