(* SPoly.v — model of abel/tools/polynomial.py class SPolynomial (lines 315-426):
   coefficient matrix by columns (cols[n][m] = c[m, n], the coefficient of r^m cos^n),
   per-column stretch and Pascal/Toeplitz shift, the recursive antiderivatives F(k, lim),
   .abel at a pixel with r > 0 and at r = 0; specification: antiderivatives Gpos/Gneg of
   (r/R)^k and (R/r)^j, the function sfun and the transform Abel2.  Real-number model;
   no proofs here. *)
From Coq Require Import Reals List Arith Bool ZArith QArith Qreals.
From Coquelicot Require Import Coquelicot.
From PA Require Import model.Poly model.AbelPoly.
Import ListNotations.
Open Scope R_scope.

Fixpoint Gpos (k : nat) (r y rho : R) : R :=
  match k with
  | O => y
  | S O => r * ln (y + rho)
  | S (S O) => r * atan (y / r)
  | S (S (S j as k')) => (y * (r / rho) ^ k' + INR (k' - 1) * Gpos k' r y rho) / INR k'
  end.
Fixpoint Gneg (j : nat) (r y rho : R) : R :=
  match j with
  | O => y
  | S O => (y * (rho / r) + r * ln (y + rho)) / 2
  | S (S j') => (y * (rho / r) ^ (j' + 2) + INR (j' + 2) * Gneg j' r y rho) / INR (j' + 3)
  end.

(* integer powers and the antiderivative family indexed by k = n - m *)
Definition fz (k : Z) (u : R) : R :=
  if (0 <=? k)%Z then u ^ Z.to_nat k else (/ u) ^ Z.to_nat (- k).
Definition FzG (k : Z) (r y rho : R) : R :=
  if (0 <=? k)%Z then Gpos (Z.to_nat k) r y rho else Gneg (Z.to_nat (- k)) r y rho.

(* double sums over a coefficient matrix given by columns: cols[n][m] multiplies cos^n r^m *)
Fixpoint colsum (col : list R) (m0 : nat) (g : nat -> R) : R :=
  match col with [] => 0 | a :: c' => a * g m0 + colsum c' (S m0) g end.
Fixpoint colssum (cols : list (list R)) (n0 : nat) (g : nat -> nat -> R) : R :=
  match cols with [] => 0 | col :: cs' => colsum col 0 (g n0) + colssum cs' (S n0) g end.

(* the function of (R, cos) the coefficient matrix stands for *)
Definition sfun (cols : list (list R)) (rho c : R) : R := colssum cols 0 (fun n m => c ^ n * rho ^ m).

Definition Tsp (cols : list (list R)) (r cs y : R) : R :=
  colssum cols 0 (fun n m => cs ^ n * r ^ m * FzG (Z.of_nat n - Z.of_nat m) r y (rr r y)).

(* ---- the code: F(k, lim) of SPolynomial.__init__ (polynomial.py:391-405), z = z[lim],
   rho = rho[lim], f[lim] = r / rho ---- *)
Fixpoint FposC (k : nat) (r z rho : R) : R :=
  match k with
  | O => z
  | S O => r * ln (z + rho)
  | S (S O) => r * acos (r / rho)
  | S (S (S j as k')) => (z * (r / rho) ^ k' + INR (k' - 1) * FposC k' r z rho) / INR k'
  end.
Definition Fcode (k : Z) (r z rho : R) : R :=
  if (0 <=? k)%Z then FposC (Z.to_nat k) r z rho else Gneg (Z.to_nat (- k)) r z rho.

(* lines 376-418: abel at an image point (r, cos), 0 < r < r_max; cols[n][m] = c[m, n] after stretch/shift;
   the Horner accumulation in r and cos is written as the double sum it expands to *)
Definition sp_abel_pt (cols : list (list R)) (r cs rmin rmax : R) : R :=
  let rho0 := Rmax r rmin in
  let z0 := sqrt (rho0 * rho0 - r * r) in
  let z1 := sqrt (rmax * rmax - r * r) in
  colssum cols 0 (fun n m => cs ^ n * r ^ m *
     (2 * (Fcode (Z.of_nat n - Z.of_nat m) r z1 rmax - Fcode (Z.of_nat n - Z.of_nat m) r z0 rho0))).

(* Abel transform of a function of (R, cos theta_3D) at the image point (r, cos theta): the 3-D
   polar angle along the line of sight has cos = r cos(theta) / R *)
Definition Abel2 (F : R -> R -> R) (Rm r cs : R) : R :=
  2 * RInt (fun y => F (sqrt (r * r + y * y)) (r * cs / sqrt (r * r + y * y))) 0 (sqrt (Rm * Rm - r * r)).

(* lines 341-351 per column of c (cols[n] = c[:, n]): stretch and Pascal/Toeplitz shift *)
Definition sp_prepareR (cols : list (list R)) (r0 s : R) : list (list R) :=
  map (fun col => let c1 := if Reqb s 1 then col else stretch R 1 Rmult Rdiv s col in
                  if Reqb r0 0 then c1 else shift R 0 1 Rplus Rmult Ropp r0 c1) cols.

(* the function of (R, cos) that SPolynomial(r, cos, r_min, r_max, c, r_0, s) stands for *)
Definition spfun (cols : list (list R)) (r0 s rmin rmax : R) (rho c : R) : R :=
  if Rle_dec (Rmax rmin 0) rho then if Rlt_dec rho rmax then sfun cols ((rho - r0) / s) c else 0 else 0.

(* ---- the pixel r = 0 (lines 419-423): only the cos^0 column contributes ---- *)
Fixpoint sp_abel_r0 (col0 : list R) (m0 : nat) (rmin rmax : R) : R :=
  match col0 with
  | [] => 0
  | a :: c' => a * 2 * (rmax ^ S m0 - rmin ^ S m0) / INR (S m0) + sp_abel_r0 c' (S m0) rmin rmax
  end.

(* ---- evaluation form used by the correspondence check: the same per-column preparation over Q
   (vm_compute), and the abel value with the arctangent form of F(2) (acos(r/rho) = atan(z/r) at the
   integration limits; proofs/SPolyProofs.v sp_abelQ_at_correct) ---- *)
Definition sp_prepareQ (cols : list (list Q)) (r0 s : Q) : list (list Q) :=
  map (fun col => let c1 := if Qeqb s 1 then col else stretch Q 1%Q Qmul' Qdiv' s col in
                  if Qeqb r0 0 then c1 else shift Q 0%Q 1%Q Qadd' Qmul' Qopp r0 c1) cols.

Definition sp_abel_ptG (cols : list (list R)) (r cs rho0 rmax : R) : R :=
  let z0 := sqrt (rho0 * rho0 - r * r) in
  let z1 := sqrt (rmax * rmax - r * r) in
  colssum cols 0 (fun n m => cs ^ n * r ^ m *
     (2 * (FzG (Z.of_nat n - Z.of_nat m) r z1 rmax - FzG (Z.of_nat n - Z.of_nat m) r z0 rho0))).

Definition sp_abelQ_at (cols : list (list Q)) (r cs rmin rmax : Q) : R :=
  sp_abel_ptG (map (map Q2R) cols) (Q2R r) (Q2R cs) (Q2R (Qmax r rmin)) (Q2R rmax).

(* one piece of PiecewiseSPolynomial at a pixel with r > 0 (SPolynomial leaves abel = 0 for r >= r_max;
   negative r_min is read as 0) *)
Definition sp_piece_abelQ_at (cols : list (list Q)) (r0 s r cs rmin rmax : Q) : R :=
  if Qltb r rmax then sp_abelQ_at (sp_prepareQ cols r0 s) r cs (Qmax rmin 0) rmax else 0.
