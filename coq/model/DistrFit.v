(* DistrFit.v — executable model of the arithmetic part of
   abel.tools.vmi.Distributions (abel/tools/vmi.py), methods 'nearest' and
   'linear':
     quadrant coordinates, radial bins            vmi.py:955-972
     powers of cos(theta) / cos^2(theta)          vmi.py:974-987
     folded weights, sin(theta) weighting         vmi.py:989-1015
     lower/upper bin weights                      vmi.py:1017-1020
     normal-matrix integrals pc                   vmi.py:745-787, 1022-1028
     conversion matrices C, valid                 vmi.py:1151-1163 (inv2/inv3: gen/VmiInv.v)
     image(): weighting, folding, integrals p,
     coefficients I = C p                         vmi.py:1464-1499
   over an arbitrary carrier (field_ops) with a square-root function on
   naturals: instantiated with R (sqrt) for the theorems and with Q (square
   roots looked up in a table that the case file validates by squaring) for
   execution.  N > 3 (general inverse through numpy.linalg.inv) is specified in
   proofs/DistrFitMx.v through invmx, not executed here. *)
From Coq Require Import List Arith Lia Bool ZArith.
From PA Require Import base.Arr base.Px base.MatL model.DistrGeom gen.VmiInv.
Import ListNotations.
Open Scope nat_scope.

Set Implicit Arguments.

Inductive method := Nearest | Linear.

(* round(sqrt(n)) and floor(sqrt(n)) for a natural n *)
Definition round_sqrt (n : nat) : nat :=
  let s := Nat.sqrt n in if s * s + s <? n then s + 1 else s.

(* r^2 of the quadrant pixel [a][b] (x = b, y = y0 - a) *)
Definition r2n (g : geom) (a b : nat) : nat := b * b + dist a (g_y0 g) * dist a (g_y0 g).

(* self.bin *)
Definition bin (meth : method) (g : geom) (a b : nat) : nat :=
  let k := match meth with Nearest => round_sqrt (r2n g a b) | Linear => Nat.sqrt (r2n g a b) end in
  if g_rmax g <? k then g_rmax g + 1 else k.

Section Fit.
  Variable A : Type.
  Variable O : field_ops A.
  Variable sqrtn : nat -> A.          (* square root of a natural number *)
  Notation zero := (f0 O).  Notation one := (f1 O).
  Notation add := (fadd O). Notation sub := (fsub O). Notation mul := (fmul O).
  Notation div := (fdiv O). Notation opp := (fopp O). Notation eqb := (feqb O).
  Notation img := (list (list A)).

  Fixpoint ofnat (n : nat) : A := match n with 0 => zero | S n' => add (ofnat n') one end.

  Definition sum (l : list A) : A := fold_left add l zero.

  (* y = y0 - a *)
  Definition yA (g : geom) (a : nat) : A :=
    if a <=? g_y0 g then ofnat (g_y0 g - a) else opp (ofnat (a - g_y0 g)).

  (* self.c[1]: cos(theta) for odd, cos^2(theta) otherwise; 0 at the origin *)
  Definition cos1 (g : geom) (a b : nat) : A :=
    if Nat.eqb (r2n g a b) 0 then zero
    else if g_odd g then div (yA g a) (sqrtn (r2n g a b))
         else div (ofnat (dist a (g_y0 g) * dist a (g_y0 g))) (ofnat (r2n g a b)).

  (* self.c[n]: c[n] = c[1] * c[n-1], c[0] = 1 (not stored by the code) *)
  Fixpoint cpow (x : A) (n : nat) : A :=
    match n with 0 => one | 1 => x | S n' => mul x (cpow x n') end.

  (* self.Qsin *)
  Definition qsin (g : geom) (a b : nat) : A :=
    if Nat.eqb (r2n g a b) 0 then one else div (ofnat b) (sqrtn (r2n g a b)).

  (* self.wu, self.wl ('linear'); the bin is the clipped one, as in the code *)
  Definition wu (g : geom) (a b : nat) : A := sub (sqrtn (r2n g a b)) (ofnat (bin Linear g a b)).
  Definition wl (g : geom) (a b : nat) : A := sub one (wu g a b).

  Definition ones (h w : nat) : img := repeat (repeat one w) h.
  Definition imul (X Y : img) : img := imap2 mul X Y.

  (* folded weights Qw (times Qsin when use_sin) as a function of the
     quadrant pixel; W = None stands for the all-ones array *)
  Definition QW (g : geom) (use_sin : bool) (W : option img) : nat -> nat -> A :=
    let Wt := match W with Some Wt => Wt | None => ones (g_h g) (g_w g) end in
    let F := fold_image zero add g Wt in
    fun a b => let q := px zero F a b in if use_sin then mul (qsin g a b) q else q.

  (* folded weighted image Q (times Qsin when use_sin) *)
  Definition QD (g : geom) (use_sin : bool) (W : option img) (IM : img) : nat -> nat -> A :=
    let X := match W with Some Wt => imul Wt IM | None => IM end in
    let F := fold_image zero add g X in
    fun a b => let q := px zero F a b in if use_sin then mul (qsin g a b) q else q.

  (* one quadrant pixel's share in the integrals of radius r:
     (weight, cos value, weighted datum) *)
  Definition pixel := (A * A * A)%type.
  Definition quad_idx (g : geom) : list (nat * nat) :=
    flat_map (fun a => map (fun b => (a, b)) (seq 0 (g_Qw g))) (seq 0 (g_Qh g)).

  Definition pixels (meth : method) (g : geom) (wq dq : nat -> nat -> A) (r : nat) : list pixel :=
    match meth with
    | Nearest =>
      flat_map (fun ab => let '(a, b) := ab in
                  if Nat.eqb (bin Nearest g a b) r then [(wq a b, cos1 g a b, dq a b)] else [])
               (quad_idx g)
    | Linear =>
      flat_map (fun ab => let '(a, b) := ab in
                  if Nat.eqb (bin Linear g a b) r
                  then [(mul (wl g a b) (wq a b), cos1 g a b, mul (wl g a b) (dq a b))] else [])
               (quad_idx g)
      ++
      flat_map (fun ab => let '(a, b) := ab in
                  if Nat.eqb (S (bin Linear g a b)) r
                  then [(mul (wu g a b) (wq a b), cos1 g a b, mul (wu g a b) (dq a b))] else [])
               (quad_idx g)
    end.

  (* pc[r][n] and p[n][r] *)
  Definition moment (n : nat) (px : list pixel) : A :=
    sum (map (fun t => let '(w, x, _) := t in mul w (cpow x n)) px).
  Definition dmoment (n : nat) (px : list pixel) : A :=
    sum (map (fun t => let '(_, x, q) := t in mul q (cpow x n)) px).

  (* self.C[r] for N = 1, 2, 3 *)
  Definition convC (N : nat) (px : list pixel) : option (list (list A)) :=
    match N with
    | 1 => let p0 := moment 0 px in Some [[if eqb p0 zero then zero else div one p0]]
    | 2 => Some (inv2 A O (moment 0 px) (moment 1 px) (moment 2 px))
    | 3 => Some (inv3 A O (moment 0 px) (moment 1 px) (moment 2 px) (moment 3 px) (moment 4 px))
    | _ => None
    end.

  (* the coefficients at one radius: C[r] . p[:, r] *)
  Definition coeffs (N : nat) (px : list pixel) : option (list A) :=
    match convC N px with
    | Some C => Some (matvec zero add mul C (map (fun n => dmoment n px) (seq 0 N)))
    | None => None
    end.

  (* self.valid[r] = (C[r, 0, 0] != 0); for N > 3 see the header *)
  Definition valid (N : nat) (px : list pixel) : bool :=
    match convC N px with
    | Some C => negb (eqb (nth 0 (nth 0 C []) zero) zero)
    | None => negb (eqb (moment 0 px) zero)
    end.

  (* Distributions(...).image(IM): list over r = 0..rmax of coefficient lists *)
  Definition distr_pixels (meth : method) (g : geom) (use_sin : bool) (W : option img) (IM : img)
             (r : nat) : list pixel :=
    pixels meth g (QW g use_sin W) (QD g use_sin W IM) r.

  Definition distr_cos (meth : method) (g : geom) (use_sin : bool) (W : option img) (IM : img)
    : list (option (list A)) :=
    let wq := QW g use_sin W in let dq := QD g use_sin W IM in
    map (fun r => coeffs (g_N g) (pixels meth g wq dq r)) (seq 0 (g_rmax g + 1)).

  Definition distr_valid (meth : method) (g : geom) (use_sin : bool) (W : option img) : list bool :=
    map (fun r => valid (g_N g) (pixels meth g (QW g use_sin W) (fun _ _ => zero) r))
        (seq 0 (g_rmax g + 1)).
End Fit.
