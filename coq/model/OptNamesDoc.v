(* OptNamesDoc.v — the DOCUMENTED values of the name-valued options of the
   request space of C20 (from the docstrings of abel.Transform,
   tools.center.set_center / find_origin, tools.symmetry.get_image_quadrants,
   daun_transform, rbasex_transform and tools.vmi.Distributions), sorted.
   An option value is "outside its documented set" (opt classes BadCrop,
   BadOrigin, BadSymMethod, BadMethod, DaunReg*, DaunDegree, RbasexReg*,
   RbasexOut, RbasexRmax of model/Dispatch.v) when it is not in these lists. *)
From Coq Require Import String ZArith List Bool.
Import ListNotations.
Open Scope string_scope.

Definition doc_crop_names := ["maintain_data"; "maintain_size"; "valid_region"].
Definition doc_symmetrize_names := ["average"; "fourier"].
Definition doc_daun_reg_types := ["L2"; "L2c"; "diff"].       (* reg = (type, strength) *)
Definition doc_daun_reg_strings := ["nonneg"].                 (* reg = 'nonneg' *)
Definition doc_daun_degrees := [0; 1; 2; 3]%Z.
Definition doc_rbasex_out_names := ["fold"; "full"; "full-unique"; "same"; "unfold"].
Definition doc_rbasex_reg_types := ["L2"; "SVD"; "diff"].      (* reg = (type, strength) *)
Definition doc_rbasex_reg_strings := ["pos"].                  (* reg = 'pos' *)
Definition doc_rmax_names := ["HOR"; "MAX"; "MIN"; "VER"; "all"; "hor"; "max"; "min"; "ver"].
Definition doc_origin_methods := ["com"; "convolution"; "gaussian"; "image_center"; "slice"].
Definition doc_transform_methods :=
  ["basex"; "daun"; "direct"; "hansenlaw"; "linbasex"; "onion_bordas"; "onion_peeling";
   "rbasex"; "three_point"; "two_point"].

Definition mem (s : string) (l : list string) : bool := existsb (String.eqb s) l.
(* all of the given candidate values are outside the documented set *)
Definition all_outside (cands doc : list string) : bool := forallb (fun s => negb (mem s doc)) cands.
