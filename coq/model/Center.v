(* Center.v — executable model of abel/tools/center.py
     set_center    (center.py:176-350)
     center_image  (center.py:60-173)
   Whole-pixel centring (order = 0 or integral origin) moves pixel values only,
   so that part (set_center_int) is polymorphic in the pixel type with a single
   constant "zero".  The order-1 fractional path (two-tap linear interpolation
   with zero padding, what scipy.ndimage.shift(order=1, mode='constant')
   computes on the padded array) needs + - * and is written over a carrier with
   those operations; it is instantiated with Q for execution (model/CenterQ.v)
   and with R for the theorems.  Orders 2..5 with a fractional origin (spline
   prefilter inside scipy) are not modelled: the model answers Unmodelled. *)
From Coq Require Import List Arith Lia Bool ZArith QArith Qround.
From PA Require Import base.Arr base.Px.
Import ListNotations.

Set Implicit Arguments.
Local Open Scope nat_scope.

Inductive crop := MaintainSize | ValidRegion | MaintainData | OtherCrop.

Inductive outcome (T : Type) := Ok (v : T) | Raises | Unmodelled.
Arguments Raises {T}.
Arguments Unmodelled {T}.

(* ---- Python basic slices a[s:e] (step 1) ---------------------------------- *)
(* slice.indices(n) for one bound: negative values count from the end, then
   clip to [0, n] *)
Definition norm_idx (n : nat) (k : Z) : nat :=
  if (k <? 0)%Z then Z.to_nat (Z.max 0 (k + Z.of_nat n)) else Nat.min n (Z.to_nat k).

(* (start, length) of a[s:e] on an axis of length n *)
Definition slice_bounds (n : nat) (s e : Z) : nat * nat :=
  let s' := norm_idx n s in (s', norm_idx n e - s').

Definition pyslice (X : Type) (s e : Z) (l : list X) : list X :=
  let '(s', len) := slice_bounds (length l) s e in firstn len (skipn s' l).

(* a[s:e] with omitted bounds (None) *)
Definition pyslice_o (X : Type) (s e : option Z) (l : list X) : list X :=
  pyslice (match s with Some v => v | None => 0%Z end)
          (match e with Some v => v | None => Z.of_nat (length l) end) l.

(* ---- origin preprocessing, center.py:242-270 ------------------------------ *)
(* int(x): truncation towards zero *)
Definition qtrunc (q : Q) : Z := Z.quot (Qnum q) (Zpos (Qden q)).
(* Python 3 round(x): to nearest, ties to even *)
Definition qround_even (q : Q) : Z :=
  let f := Qfloor q in
  match Qcompare (q - inject_Z f)%Q (1 # 2)%Q with
  | Lt => f
  | Gt => (f + 1)%Z
  | Eq => if Z.even f then f else (f + 1)%Z
  end.

(* one not-None component: (whole-pixel origin, subpixel part) *)
Definition prep_axis (n : nat) (order : nat) (o : Q) : Z * Q :=
  let o1 := (if Qle_bool 0 o then o else o + inject_Z (Z.of_nat n))%Q in   (* if origin[a] < 0: += shape[a] *)
  match order with
  | O => (qround_even o1, 0%Q)                       (* int(round(origin[a])) *)
  | _ => let i := qtrunc o1 in (i, (o1 - inject_Z i)%Q)  (* i = int(origin[a]); subpixel = origin[a] - i *)
  end.

(* ---- one axis, whole pixels ------------------------------------------------ *)
(* 'maintain_size', center.py:287-300: source and destination slices *)
Definition ms_bounds (n : nat) (o : Z) : (nat * nat) * (nat * nat) :=
  let nz := Z.of_nat n in
  let delta := (Z.of_nat (n / 2) - o)%Z in
  let dpos := Z.max 0 delta in
  let dneg := Z.max 0 (- delta) in
  (slice_bounds n dneg (nz - dpos), slice_bounds n dpos (nz - dneg)).

(* numpy accepts out[dst] = data[src] when the lengths agree or the source has
   length 1 (broadcast); otherwise ValueError *)
Definition ms_ok (n : nat) (o : Z) : bool :=
  let '((_, sl), (_, dl)) := ms_bounds n o in Nat.eqb sl dl || Nat.eqb sl 1.

Definition opt_ok (f : nat -> Z -> bool) (n : nat) (o : option Z) : bool :=
  match o with Some k => f n k | None => true end.

Section Axis.
  Variable X : Type.

  Definition ms_axis (z : X) (o : Z) (l : list X) : list X :=
    let n := length l in
    let '((ss, sl), (ds, dl)) := ms_bounds n o in
    let src := firstn sl (skipn ss l) in
    let mid := if Nat.eqb sl dl then src else repeat (hd z src) dl in
    repeat z ds ++ mid ++ repeat z (n - ds - dl).

  (* 'valid_region', center.py:325-333 *)
  Definition vr_axis (o : Z) (l : list X) : list X :=
    let o_ := (Z.of_nat (length l) - 1 - o)%Z in
    let d := Z.min o o_ in
    pyslice (o - d) (o + d + 1) l.

  (* 'maintain_data', center.py:337-346 *)
  Definition md_axis (z : X) (o : Z) (l : list X) : list X :=
    let o_ := (Z.of_nat (length l) - 1 - o)%Z in
    let d := Z.max o o_ in
    repeat z (Z.to_nat (d - o)) ++ l ++ repeat z (Z.to_nat (d - o_)).

  (* an axis that is not selected (or whose origin is None) keeps slice(None) *)
  Definition ax_opt (f : Z -> list X -> list X) (o : option Z) (l : list X) : list X :=
    match o with Some k => f k l | None => l end.
End Axis.

Section Core.
  Variable A : Type.
  Variable zero : A.
  Notation img := (list (list A)).

  (* whole-pixel centring; o0 / o1 = None when the axis is not centred *)
  Definition set_center_int (data : img) (o0 o1 : option Z) (cr : crop) : option img :=
    let n := nrows data in
    let m := ncols data in
    match cr with
    | MaintainSize =>
      if opt_ok ms_ok n o0 && opt_ok ms_ok m o1 then
        let d1 := map (ax_opt (ms_axis zero) o1) data in
        Some (ax_opt (ms_axis (repeat zero m)) o0 d1)
      else None
    | ValidRegion =>
      let d1 := map (ax_opt (@vr_axis A) o1) data in
      Some (ax_opt (@vr_axis (list A)) o0 d1)
    | MaintainData =>
      let d1 := map (ax_opt (md_axis zero) o1) data in
      Some (ax_opt (md_axis (repeat zero (ncols d1))) o0 d1)
    | OtherCrop => None
    end.

  (* ---- center_image trimming, center.py:137-162 --------------------------- *)
  Definition ci_trim (odd_size square : bool) (IM : img) : img :=
    let rows := nrows IM in
    let cols := ncols IM in
    let IM := if odd_size && Nat.even cols then map (pyslice 0 (-1)) IM else IM in   (* IM[:, :-1] *)
    let rows := nrows IM in
    let cols := ncols IM in
    if square && negb (Nat.eqb rows cols) then
      if cols <? rows then
        let diff := rows - cols in
        let trim := diff / 2 in
        let IM := if 0 <? trim then pyslice (Z.of_nat trim) (- Z.of_nat trim) IM else IM in
        if Nat.eqb (diff mod 2) 1 then pyslice 0 (-1) IM else IM
      else
        let '(IM, rows) := if odd_size && Nat.even rows
                           then (pyslice 0 (-1) IM, rows - 1) else (IM, rows) in
        let xs := Z.of_nat ((cols - rows) / 2) in
        map (pyslice xs (xs + Z.of_nat rows)) IM                                      (* IM[:, xs:xs + rows] *)
    else IM.
End Core.

(* ---- fractional origin, order = 1 ----------------------------------------- *)
Section Lin.
  Variable A : Type.
  Variables (zero one : A) (add sub mul : A -> A -> A).
  Notation img := (list (list A)).

  Definition tabulate (n m : nat) (f : nat -> nat -> A) : img :=
    map (fun i => map (f i) (seq 0 m)) (seq 0 n).

  (* pixel of the zero-extended image *)
  Definition pxz (IM : img) (i j : Z) : A :=
    if (i <? 0)%Z || (j <? 0)%Z then zero else px zero IM (Z.to_nat i) (Z.to_nat j).

  (* out[i][j] = bilinear interpolation of the zero-extended image at
     (i + off0 + t0, j + off1 + t1),  0 <= t < 1 *)
  Definition lin2 (n' m' : nat) (off0 : Z) (t0 : A) (off1 : Z) (t1 : A) (IM : img) : img :=
    tabulate n' m' (fun i j =>
      let a := (Z.of_nat i + off0)%Z in
      let b := (Z.of_nat j + off1)%Z in
      add (mul (sub one t0) (add (mul (sub one t1) (pxz IM a b)) (mul t1 (pxz IM a (b + 1)))))
          (mul t0 (add (mul (sub one t1) (pxz IM (a + 1) b)) (mul t1 (pxz IM (a + 1) (b + 1)))))).

  Variable ofQ : Q -> A.

  Definition qfrac (s : Q) : Q := (s - inject_Z (Qfloor s))%Q.

  (* center.py:278-286 (maintain_size) and 304-324 (other modes) with order=1.
     p0, p1: preprocessed components (None when the origin component is None
     or the axis is not in axes, center.py:250-251). *)
  Definition set_center_lin (data : img) (p0 p1 : option (Z * Q)) (cr : crop)
    : outcome img :=
    let n := nrows data in
    let m := ncols data in
    match cr with
    | MaintainSize =>
      let par (p : option (Z * Q)) (len : nat) :=
          match p with
          | Some (i, s) => ((i - Z.of_nat (len / 2) + Qfloor s)%Z, ofQ (qfrac s))
          | None => (0%Z, zero)
          end in
      let '(off0, t0) := par p0 n in
      let '(off1, t1) := par p1 m in
      Ok (lin2 n m off0 t0 off1 t1 data)
    | OtherCrop => Raises
    | _ =>
      (* data = shift(np.pad(data, 1), -subpixel, order)[:-1, :-1]
         (subpixel = 0 for an axis that is not centred) *)
      let par (p : option (Z * Q)) :=
          match p with
          | Some (_, s) => ((Qfloor s - 1)%Z, ofQ (qfrac s))
          | None => ((-1)%Z, zero)
          end in
      let '(off0, t0) := par p0 in
      let '(off1, t1) := par p1 in
      let data1 := lin2 (n + 1) (m + 1) off0 t0 off1 t1 data in
      let frac (p : option (Z * Q)) := match p with Some (_, s) => negb (Qeq_bool s 0%Q) | None => false end in
      let cut (X : Type) (p : option (Z * Q)) (l : list X) : list X :=
          if frac p then
            match cr with ValidRegion => droplast 1 (skipn 1 l) | _ => l end
          else skipn 1 l in
      let org (p : option (Z * Q)) : option Z :=
          match p with
          | Some (i, _) =>
            Some (if frac p then match cr with ValidRegion => i | _ => (i + 1)%Z end else i)
          | None => None
          end in
      let data2 := cut _ p0 (map (cut _ p1) data1) in
      match set_center_int zero data2 (org p0) (org p1) cr with
      | Some out => Ok out
      | None => Raises
      end
    end.

  (* set_center(data, origin, crop, axes, order) *)
  Definition set_center (data : img) (or0 or1 : option Q) (cr : crop) (ax0 ax1 : bool) (order : nat)
    : outcome img :=
    let n := nrows data in
    let m := ncols data in
    (* a component that is None or whose axis is not in axes is skipped *)
    let p0 := if ax0 then option_map (prep_axis n order) or0 else None in
    let p1 := if ax1 then option_map (prep_axis m order) or1 else None in
    let sub (p : option (Z * Q)) := match p with Some (_, s) => s | None => 0%Q end in
    let whole := Qeq_bool (sub p0) 0%Q && Qeq_bool (sub p1) 0%Q in          (* np.all(subpixel == 0) *)
    if Nat.eqb order 0 || whole then
      match set_center_int zero data (option_map fst p0) (option_map fst p1) cr with
      | Some out => Ok out
      | None => Raises
      end
    else if Nat.eqb order 1 then set_center_lin data p0 p1 cr
    else Unmodelled.

  (* center_image with an explicit origin (meth = Some origin) or
     method='image_center' (meth = None) *)
  Definition center_image (IM : img) (meth : option (option Q * option Q)) (odd_size square : bool)
             (ax0 ax1 : bool) (cr : crop) (order : nat) : outcome img :=
    let IM1 := ci_trim odd_size square IM in
    let origin := match meth with
                  | Some o => o
                  | None => (Some (inject_Z (Z.of_nat (nrows IM1 / 2))),
                             Some (inject_Z (Z.of_nat (ncols IM1 / 2))))
                  end in
    set_center IM1 (fst origin) (snd origin) cr ax0 ax1 order.
End Lin.
