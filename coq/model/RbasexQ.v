(* RbasexQ.v — model/RbasexOut.v run in the fixed-point arithmetic of
   model/DistrQ.v and compared with one rbasex_transform call
   (tools/props/C16.py). *)
From Coq Require Import List Arith Bool ZArith QArith Qabs String.
From PA Require Import base.Arr base.Px base.QClose base.MatL model.DistrGeom model.DistrFit
  model.DistrQ model.RbasexOut.
Import ListNotations.

Record ocase := {
  oc_h : nat; oc_w : nat; oc_origin : origin; oc_rmax : rmax_in; oc_order : nat; oc_odd : bool;
  oc_out : outv;
  oc_history : list outv;                  (* out values of earlier calls with the same image and
                                              parameters, without cache clean-up *)
  oc_sqrt : sqrt_tab;
  oc_geom : nat * nat * nat * nat * nat;   (* _dst.row, col, rmax, Qheight, Qwidth *)
  oc_cos : list (list Q);                  (* distr.cos(): [n][r] *)
  oc_recon : list (list Q) }.              (* the returned image *)

Definition Qmaxabs (M : list (list Q)) : Q :=
  fold_left (fun m r => fold_left (fun m' v => if Qle_bool m' (Qabs v) then Qabs v else m') r m) M 0%Q.

(* |x - y| <= 2^-40 * scale *)
Definition qclose_s (scale x y : Q) : bool := Qle_bool (Qabs (x - y)) (qtol * scale).

Definition sqrt_covers_dims (t : sqrt_tab) (bs : ibs) : bool :=
  let '(height, width, brow) := bs in
  forallb (fun a => forallb (fun b => match sqrt_lookup t (ir2 brow a b) with Some _ => true | None => false end)
                            (seq 0 width)) (seq 0 height).

(* [geometry agrees; sqrt table valid and complete; shape agrees; pixels agree] *)
Definition ocheck_parts (c : ocase) : list bool :=
  match precalc (oc_h c) (oc_w c) (oc_origin c) (oc_rmax c) (oc_order c) (oc_odd c) with
  | POk g =>
    let '(row, col, rmax, Qh, Qw) := oc_geom c in
    let cache := cache_after_history g (oc_history c) in
    let bs := fst (get_image_bs cache g (out_dims (oc_out c) g)) in
    let R := recon Qops (sqrtQ (oc_sqrt c)) cache (oc_out c) g (fximg (oc_cos c)) in
    let scale := (1 + inject_Z (Z.of_nat (List.length (oc_cos c))) * Qmaxabs (oc_cos c))%Q in
    [Nat.eqb (g_row g) row && Nat.eqb (g_col g) col && Nat.eqb (g_rmax g) rmax
     && Nat.eqb (g_Qh g) Qh && Nat.eqb (g_Qw g) Qw
     && forallb (fun r => Nat.eqb (List.length r) (rmax + 1)) (oc_cos c)
     && Nat.eqb (List.length (oc_cos c)) (g_N g);
     sqrt_tab_ok (oc_sqrt c) && sqrt_covers_dims (oc_sqrt c) bs;
     Nat.eqb (fst (shape_of R)) (fst (shape_of (oc_recon c)))
     && Nat.eqb (snd (shape_of R)) (snd (shape_of (oc_recon c)));
     list_all2 (list_all2 (qclose_s scale)) R (oc_recon c)]
  | _ => [false]
  end.
Definition ocheck (c : ocase) : bool := forallb (fun b => b) (ocheck_parts c).
