(* DistrQ.v — the Distributions model (DistrGeom.v, DistrFit.v) instantiated
   with exact rationals, and the comparison against one run of
   abel.tools.vmi.Distributions as written by tools/props/C14.py. *)
From Coq Require Import List Arith Bool ZArith QArith Qabs String.
From PA Require Import base.Arr base.Px base.QClose base.MatL model.DistrGeom gen.VmiInv model.DistrFit.
Import ListNotations.

(* Fixed-point arithmetic on rationals with the fixed denominator 2^100:
   every value is n # 2^100; sums are exact, products and quotients are
   rounded down to a multiple of 2^-100.  (Exact rationals are unusable here:
   the cosines y/r with r a binary64 square root have pairwise different
   53-bit denominators, so exact moment sums grow to tens of thousands of
   bits.)  The rounding error is far below the comparison tolerance 2^-40;
   integers and binary64 inputs of magnitude >= 2^-48 are represented
   exactly.  Inputs are converted with fx. *)
Definition fxbits : N := 100%N.
Definition fxden : positive := Eval vm_compute in (2 ^ 100)%positive.
Definition fx (q : Q) : Q := ((Qnum q * Zpos fxden) / Zpos (Qden q))%Z # fxden.
Definition Qops : field_ops Q :=
  FieldOps (0 # fxden) (Zpos fxden # fxden)
           (fun x y => (Qnum x + Qnum y)%Z # fxden)
           (fun x y => (Qnum x - Qnum y)%Z # fxden)
           (fun x y => Z.shiftr (Qnum x * Qnum y) (Z.of_N fxbits) # fxden)
           (fun x y => (if Z.eqb (Qnum y) 0 then 0 else (Qnum x * Zpos fxden) / Qnum y)%Z # fxden)
           (fun x => (- Qnum x)%Z # fxden)
           (fun x y => Z.eqb (Qnum x) (Qnum y)).
Definition fximg (X : list (list Q)) : list (list Q) := map (map fx) X.

(* square roots of the naturals the model needs, supplied by the harness as
   the binary64 value of numpy.sqrt and validated here by squaring:
   |s^2 - n| <= 2^-50 n, s >= 0 *)
Definition sqrt_tab := list (nat * Q).
Definition qn (n : nat) : Q := inject_Z (Z.of_nat n).
Definition sqrt_entry_ok (e : nat * Q) : bool :=
  let '(n, s) := e in
  Qle_bool 0 s && Qle_bool (Qabs (s * s - qn n)) (qn n * (1 # 1125899906842624)).
Definition sqrt_tab_ok (t : sqrt_tab) : bool := forallb sqrt_entry_ok t.
Fixpoint sqrt_lookup (t : sqrt_tab) (n : nat) : option Q :=
  match t with
  | [] => None
  | (m, s) :: t' => if Nat.eqb m n then Some s else sqrt_lookup t' n
  end.
Definition sqrtQ (t : sqrt_tab) (n : nat) : Q :=
  match sqrt_lookup t n with Some s => fx s | None => fx 0 end.
(* every r^2 of the quadrant has an entry *)
Definition sqrt_tab_covers (t : sqrt_tab) (g : geom) : bool :=
  forallb (fun ab => match sqrt_lookup t (r2n g (fst ab) (snd ab)) with Some _ => true | None => false end)
          (quad_idx g).

Arguments Sl (_ _ _)%Z.
Arguments OTuple (_ _)%Z.
Arguments RInt _%Z.

Definition slice_eqb (a b : pyslice) : bool :=
  Z.eqb (s_start a) (s_start b) && Z.eqb (s_stop a) (s_stop b) && Z.eqb (s_step a) (s_step b).
Definition region_eqb (a b : region) : bool :=
  let '((a1, a2), (a3, a4)) := a in let '((b1, b2), (b3, b4)) := b in
  slice_eqb a1 b1 && slice_eqb a2 b2 && slice_eqb a3 b3 && slice_eqb a4 b4.
Definition nat_list_eqb := list_all2 Nat.eqb.
Definition bool_list_eqb := list_all2 Bool.eqb.

(* ---- geometry cases ---------------------------------------------------- *)
(* attributes of a Distributions object after _precalc; when fold is false
   `regions` is empty and `flip` holds flip_row/flip_col, and conversely *)
Record geom_obs := {
  o_row : nat; o_col : nat; o_VER : nat; o_HOR : nat; o_rmax : nat; o_odd : bool; o_N : nat;
  o_Qh : nat; o_Qw : nat; o_fold : bool; o_flip : pyslice * pyslice; o_regions : list region;
  o_bin : list (list nat); o_valid : list bool }.

Inductive gexpect := GValueError | GOk (o : geom_obs).

Record gcase := {
  gc_h : nat; gc_w : nat; gc_origin : origin; gc_rmax : rmax_in; gc_order : nat; gc_odd : bool;
  gc_meth : method; gc_sin : bool; gc_expect : gexpect }.

Definition geom_matches (meth : method) (g : geom) (o : geom_obs) : bool :=
  Nat.eqb (g_row g) (o_row o) && Nat.eqb (g_col g) (o_col o)
  && Nat.eqb (g_VER g) (o_VER o) && Nat.eqb (g_HOR g) (o_HOR o)
  && Nat.eqb (g_rmax g) (o_rmax o) && Bool.eqb (g_odd g) (o_odd o) && Nat.eqb (g_N g) (o_N o)
  && Nat.eqb (g_Qh g) (o_Qh o) && Nat.eqb (g_Qw g) (o_Qw o) && Bool.eqb (g_fold g) (o_fold o)
  && (if g_fold g then list_all2 region_eqb (g_regions g) (o_regions o)
      else slice_eqb (fst (g_flip g)) (fst (o_flip o)) && slice_eqb (snd (g_flip g)) (snd (o_flip o)))
  && geom_ok g
  && list_all2 nat_list_eqb (tab (g_Qh g) (g_Qw g) (bin meth g)) (o_bin o).

(* valid with unit weights does not need square roots: the weights only have
   to be known to be zero or not; sqrt is replaced by any positive value
   except that wu = 0 exactly when r^2 is a perfect square *)
Definition sqrt_sign (n : nat) : Q :=
  let s := Nat.sqrt n in fx (if Nat.eqb (s * s) n then qn s else qn s + (1 # 2)).

(* The flag valid[r] = (C[r,0,0] != 0) is decided by the code through float
   tests `d == 0`; it is determined by exact arithmetic only when the bin has
   no weight at all (then it is False) or when the Hankel matrix is
   well-conditioned (then True); for N = 1 always.  With sqrt_sign only the
   first case and N = 1 can be decided. *)
Definition has_weight (px : list (pixel Q)) : bool := negb (feqb Qops (moment Qops 0 px) (f0 Qops)).
Definition gvalid_ok (N : nat) (px : list (pixel Q)) (obs : bool) : bool :=
  if has_weight px then (if Nat.eqb N 1 then obs else true) else negb obs.

Definition gcheck (c : gcase) : bool :=
  match precalc (gc_h c) (gc_w c) (gc_origin c) (gc_rmax c) (gc_order c) (gc_odd c), gc_expect c with
  | PValueError, GValueError => true
  | POk g, GOk o =>
    geom_matches (gc_meth c) g o
    && (let wq := QW Qops sqrt_sign g (gc_sin c) None in
        list_all2 (fun r ob => gvalid_ok (g_N g) (pixels Qops sqrt_sign (gc_meth c) g wq
                                                         (fun _ _ => f0 Qops) r) ob)
                  (seq 0 (g_rmax g + 1)) (o_valid o))
  | _, _ => false
  end.

(* ---- value cases -------------------------------------------------------- *)
Record vcase := {
  vc_h : nat; vc_w : nat; vc_origin : origin; vc_rmax : rmax_in; vc_order : nat; vc_odd : bool;
  vc_meth : method; vc_sin : bool;
  vc_W : option (list (list Q)); vc_IM : list (list Q);
  vc_sqrt : sqrt_tab;
  vc_obs : geom_obs;
  vc_Q : list (list Q);        (* the folded weighted image, from the object's own slices *)
  vc_cos : list (list Q)       (* Results.cos(): [n][r] *)
}.

Local Open Scope Q_scope.
Definition Qmax (a b : Q) : Q := if Qle_bool a b then b else a.

(* magnitudes used for the comparison tolerance: the same cofactor formulas
   with every term replaced by its absolute value *)
Definition absmom (n : nat) (px : list (pixel Q)) : Q :=
  sum Qops (map (fun t => let '(_, x, q) := t in fmul Qops (Qabs q) (Qabs (cpow Qops x n))) px).

(* (kd, [sum_j Mabs_ij pabs_j]) ; None when the matrix is singular.
   ms = moments 0..4, pa = absolute data moments 0..2 *)
Definition tol_rows_of (N : nat) (ms pa : list Q) : option (Q * list Q) :=
  let p (k : nat) := nth k ms 0 in
  let m (k : nat) := Qabs (nth k ms 0) in
  let a (k : nat) := nth k pa 0 in
  let p0 := p 0%nat in let p1 := p 1%nat in let p2 := p 2%nat in let p3 := p 3%nat in let p4 := p 4%nat in
  let m0 := m 0%nat in let m1 := m 1%nat in let m2 := m 2%nat in let m3 := m 3%nat in let m4 := m 4%nat in
  let a0 := a 0%nat in let a1 := a 1%nat in let a2 := a 2%nat in
  match N with
  | 1%nat => if Qeq_bool m0 0 then None else Some (0, [a0 / m0])
  | 2%nat =>
    let d := p0 * p2 - p1 * p1 in
    if Qeq_bool d 0 then None else
    Some ((m0 * m2 + m1 * m1) / Qabs d, [(m2 * a0 + m1 * a1) / Qabs d; (m1 * a0 + m0 * a1) / Qabs d])
  | 3%nat =>
    let d := p0 * (p2 * p4 - p3 * p3) + p1 * (p2 * p3 - p1 * p4) + p2 * (p1 * p3 - p2 * p2) in
    if Qeq_bool d 0 then None else
    let A00 := m2 * m4 + m3 * m3 in let A01 := m2 * m3 + m1 * m4 in
    let A02 := m1 * m3 + m2 * m2 in let A11 := m0 * m4 + m2 * m2 in
    let A12 := m1 * m2 + m0 * m3 in let A22 := m0 * m2 + m1 * m1 in
    Some ((m0 * A00 + m1 * A01 + m2 * A02) / Qabs d,
          [(A00 * a0 + A01 * a1 + A02 * a2) / Qabs d;
           (A01 * a0 + A11 * a1 + A12 * a2) / Qabs d;
           (A02 * a0 + A12 * a1 + A22 * a2) / Qabs d])
  | _ => None
  end.

Definition tol_rows (N : nat) (px : list (pixel Q)) : option (Q * list Q) :=
  if Nat.ltb 3 N then None else
  tol_rows_of N (map (fun k => Qred (moment Qops k px)) (seq 0 (2 * N - 1)))
                (map (fun k => Qred (absmom k px)) (seq 0 N)).

Definition kd_limit : Q := 1048576.

(* outcome per radius: 0 = compared and close, 1 = skipped (singular /
   ill-conditioned / N > 3), 2 = compared and different *)
Definition cmp_radius (N : nat) (px : list (pixel Q)) (obs : list Q) : nat :=
  match tol_rows N px, coeffs Qops N px with
  | Some (kd, rows), Some cs =>
    if Qle_bool kd kd_limit then
      if list_all2 (fun cr o => Qle_bool (Qabs (fst cr - o)) (qtol * (1 + kd) * (1 + snd cr)))
                   (combine cs rows) obs
      then 0%nat else 2%nat
    else 1%nat
  | _, _ => 1%nat
  end.

Definition valid_ok (N : nat) (px : list (pixel Q)) (obs : bool) : bool :=
  if has_weight px then
    match tol_rows N px with
    | Some (kd, _) => if Qle_bool kd kd_limit then obs else true
    | None => true
    end
  else negb obs.

Definition column (M : list (list Q)) (r : nat) : list Q := map (fun row => nth r row 0) M.

Definition fxW (c : vcase) := option_map fximg (vc_W c).

Definition vresult (c : vcase) : bool * list nat :=
  match precalc (vc_h c) (vc_w c) (vc_origin c) (vc_rmax c) (vc_order c) (vc_odd c) with
  | POk g =>
    let sq := sqrtQ (vc_sqrt c) in
    let IMx := fximg (vc_IM c) in
    let X := match fxW c with Some Wt => imul Qops Wt IMx | None => IMx end in
    let ok :=
      geom_matches (vc_meth c) g (vc_obs c)
      && sqrt_tab_ok (vc_sqrt c) && sqrt_tab_covers (vc_sqrt c) g
      && wfb (vc_h c) (vc_w c) (vc_IM c)
      && match vc_W c with Some Wt => wfb (vc_h c) (vc_w c) Wt | None => true end
      && img_close (fold_image (f0 Qops) (fadd Qops) g X) (vc_Q c) in
    let wq := QW Qops sq g (vc_sin c) (fxW c) in
    let dq := QD Qops sq g (vc_sin c) (fxW c) IMx in
    let rs := map (fun r => let px := pixels Qops sq (vc_meth c) g wq dq r in
                            (valid_ok (g_N g) px (nth r (o_valid (vc_obs c)) false),
                             cmp_radius (g_N g) px (column (vc_cos c) r)))
                  (seq 0 (g_rmax g + 1)%nat) in
    (ok && Nat.eqb (List.length (o_valid (vc_obs c))) (g_rmax g + 1) && forallb fst rs, map snd rs)
  | _ => (false, [])
  end.

(* (case agrees, radii compared, radii skipped) *)
Definition vcheck (c : vcase) : bool * nat * nat :=
  let '(ok, rs) := vresult c in
  (ok && negb (existsb (Nat.eqb 2) rs),
   List.length (filter (Nat.eqb 0) rs), List.length (filter (Nat.eqb 1) rs)).
