(* Symmetry.v — executable model of abel/tools/symmetry.py
     get_image_quadrants  (symmetry.py:113-191)
     put_image_quadrants  (symmetry.py:249-278)
   written over an arbitrary carrier A with the three operations the code
   applies to pixel values: +, division by a small natural number (the number
   of enabled quadrants) and the constant 0 (a quadrant times False).
   The same polymorphic definitions are instantiated with Q for execution
   (correspondence with the implementation) and with R for the theorems. *)
From Coq Require Import List Arith Lia Bool ZArith.
From PA Require Import base.Arr.
Import ListNotations.

Set Implicit Arguments.

(* Python value of the symmetry_axis argument after symmetry.py:115-117
   ("if not isinstance(symmetry_axis, (list, tuple)): symmetry_axis =
   [symmetry_axis]"): a list or a tuple of None / int. *)
Record axis := { ax_tuple : bool; ax_elems : list (option Z) }.

Definition ax_None  := {| ax_tuple := false; ax_elems := [None] |}.      (* None   -> [None] *)
Definition ax_0     := {| ax_tuple := false; ax_elems := [Some 0%Z] |}.  (* 0      -> [0]    *)
Definition ax_1     := {| ax_tuple := false; ax_elems := [Some 1%Z] |}.  (* 1      -> [1]    *)
Definition ax_both  := {| ax_tuple := true;  ax_elems := [Some 0%Z; Some 1%Z] |}.   (* (0, 1) *)
Definition ax_list01 := {| ax_tuple := false; ax_elems := [Some 0%Z; Some 1%Z] |}.  (* [0, 1] *)
Definition ax_tuple10 := {| ax_tuple := true; ax_elems := [Some 1%Z; Some 0%Z] |}.  (* (1, 0) *)

Definition oz_eqb (a b : option Z) : bool :=
  match a, b with
  | None, None => true
  | Some x, Some y => Z.eqb x y
  | _, _ => false
  end.

Definition ax_has (k : Z) (a : axis) : bool := existsb (oz_eqb (Some k)) (ax_elems a).

Fixpoint oz_list_eqb (a b : list (option Z)) : bool :=
  match a, b with
  | [], [] => true
  | x :: a', y :: b' => oz_eqb x y && oz_list_eqb a' b'
  | _, _ => false
  end.

(* symmetry_axis == [None], == [0], == [1]: list equality, false for tuples *)
Definition ax_is_list (l : list (option Z)) (a : axis) : bool :=
  negb (ax_tuple a) && oz_list_eqb (ax_elems a) l.

Inductive smethod := Average | Fourier | OtherMethod.

Inductive result (T : Type) := Ok (v : T) | ValueError.
Arguments ValueError {T}.

Record mask := { u0 : bool; u1 : bool; u2 : bool; u3 : bool }.
Definition mask_all := {| u0 := true; u1 := true; u2 := true; u3 := true |}.
Definition b2n (b : bool) : nat := if b then 1 else 0.
Definition mask_count (u : mask) : nat := b2n (u0 u) + b2n (u1 u) + b2n (u2 u) + b2n (u3 u).

(* the rejection test, symmetry.py:119-138 *)
Definition rejects (a : axis) (u : mask) : bool :=
  (ax_is_list [None] a && (negb (u0 u) || negb (u1 u) || negb (u2 u) || negb (u3 u)))
  || (ax_is_list [Some 0%Z] a && negb (u0 u) && negb (u1 u))
  || (ax_is_list [Some 0%Z] a && negb (u2 u) && negb (u3 u))
  || (ax_is_list [Some 1%Z] a && negb (u1 u) && negb (u2 u))
  || (ax_is_list [Some 1%Z] a && negb (u0 u) && negb (u3 u))
  || Nat.eqb (mask_count u) 0.

(* "both axes" test of the averaging branch (symmetry.py:177):
   0 in symmetry_axis and 1 in symmetry_axis -- true for (0, 1), [0, 1], (1, 0). *)
Definition both_axes (a : axis) : bool := ax_has 0 a && ax_has 1 a.

Definition ceil2 (n : nat) : nat := n / 2 + n mod 2.

Section Carrier.
  Variable A : Type.
  Variable zero : A.
  Variable add : A -> A -> A.
  Variable divn : A -> nat -> A.      (* x / k, k the number of enabled quadrants *)

  Notation img := (list (list A)).

  Definition imadd := imap2 add.
  Definition imdiv (k : nat) (a : img) : img := imap (fun x => divn x k) a.
  Definition imzero (a : img) : img := imap (fun _ => zero) a.
  Definition immask (b : bool) (a : img) : img := if b then a else imzero a.

  (* symmetry.py real_components(): dropping the imaginary Fourier components
     taken relative to the image centre, ifft((fft(x) * phase).real / phase).real
     with phase[k] = exp(i pi k (m-1)/m), is  g[j] = (f[j] + f[m-1-j]) / 2  along
     the last axis (DFT shift identity; taken as a modelling fact, validated by
     the correspondence check, not proved).  Along axis 0 the same on IM.T. *)
  Definition fourier_lr (IM : img) : img := imdiv 2 (imadd IM (fliplr IM)).
  Definition fourier_ud (IM : img) : img := imdiv 2 (imadd IM (flipud IM)).

  Definition quads := (img * img * img * img)%type.

  Definition get_quadrants (IM : img) (reorient : bool) (a : axis) (u : mask)
             (meth : smethod) : result quads :=
    if rejects a u then ValueError else
    let n := nrows IM in let m := ncols IM in
    let nc := ceil2 n in let mc := ceil2 m in
    if ax_tuple a && negb reorient then ValueError else
    let IM1 := match meth with
               | Fourier =>
                 let IMa := if ax_has 0 a then fourier_lr IM else IM in
                 if ax_has 1 a then fourier_ud IMa else IMa
               | _ => IM end in
    (* "will use all 4 quadrants": use_quadrants is reset for the Fourier method *)
    let u := match meth with
             | Fourier => if Nat.ltb (mask_count u) 4 then mask_all else u
             | _ => u end in
    let Q0 := immask (u0 u) (cols_last mc (rows_first nc IM1)) in
    let Q1 := immask (u1 u) (cols_first mc (rows_first nc IM1)) in
    let Q2 := immask (u2 u) (cols_first mc (rows_last nc IM1)) in
    let Q3 := immask (u3 u) (cols_last mc (rows_last nc IM1)) in
    let Q1 := if reorient then fliplr Q1 else Q1 in
    let Q3 := if reorient then flipud Q3 else Q3 in
    let Q2 := if reorient then fliplr (flipud Q2) else Q2 in
    match meth with
    | Fourier => Ok (Q0, Q1, Q2, Q3)
    | Average =>
      if both_axes a then
        let Q := imdiv (mask_count u) (imadd (imadd (imadd Q0 Q1) Q2) Q3) in
        Ok (Q, Q, Q, Q)
      else
        let '(Q0, Q1, Q2, Q3) :=
          if ax_has 0 a then
            let Q01 := imdiv (b2n (u0 u) + b2n (u1 u)) (imadd Q0 Q1) in
            let Q23 := imdiv (b2n (u2 u) + b2n (u3 u)) (imadd Q2 Q3) in
            (Q01, Q01, Q23, Q23)
          else (Q0, Q1, Q2, Q3) in
        let '(Q0, Q1, Q2, Q3) :=
          if ax_has 1 a then
            let Q12 := imdiv (b2n (u1 u) + b2n (u2 u)) (imadd Q1 Q2) in
            let Q03 := imdiv (b2n (u0 u) + b2n (u3 u)) (imadd Q0 Q3) in
            (Q03, Q12, Q12, Q03)
          else (Q0, Q1, Q2, Q3) in
        Ok (Q0, Q1, Q2, Q3)
    | OtherMethod => ValueError
    end.

  Definition put_quadrants (Q : quads) (n m : nat) (a : axis) : img :=
    let '(Q0, Q1, Q2, Q3) := Q in
    let '(Q0, Q3) := if ax_has 0 a then (Q1, Q2) else (Q0, Q3) in
    let '(Q2, Q3) := if ax_has 1 a then (Q1, Q0) else (Q2, Q3) in
    let '(Q0, Q1) := if Nat.eqb (n mod 2) 1
                     then (rows_droplast 1 Q0, rows_droplast 1 Q1) else (Q0, Q1) in
    let '(Q1, Q2) := if Nat.eqb (m mod 2) 1
                     then (cols_dropfirst 1 Q1, cols_dropfirst 1 Q2) else (Q1, Q2) in
    let Top := hcat (fliplr Q1) Q0 in
    let Bottom := flipud (hcat (fliplr Q2) Q3) in
    vcat Top Bottom.

  (* what abel.Transform does with the two functions: split with the
     symmetry options, reassemble with the same symmetry_axis *)
  Definition symmetrize (a : axis) (u : mask) (meth : smethod) (IM : img) : result img :=
    match get_quadrants IM true a u meth with
    | Ok Q => Ok (put_quadrants Q (nrows IM) (ncols IM) a)
    | ValueError => ValueError
    end.
End Carrier.
