(* CacheRbasex.v — state machine of the caches of abel/rbasex.py: globals
   _prm, _weights, _dst, _ibs, _ibs_prm (function _profiles, _get_image_bs) and
   _bs_prm, _bs, _trf, _tri_full, _tri_prm, _tri, _mask_key (get_bs_cached,
   _load_bs, _save_bs), cache_cleanup, basis_dir_cleanup.

   What the model takes as INPUT of a call (observed by the harness from a
   fresh run of the same call, because they are computed by
   abel.tools.vmi.Distributions, which is not modelled):
     pid     number of the value [IM.shape, origin, rmax, order, odd] (==)
     wid     identity of the weights object (0 = None; no longer relevant)
     wver    number of the CONTENT of the weights (0 = None)
     fail    0: Distributions works; 1 / 2: its constructor / its
             precalculation at first use raises ValueError
     rmax, vid   _dst.rmax and the number of the content of _dst.valid
     geom    (height, width, row) handed to _image, or None for out=None
   Assumption (in `hazard`, clause "inconsistent"): pid and the weights content
   determine rmax and vid.

   Symbolic contents: the projected basis P[n][R, r] depends on (n, R, r)
   only (_bs_rbasex), its triangular inverse likewise (leading block of a
   triangular inverse), so a basis / inverse is described by the (Rmax,
   order, odd) it presently covers, whatever larger file it was cut from.

   Order of assignments (part of the model), after the fixes d536a3f, a36fe34,
   2e99c37, 7ce4ac5, 5c177c1: _prm, _weights (a copy, compared by content) and
   _dst are assigned together after Distributions(...) was built AND used;
   _bs_prm after _load_bs returned; _tri_prm after the regularisation branch;
   _trf / _tri are reset when the validity mask differs from _mask_key; a
   loaded array must have the shape its file name promises; the image basis
   is keyed by its geometry.  No proofs here. *)
From Coq Require Import List Arith Bool.
From PA Require Import base.Npy model.CacheCommon.
Import ListNotations.

(* ---- contents ------------------------------------------------------------- *)
Record rcont := { r_rmax : nat; r_order : nat; r_odd : bool; r_junk : bool }.

Definition rcont_eqb (a b : rcont) : bool :=
  (r_rmax a =? r_rmax b) && (r_order a =? r_order b) && eqb (r_odd a) (r_odd b) &&
  eqb (r_junk a) (r_junk b).

Definition ideal (rmax order : nat) (odd : bool) : rcont :=
  {| r_rmax := rmax; r_order := order; r_odd := odd; r_junk := false |}.

(* regularisation argument: 0 None, 1 'pos', 2 ('L2', 1.0), 3 ('diff', 1.0),
   4 ('SVD', 0.5), 8 ('SVD', 2.0) -> ValueError, 9 'foo' -> ValueError *)
Definition reg_raises (reg order : nat) (odd : bool) : bool :=
  (reg =? 8) || (reg =? 9) || ((reg =? 1) && odd && (1 <? order)).

Inductive acont :=
  | AFwd (c : rcont) (vid : nat)
  | AInv (reg : nat) (c : rcont) (vid : nat).

Inductive dstate :=
  | DNone
  | DHalf                                           (* built, precalculation failed: no .valid *)
  | DOk (pid wid wver rmax vid : nat).

Record fcont := { f_c : rcont; f_inv : bool }.
Record fkey := { fk_rmax : nat; fk_order : nat; fk_odd : bool; fk_inv : bool }.
Definition fkey_eqb (a b : fkey) : bool :=
  (fk_rmax a =? fk_rmax b) && (fk_order a =? fk_order b) && eqb (fk_odd a) (fk_odd b) &&
  eqb (fk_inv a) (fk_inv b).

Record st := {
  prm : option nat; wobj : nat;                      (* _prm, identity of _weights *)
  dst : dstate;
  ibs : option (nat * nat * nat);
  bs_prm : option (nat * nat * bool);
  bs : option rcont;
  tri_full : option rcont;
  trf : option acont;
  tri_prm : option nat;
  tri : option acont;
  mkey : nat;                                        (* _mask_key: 0 = None (no masking) *)
  gdir : bdglobal;
  dk : disk fkey fcont }.

Definition init : st :=
  {| prm := None; wobj := 0; dst := DNone; ibs := None; bs_prm := None; bs := None;
     tri_full := None; trf := None; tri_prm := None; tri := None; mkey := 0; gdir := GUnset; dk := [] |}.

Inductive csel := CAll | CFwd | CInv.

Record call := {
  c_pid : nat; c_wid : nat; c_wver : nat; c_fail : nat; c_rmax : nat; c_vid : nat;
  c_order : nat; c_odd : bool; c_fwd : bool; c_reg : nat;
  c_geom : option (nat * nat * nat); c_bd : bdarg;
  c_listing : list fkey }.                           (* os.listdir order of the directory used *)

Inductive op :=
  | Call (c : call)
  (* direct call of the public accessor rbasex.get_bs_cached(Rmax, order, odd,
     direction, reg, valid, basis_dir) *)
  | GetBs (rmax order : nat) (odd fwd : bool) (reg vid : nat) (bd : bdarg) (listing : list fkey)
  | Cleanup (sel : csel)
  | DirCleanup (bd : bdarg)
  | SetDir (bd : bdarg)
  | Seed (d : nat) (k : fkey) (c : fstate fcont)
  | Remove (d : nat) (k : fkey).

(* result of a call: which Distributions content produced the profiles, which
   matrices transformed them, which image basis drew the image *)
Record rres := { q_pid : nat; q_wver : nat; q_a : acont; q_img : option (nat * nat * nat);
                 q_want : option (nat * nat * nat) }.

Definition nmat (order : nat) (odd : bool) : nat := 1 + (if odd then order else order / 2).

(* ---- _profiles -------------------------------------------------------------- *)
Definition set_profiles (s : st) (p : option nat) (w : nat) (d : dstate) (i : option (nat * nat * nat))
           (reset_tr : bool) : st :=
  {| prm := p; wobj := w; dst := d; ibs := i; bs_prm := bs_prm s; bs := bs s; tri_full := tri_full s;
     trf := if reset_tr then None else trf s;
     tri_prm := if reset_tr then None else tri_prm s;
     tri := if reset_tr then None else tri s; mkey := mkey s; gdir := gdir s; dk := dk s |}.

Definition dst_vid (d : dstate) : option nat :=
  match d with DOk _ _ _ _ v => Some v | _ => None end.

Definition opt_eqb (a b : option nat) : bool :=
  match a, b with Some x, Some y => x =? y | None, None => true | _, _ => false end.

(* returns the state after _profiles and, when it succeeds, the
   (pid, wver, rmax, vid) of the Distributions object used *)
Definition profiles (s : st) (c : call) : st * res (nat * nat * nat * nat) :=
  match dst s with
  | DHalf => (s, Raise EAttr)                        (* (unreachable since d536a3f) *)
  | _ =>
      let old_valid := dst_vid (dst s) in
      (* `_prm != prm or not same_weights`: weights compared by content *)
      let same := opt_eqb (prm s) (Some (c_pid c)) && (wobj s =? c_wver c) in
      if same then
        match dst s with
        | DOk p w v r vid => (s, Ret (p, v, r, vid))
        | _ => (s, Raise EOther)
        end
      else
        match c_fail c with
        | 0 =>
            let d := DOk (c_pid c) (c_wid c) (c_wver c) (c_rmax c) (c_vid c) in
            let reset := negb (opt_eqb (Some (c_vid c)) old_valid) in
            (set_profiles s (Some (c_pid c)) (c_wver c) d None reset,
             Ret (c_pid c, c_wver c, c_rmax c, c_vid c))
        | _ => (s, Raise EValue)                     (* nothing was assigned *)
        end
  end.

(* ---- _load_bs ----------------------------------------------------------------- *)

Definition fsize (k : fkey) (rmax : nat) (inv : bool) : nat :=
  let sz := fk_rmax k * fk_rmax k * fk_order k / (if fk_odd k then 1 else 2) in
  if inv && negb (fk_inv k) then sz * rmax else sz.

(* scan in listdir order; later files win ties *)
Fixpoint best_file (rmax order : nat) (odd inv : bool) (l : list fkey) (acc : option (fkey * nat))
  : option fkey :=
  match l with
  | [] => match acc with Some (k, _) => Some k | None => None end
  | k :: r =>
      let matches := if odd then fk_odd k else true in
      let enough := (rmax <=? fk_rmax k) && (order <=? fk_order k) in
      let sz := fsize k rmax inv in
      let better := match acc with Some (_, b) => sz <=? b | None => true end in
      best_file rmax order odd inv r (if matches && enough && better then Some (k, sz) else acc)
  end.

Inductive lres := LNone | LSome (b : rcont) (t : option rcont) | LRaise (e : exc).

Definition load_bs (dir : option nat) (rmax order : nat) (odd inv : bool) (listing : list fkey)
           (d : disk fkey fcont) : lres :=
  match dir with
  | None => LNone
  | Some di =>
      if negb (dir_writable di) then LRaise EOther     (* listdir of a missing directory *)
      else
      let exact := {| fk_rmax := rmax; fk_order := order; fk_odd := odd; fk_inv := inv |} in
      let pick := match find_file fkey_eqb di exact d with
                  | Some _ => Some exact
                  | None => best_file rmax order odd inv listing None
                  end in
      match pick with
      | None => LNone
      | Some k =>
          match find_file fkey_eqb di k d with
          | None => LNone
          | Some (FBad PValue) => LNone
          | Some (FBad e) => LRaise (load_exc e)
          | Some FShape => LNone                       (* shape check: (None, None) *)
          | Some (FGood f) =>
              (* parity pick, order crop, Rmax crop give the requested basis *)
              let b := {| r_rmax := rmax; r_order := order; r_odd := odd; r_junk := r_junk (f_c f) |} in
              LSome b (if f_inv f && inv then Some b else None)
          end
      end
  end.

(* ---- get_bs_cached --------------------------------------------------------------- *)
Definition upd (s : st) (bp : option (nat * nat * bool)) (b t : option rcont) (f : option acont)
           (tp : option nat) (ti : option acont) (g : bdglobal) (d : disk fkey fcont) : st :=
  {| prm := prm s; wobj := wobj s; dst := dst s; ibs := ibs s; bs_prm := bp; bs := b; tri_full := t;
     trf := f; tri_prm := tp; tri := ti; mkey := mkey s; gdir := g; dk := d |}.

(* `if _mask_key != mask_key: _mask_key = mask_key; _trf = None; _tri_prm = None; _tri = None` *)
Definition set_mask (s : st) (m : nat) : st :=
  if mkey s =? m then s
  else {| prm := prm s; wobj := wobj s; dst := dst s; ibs := ibs s; bs_prm := bs_prm s; bs := bs s;
          tri_full := tri_full s; trf := None; tri_prm := None; tri := None; mkey := m;
          gdir := gdir s; dk := dk s |}.

Definition prm_eqb (a : option (nat * nat * bool)) (rmax order : nat) (odd : bool) : bool :=
  match a with
  | Some (r, o, d) => (r =? rmax) && (o =? order) && eqb d odd
  | None => false
  end.

Definition save_bs (dir : option nat) (rmax order : nat) (odd : bool) (b : rcont) (t : option rcont)
           (d : disk fkey fcont) : option (disk fkey fcont) :=
  match dir with
  | None => Some d
  | Some di =>
      if dir_writable di then
        let inv := match t with Some _ => true | None => false end in
        Some (put_file fkey_eqb di {| fk_rmax := rmax; fk_order := order; fk_odd := odd; fk_inv := inv |}
                       (FGood {| f_c := b; f_inv := inv |}) d)
      else None
  end.

(* stage 1 of get_bs_cached: the basis.  Returns the state, the flag new_bs
   and the exception if _load_bs raised *)
Definition stage1 (s : st) (rmax order : nat) (odd fwd : bool) (reg : nat) (listing : list fkey)
           (g : bdglobal) (dir : option nat) : st * bool * option exc :=
  let need := match bs s with None => true | Some _ => negb (prm_eqb (bs_prm s) rmax order odd) end in
  let bp := Some (rmax, order, odd) in
  if need then
    match load_bs dir rmax order odd (negb fwd && (reg =? 0)) listing (dk s) with
    | LRaise e => (upd s (bs_prm s) (bs s) (tri_full s) (trf s) (tri_prm s) (tri s) g (dk s), false, Some e)
    | LSome b t => (upd s bp (Some b) t None None None g (dk s), false, None)
    | LNone => (upd s bp (Some (ideal rmax order odd)) None None None None g (dk s), true, None)
    end
  else (upd s (bs_prm s) (bs s) (tri_full s) (trf s) (tri_prm s) (tri s) g (dk s), false, None).

(* stage 2 (inverse direction): the inverse matrices for `reg` *)
Definition stage2 (s1 : st) (new_bs : bool) (b : rcont) (rmax reg order : nat) (odd : bool) (vid : nat)
           (g : bdglobal) : st * bool * option exc :=
  if opt_eqb (tri_prm s1) (Some reg) then (s1, new_bs, None)
  else
    (* _tri_prm = None now, = [reg] only after the branch below succeeded *)
    let s2 := upd s1 (bs_prm s1) (bs s1) (tri_full s1) (trf s1) None (tri s1) g (dk s1) in
    if reg_raises reg order odd then (s2, new_bs, Some EValue)
    (* np.eye(Rmax + 1) / diag([..] * (Rmax + 1)) / a mask meet matrices of
       another size (unreachable since d536a3f) *)
    else if negb (r_rmax b =? rmax) &&
            (negb (vid =? 0) ||
             ((reg =? 0) && match tri_full s2 with None => true | Some _ => false end) ||
             (reg =? 2) || (reg =? 3))
    then (s2, new_bs, Some EShape)
    else if reg =? 0 then
      match tri_full s2 with
      | Some t => (upd s2 (bs_prm s2) (bs s2) (tri_full s2) (trf s2) (Some reg)
                       (Some (AInv 0 t vid)) g (dk s2), new_bs, None)
      | None => (upd s2 (bs_prm s2) (bs s2) (Some b) (trf s2) (Some reg)
                     (Some (AInv 0 b vid)) g (dk s2), true, None)
      end
    else (upd s2 (bs_prm s2) (bs s2) (tri_full s2) (trf s2) (Some reg)
              (Some (AInv reg b vid)) g (dk s2), new_bs, None).

(* what follows stage 1 *)
Definition finish_bs (s1 : st) (new_bs : bool) (b : rcont) (rmax order : nat) (odd fwd : bool)
           (reg vid : nat) (g : bdglobal) (dir : option nat) : st * res acont :=
  if fwd then
    match trf s1 with
    | Some a => (s1, Ret a)
    | None =>
        let a := AFwd b vid in
        if negb (r_rmax b =? rmax) && negb (vid =? 0) then (s1, Raise EShape)   (* mask(Pn.T.copy()) *)
        else
        if new_bs then
          match save_bs dir rmax order odd b None (dk s1) with
          | None => (s1, Raise EOther)
          | Some d' => (upd s1 (bs_prm s1) (bs s1) (tri_full s1) (Some a) (tri_prm s1) (tri s1) g d', Ret a)
          end
        else (upd s1 (bs_prm s1) (bs s1) (tri_full s1) (Some a) (tri_prm s1) (tri s1) g (dk s1), Ret a)
    end
  else
    match stage2 s1 new_bs b rmax reg order odd vid g with
    | (s3, _, Some e) => (s3, Raise e)
    | (s3, nb, None) =>
        match tri s3 with
        | None => (s3, Raise EOther)         (* `return None`: the caller fails on zip(None, p) *)
        | Some a =>
            if nb then
              match save_bs dir rmax order odd b (tri_full s3) (dk s3) with
              | None => (s3, Raise EOther)
              | Some d' => (upd s3 (bs_prm s3) (bs s3) (tri_full s3) (trf s3) (tri_prm s3) (tri s3) g d', Ret a)
              end
            else (s3, Ret a)
        end
    end.

(* numbers >= 1000 stand for all-true masks (1000 + length; also valid=None):
   `if valid is None or valid.all(): invalid = None` — no masking at all *)
Definition norm_vid (v : nat) : nat := if 1000 <=? v then 0 else v.

Definition get_bs (s : st) (rmax order : nat) (odd fwd : bool) (reg vid : nat) (bd : bdarg)
           (listing : list fkey) : st * res acont :=
  let vid := norm_vid vid in
  let (g, dir) := resolve (gdir s) bd in
  match stage1 s rmax order odd fwd reg listing g dir with
  | (s1, _, Some e) => (s1, Raise e)
  | (s1, new_bs, None) =>
      let s1 := set_mask s1 vid in
      match bs s1 with
      | None => (s1, Raise EOther)
      | Some b => finish_bs s1 new_bs b rmax order odd fwd reg vid g dir
      end
  end.

(* ---- the whole call ------------------------------------------------------------------ *)
Definition a_rcont (a : acont) : rcont := match a with AFwd c _ | AInv _ c _ => c end.
Definition a_reg (a : acont) : nat := match a with AFwd _ _ => 0 | AInv r _ _ => r end.

(* `[An.dot(pn) for An, pn in zip(A, p)]`: zip silently drops surplus
   matrices; matrices of a basis with more orders of the same parity (or any
   basis when only order 0 is wanted) therefore still give the right answer *)
Definition fit (c : rcont) (order : nat) (odd : bool) : rcont :=
  if (nmat order odd <=? nmat (r_order c) (r_odd c)) && (eqb (r_odd c) odd || (nmat order odd =? 1))
  then {| r_rmax := r_rmax c; r_order := order; r_odd := odd; r_junk := r_junk c |} else c.
Definition fit_a (a : acont) (order : nat) (odd : bool) : acont :=
  match a with AFwd c v => AFwd (fit c order odd) v | AInv r c v => AInv r (fit c order odd) v end.

Definition step_call (s : st) (c : call) : st * res rres :=
  match profiles s c with
  | (s1, Raise e) => (s1, Raise e)
  | (s1, Ret (pid, wver, rmax, vid)) =>
      match get_bs s1 rmax (c_order c) (c_odd c) (c_fwd c) (c_reg c) vid (c_bd c) (c_listing c) with
      | (s2, Raise e) => (s2, Raise e)
      | (s2, Ret a) =>
          (* matrices of another radius do not fit the profiles *)
          if negb (r_rmax (a_rcont a) =? rmax) then (s2, Raise EShape)
          else if (a_reg a =? 1) && negb (rcont_eqb (a_rcont a) (ideal rmax (c_order c) (c_odd c)))
          then (s2, Raise EShape)                  (* nnls on a block matrix of another layout *)
          else
            let a := fit_a a (c_order c) (c_odd c) in
            match c_geom c with
            | None => (s2, Ret {| q_pid := pid; q_wver := wver; q_a := a; q_img := None; q_want := None |})
            | Some g =>
                (* _get_image_bs: the cached arrays are reused only when _ibs_prm ==
                   [height, width, row], otherwise rebuilt for the requested geometry *)
                let used := g in
                (set_profiles s2 (prm s2) (wobj s2) (dst s2) (Some used) false,
                 Ret {| q_pid := pid; q_wver := wver; q_a := a; q_img := Some used; q_want := Some g |})
            end
      end
  end.

Definition step (s : st) (o : op) : st * res rres :=
  match o with
  | Call c => step_call s c
  | GetBs rmax order odd fwd reg vid bd listing =>
      match get_bs s rmax order odd fwd reg vid bd listing with
      | (s2, Raise e) => (s2, Raise e)
      | (s2, Ret a) => (s2, Ret {| q_pid := 0; q_wver := 0; q_a := a; q_img := None; q_want := None |})
      end
  | Cleanup sel =>
      let all := match sel with CAll => true | _ => false end in
      let f := match sel with CAll | CFwd => true | _ => false end in
      let i := match sel with CAll | CInv => true | _ => false end in
      ({| prm := if all then None else prm s; wobj := wobj s;
          dst := if all then DNone else dst s; ibs := if all then None else ibs s;
          bs_prm := if all then None else bs_prm s; bs := if all then None else bs s;
          tri_full := if i then None else tri_full s;
          trf := if f then None else trf s;
          tri_prm := if i then None else tri_prm s; tri := if i then None else tri s;
          mkey := mkey s; gdir := gdir s; dk := dk s |}, Raise EOther)
  | DirCleanup bd =>
      let (g, dir) := resolve (gdir s) bd in
      (upd s (bs_prm s) (bs s) (tri_full s) (trf s) (tri_prm s) (tri s) g
           (match dir with
            | Some di => filter (fun e => negb (fst (fst e) =? di)) (dk s)
            | None => dk s
            end), Raise EOther)
  | SetDir bd => (upd s (bs_prm s) (bs s) (tri_full s) (trf s) (tri_prm s) (tri s) (set_basis_dir bd) (dk s),
                  Raise EOther)
  | Seed d k c => (upd s (bs_prm s) (bs s) (tri_full s) (trf s) (tri_prm s) (tri s) (gdir s)
                       (put_file fkey_eqb d k c (dk s)), Raise EOther)
  | Remove d k => (upd s (bs_prm s) (bs s) (tri_full s) (trf s) (tri_prm s) (tri s) (gdir s)
                       (remove_file fkey_eqb d k (dk s)), Raise EOther)
  end.

Fixpoint run (s : st) (ops : list op) : st :=
  match ops with [] => s | o :: r => run (fst (step s o)) r end.

(* ---- same numbers? ---------------------------------------------------------------------- *)
Definition r_eqv (a b : rcont) : bool :=
  (r_rmax a =? r_rmax b) && (r_order a =? r_order b) && eqb (r_odd a) (r_odd b) &&
  negb (r_junk a) && negb (r_junk b).

Definition a_eqv (a b : acont) : bool :=
  match a, b with
  | AFwd x v, AFwd y w => r_eqv x y && (v =? w)
  | AInv r x v, AInv q y w => (r =? q) && r_eqv x y && (v =? w)
  | _, _ => false
  end.

Definition geom_eqb (a b : option (nat * nat * nat)) : bool :=
  match a, b with
  | Some (x, y, z), Some (x', y', z') => (x =? x') && (y =? y') && (z =? z')
  | None, None => true
  | _, _ => false
  end.

Definition q_eqv (a b : rres) : bool :=
  (q_pid a =? q_pid b) && (q_wver a =? q_wver b) && a_eqv (q_a a) (q_a b) &&
  geom_eqb (q_img a) (q_img b) && geom_eqb (q_want a) (q_want b).

Definition out_eqv (a b : res rres) : bool :=
  match a, b with
  | Ret x, Ret y => q_eqv x y
  | Raise e1, Raise e2 => exc_code e1 =? exc_code e2
  | _, _ => false
  end.

Definition fresh_call (c : call) : call :=
  {| c_pid := c_pid c; c_wid := c_wid c; c_wver := c_wver c; c_fail := c_fail c; c_rmax := c_rmax c;
     c_vid := c_vid c; c_order := c_order c; c_odd := c_odd c; c_fwd := c_fwd c; c_reg := c_reg c;
     c_geom := c_geom c;
     c_bd := match c_bd c with BPath d => if dir_writable d then BPath 1 else c_bd c | b => b end;
     c_listing := [] |}.

Definition fresh_bd (bd : bdarg) : bdarg :=
  match bd with BPath d => if dir_writable d then BPath 1 else bd | b => b end.

Definition fresh (o : op) : res rres :=
  match o with
  | Call c => snd (step_call init (fresh_call c))
  | GetBs rmax order odd fwd reg vid bd _ =>
      match get_bs init rmax order odd fwd reg vid (fresh_bd bd) [] with
      | (_, Raise e) => Raise e
      | (_, Ret a) => Ret {| q_pid := 0; q_wver := 0; q_a := a; q_img := None; q_want := None |}
      end
  | _ => Raise EOther
  end.

(* (historical: before the image basis was keyed by its geometry a foreign
   basis could be in use; now only EShape outcomes are compared loosely) *)
Definition ibs_mismatch (r : res rres) : bool :=
  match r with
  | Ret q => negb (geom_eqb (q_img q) (q_want q))
  | Raise EShape => true
  | Raise _ => false
  end.

(* ---- observation --------------------------------------------------------------------------- *)
Record obs := {
  o_code : nat; o_agree : bool; o_fresh_code : nat;
  o_prm : list nat; o_dst : nat;                     (* 0 None, 1 half-built, 2 usable *)
  o_ibs : bool;
  o_bs_prm : list nat; o_nbs : list nat; o_has_tri_full : bool; o_has_trf : bool;
  o_tri_prm : list nat; o_mkey : nat; o_gdir : nat; o_files : list (list nat) }.

Definition is_call (o : op) : bool := match o with Call _ | GetBs _ _ _ _ _ _ _ _ => true | _ => false end.

Definition fkey_code (d : nat) (k : fkey) : list nat :=
  [d; fk_rmax k; fk_order k; if fk_odd k then 1 else 0; if fk_inv k then 1 else 0].

Fixpoint lex_le (a b : list nat) : bool :=
  match a, b with
  | [], _ => true
  | _ :: _, [] => false
  | x :: a', y :: b' => (x <? y) || ((x =? y) && lex_le a' b')
  end.
Fixpoint insert_l (k : list nat) (l : list (list nat)) : list (list nat) :=
  match l with
  | [] => [k]
  | x :: r => if lex_le k x then k :: l else x :: insert_l k r
  end.
Definition listing (s : st) : list (list nat) :=
  fold_right insert_l [] (map (fun e => fkey_code (fst (fst e)) (snd (fst e))) (dk s)).

Definition observe (o : op) (s' : st) (r : res rres) : obs :=
  {| o_code := if is_call o then res_code r else 0;
     o_agree := if is_call o then out_eqv r (fresh o) else true;
     o_fresh_code := if is_call o then res_code (fresh o) else 0;
     o_prm := match prm s' with Some p => [p] | None => [] end;
     o_dst := match dst s' with DNone => 0 | DHalf => 1 | DOk _ _ _ _ _ => 2 end;
     o_ibs := match ibs s' with Some _ => true | None => false end;
     o_bs_prm := match bs_prm s' with Some (r, o, d) => [r; o; if d then 1 else 0] | None => [] end;
     o_nbs := match bs s' with Some b => [nmat (r_order b) (r_odd b); r_rmax b + 1] | None => [] end;
     o_has_tri_full := match tri_full s' with Some _ => true | None => false end;
     o_has_trf := match trf s' with Some _ => true | None => false end;
     o_tri_prm := match tri_prm s' with Some r => [r] | None => [] end;
     o_mkey := mkey s';
     o_gdir := bdglobal_code (gdir s');
     o_files := listing s' |}.

Definition list_eqb (a b : list nat) : bool := if list_eq_dec Nat.eq_dec a b then true else false.
Definition lists_eqb (a b : list (list nat)) : bool :=
  if list_eq_dec (list_eq_dec Nat.eq_dec) a b then true else false.

(* `loose` (computed by the model): only the disagreement with the fresh
   result is compared, not the exception class *)
Definition obs_eqb (loose : bool) (a b : obs) : bool :=
  (if loose then (if o_code a =? 5 then 0 <? o_code b else negb (o_agree b))
   else (o_code a =? o_code b) && eqb (o_agree a) (o_agree b)) &&
  (o_fresh_code a =? o_fresh_code b) &&
  list_eqb (o_prm a) (o_prm b) && (o_dst a =? o_dst b) &&
  (if loose then true else eqb (o_ibs a) (o_ibs b)) &&
  list_eqb (o_bs_prm a) (o_bs_prm b) && list_eqb (o_nbs a) (o_nbs b) &&
  eqb (o_has_tri_full a) (o_has_tri_full b) && eqb (o_has_trf a) (o_has_trf b) &&
  list_eqb (o_tri_prm a) (o_tri_prm b) && (o_mkey a =? o_mkey b) && (o_gdir a =? o_gdir b) &&
  lists_eqb (o_files a) (o_files b).

Fixpoint check_hist (s : st) (h : list (op * obs)) : list bool :=
  match h with
  | [] => []
  | (o, ob) :: r => let (s', res) := step s o in
                    obs_eqb (ibs_mismatch res) (observe o s' res) ob :: check_hist s' r
  end.

Fixpoint trace_hist (s : st) (h : list op) : list obs :=
  match h with
  | [] => []
  | o :: r => let (s', res) := step s o in observe o s' res :: trace_hist s' r
  end.

Definition last_result (ops : list op) (c : op) : res rres := snd (step (run init ops) c).

Fixpoint all_safe (s : st) (ops : list op) : bool :=
  match ops with
  | [] => true
  | o :: r => let (s', res) := step s o in
              (if is_call o then out_eqv res (fresh o) || (0 <? res_code res) else true) && all_safe s' r
  end.

Fixpoint all_agree (s : st) (ops : list op) : bool :=
  match ops with
  | [] => true
  | o :: r => let (s', res) := step s o in
              (if is_call o then out_eqv res (fresh o) else true) && all_agree s' r
  end.

(* ---- preconditions ---------------------------------------------------------------------- *)
Definition uses_bad_dir (s : st) (bd : bdarg) : bool :=
  match snd (resolve (gdir s) bd) with Some di => negb (dir_writable di) | None => false end.

Definition fcont_honest (k : fkey) (f : fcont) : bool :=
  rcont_eqb (f_c f) (ideal (fk_rmax k) (fk_order k) (fk_odd k)) && eqb (f_inv f) (fk_inv k).

Definition reuses_dst (s : st) (c : call) : bool :=
  opt_eqb (prm s) (Some (c_pid c)) && (wobj s =? c_wver c).

(* assumptions about the environment and about the model inputs, not defects:
   writable directories; good files on disk are what a save of their name
   writes; and the same parameters with the same weights content give the same
   rmax and valid mask, and do not fail once they worked (these are computed
   by Distributions: clause "inconsistent") *)
Definition hazard (s : st) (o : op) : bool :=
  match o with
  | Call c =>
      uses_bad_dir s (c_bd c) ||
      (reuses_dst s c &&
       negb (match dst s with
             | DOk _ _ _ r vid => (r =? c_rmax c) && (vid =? c_vid c) && (c_fail c =? 0)
             | _ => false
             end))
  | GetBs _ _ _ _ _ _ bd _ => uses_bad_dir s bd
  | Seed d k c =>
      match c with
      | FGood f => negb (fcont_honest k f)
      | _ => false
      end
  | _ => false
  end.

Fixpoint no_hazard (s : st) (ops : list op) : bool :=
  match ops with [] => true | o :: r => negb (hazard s o) && no_hazard (fst (step s o)) r end.

Definition damage (o : op) : bool := match o with Seed _ _ (FBad _) => true | _ => false end.
Fixpoint no_damage (ops : list op) : bool :=
  match ops with [] => true | o :: r => negb (damage o) && no_damage r end.
