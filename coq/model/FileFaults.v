(* FileFaults.v — faults of a basis file at byte / syscall granularity.

   * A file is a byte list.  numpy.save = open(O_TRUNC) followed by `write`
     syscalls, each at the writer's own file offset (which advances by what it
     wrote); a `write` beyond the current end zero-fills the gap (POSIX).
     Measured on this image with strace: numpy.save issues exactly two writes
     (head_chunk = magic+length+padded header, then the whole payload); the
     check re-measures this on every run for the library's own save paths
     (abel/basex.py:375, daun.py:305, dasch.py:378, linbasex.py:591,
     rbasex.py:546).
   * Several processes interleave at syscall granularity; a reader (np.load)
     sees the whole file as it is at one instant between two syscalls.
   * Method-level handlers: basex (basex.py:344-353), daun (daun.py:279-283)
     and rbasex (rbasex.py:477-481) catch ValueError around np.load and fall
     through to regeneration; dasch (dasch.py:364) and linbasex
     (linbasex.py:578) do not catch anything (but since 0e05e8d / d536a3f a
     raising load leaves their memory caches untouched).
   No proofs here. *)
From Coq Require Import List NArith Arith Bool.
From PA Require Import base.Npy.
Import ListNotations.

Definition file := bytes.

Definition write_at (off : nat) (chunk : bytes) (f : file) : file :=
  firstn off (f ++ repeat 0%N (off - length f)) ++ chunk ++ skipn (off + length chunk) f.

Inductive sysop := OTrunc | OWrite (off : nat) (chunk : bytes).

Definition exec_op (f : file) (o : sysop) : file :=
  match o with OTrunc => [] | OWrite off c => write_at off c f end.

Fixpoint writer_ops (off : nat) (chunks : list bytes) : list sysop :=
  match chunks with
  | [] => []
  | c :: r => OWrite off c :: writer_ops (off + length c) r
  end.

(* one np.save call that writes the given chunks *)
Definition writer (chunks : list bytes) : list sysop := OTrunc :: writer_ops 0 chunks.

(* processes = remaining syscalls of each writer; a schedule names which
   process performs its next syscall (an index of a finished / non-existent
   process is a no-op).  `observed` lists every file content a reader can see:
   the initial one and the one after each step. *)
Fixpoint pop (procs : list (list sysop)) (i : nat) : option sysop * list (list sysop) :=
  match procs, i with
  | [], _ => (None, [])
  | [] :: r, 0 => (None, [] :: r)
  | (o :: p) :: r, 0 => (Some o, p :: r)
  | p :: r, S j => let (o, r') := pop r j in (o, p :: r')
  end.

Fixpoint observed (procs : list (list sysop)) (f : file) (sched : list nat) : list file :=
  f :: match sched with
       | [] => []
       | i :: s =>
           let (o, procs') := pop procs i in
           observed procs' (match o with Some op => exec_op f op | None => f end) s
       end.

(* the two ways numpy.save has been seen to write: header chunk + payload, or
   (for tiny payloads buffered together) a single chunk *)
Definition save_two (a : arr) : list sysop := writer [head_chunk (shape a); data a].
Definition save_one (a : arr) : list sysop := writer [serialize a].
Definition is_save (a : arr) (p : list sysop) : Prop := p = save_two a \/ p = save_one a.

(* hypothetical writer that splits the payload over two writes *)
Definition save_three (a : arr) (k : nat) : list sysop :=
  writer [head_chunk (shape a); firstn k (data a); skipn k (data a)].

(* what a reader may get: an error of any class, or exactly the saved array *)
Definition safe_read (a : arr) (f : file) : Prop :=
  is_err (parse f) = true \/ parse f = POk a.

Definition safe_readb (a : arr) (f : file) : bool :=
  match parse f with PErr _ => true | POk b => arr_eqb a b end.

(* ---- method-level handlers -------------------------------------------- *)
Inductive method := Basex | Daun | Rbasex | Dasch | Linbasex.

Definition catches_value_error (m : method) : bool :=
  match m with Basex | Daun | Rbasex => true | Dasch | Linbasex => false end.

(* outcome of the call that tries to load the file *)
Inductive outcome := Fresh       (* same values as with no disk cache *)
                   | Exception   (* the call raises *)
                   | Different.  (* other numbers: forbidden *)

(* `right a` = the stored array is the one a correct save for this request
   would have produced (possibly larger, to be cropped);
   `shape_ok a` = its shape is what the file name promises.  Since fix 7ce4ac5
   every module checks this after loading: basex raises ValueError inside its
   try block, daun / rbasex / linbasex treat the file as incompatible, dasch
   skips it — in all cases the basis is regenerated (or another file used). *)
Definition load_outcome (m : method) (right shape_ok : arr -> bool) (f : file) : outcome :=
  match parse f with
  | PErr PValue => if catches_value_error m then Fresh else Exception
  | PErr _ => Exception
  | POk a =>
      if right a then Fresh
      else if negb (shape_ok a) then Fresh
      else Different          (* a valid file of the right shape with other numbers: no checksum exists *)
  end.

(* does the library rewrite the file during that call? (regeneration path) *)
Definition resaved (m : method) (f : file) : bool :=
  match parse f with
  | PErr PValue => catches_value_error m
  | _ => false
  end.

(* ---- atomic save (abel.tools.io.save_npy_atomic, fix 46921c4) -------------- *)
(* Each writer writes the whole array into a temporary file of its own (the
   name contains its pid and does not end in .npy) with any number of write
   syscalls, and then renames it onto the basis file: os.replace is atomic.
   A reader of the basis file therefore sees what was there before, or the
   complete content of one of the writers. *)
Inductive aop := ATrunc | AWrite (off : nat) (chunk : bytes) | ARename.

Fixpoint awrite_ops (off : nat) (chunks : list bytes) : list aop :=
  match chunks with
  | [] => []
  | c :: r => AWrite off c :: awrite_ops (off + length c) r
  end.

Definition awriter (chunks : list bytes) : list aop := ATrunc :: awrite_ops 0 chunks ++ [ARename].

(* a process: its remaining syscalls and the present content of its temp file *)
Definition aproc := (list aop * file)%type.

(* one syscall of process p on (target, p) *)
Definition astep (target : option file) (p : aproc) : option file * aproc :=
  match p with
  | ([], t) => (target, p)
  | (ATrunc :: r, _) => (target, (r, []))
  | (AWrite off c :: r, t) => (target, (r, write_at off c t))
  | (ARename :: r, t) => (Some t, (r, t))
  end.

Fixpoint astep_nth (target : option file) (procs : list aproc) (i : nat) : option file * list aproc :=
  match procs, i with
  | [], _ => (target, [])
  | p :: r, 0 => let (t', p') := astep target p in (t', p' :: r)
  | p :: r, S j => let (t', r') := astep_nth target r j in (t', p :: r')
  end.

(* everything a reader of the basis file can see along a schedule
   (None = the file does not exist) *)
Fixpoint aobserved (target : option file) (procs : list aproc) (sched : list nat) : list (option file) :=
  target :: match sched with
            | [] => []
            | i :: s => let (t', procs') := astep_nth target procs i in aobserved t' procs' s
            end.

(* a process that saves the array a with some chunking of its bytes *)
Definition is_atomic_save (a : arr) (p : aproc) : Prop :=
  exists chunks, concat chunks = serialize a /\ fst p = awriter chunks.
