(* DistrGeom.v — executable model of the geometry part of
   abel.tools.vmi.Distributions (abel/tools/vmi.py):
     __init__ order/odd/N resolution          vmi.py:710-719
     _precalc origin resolution               vmi.py:820-862
     _precalc rmax resolution                 vmi.py:864-879
     quadrant size, no-fold shortcuts, the
     `slices` helper and the region list      vmi.py:886-953
     folding of an image into the quadrant    vmi.py:1470-1475 (and 990-1005 for weights)
   Python slices are kept as (start, stop, step) triples exactly as the code
   builds them and are interpreted by slice_idx (CPython PySlice_AdjustIndices
   semantics).  No proofs here (proofs/DistrGeomProofs.v). *)
From Coq Require Import List Arith Lia Bool ZArith String Ascii.
From PA Require Import base.Arr base.Px.
Import ListNotations.
Open Scope nat_scope.

Set Implicit Arguments.

(* ---- Python slice objects with explicit integer fields ---------------- *)
Record pyslice := Sl { s_start : Z; s_stop : Z; s_step : Z }.

(* PySlice_AdjustIndices: clip one bound *)
Definition norm_idx (len step v : Z) : Z :=
  if (0 <? step)%Z then
    (if (v <? 0)%Z then Z.max (v + len) 0 else Z.min v len)
  else
    (if (v <? 0)%Z then Z.max (v + len) (-1) else Z.min v (len - 1)).

Definition slice_cnt (s e step : Z) : nat :=
  if (0 <? step)%Z then (if (s <? e)%Z then Z.to_nat ((e - s - 1) / step + 1) else 0)
  else if (step <? 0)%Z then (if (e <? s)%Z then Z.to_nat ((s - e - 1) / (- step) + 1) else 0)
  else 0.

(* the indices selected by a[sl] on an axis of the given length *)
Definition slice_idx (sl : pyslice) (len : nat) : list nat :=
  let L := Z.of_nat len in
  let s := norm_idx L (s_step sl) (s_start sl) in
  let e := norm_idx L (s_step sl) (s_stop sl) in
  map (fun k => Z.to_nat (s + Z.of_nat k * s_step sl)) (seq 0 (slice_cnt s e (s_step sl))).

(* position of the first occurrence *)
Fixpoint pos (a : nat) (l : list nat) : option nat :=
  match l with
  | [] => None
  | x :: l' => if Nat.eqb x a then Some 0 else option_map S (pos a l')
  end.

(* |a - b| *)
Definition dist (a b : nat) : nat := if a <=? b then b - a else a - b.

(* ---- small array helpers ---------------------------------------------- *)
Section Tab.
  Variable A : Type.
  Definition tab (n m : nat) (f : nat -> nat -> A) : list (list A) :=
    map (fun i => map (fun j => f i j) (seq 0 m)) (seq 0 n).
End Tab.

(* ---- arguments --------------------------------------------------------- *)
Inductive origin := OTuple (r c : Z) | OStr (s : string).
Inductive rmax_in :=
| RInt (k : Z) | Rhor | Rver | RHOR | RVER | Rmin | Rmax | RMIN | RMAX | Rall | RBad.

Definition is_ws (c : ascii) : bool :=
  let n := nat_of_ascii c in
  Nat.eqb n 32 || Nat.eqb n 9 || Nat.eqb n 10 || Nat.eqb n 11 || Nat.eqb n 12 || Nat.eqb n 13.

(* [word[0] for word in s.split()] *)
Fixpoint first_letters (s : string) (inw : bool) : list ascii :=
  match s with
  | EmptyString => []
  | String c s' =>
    if is_ws c then first_letters s' false
    else if inw then first_letters s' true else c :: first_letters s' true
  end.

Definition origin_codes (s : string) : option (ascii * ascii) :=
  match s with
  | String a (String b EmptyString) => Some (a, b)                 (* len == 2 *)
  | _ =>
    if String.eqb s "c" || String.eqb s "center" then Some ("c", "c")%char
    else match first_letters s false with
         | [a; b] => Some (a, b)
         | _ => None
         end
  end.

Definition ceqb (a b : ascii) : bool := Ascii.eqb a b.

(* row, column of the origin; None = ValueError.  May lie outside the image
   for tuples (the code does not check). *)
Definition resolve_origin (h w : nat) (o : origin) : option (Z * Z) :=
  let H := Z.of_nat h in let W := Z.of_nat w in
  match o with
  | OTuple r c => Some ((if (r <? 0)%Z then r + H else r)%Z, (if (c <? 0)%Z then c + W else c)%Z)
  | OStr s =>
    match origin_codes s with
    | None => None
    | Some (r, c) =>
      let row := if ceqb r "t" || ceqb r "u" then Some 0%Z
                 else if ceqb r "c" then Some (H / 2)%Z
                 else if ceqb r "b" || ceqb r "l" then Some (H - 1)%Z else None in
      let col := if ceqb c "l" then Some 0%Z
                 else if ceqb c "c" then Some (W / 2)%Z
                 else if ceqb c "r" then Some (W - 1)%Z else None in
      match row, col with Some a, Some b => Some (a, b) | _, _ => None end
    end
  end.

Definition resolve_rmax (hor ver HOR VER : nat) (r : rmax_in) : option Z :=
  match r with
  | RInt k => Some k
  | Rhor => Some (Z.of_nat hor) | Rver => Some (Z.of_nat ver)
  | RHOR => Some (Z.of_nat HOR) | RVER => Some (Z.of_nat VER)
  | Rmin => Some (Z.of_nat (min hor ver)) | Rmax => Some (Z.of_nat (max hor ver))
  | RMIN => Some (Z.of_nat (min HOR VER)) | RMAX => Some (Z.of_nat (max HOR VER))
  | Rall => Some (Z.of_nat (Nat.sqrt (HOR * HOR + VER * VER)))
  | RBad => None
  end.

(* vmi.py:713-719 *)
Definition resolve_odd (order : nat) (odd : bool) : bool :=
  if Nat.eqb order 0 then false else if Nat.eqb (order mod 2) 1 then true else odd.
Definition nterms (order : nat) (odd : bool) : nat :=
  1 + (if resolve_odd order odd then order else order / 2).

(* ---- quadrant geometry -------------------------------------------------- *)
Definition zn (n : nat) : Z := Z.of_nat n.

(* the `slices` helper, vmi.py:921-929: (source slice, destination slice) *)
Definition mk_slices (pivot pivot_ size : nat) (positive : bool) : pyslice * pyslice :=
  if positive then
    let n := min (pivot_ + 1) size in
    (Sl (zn pivot) (zn (pivot + n)) 1, Sl 0 (zn n) 1)
  else
    let n := min (pivot + 1) size in
    (Sl (-1 - zn (pivot_ + 1)) (-1 - zn (pivot_ + n)) (-1), Sl 1 (zn n) 1).

(* one region: ((src rows, src cols), (dst rows, dst cols)) *)
Definition region := ((pyslice * pyslice) * (pyslice * pyslice))%type.
Definition zip_region (r c : pyslice * pyslice) : region :=
  ((fst r, fst c), (snd r, snd c)).

Record geom := {
  g_h : nat; g_w : nat;
  g_row : nat; g_col : nat; g_VER : nat; g_HOR : nat; g_rmax : nat;
  g_odd : bool; g_N : nat;
  g_Qh : nat; g_Qw : nat; g_y0 : nat;
  g_fold : bool;
  g_flip : pyslice * pyslice;           (* flip_row, flip_col when not g_fold *)
  g_regions : list region               (* when g_fold *)
}.

Definition no_slice := Sl 0 0 1.

(* quadrant part of _precalc for an origin inside the image and rmax >= 0 *)
Definition quad_geom (h w row col rmax : nat) (odd : bool) (N : nat) : geom :=
  let row_ := h - 1 - row in let col_ := w - 1 - col in
  let VER := max row row_ in let HOR := max col col_ in
  let Qh := if odd then min row rmax + 1 + min row_ rmax else min VER rmax + 1 in
  let y0 := if odd then min row rmax else 0 in
  let Qw := min HOR rmax + 1 in
  let row_edge := Nat.eqb row 0 || Nat.eqb row (h - 1) in
  let col_edge := Nat.eqb col 0 || Nat.eqb col (w - 1) in
  let flip_col := if Nat.eqb col 0 then Sl 0 (zn Qw) 1 else Sl (-1) (-1 - zn Qw) (-1) in
  let mk fold flip regions :=
    {| g_h := h; g_w := w; g_row := row; g_col := col; g_VER := VER; g_HOR := HOR;
       g_rmax := rmax; g_odd := odd; g_N := N; g_Qh := Qh; g_Qw := Qw; g_y0 := y0;
       g_fold := fold; g_flip := flip; g_regions := regions |} in
  if negb odd && row_edge && col_edge then
    let flip_row := if Nat.eqb row 0 then Sl 0 (zn Qh) 1 else Sl (-1) (-1 - zn Qh) (-1) in
    mk false (flip_row, flip_col) []
  else if odd && col_edge then
    mk false (Sl (zn row - zn y0) (zn row - zn y0 + zn Qh) 1, flip_col) []
  else
    let srow p := mk_slices row row_ Qh p in
    let srow_odd := (Sl (zn row - zn (min row rmax)) (zn row + 1 + zn (min row_ rmax)) 1,
                     Sl 0 (zn Qh) 1) in
    let scol p := mk_slices col col_ Qw p in
    let regs :=
      if odd then [zip_region srow_odd (scol false); zip_region srow_odd (scol true)]
      else [zip_region (srow false) (scol false); zip_region (srow false) (scol true);
            zip_region (srow true) (scol false); zip_region (srow true) (scol true)] in
    mk true (no_slice, no_slice) regs.

Inductive presult (T : Type) := POk (v : T) | PValueError | POutside.
Arguments PValueError {T}.
Arguments POutside {T}.

(* _precalc, geometry part.  POutside: the origin is not a pixel of the image
   or rmax < 0 (outside the property's domain; the code does not check). *)
Definition precalc (h w : nat) (o : origin) (rm : rmax_in) (order : nat) (odd : bool)
  : presult geom :=
  match resolve_origin h w o with
  | None => PValueError
  | Some (r, c) =>
    if ((r <? 0) || (zn h <=? r) || (c <? 0) || (zn w <=? c))%Z then POutside else
    let row := Z.to_nat r in let col := Z.to_nat c in
    let row_ := h - 1 - row in let col_ := w - 1 - col in
    match resolve_rmax (min col col_) (min row row_) (max col col_) (max row row_) rm with
    | None => PValueError
    | Some k =>
      if (k <? 0)%Z then POutside else
      POk (quad_geom h w row col (Z.to_nat k) (resolve_odd order odd) (nterms order odd))
    end
  end.

(* ---- folding ------------------------------------------------------------ *)
Section Fold.
  Variable A : Type.
  Variable zero : A.
  Variable add : A -> A -> A.
  Notation img := (list (list A)).

  (* contribution of `Q[dst] += IM[src]` to Q[a][b] *)
  Definition contrib (g : geom) (IM : img) (rg : region) (a b : nat) : A :=
    let '((sr, sc), (dr, dc)) := rg in
    match pos a (slice_idx dr (g_Qh g)), pos b (slice_idx dc (g_Qw g)) with
    | Some k, Some l =>
      px zero IM (nth k (slice_idx sr (g_h g)) 0) (nth l (slice_idx sc (g_w g)) 0)
    | _, _ => zero
    end.

  (* numpy raises when source and destination blocks differ in shape (it
     would broadcast a length-1 block; the model treats that as an error too) *)
  Definition region_ok (g : geom) (rg : region) : bool :=
    let '((sr, sc), (dr, dc)) := rg in
    Nat.eqb (List.length (slice_idx sr (g_h g))) (List.length (slice_idx dr (g_Qh g)))
    && Nat.eqb (List.length (slice_idx sc (g_w g))) (List.length (slice_idx dc (g_Qw g))).

  (* vmi.py:1470-1475 *)
  Definition fold_image (g : geom) (IM : img) : img :=
    if g_fold g then
      tab (g_Qh g) (g_Qw g)
          (fun a b => fold_left add (map (fun rg => contrib g IM rg a b) (g_regions g)) zero)
    else
      let ri := slice_idx (fst (g_flip g)) (g_h g) in
      let ci := slice_idx (snd (g_flip g)) (g_w g) in
      map (fun i => map (fun j => px zero IM i j) ci) ri.

  Definition geom_ok (g : geom) : bool :=
    if g_fold g then forallb (region_ok g) (g_regions g)
    else Nat.eqb (List.length (slice_idx (fst (g_flip g)) (g_h g))) (g_Qh g)
         && Nat.eqb (List.length (slice_idx (snd (g_flip g)) (g_w g))) (g_Qw g).
End Fold.
