(* RbasexOut.v — executable model of the output side of
   abel.rbasex.rbasex_transform (abel/rbasex.py):
     odd resolution                                  rbasex.py:175-178
     output size per `out`                           rbasex.py:215-232
     _get_image_bs (incl. the module cache
     _ibs_prm / _ibs)                                rbasex.py:299-351
     _image                                          rbasex.py:346-363
     unfolding / mirroring / final crop              rbasex.py:238-253
   The Distributions object `_dst` is the geometry record of DistrGeom.v;
   put_image_quadrants is the model of model/Symmetry.v (property C06). *)
From Coq Require Import List Arith Lia Bool ZArith.
From PA Require Import base.Arr base.Px base.MatL model.DistrGeom model.DistrFit model.Symmetry.
Import ListNotations.
Open Scope nat_scope.

Set Implicit Arguments.

Inductive outv := OSame | OFold | OUnfold | OFull | OFullUnique.

(* (height, width, row) requested from _image, rbasex.py:219-230 *)
Definition out_dims (out : outv) (g : geom) : nat * nat * nat :=
  let odd := g_odd g in
  match out with
  | OSame => (if odd then g_h g else g_VER g + 1, g_HOR g + 1, if odd then g_row g else 0)
  | OFold | OUnfold => (g_Qh g, g_Qw g, if odd then g_row g else 0)
  | OFull | OFullUnique => (if odd then 2 * g_rmax g + 1 else g_rmax g + 1, g_rmax g + 1,
                            if odd then g_rmax g else 0)
  end.

(* the image basis: (height, width, origin row of the arrays).
   When the requested size equals the quadrant of _dst its arrays are reused
   (their origin row is y0). *)
Definition ibs := (nat * nat * nat)%type.
Definition fresh_ibs (g : geom) (req : nat * nat * nat) : ibs :=
  let '(height, width, row) := req in
  if Nat.eqb height (g_Qh g) && Nat.eqb width (g_Qw g) then (height, width, g_y0 g)
  else (height, width, row).

(* the module-level cache: (_ibs_prm, _ibs), None when _ibs is None.  It is
   reused only for the same request [height, width, row] (rbasex.py:304-310)
   and reset whenever _dst is replaced (rbasex.py:285) or by cache_cleanup(). *)
Definition ibs_cache := option ((nat * nat * nat) * ibs).
Definition req_eqb (a b : nat * nat * nat) : bool :=
  Nat.eqb (fst (fst a)) (fst (fst b)) && Nat.eqb (snd (fst a)) (snd (fst b)) && Nat.eqb (snd a) (snd b).
(* returns the basis used and the new state of the cache *)
Definition get_image_bs (cache : ibs_cache) (g : geom) (req : nat * nat * nat) : ibs * ibs_cache :=
  match cache with
  | Some (k, bs) => if req_eqb k req then (bs, cache)
                    else let bs' := fresh_ibs g req in (bs', Some (req, bs'))
  | None => let bs' := fresh_ibs g req in (bs', Some (req, bs'))
  end.

Section Image.
  Variable A : Type.
  Variable O : field_ops A.
  Variable sqrtn : nat -> A.
  Notation zero := (f0 O).  Notation one := (f1 O).
  Notation add := (fadd O). Notation sub := (fsub O). Notation mul := (fmul O).
  Notation div := (fdiv O). Notation opp := (fopp O).
  Notation img := (list (list A)).

  (* arrays of the image basis at pixel [a][b] of a basis with origin row brow *)
  Definition ir2 (brow a b : nat) : nat := b * b + dist a brow * dist a brow.
  Definition ibin (rmax brow a b : nat) : nat :=
    let k := Nat.sqrt (ir2 brow a b) in if rmax <? k then rmax + 1 else k.
  Definition iwu (rmax brow a b : nat) : A := sub (sqrtn (ir2 brow a b)) (ofnat O (ibin rmax brow a b)).
  Definition iwl (rmax brow a b : nat) : A := sub one (iwu rmax brow a b).
  Definition icos (odd : bool) (brow a b : nat) : A :=
    if Nat.eqb (ir2 brow a b) 0 then zero
    else if odd then div (if a <=? brow then ofnat O (brow - a) else opp (ofnat O (a - brow)))
                         (sqrtn (ir2 brow a b))
         else div (ofnat O (dist a brow * dist a brow)) (ofnat O (ir2 brow a b)).

  (* wl * append(cn, [0])[rbin] + wu * append(cn[1:], [0, 0])[rbin] *)
  Definition radial_term (rmax brow : nat) (cn : list A) (a b : nat) : A :=
    let k := ibin rmax brow a b in
    add (mul (iwl rmax brow a b) (nth k (cn ++ [zero]) zero))
        (mul (iwu rmax brow a b) (nth k (tl cn ++ [zero; zero]) zero)).

  (* _image: c = list of radial profiles (one per angular term) *)
  Definition image_px (odd : bool) (rmax brow : nat) (c : list (list A)) (a b : nat) : A :=
    match c with
    | [] => zero
    | c0 :: cs =>
      fst (fold_left (fun acc cn =>
                        let '(s, n) := acc in
                        (add s (mul (radial_term rmax brow cn a b) (cpow O (icos odd brow a b) n)), S n))
                     cs (radial_term rmax brow c0 a b, 1))
    end.

  Definition image (bs : ibs) (odd : bool) (rmax : nat) (c : list (list A)) : img :=
    let '(height, width, brow) := bs in
    tab height width (image_px odd rmax brow c).

  (* ---- assembling the output, rbasex.py:238-253 ---------------------------- *)
  Definition mirror_left (B : img) : img := hcat (map (fun r => rev (tl r)) B) B.  (* hstack((B[:, :0:-1], B)) *)
  Definition crop (r0 c0 H W : nat) (X : img) : img :=
    map (fun r => firstn W (skipn c0 r)) (firstn H (skipn r0 X)).

  Definition assemble (out : outv) (g : geom) (B : img) : img :=
    let '(height, width, _) := out_dims out g in
    let unique := match out with OFold | OFullUnique => true | _ => false end in
    let X :=
      if g_odd g then (if unique then B else mirror_left B)
      else let R := rev B in
           if unique then R
           else put_quadrants (R, R, R, R) (2 * height - 1) (2 * width - 1) ax_None in
    match out with
    | OSame => crop (if g_odd g then 0 else g_VER g - g_row g) (g_HOR g - g_col g) (g_h g) (g_w g) X
    | _ => X
    end.

  (* rbasex_transform(...)[0] for out != None, given the state of the _ibs
     cache; and the state it leaves *)
  Definition recon (cache : ibs_cache) (out : outv) (g : geom) (c : list (list A)) : img :=
    assemble out g (image (fst (get_image_bs cache g (out_dims out g))) (g_odd g) (g_rmax g) c).
  Definition cache_after (cache : ibs_cache) (out : outv) (g : geom) : ibs_cache :=
    snd (get_image_bs cache g (out_dims out g)).
  (* the cache after a history of calls with the same image parameters (same
     _dst) and the given out values, starting from a clean state *)
  Definition cache_after_history (g : geom) (history : list outv) : ibs_cache :=
    fold_left (fun st o => cache_after st o g) history None.
End Image.

(* shape of an array *)
Definition shape_of {X} (M : list (list X)) : nat * nat := (length M, length (hd [] M)).
