(* BasisDir.v — names of the basis files and the glob patterns of the
   basis_dir_cleanup functions (abel/basex.py, daun.py, dasch.py, linbasex.py,
   rbasex.py: glob(os.path.join(basis_dir, '<method>_basis_*.npy')), and
   abel/transform.py basis_dir_cleanup which dispatches on the method name);
   the default-directory helpers are in CacheCommon (set_basis_dir,
   get_basis_dir).  Strings are lists of character codes.  No proofs here. *)
From Coq Require Import String Ascii List Arith Bool.
Import ListNotations.
Local Close Scope string_scope.
Local Open Scope list_scope.

Definition str := list nat.
Fixpoint codes (s : string) : str :=
  match s with EmptyString => [] | String a r => nat_of_ascii a :: codes r end.

Definition METHODS : list str :=
  map codes ["basex"; "daun"; "linbasex"; "onion_peeling"; "rbasex"; "three_point"; "two_point"]%string.

Definition BASIS : str := codes "_basis_".
Definition NPY : str := codes ".npy".

(* every name a save produces: <method>_basis_<parameters>.npy *)
Definition file_name (m params : str) : str := m ++ BASIS ++ params ++ NPY.

Fixpoint starts (p s : str) : bool :=
  match p, s with
  | [], _ => true
  | x :: p', y :: s' => (x =? y) && starts p' s'
  | _ :: _, [] => false
  end.

Definition ends (suffix s : str) : bool := starts (rev suffix) (rev s).

(* fnmatch of the pattern '<m>_basis_*.npy' *)
Definition cleanup_matches (m name : str) : bool :=
  starts (m ++ BASIS) name && ends NPY name && (length (m ++ BASIS) + length NPY <=? length name).

Definition prefix_free (a b : str) : bool := negb (starts a b) && negb (starts b a).

Definition str_eqb (a b : str) : bool := if list_eq_dec Nat.eq_dec a b then true else false.

Definition all_prefix_free : bool :=
  forallb (fun a => forallb (fun b => str_eqb a b || prefix_free (a ++ BASIS) (b ++ BASIS)) METHODS) METHODS.
