(* CacheDaun.v — state machine of the basis / transform-matrix cache of
   abel/daun.py: globals _bs, _bs_prm, _tr, _tr_prm; functions get_bs_cached,
   _load_bs, _save_bs, cache_cleanup, basis_dir_cleanup.

   Content is symbolic.  A projected-basis matrix is described by
     b_deg   degree it was generated for,
     b_gen   image size n it was generated for,
     b_size  its present size (after cropping [:n, :n]),
     b_junk  true for the content of a valid .npy of a too small shape.
   Its ideal entries are E deg i j for degree 0..2 (p(j) at x_i does not
   involve n) but E3 gen i j for degree 3 (the clamped-spline solve in
   _bs_daun couples all nodes).  Hence cropping a degree<=2 basis gives the
   smaller basis, cropping a degree-3 basis does not (den_b below).

   The order of global assignments relative to the raising points is part of
   the model (see ensure_bs): since the fixes cbc57b0 / 216552f / 7ce4ac5 a
   degree-3 basis is loaded only from a file of exactly the requested size, a
   loaded array must have the shape its file name promises, and _bs / _bs_prm
   are assigned together after load-or-generate-and-save succeeded.
   No proofs here. *)
From Coq Require Import List Arith Bool.
From PA Require Import base.Npy model.CacheCommon.
Import ListNotations.

Record bcont := { b_deg : nat; b_gen : nat; b_size : nat; b_junk : bool }.

Definition ideal (n deg : nat) : bcont :=
  {| b_deg := deg; b_gen := n; b_size := n; b_junk := false |}.

(* bs[:n, :n] *)
Definition crop (n : nat) (b : bcont) : bcont :=
  if n <? b_size b
  then {| b_deg := b_deg b; b_gen := b_gen b; b_size := n; b_junk := b_junk b |}
  else b.

Inductive regt := RNone | RDiff | RL2 | RL2c | RNonneg.
Definition regt_code (r : regt) : nat :=
  match r with RNone => 0 | RDiff => 1 | RL2 => 2 | RL2c => 3 | RNonneg => 4 end.
Definition regt_eqb (a b : regt) : bool := regt_code a =? regt_code b.

(* the cached inverse-transform object *)
Inductive tcont :=
  | TSame (b : bcont)                       (* _tr = _bs *)
  | TInv (b : bcont)                        (* _tr = inv(_bs) *)
  | TTikh (rt : regt) (s : nat) (b : bcont) (* from A = _bs[:n, :n] *).

(* matrix handed to daun_transform *)
Inductive mres :=
  | MB (b : bcont)             (* _bs[:n, :n] *)
  | MT (t : tcont) (n : nat)   (* _tr[:n, :n] *)
  | MR (t : tcont).            (* _tr *)

Definition fkey := (nat * nat)%type.   (* daun_basis_<size>_<degree>.npy *)
Definition fkey_eqb (a b : fkey) : bool := (fst a =? fst b) && (snd a =? snd b).

Record st := {
  bs : option bcont;
  bs_prm : option (nat * nat);             (* [size, degree] *)
  tr : option tcont;
  tr_prm : option (nat * regt * nat);      (* [size, type, strength] *)
  gdir : bdglobal;
  dk : disk fkey bcont }.

Definition init : st :=
  {| bs := None; bs_prm := None; tr := None; tr_prm := None; gdir := GUnset; dk := [] |}.

Inductive op :=
  | Call (n deg : nat) (rt : regt) (s : nat) (fwd : bool) (bd : bdarg)
  | Cleanup (all : bool)                   (* cache_cleanup('all' / 'inverse') *)
  | DirCleanup (bd : bdarg)
  | SetDir (bd : bdarg)
  | Seed (d : nat) (k : fkey) (c : fstate bcont)
  | Remove (d : nat) (k : fkey).

(* ---- _load_bs --------------------------------------------------------- *)
Inductive lres := LNone | LSome (b : bcont) | LRaise (e : exc).

(* smallest size >= n among the files of this degree; for degree 3 only a file
   of exactly the requested size (the cubic-spline basis depends on n) *)
Fixpoint best_file (n deg : nat) (l : list (fkey * fstate bcont)) (acc : option (fkey * fstate bcont))
  : option (fkey * fstate bcont) :=
  match l with
  | [] => acc
  | (k, c) :: r =>
      let ok := (snd k =? deg) &&
                (if deg =? 3 then fst k =? n
                 else (n <=? fst k) &&
                      match acc with Some (k', _) => fst k <? fst k' | None => true end) in
      best_file n deg r (if ok then Some (k, c) else acc)
  end.

Definition load_bs (dir : option nat) (n deg : nat) (d : disk fkey bcont) : lres :=
  match dir with
  | None => LNone
  | Some di =>
      match best_file n deg (in_dir di d) None with
      | None => LNone
      | Some (k, c) =>
          match c with
          | FBad PValue => LNone                       (* except ValueError *)
          | FBad e => LRaise (load_exc e)
          | FShape => LNone                            (* bs.shape != (best_size, best_size) *)
          | FGood b => LSome (crop n b)                (* if best_size > n *)
          end
      end
  end.

(* ---- get_bs_cached ---------------------------------------------------- *)
Definition bs_ok (s : st) (n deg : nat) : res bool :=
  match bs s with
  | None => Ret false
  | Some _ =>
      match bs_prm s with
      | None => Raise EOther                           (* None[1]: TypeError *)
      | Some (pn, pd) => Ret ((pd =? deg) && (if deg =? 3 then pn =? n else n <=? pn))
      end
  end.

Definition with_bs (s : st) (b : option bcont) : st :=
  {| bs := b; bs_prm := bs_prm s; tr := tr s; tr_prm := tr_prm s; gdir := gdir s; dk := dk s |}.
Definition with_gdir (s : st) (g : bdglobal) : st :=
  {| bs := bs s; bs_prm := bs_prm s; tr := tr s; tr_prm := tr_prm s; gdir := g; dk := dk s |}.
Definition with_dk (s : st) (d : disk fkey bcont) : st :=
  {| bs := bs s; bs_prm := bs_prm s; tr := tr s; tr_prm := tr_prm s; gdir := gdir s; dk := d |}.
Definition with_tr (s : st) (t : option tcont) (p : option (nat * regt * nat)) : st :=
  {| bs := bs s; bs_prm := bs_prm s; tr := t; tr_prm := p; gdir := gdir s; dk := dk s |}.

(* the part of get_bs_cached that makes _bs right; returns the new state or
   the state at the raising point *)
Definition ensure_bs (s : st) (n deg : nat) (bd : bdarg) : st * option exc :=
  match bs_ok s n deg with
  | Raise e => (s, Some e)
  | Ret true => (s, None)
  | Ret false =>
      let (g, dir) := resolve (gdir s) bd in
      let s1 := with_gdir s g in
      match load_bs dir n deg (dk s1) with
      | LRaise e => (s1, Some e)                       (* nothing assigned yet *)
      | LSome b =>
          ({| bs := Some b; bs_prm := Some (n, deg); tr := None; tr_prm := None;
              gdir := g; dk := dk s1 |}, None)
      | LNone =>
          (* bs = _bs_daun(n, degree); _save_bs(...); then _bs = bs; _bs_prm = ... *)
          match dir with
          | Some di =>
              if dir_writable di then
                ({| bs := Some (ideal n deg); bs_prm := Some (n, deg); tr := None; tr_prm := None;
                    gdir := g; dk := put_file fkey_eqb di (n, deg) (FGood (ideal n deg)) (dk s1) |}, None)
              else (s1, Some EOther)                   (* the save raises: nothing was assigned *)
          | None =>
              ({| bs := Some (ideal n deg); bs_prm := Some (n, deg); tr := None; tr_prm := None;
                  gdir := g; dk := dk s1 |}, None)
          end
      end
  end.

Definition tr_strength0 (s : st) : bool :=
  match tr s, tr_prm s with
  | Some _, Some (_, _, z) => z =? 0
  | _, _ => false
  end.

Definition prm3_eqb (a : nat * regt * nat) (n : nat) (rt : regt) (z : nat) : bool :=
  (fst (fst a) =? n) && regt_eqb (snd (fst a)) rt && (snd a =? z).

Definition t_size (t : tcont) : nat :=
  match t with TSame b | TInv b | TTikh _ _ b => b_size b end.

(* the rest of get_bs_cached, with _bs = b in place *)
Definition compute (s1 : st) (b : bcont) (n deg : nat) (rt : regt) (z : nat) (fwd : bool)
  : st * res mres :=
  (* a matrix smaller than the data (possible after a failed save or with a
     wrong-shape file) makes dot / solve_triangular / the Tikhonov sum raise
     ValueError *)
  let fin (st' : st) (r : mres) (sz : nat) :=
    if sz <? n then (st', Raise EValue) else (st', Ret r) in
  if fwd || regt_eqb rt RNonneg then fin s1 (MB (crop n b)) (b_size b)
  else
    let z' := match rt with RNone => 0 | _ => z end in
    if z' =? 0 then
      if tr_strength0 s1 then
        match tr s1 with Some t => fin s1 (MT t n) (t_size t) | None => (s1, Raise EOther) end
      else
        let t := if deg =? 3 then TInv b else TSame b in
        let pn := match bs_prm s1 with Some (pn, _) => pn | None => n end in
        fin (with_tr s1 (Some t) (Some (pn, rt, 0))) (MT t n) (b_size b)
    else
      let recompute :=
        if b_size b <? n then (s1, Raise EValue)   (* raises before _tr is assigned *)
        else let t' := TTikh rt z' (crop n b) in
             (with_tr s1 (Some t') (Some (n, rt, z')), Ret (MR t')) in
      match tr s1, tr_prm s1 with
      | Some t, Some p => if prm3_eqb p n rt z' then fin s1 (MR t) n else recompute
      | _, _ => recompute
      end.

Definition step_call (s : st) (n deg : nat) (rt : regt) (z : nat) (fwd : bool)
           (bd : bdarg) : st * res mres :=
  match ensure_bs s n deg bd with
  | (s1, Some e) => (s1, Raise e)
  | (s1, None) =>
      match bs s1 with
      | None => (s1, Raise EOther)                     (* unreachable *)
      | Some b => compute s1 b n deg rt z fwd
      end
  end.

Definition step (s : st) (o : op) : st * res mres :=
  match o with
  | Call n deg rt z fwd bd => step_call s n deg rt z fwd bd
  | Cleanup all =>
      ({| bs := if all then None else bs s; bs_prm := if all then None else bs_prm s;
          tr := None; tr_prm := None; gdir := gdir s; dk := dk s |}, Raise EOther)
  | DirCleanup bd =>
      let (g, dir) := match bd with BDefault => get_basis_dir (gdir s) | _ => resolve (gdir s) bd end in
      (match dir with
       | Some di => {| bs := bs s; bs_prm := bs_prm s; tr := tr s; tr_prm := tr_prm s; gdir := g;
                       dk := filter (fun e => negb (fst (fst e) =? di)) (dk s) |}
       | None => with_gdir s g
       end, Raise EOther)
  | SetDir bd => (with_gdir s (set_basis_dir bd), Raise EOther)
  | Seed d k c => (with_dk s (put_file fkey_eqb d k c (dk s)), Raise EOther)
  | Remove d k => (with_dk s (remove_file fkey_eqb d k (dk s)), Raise EOther)
  end.
(* (the result component of the non-call operations is a dummy) *)

Fixpoint run (s : st) (ops : list op) : st :=
  match ops with [] => s | o :: r => run (fst (step s o)) r end.

(* ---- when are two results the same numbers? ---------------------------- *)
(* executable test; justified by den_* in proofs/CacheDaunProofs.v *)
Definition b_eqv (a b : bcont) : bool :=
  (b_deg a =? b_deg b) && (b_size a =? b_size b) && eqb (b_junk a) (b_junk b) &&
  ((b_deg a <? 3) || (b_gen a =? b_gen b)) && negb (b_junk a).

Definition t_eqv (a b : tcont) : bool :=
  match a, b with
  | TSame x, TSame y => b_eqv x y
  | TInv x, TInv y => b_eqv x y
  | TTikh r1 z1 x, TTikh r2 z2 y => regt_eqb r1 r2 && (z1 =? z2) && b_eqv x y
  | _, _ => false
  end.

(* normal form of a returned matrix: (TSame b)[:n,:n] is the cropped basis;
   a crop that does nothing is dropped *)
Definition norm (r : mres) : mres :=
  match r with
  | MT (TSame b) n => MB (crop n b)
  | MT (TInv b) n => if n <? b_size b then r else MR (TInv b)
  | MT (TTikh rt z b) n => if n <? b_size b then r else MR (TTikh rt z b)
  | _ => r
  end.

Definition m_eqv (a b : mres) : bool :=
  match norm a, norm b with
  | MB x, MB y => b_eqv x y
  | MR x, MR y => t_eqv x y
  | MT x n, MT y m => (n =? m) && t_eqv x y
  | _, _ => false
  end.

Definition out_eqv (a b : res mres) : bool :=
  match a, b with
  | Ret x, Ret y => m_eqv x y
  | Raise e1, Raise e2 => exc_code e1 =? exc_code e2
  | _, _ => false
  end.

(* the same call in a fresh process with an empty basis directory *)
Definition fresh (o : op) : res mres :=
  match o with
  | Call n deg rt z fwd bd =>
      snd (step_call init n deg rt z fwd
             (match bd with BPath d => if dir_writable d then BPath 1 else bd | _ => bd end))
  | _ => Raise EOther
  end.

(* ---- observation for the correspondence ------------------------------- *)
Definition opt_pair_code (p : option (nat * nat)) : list nat :=
  match p with None => [] | Some (a, b) => [a; b] end.
Definition tr_prm_code (p : option (nat * regt * nat)) : list nat :=
  match p with None => [] | Some (a, r, z) => [a; regt_code r; z] end.
Definition bs_size_code (b : option bcont) : list nat :=
  match b with None => [] | Some c => [b_size c] end.

Fixpoint insert_key (k : nat * nat * nat) (l : list (nat * nat * nat)) :=
  match l with
  | [] => [k]
  | x :: r =>
      let '(a, b, c) := k in let '(a', b', c') := x in
      if (a <? a') || ((a =? a') && ((b <? b') || ((b =? b') && (c <=? c'))))
      then k :: l else x :: insert_key k r
  end.
Definition listing (s : st) : list (nat * nat * nat) :=
  fold_right insert_key [] (map (fun e => (fst (fst e), fst (snd (fst e)), snd (snd (fst e)))) (dk s)).

Record obs := {
  o_code : nat;               (* 0 returned, else exception class *)
  o_agree : bool;             (* result equals the fresh-process result *)
  o_fresh_code : nat;
  o_bs_prm : list nat;
  o_bs_size : list nat;
  o_tr_prm : list nat;
  o_gdir : nat;
  o_listing : list (nat * nat * nat) }.

Definition observe (o : op) (s' : st) (r : res mres) : obs :=
  let is_call := match o with Call _ _ _ _ _ _ => true | _ => false end in
  {| o_code := if is_call then res_code r else 0;
     o_agree := if is_call then out_eqv r (fresh o) else true;
     o_fresh_code := if is_call then res_code (fresh o) else 0;
     o_bs_prm := opt_pair_code (bs_prm s');
     o_bs_size := bs_size_code (bs s');
     o_tr_prm := tr_prm_code (tr_prm s');
     o_gdir := bdglobal_code (gdir s');
     o_listing := listing s' |}.

Definition list_eqb (a b : list nat) : bool :=
  if list_eq_dec Nat.eq_dec a b then true else false.
Definition listing_eqb (a b : list (nat * nat * nat)) : bool :=
  list_eqb (flat_map (fun '(x, y, z) => [x; y; z]) a) (flat_map (fun '(x, y, z) => [x; y; z]) b).

Definition obs_eqb (a b : obs) : bool :=
  (o_code a =? o_code b) && eqb (o_agree a) (o_agree b) && (o_fresh_code a =? o_fresh_code b) &&
  list_eqb (o_bs_prm a) (o_bs_prm b) && list_eqb (o_bs_size a) (o_bs_size b) &&
  list_eqb (o_tr_prm a) (o_tr_prm b) && (o_gdir a =? o_gdir b) &&
  listing_eqb (o_listing a) (o_listing b).

(* run a history, comparing the model's observation after each operation with
   the one recorded from the implementation *)
Fixpoint check_hist (s : st) (h : list (op * obs)) : list bool :=
  match h with
  | [] => []
  | (o, ob) :: r =>
      let (s', res) := step s o in
      obs_eqb (observe o s' res) ob :: check_hist s' r
  end.

(* (for diagnostics) the model's observations *)
Fixpoint trace_hist (s : st) (h : list op) : list obs :=
  match h with
  | [] => []
  | o :: r => let (s', res) := step s o in observe o s' res :: trace_hist s' r
  end.

(* ---- preconditions ------------------------------------------------------ *)
Definition bcont_eqb (a b : bcont) : bool :=
  (b_deg a =? b_deg b) && (b_gen a =? b_gen b) && (b_size a =? b_size b) && eqb (b_junk a) (b_junk b).

Definition is_call (o : op) : bool :=
  match o with Call _ _ _ _ _ _ => true | _ => false end.

Definition uses_bad_dir (s : st) (bd : bdarg) : bool :=
  match snd (resolve (gdir s) bd) with
  | Some di => negb (dir_writable di)
  | None => false
  end.

(* what is left are assumptions about the environment, not defects: the degree
   is one of 0..3, basis directories are writable, and good files found on
   disk are what a save of their name writes (damaged and wrong-shape files
   are allowed) *)
Definition hazard (s : st) (o : op) : bool :=
  match o with
  | Call n deg rt z fwd bd => (3 <? deg) || uses_bad_dir s bd
  | Seed d k c =>
      match c with
      | FGood b => negb (bcont_eqb b (ideal (fst k) (snd k)))   (* not what a save writes *)
      | _ => false
      end
  | _ => false
  end.

Fixpoint no_hazard (s : st) (ops : list op) : bool :=
  match ops with
  | [] => true
  | o :: r => negb (hazard s o) && no_hazard (fst (step s o)) r
  end.

(* every call of the history returns what a fresh process returns *)
Fixpoint all_agree (s : st) (ops : list op) : bool :=
  match ops with
  | [] => true
  | o :: r => let (s', res) := step s o in
              (if is_call o then out_eqv res (fresh o) else true) && all_agree s' r
  end.

Definition damage (o : op) : bool :=
  match o with Seed _ _ (FBad _) => true | _ => false end.
Fixpoint no_damage (ops : list op) : bool :=
  match ops with [] => true | o :: r => negb (damage o) && no_damage r end.
Fixpoint all_safe (s : st) (ops : list op) : bool :=
  match ops with
  | [] => true
  | o :: r => let (s', res) := step s o in
              (if is_call o then out_eqv res (fresh o) || (0 <? res_code res) else true) && all_safe s' r
  end.

Definition last_result (ops : list op) (c : op) : res mres := snd (step (run init ops) c).
