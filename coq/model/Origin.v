(* Origin.v — executable model of the origin finders of abel/tools/center.py
     find_origin                       (center.py:18-57, dispatch 636-642)
     find_origin_by_center_of_mass     (center.py:353-396; scipy.ndimage.center_of_mass)
     find_origin_by_convolution        (center.py:399-443)
     find_origin_by_center_of_image    (center.py:446-464)
   over a carrier with + * / , the embedding of the naturals and a strict
   comparison (for argmax); instantiated with Q for execution
   (model/OriginQ.v) and with R for the theorems.  The Gaussian-fit and slice
   methods call scipy optimisers and are not modelled. *)
From Coq Require Import List Arith Bool.
From PA Require Import base.Arr.
Import ListNotations.

Set Implicit Arguments.
Local Open Scope nat_scope.

Inductive method := ImageCenter | Com | Convolution.

Section Origin.
  Variable A : Type.
  Variables (zero : A) (add mul div : A -> A -> A) (ofnat : nat -> A) (ltb : A -> A -> bool).
  Notation img := (list (list A)).

  Definition sum (l : list A) : A := fold_right add zero l.

  (* sum_i i * l[i] *)
  Fixpoint wsum_from (k : nat) (l : list A) : A :=
    match l with
    | [] => zero
    | x :: t => add (mul (ofnat k) x) (wsum_from (S k) t)
    end.
  Definition wsum (l : list A) : A := wsum_from 0 l.

  (* projections: IM.sum(axis=1) (profile along axis 0), IM.sum(axis=0) *)
  Definition proj0 (IM : img) : list A := map sum IM.
  Definition proj1 (IM : img) : list A :=
    map (fun j => sum (map (fun r => nth j r zero) IM)) (seq 0 (ncols IM)).

  (* scipy.ndimage.center_of_mass, one coordinate: sum(IM * grid) / sum(IM) *)
  Definition com_axis (p : list A) : A := div (wsum p) (sum p).

  (* np.argmax: index of the first maximum *)
  Fixpoint argmax_from (best : nat) (bv : A) (k : nat) (l : list A) : nat :=
    match l with
    | [] => best
    | x :: t => if ltb bv x then argmax_from k x (S k) t else argmax_from best bv (S k) t
    end.
  Definition argmax (l : list A) : nat :=
    match l with [] => 0 | x :: t => argmax_from 0 x 1 t end.

  (* np.convolve(p, p, mode='full')[k] = sum_i p[i] * p[k - i] *)
  Definition conv_at (p : list A) (k : nat) : A :=
    sum (map (fun i => mul (nth i p zero) (if i <=? k then nth (k - i) p zero else zero))
             (seq 0 (length p))).
  Definition autoconv (p : list A) : list A := map (conv_at p) (seq 0 (2 * length p - 1)).
  (* origin[a] = np.argmax(conv[a]) / 2 *)
  Definition conv_axis (p : list A) : A := div (ofnat (argmax (autoconv p))) (ofnat 2).

  (* find_origin(IM, method, axes); ax0 / ax1: 0 in axes / 1 in axes *)
  Definition find_origin (meth : method) (IM : img) (ax0 ax1 : bool) : A * A :=
    let c0 := ofnat (nrows IM / 2) in
    let c1 := ofnat (ncols IM / 2) in
    match meth with
    | ImageCenter => (c0, c1)
    | Com => (if ax0 then com_axis (proj0 IM) else c0, if ax1 then com_axis (proj1 IM) else c1)
    | Convolution => (if ax0 then conv_axis (proj0 IM) else c0, if ax1 then conv_axis (proj1 IM) else c1)
    end.

  (* the documented options of the methods: round_output (com: both
     coordinates are passed through Python round(), center.py:388-389; the
     other modelled methods swallow it in **kwargs) and projections
     (convolution: the autoconvolved projections of the requested axes are
     returned after the origin, None for the others, center.py:440-441) *)
  Variable rnd : A -> A.

  Definition find_origin_opt (meth : method) (IM : img) (ax0 ax1 : bool) (round_output : bool) : A * A :=
    let o := find_origin meth IM ax0 ax1 in
    match meth with
    | Com => if round_output then (rnd (fst o), rnd (snd o)) else o
    | _ => o
    end.

  Definition conv_projections (IM : img) (ax0 ax1 : bool) : option (list A) * option (list A) :=
    (if ax0 then Some (autoconv (proj0 IM)) else None, if ax1 then Some (autoconv (proj1 IM)) else None).
End Origin.
