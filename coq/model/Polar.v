(* Polar.v — hand-written model (over the real numbers) of the polar tools
     abel/tools/polar.py      reproject_image_into_polar (54-97): origin wrapping,
                              grid construction (np.linspace(..., endpoint=False)),
                              sampling positions handed to map_coordinates;
                              cart2polar / polar2cart / index_coords (reference
                              forms the translated definitions are proved equal to)
     abel/tools/vmi.py        radial_intensity (68-88): the angular Riemann sum of
                              one polar row
     abel/tools/circularize.py circularize (245-267): the coordinate map
   plus np.arctan2, which the standard library does not have.
   No proofs here.  The *generated* file gen/FormulasPolar.v (translated from
   the current sources by tools/translate/formulas_polar.py) imports this file;
   proofs/Polar*.v prove the generated definitions equal to the reference forms
   below and the theorems of props/C19.v. *)
From Coq Require Import Reals ZArith List.
Import ListNotations.
Open Scope R_scope.

(* np.arctan2(a, b): the angle of the point whose "sine-like" coordinate is a
   and whose "cosine-like" coordinate is b, in (-PI, PI].  (R has no signed
   zero: arctan2(0, 0) = 0 is numpy's value for (+0, +0).) *)
Definition atan2 (a b : R) : R :=
  if Rlt_dec 0 b then atan (a / b)
  else if Rlt_dec b 0 then (if Rle_dec 0 a then atan (a / b) + PI else atan (a / b) - PI)
  else if Rlt_dec 0 a then PI / 2
  else if Rlt_dec a 0 then - PI / 2
  else 0.

(* np.ceil as an integer: the least integer >= x *)
Definition ceilZ (x : R) : Z := (1 - up (- x))%Z.

(* np.linspace(start, stop, n, endpoint=False)[k] and (endpoint=True)[k] *)
Definition linspace_noend (start stop n k : R) : R := start + k * ((stop - start) / n).
Definition linspace_end (start stop n k : R) : R := start + k * ((stop - start) / (n - 1)).

(* "if o < 0: o += n" *)
Definition wrap_origin (o : R) (n : Z) : R := if Rlt_dec o 0 then o + IZR n else o.

(* reference forms of the three coordinate helpers of polar.py *)
Definition cart2polar_m (x y : R) : R * R := (sqrt (x * x + y * y), atan2 x y).
Definition polar2cart_m (r theta : R) : R * R := (r * sin theta, r * cos theta).
Definition index_x_m (nx : Z) (o1 j : R) : R := j - wrap_origin o1 nx.
Definition index_y_m (ny : Z) (o0 i : R) : R := wrap_origin o0 ny - i.

(* grid of reproject_image_into_polar: radii r_k (k = 0..nr-1) and angles
   theta_l (l = 0..nt-1); sample (k, l) is read from the image at
   (row, col) = (o0 - r_k cos theta_l, o1 + r_k sin theta_l). *)
Definition grid_r (rmin rmax : R) (nr : Z) (k : R) : R := linspace_noend rmin rmax (IZR nr) k.
Definition grid_t (tmin tmax : R) (nt : Z) (l : R) : R := linspace_noend tmin tmax (IZR nt) l.
Definition model_nr (rmin rmax dr : R) : Z := ceilZ ((rmax - rmin) / dr).
Definition model_nt_dt (tmin tmax dt : R) : Z := ceilZ ((tmax - tmin) / dt).
Definition model_nt_default (ny nx : Z) : Z := Z.max nx ny.
Definition sample_row (o0 r t : R) : R := o0 - r * cos t.
Definition sample_col (o1 r t : R) : R := o1 + r * sin t.

(* sum of a list; the angular reduction "polarIM.sum(axis=1) * dt" of one row;
   one row of radial_intensity: samples are pairs (value, angle) *)
Definition sum_list (l : list R) : R := fold_right Rplus 0 l.
Definition ang_reduce_m (row : list R) (dt : R) : R := sum_list row * dt.
Definition row_intensity (jac : R -> R -> R) (reduce : list R -> R -> R)
           (r dt : R) (samples : list (R * R)) : R :=
  reduce (map (fun p => fst p * jac r (snd p)) samples) dt.
Definition mean_list (l : list R) : R := sum_list l / INR (length l).

(* circularize: pixel (i, j) of the output is read from the input at
   (row, col) = (oy - Yactual, Xactual + ox), X = j - ox, Y = oy - i,
   Xactual = X * factor / f(theta), theta = arctan2(X, Y), ox = ncol // 2,
   oy = nrow // 2. *)
Definition circ_X (ncol : Z) (j : R) : R := j - IZR (ncol / 2).
Definition circ_Y (nrow : Z) (i : R) : R := IZR (nrow / 2) - i.
Definition circ_theta_m (nrow ncol : Z) (i j : R) : R := atan2 (circ_X ncol j) (circ_Y nrow i).
Definition circ_row_m (f : R -> R) (factor : R) (nrow ncol : Z) (i j : R) : R :=
  IZR (nrow / 2) - circ_Y nrow i * factor / f (circ_theta_m nrow ncol i j).
Definition circ_col_m (f : R -> R) (factor : R) (nrow ncol : Z) (i j : R) : R :=
  circ_X ncol j * factor / f (circ_theta_m nrow ncol i j) + IZR (ncol / 2).
