(* CacheLinbasex.v — state machine of the basis cache of abel/linbasex.py:
   globals _basis, _los, _pas, _radial_step, _clip; functions get_bs_cached,
   cache_cleanup, basis_dir_cleanup; and the shape-dependent raising points
   of linbasex_transform_full / _beta_solve that follow.

   Since fix d879963 the keys are unambiguous strings:
     los = '-'.join(map(str, legendre_orders))
     pas = '-'.join(repr(float(a)) for a in proj_angles)
   (both injective), so the model keeps the lists themselves as key.  The
   memory test additionally asks _basis.shape == (2*cols, cols+1) and, since
   fix 8cabaad, _cols == cols.
   An angle is a natural number a standing for a*pi/400.

   Symbolic content of a basis: exactly the parameters it was generated for
   (_bs_linbasex), with its shape (proj*cols) x (pol*NP),
   NP = max 0 (ceil((cols/2+1)/radial_step) - clip).

   Order of assignments in get_bs_cached (since fix 0e05e8d): `remember(basis)`
   assigns _basis and the four key globals together, after np.load succeeded
   and the loaded shape was found to be the expected one (7ce4ac5), or after
   the basis was generated; a raising (unguarded) np.load leaves the cache
   untouched.  No proofs here. *)
From Coq Require Import List Arith Bool.
From PA Require Import base.Npy model.CacheCommon.
Import ListNotations.

Record lcont := {
  l_cols : nat; l_orders : list nat; l_angles : list nat; l_step : nat; l_clip : nat;
  l_rows : nat; l_ncols : nat; l_junk : bool }.

Definition np_count (cols step clip : nat) : nat :=
  let n := cols / 2 + 1 in
  (if step =? 0 then 0 else (n + step - 1) / step) - clip.

Definition ideal (cols : nat) (orders angles : list nat) (step clip : nat) : lcont :=
  {| l_cols := cols; l_orders := orders; l_angles := angles; l_step := step; l_clip := clip;
     l_rows := length angles * cols; l_ncols := length orders * np_count cols step clip;
     l_junk := false |}.

(* the key: the exact lists (the strings built from them are injective) *)
Definition str := list nat.
Definition str_eqb (a b : str) : bool := if list_eq_dec Nat.eq_dec a b then true else false.

Record key := { k_los : str; k_pas : str; k_step : nat; k_clip : nat }.
Definition key_eqb (a b : key) : bool :=
  str_eqb (k_los a) (k_los b) && str_eqb (k_pas a) (k_pas b) &&
  (k_step a =? k_step b) && (k_clip a =? k_clip b).

Definition key_of (orders angles : list nat) (step clip : nat) : key :=
  {| k_los := orders; k_pas := angles; k_step := step; k_clip := clip |}.

(* linbasex_basis_<cols>_<los>_<pas>_<step>_<clip>.npy *)
Definition fkey := (nat * key)%type.
Definition fkey_eqb (a b : fkey) : bool := (fst a =? fst b) && key_eqb (snd a) (snd b).

Record st := {
  basis : option lcont;
  kprm : option (nat * key);      (* _cols, _los, _pas, _radial_step, _clip *)
  gdir : bdglobal;
  dk : disk fkey lcont }.

Definition init : st := {| basis := None; kprm := None; gdir := GUnset; dk := [] |}.

Inductive op :=
  | Call (cols : nat) (orders angles : list nat) (step clip : nat) (bd : bdarg)
  | Cleanup
  | DirCleanup (bd : bdarg)
  | SetDir (bd : bdarg)
  | Seed (d : nat) (k : fkey) (c : fstate lcont)
  | Remove (d : nat) (k : fkey).

Definition mem_hit (s : st) (cols : nat) (k : key) : option lcont :=
  match basis s, kprm s with
  | Some c, Some (kc, k') =>
      if (l_rows c =? 2 * cols) && (l_ncols c =? cols + 1) && (kc =? cols) && key_eqb k' k then Some c else None
  | _, _ => None
  end.

Definition mk (b : option lcont) (k : option (nat * key)) (g : bdglobal) (d : disk fkey lcont) : st :=
  {| basis := b; kprm := k; gdir := g; dk := d |}.

(* what linbasex_transform_full does with the basis it got: lstsq needs
   proj*cols rows (else LinAlgError), the solution must split into pol rows
   (else reshape raises ValueError) and leave at least two Newton spheres
   (else _single_Beta_norm raises ValueError) *)
Definition use (s' : st) (c : lcont) (cols pol proj : nat) : st * res lcont :=
  if negb (l_rows c =? proj * cols) then (s', Raise EOther)
  else if (pol =? 0) || negb ((l_ncols c) mod pol =? 0) then (s', Raise EValue)
  else if (l_ncols c) / pol <? 2 then (s', Raise EValue)   (* Beta[0, 0:-1].max() of nothing *)
  else (s', Ret c).

Definition step_call (s : st) (cols : nat) (orders angles : list nat) (step clip : nat) (bd : bdarg)
  : st * res lcont :=
  let k := key_of orders angles step clip in
  let pol := length orders in
  let proj := length angles in
  match mem_hit s cols k with
  | Some c => use s c cols pol proj
  | None =>
      let (g, dir) := resolve (gdir s) bd in
      let want := ideal cols orders angles step clip in
      (* remember(_bs_linbasex(...)); then save *)
      let generate (di : option nat) :=
        match di with
        | Some d =>
            if dir_writable d
            then use (mk (Some want) (Some (cols, k)) g (put_file fkey_eqb d (cols, k) (FGood want) (dk s))) want cols pol proj
            else (mk (Some want) (Some (cols, k)) g (dk s), Raise EOther)
        | None => use (mk (Some want) (Some (cols, k)) g (dk s)) want cols pol proj
        end in
      match dir with
      | Some di =>
          match find_file fkey_eqb di (cols, k) (dk s) with
          | Some (FBad e) => (mk (basis s) (kprm s) g (dk s), Raise (load_exc e))
          | Some FShape => generate dir                    (* "Cached basis file incompatible." *)
          | Some (FGood c) =>
              if (l_rows c =? proj * cols) && (l_ncols c =? pol * np_count cols step clip)
              then use (mk (Some c) (Some (cols, k)) g (dk s)) c cols pol proj
              else generate dir
          | None => generate dir
          end
      | None => generate None
      end
  end.

Definition step (s : st) (o : op) : st * res lcont :=
  match o with
  | Call cols orders angles stp clip bd => step_call s cols orders angles stp clip bd
  | Cleanup => (mk None None (gdir s) (dk s), Raise EOther)
  | DirCleanup bd =>
      let (g, dir) := resolve (gdir s) bd in
      (match dir with
       | Some di => mk (basis s) (kprm s) g (filter (fun e => negb (fst (fst e) =? di)) (dk s))
       | None => mk (basis s) (kprm s) g (dk s)
       end, Raise EOther)
  | SetDir bd => (mk (basis s) (kprm s) (set_basis_dir bd) (dk s), Raise EOther)
  | Seed d k c => (mk (basis s) (kprm s) (gdir s) (put_file fkey_eqb d k c (dk s)), Raise EOther)
  | Remove d k => (mk (basis s) (kprm s) (gdir s) (remove_file fkey_eqb d k (dk s)), Raise EOther)
  end.

Fixpoint run (s : st) (ops : list op) : st :=
  match ops with [] => s | o :: r => run (fst (step s o)) r end.

Definition l_eqv (a b : lcont) : bool :=
  (l_cols a =? l_cols b) && str_eqb (l_orders a) (l_orders b) && str_eqb (l_angles a) (l_angles b) &&
  (l_step a =? l_step b) && (l_clip a =? l_clip b) && negb (l_junk a) && negb (l_junk b).

Definition out_eqv (a b : res lcont) : bool :=
  match a, b with
  | Ret x, Ret y => l_eqv x y
  | Raise e1, Raise e2 => exc_code e1 =? exc_code e2
  | _, _ => false
  end.

Definition fresh (o : op) : res lcont :=
  match o with
  | Call cols orders angles stp clip bd =>
      snd (step_call init cols orders angles stp clip
             (match bd with BPath d => if dir_writable d then BPath 1 else bd | _ => bd end))
  | _ => Raise EOther
  end.

(* ---- observation -------------------------------------------------------------- *)
Record obs := {
  o_code : nat; o_agree : bool; o_fresh_code : nat;
  o_los : list str; o_pas : list str; o_stepclip : list nat;
  o_shape : list nat; o_gdir : nat;
  o_files : nat }.            (* number of linbasex files in all directories *)

Definition is_call (o : op) : bool := match o with Call _ _ _ _ _ _ => true | _ => false end.

Definition observe (o : op) (s' : st) (r : res lcont) : obs :=
  {| o_code := if is_call o then res_code r else 0;
     o_agree := if is_call o then out_eqv r (fresh o) else true;
     o_fresh_code := if is_call o then res_code (fresh o) else 0;
     o_los := match kprm s' with Some (_, k) => [k_los k] | None => [] end;
     o_pas := match kprm s' with Some (_, k) => [k_pas k] | None => [] end;
     o_stepclip := match kprm s' with Some (kc, k) => [k_step k; k_clip k; kc] | None => [] end;
     o_shape := match basis s' with Some c => [l_rows c; l_ncols c] | None => [] end;
     o_gdir := bdglobal_code (gdir s');
     o_files := length (dk s') |}.

Definition strs_eqb (a b : list str) : bool :=
  if list_eq_dec (list_eq_dec Nat.eq_dec) a b then true else false.

Definition obs_eqb (a b : obs) : bool :=
  (o_code a =? o_code b) && eqb (o_agree a) (o_agree b) && (o_fresh_code a =? o_fresh_code b) &&
  strs_eqb (o_los a) (o_los b) && strs_eqb (o_pas a) (o_pas b) &&
  str_eqb (o_stepclip a) (o_stepclip b) && str_eqb (o_shape a) (o_shape b) &&
  (o_gdir a =? o_gdir b) && (o_files a =? o_files b).

Fixpoint check_hist (s : st) (h : list (op * obs)) : list bool :=
  match h with
  | [] => []
  | (o, ob) :: r => let (s', res) := step s o in obs_eqb (observe o s' res) ob :: check_hist s' r
  end.

Fixpoint trace_hist (s : st) (h : list op) : list obs :=
  match h with
  | [] => []
  | o :: r => let (s', res) := step s o in observe o s' res :: trace_hist s' r
  end.

(* ---- hazards ---------------------------------------------------------------------- *)
Definition uses_bad_dir (s : st) (bd : bdarg) : bool :=
  match snd (resolve (gdir s) bd) with Some di => negb (dir_writable di) | None => false end.

Definition lcont_exact (a b : lcont) : bool :=
  l_eqv a b && (l_rows a =? l_rows b) && (l_ncols a =? l_ncols b).

(* assumptions about the environment, not defects: writable directories, and
   good files on disk are what a save of their name writes *)
Definition hazard (s : st) (o : op) : bool :=
  match o with
  | Call cols orders angles stp clip bd => uses_bad_dir s bd
  | Seed d k c =>
      match c with
      | FGood x =>
          negb (fkey_eqb k (l_cols x, key_of (l_orders x) (l_angles x) (l_step x) (l_clip x)) &&
                lcont_exact x (ideal (l_cols x) (l_orders x) (l_angles x) (l_step x) (l_clip x)))
      | _ => false
      end
  | _ => false
  end.

Fixpoint no_hazard (s : st) (ops : list op) : bool :=
  match ops with [] => true | o :: r => negb (hazard s o) && no_hazard (fst (step s o)) r end.

Definition damage (o : op) : bool := match o with Seed _ _ (FBad _) => true | _ => false end.
Fixpoint no_damage (ops : list op) : bool :=
  match ops with [] => true | o :: r => negb (damage o) && no_damage r end.

Fixpoint all_agree (s : st) (ops : list op) : bool :=
  match ops with
  | [] => true
  | o :: r => let (s', res) := step s o in
              (if is_call o then out_eqv res (fresh o) else true) && all_agree s' r
  end.

Fixpoint safe_until_raise (s : st) (ops : list op) : bool :=
  match ops with
  | [] => true
  | o :: r => let (s', res) := step s o in
              if is_call o then
                match res with
                | Raise _ => true
                | Ret _ => out_eqv res (fresh o) && safe_until_raise s' r
                end
              else safe_until_raise s' r
  end.

Fixpoint all_safe (s : st) (ops : list op) : bool :=
  match ops with
  | [] => true
  | o :: r => let (s', res) := step s o in
              (if is_call o then out_eqv res (fresh o) || (0 <? res_code res) else true) && all_safe s' r
  end.

Definition last_result (ops : list op) (c : op) : res lcont := snd (step (run init ops) c).
