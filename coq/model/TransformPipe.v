(* TransformPipe.v — model of abel.Transform for the eight quadrant methods:
   abel/transform.py:523-573 (_abel_transform_image_by_quadrant): split the
   (already centred) image with the symmetry options, apply the half-image
   transform T to Q1 always, to Q2 iff 1 not in symmetry_axis, to Q0 iff 0 not
   in symmetry_axis, to Q3 iff None in symmetry_axis, and reassemble with the
   same symmetry_axis.  T is a parameter (the method's transform function).
   Quadrants that are not transformed are passed as None to
   put_image_quadrants (modelled as the empty image). *)
From Coq Require Import List Arith Bool ZArith.
From PA Require Import base.Arr model.Symmetry.
Import ListNotations.

Set Implicit Arguments.

Definition ax_has_none (a : axis) : bool := existsb (oz_eqb None) (ax_elems a).

(* Transform._verify_some_inputs: symmetry_axis=[] (or ()) is treated as None *)
Definition norm_axis (a : axis) : axis :=
  match ax_elems a with [] => ax_None | _ => a end.

Section Pipe.
  Variable A : Type.
  Variable zero : A.
  Variable add : A -> A -> A.
  Variable divn : A -> nat -> A.
  Variable T : list (list A) -> list (list A).     (* half-image transform *)
  Notation img := (list (list A)).

  Definition transform_model (a0 : axis) (u : mask) (meth : smethod) (IM : img) : result img :=
    if Nat.leb (nrows IM) 2 then ValueError else        (* fewer than 3 rows *)
    if Nat.eqb (mask_count u) 0 then ValueError else
    let a := norm_axis a0 in
    match get_quadrants zero add divn IM true a u meth with
    | ValueError => ValueError
    | Ok (Q0, Q1, Q2, Q3) =>
      let AQ1 := T Q1 in
      let AQ2 := if ax_has 1 a then [] else T Q2 in
      let AQ0 := if ax_has 0 a then [] else T Q0 in
      let AQ3 := if ax_has_none a then T Q3 else [] in
      Ok (put_quadrants (AQ0, AQ1, AQ2, AQ3) (nrows IM) (ncols IM) a)
    end.

  (* the specification: transform each of the four combined quadrants *)
  Definition four_quadrants_spec (a0 : axis) (u : mask) (meth : smethod) (IM : img) : result img :=
    let a := norm_axis a0 in
    match get_quadrants zero add divn IM true a u meth with
    | ValueError => ValueError
    | Ok (Q0, Q1, Q2, Q3) =>
      Ok (put_quadrants (T Q0, T Q1, T Q2, T Q3) (nrows IM) (ncols IM) ax_None)
    end.
End Pipe.

(* the probe transform used by the correspondence check: an exactly computable
   row-wise map, out[j] = 3 z[j] + sum_{k>j} z[k] *)
From Coq Require Import QArith.
Fixpoint probe_row (l : list Q) : list Q :=
  match l with
  | [] => []
  | x :: t => (3 * x + fold_right Qplus 0 t)%Q :: probe_row t
  end.
Definition probeT (X : list (list Q)) : list (list Q) := map probe_row X.
