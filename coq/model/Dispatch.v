(* Dispatch.v — the request-validation logic of PyAbel as a decision function.

   A request is (how it is made, method, direction, image-shape class, one
   option deviating from the documented values).  outcome says whether the
   library raises or which transform it performs.  The guards are written in
   the order the code applies them:

     abel/transform.py  Transform._verify_some_inputs (462-495), _center_image,
                        _abel_transform_image_by_quadrant (method lookup,
                        get_image_quadrants)
     abel/basex.py, daun.py, direct.py, hansenlaw.py, rbasex.py   direction check
     abel/daun.py       reg parsing (101-120), degree check in _bs_daun
     abel/dasch.py      _dasch_transform 111-123
     abel/onion_bordas.py 120-121
     abel/linbasex.py   linbasex_transform_full 206-221
     abel/rbasex.py     reg dispatch (get_bs_cached), out (215-232), rmax (vmi)
     abel/tools/center.py, symmetry.py   origin / crop / symmetrize_method names *)
From Coq Require Import List Bool.
Import ListNotations.

Inductive meth := Basex | Daun | Direct | Hansenlaw | OnionBordas | OnionPeeling
                | TwoPoint | ThreePoint | Linbasex | Rbasex.
Inductive dir := Forward | Inverse | Sideways.      (* Sideways: any other string *)
Inductive via := Fn | Tr.                            (* transform function / abel.Transform *)
Inductive shape := Fine | OneD | TwoRows | OneCol | TwoCols | NonSquare | EvenSize.
Inductive opt := NoOpt | BadMethod | BadOrigin | BadCrop | BadSymMethod | NoQuadrants
               | DaunRegString | DaunRegTuple | DaunDegree | DaunNonneg
               | RbasexReg | RbasexRegTuple | RbasexOut | RbasexRmax.

Record request := { r_via : via; r_meth : meth; r_dir : dir; r_shape : shape; r_opt : opt }.

Inductive outcome := Raise | Performs (m : meth) (d : dir).

Definition meth_eqb (a b : meth) : bool :=
  match a, b with
  | Basex, Basex | Daun, Daun | Direct, Direct | Hansenlaw, Hansenlaw
  | OnionBordas, OnionBordas | OnionPeeling, OnionPeeling | TwoPoint, TwoPoint
  | ThreePoint, ThreePoint | Linbasex, Linbasex | Rbasex, Rbasex => true
  | _, _ => false
  end.
Definition dir_eqb (a b : dir) : bool :=
  match a, b with Forward, Forward | Inverse, Inverse | Sideways, Sideways => true | _, _ => false end.

Definition full_image_method (m : meth) : bool :=
  match m with Linbasex | Rbasex => true | _ => false end.

(* ---- the transform functions ---------------------------------------- *)
Definition fn_outcome (m : meth) (d : dir) (sh : shape) (o : opt) : outcome :=
  match m with
  | Basex | Direct | Hansenlaw =>
    match d with Sideways => Raise | _ => Performs m d end
  | Daun =>
    match d with
    | Sideways => Raise
    | _ =>
      match o with
      | DaunRegString | DaunRegTuple | DaunDegree => Raise
      | DaunNonneg => match d with Forward => Raise | _ => Performs m d end
      | _ => Performs m d
      end
    end
  | OnionBordas | OnionPeeling =>
    match d with Inverse => Performs m Inverse | _ => Raise end
  | TwoPoint =>
    match d with
    | Inverse => match sh with OneCol => Raise | _ => Performs m Inverse end
    | _ => Raise
    end
  | ThreePoint =>
    match d with
    | Inverse => match sh with OneCol | TwoCols => Raise | _ => Performs m Inverse end
    | _ => Raise
    end
  | Linbasex =>
    match d with
    | Inverse => match sh with EvenSize | NonSquare => Raise | _ => Performs m Inverse end
    | _ => Raise
    end
  | Rbasex =>
    match d with
    | Sideways => Raise
    | _ =>
      match o with
      | RbasexOut | RbasexRmax => Raise
      | RbasexReg | RbasexRegTuple =>      (* reg is only looked at for the inverse *)
        match d with Inverse => Raise | _ => Performs m d end
      | _ => Performs m d
      end
    end
  end.

(* ---- abel.Transform ------------------------------------------------------- *)
Definition tr_outcome (m : meth) (d : dir) (sh : shape) (o : opt) : outcome :=
  (* _verify_some_inputs *)
  match sh with OneD | TwoRows => Raise | _ =>
  match o with NoQuadrants => Raise | _ =>
  match d with Sideways => Raise | _ =>
  if meth_eqb m Linbasex && negb (dir_eqb d Inverse) then Raise else
  (* _center_image *)
  match o with BadOrigin | BadCrop => Raise | _ =>
  (* _abel_transform_image *)
  match o with BadMethod => Raise | _ =>
  if full_image_method m then fn_outcome m d sh o
  else match o with BadSymMethod => Raise | _ => fn_outcome m d sh o end
  end end end end end.

Definition outcome_of (r : request) : outcome :=
  match r_via r with
  | Fn => fn_outcome (r_meth r) (r_dir r) (r_shape r) (r_opt r)
  | Tr => tr_outcome (r_meth r) (r_dir r) (r_shape r) (r_opt r)
  end.

(* ---- the request space that is both proved about and executed ----------- *)
Definition all_via := [Fn; Tr].
Definition all_meth := [Basex; Daun; Direct; Hansenlaw; OnionBordas; OnionPeeling;
                        TwoPoint; ThreePoint; Linbasex; Rbasex].
Definition all_dir := [Forward; Inverse; Sideways].
Definition all_shape := [OneD; TwoRows; OneCol; TwoCols; NonSquare; EvenSize].
Definition all_opt := [BadMethod; BadOrigin; BadCrop; BadSymMethod; NoQuadrants;
                       DaunRegString; DaunRegTuple; DaunDegree; DaunNonneg;
                       RbasexReg; RbasexRegTuple; RbasexOut; RbasexRmax].

(* a shape class is part of the space where the property names it as violating
   a stated requirement of that method *)
Definition shape_applies (v : via) (m : meth) (sh : shape) : bool :=
  match sh with
  | Fine => true
  | OneD | TwoRows => match v with Tr => true | Fn => false end
  | OneCol => meth_eqb m TwoPoint || meth_eqb m ThreePoint
  | TwoCols => meth_eqb m ThreePoint
  | NonSquare | EvenSize => meth_eqb m Linbasex
  end.

Definition opt_applies (v : via) (m : meth) (o : opt) : bool :=
  match o with
  | NoOpt => true
  | BadMethod => match v with Tr => meth_eqb m Basex | Fn => false end
  | BadOrigin | BadCrop | NoQuadrants => match v with Tr => true | Fn => false end
  | BadSymMethod => match v with Tr => negb (full_image_method m) | Fn => false end
  | DaunRegString | DaunRegTuple | DaunDegree | DaunNonneg => meth_eqb m Daun
  | RbasexReg | RbasexRegTuple | RbasexOut | RbasexRmax => meth_eqb m Rbasex
  end.

Definition all_requests : list request :=
  flat_map (fun v => flat_map (fun m => flat_map (fun d =>
    {| r_via := v; r_meth := m; r_dir := d; r_shape := Fine; r_opt := NoOpt |}
    :: map (fun sh => {| r_via := v; r_meth := m; r_dir := d; r_shape := sh; r_opt := NoOpt |})
           (filter (shape_applies v m) all_shape)
    ++ map (fun o => {| r_via := v; r_meth := m; r_dir := d; r_shape := Fine; r_opt := o |})
           (filter (opt_applies v m) all_opt))
    all_dir) all_meth) all_via.

(* ---- the property on one request ------------------------------------------ *)
Definition outcome_eqb (a b : outcome) : bool :=
  match a, b with
  | Raise, Raise => true
  | Performs m d, Performs m' d' => meth_eqb m m' && dir_eqb d d'
  | _, _ => false
  end.

Definition loud_or_honoured_b (r : request) : bool :=
  outcome_eqb (outcome_of r) Raise
  || outcome_eqb (outcome_of r) (Performs (r_meth r) (r_dir r)).

Definition implemented (m : meth) (d : dir) : bool :=
  match d with
  | Inverse => true
  | Forward => match m with Basex | Daun | Direct | Hansenlaw | Rbasex => true | _ => false end
  | Sideways => false
  end.

(* option values that are outside the documented sets (DaunNonneg is a
   documented value; it is unavailable only for the forward direction) *)
Definition unknown_name (o : opt) : bool :=
  match o with NoOpt | DaunNonneg => false | _ => true end.
(* a regularisation name is only interpreted by the inverse transform *)
Definition reg_opt (o : opt) : bool :=
  match o with RbasexReg | RbasexRegTuple => true | _ => false end.

Definition must_raise (r : request) : bool :=
  negb (implemented (r_meth r) (r_dir r))
  || match r_shape r with Fine => false | _ => true end
  || (unknown_name (r_opt r) && negb (reg_opt (r_opt r) && dir_eqb (r_dir r) Forward))
  || (match r_opt r with DaunNonneg => dir_eqb (r_dir r) Forward | _ => false end).

(* encoding used by the correspondence output *)
Definition outcome_code (o : outcome) : nat :=
  match o with Raise => 0 | Performs _ Forward => 1 | Performs _ Inverse => 2 | Performs _ Sideways => 3 end.
