(* AbelPoly.v — the Abel (line-of-sight) transform over the reals, and the
   model of the .abel part of abel/tools/polynomial.py class Polynomial
   (lines 166-207, 218-226).  Real-number model (Coquelicot); the executable
   coefficient preparation is model/Poly.v.  No proofs here. *)
From Coq Require Import Reals List Arith Bool ZArith QArith Qreals.
From Coquelicot Require Import Coquelicot.
From PA Require Import model.Poly.
Import ListNotations.
Open Scope R_scope.

(* radius on the line of sight at height x, depth y *)
Definition rr (x y : R) : R := sqrt (x * x + y * y).

(* Abel transform of a function supported in [0, Rm] (proper-integral form:
   y = depth along the line of sight; no singular integrand) *)
Definition Abel (f : R -> R) (Rm x : R) : R :=
  2 * RInt (fun y => f (sqrt (x * x + y * y))) 0 (sqrt (Rm * Rm - x * x)).

(* ---- specification: antiderivative of r^k along the line of sight ---- *)
(* BB k x y r: r stands for sqrt(x^2+y^2) *)
Fixpoint BB (k : nat) (x y r : R) : R :=
  match k with
  | O => y
  | S O => (y * r + x * x * ln (y + r)) / 2
  | S (S k') => (y * r ^ (k' + 2) + INR (k' + 2) * (x * x) * BB k' x y r) / INR (k' + 3)
  end.
Definition AA (k : nat) (x y : R) : R := BB k x y (rr x y).

(* antiderivative of (sum_j c_j r^(k0+j)) *)
Fixpoint PA (c : list R) (k0 : nat) (x y : R) : R :=
  match c with [] => 0 | a :: c' => a * AA k0 x y + PA c' (S k0) x y end.

(* ---- the code: one-sided integral a(k), lines 190-207: R instance of
   Poly.a_gen ---- *)
Definition a_genR := a_gen R 0 1 Rplus Rmult Rdiv.
Definition abel_sumR := abel_sum R 0 1 Rplus Rmult.

(* lines 173-187 with Coq's sqrt (0 for arguments <= 0) and ln (0 for
   arguments <= 0) standing for the where-guarded numpy calls *)
Definition Dyr (rmin rmax yup ylo : R) (p : nat) : R := rmax ^ p * yup - rmin ^ p * ylo.
Definition a_code (k : nat) (x rmin rmax : R) : R :=
  let yup := sqrt (rmax * rmax - x * x) in
  let ylo := sqrt (rmin * rmin - x * x) in
  a_genR k (x * x) (Dyr rmin rmax yup ylo)
        (ln (rmax + yup) - ln (Rmax rmin x + ylo)).

Definition abel_pt (c : list R) (sc x rmin rmax : R) : R :=
  abel_sumR (map (Rmult sc) c) 0 (fun k => a_code k x rmin rmax).

(* R instance of the preparation *)
Definition Reqb (a b : R) : bool := if Req_EM_T a b then true else false.
Definition Rltb (a b : R) : bool := if Rlt_dec a b then true else false.
Definition prepareR := prepare R 0 1 Rplus Rmult Rdiv Ropp Reqb Rltb.
Definition poly_funcR := poly_func R 0 1 Rplus Rmult Rdiv Ropp Reqb Rltb.
Definition pevalR := peval R 0 Rplus Rmult.

Definition poly_abelR (r : list R) (rmin rmax : R) (c : list R) (r0 s : R) (reduced : bool) : list R :=
  match prepareR r rmin rmax c r0 s reduced with
  | None => map (fun _ => 0) r
  | Some p => map (fun ix => let '(i, x) := ix in
                             if (i <? p_imax p)%nat
                             then abel_pt (p_c p) (p_scale p) x (p_rmin p) (p_rmax p) else 0)
                  (combine (seq 0 (length (p_r p))) (p_r p))
  end.

(* the function the object represents (documented meaning of the arguments;
   negative r_min is read as 0) *)
Definition polyfun (rmin rmax : R) (c : list R) (r0 s : R) (r : R) : R :=
  if Rle_dec (Rmax rmin 0) r then if Rlt_dec r rmax then pevalR c ((r - r0) / s) else 0 else 0.

(* ---- evaluation form on rational inputs (all decisions and all rational
   arithmetic done in Q by vm_compute; the model is linear in y_up, y_lo and
   Dlnry), used by the correspondence check; proved equal to abel_pt in
   proofs/AbelPolyEval.v ---- *)
Record abel_data := {
  d_al : Q; d_be : Q; d_ga : Q;          (* coefficients of y_up, y_lo, Dlnry *)
  d_zup : Q; d_bup : bool;               (* r_max^2 - x^2 and whether it is > 0 *)
  d_zlo : Q; d_blo : bool;               (* r_min^2 - x^2 and whether it is > 0 *)
  d_m : Q; d_bm : bool;                  (* max(r_min, x) and whether it is > 0 *)
  d_rmax : Q }.

Definition Qmax (a b : Q) : Q := if Qltb a b then b else a.

Definition abel_dataQ (c : list Q) (sc x rmin rmax : Q) : abel_data :=
  let '(al, be, ga) := abel_linQ c sc x rmin rmax in
  let zup := Qred (rmax * rmax - x * x) in
  let zlo := Qred (rmin * rmin - x * x) in
  let m := Qmax rmin x in
  {| d_al := Qred al; d_be := Qred be; d_ga := Qred ga;
     d_zup := zup; d_bup := Qltb 0 zup; d_zlo := zlo; d_blo := Qltb 0 zlo;
     d_m := m; d_bm := Qltb 0 m; d_rmax := rmax |}.

Definition abel_of_data (d : abel_data) : R :=
  let yup := if d_bup d then sqrt (Q2R (d_zup d)) else 0 in
  let ylo := if d_blo d then sqrt (Q2R (d_zlo d)) else 0 in
  Q2R (d_al d) * yup + Q2R (d_be d) * ylo +
  Q2R (d_ga d) * (ln (Q2R (d_rmax d) + yup) - (if d_bm d then ln (Q2R (d_m d) + ylo) else 0)).

(* data of grid point i of Polynomial(r, rmin, rmax, c, r0, s, reduced).abel;
   None where the code leaves abel[i] = 0 *)
Definition poly_abel_dataQ (r : list Q) (rmin rmax : Q) (c : list Q) (r0 s : Q) (reduced : bool) (i : nat)
  : option abel_data :=
  match prepareQ r rmin rmax c r0 s reduced with
  | None => None
  | Some p => if (i <? p_imax p)%nat
              then Some (abel_dataQ (p_c p) (p_scale p) (nth i (p_r p) 0%Q) (p_rmin p) (p_rmax p))
              else None
  end.
Definition abel_of_opt (o : option abel_data) : R :=
  match o with None => 0 | Some d => abel_of_data d end.
Definition poly_abelQ_at r rmin rmax c r0 s reduced i : R :=
  abel_of_opt (poly_abel_dataQ r rmin rmax c r0 s reduced i).
