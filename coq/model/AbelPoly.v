(* AbelPoly.v — the Abel (line-of-sight) transform over the reals, and the
   model of the .abel part of abel/tools/polynomial.py class Polynomial
   (lines 166-207, 218-226).  Real-number model (Coquelicot); the executable
   coefficient preparation is model/Poly.v.  No proofs here. *)
From Coq Require Import Reals List Arith Bool ZArith QArith Qreals.
From Coquelicot Require Import Coquelicot.
From PA Require Import model.Poly.
Import ListNotations.
Open Scope R_scope.

(* radius on the line of sight at height x, depth y *)
Definition rr (x y : R) : R := sqrt (x * x + y * y).

(* Abel transform of a function supported in [0, Rm] (proper-integral form:
   y = depth along the line of sight; no singular integrand) *)
Definition Abel (f : R -> R) (Rm x : R) : R :=
  2 * RInt (fun y => f (sqrt (x * x + y * y))) 0 (sqrt (Rm * Rm - x * x)).

(* ---- specification: antiderivative of r^k along the line of sight ---- *)
(* BB k x y r: r stands for sqrt(x^2+y^2) *)
Fixpoint BB (k : nat) (x y r : R) : R :=
  match k with
  | O => y
  | S O => (y * r + x * x * ln (y + r)) / 2
  | S (S k') => (y * r ^ (k' + 2) + INR (k' + 2) * (x * x) * BB k' x y r) / INR (k' + 3)
  end.
Definition AA (k : nat) (x y : R) : R := BB k x y (rr x y).

(* antiderivative of (sum_j c_j r^(k0+j)) *)
Fixpoint PA (c : list R) (k0 : nat) (x y : R) : R :=
  match c with [] => 0 | a :: c' => a * AA k0 x y + PA c' (S k0) x y end.

(* ---- the code: one-sided integral a(k), lines 190-207 ---- *)
(* C[2i] for given k: C[0] = 1/(k+1), C[k-m+2] = C[k-m]*m/(m-1), m = k - 2i *)
Fixpoint Ccoef (k i : nat) : R :=
  match i with
  | O => / INR (k + 1)
  | S i' => Ccoef k i' * INR (k - 2 * i') / INR (k - 2 * i' - 1)
  end.

(* Horner in x2 = x^2; D p = Dyr[p]; dln = Dlnry.  n = remaining steps,
   i = current index of C (C[2i]); the innermost (first computed) term carries
   the logarithm for odd k. *)
Fixpoint hor (k : nat) (od : bool) (x2 : R) (D : nat -> R) (dln : R) (n i : nat) : R :=
  match n with
  | O => Ccoef k i * D (k - 2 * i)%nat + (if od then Ccoef k i * x2 * dln else 0)
  | S n' => Ccoef k i * D (k - 2 * i)%nat + x2 * hor k od x2 D dln n' (S i)
  end.
Definition a_gen (k : nat) (x2 : R) (D : nat -> R) (dln : R) : R :=
  hor k (Nat.odd k) x2 D dln (k / 2) 0.

(* lines 173-187 with Coq's sqrt (0 for arguments <= 0) and ln (0 for
   arguments <= 0) standing for the where-guarded numpy calls *)
Definition Dyr (rmin rmax yup ylo : R) (p : nat) : R := rmax ^ p * yup - rmin ^ p * ylo.
Definition a_code (k : nat) (x rmin rmax : R) : R :=
  let yup := sqrt (rmax * rmax - x * x) in
  let ylo := sqrt (rmin * rmin - x * x) in
  a_gen k (x * x) (Dyr rmin rmax yup ylo)
        (ln (rmax + yup) - ln (Rmax rmin x + ylo)).

(* lines 219-226: abel[i] = sum_k c[k] * 2 * a(k) for i < i_max *)
Fixpoint abel_sum (c : list R) (k0 : nat) (ak : nat -> R) : R :=
  match c with [] => 0 | a :: c' => a * 2 * ak k0 + abel_sum c' (S k0) ak end.
Definition abel_pt (c : list R) (sc x rmin rmax : R) : R :=
  abel_sum (map (Rmult sc) c) 0 (fun k => a_code k x rmin rmax).

(* R instance of the preparation *)
Definition Reqb (a b : R) : bool := if Req_EM_T a b then true else false.
Definition Rltb (a b : R) : bool := if Rlt_dec a b then true else false.
Definition prepareR := prepare R 0 1 Rplus Rmult Rdiv Ropp Reqb Rltb.
Definition poly_funcR := poly_func R 0 1 Rplus Rmult Rdiv Ropp Reqb Rltb.
Definition pevalR := peval R 0 Rplus Rmult.

Definition poly_abelR (r : list R) (rmin rmax : R) (c : list R) (r0 s : R) (reduced : bool) : list R :=
  match prepareR r rmin rmax c r0 s reduced with
  | None => map (fun _ => 0) r
  | Some p => map (fun ix => let '(i, x) := ix in
                             if (i <? p_imax p)%nat
                             then abel_pt (p_c p) (p_scale p) x (p_rmin p) (p_rmax p) else 0)
                  (combine (seq 0 (length (p_r p))) (p_r p))
  end.

(* the function the object represents (documented meaning of the arguments;
   negative r_min is read as 0) *)
Definition polyfun (rmin rmax : R) (c : list R) (r0 s : R) (r : R) : R :=
  if Rle_dec (Rmax rmin 0) r then if Rlt_dec r rmax then pevalR c ((r - r0) / s) else 0 else 0.

(* ---- evaluation form on rational inputs (decisions made in Q), used by the
   correspondence check; proved equal to the model in proofs/AbelPolyEval.v ---- *)
Definition sqrt0Q (z : Q) : R := if Qlt_le_dec 0 z then sqrt (Q2R z) else 0.
Definition Qmax (a b : Q) : Q := if Qlt_le_dec a b then b else a.
Definition a_codeQ (k : nat) (x rmin rmax : Q) : R :=
  let yup := sqrt0Q (rmax * rmax - x * x) in
  let ylo := sqrt0Q (rmin * rmin - x * x) in
  let m := Qmax rmin x in
  a_gen k (Q2R (x * x)) (Dyr (Q2R rmin) (Q2R rmax) yup ylo)
        (ln (Q2R rmax + yup) - (if Qlt_le_dec 0 m then ln (Q2R m + ylo) else 0)).
Definition abel_ptQ (c : list Q) (sc x rmin rmax : Q) : R :=
  abel_sum (map (fun a => Q2R (sc * a)) c) 0 (fun k => a_codeQ k x rmin rmax).
Definition poly_abelQ_at (r : list Q) (rmin rmax : Q) (c : list Q) (r0 s : Q) (reduced : bool) (i : nat) : R :=
  match prepareQ r rmin rmax c r0 s reduced with
  | None => 0
  | Some p => if (i <? p_imax p)%nat
              then abel_ptQ (p_c p) (p_scale p) (nth i (p_r p) 0%Q) (p_rmin p) (p_rmax p) else 0
  end.
