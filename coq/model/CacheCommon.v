(* CacheCommon.v — vocabulary shared by the cache state machines
   (CacheBasex, CacheDaun, CacheDasch, CacheLinbasex, CacheRbasex, BasisDir).

   * Exceptions are compared by class only.
   * A basis file on disk is either a good file carrying a symbolic content
     descriptor, or a damaged one, represented by the error class numpy.load
     gives on it (base/Npy.v `perr`: PEOF for an empty file, PValue for every
     other truncation / garbage, PZip for a 'PK' prefix), or a valid file of a
     wrong shape.
   * basis_dir arguments: None / '' (default) / explicit path.  Directories
     are numbered; 0 is abel.transform.default_basis_dir(); BADDIR stands for
     a path that cannot be written (does not exist): globbing it finds
     nothing, saving into it raises (FileNotFoundError: class EOther).
   * abel.transform._basis_dir (transform.py:591-646): '' until first use.
   No proofs here. *)
From Coq Require Import List Arith Bool.
From PA Require Import base.Npy.
Import ListNotations.

(* EShape: arrays of incompatible shapes meet somewhere in numpy/scipy; the
   class of the exception (ValueError, LinAlgError, ...) is not predicted *)
Inductive exc := EValue | EEOF | EAttr | EOther | EShape.

Definition exc_code (e : exc) : nat :=
  match e with EValue => 1 | EEOF => 2 | EAttr => 3 | EOther => 4 | EShape => 5 end.

Definition load_exc (e : perr) : exc :=
  match e with PEOF => EEOF | PValue => EValue | PZip => EOther | PUnsupported => EOther end.

Inductive fstate (D : Type) :=
  | FGood (d : D)          (* complete file written by a correct save *)
  | FBad (e : perr)        (* numpy.load raises this class *)
  | FShape.                (* valid .npy of a shape too small for its name *)
Arguments FGood {D} d.
Arguments FBad {D} e.
Arguments FShape {D}.

Inductive bdarg := BNone | BDefault | BPath (d : nat).
Inductive bdglobal := GUnset | GNone | GPath (d : nat).

Definition BADDIR : nat := 99.
Definition dir_writable (d : nat) : bool := negb (d =? BADDIR).

(* set_basis_dir(x) (transform.py:594-621) *)
Definition set_basis_dir (a : bdarg) : bdglobal :=
  match a with BNone => GNone | BDefault => GPath 0 | BPath d => GPath d end.

(* get_basis_dir() (transform.py:624-646): the value returned and the new
   global *)
Definition get_basis_dir (g : bdglobal) : bdglobal * option nat :=
  match g with
  | GUnset => (GPath 0, Some 0)
  | GNone => (GNone, None)
  | GPath d => (GPath d, Some d)
  end.

(* `if basis_dir == '': basis_dir = get_basis_dir(make=True)` *)
Definition resolve (g : bdglobal) (a : bdarg) : bdglobal * option nat :=
  match a with
  | BNone => (g, None)
  | BPath d => (g, Some d)
  | BDefault => get_basis_dir g
  end.

Definition bdglobal_code (g : bdglobal) : nat :=
  match g with GUnset => 0 | GNone => 1 | GPath d => 2 + d end.

(* insertion of a file into a directory listing kept as an association list *)
Section Disk.
  Variable K D : Type.
  Variable keqb : K -> K -> bool.
  Definition disk := list (nat * K * fstate D).

  Definition same_file (d : nat) (k : K) (e : nat * K * fstate D) : bool :=
    (fst (fst e) =? d) && keqb (snd (fst e)) k.

  Definition remove_file (d : nat) (k : K) (dk : disk) : disk :=
    filter (fun e => negb (same_file d k e)) dk.

  Definition put_file (d : nat) (k : K) (c : fstate D) (dk : disk) : disk :=
    (d, k, c) :: remove_file d k dk.

  Definition find_file (d : nat) (k : K) (dk : disk) : option (fstate D) :=
    match filter (same_file d k) dk with
    | e :: _ => Some (snd e)
    | [] => None
    end.

  Definition in_dir (d : nat) (dk : disk) : list (K * fstate D) :=
    map (fun e => (snd (fst e), snd e)) (filter (fun e => fst (fst e) =? d) dk).
End Disk.
Arguments remove_file {K D} keqb d k dk.
Arguments put_file {K D} keqb d k c dk.
Arguments find_file {K D} keqb d k dk.
Arguments in_dir {K D} d dk.
Arguments same_file {K D} keqb d k e.

Inductive res (A : Type) := Ret (a : A) | Raise (e : exc).
Arguments Ret {A} a.
Arguments Raise {A} e.

Definition res_code {A} (r : res A) : nat :=
  match r with Ret _ => 0 | Raise e => exc_code e end.
