(* Alias.v — a small buffer language for property C18 and an executable
   may-alias checker.

   A Python function body of /repo is abstracted (tools/translate/alias_prog.py)
   to a program of this language.  Only the identity of array/dict *buffers*
   is kept: a numpy view shares the buffer of its base, an in-place operation
   bumps the version of the buffer, a module-global cache holds buffers.

     expr   Fresh n      a newly allocated buffer (allocation site n)
            View x       a numpy view of x (slicing, reshape, .T, atleast_2d,
                         asarray, ravel, fliplr ...): the same buffer as x
            Var x        the same object as x
     cmd    Assign x e   x = e
            Write x      x[...] = ..., x op= ..., out=x, x.sort()
            StoreG x     the buffer of x is stored in a module-global cache
            LoadG x      x = some buffer held by a module-global cache
            Call x f s args   x = f(args) with effect summary s
            Ret x        x (or a container holding x) is returned
            Seq, If (non-deterministic), Loop (any number of iterations)

   Concrete semantics: store  variable -> buffer,  heap  buffer -> version
   (plus the ghost origin label of each buffer and its "held by a cache"
   flag).  The checker is flow-insensitive: it guesses an abstract state
   (points-to sets of origin labels, labels that may be cached / written /
   returned) by iteration and then *checks* that it is closed under every
   atomic command; only that check is used by the soundness proof
   (proofs/AliasSound.v). *)
From Coq Require Import List String Bool Arith Lia.
Import ListNotations.
Open Scope string_scope.

(* ---------------------------------------------------------------- syntax *)

Inductive loc :=
| LArg (i : nat)      (* the buffer passed as the i-th array/dict argument *)
| LGlob               (* a buffer held by a module-global cache on entry, or
                         allocated and kept by a callee *)
| LSite (n : nat).    (* a buffer allocated at site n of this function *)

Inductive expr :=
| Fresh (n : nat)
| View (x : string)
| Var (x : string).

(* Effect summary of a call, in terms of the positions of the actual
   arguments listed in the Call command. *)
Record summary := {
  s_writes : list nat;        (* argument positions possibly written in place *)
  s_rets   : list nat;        (* argument positions the result may alias *)
  s_fresh  : option nat;      (* Some n: the result may be a new buffer (site n) *)
  s_retg   : bool;            (* the result may be a buffer held by a cache *)
  s_stores : list nat;        (* argument positions possibly stored in a cache *)
  s_wglob  : bool             (* may write in place into cached buffers *)
}.

Inductive cmd :=
| Skip
| Assign (x : string) (e : expr)
| Write (x : string)
| StoreG (x : string)
| LoadG (x : string)
| Call (x : string) (f : string) (s : summary) (args : list string)
| Ret (x : string)
| Seq (c1 c2 : cmd)
| If (c1 c2 : cmd)
| Loop (c : cmd).

(* params: the parameters that accept an array / dict / list (position i of
   this list is the label LArg i). *)
Record prog := { params : list string; body : cmd }.

(* ------------------------------------------------------------- semantics *)

Record state := {
  sto    : string -> option nat;    (* variable -> buffer (None: holds no buffer) *)
  ver    : nat -> nat;              (* buffer -> version, bumped by every in-place write *)
  org    : nat -> loc;              (* ghost: where the buffer comes from *)
  cached : nat -> bool;             (* the buffer is held by a module-global cache *)
  next   : nat;                     (* buffers < next are allocated *)
  rets   : list nat                 (* buffers returned so far *)
}.

Definition upd {A} (f : string -> A) (x : string) (v : A) : string -> A :=
  fun y => if String.eqb x y then v else f y.
Definition updn {A} (f : nat -> A) (b : nat) (v : A) : nat -> A :=
  fun c => if Nat.eqb b c then v else f c.

Definition set_sto st x v :=
  {| sto := upd (sto st) x v; ver := ver st; org := org st; cached := cached st;
     next := next st; rets := rets st |}.

Definition alloc st x (n : nat) :=
  let b := next st in
  {| sto := upd (sto st) x (Some b); ver := updn (ver st) b 0;
     org := updn (org st) b (LSite n); cached := updn (cached st) b false;
     next := S b; rets := rets st |}.

Definition bump st b :=
  {| sto := sto st; ver := updn (ver st) b (S (ver st b)); org := org st;
     cached := cached st; next := next st; rets := rets st |}.

Definition cache st b :=
  {| sto := sto st; ver := ver st; org := org st; cached := updn (cached st) b true;
     next := next st; rets := rets st |}.

Definition add_ret st b :=
  {| sto := sto st; ver := ver st; org := org st; cached := cached st;
     next := next st; rets := b :: rets st |}.

Definition arg_at (st : state) (args : list string) (i : nat) : option nat :=
  match nth_error args i with Some a => sto st a | None => None end.

(* What a call with summary s may do (everything not allowed here is excluded
   by the summary): allocate buffers, bump versions of the listed arguments
   (and of cached buffers when s_wglob), put the listed arguments into a
   cache, and bind x to nothing / an aliased argument / a cached buffer / a
   new buffer. *)
Record call_rel (s : summary) (x : string) (args : list string) (st st' : state) : Prop := {
  cr_next : next st <= next st';
  cr_org  : forall b, b < next st -> org st' b = org st b;
  cr_new  : forall b, next st <= b < next st' ->
              org st' b = LGlob \/
              (exists n, s_fresh s = Some n /\ org st' b = LSite n /\ cached st' b = false);
  cr_ver  : forall b, b < next st -> ver st' b <> ver st b ->
              (exists i, In i (s_writes s) /\ arg_at st args i = Some b) \/
              (s_wglob s = true /\ cached st b = true);
  cr_cached : forall b, b < next st -> cached st' b = true ->
              cached st b = true \/ (exists i, In i (s_stores s) /\ arg_at st args i = Some b);
  cr_sto  : exists r, sto st' = upd (sto st) x r /\
              (r = None \/
               exists b, r = Some b /\ b < next st' /\
                 ((exists i, In i (s_rets s) /\ arg_at st args i = Some b) \/
                  (s_retg s = true /\ cached st' b = true) \/
                  (exists n, s_fresh s = Some n /\ next st <= b /\ org st' b = LSite n)));
  cr_rets : rets st' = rets st
}.

Inductive exec : cmd -> state -> state -> Prop :=
| E_Skip st : exec Skip st st
| E_Fresh st x n : exec (Assign x (Fresh n)) st (alloc st x n)
| E_View st x y : exec (Assign x (View y)) st (set_sto st x (sto st y))
| E_Var st x y : exec (Assign x (Var y)) st (set_sto st x (sto st y))
| E_Write st x b : sto st x = Some b -> exec (Write x) st (bump st b)
| E_WriteNone st x : sto st x = None -> exec (Write x) st st
| E_StoreG st x b : sto st x = Some b -> exec (StoreG x) st (cache st b)
| E_StoreGNone st x : sto st x = None -> exec (StoreG x) st st
| E_LoadG st x b : b < next st -> cached st b = true -> exec (LoadG x) st (set_sto st x (Some b))
| E_LoadGNone st x : exec (LoadG x) st (set_sto st x None)
| E_Call st st' x f s args : call_rel s x args st st' -> exec (Call x f s args) st st'
| E_Ret st x b : sto st x = Some b -> exec (Ret x) st (add_ret st b)
| E_RetNone st x : sto st x = None -> exec (Ret x) st st
| E_Seq c1 c2 st st1 st2 : exec c1 st st1 -> exec c2 st1 st2 -> exec (Seq c1 c2) st st2
| E_IfL c1 c2 st st' : exec c1 st st' -> exec (If c1 c2) st st'
| E_IfR c1 c2 st st' : exec c2 st st' -> exec (If c1 c2) st st'
| E_Loop0 c st : exec (Loop c) st st
| E_LoopS c st st1 st2 : exec c st st1 -> exec (Loop c) st1 st2 -> exec (Loop c) st st2.

(* Entry states of a function: every bound variable is a parameter holding
   its own argument buffer (distinct array arguments do not share a buffer and
   are not themselves cache buffers); whatever the caches hold is labelled
   LGlob; nothing returned yet. *)
Record init_ok (p : prog) (st : state) : Prop := {
  io_sto : forall x b, sto st x = Some b ->
             b < next st /\ exists i, nth_error (params p) i = Some x /\ org st b = LArg i;
  io_cached : forall b, b < next st -> cached st b = true -> org st b = LGlob;
  io_rets : rets st = []
}.

Definition arg_buffer (p : prog) (st : state) (b : nat) : Prop :=
  exists x, In x (params p) /\ sto st x = Some b.

(* --------------------------------------------------------------- checker *)

Definition loc_eqb (a b : loc) : bool :=
  match a, b with
  | LArg i, LArg j => Nat.eqb i j
  | LGlob, LGlob => true
  | LSite n, LSite m => Nat.eqb n m
  | _, _ => false
  end.

Definition mem (l : loc) (s : list loc) : bool := existsb (loc_eqb l) s.
Definition subset (a b : list loc) : bool := forallb (fun l => mem l b) a.
Definition union (a b : list loc) : list loc :=
  fold_left (fun acc l => if mem l acc then acc else (acc ++ [l])%list) a b.
Definition disjoint (a b : list loc) : bool := forallb (fun l => negb (mem l b)) a.
Definition is_arg (l : loc) : bool := match l with LArg _ => true | _ => false end.

Record abs := {
  a_pts : list (string * list loc);   (* may-point-to sets *)
  a_T : list loc;                     (* labels of buffers that may be held by a cache *)
  a_W : list loc;                     (* labels of buffers that may be written in place *)
  a_R : list loc                      (* labels of buffers that may be returned *)
}.

Fixpoint get (m : list (string * list loc)) (x : string) : list loc :=
  match m with
  | [] => []
  | (y, s) :: m' => if String.eqb x y then s else get m' x
  end.

Fixpoint put (m : list (string * list loc)) (x : string) (s : list loc) :=
  match m with
  | [] => [(x, s)]
  | (y, t) :: m' => if String.eqb x y then (y, union t s) :: m' else (y, t) :: put m' x s
  end.

Definition pts (A : abs) (x : string) : list loc := get (a_pts A) x.

Definition add_pts A x s := {| a_pts := put (a_pts A) x s; a_T := a_T A; a_W := a_W A; a_R := a_R A |}.
Definition add_T A s := {| a_pts := a_pts A; a_T := union (a_T A) s; a_W := a_W A; a_R := a_R A |}.
Definition add_W A s := {| a_pts := a_pts A; a_T := a_T A; a_W := union (a_W A) s; a_R := a_R A |}.
Definition add_R A s := {| a_pts := a_pts A; a_T := a_T A; a_W := a_W A; a_R := union (a_R A) s |}.

Definition arg_pts (A : abs) (args : list string) (i : nat) : list loc :=
  match nth_error args i with Some a => pts A a | None => [] end.

(* closure of an abstract state under one atomic command *)
Definition closed_atom (A : abs) (c : cmd) : bool :=
  match c with
  | Assign x (Fresh n) => mem (LSite n) (pts A x)
  | Assign x (View y) => subset (pts A y) (pts A x)
  | Assign x (Var y) => subset (pts A y) (pts A x)
  | Write x => subset (pts A x) (a_W A)
  | StoreG x => subset (pts A x) (a_T A)
  | LoadG x => subset (a_T A) (pts A x)
  | Ret x => subset (pts A x) (a_R A)
  | Call x _ s args =>
      forallb (fun i => subset (arg_pts A args i) (a_W A)) (s_writes s)
      && (negb (s_wglob s) || subset (a_T A) (a_W A))
      && forallb (fun i => subset (arg_pts A args i) (a_T A)) (s_stores s)
      && forallb (fun i => subset (arg_pts A args i) (pts A x)) (s_rets s)
      && (negb (s_retg s) || subset (a_T A) (pts A x))
      && match s_fresh s with Some n => mem (LSite n) (pts A x) | None => true end
  | _ => true
  end.

Fixpoint closed (A : abs) (c : cmd) : bool :=
  match c with
  | Seq c1 c2 => closed A c1 && closed A c2
  | If c1 c2 => closed A c1 && closed A c2
  | Loop c1 => closed A c1
  | _ => closed_atom A c
  end.

(* one propagation step (used only to *find* a closed abstract state) *)
Definition step_atom (A : abs) (c : cmd) : abs :=
  match c with
  | Assign x (Fresh n) => add_pts A x [LSite n]
  | Assign x (View y) => add_pts A x (pts A y)
  | Assign x (Var y) => add_pts A x (pts A y)
  | Write x => add_W A (pts A x)
  | StoreG x => add_T A (pts A x)
  | LoadG x => add_pts A x (a_T A)
  | Ret x => add_R A (pts A x)
  | Call x _ s args =>
      let A1 := fold_left (fun B i => add_W B (arg_pts B args i)) (s_writes s) A in
      let A2 := if s_wglob s then add_W A1 (a_T A1) else A1 in
      let A3 := fold_left (fun B i => add_T B (arg_pts B args i)) (s_stores s) A2 in
      let A4 := fold_left (fun B i => add_pts B x (arg_pts B args i)) (s_rets s) A3 in
      let A5 := if s_retg s then add_pts A4 x (a_T A4) else A4 in
      match s_fresh s with Some n => add_pts A5 x [LSite n] | None => A5 end
  | _ => A
  end.

Fixpoint step (A : abs) (c : cmd) : abs :=
  match c with
  | Seq c1 c2 => step (step A c1) c2
  | If c1 c2 => step (step A c1) c2
  | Loop c1 => step A c1
  | _ => step_atom A c
  end.

Fixpoint iterate (fuel : nat) (c : cmd) (A : abs) : abs :=
  match fuel with
  | O => A
  | S k => if closed A c then A else iterate k c (step A c)
  end.

Fixpoint size (c : cmd) : nat :=
  match c with
  | Seq c1 c2 => S (size c1 + size c2)
  | If c1 c2 => S (size c1 + size c2)
  | Loop c1 => S (size c1)
  | _ => 1
  end.

Fixpoint init_pts (ps : list string) (i : nat) : list (string * list loc) :=
  match ps with
  | [] => []
  | x :: ps' => put (init_pts ps' (S i)) x [LArg i]
  end.

Definition init_abs (p : prog) : abs :=
  {| a_pts := init_pts (params p) 0; a_T := [LGlob]; a_W := []; a_R := [] |}.

Definition analyze (p : prog) : abs := iterate (size (body p) + 8) (body p) (init_abs p).

(* the entry condition on an abstract state *)
Fixpoint init_closed (A : abs) (ps : list string) (i : nat) : bool :=
  match ps with
  | [] => true
  | x :: ps' => mem (LArg i) (pts A x) && init_closed A ps' (S i)
  end.

Definition valid (p : prog) (A : abs) : bool :=
  closed A (body p) && init_closed A (params p) 0 && mem LGlob (a_T A).

(* no argument buffer written; no returned buffer held by a cache *)
Definition no_arg_written (A : abs) : bool := forallb (fun l => negb (is_arg l)) (a_W A).
Definition no_cache_returned (A : abs) : bool := disjoint (a_R A) (a_T A).

Definition safe_args (p : prog) : bool :=
  let A := analyze p in valid p A && no_arg_written A.

(* the same, except for the listed argument positions (used for the named
   "analysis too coarse" exceptions, which are per argument, not per function) *)
Definition arg_writes_within (allowed : list nat) (A : abs) : bool :=
  forallb (fun l => match l with LArg i => existsb (Nat.eqb i) allowed | _ => true end) (a_W A).
Definition safe_args_except (allowed : list nat) (p : prog) : bool :=
  let A := analyze p in valid p A && arg_writes_within allowed A.
Definition safe_ret (p : prog) : bool :=
  let A := analyze p in valid p A && no_cache_returned A.
Definition safe (p : prog) : bool := safe_args p && safe_ret p.

(* stronger: the result is neither held by a cache nor one of the argument buffers
   (except at the listed argument positions) *)
Definition ret_args_within (allowed : list nat) (A : abs) : bool :=
  forallb (fun l => match l with LArg i => existsb (Nat.eqb i) allowed | _ => true end) (a_R A).
Definition safe_ret_except (allowed : list nat) (p : prog) : bool :=
  let A := analyze p in valid p A && no_cache_returned A && ret_args_within allowed A.

(* methods called on an existing object (parameter 0 = self, the object seen as one region):
   no other argument is written, the result is not held by a module cache and is not (part
   of) the object itself *)
Definition ret_not_arg (i : nat) (A : abs) : bool := negb (mem (LArg i) (a_R A)).
Definition safe_method (p : prog) : bool :=
  let A := analyze p in
  valid p A && arg_writes_within [0] A && no_cache_returned A && ret_not_arg 0 A.

(* ---- summaries of analysed functions (for call sites inside the library) *)

Fixpoint positions (f : nat -> bool) (n i : nat) : list nat :=
  match n with
  | O => []
  | S k => if f i then i :: positions f k (S i) else positions f k (S i)
  end.

Definition is_site (l : loc) : bool := match l with LSite _ => true | _ => false end.

(* the summary the analysis derives for p: positions refer to (params p) *)
Definition summ_of (p : prog) (A : abs) : summary :=
  let n := List.length (params p) in
  {| s_writes := positions (fun i => mem (LArg i) (a_W A)) n 0;
     s_rets   := positions (fun i => mem (LArg i) (a_R A)) n 0;
     s_fresh  := if existsb (fun l => is_site l && negb (mem l (a_T A))) (a_R A) then Some 0 else None;
     s_retg   := negb (disjoint (a_R A) (a_T A));
     s_stores := positions (fun i => mem (LArg i) (a_T A)) n 0;
     s_wglob  := negb (disjoint (a_W A) (a_T A)) |}.

Definition incl_nat (a b : list nat) : bool := forallb (fun i => existsb (Nat.eqb i) b) a.
Definition implb' (a b : bool) : bool := negb a || b.

(* s1 allows no more than s2 *)
Definition summary_leq (s1 s2 : summary) : bool :=
  incl_nat (s_writes s1) (s_writes s2) && incl_nat (s_rets s1) (s_rets s2)
  && implb' (match s_fresh s1 with Some _ => true | None => false end)
            (match s_fresh s2 with Some _ => true | None => false end)
  && implb' (s_retg s1) (s_retg s2) && incl_nat (s_stores s1) (s_stores s2)
  && implb' (s_wglob s1) (s_wglob s2).

Fixpoint lookup (fs : list (string * prog)) (f : string) : option prog :=
  match fs with
  | [] => None
  | (g, p) :: fs' => if String.eqb f g then Some p else lookup fs' f
  end.

Definition is_ext (f : string) : bool := String.prefix "ext:" f.

(* every call site whose callee is a translated function of the library carries
   a summary that covers what the analysis derives for that callee; call sites
   of external (numpy/scipy/builtin) functions must be marked "ext:" — their
   summaries are the committed, trusted table *)
Fixpoint calls_ok (fs : list (string * prog)) (c : cmd) : bool :=
  match c with
  | Seq c1 c2 => calls_ok fs c1 && calls_ok fs c2
  | If c1 c2 => calls_ok fs c1 && calls_ok fs c2
  | Loop c1 => calls_ok fs c1
  | Call _ f s _ =>
      if is_ext f then true
      else match lookup fs f with
           | Some p => let A := analyze p in valid p A && summary_leq (summ_of p A) s
           | None => false
           end
  | _ => true
  end.

Definition calls_consistent (fs : list (string * prog)) : bool :=
  forallb (fun fp => calls_ok fs (body (snd fp))) fs.
