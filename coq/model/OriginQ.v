(* OriginQ.v — the Origin model over exact rationals, as run by the
   correspondence check of C13. *)
From Coq Require Import List ZArith QArith Bool.
From PA Require Import base.Arr base.QClose model.Origin.
Import ListNotations.

Definition Qofnat (n : nat) : Q := inject_Z (Z.of_nat n).
Definition Qltb (a b : Q) : bool := negb (Qle_bool b a).
Definition find_originQ := find_origin 0%Q Qplus Qmult Qdiv Qofnat Qltb.
Definition sumQ := sum 0%Q Qplus.

(* ENonFinite: centre of mass of an image whose total is zero (nan / inf) *)
Inductive expect := EOk (r c : Q) | ENonFinite.

Record case := { c_im : list (list Q); c_meth : method; c_ax0 : bool; c_ax1 : bool; c_expect : expect }.

Definition check (c : case) : bool :=
  let zero_total := Qeq_bool (sumQ (map sumQ (c_im c))) 0 in
  let uses_com := match c_meth c with Com => c_ax0 c || c_ax1 c | _ => false end in
  match c_expect c with
  | ENonFinite => uses_com && zero_total
  | EOk r cc =>
    negb (uses_com && zero_total) &&
    let '(a, b) := find_originQ (c_meth c) (c_im c) (c_ax0 c) (c_ax1 c) in
    qclose a r && qclose b cc
  end.
