(* OriginQ.v — the Origin model over exact rationals, as run by the
   correspondence check of C13. *)
From Coq Require Import List ZArith QArith Bool.
From PA Require Import base.Arr base.QClose model.Center model.Origin.
Import ListNotations.

Definition Qofnat (n : nat) : Q := inject_Z (Z.of_nat n).
Definition Qltb (a b : Q) : bool := negb (Qle_bool b a).
(* Python round(): nearest integer, ties to even (model/Center.v qround_even) *)
Definition Qrnd (q : Q) : Q := inject_Z (qround_even q).
Definition find_originQ := find_origin_opt 0%Q Qplus Qmult Qdiv Qofnat Qltb Qrnd.
Definition conv_projectionsQ := conv_projections 0%Q Qplus Qmult.
Definition sumQ := sum 0%Q Qplus.

(* ENonFinite: centre of mass of an image whose total is zero (nan / inf) *)
Inductive expect := EOk (r c : Q) | ENonFinite.

(* c_proj: the autoconvolutions returned with projections=True (convolution
   method only): Some (conv_0, conv_1), each None for an axis not requested *)
Record case := { c_im : list (list Q); c_meth : method; c_ax0 : bool; c_ax1 : bool; c_round : bool;
                 c_proj : option (option (list Q) * option (list Q)); c_expect : expect }.

Definition olist_close (a b : option (list Q)) : bool :=
  match a, b with
  | None, None => true
  | Some x, Some y => row_close x y
  | _, _ => false
  end.

Definition check (c : case) : bool :=
  let zero_total := Qeq_bool (sumQ (map sumQ (c_im c))) 0 in
  let uses_com := match c_meth c with Com => c_ax0 c || c_ax1 c | _ => false end in
  match c_expect c with
  | ENonFinite => uses_com && zero_total
  | EOk r cc =>
    negb (uses_com && zero_total) &&
    (let '(a, b) := find_originQ (c_meth c) (c_im c) (c_ax0 c) (c_ax1 c) (c_round c) in
     qclose a r && qclose b cc) &&
    match c_proj c with
    | None => true
    | Some (p0, p1) =>
      let '(m0, m1) := conv_projectionsQ (c_im c) (c_ax0 c) (c_ax1 c) in
      olist_close m0 p0 && olist_close m1 p1
    end
  end.
