(* SymmetryQ.v — the Symmetry model instantiated with exact rationals, as run by
   the correspondence check, plus the comparison against implementation output. *)
From Coq Require Import List ZArith QArith Bool.
From PA Require Import base.Arr base.QClose model.Symmetry.
Import ListNotations.

Definition getQ := get_quadrants 0%Q Qplus Qdivn.
Definition putQ := @put_quadrants Q.
Definition symQ := symmetrize 0%Q Qplus Qdivn.

(* does the averaging branch divide by a zero quadrant count?  (numpy then
   returns nan/inf with a RuntimeWarning instead of raising) *)
Definition divides_by_zero (a : axis) (u : mask) (meth : smethod) : bool :=
  match meth with
  | Average =>
    if both_axes a then Nat.eqb (mask_count u) 0 else
    (ax_has 0 a && (Nat.eqb (b2n (u0 u) + b2n (u1 u)) 0 || Nat.eqb (b2n (u2 u) + b2n (u3 u)) 0))
    || (ax_has 1 a && (Nat.eqb (b2n (u1 u) + b2n (u2 u)) 0 || Nat.eqb (b2n (u0 u) + b2n (u3 u)) 0))
  | _ => false
  end.

(* outcome classes of one implementation run *)
Inductive expect :=
| EOk (q0 q1 q2 q3 : list (list Q)) (put_none put_ax : list (list Q))
| EValueError
| ENonFinite
| EOther.

Record case := {
  c_im : list (list Q); c_reorient : bool; c_axis : axis; c_mask : mask;
  c_meth : smethod; c_expect : expect }.

Definition check (c : case) : bool :=
  let n := nrows (c_im c) in let m := ncols (c_im c) in
  match getQ (c_im c) (c_reorient c) (c_axis c) (c_mask c) (c_meth c), c_expect c with
  | ValueError, EValueError => true
  | Ok Q, ENonFinite => divides_by_zero (c_axis c) (c_mask c) (c_meth c)
  | Ok (a, b, c', d), EOk q0 q1 q2 q3 pn pa =>
    negb (divides_by_zero (c_axis c) (c_mask c) (c_meth c))
    && img_close a q0 && img_close b q1 && img_close c' q2 && img_close d q3
    && (if c_reorient c then
          img_close (putQ (a, b, c', d) n m ax_None) pn
          && img_close (putQ (a, b, c', d) n m (c_axis c)) pa
        else true)
  | _, _ => false
  end.
