(* CenterQ.v — the Center model instantiated with exact rationals, as run by
   the correspondence check of C12, plus the comparison with the outcome of
   the implementation. *)
From Coq Require Import List ZArith QArith Bool.
From PA Require Import base.Arr base.QClose model.Center.
Import ListNotations.

Definition set_centerQ := set_center 0%Q 1%Q Qplus Qminus Qmult (fun q : Q => q).
Definition center_imageQ := center_image 0%Q 1%Q Qplus Qminus Qmult (fun q : Q => q).
Definition set_center_intQ := @set_center_int Q 0%Q.
Definition ci_trimQ := @ci_trim Q.

Inductive expect := EOk (out : list (list Q)) | ERaises.

(* c_ci = None: set_center;  Some (odd_size, square, image_center?): center_image
   (with method='image_center' when the third flag is set, else the explicit
   origin c_o0, c_o1) *)
Record case := {
  c_im : list (list Q); c_o0 : option Q; c_o1 : option Q; c_crop : crop;
  c_ax0 : bool; c_ax1 : bool; c_order : nat;
  c_ci : option (bool * bool * bool); c_expect : expect }.

Definition run (c : case) : outcome (list (list Q)) :=
  match c_ci c with
  | None => set_centerQ (c_im c) (c_o0 c) (c_o1 c) (c_crop c) (c_ax0 c) (c_ax1 c) (c_order c)
  | Some (odd, sq, ic) =>
    center_imageQ (c_im c) (if ic then None else Some (c_o0 c, c_o1 c)) odd sq
                  (c_ax0 c) (c_ax1 c) (c_crop c) (c_order c)
  end.

Definition check (c : case) : bool :=
  match run c, c_expect c with
  | Ok out, EOk e => img_close out e
  | Raises, ERaises => true
  | _, _ => false
  end.
