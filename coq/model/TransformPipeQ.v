(* TransformPipeQ.v — rational instance of the pipeline with the probe
   transform, and the comparison with implementation output. *)
From Coq Require Import List ZArith QArith Bool.
From PA Require Import base.Arr base.QClose model.Symmetry model.TransformPipe.
Import ListNotations.

Definition pipeQ := transform_model 0%Q Qplus Qdivn probeT.

Inductive pexpect := POk (out : list (list Q)) | PValueError | POther.
Record pcase := { p_im : list (list Q); p_axis : axis; p_mask : mask; p_meth : smethod; p_expect : pexpect }.

Definition pcheck (c : pcase) : bool :=
  match pipeQ (p_axis c) (p_mask c) (p_meth c) (p_im c), p_expect c with
  | ValueError, PValueError => true
  | Ok S0, POk E => img_close S0 E
  | _, _ => false
  end.
