(* CacheDasch.v — state machine of the operator cache of abel/dasch.py:
   globals _D, _method, _source; functions _dasch_transform, get_bs_cached,
   cache_cleanup, basis_dir_cleanup (two_point = 0, three_point = 1,
   onion_peeling = 2).

   Symbolic content: a deconvolution operator is (method, size it was
   generated for, present size, junk flag).  Its entries depend on
   (method, i, j) only: two_point / three_point are closed forms in i, j;
   onion_peeling is inv(W) with W upper triangular, and the leading block of
   the inverse of a triangular matrix is the inverse of the leading block
   (proofs/TriangularCrop.v), so den_d ignores d_gen.

   Order of assignments in get_bs_cached (since fix 0e05e8d): `_method` is
   assigned together with `_D`, after the (still unguarded) np.load succeeded
   or the operator was generated; a raising load leaves the cache untouched.
   Since 7ce4ac5 a loaded array whose shape is not what its file name says is
   skipped (`continue`).
   `order` in Call is the list of sizes in the names of this method's files in
   the order glob() yields them ("relies on file order").  No proofs here. *)
From Coq Require Import List Arith Bool.
From PA Require Import base.Npy model.CacheCommon.
Import ListNotations.

Record dcont := { d_meth : nat; d_gen : nat; d_size : nat; d_junk : bool }.

Definition ideal (meth n : nat) : dcont :=
  {| d_meth := meth; d_gen := n; d_size := n; d_junk := false |}.

Definition crop (n : nat) (d : dcont) : dcont :=
  if n <? d_size d then {| d_meth := d_meth d; d_gen := d_gen d; d_size := n; d_junk := d_junk d |} else d.

Definition fkey := (nat * nat)%type.        (* <method>_basis_<cols>.npy *)
Definition fkey_eqb (a b : fkey) : bool := (fst a =? fst b) && (snd a =? snd b).

Record st := {
  D : option dcont;
  method : option nat;
  source : nat;                 (* 0 None, 1 'cache', 2 'file', 3 'generated' *)
  gdir : bdglobal;
  dk : disk fkey dcont }.

Definition init : st := {| D := None; method := None; source := 0; gdir := GUnset; dk := [] |}.

Inductive op :=
  | Call (meth cols : nat) (bd : bdarg) (order : list nat)
  | Cleanup
  | DirCleanup (meth : nat) (bd : bdarg)
  | SetDir (bd : bdarg)
  | Seed (d : nat) (k : fkey) (c : fstate dcont)
  | Remove (d : nat) (k : fkey).

(* first file in glob order that is sufficient and not of a wrong shape
   (`continue` on a shape mismatch); a damaged one makes np.load raise *)
Fixpoint scan (meth cols di : nat) (order : list nat) (d : disk fkey dcont) : option (nat * fstate dcont) :=
  match order with
  | [] => None
  | x :: r =>
      if cols <=? x then
        match find_file fkey_eqb di (meth, x) d with
        | Some FShape => scan meth cols di r d
        | Some c => Some (x, c)
        | None => scan meth cols di r d
        end
      else scan meth cols di r d
  end.

Definition mem_hit (s : st) (meth cols : nat) : option dcont :=
  match D s, method s with
  | Some d, Some m => if (cols <=? d_size d) && (m =? meth) then Some d else None
  | _, _ => None
  end.

Definition mk (d : option dcont) (m : option nat) (src : nat) (g : bdglobal) (k : disk fkey dcont) : st :=
  {| D := d; method := m; source := src; gdir := g; dk := k |}.

(* get_bs_cached followed by `_D = <returned>` in _dasch_transform *)
Definition step_call (s : st) (meth cols : nat) (bd : bdarg) (order : list nat) : st * res dcont :=
  let fin (s' : st) (d : dcont) :=
    (* tensordot with a too small operator raises ValueError *)
    if d_size d <? cols then (s', Raise EValue) else (s', Ret d) in
  match mem_hit s meth cols with
  | Some d => let d' := crop cols d in fin (mk (Some d') (method s) 1 (gdir s) (dk s)) d'
  | None =>
      let (g, dir) := resolve (gdir s) bd in
      let loadfile :=
        match dir with
        | None => None
        | Some di => scan meth cols di order (dk s)
        end in
      match loadfile with
      | Some (_, FBad e) => (mk (D s) (method s) (source s) g (dk s), Raise (load_exc e))
      | Some (_, FShape) => (mk (D s) (method s) (source s) g (dk s), Raise EOther)   (* unreachable *)
      | Some (_, FGood d) => let d' := crop cols d in fin (mk (Some d') (Some meth) 2 g (dk s)) d'
      | None =>
          let d' := ideal meth cols in
          match dir with
          | Some di =>
              if dir_writable di
              then fin (mk (Some d') (Some meth) 3 g (put_file fkey_eqb di (meth, cols) (FGood d') (dk s))) d'
              else (mk (Some d') (Some meth) 3 g (dk s), Raise EOther)   (* the save raises *)
          | None => fin (mk (Some d') (Some meth) 3 g (dk s)) d'
          end
      end
  end.

Definition step (s : st) (o : op) : st * res dcont :=
  match o with
  | Call meth cols bd order => step_call s meth cols bd order
  | Cleanup => (mk None None 0 (gdir s) (dk s), Raise EOther)
  | DirCleanup meth bd =>
      let (g, dir) := resolve (gdir s) bd in
      (match dir with
       | Some di => mk (D s) (method s) (source s) g
                       (filter (fun e => negb ((fst (fst e) =? di) && (fst (snd (fst e)) =? meth))) (dk s))
       | None => mk (D s) (method s) (source s) g (dk s)
       end, Raise EOther)
  | SetDir bd => (mk (D s) (method s) (source s) (set_basis_dir bd) (dk s), Raise EOther)
  | Seed d k c => (mk (D s) (method s) (source s) (gdir s) (put_file fkey_eqb d k c (dk s)), Raise EOther)
  | Remove d k => (mk (D s) (method s) (source s) (gdir s) (remove_file fkey_eqb d k (dk s)), Raise EOther)
  end.

Fixpoint run (s : st) (ops : list op) : st :=
  match ops with [] => s | o :: r => run (fst (step s o)) r end.

Definition d_eqv (a b : dcont) : bool :=
  (d_meth a =? d_meth b) && (d_size a =? d_size b) && negb (d_junk a) && negb (d_junk b).

Definition out_eqv (a b : res dcont) : bool :=
  match a, b with
  | Ret x, Ret y => d_eqv x y
  | Raise e1, Raise e2 => exc_code e1 =? exc_code e2
  | _, _ => false
  end.

Definition fresh (o : op) : res dcont :=
  match o with
  | Call meth cols bd _ =>
      snd (step_call init meth cols
             (match bd with BPath d => if dir_writable d then BPath 1 else bd | _ => bd end) [])
  | _ => Raise EOther
  end.

(* ---- observation ------------------------------------------------------------ *)
Fixpoint insert_key (k : nat * nat * nat) (l : list (nat * nat * nat)) :=
  match l with
  | [] => [k]
  | x :: r =>
      let '(a, b, c) := k in let '(a', b', c') := x in
      if (a <? a') || ((a =? a') && ((b <? b') || ((b =? b') && (c <=? c'))))
      then k :: l else x :: insert_key k r
  end.
Definition listing (s : st) : list (nat * nat * nat) :=
  fold_right insert_key [] (map (fun e => (fst (fst e), fst (snd (fst e)), snd (snd (fst e)))) (dk s)).

Record obs := {
  o_code : nat; o_agree : bool; o_fresh_code : nat;
  o_method : list nat; o_size : list nat; o_source : nat;
  o_gdir : nat; o_listing : list (nat * nat * nat) }.

Definition is_call (o : op) : bool := match o with Call _ _ _ _ => true | _ => false end.

Definition observe (o : op) (s' : st) (r : res dcont) : obs :=
  {| o_code := if is_call o then res_code r else 0;
     o_agree := if is_call o then out_eqv r (fresh o) else true;
     o_fresh_code := if is_call o then res_code (fresh o) else 0;
     o_method := match method s' with Some m => [m] | None => [] end;
     o_size := match D s' with Some d => [d_size d] | None => [] end;
     o_source := source s';
     o_gdir := bdglobal_code (gdir s'); o_listing := listing s' |}.

Definition list_eqb (a b : list nat) : bool := if list_eq_dec Nat.eq_dec a b then true else false.
Definition listing_eqb (a b : list (nat * nat * nat)) : bool :=
  list_eqb (flat_map (fun '(x, y, z) => [x; y; z]) a) (flat_map (fun '(x, y, z) => [x; y; z]) b).

Definition obs_eqb (a b : obs) : bool :=
  (o_code a =? o_code b) && eqb (o_agree a) (o_agree b) && (o_fresh_code a =? o_fresh_code b) &&
  list_eqb (o_method a) (o_method b) && list_eqb (o_size a) (o_size b) && (o_source a =? o_source b) &&
  (o_gdir a =? o_gdir b) && listing_eqb (o_listing a) (o_listing b).

Fixpoint check_hist (s : st) (h : list (op * obs)) : list bool :=
  match h with
  | [] => []
  | (o, ob) :: r => let (s', res) := step s o in obs_eqb (observe o s' res) ob :: check_hist s' r
  end.

Fixpoint trace_hist (s : st) (h : list op) : list obs :=
  match h with
  | [] => []
  | o :: r => let (s', res) := step s o in observe o s' res :: trace_hist s' r
  end.

(* ---- hazards ------------------------------------------------------------------ *)
Definition dcont_eqb (a b : dcont) : bool :=
  (d_meth a =? d_meth b) && (d_gen a =? d_gen b) && (d_size a =? d_size b) && eqb (d_junk a) (d_junk b).

Definition uses_bad_dir (s : st) (bd : bdarg) : bool :=
  match snd (resolve (gdir s) bd) with Some di => negb (dir_writable di) | None => false end.

(* assumptions about the environment, not defects: writable directories, and
   good files on disk are what a save of their name writes *)
Definition hazard (s : st) (o : op) : bool :=
  match o with
  | Call _ _ bd _ => uses_bad_dir s bd
  | Seed d k c =>
      match c with
      | FGood x => negb (dcont_eqb x (ideal (fst k) (snd k)))
      | _ => false
      end
  | _ => false
  end.

Fixpoint no_hazard (s : st) (ops : list op) : bool :=
  match ops with [] => true | o :: r => negb (hazard s o) && no_hazard (fst (step s o)) r end.

Definition damage (o : op) : bool := match o with Seed _ _ (FBad _) => true | _ => false end.
Fixpoint no_damage (ops : list op) : bool :=
  match ops with [] => true | o :: r => negb (damage o) && no_damage r end.

Fixpoint all_agree (s : st) (ops : list op) : bool :=
  match ops with
  | [] => true
  | o :: r => let (s', res) := step s o in
              (if is_call o then out_eqv res (fresh o) else true) && all_agree s' r
  end.

(* every call agrees with the fresh process or raises — checked up to and
   including the first call that raises *)
Fixpoint safe_until_raise (s : st) (ops : list op) : bool :=
  match ops with
  | [] => true
  | o :: r => let (s', res) := step s o in
              if is_call o then
                match res with
                | Raise _ => true
                | Ret _ => out_eqv res (fresh o) && safe_until_raise s' r
                end
              else safe_until_raise s' r
  end.

Fixpoint all_safe (s : st) (ops : list op) : bool :=
  match ops with
  | [] => true
  | o :: r => let (s', res) := step s o in
              (if is_call o then out_eqv res (fresh o) || (0 <? res_code res) else true) && all_safe s' r
  end.

Definition last_result (ops : list op) (c : op) : res dcont := snd (step (run init ops) c).
