(* Pairs.v — model of the grids of abel/tools/analytical.py:
   BaseAnalytical.__init__ (lines 50-61: r = linspace, dr), the mirroring of
   the Polynomial wrappers (213-225, 263-276), StepAnalytical masks (108-119),
   GaussianAnalytical.mask_valid (321-322), TransformPair r offsets (378-380).
   Generic carrier; Q instance for execution.  No proofs here. *)
From Coq Require Import List Arith Bool ZArith QArith Qabs.
From PA Require Import model.Poly.
Import ListNotations.

Section Carrier.
Variable A : Type.
Variables (zero one : A) (add mul sub div : A -> A -> A) (opp : A -> A).
Variable ltb : A -> A -> bool.
Notation ofn := (ofnat A zero one add).

(* np.linspace(a, b, n)[i] = a + i * ((b - a) / (n - 1)) *)
Definition linspace_at (a b : A) (n i : nat) : A :=
  add a (mul (ofn i) (div (sub b a) (ofn (n - 1)))).
Definition linspace (a b : A) (n : nat) : list A := map (linspace_at a b n) (seq 0 n).

(* BaseAnalytical: r *)
Definition base_r (rmax : A) (symmetric : bool) (n : nat) : list A :=
  if symmetric then linspace (opp rmax) rmax n else linspace zero rmax n.
(* dr = np.diff(r)[0] *)
Definition base_dr (r : list A) : A := sub (nth 1 r zero) (nth 0 r zero).

Definition absA (x : A) : A := if ltb x zero then opp x else x.

(* StepAnalytical: | |r| - (r1+r2)/2 | < ratio (r2-r1)/2  (ratio = 1 for func) *)
Definition step_mask (ratio r1 r2 half : A) (r : A) : bool :=
  ltb (absA (sub (absA r) (mul half (add r1 r2)))) (mul (mul ratio half) (sub r2 r1)).

(* GaussianAnalytical.mask_valid: |r| < ratio sigma  and  |r| > 0 *)
Definition gauss_mask (ratio sigma : A) (r : A) : bool :=
  ltb (absA r) (mul ratio sigma) && ltb zero (absA r).
End Carrier.

(* np.hstack((f[:0:-1], f)): mirror of the r >= 0 half to negative r *)
Definition mirror {A} (f : list A) : list A := rev (tl f) ++ f.
(* self.r[n//2:] *)
Definition upper_half {A} (r : list A) (n : nat) : list A := skipn (n / 2) r.

(* ---- Q instance ---- *)
Definition Qsub' (a b : Q) : Q := Qred (a - b).
Definition linspaceQ := linspace Q 0%Q 1%Q Qadd' Qmul' Qsub' Qdiv'.
Definition base_rQ := base_r Q 0%Q 1%Q Qadd' Qmul' Qsub' Qdiv' Qopp.
Definition base_drQ := base_dr Q 0%Q Qsub'.
Definition step_maskQ := step_mask Q 0%Q Qadd' Qmul' Qsub' Qopp Qltb.
Definition gauss_maskQ := gauss_mask Q 0%Q Qmul' Qopp Qltb.

(* TransformPair: r = linspace(0,1,n) with r[0] = 1e-8 and r[-1] -= 1e-8 (floats) *)
Definition tp_rQ (n : nat) (eps0 last : Q) : list Q :=
  match linspaceQ 0 1 n with
  | [] => []
  | _ :: t => eps0 :: (removelast t ++ [last])
  end.

Fixpoint bools_eq (a b : list bool) : bool :=
  match a, b with
  | [], [] => true
  | x :: a', y :: b' => Bool.eqb x y && bools_eq a' b'
  | _, _ => false
  end.
