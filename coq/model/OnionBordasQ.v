(* OnionBordasQ.v — rational instance of model/OnionBordas.v, executed by
   vm_compute in the correspondence run of property C04 (every operation
   rounded to 120 significant bits as in model/HansenLawQ.v; the comparison
   with the implementation is at 2^-40).  No proofs here. *)
From Coq Require Import List ZArith QArith Qabs Bool.
From PA Require Import base.QClose model.HansenLawQ model.OnionBordas.
Import ListNotations.
Open Scope Q_scope.

Definition Qsub_r (x y : Q) : Q := round_q (x - y).
Definition Qdiv_r (x y : Q) : Q := round_q (x / y).

Definition tab2 (t : list (list Q)) (i j : nat) : Q := nth j (nth i t []) 0.

Record ob_case := {
  o_dr : Q;
  o_val1 : list (list Q);         (* tables read from the running implementation *)
  o_val2 : list (list Q);
  o_im : list (list Q);
  o_expect : list (list Q)        (* what onion_bordas_transform(shift_grid=False) returned *)
}.

Definition ob_imageQ (c : ob_case) : list (list Q) :=
  ob_image Q 0 1 2 Qmul_r Qsub_r Qdiv_r (tab2 (o_val1 c)) (tab2 (o_val2 c)) (o_dr c) (o_im c).

(* val2 does not depend on its second index (the row): needed for row independence *)
Definition row_const (r : list Q) : bool :=
  match r with [] => true | x :: r' => forallb (fun y => Qeq_bool x y) r' end.

Definition ob_check (c : ob_case) : bool :=
  img_close (ob_imageQ c) (o_expect c) && forallb row_const (o_val2 c).
