(* HansenLawQ.v — rational instance of model/HansenLaw.v, executed by
   vm_compute in the correspondence run of property C04.  No proofs here. *)
From Coq Require Import List ZArith QArith Qabs Bool.
From PA Require Import base.QClose model.HansenLaw.
Import ListNotations.
Open Scope Q_scope.

(* The tables contain values down to 1e-300; exact rational arithmetic on them
   needs numbers of 10^4 bits, which vm_compute (binary positives) cannot
   handle in reasonable time.  The executed instance therefore ROUNDS every
   sum and product to 120 significant bits (relative error < 2^-100 per
   operation for the dyadic values that occur; the comparison with the
   implementation is at 2^-40).  Common factors of two are cancelled. *)
Fixpoint strip2 (n d : positive) : positive * positive :=
  match n, d with
  | xO n', xO d' => strip2 n' d'
  | _, _ => (n, d)
  end.
Definition Qred2 (q : Q) : Q :=
  match Qnum q with
  | Z0 => 0
  | Zpos n => let (n', d') := strip2 n (Qden q) in Zpos n' # d'
  | Zneg n => let (n', d') := strip2 n (Qden q) in Zneg n' # d'
  end.
Definition round_q (q : Q) : Q :=
  let q := Qred2 q in
  let n := Qnum q in
  let s := (Z.log2 (Z.abs n) - 120)%Z in
  if (s <=? 0)%Z then q
  else match Z.shiftr (Zpos (Qden q)) s with
       | Zpos d' => Qred2 (Z.shiftr n s # d')
       | _ => q
       end.
Definition Qadd_r (x y : Q) : Q := round_q (x + y).
Definition Qmul_r (x y : Q) : Q := round_q (x * y).

Definition hl_imageQ := hl_image Q 0 Qadd_r Qmul_r Qminus Qdiv Qopp 2.

Record hl_case := {
  h_mode : hl_mode;
  h_dr : Q;
  h_pi : Q;                       (* the binary64 value of numpy.pi *)
  h_K : nat;
  h_tabs : list (coef Q);         (* tables read from the running implementation *)
  h_im : list (list Q);
  h_expect : list (list Q)        (* what hansenlaw_transform returned *)
}.

Definition hl_check (c : hl_case) : bool :=
  img_close (hl_imageQ (h_mode c) (h_dr c) (h_pi c) (h_K c) (h_tabs c) (h_im c)) (h_expect c).
