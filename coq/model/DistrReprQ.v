(* DistrReprQ.v — model/DistrRepr.v instantiated with exact rationals, and the
   comparison with one Distributions.Results object (tools/props/C15.py). *)
From Coq Require Import List Arith Bool ZArith QArith Qabs.
From PA Require Import base.QClose base.MatL model.DistrRepr.
Import ListNotations.

Definition QopsX : field_ops Q :=
  FieldOps 0%Q 1%Q (fun x y => Qred (x + y)) (fun x y => Qred (x - y)) (fun x y => Qred (x * y))
           (fun x y => Qred (x / y)) Qopp Qeq_bool.

(* |x - y| <= 2^-30 (1 + max(|x|, |y|)): numpy.linalg.inv of the Legendre
   matrix (condition number up to ~1e3 at order 8) is compared with the exact
   rational inverse *)
Definition qclose30 (x y : Q) : bool :=
  let d := Qabs (x - y) in
  let s := if Qle_bool (Qabs x) (Qabs y) then Qabs y else Qabs x in
  Qle_bool d ((1 # 1073741824) * (1 + s)).
Definition img_close30 := list_all2 (list_all2 qclose30).

Record rcase := {
  rc_order : nat; rc_odd : bool; rc_window : nat;
  rc_pi : Q;                         (* numpy.pi as a rational *)
  rc_unit : Q;                       (* overall scale of the coefficient array (a power of two,
                                        either sign); quantities proportional to the coefficients
                                        are compared after division by it, the ratios beta as they are *)
  rc_r : list Q;                     (* Results.r *)
  rc_cn : list (list Q);             (* Results.cn *)
  rc_orders : list nat; rc_sinpowers : list nat;
  rc_cossin : list (list Q); rc_harm : list (list Q); rc_Ibeta : list (list Q) }.

Definition unscale (s : Q) (M : list (list Q)) : list (list Q) := map (map (fun v => Qred (v / s))) M.
Definition unscale_I (s : Q) (M : list (list Q)) : list (list Q) :=
  match M with [] => [] | row0 :: beta => map (fun v => Qred (v / s)) row0 :: beta end.

(* which component disagrees (for the report) *)
Definition rcheck_parts (c : rcase) : list bool :=
  let s := rc_unit c in
  [list_all2 Nat.eqb (orders (rc_order c) (rc_odd c)) (rc_orders c);
   list_all2 Nat.eqb (sinpowers (rc_order c) (rc_odd c)) (rc_sinpowers c);
   negb (Qeq_bool s 0);
   img_close (unscale s (cossin QopsX inject_Z (rc_order c) (rc_odd c) (rc_cn c))) (unscale s (rc_cossin c));
   img_close30 (unscale s (harmonics QopsX inject_Z (rc_order c) (rc_odd c) (rc_cn c))) (unscale s (rc_harm c));
   img_close30 (unscale_I s (Ibeta QopsX (rc_pi c) inject_Z (rc_order c) (rc_odd c) (rc_window c) (rc_r c) (rc_cn c)))
               (unscale_I s (rc_Ibeta c))].

Definition rcheck (c : rcase) : bool := forallb (fun b => b) (rcheck_parts c).
