(* MatL.v — small dense matrices as lists of rows over an arbitrary carrier:
   the numpy operations used by the hand-written inverses of
   abel/tools/vmi.py (np.zeros, C[i, j] = v, C[:a, :b] = M, k * M) and
   matrix/vector products.  Definitions only. *)
From Coq Require Import List Arith Bool.
Import ListNotations.

Set Implicit Arguments.

(* operations of the carrier the arithmetic models are written over *)
Record field_ops (A : Type) := FieldOps {
  f0 : A; f1 : A; fadd : A -> A -> A; fsub : A -> A -> A; fmul : A -> A -> A;
  fdiv : A -> A -> A; fopp : A -> A; feqb : A -> A -> bool }.

Section MatL.
  Variable A : Type.
  Variables (zero one : A) (add mul : A -> A -> A).
  Notation mat := (list (list A)).

  Definition mzeros (n m : nat) : mat := repeat (repeat zero m) n.

  Fixpoint set_nth (l : list A) (j : nat) (v : A) : list A :=
    match l, j with
    | [], _ => []
    | _ :: l', 0 => v :: l'
    | x :: l', S j' => x :: set_nth l' j' v
    end.

  Fixpoint mset (M : mat) (i j : nat) (v : A) : mat :=
    match M, i with
    | [], _ => []
    | r :: M', 0 => set_nth r j v :: M'
    | r :: M', S i' => r :: mset M' i' j v
    end.

  (* row[:b] = src (src has b entries) *)
  Definition set_prefix (r src : list A) : list A := src ++ skipn (length src) r.
  (* C[:a, :b] = B *)
  Fixpoint mset_block (C B : mat) : mat :=
    match C, B with
    | r :: C', s :: B' => set_prefix r s :: mset_block C' B'
    | _, _ => C
    end.

  Definition mscale (k : A) (M : mat) : mat := map (map (mul k)) M.

  Definition dot (u v : list A) : A :=
    fold_left add (map (fun p => mul (fst p) (snd p)) (combine u v)) zero.
  Definition matvec (M : mat) (v : list A) : list A := map (fun r => dot r v) M.
  Definition mcol (M : mat) (j : nat) : list A := map (fun r => nth j r zero) M.
  Definition matmul (M P : mat) (m : nat) : mat :=
    map (fun r => map (fun j => dot r (mcol P j)) (seq 0 m)) M.
  Definition ident (n : nat) : mat :=
    map (fun i => map (fun j => if Nat.eqb i j then one else zero) (seq 0 n)) (seq 0 n).
  (* scipy.linalg.hankel(p[:n], p[n-1:]) for p of length 2n-1: H[i][j] = p[i+j] *)
  Definition hankel (n : nat) (p : list A) : mat :=
    map (fun i => map (fun j => nth (i + j) p zero) (seq 0 n)) (seq 0 n).
End MatL.
