(* Npy.v — byte-level model of the .npy (format version 1.0) codec used by
   numpy.save / numpy.load for C-ordered float64 arrays, which is what every
   basis-caching module of PyAbel writes (abel/basex.py:375, abel/daun.py:305,
   abel/dasch.py:378, abel/linbasex.py:591, abel/rbasex.py:546) and reads
   (basex.py:345,366, daun.py:280, dasch.py:364, linbasex.py:578,
   rbasex.py:478).

   Anchors in numpy (lib/_format_impl.py, lib/_npyio_impl.py):
     serialize     = write_array_header (+ _wrap_header, GROWTH_AXIS padding)
                     followed by the raw little-endian payload
     parse         = numpy.load: empty -> EOFError; 'PK\x03\x04'/'PK\x05\x06'
                     -> zip path (BadZipFile); magic mismatch -> ValueError
                     (pickle refused, allow_pickle=False); read_magic /
                     _read_array_header / fromfile+reshape -> ValueError when
                     anything is short.
   Bytes are numbers in N (0..255); lengths and dimensions are nat.  A float64
   item is an opaque group of 8 bytes: the codec never interprets them.

   Domain restriction (stated, and counted by the tie): headers that are
   complete but not of the exact form numpy.save produces for '<f8' C-order
   data (other dtypes, Fortran order, versions 2.0/3.0, exotic spacing) are
   classified PUnsupported: no claim is made about them.  No proofs here. *)
From Coq Require Import List NArith Arith Bool Decimal DecimalNat.
Import ListNotations.

Definition bytes := list N.

Record arr := { shape : list nat; data : bytes }.

Definition prod (s : list nat) : nat := fold_right Nat.mul 1 s.

(* payload length matches the shape (8 bytes per item) *)
Definition wf_arr (a : arr) : Prop := length (data a) = 8 * prod (shape a).

Inductive perr := PEOF | PValue | PZip | PUnsupported.
Inductive presult := POk (a : arr) | PErr (e : perr).

(* ---- byte-list helpers ------------------------------------------------ *)
Fixpoint beq (a b : bytes) : bool :=
  match a, b with
  | [], [] => true
  | x :: a', y :: b' => N.eqb x y && beq a' b'
  | _, _ => false
  end.

(* p is a prefix of bs *)
Fixpoint starts (p bs : bytes) : bool :=
  match p, bs with
  | [], _ => true
  | x :: p', y :: bs' => N.eqb x y && starts p' bs'
  | _ :: _, [] => false
  end.

Definition SP : N := 32%N.     (* ' '  *)
Definition NL : N := 10%N.     (* '\n' *)
Definition COMMA : N := 44%N.
Definition RPAR : N := 41%N.

(* ---- decimal numbers -------------------------------------------------- *)
Fixpoint uint_bytes (d : uint) : bytes :=
  match d with
  | Nil => []
  | D0 r => 48%N :: uint_bytes r | D1 r => 49%N :: uint_bytes r
  | D2 r => 50%N :: uint_bytes r | D3 r => 51%N :: uint_bytes r
  | D4 r => 52%N :: uint_bytes r | D5 r => 53%N :: uint_bytes r
  | D6 r => 54%N :: uint_bytes r | D7 r => 55%N :: uint_bytes r
  | D8 r => 56%N :: uint_bytes r | D9 r => 57%N :: uint_bytes r
  end.

(* repr(n) *)
Definition dec (n : nat) : bytes := uint_bytes (Nat.to_uint n).

Definition is_digit (b : N) : bool := N.leb 48 b && N.leb b 57.

Definition digit_cons (b : N) (r : uint) : uint :=
  if N.eqb b 48 then D0 r else if N.eqb b 49 then D1 r else
  if N.eqb b 50 then D2 r else if N.eqb b 51 then D3 r else
  if N.eqb b 52 then D4 r else if N.eqb b 53 then D5 r else
  if N.eqb b 54 then D6 r else if N.eqb b 55 then D7 r else
  if N.eqb b 56 then D8 r else D9 r.

(* maximal run of digits at the front of bs, and what follows *)
Fixpoint read_digits (bs : bytes) : uint * bytes :=
  match bs with
  | b :: r => if is_digit b then let (d, r') := read_digits r in (digit_cons b d, r')
              else (Nil, bs)
  | [] => (Nil, [])
  end.

(* ---- the header ------------------------------------------------------- *)
(* "{'descr': '<f8', 'fortran_order': False, 'shape': (" *)
Definition HPREFIX : bytes :=
  [123;39;100;101;115;99;114;39;58;32;39;60;102;56;39;44;32;39;102;111;114;116;
   114;97;110;95;111;114;100;101;114;39;58;32;70;97;108;115;101;44;32;39;115;
   104;97;112;101;39;58;32;40]%N.
(* "), }" *)
Definition HSUFFIX : bytes := [41;44;32;125]%N.

(* repr of the inside of a tuple of ints: "", "3,", "3, 4", "2, 3, 4" *)
Fixpoint dims_tail (s : list nat) : bytes :=
  match s with
  | [] => []
  | n :: r => COMMA :: SP :: dec n ++ dims_tail r
  end.
Definition dims_str (s : list nat) : bytes :=
  match s with
  | [] => []
  | [n] => dec n ++ [COMMA]
  | n :: r => dec n ++ dims_tail r
  end.

Definition dict_str (s : list nat) : bytes := HPREFIX ++ dims_str s ++ HSUFFIX.

(* GROWTH_AXIS_MAX_DIGITS = 21: spare room for the first axis *)
Definition grow (s : list nat) : nat :=
  match s with [] => 0 | n :: _ => 21 - length (dec n) end.

Definition header0 (s : list nat) : bytes := dict_str s ++ repeat SP (grow s).
(* _wrap_header: pad so that magic(8) + length field(2) + header is a
   multiple of 64; padlen is in 1..64 *)
Definition padlen (s : list nat) : nat :=
  64 - ((10 + (length (header0 s) + 1)) mod 64).
Definition header (s : list nat) : bytes := header0 s ++ repeat SP (padlen s) ++ [NL].
Definition hlen (s : list nat) : nat := length (header s).

Definition preamble (s : list nat) : bytes :=
  [147; 78; 85; 77; 80; 89; 1; 0; N.of_nat (hlen s mod 256); N.of_nat (hlen s / 256)]%N.

(* what numpy.save writes: first write = head_chunk, second write = payload *)
Definition head_chunk (s : list nat) : bytes := preamble s ++ header s.
Definition serialize (a : arr) : bytes := head_chunk (shape a) ++ data a.

(* ---- parsing the header ----------------------------------------------- *)
(* dims, liberal: number (", " number)* [","]; the exact form is enforced by
   re-serialisation below *)
Fixpoint parse_dims (fuel : nat) (bs : bytes) : list nat * bytes :=
  match fuel with
  | 0 => ([], bs)
  | S f =>
    let (d, r) := read_digits bs in
    match d with
    | Nil => ([], bs)
    | _ => let n := Nat.of_uint d in
           match r with
           | c :: s :: r' =>
               if N.eqb c COMMA && N.eqb s SP
               then let (l, r'') := parse_dims f r' in (n :: l, r'')
               else if N.eqb c COMMA then ([n], s :: r') else ([n], r)
           | [c] => if N.eqb c COMMA then ([n], []) else ([n], r)
           | [] => ([n], [])
           end
    end
  end.

Fixpoint strip (p bs : bytes) : option bytes :=
  match p, bs with
  | [], _ => Some bs
  | x :: p', y :: bs' => if N.eqb x y then strip p' bs' else None
  | _ :: _, [] => None
  end.

(* Some s iff h = dict_str s ++ spaces ++ "\n" *)
Definition parse_header (h : bytes) : option (list nat) :=
  match strip HPREFIX h with
  | None => None
  | Some r =>
      let (s, _) := parse_dims (length r) r in
      let d := dict_str s in
      if (length d <? length h) &&
         beq h (d ++ repeat SP (length h - length d - 1) ++ [NL])
      then Some s else None
  end.

(* ---- numpy.load ------------------------------------------------------- *)
Definition ZIP1 : bytes := [80; 75; 3; 4]%N.
Definition ZIP2 : bytes := [80; 75; 5; 6]%N.
Definition MAGIC : bytes := [147; 78; 85; 77; 80; 89]%N.

(* after magic, version 1.0 and the two length bytes *)
Definition parse_body (hl : nat) (rest : bytes) : presult :=
  if length rest <? hl then PErr PValue            (* _read_bytes: short header *)
  else match parse_header (firstn hl rest) with
       | None => PErr PUnsupported
       | Some s =>
           let body := skipn hl rest in
           if length body <? 8 * prod s
           then PErr PValue                        (* fromfile short -> reshape fails *)
           else POk {| shape := s; data := firstn (8 * prod s) body |}
       end.

Definition parse (bs : bytes) : presult :=
  match bs with
  | [] => PErr PEOF                                 (* "No data left in file" *)
  | _ =>
    if starts ZIP1 bs || starts ZIP2 bs then PErr PZip
    else if negb (starts MAGIC bs) then PErr PValue (* pickle refused *)
    else match skipn 6 bs with
         | maj :: mnr :: r2 =>
             if N.eqb maj 1 && N.eqb mnr 0 then
               match r2 with
               | lo :: hi :: r3 => parse_body (N.to_nat lo + 256 * N.to_nat hi) r3
               | _ => PErr PValue                   (* short length field *)
               end
             else if (N.eqb maj 2 || N.eqb maj 3) && N.eqb mnr 0
                  then PErr PUnsupported
                  else PErr PValue                  (* unsupported version *)
         | _ => PErr PValue                         (* read_magic: short *)
         end
  end.

Definition is_err (r : presult) : bool :=
  match r with POk _ => false | PErr _ => true end.

(* outcome classes for the correspondence: 0 Ok, 1 EOFError, 2 ValueError,
   3 zip path, 4 outside the modelled header grammar *)
Definition pclass (r : presult) : nat :=
  match r with
  | POk _ => 0 | PErr PEOF => 1 | PErr PValue => 2 | PErr PZip => 3
  | PErr PUnsupported => 4
  end.

Definition arr_eqb (a b : arr) : bool :=
  (if list_eq_dec Nat.eq_dec (shape a) (shape b) then true else false) && beq (data a) (data b).

(* class of parse on every prefix (lengths 0..length bs) *)
Definition prefix_classes (bs : bytes) : list nat :=
  map (fun k => pclass (parse (firstn k bs))) (seq 0 (S (length bs))).
