(* Px.v — pixel-function view of list-of-rows images: every array operation of
   Arr.v is characterised by what it does to  px IM i j  and to the shape, so
   that theorems about index algebra reduce to linear arithmetic. *)
From Coq Require Import List Arith Lia Bool ZArith.
From PA Require Import base.Arr.
Import ListNotations.

Set Implicit Arguments.

Section Px.
  Variable A : Type.
  Variable zero : A.
  Notation img := (list (list A)).

  Definition row (IM : img) (i : nat) : list A := nth i IM [].
  Definition px (IM : img) (i j : nat) : A := nth j (row IM i) zero.

  Lemma wf_row n m IM i : wf n m IM -> i < n -> length (row IM i) = m.
  Proof.
    intros [H1 H2] Hi. rewrite Forall_forall in H2. apply H2. apply nth_In. lia.
  Qed.

  Lemma img_ext n m (X Y : img) :
    wf n m X -> wf n m Y ->
    (forall i j, i < n -> j < m -> px X i j = px Y i j) -> X = Y.
  Proof.
    intros HX HY H. apply nth_ext with (d:=@nil A) (d':=@nil A).
    - destruct HX, HY; congruence.
    - intros i Hi. assert (HX1 : length X = n) by (destruct HX; assumption). rewrite HX1 in Hi.
      apply nth_ext with (d:=zero) (d':=zero).
      + change (length (row X i) = length (row Y i)).
        rewrite (wf_row HX Hi), (wf_row HY Hi). reflexivity.
      + intros j Hj. change (j < length (row X i)) in Hj. rewrite (wf_row HX Hi) in Hj.
        apply H; assumption.
  Qed.

  (* ---- rows ---------------------------------------------------------- *)
  Lemma row_firstn k (X : img) i : i < k -> row (firstn k X) i = row X i.
  Proof.
    unfold row. revert k i; induction X as [|x X IH]; intros [|k] [|i] H; simpl; try reflexivity; try lia.
    apply IH. lia.
  Qed.

  Lemma row_skipn k (X : img) i : row (skipn k X) i = row X (k + i).
  Proof.
    unfold row. revert k; induction X as [|x X IH]; intros [|k]; simpl; try reflexivity.
    - destruct i; reflexivity.
    - apply IH.
  Qed.

  Lemma row_lastn k (X : img) i : k <= length X -> row (lastn k X) i = row X (length X - k + i).
  Proof. intros H. unfold lastn. apply row_skipn. Qed.

  Lemma row_droplast k (X : img) i : i < length X - k -> row (droplast k X) i = row X i.
  Proof. intros H. unfold droplast. apply row_firstn. exact H. Qed.

  Lemma row_rev (X : img) i : i < length X -> row (rev X) i = row X (length X - 1 - i).
  Proof. intros H. unfold row. rewrite rev_nth by lia. f_equal. lia. Qed.

  Lemma row_map (f : list A -> list A) (X : img) i :
    i < length X -> row (map f X) i = f (row X i).
  Proof.
    intros H. unfold row. rewrite nth_indep with (d':= f []) by (rewrite map_length; lia).
    apply map_nth.
  Qed.

  Lemma row_app (X Y : img) i :
    row (X ++ Y) i = if i <? length X then row X i else row Y (i - length X).
  Proof.
    unfold row. destruct (Nat.ltb_spec i (length X)).
    - apply app_nth1; lia. - apply app_nth2; lia.
  Qed.

  Lemma row_hcat (X Y : img) i :
    i < length X -> i < length Y -> row (hcat X Y) i = row X i ++ row Y i.
  Proof.
    unfold row, hcat. revert Y i; induction X as [|x X IH]; intros [|y Y] [|i] H1 H2; simpl in *; try lia; try reflexivity.
    apply IH; lia.
  Qed.

  Lemma row_imap2 (f : A -> A -> A) (X Y : img) i :
    i < length X -> i < length Y ->
    row (imap2 f X Y) i = map (fun q => f (fst q) (snd q)) (combine (row X i) (row Y i)).
  Proof.
    unfold row, imap2. revert Y i; induction X as [|x X IH]; intros [|y Y] [|i] H1 H2; simpl in *; try lia; try reflexivity.
    apply IH; lia.
  Qed.

  (* ---- pixels inside a row --------------------------------------------- *)
  Lemma nth_firstn' k (r : list A) j : j < k -> nth j (firstn k r) zero = nth j r zero.
  Proof.
    revert k j; induction r as [|x r IH]; intros [|k] [|j] H; simpl; try reflexivity; try lia.
    apply IH; lia.
  Qed.

  Lemma nth_skipn' k (r : list A) j : nth j (skipn k r) zero = nth (k + j) r zero.
  Proof.
    revert k; induction r as [|x r IH]; intros [|k]; simpl; try reflexivity.
    - destruct j; reflexivity. - apply IH.
  Qed.

  Lemma nth_lastn' k (r : list A) j : k <= length r ->
    nth j (lastn k r) zero = nth (length r - k + j) r zero.
  Proof. intros; unfold lastn; apply nth_skipn'. Qed.

  Lemma nth_rev' (r : list A) j : j < length r -> nth j (rev r) zero = nth (length r - 1 - j) r zero.
  Proof. intros H. rewrite rev_nth by lia. f_equal; lia. Qed.

  Lemma nth_app' (a b : list A) j :
    nth j (a ++ b) zero = if j <? length a then nth j a zero else nth (j - length a) b zero.
  Proof.
    destruct (Nat.ltb_spec j (length a)). - apply app_nth1; lia. - apply app_nth2; lia.
  Qed.

  Lemma nth_map2' (f : A -> A -> A) (a b : list A) j :
    j < length a -> j < length b ->
    nth j (map (fun q => f (fst q) (snd q)) (combine a b)) zero = f (nth j a zero) (nth j b zero).
  Proof.
    revert b j; induction a as [|x a IH]; intros [|y b] [|j] H1 H2; simpl in *; try lia; try reflexivity.
    apply IH; lia.
  Qed.

  Lemma nth_map' (f : A -> A) (a : list A) j : j < length a -> nth j (map f a) zero = f (nth j a zero).
  Proof.
    intros H. rewrite nth_indep with (d':= f zero) by (rewrite map_length; lia). apply map_nth.
  Qed.

  (* ---- pixel characterisations (shape-guarded) ----------------------- *)
  Lemma px_rows_first n m k (X : img) i j : wf n m X -> i < k -> px (rows_first k X) i j = px X i j.
  Proof. intros _ H. unfold px, rows_first. rewrite row_firstn by lia. reflexivity. Qed.

  Lemma px_rows_last n m k (X : img) i j : wf n m X -> k <= n -> px (rows_last k X) i j = px X (n - k + i) j.
  Proof. intros [H1 _] H. unfold px, rows_last. rewrite row_lastn by lia. rewrite H1. reflexivity. Qed.

  Lemma px_rows_droplast n m k (X : img) i j : wf n m X -> i < n - k -> px (rows_droplast k X) i j = px X i j.
  Proof. intros [H1 _] H. unfold px, rows_droplast. rewrite row_droplast by lia. reflexivity. Qed.

  Lemma px_cols_first n m k (X : img) i j : wf n m X -> i < n -> j < k -> px (cols_first k X) i j = px X i j.
  Proof.
    intros [H1 _] Hi Hj. unfold px, cols_first. rewrite row_map by lia. apply nth_firstn'; lia.
  Qed.

  Lemma px_cols_last n m k (X : img) i j : wf n m X -> i < n -> k <= m ->
    px (cols_last k X) i j = px X i (m - k + j).
  Proof.
    intros H Hi Hk. unfold px, cols_last. assert (H1 : length X = n) by (destruct H; assumption). rewrite row_map by lia.
    rewrite nth_lastn' by (rewrite (wf_row H Hi); lia). rewrite (wf_row H Hi). reflexivity.
  Qed.

  Lemma px_cols_dropfirst n m k (X : img) i j : wf n m X -> i < n ->
    px (cols_dropfirst k X) i j = px X i (k + j).
  Proof.
    intros [H1 _] Hi. unfold px, cols_dropfirst. rewrite row_map by lia. apply nth_skipn'.
  Qed.

  Lemma px_fliplr n m (X : img) i j : wf n m X -> i < n -> j < m -> px (fliplr X) i j = px X i (m - 1 - j).
  Proof.
    intros H Hi Hj. unfold px, fliplr. assert (H1 : length X = n) by (destruct H; assumption). rewrite row_map by lia.
    rewrite nth_rev' by (rewrite (wf_row H Hi); lia). rewrite (wf_row H Hi). reflexivity.
  Qed.

  Lemma px_flipud n m (X : img) i j : wf n m X -> i < n -> px (flipud X) i j = px X (n - 1 - i) j.
  Proof. intros [H1 _] Hi. unfold px, flipud. rewrite row_rev by lia. rewrite H1. reflexivity. Qed.

  Lemma px_hcat n m1 m2 (X Y : img) i j : wf n m1 X -> wf n m2 Y -> i < n ->
    px (hcat X Y) i j = if j <? m1 then px X i j else px Y i (j - m1).
  Proof.
    intros HX HY Hi. unfold px. rewrite row_hcat by (destruct HX, HY; lia).
    rewrite nth_app'. rewrite (wf_row HX Hi). reflexivity.
  Qed.

  Lemma px_vcat n1 m (X Y : img) i j : wf n1 m X ->
    px (vcat X Y) i j = if i <? n1 then px X i j else px Y (i - n1) j.
  Proof. intros [H1 _]. unfold px, vcat. rewrite row_app. rewrite H1. destruct (i <? n1); reflexivity. Qed.

  Lemma px_imap2 n m f (X Y : img) i j : wf n m X -> wf n m Y -> i < n -> j < m ->
    px (imap2 f X Y) i j = f (px X i j) (px Y i j).
  Proof.
    intros HX HY Hi Hj. unfold px. rewrite row_imap2 by (destruct HX, HY; lia).
    apply nth_map2'; [rewrite (wf_row HX Hi)|rewrite (wf_row HY Hi)]; lia.
  Qed.

  Lemma px_imap n m f (X : img) i j : wf n m X -> i < n -> j < m -> px (imap f X) i j = f (px X i j).
  Proof.
    intros HX Hi Hj. unfold px, imap. rewrite row_map by (destruct HX; lia).
    apply nth_map'. rewrite (wf_row HX Hi); lia.
  Qed.

  (* ---- shapes ------------------------------------------------------- *)
  Lemma wf_rows_first n m k (X : img) n' : wf n m X -> k <= n -> n' = k -> wf n' m (rows_first k X).
  Proof. intros H Hk ->. replace k with (Nat.min k n) at 1 by lia. apply wf_firstn; exact H. Qed.

  Lemma wf_rows_last n m k (X : img) n' : wf n m X -> k <= n -> n' = k -> wf n' m (rows_last k X).
  Proof.
    intros H Hk ->. unfold rows_last, lastn. assert (H1 : length X = n) by (destruct H; assumption). rewrite H1.
    replace k with (n - (n - k)) at 1 by lia. apply wf_skipn; exact H.
  Qed.

  Lemma wf_rows_droplast n m k (X : img) n' : wf n m X -> n' = n - k -> wf n' m (rows_droplast k X).
  Proof.
    intros H ->. unfold rows_droplast, droplast. assert (H1 : length X = n) by (destruct H; assumption). rewrite H1.
    replace (n - k) with (Nat.min (n - k) n) at 1 by lia. apply wf_firstn; exact H.
  Qed.

  Lemma wf_cols_first n m k (X : img) m' : wf n m X -> k <= m -> m' = k -> wf n m' (cols_first k X).
  Proof.
    intros H Hk ->. unfold cols_first. apply wf_map with (m:=m); [|exact H].
    intros r Hr. rewrite firstn_length; lia.
  Qed.

  Lemma wf_cols_last n m k (X : img) m' : wf n m X -> k <= m -> m' = k -> wf n m' (cols_last k X).
  Proof.
    intros H Hk ->. unfold cols_last. apply wf_map with (m:=m); [|exact H].
    intros r Hr. apply lastn_length; lia.
  Qed.

  Lemma wf_cols_dropfirst n m k (X : img) m' : wf n m X -> m' = m - k -> wf n m' (cols_dropfirst k X).
  Proof.
    intros H ->. unfold cols_dropfirst. apply wf_map with (m:=m); [|exact H].
    intros r Hr. rewrite skipn_length; lia.
  Qed.

  Lemma wf_fliplr n m (X : img) : wf n m X -> wf n m (fliplr X).
  Proof. intros H. unfold fliplr. apply wf_map with (m:=m); [|exact H]. intros; rewrite rev_length; auto. Qed.

  Lemma wf_flipud n m (X : img) : wf n m X -> wf n m (flipud X).
  Proof. apply wf_rev. Qed.

  Lemma wf_hcat n m1 m2 (X Y : img) m' : wf n m1 X -> wf n m2 Y -> m' = m1 + m2 -> wf n m' (hcat X Y).
  Proof.
    intros HX HY ->. split.
    - rewrite hcat_length. destruct HX, HY; lia.
    - apply Forall_forall. intros r Hr. apply In_nth with (d:=[]) in Hr.
      destruct Hr as [i [Hi <-]]. rewrite hcat_length in Hi.
      assert (Hi1 : i < n) by (destruct HX, HY; lia).
      change (length (row (hcat X Y) i) = m1 + m2).
      rewrite row_hcat by (destruct HX, HY; lia).
      rewrite app_length, (wf_row HX Hi1), (wf_row HY Hi1). reflexivity.
  Qed.

  Lemma wf_vcat n1 n2 m (X Y : img) n' : wf n1 m X -> wf n2 m Y -> n' = n1 + n2 -> wf n' m (vcat X Y).
  Proof.
    intros [H1 H2] [H3 H4] ->. split. - unfold vcat; rewrite app_length; lia.
    - apply Forall_app; split; assumption.
  Qed.

  Lemma wf_imap n m f (X : img) : wf n m X -> wf n m (imap f X).
  Proof.
    intros H. unfold imap. apply wf_map with (m:=m); [|exact H]. intros; rewrite map_length; auto.
  Qed.

  Lemma wf_imap2 n m f (X Y : img) : wf n m X -> wf n m Y -> wf n m (imap2 f X Y).
  Proof.
    intros HX HY. split.
    - unfold imap2. rewrite map_length, combine_length. destruct HX, HY; lia.
    - apply Forall_forall. intros r Hr. apply In_nth with (d:=[]) in Hr.
      destruct Hr as [i [Hi <-]].
      assert (Hi1 : i < n).
      { unfold imap2 in Hi. rewrite map_length, combine_length in Hi. destruct HX, HY; lia. }
      change (length (row (imap2 f X Y) i) = m).
      rewrite row_imap2 by (destruct HX, HY; lia).
      rewrite map_length, combine_length, (wf_row HX Hi1), (wf_row HY Hi1). lia.
  Qed.

  Lemma wf_nrows n m (X : img) : wf n m X -> nrows X = n.
  Proof. intros [H _]; exact H. Qed.

  Lemma wf_ncols n m (X : img) : wf n m X -> 0 < n -> ncols X = m.
  Proof.
    intros [H1 H2] Hn. unfold ncols. destruct X as [|r X]; simpl in *; [lia|].
    inversion H2; auto.
  Qed.
End Px.
