(* QClose.v — exact-rational carrier for executing the models, and the
   closeness predicate used when a model value is compared with a binary64
   value returned by the implementation (given as its exact rational). *)
From Coq Require Import List ZArith QArith Qabs Bool.
Import ListNotations.

Definition Qdivn (x : Q) (k : nat) : Q := x / inject_Z (Z.of_nat k).

(* |x - y| <= 2^-40 * (1 + max(|x|, |y|)) *)
Definition qtol : Q := 1 # 1099511627776.
Definition qclose (x y : Q) : bool :=
  let d := Qabs (x - y) in
  let s := if Qle_bool (Qabs x) (Qabs y) then Qabs y else Qabs x in
  Qle_bool d (qtol * (1 + s)).

Fixpoint list_all2 {X Y} (f : X -> Y -> bool) (a : list X) (b : list Y) : bool :=
  match a, b with
  | [], [] => true
  | x :: a', y :: b' => f x y && list_all2 f a' b'
  | _, _ => false
  end.

Definition row_close := list_all2 qclose.
Definition img_close := list_all2 row_close.

Fixpoint count_true (l : list bool) : nat :=
  match l with [] => 0 | b :: l' => (if b then 1 else 0) + count_true l' end.

(* indices (from 0) of the false entries *)
Fixpoint false_idx (i : nat) (l : list bool) : list nat :=
  match l with
  | [] => []
  | b :: l' => if b then false_idx (S i) l' else i :: false_idx (S i) l'
  end.
