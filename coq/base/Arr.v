(* Arr.v — 2-D arrays as lists of rows, with the numpy operations PyAbel uses
   on them (basic slices, flips, concatenation).  Only definitions and generic
   list lemmas live here; nothing about PyAbel. *)
From Coq Require Import List Arith Lia Bool ZArith.
Import ListNotations.

Set Implicit Arguments.

Section Lists.
  Variable X : Type.

  (* a[-k:] for 0 < k <= len a *)
  Definition lastn (k : nat) (l : list X) : list X := skipn (length l - k) l.
  (* a[:-k] for k <= len a *)
  Definition droplast (k : nat) (l : list X) : list X := firstn (length l - k) l.

  Lemma lastn_length k (l : list X) : k <= length l -> length (lastn k l) = k.
  Proof. unfold lastn; intros; rewrite skipn_length; lia. Qed.

  Lemma droplast_length k (l : list X) : length (droplast k l) = length l - k.
  Proof. unfold droplast; rewrite firstn_length; lia. Qed.

  Lemma firstn_rev k (l : list X) : firstn k (rev l) = rev (lastn k l).
  Proof.
    unfold lastn. destruct (le_lt_dec k (length l)) as [H|H].
    - rewrite <- (firstn_skipn (length l - k) l) at 1.
      rewrite rev_app_distr. rewrite firstn_app.
      rewrite rev_length, skipn_length.
      replace (k - (length l - (length l - k))) with 0 by lia.
      rewrite firstn_O, app_nil_r. apply firstn_all2.
      rewrite rev_length, skipn_length. lia.
    - replace (length l - k) with 0 by lia. rewrite skipn_O.
      apply firstn_all2. rewrite rev_length. lia.
  Qed.

  Lemma skipn_rev k (l : list X) : skipn k (rev l) = rev (droplast k l).
  Proof.
    unfold droplast. destruct (le_lt_dec k (length l)) as [H|H].
    - rewrite <- (firstn_skipn (length l - k) l) at 1.
      rewrite rev_app_distr. rewrite skipn_app.
      rewrite rev_length, skipn_length.
      replace (length l - (length l - k)) with k by lia.
      replace (k - k) with 0 by lia. rewrite skipn_O.
      rewrite skipn_all2; [reflexivity|].
      rewrite rev_length, skipn_length. lia.
    - replace (length l - k) with 0 by lia. rewrite firstn_O. simpl.
      apply skipn_all2. rewrite rev_length. lia.
  Qed.

  Lemma rev_eq_inv (a b : list X) : rev a = rev b -> a = b.
  Proof. intros H. rewrite <- (rev_involutive a), H. apply rev_involutive. Qed.

  Lemma tl_skipn (l : list X) : tl l = skipn 1 l.
  Proof. destruct l; reflexivity. Qed.

  Lemma nth_error_lastn k (l : list X) i :
    k <= length l -> nth_error (lastn k l) i = nth_error l (length l - k + i).
  Proof.
    intros H. unfold lastn.
    rewrite <- (firstn_skipn (length l - k) l) at 3.
    rewrite nth_error_app2; rewrite firstn_length; [|lia].
    f_equal. lia.
  Qed.

  Lemma nth_error_rev (l : list X) i :
    i < length l -> nth_error (rev l) i = nth_error l (length l - 1 - i).
  Proof.
    intros H. destruct (nth_error l (length l - 1 - i)) eqn:E.
    - apply nth_error_nth with (d:=x) in E.
      rewrite <- E. rewrite nth_error_nth' with (d:=x); [|rewrite rev_length; lia].
      rewrite rev_nth by lia. do 2 f_equal. lia.
    - apply nth_error_None in E. lia.
  Qed.
End Lists.

Section Img.
  Variable A : Type.
  Definition img := list (list A).

  (* shape *)
  Definition nrows (IM : img) : nat := length IM.
  Definition ncols (IM : img) : nat := length (hd [] IM).
  Definition wf (n m : nat) (IM : img) : Prop :=
    length IM = n /\ Forall (fun r => length r = m) IM.
  Definition wfb (n m : nat) (IM : img) : bool :=
    Nat.eqb (length IM) n && forallb (fun r => Nat.eqb (length r) m) IM.

  Definition fliplr (IM : img) : img := map (@rev A) IM.
  Definition flipud (IM : img) : img := rev IM.
  Definition hcat (a b : img) : img := map (fun p => fst p ++ snd p) (combine a b).
  Definition vcat (a b : img) : img := a ++ b.

  (* numpy basic slices used by the modelled code *)
  Definition rows_first k (IM : img) : img := firstn k IM.          (* IM[:k]  *)
  Definition rows_last  k (IM : img) : img := lastn k IM.           (* IM[-k:] *)
  Definition cols_first k (IM : img) : img := map (firstn k) IM.    (* IM[:, :k]  *)
  Definition cols_last  k (IM : img) : img := map (lastn k) IM.     (* IM[:, -k:] *)
  Definition rows_droplast k (IM : img) : img := droplast k IM.     (* IM[:-k]  *)
  Definition cols_dropfirst k (IM : img) : img := map (skipn k) IM. (* IM[:, k:] *)

  (* element-wise operations *)
  Definition imap (f : A -> A) (a : img) : img := map (map f) a.
  Definition imap2 (f : A -> A -> A) (a b : img) : img :=
    map (fun p => map (fun q => f (fst q) (snd q)) (combine (fst p) (snd p))) (combine a b).

  Definition at2 (IM : img) (i j : nat) : option A :=
    match nth_error IM i with Some r => nth_error r j | None => None end.

  Lemma wfb_wf n m IM : wfb n m IM = true <-> wf n m IM.
  Proof.
    unfold wfb, wf. rewrite andb_true_iff, Nat.eqb_eq, forallb_forall, Forall_forall.
    split; intros [H1 H2]; split; auto; intros x Hx; specialize (H2 x Hx);
      apply Nat.eqb_eq; auto.
  Qed.

  Lemma wf_firstn n m k IM : wf n m IM -> wf (Nat.min k n) m (firstn k IM).
  Proof.
    intros [H1 H2]. split. - rewrite firstn_length; lia.
    - rewrite Forall_forall in *. intros x Hx. apply H2.
      rewrite <- (firstn_skipn k IM). apply in_or_app; auto.
  Qed.

  Lemma wf_skipn n m k IM : wf n m IM -> wf (n - k) m (skipn k IM).
  Proof.
    intros [H1 H2]. split. - rewrite skipn_length; lia.
    - rewrite Forall_forall in *. intros x Hx. apply H2.
      rewrite <- (firstn_skipn k IM). apply in_or_app; auto.
  Qed.

  Lemma wf_rev n m IM : wf n m IM -> wf n m (rev IM).
  Proof.
    intros [H1 H2]. split. - rewrite rev_length; auto.
    - rewrite Forall_forall in *. intros x Hx. apply H2. apply in_rev; auto.
  Qed.

  Lemma wf_map n m m' (f : list A -> list A) IM :
    (forall r, length r = m -> length (f r) = m') -> wf n m IM -> wf n m' (map f IM).
  Proof.
    intros Hf [H1 H2]. split. - rewrite map_length; auto.
    - rewrite Forall_forall in *. intros x Hx. apply in_map_iff in Hx.
      destruct Hx as [y [<- Hy]]. auto.
  Qed.

  Lemma hcat_length a b : length (hcat a b) = Nat.min (length a) (length b).
  Proof. unfold hcat. rewrite map_length, combine_length. reflexivity. Qed.

  Lemma hcat_map (f g : list A -> list A) IM :
    hcat (map f IM) (map g IM) = map (fun r => f r ++ g r) IM.
  Proof. unfold hcat. induction IM as [|r IM IH]; simpl; [reflexivity|]. f_equal. exact IH. Qed.

  Lemma hcat_firstn k a b : firstn k (hcat a b) = hcat (firstn k a) (firstn k b).
  Proof.
    unfold hcat. revert a b; induction k as [|k IH]; intros [|x a] [|y b]; simpl; try reflexivity.
    f_equal. apply IH.
  Qed.

  Lemma hcat_rev a b : length a = length b -> rev (hcat a b) = hcat (rev a) (rev b).
  Proof.
    unfold hcat. revert b; induction a as [|x a IH]; intros [|y b] H; simpl in *; try discriminate; [reflexivity|].
    injection H as H. rewrite IH by exact H.
    assert (Hl : length (rev a) = length (rev b)) by (rewrite !rev_length; exact H).
    clear IH. generalize dependent (rev b). generalize (rev a).
    intros l; induction l as [|u l IHl]; intros [|v l'] Hl; simpl in *; try discriminate; [reflexivity|].
    f_equal. apply IHl. lia.
  Qed.
End Img.

Arguments lastn {X} k l.
Arguments droplast {X} k l.
