(* MxNp.v — the numpy / scipy.linalg operations that occur in the translated
   matrix expressions (coq/gen/MatrixExpr.v, coq/gen/DrSites.v), given by
   their SPECIFICATION over an arbitrary field.  This file is the trusted
   modelling of the external library calls:

     scipy.linalg.inv(A)                      invmx A
     scipy.linalg.solve_triangular(A, B,      invmx (tri lower A) *m B  where
                                   lower=l)     tri keeps only the triangle
                                                that LAPACK trtrs reads
     A.sum(axis=0)   (1-D result)             colsum A   (row vector)
     M /= v          (v 1-D, broadcasting)    coldiv M v
     np.multiply(M, v) (v 1-D, broadcasting)  colmul M v
     X.dot(Y), X.T, np.eye, np.diag([x]*k),   mulmx, trmx, 1%:M, x%:M,
     np.tensordot(X, D, axes=(1, 1))          X *m D^T
   1-D numpy arrays are row vectors.  No proofs here. *)
From mathcomp Require Import all_ssreflect all_algebra.
Set Implicit Arguments.
Unset Strict Implicit.
Unset Printing Implicit Defensive.
Import GRing.Theory.
Local Open Scope ring_scope.

Section NumpyOps.
Variable F : fieldType.

Definition lower_part n (A : 'M[F]_n) : 'M[F]_n :=
  \matrix_(i, j) (if (j <= i)%N then A i j else 0).

Definition upper_part n (A : 'M[F]_n) : 'M[F]_n :=
  \matrix_(i, j) (if (i <= j)%N then A i j else 0).

Definition solve_triangular (lower : bool) n m (A : 'M[F]_n) (B : 'M[F]_(n, m)) : 'M[F]_(n, m) :=
  invmx (if lower then lower_part A else upper_part A) *m B.

Definition colsum m n (A : 'M[F]_(m, n)) : 'rV[F]_n := \row_j \sum_i A i j.

Definition coldiv m n (M : 'M[F]_(m, n)) (v : 'rV[F]_n) : 'M[F]_(m, n) :=
  \matrix_(i, j) (M i j / v 0 j).

(* np.multiply(M, v) with v 1-D: every column j of M is multiplied by v[j] *)
Definition colmul m n (M : 'M[F]_(m, n)) (v : 'rV[F]_n) : 'M[F]_(m, n) :=
  \matrix_(i, j) (M i j * v 0 j).

End NumpyOps.
