(* C06 — Quadrant split/join is lossless and symmetrisation is a projector.
   Only statements here; proofs are in proofs/Symmetry*.v, proofs/C06R.v,
   proofs/C06Q.v.  Model: model/Symmetry.v (abel/tools/symmetry.py).

   symR a u meth IM  =  put_image_quadrants(get_image_quadrants(IM,
        symmetry_axis=a, use_quadrants=u, symmetrize_method=meth), IM.shape, a)
   over the real numbers; ax_None/ax_0/ax_1/ax_both are the Python values
   None, 0, 1, (0, 1); both_spellings = [(0, 1); [0, 1]; (1, 0)]. *)
From Coq Require Import List Arith Bool ZArith Reals QArith.
From PA Require Import base.Arr base.Px base.QClose model.Symmetry model.SymmetryQ
  proofs.SymmetryProofs proofs.C06R gen.SymmetryGen proofs.SymmetryGenEq.
Import ListNotations.

(* The model the theorems below are about is the function the current source
   defines: gen/SymmetryGen.v is regenerated from abel/tools/symmetry.py by
   tools/translate/symmetry_src.py on every run. *)
Theorem C06_model_is_source :
  (forall (A : Type) (zero : A) (add : A -> A -> A) (divn : A -> nat -> A)
          (IM : list (list A)) (reorient : bool) (a : axis) (u : mask) (meth : smethod),
     @get_quadrants_gen A zero add divn IM reorient a u meth = get_quadrants zero add divn IM reorient a u meth) /\
  (forall (A : Type) (Q : quads A) (n m : nat) (a : axis),
     @put_quadrants_gen A Q n m a = put_quadrants Q n m a).
Proof. exact (conj get_gen_eq put_gen_eq). Qed.
Print Assumptions C06_model_is_source.

(* Splitting any image (every shape, every parity) into quadrants and
   reassembling returns the image exactly. *)
Theorem C06_put_get_id : forall (n m : nat) (IM : list (list R)),
  wf n m IM -> (1 <= n)%nat -> (1 <= m)%nat ->
  symR ax_None mask_all Average IM = Ok IM /\ symR ax_None mask_all Fourier IM = Ok IM.
Proof. exact R_put_get_id. Qed.
Print Assumptions C06_put_get_id.

(* The symmetrised image is mirror-symmetric in the requested sense, for every
   admissible use_quadrants mask. *)
Theorem C06_sym_mirror : forall (n m : nat) (IM S : list (list R)) (u : mask),
  wf n m IM -> (1 <= n)%nat -> (1 <= m)%nat ->
  (symR ax_0 u Average IM = Ok S -> fliplr S = S) /\
  (symR ax_1 u Average IM = Ok S -> flipud S = S) /\
  (forall a, In a both_spellings -> symR a u Average IM = Ok S -> fliplr S = S /\ flipud S = S).
Proof. exact R_sym_mirror. Qed.
Print Assumptions C06_sym_mirror.

(* An already symmetric image is left unchanged (any mask that is not rejected). *)
Theorem C06_sym_fix : forall (n m : nat) (IM : list (list R)) (u : mask),
  wf n m IM -> (1 <= n)%nat -> (1 <= m)%nat ->
  (fliplr IM = IM -> rejects ax_0 u = false -> symR ax_0 u Average IM = Ok IM) /\
  (flipud IM = IM -> rejects ax_1 u = false -> symR ax_1 u Average IM = Ok IM) /\
  (forall a, In a both_spellings ->
     fliplr IM = IM -> flipud IM = IM -> rejects a u = false -> symR a u Average IM = Ok IM).
Proof. exact R_sym_fix. Qed.
Print Assumptions C06_sym_fix.

(* Symmetrising twice gives the same result as symmetrising once. *)
Theorem C06_sym_idem : forall (n m : nat) (IM S : list (list R)) (u : mask) (a : axis),
  wf n m IM -> (1 <= n)%nat -> (1 <= m)%nat -> In a (ax_0 :: ax_1 :: both_spellings) ->
  symR a u Average IM = Ok S -> symR a u Average S = Ok S.
Proof. exact R_sym_idem. Qed.
Print Assumptions C06_sym_idem.

(* With all quadrants enabled the 'average' result is the mean of the image and
   its mirror image. *)
Theorem C06_sym_mean : forall (n m : nat) (IM : list (list R)),
  wf n m IM -> (1 <= n)%nat -> (1 <= m)%nat ->
  symR ax_0 mask_all Average IM = Ok (imdiv Rdivn 2 (imadd Rplus IM (fliplr IM))) /\
  symR ax_1 mask_all Average IM = Ok (imdiv Rdivn 2 (imadd Rplus IM (flipud IM))).
Proof. exact R_sym_mean. Qed.
Print Assumptions C06_sym_mean.

(* For EVERY admissible use_quadrants mask the result is, pixel by pixel, the
   mean over the enabled quadrants of the pixel and its mirror image(s)
   (mean2R ua ub a b = (ua*a + ub*b)/(ua+ub), mean4R likewise over four).  Rows
   i < n/2 belong to the upper quadrants, the central row and below to the lower
   ones; columns j < m/2 to the left-hand quadrants, the central column and
   beyond to the right-hand ones. *)
Theorem C06_sym_px_0 : forall (n m : nat) (IM S : list (list R)) (u : mask) (i j : nat),
  wf n m IM -> (1 <= n)%nat -> (1 <= m)%nat ->
  symR ax_0 u Average IM = Ok S -> (i < n)%nat -> (j < m)%nat ->
  px 0%R S i j =
    if (i <? n / 2)%nat
    then (if (j <? m / 2)%nat then mean2R (u0 u) (u1 u) (px 0%R IM i (m - 1 - j)) (px 0%R IM i j)
          else mean2R (u0 u) (u1 u) (px 0%R IM i j) (px 0%R IM i (m - 1 - j)))
    else (if (j <? m / 2)%nat then mean2R (u2 u) (u3 u) (px 0%R IM i j) (px 0%R IM i (m - 1 - j))
          else mean2R (u2 u) (u3 u) (px 0%R IM i (m - 1 - j)) (px 0%R IM i j)).
Proof. exact R_sym_px_0. Qed.
Print Assumptions C06_sym_px_0.

Theorem C06_sym_px_1 : forall (n m : nat) (IM S : list (list R)) (u : mask) (i j : nat),
  wf n m IM -> (1 <= n)%nat -> (1 <= m)%nat ->
  symR ax_1 u Average IM = Ok S -> (i < n)%nat -> (j < m)%nat ->
  px 0%R S i j =
    if (j <? m / 2)%nat
    then (if (i <? n / 2)%nat then mean2R (u1 u) (u2 u) (px 0%R IM i j) (px 0%R IM (n - 1 - i) j)
          else mean2R (u1 u) (u2 u) (px 0%R IM (n - 1 - i) j) (px 0%R IM i j))
    else (if (i <? n / 2)%nat then mean2R (u0 u) (u3 u) (px 0%R IM i j) (px 0%R IM (n - 1 - i) j)
          else mean2R (u0 u) (u3 u) (px 0%R IM (n - 1 - i) j) (px 0%R IM i j)).
Proof. exact R_sym_px_1. Qed.
Print Assumptions C06_sym_px_1.

Theorem C06_sym_px_both : forall (n m : nat) (IM S : list (list R)) (a : axis) (u : mask) (i j : nat),
  wf n m IM -> (1 <= n)%nat -> (1 <= m)%nat -> In a both_spellings ->
  symR a u Average IM = Ok S -> (i < n)%nat -> (j < m)%nat ->
  px 0%R S i j = mean4R u (px 0%R IM (Nat.min i (n - 1 - i)) (Nat.max j (m - 1 - j)))
                          (px 0%R IM (Nat.min i (n - 1 - i)) (Nat.min j (m - 1 - j)))
                          (px 0%R IM (Nat.max i (n - 1 - i)) (Nat.min j (m - 1 - j)))
                          (px 0%R IM (Nat.max i (n - 1 - i)) (Nat.max j (m - 1 - j))).
Proof. exact R_sym_px_both. Qed.
Print Assumptions C06_sym_px_both.

(* A request is rejected exactly when some output quadrant would have no
   enabled source quadrant. *)
Theorem C06_reject_iff_undefined : forall (a : axis) (u : mask),
  In a [ax_None; ax_0; ax_1; ax_both; ax_list01; ax_tuple10] -> rejects a u = undefined_quadrant a u.
Proof. exact reject_iff_undefined. Qed.
Print Assumptions C06_reject_iff_undefined.

Example C06_hypotheses_satisfiable :
  wf 3 2 [[1; 2]; [3; 4]; [5; 6]]%R /\ (1 <= 3)%nat /\ (1 <= 2)%nat.
Proof. exact R_example_wf. Qed.

(* ---- symmetrize_method='fourier' (after the repair of the centring defect) ---- *)

(* mirror symmetry, for every mask that is not rejected *)
Theorem C06_fourier_mirror : forall (n m : nat) (IM S : list (list R)) (u : mask),
  wf n m IM -> (1 <= n)%nat -> (1 <= m)%nat ->
  (symR ax_0 u Fourier IM = Ok S -> fliplr S = S) /\
  (symR ax_1 u Fourier IM = Ok S -> flipud S = S) /\
  (forall a, In a both_spellings -> symR a u Fourier IM = Ok S -> fliplr S = S /\ flipud S = S).
Proof. exact R_fourier_mirror. Qed.
Print Assumptions C06_fourier_mirror.

Theorem C06_fourier_fix : forall (n m : nat) (IM : list (list R)) (u : mask),
  wf n m IM -> (1 <= n)%nat -> (1 <= m)%nat ->
  (fliplr IM = IM -> rejects ax_0 u = false -> symR ax_0 u Fourier IM = Ok IM) /\
  (flipud IM = IM -> rejects ax_1 u = false -> symR ax_1 u Fourier IM = Ok IM) /\
  (forall a, In a both_spellings ->
     fliplr IM = IM -> flipud IM = IM -> rejects a u = false -> symR a u Fourier IM = Ok IM).
Proof. exact R_fourier_fix. Qed.
Print Assumptions C06_fourier_fix.

Theorem C06_fourier_idem : forall (n m : nat) (IM S : list (list R)) (u : mask) (a : axis),
  wf n m IM -> (1 <= n)%nat -> (1 <= m)%nat -> In a (ax_0 :: ax_1 :: both_spellings) ->
  symR a u Fourier IM = Ok S -> symR a u Fourier S = Ok S.
Proof. exact R_fourier_idem. Qed.
Print Assumptions C06_fourier_idem.

(* the Fourier method returns the 'average' result with all quadrants enabled *)
Theorem C06_fourier_eq_average : forall (n m : nat) (IM : list (list R)) (u : mask),
  wf n m IM -> (1 <= n)%nat -> (1 <= m)%nat ->
  (rejects ax_0 u = false -> symR ax_0 u Fourier IM = symR ax_0 mask_all Average IM) /\
  (rejects ax_1 u = false -> symR ax_1 u Fourier IM = symR ax_1 mask_all Average IM).
Proof. exact R_fourier_eq_average. Qed.
Print Assumptions C06_fourier_eq_average.
