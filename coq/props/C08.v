(* C08 — A damaged or concurrently written basis file never changes a result.
   Only statements; proofs in proofs/NpyProofs.v, proofs/FileFaultsProofs.v,
   proofs/Cache*Proofs.v, proofs/CacheRbasexInv.v.  Models: base/Npy.v
   (byte-level .npy 1.0 codec as numpy.save / numpy.load implement it),
   model/FileFaults.v (files as byte lists, writers as sequences of syscalls,
   interleavings, the atomic temp-file + rename save of fix 46921c4, the
   try/except handlers and shape checks of the five caching modules),
   model/Cache*.v (cache state machines of the FIXED code, with the order of
   global assignments relative to the raising points). *)
From Coq Require Import List NArith Arith Bool.
From PA Require Import base.Npy model.CacheCommon model.FileFaults
  proofs.NpyProofs proofs.FileFaultsProofs.
From PA Require model.CacheBasex model.CacheDaun model.CacheDasch model.CacheLinbasex model.CacheRbasex
  proofs.CacheBasexProofs proofs.CacheDaunProofs proofs.CacheDaschProofs proofs.CacheLinbasexProofs
  proofs.CacheRbasexProofs proofs.CacheRbasexInv.
Import ListNotations.

(* ---- the codec ------------------------------------------------------------- *)
Theorem C08_parse_serialize : forall a, wf_arr a -> hlen (shape a) / 256 < 256 ->
  parse (serialize a) = POk a.
Proof. exact parse_serialize. Qed.
Print Assumptions C08_parse_serialize.

(* every crash point of a save — every proper prefix, including the empty
   file — is rejected by numpy.load: EOFError for 0 bytes, ValueError else *)
Theorem C08_truncation_detected : forall a k, wf_arr a -> hlen (shape a) / 256 < 256 ->
  k < length (serialize a) ->
  parse (firstn k (serialize a)) = PErr (if k =? 0 then PEOF else PValue).
Proof. exact truncation_detected. Qed.
Print Assumptions C08_truncation_detected.

Theorem C08_trailing_ignored : forall a extra, wf_arr a -> hlen (shape a) / 256 < 256 ->
  parse (serialize a ++ extra) = POk a.
Proof. exact parse_serialize_trailing. Qed.
Print Assumptions C08_trailing_ignored.

Example C08_hypotheses_satisfiable :
  wf_arr wit_arr /\ hlen (shape wit_arr) / 256 < 256 /\ 0 < length (serialize wit_arr).
Proof. vm_compute. repeat split; repeat constructor. Qed.

(* ---- handlers ---------------------------------------------------------------- *)
(* whatever does not parse (empty, truncated, garbage, zip prefix) never yields
   other numbers; basex / daun / rbasex repair the ValueError class by
   regenerating and re-saving, dasch / linbasex raise *)
Theorem C08_fault_outcome : forall m right sok f,
  is_err (parse f) = true ->
  load_outcome m right sok f <> Different /\
  (parse f = PErr PValue -> catches_value_error m = true ->
     load_outcome m right sok f = Fresh /\ resaved m f = true) /\
  (parse f <> PErr PValue \/ catches_value_error m = false ->
     load_outcome m right sok f = Exception /\ resaved m f = false).
Proof. exact fault_outcome. Qed.
Print Assumptions C08_fault_outcome.

Theorem C08_crash_point_outcome : forall m right sok a k,
  wf_arr a -> hlen (shape a) / 256 < 256 -> k < length (serialize a) ->
  load_outcome m right sok (firstn k (serialize a)) =
    (if k =? 0 then Exception else if catches_value_error m then Fresh else Exception).
Proof. exact crash_point_outcome. Qed.
Print Assumptions C08_crash_point_outcome.

(* a valid file whose shape is not what its name promises is ignored *)
Theorem C08_wrong_shape_outcome : forall m right sok f a,
  parse f = POk a -> sok a = false -> load_outcome m right sok f = Fresh.
Proof. exact wrong_shape_outcome. Qed.
Print Assumptions C08_wrong_shape_outcome.

(* ---- concurrent writers -------------------------------------------------------- *)
(* the save of the library (temp file of its own + os.replace), each writer
   with ANY number of write syscalls, any number of writers, every schedule: a
   reader sees what was there before, or the complete new file *)
Theorem C08_atomic_save_safe : forall a t0 procs sched t,
  Forall (is_atomic_save a) procs -> In t (aobserved t0 procs sched) -> t = t0 \/ t = Some (serialize a).
Proof. exact atomic_save_safe. Qed.
Print Assumptions C08_atomic_save_safe.

Theorem C08_atomic_save_read : forall a procs sched f,
  wf_arr a -> hlen (shape a) / 256 < 256 ->
  Forall (is_atomic_save a) procs -> In (Some f) (aobserved None procs sched) -> parse f = POk a.
Proof. exact atomic_save_read. Qed.
Print Assumptions C08_atomic_save_read.

(* sensitivity: writing IN PLACE is safe only with at most two writes ... *)
Theorem C08_two_chunk_interleaving_safe : forall a, wf_arr a -> hlen (shape a) / 256 < 256 ->
  forall procs sched f,
    Forall (is_save a) procs -> In f (observed procs [] sched) -> safe_read a f.
Proof. intros a H1 H2. exact (two_chunk_interleaving_safe a H1 H2). Qed.
Print Assumptions C08_two_chunk_interleaving_safe.

(* ... and numpy.save needs three (header, bulk, tail): a non-atomic writer
   admits a schedule in which the file parses to a different array.  This is
   why the check demands, on every run, that basis files appear by rename *)
Theorem C08_three_chunk_interleaving_refuted :
  exists (a : arr) (k : nat) (sched : list nat) (f : file) (b : arr),
    wf_arr a /\ hlen (shape a) / 256 < 256 /\
    In f (observed [save_three a k; save_three a k] [] sched) /\
    parse f = POk b /\ b <> a.
Proof. exact three_chunk_interleaving_refuted. Qed.
Print Assumptions C08_three_chunk_interleaving_refuted.

(* ---- whole histories with damaged and wrong-shape files: the state machines ---------- *)
(* with damaged (empty / truncated / garbage / zip) and wrong-shape files seeded
   anywhere in the history, every call returns the fresh result or raises —
   also AFTER a raising call and after the file was removed or re-saved *)
Theorem C08_daun_fault_safe : forall ops,
  CacheDaun.no_hazard CacheDaun.init ops = true -> CacheDaun.all_safe CacheDaun.init ops = true.
Proof. exact CacheDaunProofs.fault_safe. Qed.
Print Assumptions C08_daun_fault_safe.

Theorem C08_dasch_fault_safe : forall ops,
  CacheDasch.no_hazard CacheDasch.init ops = true -> CacheDasch.all_safe CacheDasch.init ops = true.
Proof. exact CacheDaschProofs.fault_safe. Qed.
Print Assumptions C08_dasch_fault_safe.

Theorem C08_linbasex_fault_safe : forall ops,
  CacheLinbasex.no_hazard CacheLinbasex.init ops = true -> CacheLinbasex.all_safe CacheLinbasex.init ops = true.
Proof. exact CacheLinbasexProofs.fault_safe. Qed.
Print Assumptions C08_linbasex_fault_safe.

Theorem C08_rbasex_fault_safe : forall ops,
  CacheRbasex.no_hazard CacheRbasex.init ops = true -> CacheRbasex.all_safe CacheRbasex.init ops = true.
Proof. exact CacheRbasexInv.fault_safe. Qed.
Print Assumptions C08_rbasex_fault_safe.

Theorem C08_basex_fault_safe : forall ops,
  CacheBasex.no_hazard CacheBasex.init ops = true -> CacheBasex.all_safe CacheBasex.init ops = true.
Proof. exact CacheBasexProofs.fault_safe. Qed.
Print Assumptions C08_basex_fault_safe.

(* a file that changes on disk AFTER it was loaded (overwritten in place, same
   inode and length): the memory caches of the model are private copies, so a
   disk operation leaves them untouched; calls served from memory stay fresh
   and calls that return to the disk are covered by C08_daun_fault_safe.  That
   the implementation copies what it loads is what the overwrite histories of
   tools/props/C08.py test *)
Theorem C08_daun_disk_fault_keeps_memory : forall s d k c,
  let s' := fst (CacheDaun.step s (CacheDaun.Seed d k c)) in
  CacheDaun.bs s' = CacheDaun.bs s /\ CacheDaun.bs_prm s' = CacheDaun.bs_prm s /\
  CacheDaun.tr s' = CacheDaun.tr s /\ CacheDaun.tr_prm s' = CacheDaun.tr_prm s /\
  CacheDaun.gdir s' = CacheDaun.gdir s.
Proof. exact CacheDaunProofs.disk_fault_keeps_memory. Qed.
Print Assumptions C08_daun_disk_fault_keeps_memory.

Example C08_daun_overwritten_after_load_fresh :
  CacheDaun.no_hazard CacheDaun.init (CacheDaunProofs.ow_hist ++
     [CacheDaunProofs.ow_call; CacheDaunProofs.ow_small; CacheDaun.Cleanup true; CacheDaunProofs.ow_call]) = true /\
  CacheDaun.out_eqv (CacheDaun.last_result CacheDaunProofs.ow_hist CacheDaunProofs.ow_call)
                    (CacheDaun.fresh CacheDaunProofs.ow_call) = true /\
  CacheDaun.out_eqv (CacheDaun.last_result (CacheDaunProofs.ow_hist ++ [CacheDaunProofs.ow_call]) CacheDaunProofs.ow_small)
                    (CacheDaun.fresh CacheDaunProofs.ow_small) = true /\
  CacheDaun.out_eqv (CacheDaun.last_result (CacheDaunProofs.ow_hist ++
                        [CacheDaunProofs.ow_call; CacheDaunProofs.ow_small; CacheDaun.Cleanup true]) CacheDaunProofs.ow_call)
                    (CacheDaun.fresh CacheDaunProofs.ow_call) = true.
Proof. exact CacheDaunProofs.overwritten_after_load_fresh. Qed.

(* the histories of the former findings: after the damaged file made a call
   raise and was removed the next call is fresh; wrong-shape files are ignored *)
Example C08_former_findings :
  CacheDasch.out_eqv (CacheDasch.last_result CacheDaschProofs.poison_hist CacheDaschProofs.poison_call)
                     (CacheDasch.fresh CacheDaschProofs.poison_call) = true /\
  CacheLinbasex.out_eqv (CacheLinbasex.last_result CacheLinbasexProofs.poison_hist CacheLinbasexProofs.poison_call)
                        (CacheLinbasex.fresh CacheLinbasexProofs.poison_call) = true /\
  CacheRbasexProofs.agrees [CacheRbasex.Call CacheRbasexProofs.oddcall; CacheRbasex.Seed 1 CacheRbasexProofs.k44i (FBad PEOF);
                            CacheRbasex.Call (CacheRbasexProofs.o4call [CacheRbasexProofs.k44i]);
                            CacheRbasex.Remove 1 CacheRbasexProofs.k44i]
                           (CacheRbasex.Call (CacheRbasexProofs.o4call [])) = true /\
  CacheBasex.out_eqv (CacheBasex.last_result CacheBasexProofs.ws_hist CacheBasexProofs.ws_call)
                     (CacheBasex.fresh CacheBasexProofs.ws_call) = true /\
  CacheDaun.out_eqv (CacheDaun.last_result CacheDaunProofs.ws_hist CacheDaunProofs.ws_call)
                    (CacheDaun.fresh CacheDaunProofs.ws_call) = true.
Proof.
  split; [exact (proj2 CacheDaschProofs.failed_load_harmless)|].
  split; [exact CacheLinbasexProofs.failed_load_harmless|].
  split; [exact (proj2 CacheRbasexProofs.failed_load_harmless)|].
  split; [exact (proj1 CacheBasexProofs.wrong_shape_regenerated)|].
  exact (proj1 (proj2 CacheDaunProofs.wrong_shape_regenerated)).
Qed.
