(* C08 — A damaged or concurrently written basis file never changes a result.
   Only statements; proofs in proofs/NpyProofs.v, proofs/FileFaultsProofs.v,
   proofs/Cache*Proofs.v.  Models: base/Npy.v (byte-level .npy 1.0 codec as
   numpy.save / numpy.load implement it), model/FileFaults.v (files as byte
   lists, writers as sequences of write syscalls, interleavings, the try/except
   handlers of the five caching modules), model/Cache*.v (cache state machines
   with the order of global assignments relative to the raising points). *)
From Coq Require Import List NArith Arith Bool.
From PA Require Import base.Npy model.CacheCommon model.FileFaults
  proofs.NpyProofs proofs.FileFaultsProofs.
From PA Require model.CacheBasex model.CacheDaun model.CacheDasch model.CacheLinbasex model.CacheRbasex
  proofs.CacheBasexProofs proofs.CacheDaunProofs proofs.CacheDaschProofs proofs.CacheLinbasexProofs
  proofs.CacheRbasexProofs.
Import ListNotations.

(* ---- the codec ------------------------------------------------------------- *)
Theorem C08_parse_serialize : forall a, wf_arr a -> hlen (shape a) / 256 < 256 ->
  parse (serialize a) = POk a.
Proof. exact parse_serialize. Qed.
Print Assumptions C08_parse_serialize.

(* every crash point of a save — every proper prefix, including the empty
   file — is rejected by numpy.load: EOFError for 0 bytes, ValueError else *)
Theorem C08_truncation_detected : forall a k, wf_arr a -> hlen (shape a) / 256 < 256 ->
  k < length (serialize a) ->
  parse (firstn k (serialize a)) = PErr (if k =? 0 then PEOF else PValue).
Proof. exact truncation_detected. Qed.
Print Assumptions C08_truncation_detected.

Theorem C08_trailing_ignored : forall a extra, wf_arr a -> hlen (shape a) / 256 < 256 ->
  parse (serialize a ++ extra) = POk a.
Proof. exact parse_serialize_trailing. Qed.
Print Assumptions C08_trailing_ignored.

Example C08_hypotheses_satisfiable :
  wf_arr wit_arr /\ hlen (shape wit_arr) / 256 < 256 /\ 0 < length (serialize wit_arr).
Proof. vm_compute. repeat split; repeat constructor. Qed.

(* ---- handlers ---------------------------------------------------------------- *)
(* whatever does not parse (missing content, empty, truncated, garbage, zip
   prefix) never yields other numbers; basex / daun / rbasex repair the
   ValueError class by regenerating and re-saving, dasch / linbasex raise *)
Theorem C08_fault_outcome : forall m right fits unp f,
  is_err (parse f) = true ->
  load_outcome m right fits unp f <> Different /\
  (parse f = PErr PValue -> catches_value_error m = true ->
     load_outcome m right fits unp f = Fresh /\ resaved m f = true) /\
  (parse f <> PErr PValue \/ catches_value_error m = false ->
     load_outcome m right fits unp f = Exception /\ resaved m f = false).
Proof. exact fault_outcome. Qed.
Print Assumptions C08_fault_outcome.

Theorem C08_crash_point_outcome : forall m right fits unp a k,
  wf_arr a -> hlen (shape a) / 256 < 256 -> k < length (serialize a) ->
  load_outcome m right fits unp (firstn k (serialize a)) =
    (if k =? 0 then Exception else if catches_value_error m then Fresh else Exception).
Proof. exact crash_point_outcome. Qed.
Print Assumptions C08_crash_point_outcome.

Theorem C08_wrong_shape_outcome : forall m right fits unp f a,
  parse f = POk a -> right a = false -> fits a = false ->
  load_outcome m right fits unp f <> Different.
Proof. exact wrong_shape_outcome. Qed.
Print Assumptions C08_wrong_shape_outcome.

(* ---- concurrent writers -------------------------------------------------------- *)
Theorem C08_two_chunk_interleaving_safe : forall a, wf_arr a -> hlen (shape a) / 256 < 256 ->
  forall procs sched f,
    Forall (is_save a) procs -> In f (observed procs [] sched) -> safe_read a f.
Proof. intros a H1 H2. exact (two_chunk_interleaving_safe a H1 H2). Qed.
Print Assumptions C08_two_chunk_interleaving_safe.

(* sensitivity of the chunk-count assumption (not a finding: numpy.save issues
   two writes; the check measures this with strace on every run) *)
Theorem C08_three_chunk_interleaving_refuted :
  exists (a : arr) (k : nat) (sched : list nat) (f : file) (b : arr),
    wf_arr a /\ hlen (shape a) / 256 < 256 /\
    In f (observed [save_three a k; save_three a k] [] sched) /\
    parse f = POk b /\ b <> a.
Proof. exact three_chunk_interleaving_refuted. Qed.
Print Assumptions C08_three_chunk_interleaving_refuted.

(* ---- whole histories with damaged files: the cache state machines ---------------- *)
(* basex and daun: with any damaged files seeded anywhere in the history,
   every call returns the fresh result or raises — also AFTER a raising call,
   after the file was removed or re-saved (no hazard = no wrong-shape valid
   file, no unwritable directory; daun: no larger cubic basis on disk) *)
Theorem C08_basex_fault_safe : forall ops,
  CacheBasex.no_hazard CacheBasex.init ops = true -> CacheBasex.all_safe CacheBasex.init ops = true.
Proof. exact CacheBasexProofs.fault_safe. Qed.
Print Assumptions C08_basex_fault_safe.

Theorem C08_daun_fault_safe : forall ops,
  CacheDaun.no_hazard CacheDaun.init ops = true -> CacheDaun.all_safe CacheDaun.init ops = true.
Proof. exact CacheDaunProofs.fault_safe. Qed.
Print Assumptions C08_daun_fault_safe.

(* dasch and linbasex: safe up to and including the first call that raises *)
Theorem C08_dasch_fault_safe_partial : forall ops,
  CacheDasch.no_hazard CacheDasch.init ops = true ->
  CacheDasch.safe_until_raise CacheDasch.init ops = true.
Proof. exact CacheDaschProofs.fault_safe_until_raise. Qed.
Print Assumptions C08_dasch_fault_safe_partial.

Theorem C08_linbasex_fault_safe_partial : forall ops,
  CacheLinbasex.no_hazard CacheLinbasex.init ops = true ->
  CacheLinbasex.safe_until_raise CacheLinbasex.init ops = true.
Proof. exact CacheLinbasexProofs.fault_safe_until_raise. Qed.
Print Assumptions C08_linbasex_fault_safe_partial.

(* ... and not after it (findings): the key/method name is assigned before the
   unguarded np.load, so after the damaged file is removed the next call uses
   the OLD operator / basis for the NEW request *)
Theorem C08_dasch_after_fault_refuted :
  CacheDasch.no_hazard CacheDasch.init (CacheDaschProofs.poison_hist ++ [CacheDaschProofs.poison_call]) = true /\
  res_code (CacheDasch.last_result CacheDaschProofs.poison_hist CacheDaschProofs.poison_call) = 0 /\
  CacheDaschProofs.den_out (CacheDasch.last_result CacheDaschProofs.poison_hist CacheDaschProofs.poison_call)
    <> CacheDaschProofs.den_out (CacheDasch.fresh CacheDaschProofs.poison_call).
Proof. exact CacheDaschProofs.failed_load_poisons_refuted. Qed.
Print Assumptions C08_dasch_after_fault_refuted.

Theorem C08_linbasex_after_fault_refuted :
  CacheLinbasex.no_hazard CacheLinbasex.init CacheLinbasexProofs.poison_hist = true /\
  res_code (CacheLinbasex.last_result CacheLinbasexProofs.poison_hist CacheLinbasexProofs.poison_call) = 0 /\
  CacheLinbasexProofs.den_out (CacheLinbasex.last_result CacheLinbasexProofs.poison_hist CacheLinbasexProofs.poison_call)
    <> CacheLinbasexProofs.den_out (CacheLinbasex.fresh CacheLinbasexProofs.poison_call).
Proof. exact CacheLinbasexProofs.failed_load_poisons_refuted. Qed.
Print Assumptions C08_linbasex_after_fault_refuted.

(* rbasex: an empty file (EOFError is not caught) after _bs_prm was assigned *)
Theorem C08_rbasex_after_fault_refuted :
  res_code (CacheRbasex.last_result CacheRbasexProofs.fl_hist CacheRbasexProofs.fl_call) = 0 /\
  res_code (CacheRbasex.fresh CacheRbasexProofs.fl_call) = 0 /\
  CacheRbasex.out_eqv (CacheRbasex.last_result CacheRbasexProofs.fl_hist CacheRbasexProofs.fl_call)
                      (CacheRbasex.fresh CacheRbasexProofs.fl_call) = false.
Proof. exact (proj2 CacheRbasexProofs.failed_load_poisons_refuted). Qed.
Print Assumptions C08_rbasex_after_fault_refuted.

(* valid files of a wrong shape: basex (F8), daun and rbasex keep the junk in
   memory under the right key — the call keeps raising after the file is
   removed; linbasex uses the file without any check *)
Theorem C08_basex_wrong_shape_sticks_partial :
  res_code (CacheBasex.last_result CacheBasexProofs.ws_hist CacheBasexProofs.ws_call) = 1 /\
  res_code (CacheBasex.fresh CacheBasexProofs.ws_call) = 0.
Proof. exact CacheBasexProofs.wrong_shape_sticks. Qed.
Print Assumptions C08_basex_wrong_shape_sticks_partial.

Theorem C08_daun_wrong_shape_sticks_partial :
  res_code (CacheDaun.last_result CacheDaunProofs.ws_hist CacheDaunProofs.ws_call) = 1 /\
  res_code (CacheDaun.fresh CacheDaunProofs.ws_call) = 0.
Proof. exact CacheDaunProofs.wrong_shape_sticks. Qed.
Print Assumptions C08_daun_wrong_shape_sticks_partial.

Theorem C08_rbasex_wrong_shape_sticks_partial :
  0 <? res_code (CacheRbasex.last_result CacheRbasexProofs.ws_hist (CacheRbasexProofs.ws_call [])) = true /\
  res_code (CacheRbasex.fresh (CacheRbasexProofs.ws_call [])) = 0.
Proof. exact CacheRbasexProofs.wrong_shape_sticks. Qed.
Print Assumptions C08_rbasex_wrong_shape_sticks_partial.

Theorem C08_linbasex_wrong_shape_used_refuted :
  res_code (CacheLinbasex.last_result CacheLinbasexProofs.ws_hist CacheLinbasexProofs.ws_call) = 0 /\
  CacheLinbasexProofs.den_out (CacheLinbasex.last_result CacheLinbasexProofs.ws_hist CacheLinbasexProofs.ws_call)
    <> CacheLinbasexProofs.den_out (CacheLinbasex.fresh CacheLinbasexProofs.ws_call).
Proof. exact CacheLinbasexProofs.wrong_shape_used_refuted. Qed.
Print Assumptions C08_linbasex_wrong_shape_used_refuted.
