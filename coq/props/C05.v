(* C05 — abel.Transform = centre, symmetrise, transform each quadrant,
   reassemble.  Model: model/TransformPipe.v (abel/transform.py:462-573) on top
   of model/Symmetry.v; T is an arbitrary half-image transform. *)
From Coq Require Import List Arith Bool ZArith Reals.
From PA Require Import base.Arr base.Px model.Symmetry model.TransformPipe
  proofs.SymmetryProofs proofs.TransformPipeProofs proofs.C06R proofs.C05R.
Import ListNotations.

(* For symmetry_axis in {None, 0, 1, (0,1)} (and the other spellings of
   "both"), every use_quadrants mask and every half-image transform T, the
   pipeline (which transforms only the quadrants that symmetry leaves
   distinct) returns the reassembly of T applied to the four identically
   oriented, symmetrised quadrants -- or raises exactly when
   get_image_quadrants does. *)
Theorem C05_transform_is_four_quadrants :
  forall (T : list (list R) -> list (list R)) (n m : nat) (IM : list (list R)) (a : axis) (u : mask),
  wf n m IM -> (3 <= n)%nat -> (1 <= m)%nat -> In a pipe_axes -> mask_count u <> 0%nat ->
  modelR T a u Average IM = specR T a u Average IM.
Proof. exact R_transform_is_four_quadrants. Qed.
Print Assumptions C05_transform_is_four_quadrants.

(* The result has the shape of the (centred) input, for every shape with at
   least 3 rows and every parity. *)
Theorem C05_transform_shape :
  forall (T : list (list R) -> list (list R)) (n m : nat) (IM S : list (list R)) (a : axis) (u : mask),
  wf n m IM -> (3 <= n)%nat -> (1 <= m)%nat ->
  (forall X, wf (ceil2 n) (ceil2 m) X -> wf (ceil2 n) (ceil2 m) (T X)) ->
  In a pipe_axes -> mask_count u <> 0%nat ->
  modelR T a u Average IM = Ok S -> wf n m S.
Proof. exact R_transform_shape. Qed.
Print Assumptions C05_transform_shape.

(* Where quadrants overlap (odd sizes) the central column (j = m/2) is taken
   from the right-hand quadrants Q0/Q3 and the central row (i = n/2) from the
   lower ones Q2/Q3: pixel formula of the reassembly. *)
Theorem C05_assemble_pixels :
  forall (n m : nat) (Q0 Q1 Q2 Q3 : list (list R)) (i j : nat),
  wf (ceil2 n) (ceil2 m) Q0 -> wf (ceil2 n) (ceil2 m) Q1 ->
  wf (ceil2 n) (ceil2 m) Q2 -> wf (ceil2 n) (ceil2 m) Q3 ->
  (i < n)%nat -> (j < m)%nat ->
  px 0%R (put_quadrants (Q0, Q1, Q2, Q3) n m ax_None) i j =
    if (i <? n / 2)%nat
    then (if (j <? m / 2)%nat then px 0%R Q1 i (ceil2 m - 1 - j) else px 0%R Q0 i (j - m / 2))
    else (if (j <? m / 2)%nat then px 0%R Q2 (n - 1 - i) (ceil2 m - 1 - j)
          else px 0%R Q3 (n - 1 - i) (j - m / 2)).
Proof. exact R_assemble_pixels. Qed.
Print Assumptions C05_assemble_pixels.

(* symmetry_axis=[] or () behaves as None *)
Theorem C05_empty_axis_is_none :
  forall (T : list (list R) -> list (list R)) (IM : list (list R)) (u : mask) (meth : smethod) (b : bool),
  modelR T {| ax_tuple := b; ax_elems := [] |} u meth IM = modelR T ax_None u meth IM.
Proof. exact R_empty_axis_is_none. Qed.
Print Assumptions C05_empty_axis_is_none.

(* each row of a quadrant is transformed on its own by a row-wise method *)
Theorem C05_rowwise_rows : forall (f : list R -> list R) (X : list (list R)) (i : nat),
  (i < length X)%nat -> row (map f X) i = f (row X i).
Proof. exact (@rowwise_rows R). Qed.
Print Assumptions C05_rowwise_rows.

Example C05_hypotheses_satisfiable :
  wf 3 2 [[1; 2]; [3; 4]; [5; 6]]%R /\ (3 <= 3)%nat /\ (1 <= 2)%nat /\ In ax_0 pipe_axes
  /\ mask_count mask_all <> 0%nat.
Proof. exact R_pipe_hypotheses_satisfiable. Qed.
