(* C15 — Distribution representations agree and respect image symmetries.
   Only statements here; proofs in proofs/DistrReprProofs.v, proofs/C15R.v
   (and the folding specification of proofs/DistrGeomProofs.v).
   Models: model/DistrRepr.v (Results.cossin/harmonics/Ibeta),
   model/DistrGeom.v, model/DistrFit.v (abel/tools/vmi.py).

   cossinR / harmonicsR / IbetaR   the conversions applied to a (terms x radii)
                                   coefficient array, over the real numbers
   colmat c / matcol M             one radius: column vector <-> 1-column array *)
From Coq Require Import List Arith Bool ZArith Reals.
From Coq Require String.
From PA Require Import base.Arr base.Px base.MatL model.DistrGeom model.DistrFit model.DistrRepr
  proofs.VmiInvProofs proofs.DistrGeomProofs proofs.DistrFitProofs proofs.DistrReprProofs proofs.C15R proofs.C15Inv proofs.C15Scale proofs.C15Prefix gen.VmiIndex proofs.VmiIndexProofs.
Import ListNotations.

(* For every order 0..8 and both parities (18 cases, each decided by
   computation of the conversion matrix and a ring identity in the
   coefficients and x = cos(theta), sin^2 = 1 - x^2), the cos^n sin^m
   representation is the same function of the angle as the cos^n one. *)
Theorem C15_cossin_same_function : forall (order : nat) (odd : bool) (c : list R) (x : R),
  (order <= 8)%nat -> List.length c = nterms order odd ->
  eval_cossin order odd (matcol (cossinR order odd (colmat c))) x = eval_cos order odd c x.
Proof. exact cossin_same_function. Qed.
Print Assumptions C15_cossin_same_function.

(* ... and so is the Legendre (harmonics) representation; legP is defined by
   Bonnet's recursion, independently of the coefficient tables of the model. *)
Theorem C15_harmonics_same_function : forall (order : nat) (odd : bool) (c : list R) (x : R),
  (order <= 8)%nat -> List.length c = nterms order odd ->
  eval_harm order odd (matcol (harmonicsR order odd (colmat c))) x = eval_cos order odd c x.
Proof. exact harmonics_same_function. Qed.
Print Assumptions C15_harmonics_same_function.

(* I(r) = 4 pi r^2 P0(r), beta_n = P_n / P0 where P0 <> 0 (0 otherwise). *)
Theorem C15_Ibeta_def : forall order odd rs cn,
  let harm := harmonicsR order odd cn in
  IbetaR order odd 1 rs cn =
  map (fun p => (4 * PI * (fst p * fst p) * snd p)%R) (combine rs (hd [] harm))
  :: map (fun row => map (fun p => if Reqb (snd p) 0 then 0%R else (fst p / snd p)%R)
                         (combine row (hd [] harm))) (tl harm).
Proof. exact Ibeta_def. Qed.
Print Assumptions C15_Ibeta_def.

Theorem C15_beta_times_P0 : forall pn p0 : R, p0 <> 0%R ->
  ((if Reqb p0 0 then 0 else pn / p0) * p0 = pn)%R.
Proof. exact beta_times_P0. Qed.

(* window > 1: the same ratio between the centred moving averages. *)
Theorem C15_Ibeta_window : forall order odd window rs cn, (1 < window)%nat ->
  let harm := harmonicsR order odd cn in
  let avg := uniform_filter Rops IZR window in
  tl (IbetaR order odd window rs cn) =
  map (fun row => map (fun p => if Reqb (snd p) 0 then 0%R else (fst p / snd p)%R)
                      (combine row (avg (hd [] harm)))) (map avg (tl harm)).
Proof. exact Ibeta_window. Qed.
Print Assumptions C15_Ibeta_window.

(* Origin spellings: a negative index names the same pixel; every location
   string of the table resolves to the documented pixel. *)
Theorem C15_origin_negative : forall h w r c, (r < h)%nat -> (c < w)%nat ->
  let pos := resolve_origin h w (OTuple (Z.of_nat r) (Z.of_nat c)) in
  pos = Some (Z.of_nat r, Z.of_nat c) /\
  resolve_origin h w (OTuple (Z.of_nat r - Z.of_nat h) (Z.of_nat c)) = pos /\
  resolve_origin h w (OTuple (Z.of_nat r) (Z.of_nat c - Z.of_nat w)) = pos /\
  resolve_origin h w (OTuple (Z.of_nat r - Z.of_nat h) (Z.of_nat c - Z.of_nat w)) = pos.
Proof. exact origin_negative. Qed.
Print Assumptions C15_origin_negative.

Theorem C15_origin_strings :
  Forall (fun e => forall h w, resolve_origin h w (OStr (fst (fst e)))
                               = Some (vrow h (snd (fst e)), hcol w (snd e))) origin_table.
Proof. exact origin_strings. Qed.
Print Assumptions C15_origin_strings.

(* Mirroring image (and weights) and origin left-right leaves the folded
   quadrant -- hence every result -- unchanged, for every shape, origin and
   rmax, with even orders only and with odd orders. *)
Theorem C15_mirror_lr : forall h w row col rmax N (IM : list (list R)) a b,
  (row < h)%nat -> (col < w)%nat -> wf h w IM ->
  (let g := quad_geom h w row col rmax false N in
   let g' := quad_geom h w row (w - 1 - col) rmax false N in
   (a < g_Qh g)%nat -> (b < g_Qw g)%nat ->
   g_Qh g' = g_Qh g /\ g_Qw g' = g_Qw g /\
   px 0%R (fold_image 0%R Rplus g' (fliplr IM)) a b = px 0%R (fold_image 0%R Rplus g IM) a b) /\
  (let g := quad_geom h w row col rmax true N in
   let g' := quad_geom h w row (w - 1 - col) rmax true N in
   (a < g_Qh g)%nat -> (b < g_Qw g)%nat ->
   g_Qh g' = g_Qh g /\ g_Qw g' = g_Qw g /\ g_y0 g' = g_y0 g /\
   px 0%R (fold_image 0%R Rplus g' (fliplr IM)) a b = px 0%R (fold_image 0%R Rplus g IM) a b).
Proof.
  intros h w row col rmax N IM a b Hr Hc HIM. split.
  - exact (fold_mirror_lr_even h w row col rmax N IM a b Hr Hc HIM).
  - exact (fold_mirror_lr_odd h w row col rmax N IM a b Hr Hc HIM).
Qed.
Print Assumptions C15_mirror_lr.

(* Top-bottom mirroring of image, weights and origin (flipped_ud h w X X': X' is X
   with the rows reversed), on the executable model of Distributions(...).image().cos():
   with even orders only every result is unchanged (all radii); with odd orders
   present, at every radius whose normal (Hankel) matrix is non-singular the
   odd-order coefficients change sign and the even ones are unchanged (N <= 3
   angular terms, the branches with hand-written inverses). *)
Theorem C15_mirror_tb : forall h w row col rmax N, (row < h)%nat -> (col < w)%nat ->
  forall meth use_sin (W W' : option (list (list R))) (IM IM' : list (list R)),
  flipped_ud h w IM IM' -> flipped_ud_opt h w W W' ->
  distr_cos Rops sqrtR meth (quad_geom h w (h - 1 - row) col rmax false N) use_sin W' IM'
  = distr_cos Rops sqrtR meth (quad_geom h w row col rmax false N) use_sin W IM
  /\
  (forall r, N123 N -> (r <= rmax)%nat ->
     hdet N (distr_pixels Rops sqrtR meth (quad_geom h w row col rmax true N) use_sin W IM r) <> 0%R ->
     nth r (distr_cos Rops sqrtR meth (quad_geom h w (h - 1 - row) col rmax true N) use_sin W' IM') None
     = option_map flip_odd (nth r (distr_cos Rops sqrtR meth (quad_geom h w row col rmax true N) use_sin W IM) None)).
Proof. exact mirror_tb. Qed.
Print Assumptions C15_mirror_tb.

(* numpy's flipud gives such a pair *)
Theorem C15_flipud_is_flipped : forall h w (X : list (list R)), wf h w X -> flipped_ud h w X (flipud X).
Proof. exact flipud_flipped. Qed.

(* the folded quadrant itself (the statement the theorem above is built on) *)
Theorem C15_mirror_tb_fold : forall h w row col rmax N (IM : list (list R)) a b,
  (row < h)%nat -> (col < w)%nat -> wf h w IM ->
  let g := quad_geom h w row col rmax false N in
  let g' := quad_geom h w (h - 1 - row) col rmax false N in
  (a < g_Qh g)%nat -> (b < g_Qw g)%nat ->
  g_Qh g' = g_Qh g /\ g_Qw g' = g_Qw g /\
  px 0%R (fold_image 0%R Rplus g' (flipud IM)) a b = px 0%R (fold_image 0%R Rplus g IM) a b.
Proof. exact fold_mirror_tb_even. Qed.
Print Assumptions C15_mirror_tb_fold.

(* Multiplying all weights by a constant k <> 0 leaves the coefficients unchanged
   at every radius whose normal matrix is non-singular (both parities, nearest
   and linear, with or without sin weighting; N <= 3). *)
Theorem C15_weights_scale :
  forall h w row col rmax odd N meth use_sin (Wt IM : list (list R)) (k : R) r,
  (row < h)%nat -> (col < w)%nat -> wf h w Wt -> wf h w IM -> k <> 0%R -> N123 N -> (r <= rmax)%nat ->
  let g := quad_geom h w row col rmax odd N in
  hdet N (distr_pixels Rops sqrtR meth g use_sin (Some Wt) IM r) <> 0%R ->
  nth r (distr_cos Rops sqrtR meth g use_sin (Some (imap (Rmult k) Wt)) IM) None
  = nth r (distr_cos Rops sqrtR meth g use_sin (Some Wt) IM) None.
Proof. exact weights_scale. Qed.
Print Assumptions C15_weights_scale.

(* A larger rmax gives the same coefficients at the common radii: both methods,
   even orders only and with odd orders, every N, any weights or None, with or
   without sin weighting; no conditioning hypothesis (the pixel lists of a common
   radius are literally the same lists). *)
Theorem C15_rmax_prefix :
  forall h w row col r1 r2 odd N, (row < h)%nat -> (col < w)%nat -> (r1 <= r2)%nat ->
  forall meth use_sin (W : option (list (list R))) IM r, (r <= r1)%nat ->
  nth r (distr_cos Rops sqrtR meth (quad_geom h w row col r2 odd N) use_sin W IM) None
  = nth r (distr_cos Rops sqrtR meth (quad_geom h w row col r1 odd N) use_sin W IM) None.
Proof. exact rmax_prefix. Qed.
Print Assumptions C15_rmax_prefix.

(* Multiplying the image by a constant c (any sign, any magnitude): every cos^n
   coefficient is multiplied by c (all radii, every N, nearest and linear, sin
   on/off, weights or None), the harmonics are multiplied by c, and for c <> 0
   I(r) is multiplied by c while every beta_n is unchanged, for every window
   size (where P_0 = 0 the betas are 0 before and after). *)
Theorem C15_image_scale_cos :
  forall h w row col rmax odd N meth use_sin (W : option (list (list R))) (IM : list (list R)) (c : R),
  (row < h)%nat -> (col < w)%nat -> wf h w IM -> (forall Wt, W = Some Wt -> wf h w Wt) ->
  let g := quad_geom h w row col rmax odd N in
  distr_cos Rops sqrtR meth g use_sin W (imap (Rmult c) IM)
  = map (option_map (vscale c)) (distr_cos Rops sqrtR meth g use_sin W IM).
Proof. exact image_scale_cos. Qed.
Print Assumptions C15_image_scale_cos.

Theorem C15_harmonics_scale : forall order odd (c : R) (cn : list (list R)),
  harmonicsR order odd (mscaleR c cn) = mscaleR c (harmonicsR order odd cn).
Proof. exact harmonics_scale. Qed.
Print Assumptions C15_harmonics_scale.

Theorem C15_Ibeta_scale : forall order odd window rs (c : R) (cn : list (list R)), c <> 0%R ->
  IbetaR order odd window rs (mscaleR c cn)
  = match IbetaR order odd window rs cn with
    | Irow :: beta => vscale c Irow :: beta
    | [] => []
    end.
Proof. exact Ibeta_scale. Qed.
Print Assumptions C15_Ibeta_scale.

(* Results.orders / Results.sinpowers as translated from the current source
   (gen/VmiIndex.v, regenerated on every run) are the model's, for every order. *)
Theorem C15_orders_translated : forall order odd,
  gen_orders order odd = orders order odd /\ gen_sinpowers order odd = sinpowers order odd.
Proof. intros; split; [apply orders_translated|apply sinpowers_translated]. Qed.
Print Assumptions C15_orders_translated.

(* Changing pixels whose weight is zero changes no result. *)
Theorem C15_zero_weight_pixels_ignored : forall h w meth g use_sin (Wt IM IM' : list (list R)),
  wf h w Wt -> wf h w IM -> wf h w IM' ->
  (forall i j, (i < h)%nat -> (j < w)%nat -> px 0%R Wt i j <> 0%R -> px 0%R IM i j = px 0%R IM' i j) ->
  distr_cos Rops sqrtR meth g use_sin (Some Wt) IM = distr_cos Rops sqrtR meth g use_sin (Some Wt) IM'.
Proof. exact zero_weight_pixels_ignored. Qed.
Print Assumptions C15_zero_weight_pixels_ignored.

Example C15_legendre_are_the_usual_ones : forall x : R,
  legP 0 x = 1%R /\ legP 1 x = x /\ legP 2 x = ((3 * x * x - 1) / 2)%R.
Proof. exact legP_values. Qed.
