(* C20 — A request the library cannot honour fails loudly, never silently
   substituted.  Model: model/Dispatch.v (guards of abel.Transform and of the
   ten transform functions).  The request space all_requests is finite (315
   cells: {function, Transform} x 10 methods x 3 directions x (fine shape +
   the shape classes the property names for that method + the option values
   outside their documented sets that the method accepts)); every statement
   below is decided on all of it by computation and every cell is executed on
   the implementation on every run of the check. *)
From Coq Require Import List Bool.
From PA Require Import model.Dispatch proofs.DispatchProofs gen.DirGuards proofs.DirGuardsEq.
From PA Require Import model.OptNamesDoc gen.OptNames proofs.OptNamesEq.
Import ListNotations.

(* The direction guards of the model are those of the current source:
   gen/DirGuards.v is regenerated from the `if ... direction ...: raise`
   statements of the ten transform functions and of Transform._verify_some_inputs
   on every run (tools/translate/dir_guards.py). *)
Theorem C20_direction_guards_are_source : forall v m d,
  outcome_of {| r_via := v; r_meth := m; r_dir := d; r_shape := Fine; r_opt := NoOpt |} =
  if (match v with Fn => fn_dir_raises m d | Tr => tr_dir_raises m d end) then Raise else Performs m d.
Proof. exact model_dir_guards. Qed.
Print Assumptions C20_direction_guards_are_source.

(* The shape guards of the model are those of the current source: the
   `if <test on rows, cols>: raise` statements of the transform functions and
   the tests on self.IM in Transform._verify_some_inputs, evaluated by the
   translator on the dimensions of each shape class, decide Raise exactly where
   the model does (for the shape classes the request space contains). *)
Theorem C20_shape_guards_are_source :
  (forall m sh, shape_applies Fn m sh = true ->
     fn_shape_raises m sh = is_raise (fn_outcome m Inverse sh NoOpt))
  /\ (forall m d o sh, tr_shape_raises sh = true -> tr_outcome m d sh o = Raise)
  /\ (forall m sh, shape_applies Tr m sh = true -> tr_shape_raises sh = false ->
     is_raise (tr_outcome m Inverse sh NoOpt) = is_raise (fn_outcome m Inverse sh NoOpt)).
Proof. exact (conj fn_shape_guards_eq (conj model_tr_shape_guards model_tr_then_fn_shape)). Qed.
Print Assumptions C20_shape_guards_are_source.

(* The names the source accepts for every name-valued option are exactly the
   documented ones: gen/OptNames.v holds the literals each option is compared
   with (or the keys of the dictionary it is looked up in) in the function that
   interprets it, which must end with a `raise ValueError` reporting the option
   (tools/translate/opt_names.py fails on any other use of the option, e.g.
   .startswith).  So "a value outside the documented set" (the Bad* / *Reg* /
   RbasexOut / RbasexRmax / DaunDegree classes of the request space) is a value
   that matches none of the tests. *)
Theorem C20_option_names_are_source :
  src_crop_names = doc_crop_names /\
  src_symmetrize_names = doc_symmetrize_names /\
  src_daun_reg_types = doc_daun_reg_types /\
  src_daun_reg_strings = doc_daun_reg_strings /\
  src_daun_degrees = doc_daun_degrees /\
  src_rbasex_out_names = doc_rbasex_out_names /\
  src_rbasex_reg_types = doc_rbasex_reg_types /\
  src_rbasex_reg_strings = doc_rbasex_reg_strings /\
  src_rmax_names = doc_rmax_names /\
  src_origin_methods = doc_origin_methods /\
  src_transform_methods = doc_transform_methods.
Proof. exact opt_names_eq. Qed.
Print Assumptions C20_option_names_are_source.

Theorem C20_request_space : length all_requests = 315.
Proof. exact request_space_size. Qed.
Print Assumptions C20_request_space.

(* every request either raises or is answered with exactly the requested
   method and direction *)
Theorem C20_loud_or_honoured : forall r, In r all_requests ->
  outcome_of r = Raise \/ outcome_of r = Performs (r_meth r) (r_dir r).
Proof. exact loud_or_honoured. Qed.
Print Assumptions C20_loud_or_honoured.

(* unimplemented direction, unknown direction string, a shape violating a
   stated requirement, an option value outside its documented set, or no
   usable quadrants: the call raises *)
Theorem C20_cannot_honour_raises : forall r, In r all_requests ->
  must_raise r = true -> outcome_of r = Raise.
Proof. exact cannot_honour_raises. Qed.
Print Assumptions C20_cannot_honour_raises.

(* and otherwise the request is honoured (the model is not "always raise") *)
Theorem C20_can_honour_performs : forall r, In r all_requests ->
  must_raise r = false -> outcome_of r = Performs (r_meth r) (r_dir r).
Proof. exact can_honour_performs. Qed.
Print Assumptions C20_can_honour_performs.

(* a request for a forward transform is never answered with an inverse one *)
Theorem C20_forward_never_inverse : forall r, In r all_requests -> r_dir r = Forward ->
  forall m, outcome_of r <> Performs m Inverse.
Proof. exact forward_never_inverse. Qed.
Print Assumptions C20_forward_never_inverse.

Example C20_some_request_is_honoured :
  In {| r_via := Tr; r_meth := Hansenlaw; r_dir := Forward; r_shape := Fine; r_opt := NoOpt |} all_requests
  /\ must_raise {| r_via := Tr; r_meth := Hansenlaw; r_dir := Forward; r_shape := Fine; r_opt := NoOpt |} = false.
Proof. exact some_request_is_honoured. Qed.
