(* C07 — Results never depend on basis-cache history (memory or disk).
   Only statements; proofs in proofs/Cache*Proofs.v, proofs/BasisDirProofs.v,
   proofs/TriangularCrop.v.  Models: model/Cache{Basex,Daun,Dasch,Linbasex,
   Rbasex}.v (one state machine per caching module: module globals + basis
   directories; symbolic contents whose semantic reading `den_*` is given in
   the proofs files), model/BasisDir.v, model/CacheCommon.v.

   `no_hazard init ops` says that the history never takes one of the
   enumerated defective program paths (each of them is a recorded finding with
   its own refutation theorem below) and that pre-seeded files are what a
   correct save of their name would have written; `no_damage ops` that no
   damaged file is seeded (that case is C08).  `all_agree init ops` says that
   EVERY call of the history returns the same ideal numbers as the same call
   in a fresh process with empty basis directories.  Histories are arbitrary
   finite lists of calls (all parameters), cache_cleanup(select),
   basis_dir_cleanup, set_basis_dir, appearing and disappearing files. *)
From Coq Require Import List Arith Bool.
From PA Require Import base.Npy model.CacheCommon model.BasisDir proofs.BasisDirProofs.
From PA Require model.CacheBasex model.CacheDaun model.CacheDasch model.CacheLinbasex model.CacheRbasex
  proofs.CacheBasexProofs proofs.CacheDaunProofs proofs.CacheDaschProofs proofs.CacheLinbasexProofs
  proofs.CacheRbasexProofs proofs.CacheRbasexInv proofs.TriangularCrop.
Import ListNotations.

(* ---- basex: holds for every history --------------------------------------------- *)
Theorem C07_basex_history_independent : forall ops,
  CacheBasex.no_hazard CacheBasex.init ops = true -> CacheBasex.no_damage ops = true ->
  CacheBasex.all_agree CacheBasex.init ops = true.
Proof. exact CacheBasexProofs.history_independent. Qed.
Print Assumptions C07_basex_history_independent.

(* the executable agreement test means equality of the ideal numbers *)
Theorem C07_basex_agree_sound : forall a b,
  CacheBasex.out_eqv a b = true -> CacheBasexProofs.den_out a = CacheBasexProofs.den_out b.
Proof. exact CacheBasexProofs.out_eqv_sound. Qed.

Theorem C07_basex_crop_law : forall n N sig, n <= N ->
  CacheBasexProofs.den_x (CacheBasex.crop n (CacheBasex.ideal N sig)) = CacheBasexProofs.den_x (CacheBasex.ideal n sig).
Proof. exact CacheBasexProofs.crop_law. Qed.

(* ---- the three Dasch methods ---------------------------------------------------------- *)
Theorem C07_dasch_history_independent : forall ops,
  CacheDasch.no_hazard CacheDasch.init ops = true -> CacheDasch.no_damage ops = true ->
  CacheDasch.all_agree CacheDasch.init ops = true.
Proof. exact CacheDaschProofs.history_independent. Qed.
Print Assumptions C07_dasch_history_independent.

Theorem C07_dasch_agree_sound : forall a b,
  CacheDasch.out_eqv a b = true -> CacheDaschProofs.den_out a = CacheDaschProofs.den_out b.
Proof. exact CacheDaschProofs.out_eqv_sound. Qed.

(* cropping the inverse of a triangular matrix = inverting the cropped matrix
   (why onion_peeling's inv(W) and the rbasex inverse matrices may be cropped) *)
Theorem C07_leading_block_inverse : TriangularCrop.leading_block_inverse_statement.
Proof. exact TriangularCrop.leading_block_inverse_all. Qed.
Print TriangularCrop.leading_block_inverse_statement.
Print Assumptions C07_leading_block_inverse.

(* ---- daun ------------------------------------------------------------------------------------ *)
Theorem C07_daun_history_independent : forall ops,
  CacheDaun.no_hazard CacheDaun.init ops = true -> CacheDaun.no_damage ops = true ->
  CacheDaun.all_agree CacheDaun.init ops = true.
Proof. exact CacheDaunProofs.history_independent. Qed.
Print Assumptions C07_daun_history_independent.

Theorem C07_daun_agree_sound : forall a b,
  CacheDaun.out_eqv a b = true -> CacheDaunProofs.den_out a = CacheDaunProofs.den_out b.
Proof. exact CacheDaunProofs.out_eqv_sound. Qed.

(* cache_cleanup only changes speed *)
Theorem C07_daun_cleanup_only_speed : forall ops1 ops2 c all,
  CacheDaun.is_call c = true ->
  CacheDaun.no_hazard CacheDaun.init (ops1 ++ ops2 ++ [c]) = true ->
  CacheDaun.no_damage (ops1 ++ ops2 ++ [c]) = true ->
  CacheDaun.no_hazard CacheDaun.init (ops1 ++ CacheDaun.Cleanup all :: ops2 ++ [c]) = true ->
  CacheDaunProofs.den_out (CacheDaun.last_result (ops1 ++ ops2) c) =
  CacheDaunProofs.den_out (CacheDaun.last_result (ops1 ++ CacheDaun.Cleanup all :: ops2) c).
Proof. exact CacheDaunProofs.cleanup_only_speed. Qed.
Print Assumptions C07_daun_cleanup_only_speed.

(* degree 0..2: a cropped larger basis is the smaller basis; degree 3: it is not *)
Theorem C07_daun_crop_law : forall n N deg, deg < 3 -> n <= N ->
  CacheDaunProofs.den_b (CacheDaun.crop n (CacheDaun.ideal N deg)) = CacheDaunProofs.den_b (CacheDaun.ideal n deg).
Proof. exact CacheDaunProofs.crop_law. Qed.

Theorem C07_daun_crop_law3_fails : forall n N, n < N ->
  CacheDaunProofs.den_b (CacheDaun.crop n (CacheDaun.ideal N 3)) <> CacheDaunProofs.den_b (CacheDaun.ideal n 3).
Proof. exact CacheDaunProofs.crop_law3_fails. Qed.

(* finding F3: [Call(n=20, degree 3, dir); cache_cleanup; Call(n=12, degree 3, dir)] *)
Theorem C07_daun3_disk_crop_refuted :
  res_code (CacheDaun.last_result CacheDaunProofs.d3_hist CacheDaunProofs.d3_call) = 0 /\
  CacheDaunProofs.den_out (CacheDaun.last_result CacheDaunProofs.d3_hist CacheDaunProofs.d3_call)
    <> CacheDaunProofs.den_out (CacheDaun.fresh CacheDaunProofs.d3_call).
Proof. exact CacheDaunProofs.daun3_disk_crop_refuted. Qed.
Print Assumptions C07_daun3_disk_crop_refuted.

(* finding: a failing save (unwritable basis_dir) leaves _bs without _bs_prm *)
Theorem C07_daun_failed_save_poisons_refuted :
  res_code (CacheDaun.last_result CacheDaunProofs.fs_hist CacheDaunProofs.fs_call) = 0 /\
  CacheDaunProofs.den_out (CacheDaun.last_result CacheDaunProofs.fs_hist CacheDaunProofs.fs_call)
    <> CacheDaunProofs.den_out (CacheDaun.fresh CacheDaunProofs.fs_call).
Proof. exact CacheDaunProofs.failed_save_poisons_refuted. Qed.
Print Assumptions C07_daun_failed_save_poisons_refuted.

(* ---- linbasex: holds when no two parameter sets share a key ---------------------------------------- *)
Theorem C07_linbasex_history_independent_partial : forall ops,
  CacheLinbasex.no_hazard CacheLinbasex.init ops = true -> CacheLinbasex.no_damage ops = true ->
  CacheLinbasex.all_agree CacheLinbasex.init ops = true.
Proof. exact CacheLinbasexProofs.history_independent_partial. Qed.
Print Assumptions C07_linbasex_history_independent_partial.

(* finding F4 *)
Theorem C07_linbasex_angle_key_collision_refuted :
  CacheLinbasex.key_of [0; 2] [0; 201] 1 0 = CacheLinbasex.key_of [0; 2] [0; 202] 1 0 /\
  res_code (CacheLinbasex.last_result CacheLinbasexProofs.ang_hist CacheLinbasexProofs.ang_call) = 0 /\
  CacheLinbasexProofs.den_out (CacheLinbasex.last_result CacheLinbasexProofs.ang_hist CacheLinbasexProofs.ang_call)
    <> CacheLinbasexProofs.den_out (CacheLinbasex.fresh CacheLinbasexProofs.ang_call).
Proof. exact CacheLinbasexProofs.angle_key_collision_refuted. Qed.
Print Assumptions C07_linbasex_angle_key_collision_refuted.

Theorem C07_linbasex_order_key_collision_refuted :
  CacheLinbasex.key_of [1; 2] [0; 202] 1 0 = CacheLinbasex.key_of [12] [0; 202] 1 0 /\
  CacheLinbasex.out_eqv (CacheLinbasex.last_result CacheLinbasexProofs.ord_hist CacheLinbasexProofs.ord_call)
                        (CacheLinbasex.fresh CacheLinbasexProofs.ord_call) = false.
Proof. exact CacheLinbasexProofs.order_key_collision_refuted. Qed.
Print Assumptions C07_linbasex_order_key_collision_refuted.

(* ---- rbasex: holds with the recorded defective paths excluded ------------------------------------------ *)
(* hazards (model/CacheRbasex.v `hazard`): a call whose Distributions raises,
   an invalid reg, an unwritable basis_dir, reuse of the cached Distributions
   object after the weights changed in place, direct calls of the accessor
   get_bs_cached;
   each has its refutation theorem below.  The quantities computed by
   abel.tools.vmi.Distributions (rmax, valid mask, output geometry) are inputs
   of the model, assumed to be functions of (parameters, weights content). *)
Theorem C07_rbasex_history_independent_partial : forall ops,
  CacheRbasex.no_hazard CacheRbasex.init ops = true -> CacheRbasex.no_damage ops = true ->
  CacheRbasex.all_agree CacheRbasex.init ops = true.
Proof. exact CacheRbasexInv.history_independent_partial. Qed.
Print Assumptions C07_rbasex_history_independent_partial.

(* ---- rbasex: the findings --------------------------------------------------------------------------------- *)
(* F5 is fixed in /repo (image basis keyed by its geometry): the former
   refutation is now an instance of the positive theorem *)
Example C07_rbasex_ibs_keyed :
  CacheRbasex.out_eqv (CacheRbasex.last_result CacheRbasexProofs.ibs_hist CacheRbasexProofs.ibs_call)
                      (CacheRbasex.fresh CacheRbasexProofs.ibs_call) = true.
Proof. exact CacheRbasexProofs.ibs_keyed. Qed.

(* F6 *)
Theorem C07_rbasex_weights_identity_refuted :
  res_code (CacheRbasex.last_result CacheRbasexProofs.w_hist CacheRbasexProofs.w_call) = 0 /\
  res_code (CacheRbasex.fresh CacheRbasexProofs.w_call) = 0 /\
  CacheRbasex.out_eqv (CacheRbasex.last_result CacheRbasexProofs.w_hist CacheRbasexProofs.w_call)
                      (CacheRbasex.fresh CacheRbasexProofs.w_call) = false.
Proof. exact CacheRbasexProofs.weights_identity_refuted. Qed.
Print Assumptions C07_rbasex_weights_identity_refuted.

(* F17 *)
Theorem C07_rbasex_failed_call_poisons_refuted :
  res_code (CacheRbasex.last_result CacheRbasexProofs.fc_hist CacheRbasexProofs.fc_call) = exc_code EAttr /\
  res_code (CacheRbasex.fresh CacheRbasexProofs.fc_call) = 0.
Proof. exact CacheRbasexProofs.failed_call_poisons_refuted. Qed.
Print Assumptions C07_rbasex_failed_call_poisons_refuted.

Theorem C07_rbasex_invalid_reg_twice_refuted :
  res_code (CacheRbasex.last_result CacheRbasexProofs.rg_hist CacheRbasexProofs.rg_call) = 0 /\
  res_code (CacheRbasex.fresh CacheRbasexProofs.rg_call) = exc_code EValue.
Proof. exact CacheRbasexProofs.invalid_reg_twice_refuted. Qed.
Print Assumptions C07_rbasex_invalid_reg_twice_refuted.

(* _trf / _tri not keyed by the valid mask (public accessor get_bs_cached) *)
Theorem C07_rbasex_accessor_mask_refuted :
  res_code (CacheRbasex.last_result [CacheRbasex.Call CacheRbasexProofs.acc_call7] CacheRbasexProofs.acc_get) = 0 /\
  res_code (CacheRbasex.fresh CacheRbasexProofs.acc_get) = 0 /\
  CacheRbasex.out_eqv (CacheRbasex.last_result [CacheRbasex.Call CacheRbasexProofs.acc_call7] CacheRbasexProofs.acc_get)
                      (CacheRbasex.fresh CacheRbasexProofs.acc_get) = false.
Proof. exact CacheRbasexProofs.accessor_mask_refuted. Qed.
Print Assumptions C07_rbasex_accessor_mask_refuted.

Theorem C07_rbasex_accessor_poisons_transform_refuted :
  res_code (CacheRbasex.last_result CacheRbasexProofs.acc_hist (CacheRbasex.Call CacheRbasexProofs.acc_callok)) = 0 /\
  CacheRbasex.out_eqv (CacheRbasex.last_result CacheRbasexProofs.acc_hist (CacheRbasex.Call CacheRbasexProofs.acc_callok))
                      (CacheRbasex.fresh (CacheRbasex.Call CacheRbasexProofs.acc_callok)) = false.
Proof. exact CacheRbasexProofs.accessor_poisons_transform_refuted. Qed.
Print Assumptions C07_rbasex_accessor_poisons_transform_refuted.

(* ---- basis-directory helpers ------------------------------------------------------------------------------------ *)
Theorem C07_basis_dir_resolution : forall a,
  get_basis_dir (set_basis_dir a) =
    (set_basis_dir a, match a with BNone => None | BDefault => Some 0 | BPath d => Some d end) /\
  get_basis_dir GUnset = (GPath 0, Some 0).
Proof. exact basis_dir_resolution. Qed.
Print Assumptions C07_basis_dir_resolution.

Theorem C07_resolve_after_sets : forall (l : list bdarg) a,
  let g := fold_left (fun _ x => set_basis_dir x) (l ++ [a]) GUnset in
  g = set_basis_dir a /\
  snd (resolve g BDefault) = match a with BNone => None | BDefault => Some 0 | BPath d => Some d end /\
  snd (resolve g BNone) = None /\ forall d, snd (resolve g (BPath d)) = Some d.
Proof. exact resolve_after_sets. Qed.

(* basis_dir_cleanup removes exactly the named method's files *)
Theorem C07_basis_dir_cleanup_exact : forall m m' params,
  In m METHODS -> In m' METHODS ->
  (m <> m' -> cleanup_matches m (file_name m' params) = false) /\
  cleanup_matches m (file_name m params) = true.
Proof. intros m m' params H H'. split; [exact (cleanup_spares_others m m' params H H')|exact (cleanup_takes_own m params)]. Qed.
Print Assumptions C07_basis_dir_cleanup_exact.

(* the hypotheses are satisfiable by non-trivial histories *)
Example C07_hypotheses_satisfiable :
  CacheDaun.no_hazard CacheDaun.init
    [CacheDaun.Call 12 2 CacheDaun.RDiff 1 false (BPath 1) 0; CacheDaun.Cleanup true;
     CacheDaun.Seed 2 (14, 1) (FGood (CacheDaun.ideal 14 1));
     CacheDaun.Call 9 2 CacheDaun.RNone 0 true (BPath 1) 12; CacheDaun.Call 8 1 CacheDaun.RL2 2 false (BPath 2) 14] = true /\
  CacheBasex.no_hazard CacheBasex.init
    [CacheBasex.Call 12 0 0 true 0 false (BPath 1); CacheBasex.Cleanup CacheBasex.CAll;
     CacheBasex.Call 8 0 1 false 1 true (BPath 1); CacheBasex.Call 14 0 0 true 0 false BDefault] = true.
Proof. split; vm_compute; reflexivity. Qed.
