(* C07 — Results never depend on basis-cache history (memory or disk).
   Only statements; proofs in proofs/Cache*Proofs.v, proofs/CacheRbasexInv.v,
   proofs/BasisDirProofs.v, proofs/TriangularCrop.v.  Models: model/Cache{Basex,
   Daun,Dasch,Linbasex,Rbasex}.v (one state machine per caching module: module
   globals + basis directories; symbolic contents whose semantic reading
   `den_*` is given in the proofs files), model/BasisDir.v, model/CacheCommon.v
   — all describing the code AFTER the fixes cbc57b0 .. 2e99c37, 8cabaad, 6203711.

   `no_hazard init ops` now only states assumptions about the environment:
   basis directories are writable, good files found on disk are what a save of
   their name writes (damaged and wrong-shape files may be there), parameters
   are in the modelled domain (daun degree 0..3), and — rbasex — the
   quantities computed by abel.tools.vmi.Distributions are functions of
   (parameters, weights content).  No exclusion that is a defect is left.
   `no_damage ops`: no damaged file is seeded (that case is C08).
   `all_agree init ops`: EVERY call of the history returns the same ideal
   numbers (or raises the same exception class) as the same call in a fresh
   process with empty basis directories.  Histories are arbitrary finite lists
   of calls (all parameters, valid or not), cache_cleanup(select),
   basis_dir_cleanup, set_basis_dir, appearing and disappearing files, and for
   rbasex direct calls of the public accessor get_bs_cached. *)
From Coq Require Import List Arith Bool.
From PA Require Import base.Npy model.CacheCommon model.BasisDir proofs.BasisDirProofs.
From PA Require model.CacheBasex model.CacheDaun model.CacheDasch model.CacheLinbasex model.CacheRbasex
  proofs.CacheBasexProofs proofs.CacheDaunProofs proofs.CacheDaschProofs proofs.CacheLinbasexProofs
  proofs.CacheRbasexProofs proofs.CacheRbasexInv proofs.TriangularCrop.
Import ListNotations.

(* ---- basex ------------------------------------------------------------------------ *)
Theorem C07_basex_history_independent : forall ops,
  CacheBasex.no_hazard CacheBasex.init ops = true -> CacheBasex.no_damage ops = true ->
  CacheBasex.all_agree CacheBasex.init ops = true.
Proof. exact CacheBasexProofs.history_independent. Qed.
Print Assumptions C07_basex_history_independent.

(* the executable agreement test means equality of the ideal numbers *)
Theorem C07_basex_agree_sound : forall a b,
  CacheBasex.out_eqv a b = true -> CacheBasexProofs.den_out a = CacheBasexProofs.den_out b.
Proof. exact CacheBasexProofs.out_eqv_sound. Qed.

Theorem C07_basex_crop_law : forall n N sig, n <= N ->
  CacheBasexProofs.den_x (CacheBasex.crop n (CacheBasex.ideal N sig)) = CacheBasexProofs.den_x (CacheBasex.ideal n sig).
Proof. exact CacheBasexProofs.crop_law. Qed.

(* ---- the three Dasch methods ---------------------------------------------------------- *)
Theorem C07_dasch_history_independent : forall ops,
  CacheDasch.no_hazard CacheDasch.init ops = true -> CacheDasch.no_damage ops = true ->
  CacheDasch.all_agree CacheDasch.init ops = true.
Proof. exact CacheDaschProofs.history_independent. Qed.
Print Assumptions C07_dasch_history_independent.

Theorem C07_dasch_agree_sound : forall a b,
  CacheDasch.out_eqv a b = true -> CacheDaschProofs.den_out a = CacheDaschProofs.den_out b.
Proof. exact CacheDaschProofs.out_eqv_sound. Qed.

(* cropping the inverse of a triangular matrix = inverting the cropped matrix
   (why onion_peeling's inv(W) and the rbasex inverse matrices may be cropped) *)
Theorem C07_leading_block_inverse : TriangularCrop.leading_block_inverse_statement.
Proof. exact TriangularCrop.leading_block_inverse_all. Qed.
Print TriangularCrop.leading_block_inverse_statement.
Print Assumptions C07_leading_block_inverse.

(* ---- daun: all degrees 0..3 ------------------------------------------------------------------ *)
Theorem C07_daun_history_independent : forall ops,
  CacheDaun.no_hazard CacheDaun.init ops = true -> CacheDaun.no_damage ops = true ->
  CacheDaun.all_agree CacheDaun.init ops = true.
Proof. exact CacheDaunProofs.history_independent. Qed.
Print Assumptions C07_daun_history_independent.

Theorem C07_daun_agree_sound : forall a b,
  CacheDaun.out_eqv a b = true -> CacheDaunProofs.den_out a = CacheDaunProofs.den_out b.
Proof. exact CacheDaunProofs.out_eqv_sound. Qed.

(* cache_cleanup only changes speed *)
Theorem C07_daun_cleanup_only_speed : forall ops1 ops2 c all,
  CacheDaun.is_call c = true ->
  CacheDaun.no_hazard CacheDaun.init (ops1 ++ ops2 ++ [c]) = true ->
  CacheDaun.no_damage (ops1 ++ ops2 ++ [c]) = true ->
  CacheDaun.no_hazard CacheDaun.init (ops1 ++ CacheDaun.Cleanup all :: ops2 ++ [c]) = true ->
  CacheDaunProofs.den_out (CacheDaun.last_result (ops1 ++ ops2) c) =
  CacheDaunProofs.den_out (CacheDaun.last_result (ops1 ++ CacheDaun.Cleanup all :: ops2) c).
Proof. exact CacheDaunProofs.cleanup_only_speed. Qed.
Print Assumptions C07_daun_cleanup_only_speed.

(* degree 0..2: a cropped larger basis is the smaller basis; degree 3: it is
   not — which is why the code must not (and, since cbc57b0, does not) crop it *)
Theorem C07_daun_crop_law : forall n N deg, deg < 3 -> n <= N ->
  CacheDaunProofs.den_b (CacheDaun.crop n (CacheDaun.ideal N deg)) = CacheDaunProofs.den_b (CacheDaun.ideal n deg).
Proof. exact CacheDaunProofs.crop_law. Qed.

Theorem C07_daun_crop_law3_fails : forall n N, n < N ->
  CacheDaunProofs.den_b (CacheDaun.crop n (CacheDaun.ideal N 3)) <> CacheDaunProofs.den_b (CacheDaun.ideal n 3).
Proof. exact CacheDaunProofs.crop_law3_fails. Qed.

(* the histories of the former findings F3 / failed save now agree *)
Example C07_daun_former_findings :
  CacheDaun.out_eqv (CacheDaun.last_result CacheDaunProofs.d3_hist CacheDaunProofs.d3_call)
                    (CacheDaun.fresh CacheDaunProofs.d3_call) = true /\
  CacheDaun.out_eqv (CacheDaun.last_result CacheDaunProofs.fs_hist CacheDaunProofs.fs_call)
                    (CacheDaun.fresh CacheDaunProofs.fs_call) = true.
Proof. split; [exact (proj2 CacheDaunProofs.daun3_no_disk_crop)|exact (proj2 CacheDaunProofs.failed_save_harmless)]. Qed.

(* ---- linbasex ------------------------------------------------------------------------------------ *)
Theorem C07_linbasex_history_independent : forall ops,
  CacheLinbasex.no_hazard CacheLinbasex.init ops = true -> CacheLinbasex.no_damage ops = true ->
  CacheLinbasex.all_agree CacheLinbasex.init ops = true.
Proof. exact CacheLinbasexProofs.history_independent. Qed.
Print Assumptions C07_linbasex_history_independent.

(* the former size-test finding (fixed in 8cabaad) *)
Example C07_linbasex_size_test_fixed :
  CacheLinbasex.out_eqv
    (CacheLinbasex.last_result [CacheLinbasex.Call 3 CacheLinbasexProofs.five CacheLinbasexProofs.six 1 0 BNone]
                               (CacheLinbasex.Call 9 CacheLinbasexProofs.five CacheLinbasexProofs.six 1 0 BNone))
    (CacheLinbasex.fresh (CacheLinbasex.Call 9 CacheLinbasexProofs.five CacheLinbasexProofs.six 1 0 BNone)) = true.
Proof. exact CacheLinbasexProofs.size_test_fixed. Qed.

(* the former key collisions (F4) are gone *)
Example C07_linbasex_former_findings :
  CacheLinbasex.out_eqv (CacheLinbasex.last_result [CacheLinbasex.Call 11 [0; 2] [0; 201] 1 0 BNone]
                                                   (CacheLinbasex.Call 11 [0; 2] [0; 202] 1 0 BNone))
                        (CacheLinbasex.fresh (CacheLinbasex.Call 11 [0; 2] [0; 202] 1 0 BNone)) = true /\
  CacheLinbasex.out_eqv (CacheLinbasex.last_result [CacheLinbasex.Call 11 [1; 2] [0; 202] 1 0 (BPath 1); CacheLinbasex.Cleanup]
                                                   (CacheLinbasex.Call 11 [12] [0; 202] 1 0 (BPath 1)))
                        (CacheLinbasex.fresh (CacheLinbasex.Call 11 [12] [0; 202] 1 0 (BPath 1))) = true.
Proof. split; [exact CacheLinbasexProofs.angle_keys_distinct|exact CacheLinbasexProofs.order_keys_distinct]. Qed.

(* ---- rbasex: transforms with any parameters and the accessor get_bs_cached -------------------------- *)
Theorem C07_rbasex_history_independent : forall ops,
  CacheRbasex.no_hazard CacheRbasex.init ops = true -> CacheRbasex.no_damage ops = true ->
  CacheRbasex.all_agree CacheRbasex.init ops = true.
Proof. exact CacheRbasexInv.history_independent. Qed.
Print Assumptions C07_rbasex_history_independent.

(* the histories of the former findings F5, F6, F17, invalid reg, valid key *)
Example C07_rbasex_former_findings :
  CacheRbasexProofs.agrees [CacheRbasex.Call (CacheRbasexProofs.mkcall 1 0 0 0 0 false (Some (5, 5, 0)) BNone)]
                           (CacheRbasex.Call (CacheRbasexProofs.mkcall 1 0 0 0 0 false (Some (6, 6, 0)) BNone)) = true /\
  CacheRbasexProofs.agrees [CacheRbasex.Call (CacheRbasexProofs.mkcall 2 1 100 0 0 false None BNone)]
                           (CacheRbasex.Call (CacheRbasexProofs.mkcall 2 1 101 0 0 false None BNone)) = true /\
  CacheRbasexProofs.agrees [CacheRbasex.Call (CacheRbasexProofs.mkcall 3 0 0 2 0 false None BNone)]
                           (CacheRbasex.Call (CacheRbasexProofs.mkcall 1 0 0 0 0 false None BNone)) = true /\
  CacheRbasexProofs.agrees [CacheRbasex.Call CacheRbasexProofs.call7] (CacheRbasex.GetBs 4 2 false false 0 1000 BNone []) = true.
Proof.
  split; [exact CacheRbasexProofs.ibs_keyed|]. split; [exact CacheRbasexProofs.weights_by_content|].
  split; [exact (proj1 (proj2 CacheRbasexProofs.failed_call_harmless))|exact (proj1 CacheRbasexProofs.accessor_keyed_by_mask)].
Qed.

(* ---- basis-directory helpers ------------------------------------------------------------------------------------ *)
Theorem C07_basis_dir_resolution : forall a,
  get_basis_dir (set_basis_dir a) =
    (set_basis_dir a, match a with BNone => None | BDefault => Some 0 | BPath d => Some d end) /\
  get_basis_dir GUnset = (GPath 0, Some 0).
Proof. exact basis_dir_resolution. Qed.
Print Assumptions C07_basis_dir_resolution.

Theorem C07_resolve_after_sets : forall (l : list bdarg) a,
  let g := fold_left (fun _ x => set_basis_dir x) (l ++ [a]) GUnset in
  g = set_basis_dir a /\
  snd (resolve g BDefault) = match a with BNone => None | BDefault => Some 0 | BPath d => Some d end /\
  snd (resolve g BNone) = None /\ forall d, snd (resolve g (BPath d)) = Some d.
Proof. exact resolve_after_sets. Qed.

(* basis_dir_cleanup removes exactly the named method's files *)
Theorem C07_basis_dir_cleanup_exact : forall m m' params,
  In m METHODS -> In m' METHODS ->
  (m <> m' -> cleanup_matches m (file_name m' params) = false) /\
  cleanup_matches m (file_name m params) = true.
Proof. intros m m' params H H'. split; [exact (cleanup_spares_others m m' params H H')|exact (cleanup_takes_own m params)]. Qed.
Print Assumptions C07_basis_dir_cleanup_exact.

(* the hypotheses are satisfiable by non-trivial histories *)
Example C07_hypotheses_satisfiable :
  CacheDaun.no_hazard CacheDaun.init
    [CacheDaun.Call 12 3 CacheDaun.RDiff 1 false (BPath 1); CacheDaun.Cleanup true;
     CacheDaun.Seed 2 (14, 1) (FGood (CacheDaun.ideal 14 1));
     CacheDaun.Call 9 3 CacheDaun.RNone 0 true (BPath 1); CacheDaun.Call 8 1 CacheDaun.RL2 2 false (BPath 2)] = true /\
  CacheBasex.no_hazard CacheBasex.init
    [CacheBasex.Call 12 0 0 true 0 false (BPath 1); CacheBasex.Cleanup CacheBasex.CAll;
     CacheBasex.Call 8 0 1 false 1 true (BPath 1); CacheBasex.Call 14 0 0 true 0 false BDefault] = true /\
  CacheRbasex.no_hazard CacheRbasex.init
    [CacheRbasex.Call (CacheRbasexProofs.mkcall 3 0 0 2 9 false None BNone);
     CacheRbasex.Call CacheRbasexProofs.call7; CacheRbasex.GetBs 4 2 false false 0 1000 (BPath 1) [];
     CacheRbasex.Cleanup CacheRbasex.CInv; CacheRbasex.Call (CacheRbasexProofs.mkcall 1 0 0 0 2 false (Some (5, 5, 0)) (BPath 1))] = true.
Proof. repeat split; vm_compute; reflexivity. Qed.
