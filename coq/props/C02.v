(* C02 — Forward transforms reproduce the true projection of a smooth source,
   including the absolute intensity scale set by the pixel size.

   PROVED: the projections the forward results are compared with are the true
   line-of-sight integrals of the sources (shared with C01: bumps for every p,
   Gaussians by exact factorisation + Interval enclosure), and the scale law of
   the true transform: stretching the source by a (sampling it with a pixel
   a times larger) multiplies its projection by exactly a (C02_abel_scaling).
   NOT PROVED (swept by tools/oracle/runner.py, direction forward): that the
   five discrete forward operators stay within their envelopes
   (C02_envelope_statement), do not lose accuracy under refinement
   (C02_refinement_statement) and scale exactly with dr (C02_dr_statement);
   the infinite Gaussian integral (trusted). *)
From Coq Require Import Reals List.
From Coquelicot Require Import Coquelicot.
From PA Require Import model.AbelPairs proofs.AbelPairs proofs.AbelPairsGauss proofs.AbelPairsStmt.
Open Scope R_scope.

Theorem C02_abel_bump : forall (R0 x : R), 0 < R0 -> 0 <= x < R0 -> forall p : nat,
  Abel (bump R0 p) R0 x = bump_proj R0 p x.
Proof. intros; apply abel_bump_proj; assumption. Qed.
Print Assumptions C02_abel_bump.

Theorem C02_bump_constants : 2 * wallis 2 = 16 / 15 /\ 2 * wallis 3 = 32 / 35 /\ 2 * wallis 4 = 256 / 315.
Proof. exact (conj wallis_2 (conj wallis_3 wallis_4)). Qed.
Print Assumptions C02_bump_constants.

Theorem C02_abel_gauss_shape : forall s Rm x, s <> 0 ->
  Abel (gauss s) Rm x =
  exp (- x^2 / s^2) * (2 * RInt (fun y => exp (- (y^2) / s^2)) 0 (sqrt (Rm*Rm - x*x))).
Proof. exact abel_gauss_shape. Qed.
Print Assumptions C02_abel_gauss_shape.

Theorem C02_G_enclosure : Rabs (2 * RInt (fun t => exp (- t^2)) 0 7 - sqrt PI) <= / 2^40.
Proof. exact G_enclosure. Qed.
Print Assumptions C02_G_enclosure.

Theorem C02_abel_gauss_oracle : forall s Rm x, 0 < s -> 7 * s <= sqrt (Rm*Rm - x*x) ->
  Rabs (Abel (gauss s) Rm x - gauss_proj s x) <= s * exp (- x^2 / s^2) / 2^39.
Proof. exact abel_gauss_oracle. Qed.
Print Assumptions C02_abel_gauss_oracle.

(* forward_dr: the absolute scale of the true transform *)
Theorem C02_abel_scaling : forall (f : R -> R) (a Rm x : R), 0 < a ->
  ex_RInt (fun y => f (sqrt (x*x + y*y))) 0 (sqrt (Rm*Rm - x*x)) ->
  Abel (fun r => f (r / a)) (a * Rm) (a * x) = a * Abel f Rm x.
Proof. exact abel_scaling. Qed.
Print Assumptions C02_abel_scaling.

(* the integrability hypothesis holds for the families of the sweep *)
Example C02_scaling_hypothesis_gauss : forall s x Rm,
  ex_RInt (fun y => gauss s (sqrt (x*x + y*y))) 0 (sqrt (Rm*Rm - x*x)).
Proof. exact ex_RInt_gauss_chord. Qed.

(* ---- swept, not proved ------------------------------------------------ *)
Definition C02_envelope_statement := envelope_forward.
Definition C02_refinement_statement := refinement_forward.
Definition C02_dr_statement := dr_scale_forward.

(* ---- forward exact on its own span (builder "basis"; proofs/ExactOnSpan.v on top
   of the C09 entry theorems) ------------------------------------------------
   The forward matrix of abel/daun.py (generated entries daun_p<d> j i,
   gen/FormulasBasis.v, regenerated from the source on every run) applied to the
   coefficients c gives the exact Abel projection (the `Abel` above; model.Abel.Abel
   is the same term) of span_daun<d> c n r = sum_{j<n} c_j * basis_j(r)
   (basis_j = rect / tri / quad2 centred at pixel j) at EVERY pixel i >= 0, for
   every size n and every c.  sumn n F = F 0 + ... + F (n-1); zc n = IZR (Z.of_nat n). *)
From Coq Require Import ZArith.
From PA Require Import gen.FormulasBasis proofs.ExactOnSpan.

Theorem C02_forward_exact_on_span_daun0 : forall (n : nat) (c : nat -> R) (i : Z), (0 <= i)%Z ->
  Abel (span_daun0 c n) (zc n) (IZR i) = sumn n (fun j => c j * daun_p0 (Z.of_nat j) i).
Proof. exact forward_exact_on_span_daun0. Qed.
Print Assumptions C02_forward_exact_on_span_daun0.

Theorem C02_forward_exact_on_span_daun1 : forall (n : nat) (c : nat -> R) (i : Z), (0 <= i)%Z ->
  Abel (span_daun1 c n) (zc n) (IZR i) = sumn n (fun j => c j * daun_p1 (Z.of_nat j) i).
Proof. exact forward_exact_on_span_daun1. Qed.
Print Assumptions C02_forward_exact_on_span_daun1.

Theorem C02_forward_exact_on_span_daun2 : forall (n : nat) (c : nat -> R) (i : Z), (0 <= i)%Z ->
  Abel (span_daun2 c n) (zc n) (IZR i) = sumn n (fun j => c j * daun_p2 (Z.of_nat j) i).
Proof. exact forward_exact_on_span_daun2. Qed.
Print Assumptions C02_forward_exact_on_span_daun2.

(* ---- stretch 2: quantitative convergence of the daun forward operators, for
   EVERY size n (proofs/Convergence.v on top of exact-on-span) -----------------
   These replace "swept" by "proved" for the convergence part of the envelope
   clause of daun degree 0 and degree 1 (forward): the operator the theorems
   speak about is the generated matrix daun_p<d> (regenerated from abel/daun.py
   on every run; its entries are tied to get_bs_cached by the C09 check).
     lipschitz_nonneg f L :  |f r - f s| <= L |r - s| for r, s >= 0
     lipschitz_all df L2  :  the same for all reals (df = f')
     ylos x Rm = sqrt(Rm^2 - x^2) (half chord; 0 if x >= Rm)
   Pixel units: grid zc j = j, image radius zc n = n.  The *_phys theorems are the
   same statements for pixel size h (dr = h multiplies the matrix, daun.py:148-150),
   R = n h:   |result_i - Abel fp R r_i| <= Lp * R * h          (degree 0)
              |result_i - Abel fp R r_i| <= L2p/2 * R * h^2      (degree 1).
   The fitted laws of tools/oracle/envelopes.json are tighter than these bounds
   (they stay swept); the literal monotone-refinement clause also stays swept —
   what is proved is that the error tends to 0 at the stated rate. *)
From PA Require Import proofs.Convergence.

Theorem C02_forward_daun0_error : forall (n : nat) (f : R -> R) (L eps : R) (i : Z),
  0 <= L -> 0 <= eps -> lipschitz_nonneg f L ->
  (forall s, zc n - 1 / 2 <= s -> Rabs (f s) <= eps) -> (0 <= i)%Z ->
  Rabs (sumn n (fun j => f (zc j) * daun_p0 (Z.of_nat j) i) - Abel f (zc n) (IZR i))
    <= (L + 2 * eps) * PA.model.Abel.ylos (IZR i) (zc n).
Proof. exact forward_daun0_error. Qed.
Print Assumptions C02_forward_daun0_error.

Theorem C02_forward_daun0_lipschitz : forall (n : nat) (f : R -> R) (L : R) (i : Z),
  0 <= L -> lipschitz_nonneg f L -> (forall s, zc n - 1 / 2 <= s -> f s = 0) -> (0 <= i)%Z ->
  Rabs (sumn n (fun j => f (zc j) * daun_p0 (Z.of_nat j) i) - Abel f (zc n) (IZR i)) <= L * zc n.
Proof. exact forward_daun0_lipschitz. Qed.
Print Assumptions C02_forward_daun0_lipschitz.

Theorem C02_forward_daun0_phys : forall (n : nat) (fp : R -> R) (Lp h : R) (i : Z),
  0 < h -> 0 <= Lp -> lipschitz_nonneg fp Lp ->
  (forall s, (zc n - 1 / 2) * h <= s -> fp s = 0) -> (0 <= i)%Z ->
  Rabs (h * sumn n (fun j => fp (zc j * h) * daun_p0 (Z.of_nat j) i) - Abel fp (zc n * h) (IZR i * h))
    <= Lp * (zc n * h) * h.
Proof. exact forward_daun0_phys. Qed.
Print Assumptions C02_forward_daun0_phys.

Theorem C02_forward_daun1_error : forall (n : nat) (f df : R -> R) (L2 : R) (i : Z),
  0 <= L2 -> (forall t, is_derive f t (df t)) -> lipschitz_all df L2 ->
  (forall s, zc n - 1 <= s -> f s = 0) -> (0 <= i)%Z ->
  Rabs (sumn n (fun j => f (zc j) * daun_p1 (Z.of_nat j) i) - Abel f (zc n) (IZR i))
    <= L2 / 2 * PA.model.Abel.ylos (IZR i) (zc n).
Proof. exact forward_daun1_error. Qed.
Print Assumptions C02_forward_daun1_error.

Theorem C02_forward_daun1_phys : forall (n : nat) (fp dfp : R -> R) (L2p h : R) (i : Z),
  0 < h -> 0 <= L2p -> (forall t, is_derive fp t (dfp t)) -> lipschitz_all dfp L2p ->
  (forall s, (zc n - 1) * h <= s -> fp s = 0) -> (0 <= i)%Z ->
  Rabs (h * sumn n (fun j => fp (zc j * h) * daun_p1 (Z.of_nat j) i) - Abel fp (zc n * h) (IZR i * h))
    <= L2p / 2 * (zc n * h) * (h * h).
Proof. exact forward_daun1_phys. Qed.
Print Assumptions C02_forward_daun1_phys.

(* hypotheses satisfiable: the tent max(0, 1-r) is 1-Lipschitz and vanishes beyond
   zc 2 - 1/2; the zero profile is the (degenerate) witness for degree 1 — the bumps
   (1-r^2/R^2)^p, p >= 2, R <= n-1 of the sweep satisfy them with L2 = sup|f''|. *)
Example C02_daun0_hypotheses_satisfiable :
  lipschitz_nonneg tent 1 /\ (forall s, zc 2 - 1 / 2 <= s -> tent s = 0).
Proof. exact (conj tent_lipschitz tent_support). Qed.
Example C02_daun1_hypotheses_satisfiable :
  (forall t : R, is_derive (fun _ : R => 0) t ((fun _ => 0) t)) /\ lipschitz_all (fun _ => 0) 0.
Proof. exact zero_C2. Qed.
