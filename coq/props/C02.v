(* C02 — Forward transforms reproduce the true projection of a smooth source,
   including the absolute intensity scale set by the pixel size.

   PROVED: the projections the forward results are compared with are the true
   line-of-sight integrals of the sources (shared with C01: bumps for every p,
   Gaussians by exact factorisation + Interval enclosure), and the scale law of
   the true transform: stretching the source by a (sampling it with a pixel
   a times larger) multiplies its projection by exactly a (C02_abel_scaling).
   NOT PROVED (swept by tools/oracle/runner.py, direction forward): that the
   five discrete forward operators stay within their envelopes
   (C02_envelope_statement), do not lose accuracy under refinement
   (C02_refinement_statement) and scale exactly with dr (C02_dr_statement);
   the infinite Gaussian integral (trusted). *)
From Coq Require Import Reals List.
From Coquelicot Require Import Coquelicot.
From PA Require Import model.AbelPairs proofs.AbelPairs proofs.AbelPairsGauss proofs.AbelPairsStmt.
Open Scope R_scope.

Theorem C02_abel_bump : forall (R0 x : R), 0 < R0 -> 0 <= x < R0 -> forall p : nat,
  Abel (bump R0 p) R0 x = bump_proj R0 p x.
Proof. intros; apply abel_bump_proj; assumption. Qed.
Print Assumptions C02_abel_bump.

Theorem C02_bump_constants : 2 * wallis 2 = 16 / 15 /\ 2 * wallis 3 = 32 / 35 /\ 2 * wallis 4 = 256 / 315.
Proof. exact (conj wallis_2 (conj wallis_3 wallis_4)). Qed.
Print Assumptions C02_bump_constants.

Theorem C02_abel_gauss_shape : forall s Rm x, s <> 0 ->
  Abel (gauss s) Rm x =
  exp (- x^2 / s^2) * (2 * RInt (fun y => exp (- (y^2) / s^2)) 0 (sqrt (Rm*Rm - x*x))).
Proof. exact abel_gauss_shape. Qed.
Print Assumptions C02_abel_gauss_shape.

Theorem C02_G_enclosure : Rabs (2 * RInt (fun t => exp (- t^2)) 0 7 - sqrt PI) <= / 2^40.
Proof. exact G_enclosure. Qed.
Print Assumptions C02_G_enclosure.

Theorem C02_abel_gauss_oracle : forall s Rm x, 0 < s -> 7 * s <= sqrt (Rm*Rm - x*x) ->
  Rabs (Abel (gauss s) Rm x - gauss_proj s x) <= s * exp (- x^2 / s^2) / 2^39.
Proof. exact abel_gauss_oracle. Qed.
Print Assumptions C02_abel_gauss_oracle.

(* forward_dr: the absolute scale of the true transform *)
Theorem C02_abel_scaling : forall (f : R -> R) (a Rm x : R), 0 < a ->
  ex_RInt (fun y => f (sqrt (x*x + y*y))) 0 (sqrt (Rm*Rm - x*x)) ->
  Abel (fun r => f (r / a)) (a * Rm) (a * x) = a * Abel f Rm x.
Proof. exact abel_scaling. Qed.
Print Assumptions C02_abel_scaling.

(* the integrability hypothesis holds for the families of the sweep *)
Example C02_scaling_hypothesis_gauss : forall s x Rm,
  ex_RInt (fun y => gauss s (sqrt (x*x + y*y))) 0 (sqrt (Rm*Rm - x*x)).
Proof. exact ex_RInt_gauss_chord. Qed.

(* ---- swept, not proved ------------------------------------------------ *)
Definition C02_envelope_statement := envelope_forward.
Definition C02_refinement_statement := refinement_forward.
Definition C02_dr_statement := dr_scale_forward.
