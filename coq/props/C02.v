(* C02 — Forward transforms reproduce the true projection of a smooth source,
   including the absolute intensity scale set by the pixel size.

   PROVED: the projections the forward results are compared with are the true
   line-of-sight integrals of the sources (shared with C01: bumps for every p,
   Gaussians by exact factorisation + Interval enclosure), and the scale law of
   the true transform: stretching the source by a (sampling it with a pixel
   a times larger) multiplies its projection by exactly a (C02_abel_scaling).
   NOT PROVED (swept by tools/oracle/runner.py, direction forward): that the
   five discrete forward operators stay within their envelopes
   (C02_envelope_statement), do not lose accuracy under refinement
   (C02_refinement_statement) and scale exactly with dr (C02_dr_statement);
   the infinite Gaussian integral (trusted). *)
From Coq Require Import Reals List.
From Coquelicot Require Import Coquelicot.
From PA Require Import model.AbelPairs proofs.AbelPairs proofs.AbelPairsGauss proofs.AbelPairsStmt.
Open Scope R_scope.

Theorem C02_abel_bump : forall (R0 x : R), 0 < R0 -> 0 <= x < R0 -> forall p : nat,
  Abel (bump R0 p) R0 x = bump_proj R0 p x.
Proof. intros; apply abel_bump_proj; assumption. Qed.
Print Assumptions C02_abel_bump.

Theorem C02_bump_constants : 2 * wallis 2 = 16 / 15 /\ 2 * wallis 3 = 32 / 35 /\ 2 * wallis 4 = 256 / 315.
Proof. exact (conj wallis_2 (conj wallis_3 wallis_4)). Qed.
Print Assumptions C02_bump_constants.

Theorem C02_abel_gauss_shape : forall s Rm x, s <> 0 ->
  Abel (gauss s) Rm x =
  exp (- x^2 / s^2) * (2 * RInt (fun y => exp (- (y^2) / s^2)) 0 (sqrt (Rm*Rm - x*x))).
Proof. exact abel_gauss_shape. Qed.
Print Assumptions C02_abel_gauss_shape.

Theorem C02_G_enclosure : Rabs (2 * RInt (fun t => exp (- t^2)) 0 7 - sqrt PI) <= / 2^40.
Proof. exact G_enclosure. Qed.
Print Assumptions C02_G_enclosure.

Theorem C02_abel_gauss_oracle : forall s Rm x, 0 < s -> 7 * s <= sqrt (Rm*Rm - x*x) ->
  Rabs (Abel (gauss s) Rm x - gauss_proj s x) <= s * exp (- x^2 / s^2) / 2^39.
Proof. exact abel_gauss_oracle. Qed.
Print Assumptions C02_abel_gauss_oracle.

(* forward_dr: the absolute scale of the true transform *)
Theorem C02_abel_scaling : forall (f : R -> R) (a Rm x : R), 0 < a ->
  ex_RInt (fun y => f (sqrt (x*x + y*y))) 0 (sqrt (Rm*Rm - x*x)) ->
  Abel (fun r => f (r / a)) (a * Rm) (a * x) = a * Abel f Rm x.
Proof. exact abel_scaling. Qed.
Print Assumptions C02_abel_scaling.

(* the integrability hypothesis holds for the families of the sweep *)
Example C02_scaling_hypothesis_gauss : forall s x Rm,
  ex_RInt (fun y => gauss s (sqrt (x*x + y*y))) 0 (sqrt (Rm*Rm - x*x)).
Proof. exact ex_RInt_gauss_chord. Qed.

(* ---- swept, not proved ------------------------------------------------ *)
Definition C02_envelope_statement := envelope_forward.
Definition C02_refinement_statement := refinement_forward.
Definition C02_dr_statement := dr_scale_forward.

(* ---- forward exact on its own span (builder "basis"; proofs/ExactOnSpan.v on top
   of the C09 entry theorems) ------------------------------------------------
   The forward matrix of abel/daun.py (generated entries daun_p<d> j i,
   gen/FormulasBasis.v, regenerated from the source on every run) applied to the
   coefficients c gives the exact Abel projection (the `Abel` above; model.Abel.Abel
   is the same term) of span_daun<d> c n r = sum_{j<n} c_j * basis_j(r)
   (basis_j = rect / tri / quad2 centred at pixel j) at EVERY pixel i >= 0, for
   every size n and every c.  sumn n F = F 0 + ... + F (n-1); zc n = IZR (Z.of_nat n). *)
From Coq Require Import ZArith.
From PA Require Import gen.FormulasBasis proofs.ExactOnSpan.

Theorem C02_forward_exact_on_span_daun0 : forall (n : nat) (c : nat -> R) (i : Z), (0 <= i)%Z ->
  Abel (span_daun0 c n) (zc n) (IZR i) = sumn n (fun j => c j * daun_p0 (Z.of_nat j) i).
Proof. exact forward_exact_on_span_daun0. Qed.
Print Assumptions C02_forward_exact_on_span_daun0.

Theorem C02_forward_exact_on_span_daun1 : forall (n : nat) (c : nat -> R) (i : Z), (0 <= i)%Z ->
  Abel (span_daun1 c n) (zc n) (IZR i) = sumn n (fun j => c j * daun_p1 (Z.of_nat j) i).
Proof. exact forward_exact_on_span_daun1. Qed.
Print Assumptions C02_forward_exact_on_span_daun1.

Theorem C02_forward_exact_on_span_daun2 : forall (n : nat) (c : nat -> R) (i : Z), (0 <= i)%Z ->
  Abel (span_daun2 c n) (zc n) (IZR i) = sumn n (fun j => c j * daun_p2 (Z.of_nat j) i).
Proof. exact forward_exact_on_span_daun2. Qed.
Print Assumptions C02_forward_exact_on_span_daun2.
