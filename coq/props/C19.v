(* C19 — Polar tools honour the angle convention and the integration Jacobians.
   Only statements here; proofs are in proofs/PolarAtan2.v, proofs/PolarProofs.v.
   The definitions cart2polar, polar2cart, index_coords_*, reproject_*, w_*,
   jac_*, ri_*, ang_reduce, toPES_*, circ_* are GENERATED from the current
   sources abel/tools/{polar,vmi,circularize}.py by
   tools/translate/formulas_polar.py (gen/FormulasPolar.v); atan2 (np.arctan2),
   wrap_origin, linspace_noend, ceilZ, sum_list are in model/Polar.v.
   Suffixes: oG/oN origin given/None, tN/tG dt None/given; toPES n/V Vrep
   None/given, n/P photon_energy None/given, t/f per_energy_scaling. *)
From Coq Require Import Reals ZArith List Lra.
From Coquelicot Require Import Coquelicot.
From Interval Require Import Tactic.
From PA Require Import model.Polar gen.FormulasPolar proofs.PolarAtan2 proofs.PolarProofs.
Import ListNotations.
Open Scope R_scope.

(* Cartesian -> polar -> Cartesian is the identity for all real coordinates. *)
Theorem polar_roundtrip : forall x y : R,
  polar2cart (fst (cart2polar x y)) (snd (cart2polar x y)) = (x, y).
Proof. exact L_polar_roundtrip. Qed.
Print Assumptions polar_roundtrip.

(* polar -> Cartesian -> polar is the identity for r > 0 and angles in (-PI, PI]. *)
Theorem polar_roundtrip_inv : forall r t : R, 0 < r -> - PI < t <= PI ->
  cart2polar (fst (polar2cart r t)) (snd (polar2cart r t)) = (r, t).
Proof. exact L_polar_roundtrip_inv. Qed.
Print Assumptions polar_roundtrip_inv.

Example polar_roundtrip_inv_sat : 0 < 2 /\ - PI < PI <= PI /\ - PI < - (PI / 2) <= PI.
Proof. pose proof PI_RGT_0. lra. Qed.

Theorem polar_origin : forall t : R, polar2cart 0 t = (0, 0) /\ cart2polar 0 0 = (0, 0).
Proof. exact L_polar_origin. Qed.
Print Assumptions polar_origin.

(* Zero angle points up (+y), positive angles are to the right (+x), the angle
   lies in (-PI, PI], straight right is +PI/2, straight left -PI/2, down is PI. *)
Theorem angle_convention : forall x y : R,
  (0 < y -> snd (cart2polar 0 y) = 0) /\
  (0 < x -> 0 < snd (cart2polar x y)) /\
  (x < 0 -> snd (cart2polar x y) < 0) /\
  (0 < x -> snd (cart2polar x 0) = PI / 2) /\
  (x < 0 -> snd (cart2polar x 0) = - PI / 2) /\
  (y < 0 -> snd (cart2polar 0 y) = PI) /\
  - PI < snd (cart2polar x y) <= PI /\
  0 <= fst (cart2polar x y).
Proof. exact L_angle_convention. Qed.
Print Assumptions angle_convention.

(* index_coords: (0, 0) exactly at the requested origin, negative origins count
   from the end, x to the right, y up; origin None is (ny // 2, nx // 2). *)
Theorem index_coords_origin : forall (ny nx : Z) (o0 o1 i j : R),
  index_coords_x_oG ny nx o0 o1 (wrap_origin o0 ny) (wrap_origin o1 nx) = 0 /\
  index_coords_y_oG ny nx o0 o1 (wrap_origin o0 ny) (wrap_origin o1 nx) = 0 /\
  (0 <= o0 -> wrap_origin o0 ny = o0) /\ (o0 < 0 -> wrap_origin o0 ny = IZR ny + o0) /\
  (0 <= o1 -> wrap_origin o1 nx = o1) /\ (o1 < 0 -> wrap_origin o1 nx = IZR nx + o1) /\
  index_coords_x_oG ny nx o0 o1 i (j + 1) - index_coords_x_oG ny nx o0 o1 i j = 1 /\
  index_coords_y_oG ny nx o0 o1 (i + 1) j - index_coords_y_oG ny nx o0 o1 i j = - 1 /\
  index_coords_x_oG ny nx o0 o1 (i + 1) j = index_coords_x_oG ny nx o0 o1 i j /\
  index_coords_y_oG ny nx o0 o1 i (j + 1) = index_coords_y_oG ny nx o0 o1 i j /\
  index_coords_x_oN ny nx (IZR (ny / 2)) (IZR (nx / 2)) = 0 /\
  index_coords_y_oN ny nx (IZR (ny / 2)) (IZR (nx / 2)) = 0 /\
  index_coords_x_oN ny nx i (j + 1) - index_coords_x_oN ny nx i j = 1 /\
  index_coords_y_oN ny nx (i + 1) j - index_coords_y_oN ny nx i j = - 1.
Proof. exact L_index_coords_origin. Qed.
Print Assumptions index_coords_origin.

(* reproject_image_into_polar (origin given, dt None): output element (k, l)
   is read from the image at row o0' - r_k cos t_l, column o1' + r_k sin t_l
   (o' = wrapped origin; r_k, t_l the returned r_grid, theta_grid, linspace
   without endpoint), and that position has polar coordinates exactly
   (r_k, t_l) in the frame of index_coords / cart2polar. *)
Theorem reproject_positions : forall (ny nx : Z) (o0 o1 rmin rmax tmin tmax dr dt k l : R),
  let r_k := reproject_R_oG_tN ny nx o0 o1 rmin rmax tmin tmax dr dt k l in
  let t_l := reproject_T_oG_tN ny nx o0 o1 rmin rmax tmin tmax dr dt k l in
  let row := reproject_row_oG_tN ny nx o0 o1 rmin rmax tmin tmax dr dt k l in
  let col := reproject_col_oG_tN ny nx o0 o1 rmin rmax tmin tmax dr dt k l in
  r_k = rmin + k * ((rmax - rmin) / IZR (ceilZ ((rmax - rmin) / dr))) /\
  t_l = tmin + l * ((tmax - tmin) / IZR (Z.max nx ny)) /\
  row = wrap_origin o0 ny - r_k * cos t_l /\
  col = wrap_origin o1 nx + r_k * sin t_l /\
  (0 < r_k -> - PI < t_l <= PI ->
   cart2polar (index_coords_x_oG ny nx o0 o1 row col) (index_coords_y_oG ny nx o0 o1 row col) = (r_k, t_l)).
Proof. exact L_reproject_positions_given. Qed.
Print Assumptions reproject_positions.

(* the same with dt given (nt = ceil((tmax - tmin) / dt)) *)
Theorem reproject_positions_dt : forall (ny nx : Z) (o0 o1 rmin rmax tmin tmax dr dt k l : R),
  let r_k := reproject_R_oG_tG ny nx o0 o1 rmin rmax tmin tmax dr dt k l in
  let t_l := reproject_T_oG_tG ny nx o0 o1 rmin rmax tmin tmax dr dt k l in
  let row := reproject_row_oG_tG ny nx o0 o1 rmin rmax tmin tmax dr dt k l in
  let col := reproject_col_oG_tG ny nx o0 o1 rmin rmax tmin tmax dr dt k l in
  r_k = rmin + k * ((rmax - rmin) / IZR (ceilZ ((rmax - rmin) / dr))) /\
  t_l = tmin + l * ((tmax - tmin) / IZR (ceilZ ((tmax - tmin) / dt))) /\
  row = wrap_origin o0 ny - r_k * cos t_l /\
  col = wrap_origin o1 nx + r_k * sin t_l /\
  (0 < r_k -> - PI < t_l <= PI ->
   cart2polar (index_coords_x_oG ny nx o0 o1 row col) (index_coords_y_oG ny nx o0 o1 row col) = (r_k, t_l)).
Proof. exact L_reproject_positions_dt. Qed.
Print Assumptions reproject_positions_dt.

(* the same with origin None (dt None, dt given) *)
Theorem reproject_positions_none : forall (ny nx : Z) (o0 o1 rmin rmax tmin tmax dr dt k l : R),
  (let r_k := reproject_R_oN_tN ny nx o0 o1 rmin rmax tmin tmax dr dt k l in
   let t_l := reproject_T_oN_tN ny nx o0 o1 rmin rmax tmin tmax dr dt k l in
   let row := reproject_row_oN_tN ny nx o0 o1 rmin rmax tmin tmax dr dt k l in
   let col := reproject_col_oN_tN ny nx o0 o1 rmin rmax tmin tmax dr dt k l in
   r_k = rmin + k * ((rmax - rmin) / IZR (ceilZ ((rmax - rmin) / dr))) /\
   t_l = tmin + l * ((tmax - tmin) / IZR (Z.max nx ny)) /\
   row = IZR (ny / 2) - r_k * cos t_l /\
   col = IZR (nx / 2) + r_k * sin t_l /\
   (0 < r_k -> - PI < t_l <= PI ->
    cart2polar (index_coords_x_oN ny nx row col) (index_coords_y_oN ny nx row col) = (r_k, t_l))) /\
  (let r_k := reproject_R_oN_tG ny nx o0 o1 rmin rmax tmin tmax dr dt k l in
   let t_l := reproject_T_oN_tG ny nx o0 o1 rmin rmax tmin tmax dr dt k l in
   let row := reproject_row_oN_tG ny nx o0 o1 rmin rmax tmin tmax dr dt k l in
   let col := reproject_col_oN_tG ny nx o0 o1 rmin rmax tmin tmax dr dt k l in
   r_k = rmin + k * ((rmax - rmin) / IZR (ceilZ ((rmax - rmin) / dr))) /\
   t_l = tmin + l * ((tmax - tmin) / IZR (ceilZ ((tmax - tmin) / dt))) /\
   row = IZR (ny / 2) - r_k * cos t_l /\
   col = IZR (nx / 2) + r_k * sin t_l /\
   (0 < r_k -> - PI < t_l <= PI ->
    cart2polar (index_coords_x_oN ny nx row col) (index_coords_y_oN ny nx row col) = (r_k, t_l))).
Proof. exact L_reproject_positions_none. Qed.
Print Assumptions reproject_positions_none.

Example reproject_positions_sat :
  0 < grid_r 0 5 5 2 /\ - PI < grid_t (- 3) 3 7 3 <= PI.
Proof. unfold grid_r, grid_t, linspace_noend. split; [lra |]. split; interval. Qed.

(* the origin whose pixel radii/angles define the grids (index_coords call) is
   the origin the sampling positions are measured from *)
Theorem reproject_same_origin : forall (ny nx : Z) (o0 o1 rmin rmax tmin tmax dr dt : R),
  reproject_o0_oG_tN ny nx o0 o1 rmin rmax tmin tmax dr dt = wrap_origin o0 ny /\
  reproject_o1_oG_tN ny nx o0 o1 rmin rmax tmin tmax dr dt = wrap_origin o1 nx /\
  reproject_o0_oG_tG ny nx o0 o1 rmin rmax tmin tmax dr dt = wrap_origin o0 ny /\
  reproject_o1_oG_tG ny nx o0 o1 rmin rmax tmin tmax dr dt = wrap_origin o1 nx /\
  reproject_o0_oN_tN ny nx o0 o1 rmin rmax tmin tmax dr dt = IZR (ny / 2) /\
  reproject_o1_oN_tN ny nx o0 o1 rmin rmax tmin tmax dr dt = IZR (nx / 2) /\
  reproject_o0_oN_tG ny nx o0 o1 rmin rmax tmin tmax dr dt = IZR (ny / 2) /\
  reproject_o1_oN_tG ny nx o0 o1 rmin rmax tmin tmax dr dt = IZR (nx / 2).
Proof. exact L_reproject_same_origin. Qed.
Print Assumptions reproject_same_origin.

(* PARTIAL (documents the grid's angular deficit): the angular grid starts at
   tmin = theta.min(), has nt steps of (tmax - tmin)/nt, never reaches tmax =
   theta.max(); the Riemann sum of radial_intensity therefore covers the angle
   tmax - tmin, which is < 2 PI for any two values of arctan2 (the angles of
   two pixels), not the full circle. *)
Theorem theta_span_partial : forall (a b a' b' : R) (nt : Z) (ny nx : Z) (o0 o1 rmin rmax dr dt k l : R),
  let tmin := atan2 a b in
  let tmax := atan2 a' b' in
  let th := fun l => reproject_T_oG_tN ny nx o0 o1 rmin rmax tmin tmax dr dt k l in
  let n := IZR (Z.max nx ny) in
  0 < n -> tmin <= tmax ->
  th 0 = tmin /\
  th (l + 1) - th l = (tmax - tmin) / n /\
  th n = tmax /\
  (0 <= l < n -> tmin <= th l < tmax \/ tmin = tmax) /\
  n * ((tmax - tmin) / n) = tmax - tmin /\
  tmax - tmin < 2 * PI.
Proof. exact L_theta_span. Qed.
Print Assumptions theta_span_partial.

Example theta_span_sat : 0 < IZR (Z.max 5 3) /\ atan2 (- 1) (- 2) <= atan2 0 (- 2).
Proof.
  split; [cbn; lra |]. rewrite atan2_down by lra. apply atan2_range.
Qed.

(* int2D = 2 pi r avg2D exactly, for every row of samples (value, angle), every
   radius and angular step; also for the two public wrappers. *)
Theorem int2D_avg2D : forall (r T00 T01 : R) (samples : list (R * R)),
  ri_int2D r T00 T01 samples = 2 * PI * r * ri_avg2D r T00 T01 samples /\
  angular_integration_2D r T00 T01 samples = 2 * PI * r * average_radial_intensity_2D r T00 T01 samples /\
  (forall R_ T_, jac_int2D R_ T_ = 2 * PI * R_ * jac_avg2D R_ T_).
Proof. exact L_int2D_avg2D. Qed.
Print Assumptions int2D_avg2D.

(* int3D = 4 pi r^2 avg3D exactly. *)
Theorem int3D_avg3D : forall (r T00 T01 : R) (samples : list (R * R)),
  ri_int3D r T00 T01 samples = 4 * PI * r ^ 2 * ri_avg3D r T00 T01 samples /\
  angular_integration_3D r T00 T01 samples = 4 * PI * r ^ 2 * average_radial_intensity_3D r T00 T01 samples /\
  (forall R_ T_, jac_int3D R_ T_ = 4 * PI * R_ ^ 2 * jac_avg3D R_ T_).
Proof. exact L_int3D_avg3D. Qed.
Print Assumptions int3D_avg3D.

(* what the four kinds sum: v r, v pi r^2 |sin T|, v / 2 pi, v |sin T| / 4, times dt *)
Theorem kinds_jacobians : forall (r T00 T01 v t : R) (rest : list (R * R)),
  ri_int2D r T00 T01 ((v, t) :: rest) = v * r * (T01 - T00) + ri_int2D r T00 T01 rest /\
  ri_int3D r T00 T01 ((v, t) :: rest) = v * (PI * r ^ 2 * Rabs (sin t)) * (T01 - T00) + ri_int3D r T00 T01 rest /\
  ri_avg2D r T00 T01 ((v, t) :: rest) = v / (2 * PI) * (T01 - T00) + ri_avg2D r T00 T01 rest /\
  ri_avg3D r T00 T01 ((v, t) :: rest) = v * (Rabs (sin t) / 4) * (T01 - T00) + ri_avg3D r T00 T01 rest /\
  ri_int2D r T00 T01 [] = 0.
Proof. exact L_kinds_spelled. Qed.
Print Assumptions kinds_jacobians.

(* toPES: pointwise Jacobian identity PES(r) dE/dr = I(r) with
   per_energy_scaling (sign -1 for the binding-energy axis hv - c r^2, which is
   returned sorted ascending; with |dE/dr| for c > 0), PES(r) 2r = I(r)
   without, element 0 only divided by c, and the Vrep / zoom rescaling of c. *)
Theorem toPES_jacobian : forall r I c hv V z : R, 0 < r -> c <> 0 ->
  toPES_I_nt r I c hv V z * Derive (fun x => toPES_E_nn x I c hv V z) r = I /\
  toPES_I_nt r I c hv V z * Derive (fun x => toPES_E_nP x I c hv V z) r = - I /\
  (0 < c -> toPES_I_nt r I c hv V z * Rabs (Derive (fun x => toPES_E_nn x I c hv V z) r) = I /\
            toPES_I_nt r I c hv V z * Rabs (Derive (fun x => toPES_E_nP x I c hv V z) r) = I) /\
  toPES_I_nf r I c hv V z * (2 * r) = I /\
  toPES_I_nt r I c hv V z * c = toPES_I_nf r I c hv V z /\
  toPES_I0_nt r I c hv V z * c = I /\ toPES_I0_nf r I c hv V z = I /\
  (V <> 0 -> z <> 0 ->
   let c' := c * (Rabs V / z ^ 2) in
   toPES_E_Vn r I c hv V z = toPES_E_nn r I c' hv V z /\
   toPES_E_VP r I c hv V z = toPES_E_nP r I c' hv V z /\
   toPES_I_Vt r I c hv V z = toPES_I_nt r I c' hv V z /\
   toPES_I_Vf r I c hv V z = toPES_I_nf r I c' hv V z /\
   c' <> 0 /\
   toPES_I_Vt r I c hv V z * Derive (fun x => toPES_E_Vn x I c hv V z) r = I /\
   toPES_I_Vt r I c hv V z * Derive (fun x => toPES_E_VP x I c hv V z) r = - I).
Proof. exact L_toPES_jacobian. Qed.
Print Assumptions toPES_jacobian.

Example toPES_jacobian_sat : 0 < 3 /\ 1 / 100000 <> 0 /\ - 2200 <> 0 /\ 2 <> 0.
Proof. repeat split; lra. Qed.

(* circularize with a constant correction c <> 0 (either choice of the
   normalisation factor) reads every pixel (i, j) at (i, j): identity map. *)
Theorem circularize_const : forall (c ref : R) (pixels : list (R * R)) (nrow ncol : Z) (i j : R),
  c <> 0 -> pixels <> [] ->
  let f := fun _ : R => c in
  circ_row_mean f pixels nrow ncol i j = i /\ circ_col_mean f pixels nrow ncol i j = j /\
  circ_row_ref f ref nrow ncol i j = i /\ circ_col_ref f ref nrow ncol i j = j.
Proof. exact L_circularize_const. Qed.
Print Assumptions circularize_const.

Example circularize_const_sat : 3 / 2 <> 0 /\ [(0, 0); (0, 1)] <> (@nil (R * R)).
Proof. split; [lra | discriminate]. Qed.

(* the general coordinate map: radial scaling by f(ref) / f(theta) about the
   centre (nrow // 2, ncol // 2), theta = arctan2(X, Y) *)
Theorem circularize_map : forall (f : R -> R) (ref : R) (nrow ncol : Z) (i j : R),
  let X := j - IZR (ncol / 2) in
  let Y := IZR (nrow / 2) - i in
  let s := f ref / f (atan2 X Y) in
  f (atan2 X Y) <> 0 ->
  circ_col_ref f ref nrow ncol i j - IZR (ncol / 2) = X * s /\
  IZR (nrow / 2) - circ_row_ref f ref nrow ncol i j = Y * s.
Proof. exact L_circularize_map. Qed.
Print Assumptions circularize_map.
