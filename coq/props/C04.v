(* C04 — every transform is a fixed linear, row-independent operator scaling
   with dr; the non-negativity solvers are positively homogeneous; the image
   tools are linear.  Only statements; proofs in proofs/MxAlgebra.v,
   proofs/HansenLawProofs.v, proofs/DrSitesProofs.v, proofs/LinOpsProofs.v,
   proofs/SymLinear.v.

   Matrix class (basex, daun, onion_peeling, two_point, three_point, rbasex per
   angular order): the terms are GENERATED from /repo (gen/MatrixExpr.v).
   hansenlaw: model/HansenLaw.v (the recursion, arbitrary tables) whose dr
   sites are tied to gen/DrSites.v.  onion_bordas: model/OnionBordas.v (the
   peeling loop, arbitrary tables, tied by a vm_compute correspondence run)
   plus its dr site.  direct: dr sites only (gen/DrSites.v); its linearity
   is checked on the implementation.
   NNLS solvers: by specification (model/LinOps.v). *)
From mathcomp Require Import all_ssreflect all_algebra.
From Coq Require Import List Reals.
From PA Require Import base.Arr base.MxNp gen.MatrixExpr gen.DrSites model.LinOps model.HansenLaw
  model.Symmetry proofs.MxAlgebra proofs.LinOpsProofs proofs.HansenLawProofs model.OnionBordas proofs.OnionBordasProofs proofs.DrSitesProofs proofs.DirectScaling
  proofs.C06R proofs.SymLinear.
Import GRing.Theory Num.Theory.

Section Algebraic.
Local Open Scope ring_scope.

(* ---- a transform of the form X |-> X *m A is linear and row independent ------ *)
Theorem C04_rowwise_linear :
  forall (F : fieldType) (n m : nat) (T : forall h, 'M[F]_(h, n) -> 'M[F]_(h, m)) (A : 'M[F]_(n, m)),
  is_rowwise T A ->
  forall (h : nat) (a b : F) (X Y : 'M[F]_(h, n)), T h (a *: X + b *: Y) = a *: T h X + b *: T h Y.
Proof. exact rowwise_linear. Qed.
Print Assumptions C04_rowwise_linear.

Theorem C04_rowwise_row_independent :
  forall (F : fieldType) (n m : nat) (T : forall h, 'M[F]_(h, n) -> 'M[F]_(h, m)) (A : 'M[F]_(n, m)),
  is_rowwise T A ->
  forall (h h' : nat) (X : 'M[F]_(h, n)) (Y : 'M[F]_(h', n)) (i : 'I_h) (i' : 'I_h'),
  row i X = row i' Y -> row i (T h X) = row i' (T h' Y).
Proof. exact rowwise_other_rows_irrelevant. Qed.
Print Assumptions C04_rowwise_row_independent.

(* ---- ... and the generated transforms are of that form ------------------------ *)
Theorem C04_daun_rowwise :
  forall (F : fieldType) (n : nat) (B L : 'M[F]_n) (s : F),
  [/\ is_rowwise (fun h X => @daun_forward_deg0_none_dr1 F n h B X) B,
      is_rowwise (fun h X => @daun_forward_deg1_none_dr1 F n h B X) B,
      is_rowwise (fun h X => @daun_forward_deg2_none_dr1 F n h B X) B &
      is_rowwise (fun h X => @daun_forward_deg3_none_dr1 F n h B X) B] /\
  [/\ is_rowwise (fun h X => @daun_inverse_deg0_none_dr1 F n h B X) (daun_inv_tri_op B),
      is_rowwise (fun h X => @daun_inverse_deg1_none_dr1 F n h B X) (daun_inv_tri_op B),
      is_rowwise (fun h X => @daun_inverse_deg2_none_dr1 F n h B X) (daun_inv_tri_op B) &
      is_rowwise (fun h X => @daun_inverse_deg3_none_dr1 F n h B X) (invmx B)] /\
  [/\ is_rowwise (fun h X => @daun_inverse_deg0_diff_dr1 F n h B L s X) (daun_tikhonov_diff B L s),
      is_rowwise (fun h X => @daun_inverse_deg0_L2_dr1 F n h B s X) (daun_tikhonov_L2 B s),
      is_rowwise (fun h X => @daun_inverse_deg0_L2c_dr1 F n h B s X) (daun_tikhonov_L2c B s) &
      is_rowwise (fun h X => @daun_inverse_deg0_num_dr1 F n h B L s X) (daun_tikhonov_diff B L s)].
Proof. exact daun_all_rowwise. Qed.
Print Assumptions C04_daun_rowwise.

Theorem C04_basex_dasch_rowwise :
  forall (F : fieldType) (n : nat) (A D W : 'M[F]_n),
  [/\ is_rowwise (fun h X => @basex_core F n h A X) A,
      is_rowwise (fun h X => @dasch_two_point_dr1 F n h D X) D^T,
      is_rowwise (fun h X => @dasch_three_point_dr1 F n h D X) D^T &
      is_rowwise (fun h X => @dasch_onion_peeling_dr1 F n h W X) (invmx W)^T].
Proof. exact basex_dasch_rowwise. Qed.
Print Assumptions C04_basex_dasch_rowwise.

(* basex with the intensity correction (correction=True): the matrix is the uncorrected one with its columns
   multiplied by the data-independent correction vector, scaled by dr^(+-1); it is applied by basex_core *)
Theorem C04_basex_corrected :
  forall (F : fieldType) (n : nat) (M Mc : 'M[F]_n) (cor : 'rV[F]_n) (dr : F),
  (basex_matrix_forward_corr_dr1 M Mc cor = colmul (basex_A_forward_exact M Mc) cor /\
   basex_matrix_inverse_corr_dr1 M Mc cor = colmul (basex_A_inverse_exact M Mc) cor) /\
  (basex_matrix_forward_corr_dr M Mc cor dr = dr *: basex_matrix_forward_corr_dr1 M Mc cor /\
   basex_matrix_inverse_corr_dr M Mc cor dr = dr^-1 *: basex_matrix_inverse_corr_dr1 M Mc cor).
Proof. exact (fun F n M Mc cor dr => conj (basex_corrected_is_colmul M Mc cor) (basex_corrected_dr M Mc cor dr)). Qed.
Print Assumptions C04_basex_corrected.

(* rbasex: the radial profile of each angular order is multiplied by a fixed matrix *)
Theorem C04_rbasex_rowwise :
  forall (F : fieldType) (Rmax : nat) (P : 'M[F]_(Rmax.+1)) (p : 'rV[F]_(Rmax.+1)),
  [/\ rbasex_apply_forward_none P p = p *m (rbasex_matrix_forward_none P)^T,
      rbasex_apply_inverse_none P p = p *m (rbasex_matrix_inverse_none P)^T,
      (forall s, rbasex_apply_inverse_L2 P s p = p *m (rbasex_matrix_inverse_L2 P s)^T) &
      (forall G s, rbasex_apply_inverse_diff P G s p = p *m (rbasex_matrix_inverse_diff P G s)^T)].
Proof. exact rbasex_apply_is_matrix. Qed.
Print Assumptions C04_rbasex_rowwise.

(* ---- dr: forward * dr, inverse / dr (generated Jacobian statements) ----------- *)
Theorem C04_dr_daun :
  forall (F : fieldType) (n h : nat) (B : 'M[F]_n) (X : 'M[F]_(h, n)) (dr : F),
  [/\ daun_forward_deg0_none_dr B dr X = dr *: daun_forward_deg0_none_dr1 B X,
      daun_forward_deg3_none_dr B dr X = dr *: daun_forward_deg3_none_dr1 B X,
      daun_inverse_deg0_none_dr B dr X = dr^-1 *: daun_inverse_deg0_none_dr1 B X &
      daun_inverse_deg3_none_dr B dr X = dr^-1 *: daun_inverse_deg3_none_dr1 B X].
Proof. exact daun_dr. Qed.
Print Assumptions C04_dr_daun.

Theorem C04_dr_daun_reg :
  forall (F : fieldType) (n h : nat) (B : 'M[F]_n) (X : 'M[F]_(h, n)) (dr : F) (L : 'M[F]_n) (s : F)
         (nnls : 'M[F]_n -> 'rV[F]_n -> 'rV[F]_n),
  [/\ daun_inverse_deg0_diff_dr B L s dr X = dr^-1 *: daun_inverse_deg0_diff_dr1 B L s X,
      daun_inverse_deg0_L2_dr B s dr X = dr^-1 *: daun_inverse_deg0_L2_dr1 B s X,
      daun_inverse_deg0_L2c_dr B s dr X = dr^-1 *: daun_inverse_deg0_L2c_dr1 B s X &
      daun_inverse_deg0_nonneg_dr B nnls dr X = dr^-1 *: daun_inverse_deg0_nonneg_dr1 B nnls X].
Proof. exact daun_dr_reg. Qed.
Print Assumptions C04_dr_daun_reg.

Theorem C04_dr_basex :
  forall (F : fieldType) (n : nat) (M Mc : 'M[F]_n) (dr : F),
  basex_matrix_forward_dr M Mc dr = dr *: basex_matrix_forward_dr1 M Mc /\
  basex_matrix_inverse_dr M Mc dr = dr^-1 *: basex_matrix_inverse_dr1 M Mc.
Proof. exact basex_dr. Qed.
Print Assumptions C04_dr_basex.

Theorem C04_dr_dasch :
  forall (F : fieldType) (n h : nat) (D W : 'M[F]_n) (X : 'M[F]_(h, n)) (dr : F),
  [/\ dasch_two_point_dr D dr X = dr^-1 *: dasch_two_point_dr1 D X,
      dasch_three_point_dr D dr X = dr^-1 *: dasch_three_point_dr1 D X &
      dasch_onion_peeling_dr W dr X = dr^-1 *: dasch_onion_peeling_dr1 W X].
Proof. exact dasch_dr. Qed.
Print Assumptions C04_dr_dasch.

(* ---- non-negativity solvers: positively homogeneous ----------------------------- *)
Theorem C04_nnls_pos_homogeneous :
  forall (R : realFieldType) (m n : nat) (A : 'M[R]_(m, n)) (c : R) (b : 'rV[R]_m) (x : 'rV[R]_n),
  0 < c -> is_nnls A b x -> is_nnls A (c *: b) (c *: x).
Proof. exact nnls_pos_homogeneous. Qed.
Print Assumptions C04_nnls_pos_homogeneous.

Theorem C04_nnls_solver_homogeneous :
  forall (R : realFieldType) (m n : nat) (A : 'M[R]_(m, n))
         (solver : 'M[R]_(m, n) -> 'rV[R]_m -> 'rV[R]_n) (c : R) (b : 'rV[R]_m),
  (forall b', is_nnls A b' (solver A b')) -> full_rank A -> 0 < c ->
  solver A (c *: b) = c *: solver A b.
Proof. exact nnls_solver_homogeneous. Qed.
Print Assumptions C04_nnls_solver_homogeneous.

(* the generated daun 'nonneg' loop: positively homogeneous and row by row *)
Theorem C04_daun_nonneg :
  forall (R : realFieldType) (n : nat) (B : 'M[R]_n) (nnls : 'M[R]_n -> 'rV[R]_n -> 'rV[R]_n),
  nnls_spec nnls -> B \in unitmx ->
  forall (h : nat) (X : 'M[R]_(h, n)),
  (forall c : R, 0 < c ->
     daun_inverse_deg0_nonneg_dr1 B nnls (c *: X) = c *: daun_inverse_deg0_nonneg_dr1 B nnls X) /\
  (forall i : 'I_h, row i (daun_inverse_deg0_nonneg_dr1 B nnls X) = nnls B^T (row i X)).
Proof.
exact (fun R n B nnls sp uB h X =>
  conj (fun c c0 => daun_nonneg_pos_homogeneous sp uB X c0) (daun_nonneg_rowwise B nnls X)).
Qed.
Print Assumptions C04_daun_nonneg.

End Algebraic.

(* ---- hansenlaw: the recursion itself, arbitrary coefficient tables ------------- *)
Section HansenLaw.
Local Open Scope R_scope.

Theorem C04_hansenlaw_linear :
  forall (m : hl_mode) (dr pi : R) (K : nat) (tabs : list (coef R)) (a b : R) (h w : nat)
         (X Y : list (list R)),
  wfR h w X -> wfR h w Y ->
  hl_imageR m dr pi K tabs (icomb a b X Y) =
  icomb a b (hl_imageR m dr pi K tabs X) (hl_imageR m dr pi K tabs Y).
Proof. exact hansenlaw_linear. Qed.
Print Assumptions C04_hansenlaw_linear.

Theorem C04_hansenlaw_rowwise :
  forall (m : hl_mode) (dr pi : R) (K : nat) (tabs : list (coef R)) (X Y : list (list R)) (i j : nat),
  Peano.lt i (List.length X) -> Peano.lt j (List.length Y) -> List.nth i X nil = List.nth j Y nil ->
  List.nth i (hl_imageR m dr pi K tabs X) nil = List.nth j (hl_imageR m dr pi K tabs Y) nil.
Proof. exact hansenlaw_row_of_any_image. Qed.
Print Assumptions C04_hansenlaw_rowwise.

Theorem C04_hansenlaw_dr :
  forall (dr pi : R) (K : nat) (tabs : list (coef R)) (l : list R),
  hl_rowR Forward dr pi K tabs l = scal dr (hl_rowR Forward 1 pi K tabs l) /\
  (dr <> 0 ->
   hl_rowR Inverse0 dr pi K tabs l = scal (/ dr) (hl_rowR Inverse0 1 pi K tabs l) /\
   hl_rowR Inverse1 dr pi K tabs l = scal (/ dr) (hl_rowR Inverse1 1 pi K tabs l)).
Proof.
exact (fun dr pi K tabs l => conj (hansenlaw_dr_forward dr pi K tabs l) (hansenlaw_dr_inverse dr pi K tabs l)).
Qed.
Print Assumptions C04_hansenlaw_dr.

(* the model's driving functions are the expressions generated from hansenlaw.py *)
Theorem C04_hansenlaw_dr_sites_tied :
  forall (dr pi : R),
  (forall im, driveR Forward dr pi im = List.map (g_hl_drive_forward dr pi) im) /\
  (forall a b t, driveR Inverse0 dr pi (cons a (cons b t)) = cons (g_hl_drive_inverse0 dr b a) (driveR Inverse0 dr pi (cons b t))) /\
  (forall a, driveR Inverse0 dr pi (cons a nil) = cons 0 nil) /\
  (forall im, driveR Inverse1 dr pi im = driveR Inverse1 (g_hl_gradient_spacing dr) pi im).
Proof.
exact (fun dr pi => conj (hl_forward_tied dr pi) (conj (hl_inverse0_tied dr pi)
        (conj (hl_inverse0_last dr pi) (hl_inverse1_tied dr pi)))).
Qed.
Print Assumptions C04_hansenlaw_dr_sites_tied.

(* the model's recursion is the loop of hansenlaw.py: the element-wise state update, the two driving
   columns used, the output (sum of the states) and the order of the columns are GENERATED from the source
   (gen/DrSites.v: hl_step_elem, hl_cols) and equal to what model/HansenLaw.v does *)
Theorem C04_hansenlaw_model_is_source :
  (forall p ph c0 b0 c1 b1 xk x d1 d0,
     stepR (cons p ph) (cons c0 b0) (cons c1 b1) (cons xk x) d1 d0 =
     cons (g_hl_step_elem p c0 c1 xk d1 d0) (stepR ph b0 b1 x d1 d0)) /\
  (forall t ts col d x,
     runR (cons t ts) col d x =
     let x' := stepR (c_phi R t) (c_B0 R t) (c_B1 R t) x (List.nth (S col) d 0) (List.nth col d 0) in
     cons (sumR x') (runR ts (Nat.pred col) d x')) /\
  (forall cols, hl_cols cols = visited (Nat.sub cols 2) (Nat.sub cols 2)) /\
  (forall K tabs d,
     hl_coreR K tabs d =
     let outs := List.rev (runR tabs (Nat.sub (List.length d) 2) d (List.repeat 0 K)) in
     cons (List.hd 0 outs) (List.app outs (cons (List.last outs 0) nil))).
Proof.
exact (conj hl_step_is_source (conj hl_run_is_source (conj hl_columns_are_source hl_core_is_source))).
Qed.
Print Assumptions C04_hansenlaw_model_is_source.

(* ---- onion_bordas: the peeling loop itself, arbitrary tables val1 / val2 -------- *)
Theorem C04_onion_bordas_linear :
  forall (val1 val2 : nat -> nat -> R) (a b dr : R) (h w : nat) (X Y : list (list R)),
  wfR h w X -> wfR h w Y ->
  ob_imageR val1 val2 dr (icomb a b X Y) = icomb a b (ob_imageR val1 val2 dr X) (ob_imageR val1 val2 dr Y).
Proof. exact onion_bordas_linear. Qed.
Print Assumptions C04_onion_bordas_linear.

(* val2 independent of its row index is checked on the tables of the running implementation *)
Theorem C04_onion_bordas_rowwise :
  forall (val1 val2 : nat -> nat -> R), (forall i j j', val2 i j = val2 i j') ->
  forall (dr : R) (X Y : list (list R)) (i j : nat),
  Peano.lt i (List.length X) -> Peano.lt j (List.length Y) -> List.nth i X nil = List.nth j Y nil ->
  List.nth i (ob_imageR val1 val2 dr X) nil = List.nth j (ob_imageR val1 val2 dr Y) nil.
Proof. exact onion_bordas_row_of_any_image. Qed.
Print Assumptions C04_onion_bordas_rowwise.

Theorem C04_onion_bordas_model_dr :
  forall (val1 val2 : nat -> nat -> R) (rv : nat) (dr : R) (l : list R), dr <> 0 ->
  ob_rowR val1 val2 rv dr l = scal (/ dr) (ob_rowR val1 val2 rv 1 l).
Proof. exact onion_bordas_dr. Qed.
Print Assumptions C04_onion_bordas_model_dr.

Theorem C04_onion_bordas_dr_site_tied :
  forall (val1 val2 : nat -> nat -> R) (rv : nat) (dr : R) (l : list R),
  ob_rowR val1 val2 rv dr l =
  List.map (g_ob_scale dr) (List.rev (peelR val1 val2 rv (List.length l - 1) (List.rev l) ++
                            cons (List.last (peelR val1 val2 rv (List.length l - 1) (List.rev l)) 0) nil)).
Proof. exact onion_bordas_scale_tied. Qed.
Print Assumptions C04_onion_bordas_dr_site_tied.

(* onion_bordas: the only use of dr is the final division *)
Theorem C04_dr_onion_bordas : forall dr y : R, dr <> 0 -> g_ob_scale dr y = / dr * g_ob_scale 1 y.
Proof. exact ob_scale_dr. Qed.
Print Assumptions C04_dr_onion_bordas.

(* direct (python backend): the whole integral of _pyabel_direct_integral -- trapezoid sums over the mask
   i < j, minus half the sum over the first two points, plus the analytic end-cell correction -- assembled
   (proofs/DirectScaling.v) from the element-wise expressions GENERATED from direct.py (gen/DrSites.v; the
   assembling statements are pinned by the translator), numpy.trapezoid by specification, arccosh any
   function.  On the grid r = arange(n)*dr: forward = dr x (dr = 1 result), inverse = (dr = 1 result)/dr,
   for every output pixel i, with and without the correction. *)
Theorem C04_dr_direct :
  forall (acosh : R -> R) (k0 : R) (n : nat) (c : R), 0 < c ->
  (forall (v : nat -> R) (correction : bool) (i : nat),
     direct_out acosh k0 n (fun k => g_direct_grid c (INR k))
       (fun k => g_direct_pre_forward (g_direct_grid c (INR k)) (v k)) (c * 1) correction i =
     c * direct_out acosh k0 n INR (fun k => g_direct_pre_forward (INR k) (v k)) 1 correction i) /\
  (forall (pi : R) (g : nat -> R) (correction : bool) (i : nat), pi <> 0 ->
     direct_out acosh k0 n (fun k => g_direct_grid c (INR k)) (fun k => g_direct_pre_inverse c pi (g k)) (c * 1) correction i =
     / c * direct_out acosh k0 n INR (fun k => g_direct_pre_inverse 1 pi (g k)) 1 correction i).
Proof.
exact (fun acosh k0 n c Hc => conj (direct_forward_dr acosh k0 n c Hc) (direct_inverse_dr acosh k0 n c Hc)).
Qed.
Print Assumptions C04_dr_direct.

(* ---- image tools: symmetrisation is linear (C06 model) -------------------------- *)
Theorem C04_symmetrize_linear :
  forall (n m : nat) (a b : R) (X Y : list (list R)),
  wf n m X -> wf n m Y -> Peano.le 1 n -> Peano.le 1 m ->
  (exists SX SY, symR ax_0 mask_all Average X = Ok SX /\ symR ax_0 mask_all Average Y = Ok SY /\
     symR ax_0 mask_all Average (ilin a b X Y) = Ok (ilin a b SX SY)) /\
  (exists SX SY, symR ax_1 mask_all Average X = Ok SX /\ symR ax_1 mask_all Average Y = Ok SY /\
     symR ax_1 mask_all Average (ilin a b X Y) = Ok (ilin a b SX SY)).
Proof. exact symmetrize_linear. Qed.
Print Assumptions C04_symmetrize_linear.

Example C04_hypotheses_satisfiable :
  wfR 2 3 ((1 :: -2 :: 3 :: nil) :: (0 :: 5 :: -1 :: nil) :: nil) /\
  List.length (1 :: -2 :: 3 :: nil) = List.length (0 :: 5 :: -1 :: nil).
Proof. exact hansenlaw_hypotheses_satisfiable. Qed.

End HansenLaw.
